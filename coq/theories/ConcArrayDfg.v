(* ConcArrayDfg.v — C17 instances for FOR and delta (FOR.v, Delta.v):
   concurrent calls on shared read-only inputs with caller-supplied outputs.
   Footprints: C03_for_size_exact_trusted (varintFORSize(meta) bytes),
   C13_for_decode_cap (maxCount elements), C03_delta_u_bound
   (varintDeltaMaxEncodedSize(count) bytes), count elements for the delta
   decoder. *)
Require Import VV.Conc VV.ConcProofs VV.ConcCodec VV.ConcCodec2 VV.ConcArray.
Require Import VV.Base VV.BaseProofs VV.Tagged VV.Delta VV.FOR VV.DeltaProofs VV.FORProofs.
From Coq Require Import List NArith Arith Lia Bool.
Import ListNotations.
Local Open Scope N_scope.

(* ---------------- varintFOREncode(dst, values, count, &meta) ----------------
   values: n uint64_t cells at src (shared); meta: the caller's analysis, its
   count field equal to n (the case in which the encoder trusts it);
   result: [1; bytes written], or [0] where the C is undefined *)
Definition for_enc_fn (meta : for_meta) (vs : list N) : list N * list N :=
  match for_encode (map u64 vs) (Some meta) with
  | Some (bs, _) => (bs, [1; N.of_nat (length bs)])
  | None => ([], [0])
  end.

Lemma for_enc_fn_bound meta vs :
  vs <> [] -> N.of_nat (length vs) < 1152921504606846976 -> fm_count meta = N.of_nat (length vs) ->
  (length (fst (for_enc_fn meta vs)) <= N.to_nat (for_size meta))%nat.
Proof.
  intros Hne Hn Hc. unfold for_enc_fn.
  destruct (for_encode (map u64 vs) (Some meta)) as [[bs m']|] eqn:E; cbn [fst length]; [|lia].
  destruct (for_size_exact_trusted (map u64 vs) meta bs m') as [S _].
  - destruct vs; [contradiction|discriminate].
  - rewrite map_length. exact Hn.
  - rewrite map_length. exact Hc.
  - exact E.
  - lia.
Qed.

Theorem for_encode_threads_safe (ps : list (io * for_meta)) (m0 : mem) :
  (forall p, In p ps -> io_n (fst p) <> 0%nat /\
     N.of_nat (io_n (fst p)) < 1152921504606846976 /\ fm_count (snd p) = N.of_nat (io_n (fst p))) ->
  (forall i j pi pj, i <> j -> nth_error ps i = Some pi -> nth_error ps j = Some pj ->
     forall l, in_range (io_dst (fst pj)) (N.to_nat (for_size (snd pj))) l ->
       ~ in_range (io_dst (fst pi)) (N.to_nat (for_size (snd pi))) l /\
       ~ in_range (io_src (fst pi)) (io_n (fst pi)) l) ->
  forall sched,
  let ths := map (fun p => prog1 (io_src (fst p)) (io_n (fst p)) (io_dst (fst p)) (for_enc_fn (snd p))) ps in
  ~ races (snd (crun sched (m0, ths))) /\
  forall i p r, nth_error ps i = Some p ->
    nth_error (snd (crun sched (m0, ths))) i = Some (Ret r) ->
    let res := for_enc_fn (snd p) (peek m0 (io_src (fst p)) (io_n (fst p))) in
    r = snd res /\
    forall j, (j < length (fst res))%nat ->
      fst (crun sched (m0, ths)) (io_dst (fst p) + N.of_nat j) = nth j (fst res) 0.
Proof.
  intros V AP sched.
  refine (family1_safe (io * for_meta) (fun p => io_src (fst p)) (fun p => io_n (fst p))
            (fun p => io_dst (fst p)) (fun p => N.to_nat (for_size (snd p)))
            (fun p => for_enc_fn (snd p)) ps m0 _ AP sched).
  intros p Hp bs Hl. destruct (V p Hp) as (V1 & V2 & V3).
  apply for_enc_fn_bound; rewrite ?Hl; try assumption.
  intros ->. cbn [length] in Hl. congruence.
Qed.

(* ---------------- varintFORDecode(src, values, maxCount) ----------------
   the encoding: n byte cells at src (shared); output: at most maxCount
   uint64_t cells at dst; result [1; count], or [0] where the C is undefined *)
Definition for_dec_fn (cap : N) (bs : list N) : list N * list N :=
  match for_decode bs cap with
  | Some (r, out) => (out, [1; r])
  | None => ([], [0])
  end.

Lemma for_dec_fn_bound cap bs : (length (fst (for_dec_fn cap bs)) <= N.to_nat cap)%nat.
Proof.
  unfold for_dec_fn. destruct (for_decode bs cap) as [[r out]|] eqn:E; cbn [fst length]; [|lia].
  destruct (for_decode_cap bs cap r out E). lia.
Qed.

Theorem for_decode_threads_safe (ps : list (io * N)) (m0 : mem) :
  (forall i j pi pj, i <> j -> nth_error ps i = Some pi -> nth_error ps j = Some pj ->
     forall l, in_range (io_dst (fst pj)) (N.to_nat (snd pj)) l ->
       ~ in_range (io_dst (fst pi)) (N.to_nat (snd pi)) l /\
       ~ in_range (io_src (fst pi)) (io_n (fst pi)) l) ->
  forall sched,
  let ths := map (fun p => prog1 (io_src (fst p)) (io_n (fst p)) (io_dst (fst p)) (for_dec_fn (snd p))) ps in
  ~ races (snd (crun sched (m0, ths))) /\
  forall i p r, nth_error ps i = Some p ->
    nth_error (snd (crun sched (m0, ths))) i = Some (Ret r) ->
    let res := for_dec_fn (snd p) (peek m0 (io_src (fst p)) (io_n (fst p))) in
    r = snd res /\
    forall j, (j < length (fst res))%nat ->
      fst (crun sched (m0, ths)) (io_dst (fst p) + N.of_nat j) = nth j (fst res) 0.
Proof.
  intros AP sched.
  refine (family1_safe (io * N) (fun p => io_src (fst p)) (fun p => io_n (fst p))
            (fun p => io_dst (fst p)) (fun p => N.to_nat (snd p))
            (fun p => for_dec_fn (snd p)) ps m0 _ AP sched).
  intros p _ bs _. apply for_dec_fn_bound.
Qed.

(* ---------------- varintDeltaEncodeUnsigned(output, values, count) ---------------- *)
Definition delta_enc_fn (vs : list N) : list N * list N :=
  (delta_encode_u (map u64 vs), [N.of_nat (length (delta_encode_u (map u64 vs)))]).

Lemma delta_enc_fn_bound vs : N.of_nat (length vs) < 1152921504606846976 ->
  (length (fst (delta_enc_fn vs)) <= N.to_nat (delta_max_encoded_size (N.of_nat (length vs))))%nat.
Proof.
  intro Hn. unfold delta_enc_fn. cbn [fst].
  pose proof (delta_u_bound (map u64 vs) (map_u64_ok vs)) as H. rewrite map_length in H.
  specialize (H Hn). lia.
Qed.

Theorem delta_encode_threads_safe (ps : list io) (m0 : mem) :
  (forall p, In p ps -> N.of_nat (io_n p) < 1152921504606846976) ->
  (forall i j pi pj, i <> j -> nth_error ps i = Some pi -> nth_error ps j = Some pj ->
     forall l, in_range (io_dst pj) (N.to_nat (delta_max_encoded_size (N.of_nat (io_n pj)))) l ->
       ~ in_range (io_dst pi) (N.to_nat (delta_max_encoded_size (N.of_nat (io_n pi)))) l /\
       ~ in_range (io_src pi) (io_n pi) l) ->
  forall sched,
  let ths := map (fun p => prog1 (io_src p) (io_n p) (io_dst p) delta_enc_fn) ps in
  ~ races (snd (crun sched (m0, ths))) /\
  forall i p r, nth_error ps i = Some p ->
    nth_error (snd (crun sched (m0, ths))) i = Some (Ret r) ->
    let res := delta_enc_fn (peek m0 (io_src p) (io_n p)) in
    r = snd res /\
    forall j, (j < length (fst res))%nat ->
      fst (crun sched (m0, ths)) (io_dst p + N.of_nat j) = nth j (fst res) 0.
Proof.
  intros V AP sched.
  refine (family1_safe io io_src io_n io_dst
            (fun p => N.to_nat (delta_max_encoded_size (N.of_nat (io_n p))))
            (fun _ => delta_enc_fn) ps m0 _ AP sched).
  intros p Hp bs Hl. rewrite <- Hl. apply delta_enc_fn_bound. rewrite Hl. apply V. exact Hp.
Qed.

(* ---------------- varintDeltaDecodeUnsigned(input, count, output) ----------------
   result [1; bytes consumed], or [0] where the C is undefined (a width byte
   outside 1..8) — then nothing is modelled as written *)
Definition delta_dec_fn (count : nat) (bs : list N) : list N * list N :=
  match delta_decode_u bs count with
  | Some (used, vs) => (vs, [1; used])
  | None => ([], [0])
  end.

Lemma delta_decode_u_loop_length n : forall p cur u vs,
  delta_decode_u_loop p n cur = Some (u, vs) -> length vs = n.
Proof.
  induction n as [|n IH]; intros p cur u vs H; cbn [delta_decode_u_loop] in H.
  - injection H as _ <-. reflexivity.
  - destruct (delta_get p) as [[used d]|]; [|discriminate].
    destruct (delta_decode_u_loop _ n _) as [[u' vs']|] eqn:E; [|discriminate].
    injection H as _ <-. cbn [length]. f_equal. exact (IH _ _ _ _ E).
Qed.

Lemma delta_dec_fn_bound count bs : (length (fst (delta_dec_fn count bs)) <= count)%nat.
Proof.
  unfold delta_dec_fn. destruct (delta_decode_u bs count) as [[used vs]|] eqn:E; cbn [fst length]; [|lia].
  unfold delta_decode_u in E. destruct count as [|n].
  - injection E as _ <-. cbn [length]. lia.
  - destruct (dfg_ext_get _ _) as [base|]; [|discriminate].
    destruct (delta_decode_u_loop _ n base) as [[u vs']|] eqn:L; [|discriminate].
    injection E as _ <-. cbn [length]. rewrite (delta_decode_u_loop_length _ _ _ _ _ L). lia.
Qed.

Theorem delta_decode_threads_safe (ps : list (io * nat)) (m0 : mem) :
  (forall i j pi pj, i <> j -> nth_error ps i = Some pi -> nth_error ps j = Some pj ->
     forall l, in_range (io_dst (fst pj)) (snd pj) l ->
       ~ in_range (io_dst (fst pi)) (snd pi) l /\
       ~ in_range (io_src (fst pi)) (io_n (fst pi)) l) ->
  forall sched,
  let ths := map (fun p => prog1 (io_src (fst p)) (io_n (fst p)) (io_dst (fst p)) (delta_dec_fn (snd p))) ps in
  ~ races (snd (crun sched (m0, ths))) /\
  forall i p r, nth_error ps i = Some p ->
    nth_error (snd (crun sched (m0, ths))) i = Some (Ret r) ->
    let res := delta_dec_fn (snd p) (peek m0 (io_src (fst p)) (io_n (fst p))) in
    r = snd res /\
    forall j, (j < length (fst res))%nat ->
      fst (crun sched (m0, ths)) (io_dst (fst p) + N.of_nat j) = nth j (fst res) 0.
Proof.
  intros AP sched.
  refine (family1_safe (io * nat) (fun p => io_src (fst p)) (fun p => io_n (fst p))
            (fun p => io_dst (fst p)) (fun p => snd p)
            (fun p => delta_dec_fn (snd p)) ps m0 _ AP sched).
  intros p _ bs _. apply delta_dec_fn_bound.
Qed.

(* ---------------- varintFOREncode(dst, values, count, NULL) ----------------
   the call analyses the values itself: the size depends on what it reads, so
   the window is the worst case of varintFORSize over count 64-bit values,
   9 + 1 + 9 + 8 * count (tagged varints take at most 9 bytes, offsets at most
   8): C03_for_size_exact with width <= 8 *)
Definition for_enc_auto_fn (vs : list N) : list N * list N :=
  match for_encode (map u64 vs) None with
  | Some (bs, _) => (bs, [1; N.of_nat (length bs)])
  | None => ([], [0])
  end.

Lemma for_enc_auto_fn_bound vs :
  vs <> [] -> N.of_nat (length vs) < 1152921504606846976 ->
  (length (fst (for_enc_auto_fn vs)) <= 19 + 8 * length vs)%nat.
Proof.
  intros Hne Hn. unfold for_enc_auto_fn.
  destruct (for_encode (map u64 vs) None) as [[bs m']|] eqn:E; cbn [fst length]; [|lia].
  assert (Hne' : map u64 vs <> []) by (destruct vs; [contradiction|discriminate]).
  destruct (for_size_exact (map u64 vs) None bs m' Hne' (map_u64_ok vs)) as (m & Ha & S & _).
  - rewrite map_length. exact Hn.
  - left. reflexivity.
  - exact E.
  - destruct (for_analyze_spec (map u64 vs) Hne' (map_u64_ok vs)) as (m2 & Ha2 & _ & Hmax & Hrng & Hr & Hc & Hw & _ & Hlt).
    rewrite Ha in Ha2. injection Ha2 as <-. rewrite map_length in Hc.
    assert (R : fm_range m < 18446744073709551616).
    { rewrite Hr. lia. }
    destruct (ext_width_bounds (fm_range m) R) as (W & _).
    unfold for_size, for_size_of in S. rewrite Hc, Hw in S.
    pose proof (TaggedSpecProofs.tagged_len_range (fm_min m)).
    pose proof (TaggedSpecProofs.tagged_len_range (N.of_nat (length vs))).
    assert (M : mul64 (N.of_nat (length vs)) (N.of_nat (ext_width (fm_range m)))
                <= N.of_nat (length vs) * N.of_nat (ext_width (fm_range m))).
    { unfold mul64. apply N.mod_le. lia. }
    assert (U : N.of_nat (length bs) <= tagged_len (fm_min m) + 1 + tagged_len (N.of_nat (length vs))
                  + mul64 (N.of_nat (length vs)) (N.of_nat (ext_width (fm_range m)))).
    { rewrite <- S. unfold u64. apply N.mod_le. lia. }
    nia.
Qed.

Theorem for_encode_auto_threads_safe (ps : list io) (m0 : mem) :
  (forall p, In p ps -> io_n p <> 0%nat /\ N.of_nat (io_n p) < 1152921504606846976) ->
  (forall i j pi pj, i <> j -> nth_error ps i = Some pi -> nth_error ps j = Some pj ->
     forall l, in_range (io_dst pj) (19 + 8 * io_n pj) l ->
       ~ in_range (io_dst pi) (19 + 8 * io_n pi) l /\ ~ in_range (io_src pi) (io_n pi) l) ->
  forall sched,
  let ths := map (fun p => prog1 (io_src p) (io_n p) (io_dst p) for_enc_auto_fn) ps in
  ~ races (snd (crun sched (m0, ths))) /\
  forall i p r, nth_error ps i = Some p ->
    nth_error (snd (crun sched (m0, ths))) i = Some (Ret r) ->
    let res := for_enc_auto_fn (peek m0 (io_src p) (io_n p)) in
    r = snd res /\
    forall j, (j < length (fst res))%nat ->
      fst (crun sched (m0, ths)) (io_dst p + N.of_nat j) = nth j (fst res) 0.
Proof.
  intros V AP sched.
  refine (family1_safe io io_src io_n io_dst (fun p => (19 + 8 * io_n p)%nat)
            (fun _ => for_enc_auto_fn) ps m0 _ AP sched).
  intros p Hp bs Hl. destruct (V p Hp) as [V1 V2]. rewrite <- Hl.
  apply for_enc_auto_fn_bound; rewrite ?Hl; [|exact V2].
  intros ->. cbn [length] in Hl. congruence.
Qed.
