(* Properties_C03_adaptive_src.v — property C03 (encoders never write more than
   their advertised size), adaptive container, with the advertised size taken from
   src_varintAdaptiveMaxSize: the Gallina rendering that gen/c2coq.py regenerates
   from the CURRENT src/varintAdaptive.h on every run (coq/gen/Src_leaf_adaptive.v;
   meaning of the c_* operations: CSem.v).  C integer values are Z; `COk v` = the C
   abstract machine yields v.  adp_encode / adp_encode_with are the hand models of
   the encoders (Adaptive.v); the match extracts the bytes written, also when the
   call reports failure.  Nothing but statements closed by `exact`. *)
Require Import VV.Base VV.CSem VV.Adaptive VV.LeafSrcAdaptive.
Require Import VVgen.Src_leaf_adaptive.
Local Open Scope Z_scope.

(* the regenerated function computes the hand model for every size_t count (wrap included) *)
Theorem C03_src_varintAdaptiveMaxSize_is_model : forall c, 0 <= c < 18446744073709551616 ->
  src_varintAdaptiveMaxSize c = COk (Z.of_N (adp_max_size (Z.to_N c))).
Proof. exact src_varintAdaptiveMaxSize_is_model. Qed.
Print Assumptions C03_src_varintAdaptiveMaxSize_is_model.

(* the bound in closed form (no wrap-around below 2^59 elements) *)
Theorem C03_src_adaptive_max_size_value : forall n, 0 <= n < 576460752303423488 ->
  src_varintAdaptiveMaxSize n = COk (21 + 22 * n).
Proof. exact src_adaptive_max_size_value. Qed.
Print Assumptions C03_src_adaptive_max_size_value.

(* whatever the encoders write stays inside varintAdaptiveMaxSize(count) of the regenerated source *)
Theorem C03_src_adaptive_encode_bound : forall xs,
  Forall (fun x => (x < 18446744073709551616)%N) xs -> (N.of_nat (length xs) < 4294967296)%N ->
  exists mb, src_varintAdaptiveMaxSize (Z.of_nat (length xs)) = COk mb /\
    Z.of_nat (length (match adp_encode xs with AEOk b _ => b | AEFail b => b | AEUB => [] end)) <= mb.
Proof. exact src_adaptive_encode_bound. Qed.
Print Assumptions C03_src_adaptive_encode_bound.

Theorem C03_src_adaptive_encode_with_bound : forall xs e,
  Forall (fun x => (x < 18446744073709551616)%N) xs -> (N.of_nat (length xs) < 4294967296)%N ->
  exists mb, src_varintAdaptiveMaxSize (Z.of_nat (length xs)) = COk mb /\
    Z.of_nat (length (match adp_encode_with xs e with AEOk b _ => b | AEFail b => b | AEUB => [] end)) <= mb.
Proof. exact src_adaptive_encode_with_bound. Qed.
Print Assumptions C03_src_adaptive_encode_with_bound.

(* size_mul_overflow(a, b, &r) — the guard in front of every scratch allocation of
   varintAdaptive.c: it returns 1 exactly when a*b does not fit in size_t, and stores the
   product modulo 2^64 (whatever *r held before, initialised or not) *)
Theorem C03_src_size_mul_overflow_spec : forall a b p,
  0 <= a < 18446744073709551616 -> 0 <= b < 18446744073709551616 ->
  src_size_mul_overflow a b p =
  COk (b2z (18446744073709551616 <=? a * b), Some ((a * b) mod 18446744073709551616)).
Proof. exact src_size_mul_overflow_spec. Qed.
Print Assumptions C03_src_size_mul_overflow_spec.

(* non-vacuity: the regenerated functions on concrete inputs (cf. C03_adaptive_examples) *)
Example C03_src_adaptive_example :
  src_varintAdaptiveMaxSize 0 = COk 21 /\ src_varintAdaptiveMaxSize 1 = COk 43 /\
  src_varintAdaptiveMaxSize 2 = COk 65 /\
  src_size_mul_overflow 1000 8 None = COk (0, Some 8000) /\
  src_size_mul_overflow 2305843009213693952 8 None = COk (1, Some 0) /\
  src_size_mul_overflow 0 8 (Some 7) = COk (0, Some 0).
Proof. vm_compute. repeat split; reflexivity. Qed.
