(* TaggedSpec.v — independently shaped specification of the tagged format
   (transcribed from the DECODE / ENCODE paragraphs of varintTagged.c). *)
Require Import VV.Base.
Local Open Scope N_scope.

Definition tagged_spec (x : N) : list N :=
  if x <=? 240 then [x]
  else if x <=? 2287 then [241 + (x - 240) / 256; (x - 240) mod 256]
  else if x <=? 67823 then [249; (x - 2288) / 256; (x - 2288) mod 256]
  else let k := Nat.max 3 (ext_width x) in (N.of_nat k + 247) :: be_bytes k x.

(* DECODE, by total length *)
Definition tagged_denote (b : list N) : option N :=
  match b with
  | [] => None
  | [a0] => if a0 <=? 240 then Some a0 else None
  | [a0; a1] =>
      if (241 <=? a0) && (a0 <=? 248) then Some (240 + 256 * (a0 - 241) + a1) else None
  | a0 :: rest =>
      if (a0 =? 249) && (length rest =? 2)%nat then
        Some (2288 + 256 * nth 0 rest 0 + nth 1 rest 0)
      else if (250 <=? a0) && (a0 <=? 255) && (N.of_nat (length rest) =? a0 - 247)
      then Some (of_be rest) else None
  end.

(* per-length maxima, as the SUMMARY table *)
Definition tagged_max (k : N) : N :=
  match k with
  | 1 => 240 | 2 => 2287 | 3 => 67823 | 4 => 16777215 | 5 => 4294967295
  | 6 => 1099511627775 | 7 => 281474976710655 | 8 => 72057594037927935
  | 9 => 18446744073709551615 | _ => 0
  end.

(* EXTRACT: tagged_spec tagged_denote tagged_max *)
