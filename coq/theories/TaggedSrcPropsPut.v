(* TaggedSrcPropsPut.v — C04/C05 (and the encoder half of C01) restated about
   the REGENERATED encoder src_varintTaggedPut64 (coq/gen/Src_tagged.v), by
   rewriting with src_varintTaggedPut64_is_model in the theorems about the model. *)
Require Import VV.Base VV.BaseProofs VV.Tagged VV.TaggedProofs VV.TaggedSpec VV.TaggedSpecProofs
  VV.TaggedFixed VV.CSem VV.CSemProofs VV.TaggedSrcLen VV.TaggedSrcPut.
Require Import VVgen.Src_tagged.
From Coq Require Import Lia ZifyBool ZifyN ZifyNat.
Local Open Scope Z_scope.

Lemma bytes_ok_tagged_put64 x : bytes_ok (tagged_put64 x).
Proof.
  unfold tagged_put64, write32. cbv zeta.
  kill_ifs; unfold bytes_ok; repeat (apply Forall_cons || apply Forall_nil || apply Forall_app; try split);
    try apply u8_lt; lia.
Qed.

Lemma firstn_store_0 buf bs : (length bs <= length buf)%nat -> firstn (length bs) (store buf 0 bs) = bs.
Proof.
  intro H. unfold store. cbn [firstn app]. rewrite firstn_app, Nat.sub_diag, firstn_all. cbn [firstn].
  apply app_nil_r.
Qed.

(* what src_varintTaggedPut64 returns, with the written prefix made explicit *)
Lemma src_put64_ok buf x : 0 <= x < 18446744073709551616 -> (9 <= length buf)%nat ->
  exists w out, src_varintTaggedPut64 buf x = COk (w, out) /\
    w = Z.of_N (tagged_len (Z.to_N x)) /\
    firstn (Z.to_nat w) out = tagged_put64 (Z.to_N x) /\
    skipn (Z.to_nat w) out = skipn (Z.to_nat w) buf.
Proof.
  intros Hx Hb. pose proof (tagged_len_range (Z.to_N x)) as Hr.
  pose proof (tagged_put_length_nat (Z.to_N x)) as Hl.
  eexists. eexists. split; [apply src_varintTaggedPut64_is_model; [exact Hx|lia]|].
  split; [reflexivity|].
  replace (Z.to_nat (Z.of_N (tagged_len (Z.to_N x)))) with (length (tagged_put64 (Z.to_N x))) by lia. split.
  - apply firstn_store_0. lia.
  - apply store_0_skipn. lia.
Qed.

(* ---------- C05 ---------- *)

Lemma src_tagged_order a b bufa bufb :
  0 <= a < 18446744073709551616 -> 0 <= b < 18446744073709551616 ->
  (9 <= length bufa)%nat -> (9 <= length bufb)%nat ->
  exists wa oa wb ob,
    src_varintTaggedPut64 bufa a = COk (wa, oa) /\ src_varintTaggedPut64 bufb b = COk (wb, ob) /\
    lex (firstn (Z.to_nat wa) oa) (firstn (Z.to_nat wb) ob) = (a ?= b).
Proof.
  intros Ha Hb La Lb.
  destruct (src_put64_ok bufa a Ha La) as (wa & oa & Ea & _ & Fa & _).
  destruct (src_put64_ok bufb b Hb Lb) as (wb & ob & Eb & _ & Fb & _).
  exists wa, oa, wb, ob. split; [exact Ea|]. split; [exact Eb|].
  rewrite Fa, Fb, tagged_order by lia. rewrite <- Z2N.inj_compare by lia. reflexivity.
Qed.

Lemma src_tagged_injective a b bufa bufb wa oa wb ob :
  0 <= a < 18446744073709551616 -> 0 <= b < 18446744073709551616 ->
  (9 <= length bufa)%nat -> (9 <= length bufb)%nat ->
  src_varintTaggedPut64 bufa a = COk (wa, oa) -> src_varintTaggedPut64 bufb b = COk (wb, ob) ->
  firstn (Z.to_nat wa) oa = firstn (Z.to_nat wb) ob -> a = b.
Proof.
  intros Ha Hb La Lb Ea Eb H.
  destruct (src_put64_ok bufa a Ha La) as (wa' & oa' & Ea' & _ & Fa & _).
  destruct (src_put64_ok bufb b Hb Lb) as (wb' & ob' & Eb' & _ & Fb & _).
  rewrite Ea in Ea'. injection Ea' as <- <-. rewrite Eb in Eb'. injection Eb' as <- <-.
  rewrite Fa, Fb in H. apply tagged_injective in H; lia.
Qed.

Lemma src_tagged_prefix_free a b bufa bufb wa oa wb ob :
  0 <= a < 18446744073709551616 -> 0 <= b < 18446744073709551616 ->
  (9 <= length bufa)%nat -> (9 <= length bufb)%nat ->
  src_varintTaggedPut64 bufa a = COk (wa, oa) -> src_varintTaggedPut64 bufb b = COk (wb, ob) ->
  (exists t, firstn (Z.to_nat wb) ob = firstn (Z.to_nat wa) oa ++ t) -> a = b.
Proof.
  intros Ha Hb La Lb Ea Eb H.
  destruct (src_put64_ok bufa a Ha La) as (wa' & oa' & Ea' & _ & Fa & _).
  destruct (src_put64_ok bufb b Hb Lb) as (wb' & ob' & Eb' & _ & Fb & _).
  rewrite Ea in Ea'. injection Ea' as <- <-. rewrite Eb in Eb'. injection Eb' as <- <-.
  rewrite Fa, Fb in H. apply tagged_prefix_free in H; lia.
Qed.

(* ---------- C04 ---------- *)

Lemma src_tagged_put_is_spec buf x : 0 <= x < 18446744073709551616 -> (9 <= length buf)%nat ->
  exists w out, src_varintTaggedPut64 buf x = COk (w, out) /\
    firstn (Z.to_nat w) out = tagged_spec (Z.to_N x) /\
    skipn (Z.to_nat w) out = skipn (Z.to_nat w) buf.
Proof.
  intros Hx Hb. destruct (src_put64_ok buf x Hx Hb) as (w & out & E & _ & F & S).
  exists w, out. split; [exact E|]. split; [|exact S]. rewrite F. apply tagged_put_is_spec. lia.
Qed.

