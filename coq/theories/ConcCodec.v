(* ConcCodec.v — codec calls as programs of the interleaving semantics:
   an encoder call writes the bytes its model produces to its destination,
   a decoder call reads its (possibly shared) input and returns what the model
   returns.  Instantiates ConcProofs for the tagged codec. *)
Require Import VV.Conc VV.ConcProofs VV.Base VV.Tagged VV.TaggedProofs VV.TaggedSpecProofs.
From Coq Require Import List NArith Arith Lia Bool.
Import ListNotations.
Local Open Scope N_scope.

(* write bs at dst, dst+1, …, then continue *)
Fixpoint write_bytes (dst : loc) (bs : list N) (k : prog) : prog :=
  match bs with
  | [] => k
  | b :: t => Wr dst b (write_bytes (dst + 1) t k)
  end.

(* read n bytes from src, then continue with the bytes read *)
Fixpoint read_bytes (src : loc) (n : nat) (acc : list N) (k : list N -> prog) : prog :=
  match n with
  | O => k (rev acc)
  | S m => Rd src (fun v => read_bytes (src + 1) m (v :: acc) k)
  end.

Definition in_range (lo : loc) (len : nat) (l : loc) : Prop := lo <= l < lo + N.of_nat len.

Lemma within_write_bytes (R W : loc -> Prop) dst bs k :
  (forall l, in_range dst (length bs) l -> W l) -> within R W k ->
  within R W (write_bytes dst bs k).
Proof.
  revert dst. induction bs as [|b t IH]; intros dst Hw Hk; cbn [write_bytes]; [exact Hk|].
  constructor.
  - apply Hw. unfold in_range. cbn [length]. lia.
  - apply IH; [|exact Hk]. intros l Hl. apply Hw. unfold in_range in *. cbn [length]. lia.
Qed.

Lemma within_read_bytes (R W : loc -> Prop) src n acc k :
  (forall l, in_range src n l -> R l) -> (forall bs, within R W (k bs)) ->
  within R W (read_bytes src n acc k).
Proof.
  revert src acc. induction n as [|m IH]; intros src acc Hr Hk; cbn [read_bytes]; [apply Hk|].
  constructor.
  - left. apply Hr. unfold in_range. lia.
  - intro v. apply IH; [|exact Hk]. intros l Hl. apply Hr. unfold in_range in *. lia.
Qed.

Lemma run_write_ret m dst bs r : snd (run m (write_bytes dst bs (Ret r))) = r.
Proof. revert m dst. induction bs as [|b t IH]; intros m dst; cbn [write_bytes run]; [reflexivity|apply IH]. Qed.

Lemma run_write_frame m dst bs r l : l < dst ->
  fst (run m (write_bytes dst bs (Ret r))) l = m l.
Proof.
  revert m dst. induction bs as [|b t IH]; intros m dst Hl; cbn [write_bytes run fst]; [reflexivity|].
  rewrite IH by lia. apply upd_other. lia.
Qed.

Lemma run_write_mem m dst bs r j : (j < length bs)%nat ->
  fst (run m (write_bytes dst bs (Ret r))) (dst + N.of_nat j) = nth j bs 0.
Proof.
  revert m dst j. induction bs as [|b t IH]; intros m dst j Hj; cbn [length] in Hj; [lia|].
  cbn [write_bytes run]. destruct j as [|j].
  - replace (dst + N.of_nat 0) with dst by lia. rewrite run_write_frame by lia.
    cbn [nth]. apply upd_same.
  - replace (dst + N.of_nat (S j)) with (dst + 1 + N.of_nat j) by lia.
    cbn [nth]. apply IH. lia.
Qed.

Definition mem0 : mem := fun _ => 0.

(* a tagged encoder call: write the model's bytes at dst, return their number *)
Definition tagged_put_call (dst : loc) (x : N) : prog :=
  write_bytes dst (tagged_put64 x) (Ret [tagged_len x]).

(* a tagged decoder call on a (shared) input of 9 readable bytes *)
Definition tagged_get_call (src : loc) : prog :=
  read_bytes src 9 [] (fun bs => Ret [fst (tagged_get bs 9); snd (tagged_get bs 9)]).

Lemma tagged_put_call_within dst x :
  within (fun _ => False) (in_range dst (length (tagged_put64 x))) (tagged_put_call dst x).
Proof. apply within_write_bytes; [auto|constructor]. Qed.

Lemma tagged_get_call_within src :
  within (in_range src 9) (fun _ => False) (tagged_get_call src).
Proof. apply within_read_bytes; [auto|intro; constructor]. Qed.

(* n encoder threads with pairwise disjoint destinations plus any number of
   decoder threads that only read: whatever the schedule, an encoder that has
   finished returned its length and its bytes are in its destination *)
Section TaggedThreads.
  Variable dsts : list loc.
  Variable xs : list N.
  Hypothesis same_len : length dsts = length xs.
  Hypothesis disjoint_dst : forall i j, i <> j -> (i < length dsts)%nat -> (j < length dsts)%nat ->
    forall l, in_range (nth i dsts 0) 9 l -> ~ in_range (nth j dsts 0) 9 l.
  Variable srcs : list loc.   (* readers: shared inputs, disjoint from every destination *)
  Hypothesis readers_apart : forall i s l, (i < length dsts)%nat -> In s srcs ->
    in_range (nth i dsts 0) 9 l -> ~ in_range s 9 l.

  Definition threads : list prog :=
    map (fun dx => tagged_put_call (fst dx) (snd dx)) (combine dsts xs) ++ map tagged_get_call srcs.

  Definition Rs (i : nat) (l : loc) : Prop :=
    if Nat.ltb i (length dsts) then False
    else match nth_error srcs (i - length dsts) with Some s => in_range s 9 l | None => False end.
  Definition Ws (i : nat) (l : loc) : Prop :=
    if Nat.ltb i (length dsts) then in_range (nth i dsts 0) (length (tagged_put64 (nth i xs 0))) l else False.

  Lemma put_len_le9 x : (length (tagged_put64 x) <= 9)%nat.
  Proof. pose proof (tagged_put_length x). pose proof (tagged_len_range x). lia. Qed.

  Lemma threads_nth_put i : (i < length dsts)%nat ->
    nth_error threads i = Some (tagged_put_call (nth i dsts 0) (nth i xs 0)).
  Proof.
    intro Hi. unfold threads. rewrite nth_error_app1 by (rewrite map_length, combine_length; lia).
    rewrite nth_error_map. rewrite (nth_error_nth' (combine dsts xs) (0, 0)) by (rewrite combine_length; lia).
    cbn [option_map]. rewrite combine_nth by exact same_len. reflexivity.
  Qed.

  Lemma threads_nth_get i p : (length dsts <= i)%nat -> nth_error threads i = Some p ->
    p = tagged_get_call (nth (i - length dsts) srcs 0) /\ (i - length dsts < length srcs)%nat.
  Proof.
    intros Hi H. unfold threads in H.
    rewrite nth_error_app2 in H by (rewrite map_length, combine_length; lia).
    rewrite map_length, combine_length in H. replace (Nat.min (length dsts) (length xs)) with (length dsts) in H by lia.
    rewrite nth_error_map in H. destruct (nth_error srcs (i - length dsts)) as [s|] eqn:E; [|discriminate].
    cbn [option_map] in H. injection H as <-.
    split; [|apply nth_error_Some; congruence].
    f_equal. symmetry. apply nth_error_nth. exact E.
  Qed.

  Lemma threads_footprints i p : nth_error threads i = Some p -> within (Rs i) (Ws i) p.
  Proof.
    intro H. unfold Rs, Ws. destruct (Nat.ltb_spec i (length dsts)) as [L|G].
    - rewrite threads_nth_put in H by exact L. injection H as <-.
      apply within_write_bytes; [auto|constructor].
    - destruct (threads_nth_get i p G H) as [-> Hs].
      rewrite (nth_error_nth' srcs 0 Hs).
      apply within_read_bytes; [auto|intro; constructor].
  Qed.

  Lemma threads_disjoint i j l : i <> j -> Ws j l -> ~ (Rs i l \/ Ws i l).
  Proof.
    unfold Rs, Ws. intros NE Wj.
    destruct (Nat.ltb_spec j (length dsts)) as [Lj|Gj]; [|contradiction].
    assert (Wj9 : in_range (nth j dsts 0) 9 l).
    { unfold in_range in *. pose proof (put_len_le9 (nth j xs 0)). lia. }
    destruct (Nat.ltb_spec i (length dsts)) as [Li|Gi].
    - intros [F|Wi]; [exact F|].
      assert (Wi9 : in_range (nth i dsts 0) 9 l).
      { unfold in_range in *. pose proof (put_len_le9 (nth i xs 0)). lia. }
      exact (disjoint_dst j i (fun e => NE (eq_sym e)) Lj Li l Wj9 Wi9).
    - intros [Ri|F]; [|exact F].
      destruct (nth_error srcs (i - length dsts)) as [s|] eqn:E; [|exact Ri].
      exact (readers_apart j s l Lj (nth_error_In _ _ E) Wj9 Ri).
  Qed.

  (* every schedule: a finished encoder returned its length and its bytes
     are in place; nothing races *)
  Theorem tagged_threads_safe sched :
    ~ races (snd (crun sched (mem0, threads))) /\
    forall i r, (i < length dsts)%nat ->
      nth_error (snd (crun sched (mem0, threads))) i = Some (Ret r) ->
      r = [tagged_len (nth i xs 0)] /\
      forall j, (j < length (tagged_put64 (nth i xs 0%N)))%nat ->
        fst (crun sched (mem0, threads)) (nth i dsts 0 + N.of_nat j) = nth j (tagged_put64 (nth i xs 0)) 0.
  Proof.
    split.
    - apply (interleaving_race_free Rs Ws threads_disjoint mem0 threads threads_footprints).
    - intros i r Hi Hr.
      destruct (interleaving_sequentially_equivalent Rs Ws threads_disjoint mem0 threads
                  threads_footprints sched i _ r (threads_nth_put i Hi) Hr) as [Er Em].
      unfold tagged_put_call in Er, Em. rewrite run_write_ret in Er. split; [exact Er|].
      intros j Hj. rewrite Em.
      + apply run_write_mem. exact Hj.
      + right. unfold Ws. destruct (Nat.ltb_spec i (length dsts)); [|lia]. unfold in_range. lia.
  Qed.
End TaggedThreads.
