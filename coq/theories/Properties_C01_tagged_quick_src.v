(* Properties_C01_tagged_quick_src.v — C01 for the function-like macros of
   varintTagged.h (varintTaggedLenQuick, varintTaggedGetLenQuick_,
   varintTaggedPut64FixedWidthQuick_, varintTaggedGet64Quick_).  gen/c2coq.py
   translates them after expansion, through generated wrapper functions
   q_<macro>(args) { <macro>(args); } compiled against the CURRENT header
   (coq/gen/Src_tagged.v, definitions src_q_...). *)
Require Import VV.Base VV.CSem VV.TaggedSrcPropsQuick.
Require Import VVgen.Src_tagged.
Local Open Scope Z_scope.

(* the macros agree with the functions they abbreviate: same length, same
   length read back, same bytes written, and the quick reader returns the value
   the encoder wrote *)
Theorem C01_src_tagged_quick : 
  (forall x, 0 <= x < 18446744073709551616 -> src_q_varintTaggedLenQuick x = src_varintTaggedLen x) /\
  (forall z, z <> [] -> bytes_ok z -> src_q_varintTaggedGetLenQuick_ z = src_varintTaggedGetLen z) /\
  (forall buf x w, 0 <= x < 18446744073709551616 -> 0 <= w <= 4294967295 -> (9 <= length buf)%nat ->
     exists w' out, src_varintTaggedPut64FixedWidth buf x w = COk (w', out) /\
                    src_q_varintTaggedPut64FixedWidthQuick_ buf x w = COk out) /\
  (forall x buf tl, 0 <= x < 18446744073709551616 -> (9 <= length buf)%nat -> bytes_ok tl ->
     exists w out, src_varintTaggedPut64 buf x = COk (w, out) /\
                   src_q_varintTaggedGet64Quick_ (firstn (Z.to_nat w) out ++ tl) = COk x).
Proof. exact src_tagged_quick_agree. Qed.
Print Assumptions C01_src_tagged_quick.

Example C01_src_tagged_quick_example :
  src_q_varintTaggedLenQuick 16777216 = COk 5 /\
  src_q_varintTaggedGet64Quick_ [249; 255; 255]%N = COk 67823 /\
  src_q_varintTaggedPut64FixedWidthQuick_ [9; 9; 9]%N 241 2 = COk [241; 1; 9]%N.
Proof. vm_compute. repeat split; reflexivity. Qed.
