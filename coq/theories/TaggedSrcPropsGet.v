(* TaggedSrcPropsGet.v — C14 restated about the REGENERATED bounded reader
   src_varintTaggedGet (coq/gen/Src_tagged.v), by rewriting with
   src_varintTaggedGet_is_model in the theorems about the model. *)
Require Import VV.Base VV.BaseProofs VV.Tagged VV.TaggedProofs VV.TaggedFixed VV.CSem VV.CSemProofs VV.TaggedSrcGet.
Require Import VVgen.Src_tagged.
From Coq Require Import Lia ZifyBool ZifyN ZifyNat.
Local Open Scope Z_scope.

(* ---------- C14 ---------- *)

(* handing over only the first n bytes changes nothing: with checked loads this
   says that no index >= n is loaded (such a load would be COob on the cut list) *)
Lemma src_tagged_get_bounded z n r :
  bytes_ok z -> 0 <= n <= 2147483647 -> n <= Z.of_nat (length z) ->
  src_varintTaggedGet (firstn (Z.to_nat n) z) n r = src_varintTaggedGet z n r /\
  exists w v, src_varintTaggedGet z n r = COk (w, v).
Proof.
  intros Hz Hn Hl.
  assert (Hz' : bytes_ok (firstn (Z.to_nat n) z)).
  { unfold bytes_ok in *. rewrite <- (firstn_skipn (Z.to_nat n) z) in Hz. apply Forall_app in Hz. apply Hz. }
  rewrite (src_varintTaggedGet_is_model z) by (try assumption; lia).
  rewrite (src_varintTaggedGet_is_model (firstn (Z.to_nat n) z)); [|exact Hz'|lia|rewrite firstn_length; lia].
  split; [|eexists; eexists; reflexivity].
  unfold get_result. rewrite (tagged_get_noninterference (firstn (Z.to_nat n) z) z n); [reflexivity|].
  rewrite firstn_firstn, Nat.min_id. reflexivity.
Qed.

Lemma src_tagged_get_short z n r :
  bytes_ok z -> -2147483648 <= n <= 2147483647 -> n <= Z.of_nat (length z) ->
  n < Z.of_N (tagged_getlen z) -> src_varintTaggedGet z n r = COk (0, r).
Proof.
  intros Hz Hn Hl Hs. rewrite src_varintTaggedGet_is_model by (try assumption; lia).
  unfold get_result. rewrite tagged_get_short by (try apply byte_at_lt; assumption). reflexivity.
Qed.

