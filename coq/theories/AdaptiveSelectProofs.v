(* AdaptiveSelectProofs.v — what varintAdaptiveAnalyze reports and what a
   selection implies about the input: only the INTEGER conjuncts of the decision
   tree are used (the three binary32 tests never appear in a proof). *)
Require Import VV.Base VV.BaseProofs VV.Tagged VV.FOR VV.FORProofs.
Require Import VV.RLELemmas VV.Dict VV.DictProofs.
Require Import VV.Adaptive VV.AdaptiveLemmas VV.AdaptiveDictProofs.
From Coq Require Import Lia ZifyBool ZifyN ZifyNat Sorted.
Local Open Scope N_scope.
Ltac Zify.zify_post_hook ::= Z.div_mod_to_equations.

(* ---------- the selection is one of the six codes ---------- *)
Lemma adp_select_range s : adp_select s <= 5.
Proof.
  unfold adp_select, ADP_TAGGED, ADP_DICT, ADP_BITMAP, ADP_DELTA, ADP_PFOR, ADP_FOR.
  repeat match goal with |- context [if ?b then _ else _] => destruct b end; lia.
Qed.

Lemma adp_select_small_count s : as_count s <= 1 -> adp_select s = 5.
Proof.
  intro H. unfold adp_select, ADP_TAGGED.
  destruct (as_count s =? 0) eqn:E0; [reflexivity|].
  destruct (as_count s =? 1) eqn:E1; [reflexivity|]. lia.
Qed.

(* BITMAP is selected only under these integer conditions *)
Lemma adp_select_bitmap s : adp_select s = 4 ->
  as_fits s = true /\ as_unique s = as_count s /\ as_sorted s = true /\ 0 < as_range s /\
  2 <= as_count s < 10000.
Proof.
  unfold adp_select, ADP_TAGGED, ADP_DICT, ADP_BITMAP, ADP_DELTA, ADP_PFOR, ADP_FOR.
  destruct (as_count s =? 0) eqn:E0; [discriminate|].
  destruct (as_count s =? 1) eqn:E1; [discriminate|].
  destruct (adp_f32_lt (as_unique_ratio s) adp_f015); [discriminate|].
  destruct (as_fits s) eqn:F; cbn [andb].
  2:{ repeat match goal with |- context [if ?b then _ else _] => destruct b end; discriminate. }
  destruct (as_unique s =? as_count s) eqn:U; cbn [andb].
  2:{ repeat match goal with |- context [if ?b then _ else _] => destruct b end; discriminate. }
  destruct (as_sorted s) eqn:S; cbn [andb].
  2:{ repeat match goal with |- context [if ?b then _ else _] => destruct b end; discriminate. }
  destruct (0 <? as_range s) eqn:R; cbn [andb].
  2:{ repeat match goal with |- context [if ?b then _ else _] => destruct b end; discriminate. }
  destruct (as_count s <? 10000) eqn:C; cbn [andb].
  2:{ repeat match goal with |- context [if ?b then _ else _] => destruct b end; discriminate. }
  intros _. repeat split; try reflexivity; lia.
Qed.

(* ---------- fields of the analysis ---------- *)
Lemma adp_analyze_fields v0 rest :
  let xs := v0 :: rest in
  let s := adp_analyze xs in
  as_count s = N.of_nat (length xs) /\
  as_max s = snd (for_minmax v0 v0 rest) /\ as_min s = fst (for_minmax v0 v0 rest) /\
  as_range s = as_max s - as_min s /\
  as_fits s = (as_max s <? 65536) /\
  as_sorted s = (adp_check_sorted xs =? 1)%Z /\
  as_rsorted s = (adp_check_sorted xs =? -1)%Z /\
  as_unique s = adp_count_unique xs.
Proof.
  cbv zeta. unfold adp_analyze. rewrite adp_len_spec.
  destruct (for_minmax v0 v0 rest) as [mn mx]. cbn [fst snd].
  destruct (0 <? mx - mn); cbn [as_count as_max as_min as_range as_fits as_sorted as_rsorted as_unique];
    repeat split; reflexivity.
Qed.

(* ---------- varintAdaptiveCheckSorted = 1 means ascending ---------- *)
Lemma adp_sorted_loop_asc vs : forall prev asc desc,
  adp_sorted_loop prev vs asc desc = 1%Z -> asc = true /\ Sorted N.le (prev :: vs).
Proof.
  induction vs as [|v t IH]; intros prev asc desc H.
  - cbn [adp_sorted_loop] in H. destruct asc; [|destruct desc; discriminate].
    split; [reflexivity|]. constructor; constructor.
  - cbn [adp_sorted_loop] in H.
    set (asc' := if v <? prev then false else asc) in *.
    set (desc' := if prev <? v then false else desc) in *.
    destruct (negb asc' && negb desc'); [discriminate|].
    apply IH in H. destruct H as (A & S).
    subst asc'. destruct (v <? prev) eqn:E; [discriminate|].
    split; [exact A|]. constructor; [exact S|]. constructor. lia.
Qed.

Lemma adp_check_sorted_asc xs : adp_check_sorted xs = 1%Z -> Sorted N.le xs.
Proof.
  unfold adp_check_sorted. destruct xs as [|v0 rest]; [constructor|].
  destruct rest as [|v1 r]; [intros _; constructor; constructor|].
  intro H. apply adp_sorted_loop_asc in H. apply H.
Qed.

(* ascending without repetition = strictly increasing *)
Lemma sorted_le_nodup_lt xs : Sorted N.le xs -> NoDup xs -> StronglySorted N.lt xs.
Proof.
  intros S ND. apply Sorted_StronglySorted in S; [|intros a b c; lia].
  induction S as [|a l S IH F]; [constructor|].
  inversion ND as [|? ? Hnotin ND']; subst.
  constructor; [apply IH; exact ND'|].
  rewrite Forall_forall in *. intros x Hx. specialize (F x Hx).
  assert (a <> x) by (intro; subst; contradiction). lia.
Qed.

(* ---------- exact distinct count (count <= 10000) ---------- *)
Lemma adp_count_unique_exact xs : 2 <= N.of_nat (length xs) <= 10000 ->
  adp_count_unique xs = N.of_nat (length (dict_values_of xs)).
Proof.
  intro H. unfold adp_count_unique. cbv zeta. rewrite adp_len_spec.
  destruct (N.of_nat (length xs) =? 0) eqn:E0; [lia|].
  destruct (N.of_nat (length xs) =? 1) eqn:E1; [lia|].
  destruct (10000 <? N.of_nat (length xs)) eqn:E2; [lia|].
  unfold adp_distinct_sorted. rewrite adp_len_spec. reflexivity.
Qed.

Lemma distinct_count_full_nodup xs : length (dict_values_of xs) = length xs -> NoDup xs.
Proof.
  intro H. destruct (dict_values_of_spec xs) as (Hs & Hin).
  apply (@NoDup_incl_NoDup N (dict_values_of xs) xs).
  - apply sdist_NoDup. exact Hs.
  - lia.
  - intros x Hx. apply Hin. exact Hx.
Qed.

(* ---------- soundness of the BITMAP selection ---------- *)
Theorem adp_select_bitmap_sound xs : adp_select (adp_analyze xs) = 4 ->
  StronglySorted N.lt xs /\ Forall (fun v => v < 65536) xs /\ 2 <= N.of_nat (length xs) < 10000.
Proof.
  intro H. apply adp_select_bitmap in H.
  destruct xs as [|v0 rest].
  { cbn in H. destruct H as (_ & _ & _ & _ & C). lia. }
  destruct (adp_analyze_fields v0 rest) as (Fc & Fmx & Fmn & Fr & Ff & Fs & _ & Fu).
  cbv zeta in *. set (xs := v0 :: rest) in *. set (s := adp_analyze xs) in *.
  destruct H as (Hf & Hu & Hs & Hr & Hc).
  rewrite Fc in Hc, Hu.
  assert (S : Sorted N.le xs).
  { apply adp_check_sorted_asc. rewrite Fs in Hs. lia. }
  assert (ND : NoDup xs).
  { apply distinct_count_full_nodup. rewrite Fu in Hu.
    assert (HH : 2 <= N.of_nat (length xs) <= 10000) by (destruct Hc; split; [assumption|apply N.lt_le_incl; assumption]).
    rewrite (adp_count_unique_exact xs HH) in Hu. apply Nat2N.inj. exact Hu. }
  split; [apply sorted_le_nodup_lt; assumption|]. split; [|lia].
  rewrite Ff in Hf. rewrite Fmx in Hf.
  destruct (for_minmax v0 v0 rest) as [mn mx] eqn:MM. cbn [snd] in Hf.
  destruct (for_minmax_spec rest v0 v0 mn mx MM) as (A & B & C & _ & _).
  apply Forall_forall. intros x [<-|Hx]; [lia|]. specialize (C x Hx). lia.
Qed.

(* every other selection needs at least two values *)
Lemma adp_select_count xs : adp_select (adp_analyze xs) <> 5 -> (2 <= length xs)%nat.
Proof.
  intro H. destruct xs as [|v0 rest].
  { exfalso. apply H. reflexivity. }
  destruct (adp_analyze_fields v0 rest) as (Fc & _). cbv zeta in Fc.
  destruct (N.le_gt_cases (as_count (adp_analyze (v0 :: rest))) 1) as [L|G].
  - exfalso. apply H. apply adp_select_small_count. exact L.
  - rewrite Fc in G. lia.
Qed.
