(* Properties_C07_float_real.v — real-valued corollary of C07_float_rel_error.
   fl_R d = B2R (b64_of_bits d) is the real number a binary64 pattern denotes
   (Flocq).  Depends on the standard library's axioms for the reals. *)
Require Import VV.Base VV.Float VV.FloatSpec VV.FloatReal.
From Flocq Require Import Core Binary Bits.
From Coq Require Import Reals.
Local Open Scope N_scope.

Theorem C07_float_rel_error_real : forall ds prec mode rest,
  Forall (fun d => d < 18446744073709551616) ds -> mode <= 2 ->
  prec = 1 \/ prec = 2 \/ prec = 3 ->
  exists outs,
    fl_decode (fl_encode ds prec mode ++ rest) (length ds)
      = Some (N.of_nat (length (fl_encode ds prec mode)), outs) /\
    Forall2 (fun d d' =>
      fl_is_special d = false ->
      fl_is_inf d' = true \/
      (Rabs (B2R 53 1024 (b64_of_bits (Z.of_N d')) - B2R 53 1024 (b64_of_bits (Z.of_N d)))
       <= bpow radix2 (- Z.of_N (fl_mant_bits prec)) * Rabs (B2R 53 1024 (b64_of_bits (Z.of_N d))))%R)
      ds outs.
Proof. exact float_rel_error_real. Qed.
Print Assumptions C07_float_rel_error_real.
