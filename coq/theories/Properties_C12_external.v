(* placeholder — replaced below *)
Require Import VV.Base VV.External.
Local Open Scope N_scope.
Theorem C12_external_placeholder : ext_put 0 = [0].
Proof. exact (eq_refl : ext_put 0 = [0]). Qed.
Print Assumptions C12_external_placeholder.
