(* Properties_C12_external.v — property C12 for varintExternalAddNoGrow /
   varintExternalAddGrow (external_add p w add force: p the buffer, w the
   current width 1..8, force = grow form; result (returned width, buffer)).
   `u` is the stored value as read by varintExternalGet; it is reinterpreted
   as int64_t (to_s64) exactly as the C does. *)
Require Import VV.Base VV.External VV.ExternalAddProofs.
Local Open Scope N_scope.

(* defined for every legal width; the returned width never exceeds 8 *)
Theorem C12_external_add_defined : forall p w add force, (1 <= w <= 8)%nat ->
  exists r buf, external_add p w add force = Some (r, buf) /\ (r <= 8)%nat.
Proof. exact add_defined. Qed.
Print Assumptions C12_external_add_defined.

(* signed sum outside int64: width 0, bytes untouched (both forms) *)
Theorem C12_external_add_overflow : forall p w add force u, (1 <= w <= 8)%nat ->
  ext_get p w = Some u -> in_s64 (to_s64 u + add) = false ->
  external_add p w add force = Some (0%nat, p).
Proof. exact add_overflow_u. Qed.
Print Assumptions C12_external_add_overflow.

(* no-grow, the sum needs more bytes than the slot has: the width required is
   returned and the buffer is unchanged *)
Theorem C12_external_add_nogrow_refused : forall p w add u, (1 <= w <= 8)%nat ->
  ext_get p w = Some u -> in_s64 (to_s64 u + add) = true ->
  (w < ext_width (of_s64 (to_s64 u + add)))%nat ->
  external_add p w add false = Some (ext_width (of_s64 (to_s64 u + add)), p).
Proof. exact add_nogrow_refused_u. Qed.
Print Assumptions C12_external_add_nogrow_refused.

(* otherwise (grow form, or the sum fits): exactly old+amount is stored in the
   returned number of bytes n, it reads back with n, no byte at index >= n
   changes, the buffer extends to at most max n (length p), and 1 <= n <= 8 *)
Theorem C12_external_add_stores : forall p w add force u, (1 <= w <= 8)%nat ->
  ext_get p w = Some u -> in_s64 (to_s64 u + add) = true ->
  force = true \/ (ext_width (of_s64 (to_s64 u + add)) <= w)%nat ->
  external_add p w add force
    = Some (ext_width (of_s64 (to_s64 u + add)), store p 0 (ext_put (of_s64 (to_s64 u + add)))) /\
  ext_get (store p 0 (ext_put (of_s64 (to_s64 u + add)))) (ext_width (of_s64 (to_s64 u + add)))
    = Some (of_s64 (to_s64 u + add)) /\
  (forall i, (ext_width (of_s64 (to_s64 u + add)) <= i)%nat ->
     nth i (store p 0 (ext_put (of_s64 (to_s64 u + add)))) 0 = nth i p 0) /\
  length (store p 0 (ext_put (of_s64 (to_s64 u + add))))
    = Nat.max (ext_width (of_s64 (to_s64 u + add))) (length p) /\
  (1 <= ext_width (of_s64 (to_s64 u + add)) <= 8)%nat.
Proof. exact add_stores_u. Qed.
Print Assumptions C12_external_add_stores.

(* the no-grow form, whatever happens: no byte at index >= w changes, the
   buffer keeps its length, and if anything inside the slot changed the
   returned width is between 1 and w *)
Theorem C12_external_add_nogrow_frame : forall p w add r buf, (1 <= w <= 8)%nat ->
  (w <= length p)%nat -> external_add p w add false = Some (r, buf) ->
  (forall i, (w <= i)%nat -> nth i buf 0 = nth i p 0) /\ length buf = length p /\
  (firstn w buf <> firstn w p -> (1 <= r <= w)%nat).
Proof. exact add_nogrow_frame. Qed.
Print Assumptions C12_external_add_nogrow_frame.

(* non-vacuity: across a width boundary upward (refused / grown), downward,
   negative sum, both overflow edges *)
Example C12_external_examples :
  external_add [255] 1 1 false = Some (2%nat, [255]) /\
  external_add [255] 1 1 true = Some (2%nat, [0; 1]) /\
  external_add [0; 1; 7] 2 (-1) false = Some (1%nat, [255; 1; 7]) /\
  external_add [0] 1 (-1) true = Some (8%nat, [255; 255; 255; 255; 255; 255; 255; 255]) /\
  external_add [255; 255; 255; 255; 255; 255; 255; 127] 8 1 true
    = Some (0%nat, [255; 255; 255; 255; 255; 255; 255; 127]) /\
  external_add [0; 0; 0; 0; 0; 0; 0; 128] 8 (-1) false
    = Some (0%nat, [0; 0; 0; 0; 0; 0; 0; 128]).
Proof. vm_compute. repeat split; reflexivity. Qed.
