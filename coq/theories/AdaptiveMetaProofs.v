(* AdaptiveMetaProofs.v — C16 for the adaptive container: what
   varintAdaptiveReadMeta reports for FOR and PFOR encodings (exact count and
   size; after fix F18 the PFOR size is found by walking the exception list)
   and for the four encodings it does not inspect (documented 0 / 1). *)
Require Import VV.Base VV.BaseProofs VV.Tagged VV.TaggedProofs VV.TaggedSpecProofs.
Require Import VV.Delta VV.DfgLemmas VV.FOR VV.FORProofs.
Require Import VV.PFOR VV.PFORSpec VV.PFORLemmas VV.PFORProofs VV.PFORProofsDec VV.PFORProofsSize VV.PFORTheorems.
Require Import VV.Adaptive VV.AdaptiveLemmas.
From Coq Require Import Lia ZifyBool ZifyN ZifyNat.
Local Open Scope N_scope.
Ltac Zify.zify_post_hook ::= Z.div_mod_to_equations.

(* ---------- FOR ---------- *)
Lemma adp_read_meta_for xs m tl : adp_u64s xs -> for_analyze xs = Some m ->
  N.of_nat (length xs) < 576460752303423488 ->
  exists fm, adp_read_meta ((1 :: for_bytes m xs) ++ tl)
    = POk (mk_adp_meta 1 (N.of_nat (length xs)) (N.of_nat (length (1 :: for_bytes m xs))) (Some fm) None).
Proof.
  intros HF Ha Hn. pose proof (for_analyze_fits xs m HF Ha) as F.
  pose proof (fits_width_small m xs F) as W. destruct F as (F1 & Fc & F3 & F4).
  unfold adp_read_meta. cbn [app].
  rewrite for_read_metadata_enc by (try lia; repeat split; assumption).
  cbn [fm_count fm_size]. rewrite Fc.
  eexists. f_equal. f_equal.
  cbn [length]. pose proof (for_bytes_length m xs) as L. rewrite Fc in L.
  pose proof (tagged_len_range (fm_min m)). pose proof (tagged_len_range (N.of_nat (length xs))).
  unfold mul64. rewrite (N.mod_small (N.of_nat (length xs) * fm_width m)) by nia.
  rewrite (u64_small (tagged_len (fm_min m) + 1 + tagged_len (N.of_nat (length xs)) + N.of_nat (length xs) * fm_width m)) by nia.
  rewrite u64_small by nia. lia.
Qed.

(* ---------- PFOR: the walk over the exception list ---------- *)
Lemma adp_skip_tagged_put x tl : x < 18446744073709551616 ->
  adp_skip_tagged (tagged_put64 x ++ tl) = POk (tagged_len x, tl).
Proof.
  intro Hx. unfold adp_skip_tagged.
  destruct (tagged_put_cons x) as (b & t & E).
  destruct (tagged_put64 x ++ tl) as [|b0 t0] eqn:E2; [rewrite E in E2; discriminate|].
  rewrite <- E2. clear E2 b0 t0.
  rewrite tagged_getlen_put by exact Hx.
  rewrite dropN_app_length' by (symmetry; apply tagged_put_length). reflexivity.
Qed.

Lemma adp_exc_bytes_ok ex : forall fuel tl,
  Forall (fun p => fst p < 18446744073709551616 /\ snd p < 18446744073709551616) ex ->
  (length ex <= fuel)%nat ->
  adp_exc_bytes fuel (N.of_nat (length ex)) (pfor_put_excs ex ++ tl)
  = POk (N.of_nat (length (pfor_put_excs ex))).
Proof.
  induction ex as [|[i v] t IH]; intros fuel tl HF Hf.
  - destruct fuel; reflexivity.
  - destruct fuel as [|f]; [cbn [length] in Hf; lia|].
    pose proof (Forall_inv HF) as (Hi & Hv). cbn [fst snd] in Hi, Hv.
    pose proof (Forall_inv_tail HF) as Ht.
    cbn [adp_exc_bytes pfor_put_excs].
    destruct (N.of_nat (length ((i, v) :: t)) =? 0) eqn:E0; [cbn [length] in E0; lia|].
    rewrite <- !app_assoc.
    rewrite adp_skip_tagged_put by exact Hi. rewrite adp_skip_tagged_put by exact Hv.
    replace (N.of_nat (length ((i, v) :: t)) - 1) with (N.of_nat (length t)) by (cbn [length]; lia).
    rewrite IH by (try exact Ht; cbn [length] in Hf; lia).
    rewrite !app_length, !tagged_put_length_nat. f_equal. lia.
Qed.

Lemma pfor_excs_bounded m xs : adp_u64s xs -> forall i,
  i + N.of_nat (length xs) < 18446744073709551616 ->
  Forall (fun p => fst p < 18446744073709551616 /\ snd p < 18446744073709551616) (pfor_excs m i xs).
Proof.
  induction 1 as [|v t Hv Ht IH]; intros i Hi; [constructor|].
  cbn [pfor_excs]. cbn [length] in Hi.
  destruct (pfor_is_exc _ _ _ v); [constructor; [cbn [fst snd]; lia|]|]; apply IH; lia.
Qed.

Lemma adp_read_meta_pfor xs tl : (1 <= length xs)%nat -> N.of_nat (length xs) < 4294967296 ->
  adp_u64s xs ->
  exists pm, adp_read_meta ((2 :: pfor_encode_bytes xs 95) ++ tl)
    = POk (mk_adp_meta 2 (N.of_nat (length xs)) (N.of_nat (length (2 :: pfor_encode_bytes xs 95))) None (Some pm)).
Proof.
  intros H1 H32 HF. unfold adp_read_meta. cbn [app].
  pose proof (pfor_read_meta_truth xs 95 tl pfor_meta_zero H1 H32 HF) as R. cbv zeta in R.
  rewrite R. clear R.
  pose proof (nonempty_of_len xs H1) as Hne.
  destruct (compute_threshold_ok xs 95 Hne HF) as (w & MO).
  destruct (pfor_encode_layout xs 95 Hne HF) as (L & _).
  change (pfor_encode_meta xs 95) with (pfor_compute_threshold xs 95).
  set (m := pfor_compute_threshold xs 95) in *.
  cbn [pm_count pm_width pm_exc]. rewrite (mo_count _ _ _ MO).
  rewrite L. rewrite layout_split.
  set (hdr := tagged_put64 (pm_min m) ++ [pm_width m] ++ tagged_put64 (N.of_nat (length xs))).
  set (body := flat_map (pfor_slot m) xs).
  set (ex := pfor_excs m 0 xs).
  assert (Hh : N.of_nat (length hdr) = tagged_len (pm_min m) + 1 + tagged_len (N.of_nat (length xs))).
  { subst hdr. rewrite hdr_length. reflexivity. }
  assert (Hb : N.of_nat (length body) = N.of_nat (length xs) * pm_width m).
  { subst body. rewrite (body_length m xs w MO xs), (mo_width _ _ _ MO). reflexivity. }
  rewrite <- !app_assoc. rewrite (app_assoc hdr body).
  rewrite (dropN_app_length' (hdr ++ body)) by (rewrite app_length, Nat2N.inj_add, Hh, Hb; reflexivity).
  pose proof (excs_length_le m 0 xs) as Le. fold ex in Le.
  rewrite adp_skip_tagged_put by lia.
  rewrite <- (ec_is_exc m xs w MO). fold ex.
  rewrite adp_exc_bytes_ok.
  2:{ subst ex. apply pfor_excs_bounded; [exact HF|lia]. }
  2:{ cbn [length]. rewrite !app_length.
      assert (length xs <= length body)%nat by (pose proof (mo_w _ _ _ MO); pose proof (mo_width _ _ _ MO); nia). lia. }
  eexists. f_equal. f_equal.
  cbn [length]. rewrite !app_length.
  pose proof (tagged_put_length (N.of_nat (length ex))) as T.
  pose proof (tagged_len_range (N.of_nat (length ex))).
  pose proof (tagged_len_range (pm_min m)). pose proof (tagged_len_range (N.of_nat (length xs))).
  pose proof (mo_w _ _ _ MO) as Hw. pose proof (mo_width _ _ _ MO) as Ew.
  pose proof (excs_bytes_bound m xs 0 (N.of_nat (length xs)) ltac:(lia) ltac:(lia)) as Bx. fold ex in Bx.
  rewrite u64_small by nia. lia.
Qed.

(* ---------- the encodings ReadMeta does not inspect ---------- *)
Lemma adp_read_meta_other e data : e <> 1 -> e <> 2 ->
  adp_read_meta (e :: data) = POk (mk_adp_meta e 0 1 None None).
Proof.
  intros H1 H2. unfold adp_read_meta.
  destruct e as [|p]; [reflexivity|].
  do 2 (try destruct p as [p|p|]; try reflexivity; try congruence).
Qed.

Lemma adp_get_encoding_type_hd e data : adp_get_encoding_type (e :: data) = e.
Proof. reflexivity. Qed.

(* ---------- the enum values and limits of the headers (regenerated from
   /repo/src on every run into coq/gen/Consts.v) are the ones the model uses ---------- *)
Require Import VVgen.Consts.
Lemma adp_header_constants :
  ADP_DELTA = VARINT_ADAPTIVE_DELTA /\ ADP_FOR = VARINT_ADAPTIVE_FOR /\ ADP_PFOR = VARINT_ADAPTIVE_PFOR /\
  ADP_DICT = VARINT_ADAPTIVE_DICT /\ ADP_BITMAP = VARINT_ADAPTIVE_BITMAP /\
  ADP_TAGGED = VARINT_ADAPTIVE_TAGGED /\ ADP_GROUP = VARINT_ADAPTIVE_GROUP /\
  65536 = VARINT_BITMAP_MAX_VALUE /\ 95 = VARINT_PFOR_THRESHOLD_95.
Proof. repeat split; reflexivity. Qed.
