(* Properties_C02_rle_src.v — the share of C02 (RLE is lossless, with random
   access) established so far about the functions regenerated from the current
   src/varintRLE.c by gen/c2coq.py (coq/gen/Src_rle.v): the two loop-free readers
   the decoders are built from compute what the hand-written model (RLE.v, about
   which Properties_C02_rledict.v proves the round trip) computes, and the looping
   decoder varintRLEDecode gives back the array on what rle_encode produced (end
   of file).  varintRLEDecodeWithHeader, varintRLEGetAt and the encoders are
   translated and run against the C on every run, but not yet tied to the model
   by proof. *)
Require Import VV.Base VV.Tagged VV.RLE VV.RLESpec VV.RLEProofs VV.CSem VV.RleSrcProofs VV.RleSrc2Model.
Require Import VVgen.Src_rle.
Local Open Scope Z_scope.

(* varintRLEDecodeRun on bytes holding the two tagged varints of a run returns
   (bytes consumed, run length, value) of the model; rl, v = previous contents
   of *runLength, *value *)
Theorem C02_src_rle_decode_run_is_model : forall z rl v, bytes_ok z ->
  Z.of_N (tagged_getlen z) <= Z.of_nat (length z) ->
  Z.of_N (tagged_getlen (skipn (N.to_nat (tagged_getlen z)) z)) <= Z.of_nat (length z) - Z.of_N (tagged_getlen z) ->
  src_varintRLEDecodeRun z rl v =
  COk (Z.of_N (fst (fst (rle_decode_run z))), Some (Z.of_N (snd (fst (rle_decode_run z)))),
       Some (Z.of_N (snd (rle_decode_run z)))).
Proof. exact src_varintRLEDecodeRun_is_model. Qed.
Print Assumptions C02_src_rle_decode_run_is_model.

Theorem C02_src_rle_get_count_is_model : forall z, bytes_ok z ->
  Z.of_N (tagged_getlen z) <= Z.of_nat (length z) ->
  src_varintRLEGetCount z = COk (Z.of_N (rle_get_count z)).
Proof. exact src_varintRLEGetCount_is_model. Qed.
Print Assumptions C02_src_rle_get_count_is_model.

(* non-vacuity: the regenerated codec run end to end on a small array, with
   and without the meta out-parameter *)
Example C02_src_rle_example :
  src_varintRLEEncode 9 [0; 0; 0; 0; 0; 0; 9]%N [5; 5; 5; 300; 300] 5 None
    = COk (5, [3; 5; 2; 241; 60; 0; 9]%N, None) /\
  src_varintRLEEncode 9 [0; 0; 0; 0; 0; 0; 9]%N [5; 5; 5; 300; 300] 5 (Some (None, None, None, None))
    = COk (5, [3; 5; 2; 241; 60; 0; 9]%N, Some (Some 5, Some 2, Some 5, Some 0)) /\
  src_varintRLEDecode 9 [3; 5; 2; 241; 60]%N [7; 7; 7; 7; 7; 7] 5 = COk (5, [5; 5; 5; 300; 300; 7]) /\
  src_varintRLEDecodeRun [3; 5; 2; 241; 60]%N None None = COk (2, Some 3, Some 5) /\
  src_varintRLEGetAt 9 [3; 5; 2; 241; 60]%N 3 = COk 300.
Proof. vm_compute. repeat split; reflexivity. Qed.

(* the regenerated varintRLEDecode on the byte image of ANY list of runs (length
   >= 1, 64-bit values; followed by any bytes) with capacity cap <= total: returns
   cap and has stored the first cap values of the expansion at indices 0..cap-1 of
   the output list; the elements from cap on are untouched *)
Theorem C02_src_rle_decode_runs : forall fuel rs tl vals cap,
  bytes_ok (enc_runs rs ++ tl) -> runs_wf rs ->
  0 <= cap <= Z.of_N (runs_total rs) -> Z.of_N (runs_total rs) < 18446744073709551616 ->
  cap <= Z.of_nat (length vals) < 18446744073709551616 ->
  (Z.to_nat cap < fuel)%nat -> (length rs < fuel)%nat ->
  src_varintRLEDecode fuel (enc_runs rs ++ tl) vals cap =
  COk (cap, map Z.of_N (firstn (Z.to_nat cap) (expand_runs rs)) ++ skipn (Z.to_nat cap) vals).
Proof. exact src_varintRLEDecode_runs. Qed.
Print Assumptions C02_src_rle_decode_runs.

(* round trip: the regenerated decoder on what the model encoder rle_encode
   produced for xs (any bytes may follow), capacity cap <= count: the first cap
   values of xs (cap = count: all of xs), nothing else touched *)
Theorem C02_src_rle_decode_roundtrip : forall fuel xs tl vals (cap : nat),
  Forall (fun x => (x < 18446744073709551616)%N) xs -> Z.of_nat (length xs) < 18446744073709551616 ->
  bytes_ok tl -> (cap <= length xs)%nat ->
  (cap <= length vals)%nat -> Z.of_nat (length vals) < 18446744073709551616 -> (length xs < fuel)%nat ->
  src_varintRLEDecode fuel (fst (rle_encode xs) ++ tl) vals (Z.of_nat cap) =
  COk (Z.of_nat cap, map Z.of_N (firstn cap xs) ++ skipn cap vals).
Proof. exact src_varintRLEDecode_is_model. Qed.
Print Assumptions C02_src_rle_decode_roundtrip.

Example C02_src_rle_roundtrip_example :
  src_varintRLEDecode 9 (fst (rle_encode [5; 5; 5; 300; 300]%N)) [7; 7; 7; 7; 7; 7] 5 = COk (5, [5; 5; 5; 300; 300; 7]) /\
  src_varintRLEDecode 9 (fst (rle_encode [5; 5; 5; 300; 300]%N)) [7; 7; 7; 7; 7; 7] 4 = COk (4, [5; 5; 5; 300; 7; 7]).
Proof. vm_compute. split; reflexivity. Qed.
