(* SplitSpec.v — independently shaped specification of the Split and
   SplitFull16 wire formats: a level table read off each header's
   "Data Layout" comment and one generic table interpreter.

   A level is (prefix, kind, payload_bytes, base):
   * kind Embed ("encodings of the first type"): the type byte holds the top
     six payload bits, |PPpppppp|qqqqqqqq|...; payload big-endian over
     6 + 8*payload_bytes bits;
   * kind Ext ("encodings of the second type"): the type byte is exactly
     `prefix`, followed by payload_bytes bytes of little-endian external
     varint;
   * the value stored is base + payload, base being the maximum of the
     previous first-type level ("N bits + previous level").
   The encoder uses the first level of the table that can hold the value. *)
Require Import VV.Base.
Local Open Scope N_scope.

Inductive lv_kind := Embed | Ext.
Record level := mk_level { lv_prefix : N; lv_kind_of : lv_kind; lv_nbytes : nat; lv_base : N }.

Definition U64MAX : N := 18446744073709551615.

Definition lv_bits (l : level) : N :=
  match lv_kind_of l with
  | Embed => 6 + 8 * N.of_nat (lv_nbytes l)
  | Ext => 8 * N.of_nat (lv_nbytes l)
  end.

(* largest value the level can hold (64-bit values only) *)
Definition lv_max (l : level) : N := N.min (lv_base l + 2 ^ lv_bits l - 1) U64MAX.
(* total encoded length *)
Definition lv_len (l : level) : nat := S (lv_nbytes l).

Definition lv_emit (l : level) (p : N) : list N :=
  match lv_kind_of l with
  | Embed => (lv_prefix l + p / 256 ^ N.of_nat (lv_nbytes l)) :: be_bytes (lv_nbytes l) p
  | Ext => lv_prefix l :: le_bytes (lv_nbytes l) p
  end.

(* reversed container: "Layout: little endian", type in the last byte *)
Definition lv_emit_rev (l : level) (p : N) : list N :=
  match lv_kind_of l with
  | Embed => le_bytes (lv_nbytes l) p ++ [lv_prefix l + p / 256 ^ N.of_nat (lv_nbytes l)]
  | Ext => le_bytes (lv_nbytes l) p ++ [lv_prefix l]
  end.

Definition lv_find (tbl : list level) (x : N) : option level :=
  find (fun l => x <=? lv_max l) tbl.

Definition lv_encode (tbl : list level) (x : N) : list N :=
  match lv_find tbl x with
  | Some l => lv_emit l (x - lv_base l)
  | None => []
  end.

Definition lv_encode_rev (tbl : list level) (x : N) : list N :=
  match lv_find tbl x with
  | Some l => lv_emit_rev l (x - lv_base l)
  | None => []
  end.

Definition lv_length (tbl : list level) (x : N) : N :=
  match lv_find tbl x with
  | Some l => N.of_nat (lv_len l)
  | None => 0
  end.

(* which level does a type byte announce *)
Definition lv_match (l : level) (b0 : N) : bool :=
  match lv_kind_of l with
  | Embed => b0 / 64 =? lv_prefix l / 64
  | Ext => b0 =? lv_prefix l
  end.

(* meaning of a complete encoding (exact length) *)
Definition lv_denote (tbl : list level) (b : list N) : option N :=
  match b with
  | [] => None
  | b0 :: rest =>
      match find (fun l => lv_match l b0) tbl with
      | None => None
      | Some l =>
          if (length rest =? lv_nbytes l)%nat then
            let v := lv_base l +
                     match lv_kind_of l with
                     | Embed => (b0 mod 64) * 256 ^ N.of_nat (lv_nbytes l) + of_be rest
                     | Ext => of_le rest
                     end in
            if v <=? U64MAX then Some v else None
          else None
      end
  end.

(* largest value of encoded length k (0 when no level has that length) *)
Definition lv_max_len (tbl : list level) (k : nat) : N :=
  fold_left (fun acc l => if (lv_len l =? k)%nat then N.max acc (lv_max l) else acc) tbl 0.

(* ---- varintSplit.h, "Split Data Layout" ---- *)
Definition split_table : list level :=
  [ mk_level 0   Embed 0 0;          (* |00pppppp|                         <= 63      *)
    mk_level 64  Embed 1 63;         (* |01pppppp|qqqqqqqq|                <= 16446   *)
    mk_level 129 Ext 1 16446;        (* |10000001|q|                       <= 16701   *)
    mk_level 130 Ext 2 16446;        (* |10000010|q|r|                     <= 81981   *)
    mk_level 131 Ext 3 16446;        (* |10000011|q|r|s|                   <= 16793661 *)
    mk_level 132 Ext 4 16446;
    mk_level 133 Ext 5 16446;
    mk_level 134 Ext 6 16446;
    mk_level 135 Ext 7 16446;
    mk_level 136 Ext 8 16446 ].      (* |10001000| + 8 bytes               <= 2^64-1  *)

(* ---- varintSplitFull16.h, "SplitFull16 Data Layout" ---- *)
Definition split16_table : list level :=
  [ mk_level 0   Embed 1 0;          (* |00pppppp|q|                       <= 16383      *)
    mk_level 64  Embed 2 16383;      (* |01pppppp|q|r|                     <= 4210686    *)
    mk_level 128 Embed 3 4210686;    (* |10pppppp|q|r|s|                   <= 1077952509 *)
    mk_level 196 Ext 4 1077952509;   (* |11000100| + 4 bytes               <= 5372919804 *)
    mk_level 197 Ext 5 1077952509;
    mk_level 198 Ext 6 1077952509;
    mk_level 199 Ext 7 1077952509;
    mk_level 200 Ext 8 1077952509 ]. (* |11001000| + 8 bytes               <= 2^64-1     *)

Definition split_spec (x : N) : list N := lv_encode split_table x.
Definition split_spec_rev (x : N) : list N := lv_encode_rev split_table x.
Definition split_spec_len (x : N) : N := lv_length split_table x.
Definition split_denote (b : list N) : option N := lv_denote split_table b.
Definition split_max (k : N) : N := lv_max_len split_table (N.to_nat k).

Definition split16_spec (x : N) : list N := lv_encode split16_table x.
Definition split16_spec_len (x : N) : N := lv_length split16_table x.
Definition split16_denote (b : list N) : option N := lv_denote split16_table b.
Definition split16_max (k : N) : N := lv_max_len split16_table (N.to_nat k).

(* type byte and payload size announced for each total length (for the
   header-comment fact check): list of (length, prefix, kind is Embed, max) *)
Definition lv_rows (tbl : list level) : list (N * N * bool * N) :=
  map (fun l => (N.of_nat (lv_len l), lv_prefix l,
                 match lv_kind_of l with Embed => true | Ext => false end, lv_max l)) tbl.
Definition split_rows := lv_rows split_table.
Definition split16_rows := lv_rows split16_table.

(* EXTRACT: split_spec split_spec_rev split_spec_len split_denote split_max
   split16_spec split16_spec_len split16_denote split16_max split_rows split16_rows *)
