(* SplitProofs.v — lemmas about the varintSplit.h model (Split.v):
   per-class byte forms of the encoders, decoders on those forms, length
   agreement, put = spec, length classes. *)
Require Import VV.Base VV.BaseProofs VV.Split VV.SplitSpec VV.SplitLemmas.
From Coq Require Import Lia ZifyBool ZifyN ZifyNat.
Local Open Scope N_scope.
Ltac Zify.zify_post_hook ::= Z.div_mod_to_equations.

(* ------------------------------------------------------------------ *)
(* classification of a 64-bit value                                    *)
Inductive split_class (x : N) : Prop :=
| SC0 : x <= 63 -> split_class x
| SC1 : 63 < x <= 16446 -> split_class x
| SCV (k : nat) : (1 <= k <= 8)%nat -> 16446 < x -> ext_width (x - 16446) = k ->
    x - 16446 < 256 ^ N.of_nat k ->
    (k = 1%nat \/ 256 ^ N.of_nat (k - 1) <= x - 16446) -> split_class x.

Lemma split_classify x : x < 18446744073709551616 -> split_class x.
Proof.
  intro H. destruct (N.le_gt_cases x 63); [apply SC0; assumption|].
  destruct (N.le_gt_cases x 16446); [apply SC1; lia|].
  destruct (ext_width_bounds (x - 16446)) as (A & B & C); [lia|].
  apply (SCV x (ext_width (x - 16446))); try assumption; try lia; try reflexivity.
Qed.

(* ------------------------------------------------------------------ *)
(* encoders, per class                                                 *)
Lemma split_put_embed0 x : x <= 63 -> split_put x = Some [x].
Proof.
  intro H. unfold split_put. cbv zeta. rewrite u64_small by lia.
  unfold SPLIT_MAX_6, SPLIT_6. destruct (x <=? 63) eqn:E; [|lia].
  rewrite lor0, u8_small by lia. reflexivity.
Qed.

Lemma split_put_embed1 x : 63 < x <= 16446 ->
  split_put x = Some [64 + (x - 63) / 256; (x - 63) mod 256].
Proof.
  intro H. unfold split_put. cbv zeta. rewrite u64_small by lia.
  unfold SPLIT_MAX_6, SPLIT_MAX_14, SPLIT_14, SPLIT_6_MASK.
  destruct (x <=? 63) eqn:E; [lia|]. destruct (x <=? 63 + 16383) eqn:E2; [|lia].
  rewrite land63, land255. unfold shr. change (2 ^ 8) with 256.
  rewrite lor64 by lia. rewrite !u8_small by lia. f_equal. f_equal. lia.
Qed.

Lemma split_length_var_k v k : (1 <= k <= 8)%nat -> ext_width v = k ->
  split_length_var v = 1 + N.of_nat k.
Proof. intros Hk Hw. unfold split_length_var, u8. rewrite Hw. lia. Qed.

Lemma split_put_var x k : (1 <= k <= 8)%nat -> 16446 < x < 18446744073709551616 ->
  ext_width (x - 16446) = k ->
  split_put x = Some ((128 + N.of_nat k) :: le_bytes k (x - 16446)).
Proof.
  intros Hk Hx Hw. unfold split_put. cbv zeta. rewrite u64_small by lia.
  unfold SPLIT_MAX_6, SPLIT_MAX_14, SPLIT_VAR.
  destruct (x <=? 63) eqn:E; [lia|]. destruct (x <=? 63 + 16383) eqn:E2; [lia|].
  change (63 + 16383) with 16446.
  rewrite (split_length_var_k _ k Hk Hw).
  replace (1 + N.of_nat k - 1) with (N.of_nat k) by lia.
  rewrite ext_put_qm by lia.
  rewrite lor128 by lia. rewrite u8_small by lia. reflexivity.
Qed.

Lemma split_rev_put_forward_embed0 x : x <= 63 -> split_rev_put_forward x = Some [x].
Proof.
  intro H. unfold split_rev_put_forward. cbv zeta. rewrite u64_small by lia.
  unfold SPLIT_MAX_6, SPLIT_6. destruct (x <=? 63) eqn:E; [|lia].
  rewrite lor0, u8_small by lia. reflexivity.
Qed.

Lemma split_rev_put_forward_embed1 x : 63 < x <= 16446 ->
  split_rev_put_forward x = Some [(x - 63) mod 256; 64 + (x - 63) / 256].
Proof.
  intro H. unfold split_rev_put_forward. cbv zeta. rewrite u64_small by lia.
  unfold SPLIT_MAX_6, SPLIT_MAX_14, SPLIT_14, SPLIT_6_MASK.
  destruct (x <=? 63) eqn:E; [lia|]. destruct (x <=? 63 + 16383) eqn:E2; [|lia].
  rewrite land63, land255. unfold shr. change (2 ^ 8) with 256.
  rewrite lor64 by lia. rewrite !u8_small by lia. f_equal. f_equal. f_equal. f_equal. lia.
Qed.

Lemma split_rev_put_forward_var x k : (1 <= k <= 8)%nat -> 16446 < x < 18446744073709551616 ->
  ext_width (x - 16446) = k ->
  split_rev_put_forward x = Some (le_bytes k (x - 16446) ++ [128 + N.of_nat k]).
Proof.
  intros Hk Hx Hw. unfold split_rev_put_forward. cbv zeta. rewrite u64_small by lia.
  unfold SPLIT_MAX_6, SPLIT_MAX_14, SPLIT_VAR.
  destruct (x <=? 63) eqn:E; [lia|]. destruct (x <=? 63 + 16383) eqn:E2; [lia|].
  change (63 + 16383) with 16446.
  rewrite (split_length_var_k _ k Hk Hw).
  replace (1 + N.of_nat k - 1) with (N.of_nat k) by lia.
  rewrite ext_put_qm by lia.
  rewrite lor128 by lia. rewrite u8_small by lia. reflexivity.
Qed.

(* PutReversed writes the same bytes as PutForward; dst is the last of them *)
Lemma split_rev_put_reversed_forward x : x < 18446744073709551616 ->
  exists bs, split_rev_put_forward x = Some bs /\
             split_rev_put_reversed x = Some (bs, (length bs - 1)%nat).
Proof.
  intro Hx. destruct (split_classify x Hx) as [H|H|k Hk H Hw Hlt Hge].
  - exists [x]. split; [apply split_rev_put_forward_embed0; exact H|].
    unfold split_rev_put_reversed. cbv zeta. rewrite u64_small by lia.
    unfold SPLIT_MAX_6, SPLIT_6. destruct (x <=? 63) eqn:E; [|lia].
    rewrite lor0, u8_small by lia. reflexivity.
  - eexists. split; [apply split_rev_put_forward_embed1; exact H|].
    unfold split_rev_put_reversed. cbv zeta. rewrite u64_small by lia.
    unfold SPLIT_MAX_6, SPLIT_MAX_14, SPLIT_14, SPLIT_6_MASK.
    destruct (x <=? 63) eqn:E; [lia|]. destruct (x <=? 63 + 16383) eqn:E2; [|lia].
    rewrite land63, land255. unfold shr. change (2 ^ 8) with 256.
    rewrite lor64 by lia. rewrite !u8_small by lia. cbn [length Nat.sub].
    f_equal. f_equal. f_equal. f_equal. f_equal. lia.
  - eexists. split; [apply (split_rev_put_forward_var x k); try assumption; lia|].
    unfold split_rev_put_reversed. cbv zeta. rewrite u64_small by lia.
    unfold SPLIT_MAX_6, SPLIT_MAX_14, SPLIT_VAR.
    destruct (x <=? 63) eqn:E; [lia|]. destruct (x <=? 63 + 16383) eqn:E2; [lia|].
    change (63 + 16383) with 16446.
    rewrite (split_length_var_k _ k Hk Hw).
    replace (1 + N.of_nat k - 1) with (N.of_nat k) by lia.
    rewrite ext_put_qm by lia.
    rewrite lor128 by lia. rewrite u8_small by lia.
    rewrite app_length, length_le_bytes. cbn [length]. f_equal. f_equal. lia.
Qed.

(* ------------------------------------------------------------------ *)
(* predicted length, per class and as a threshold chain                *)
Lemma split_length_embed0 x : x <= 63 -> split_length x = 1.
Proof. intro H. unfold split_length, SPLIT_MAX_6. destruct (x <=? 63) eqn:E; [reflexivity|lia]. Qed.
Lemma split_length_embed1 x : 63 < x <= 16446 -> split_length x = 2.
Proof.
  intro H. unfold split_length, SPLIT_MAX_6, SPLIT_MAX_14.
  destruct (x <=? 63) eqn:E; [lia|]. destruct (x <=? 63 + 16383) eqn:E2; [reflexivity|lia].
Qed.
Lemma split_length_var x k : (1 <= k <= 8)%nat -> 16446 < x -> ext_width (x - 16446) = k ->
  split_length x = 1 + N.of_nat k.
Proof.
  intros Hk H Hw. unfold split_length, SPLIT_MAX_6, SPLIT_MAX_14.
  destruct (x <=? 63) eqn:E; [lia|]. destruct (x <=? 63 + 16383) eqn:E2; [lia|].
  change (63 + 16383) with 16446. apply split_length_var_k; assumption.
Qed.

Definition split_len_chain (x : N) : N :=
  if x <=? 63 then 1
  else if x <=? 16701 then 2
  else if x <=? 81981 then 3
  else if x <=? 16793661 then 4
  else if x <=? 4294983741 then 5
  else if x <=? 1099511644221 then 6
  else if x <=? 281474976727101 then 7
  else if x <=? 72057594037944381 then 8
  else 9.

Lemma split_length_chain x : x < 18446744073709551616 -> split_length x = split_len_chain x.
Proof.
  intro Hx. destruct (split_classify x Hx) as [H|H|k Hk H Hw Hlt Hge].
  - rewrite split_length_embed0 by exact H. unfold split_len_chain. kill_ifs. reflexivity.
  - rewrite split_length_embed1 by exact H. unfold split_len_chain. kill_ifs. reflexivity.
  - rewrite (split_length_var x k) by assumption. clear Hw.
    cases8 k; norm256; unfold split_len_chain; (destruct Hge as [Hge|Hge]; [try discriminate Hge|]);
      norm256; kill_ifs; reflexivity.
Qed.

(* ------------------------------------------------------------------ *)
(* the specification's table, unfolded                                 *)
Lemma lv_find_split x : lv_find split_table x =
  if x <=? 63 then Some (mk_level 0 Embed 0 0)
  else if x <=? 16446 then Some (mk_level 64 Embed 1 63)
  else if x <=? 16701 then Some (mk_level 129 Ext 1 16446)
  else if x <=? 81981 then Some (mk_level 130 Ext 2 16446)
  else if x <=? 16793661 then Some (mk_level 131 Ext 3 16446)
  else if x <=? 4294983741 then Some (mk_level 132 Ext 4 16446)
  else if x <=? 1099511644221 then Some (mk_level 133 Ext 5 16446)
  else if x <=? 281474976727101 then Some (mk_level 134 Ext 6 16446)
  else if x <=? 72057594037944381 then Some (mk_level 135 Ext 7 16446)
  else if x <=? 18446744073709551615 then Some (mk_level 136 Ext 8 16446)
  else None.
Proof. reflexivity. Qed.

Lemma split_spec_embed0 x : x <= 63 -> split_spec x = [x].
Proof.
  intro H. unfold split_spec, lv_encode. rewrite lv_find_split.
  destruct (x <=? 63) eqn:E; [|lia].
  unfold lv_emit. cbn [lv_kind_of lv_prefix lv_nbytes lv_base be_bytes le_bytes rev app].
  norm256. f_equal. lia.
Qed.

Lemma split_spec_embed1 x : 63 < x <= 16446 ->
  split_spec x = [64 + (x - 63) / 256; (x - 63) mod 256].
Proof.
  intro H. unfold split_spec, lv_encode. rewrite lv_find_split.
  destruct (x <=? 63) eqn:E; [lia|]. destruct (x <=? 16446) eqn:E2; [|lia].
  unfold lv_emit. cbn [lv_kind_of lv_prefix lv_nbytes lv_base be_bytes le_bytes rev app].
  norm256. reflexivity.
Qed.

Lemma split_spec_var x k : (1 <= k <= 8)%nat -> 16446 < x < 18446744073709551616 ->
  x - 16446 < 256 ^ N.of_nat k -> (k = 1%nat \/ 256 ^ N.of_nat (k - 1) <= x - 16446) ->
  split_spec x = (128 + N.of_nat k) :: le_bytes k (x - 16446).
Proof.
  intros Hk Hx Hlt Hge. unfold split_spec, lv_encode. rewrite lv_find_split.
  cases8 k; norm256; (destruct Hge as [Hge|Hge]; [try discriminate Hge|]); norm256;
    kill_ifs; reflexivity.
Qed.

Lemma split_spec_rev_embed0 x : x <= 63 -> split_spec_rev x = [x].
Proof.
  intro H. unfold split_spec_rev, lv_encode_rev. rewrite lv_find_split.
  destruct (x <=? 63) eqn:E; [|lia].
  unfold lv_emit_rev. cbn [lv_kind_of lv_prefix lv_nbytes lv_base be_bytes le_bytes rev app].
  norm256. f_equal. lia.
Qed.

Lemma split_spec_rev_embed1 x : 63 < x <= 16446 ->
  split_spec_rev x = [(x - 63) mod 256; 64 + (x - 63) / 256].
Proof.
  intro H. unfold split_spec_rev, lv_encode_rev. rewrite lv_find_split.
  destruct (x <=? 63) eqn:E; [lia|]. destruct (x <=? 16446) eqn:E2; [|lia].
  unfold lv_emit_rev. cbn [lv_kind_of lv_prefix lv_nbytes lv_base be_bytes le_bytes rev app].
  norm256. reflexivity.
Qed.

Lemma split_spec_rev_var x k : (1 <= k <= 8)%nat -> 16446 < x < 18446744073709551616 ->
  x - 16446 < 256 ^ N.of_nat k -> (k = 1%nat \/ 256 ^ N.of_nat (k - 1) <= x - 16446) ->
  split_spec_rev x = le_bytes k (x - 16446) ++ [128 + N.of_nat k].
Proof.
  intros Hk Hx Hlt Hge. unfold split_spec_rev, lv_encode_rev. rewrite lv_find_split.
  cases8 k; norm256; (destruct Hge as [Hge|Hge]; [try discriminate Hge|]); norm256;
    kill_ifs; reflexivity.
Qed.

Theorem split_put_is_spec x : x < 18446744073709551616 -> split_put x = Some (split_spec x).
Proof.
  intro Hx. destruct (split_classify x Hx) as [H|H|k Hk H Hw Hlt Hge].
  - rewrite split_put_embed0, split_spec_embed0 by exact H. reflexivity.
  - rewrite split_put_embed1, split_spec_embed1 by exact H. reflexivity.
  - rewrite (split_put_var x k), (split_spec_var x k) by (assumption || lia). reflexivity.
Qed.

Theorem split_rev_put_forward_is_spec x : x < 18446744073709551616 ->
  split_rev_put_forward x = Some (split_spec_rev x).
Proof.
  intro Hx. destruct (split_classify x Hx) as [H|H|k Hk H Hw Hlt Hge].
  - rewrite split_rev_put_forward_embed0, split_spec_rev_embed0 by exact H. reflexivity.
  - rewrite split_rev_put_forward_embed1, split_spec_rev_embed1 by exact H. reflexivity.
  - rewrite (split_rev_put_forward_var x k), (split_spec_rev_var x k) by (assumption || lia). reflexivity.
Qed.

Theorem split_rev_put_reversed_is_spec x : x < 18446744073709551616 ->
  split_rev_put_reversed x = Some (split_spec_rev x, (length (split_spec_rev x) - 1)%nat).
Proof.
  intro Hx. destruct (split_rev_put_reversed_forward x Hx) as (bs & F & R).
  rewrite split_rev_put_forward_is_spec in F by exact Hx. apply some_inj in F; subst bs. exact R.
Qed.

Lemma split_spec_len_chain x : x < 18446744073709551616 -> split_spec_len x = split_len_chain x.
Proof.
  intro Hx. unfold split_spec_len, lv_length. rewrite lv_find_split. unfold split_len_chain.
  kill_ifs; reflexivity.
Qed.

Theorem split_length_is_spec x : x < 18446744073709551616 -> split_length x = split_spec_len x.
Proof. intro Hx. rewrite split_length_chain, split_spec_len_chain by exact Hx. reflexivity. Qed.

(* ------------------------------------------------------------------ *)
(* decoders on the byte forms                                          *)
Lemma split_get_embed0 pre tl x : x <= 63 ->
  split_get_at (pre ++ [x] ++ tl) (Z.of_nat (length pre)) = Some (1, x) /\
  split_getlen_at (pre ++ [x] ++ tl) (Z.of_nat (length pre)) = 1 /\
  split_getlen_quick_at (pre ++ [x] ++ tl) (Z.of_nat (length pre)) = 1 /\
  split_rev_get_at (pre ++ [x] ++ tl) (Z.of_nat (length pre)) = Some (1, x).
Proof.
  intro H. unfold split_get_at, split_getlen_at, split_getlen_quick_at, split_rev_get_at. cbv zeta.
  rewrite byte_atz_mid_0 by (cbn [length]; lia). cbn [nth].
  unfold split_width_ext, split_encoding2, SPLIT_MASK, SPLIT_6, SPLIT_14, SPLIT_VAR, SPLIT_6_MASK.
  rewrite land192 by lia. rewrite land63. unfold shr. change (2 ^ 6) with 64.
  repeat split; kill_ifs; try (f_equal; f_equal); lia.
Qed.

Lemma split_get_embed1 pre tl a b : a < 64 -> b < 256 ->
  split_get_at (pre ++ [64 + a; b] ++ tl) (Z.of_nat (length pre)) = Some (2, a * 256 + b + 63) /\
  split_getlen_at (pre ++ [64 + a; b] ++ tl) (Z.of_nat (length pre)) = 2 /\
  split_getlen_quick_at (pre ++ [64 + a; b] ++ tl) (Z.of_nat (length pre)) = 2.
Proof.
  intros Ha Hb. unfold split_get_at, split_getlen_at, split_getlen_quick_at. cbv zeta.
  rewrite byte_atz_mid_0 by (cbn [length]; lia).
  rewrite byte_atz_mid_z by (cbn [length]; lia). change (Z.to_nat 1) with 1%nat; change (Z.to_nat 0) with 0%nat; cbn [nth].
  unfold split_width_ext, split_encoding2, SPLIT_MASK, SPLIT_6, SPLIT_14, SPLIT_VAR, SPLIT_6_MASK, SPLIT_MAX_6.
  rewrite land192 by lia. rewrite land63. unfold shr. change (2 ^ 6) with 64.
  replace ((64 + a) mod 64) with a by lia.
  rewrite lor2 by lia. rewrite add64_small by lia.
  repeat split; kill_ifs; try (f_equal; f_equal); lia.
Qed.

Lemma split_rev_get_embed1 pre tl a b : a < 64 -> b < 256 ->
  split_rev_get_at (pre ++ [b; 64 + a] ++ tl) (Z.of_nat (length pre) + 1) = Some (2, a * 256 + b + 63).
Proof.
  intros Ha Hb. unfold split_rev_get_at. cbv zeta.
  replace (Z.of_nat (length pre) + 1 - 1)%Z with (Z.of_nat (length pre) + 0)%Z by lia.
  rewrite !byte_atz_mid_z by (cbn [length]; lia). change (Z.to_nat 1) with 1%nat; change (Z.to_nat 0) with 0%nat; cbn [nth].
  unfold split_width_ext, split_encoding2, SPLIT_MASK, SPLIT_6, SPLIT_14, SPLIT_VAR, SPLIT_6_MASK, SPLIT_MAX_6.
  rewrite land192 by lia. rewrite land63.
  replace ((64 + a) mod 64) with a by lia.
  rewrite lor2 by lia. rewrite add64_small by lia.
  kill_ifs; try (f_equal; f_equal); lia.
Qed.

Lemma split_get_var pre tl k l : (1 <= k <= 8)%nat -> length l = k -> bytes_ok l ->
  of_le l + 16446 < 18446744073709551616 ->
  split_get_at (pre ++ ((128 + N.of_nat k) :: l) ++ tl) (Z.of_nat (length pre))
    = Some (1 + N.of_nat k, of_le l + 16446) /\
  split_getlen_at (pre ++ ((128 + N.of_nat k) :: l) ++ tl) (Z.of_nat (length pre)) = 1 + N.of_nat k /\
  split_getlen_quick_at (pre ++ ((128 + N.of_nat k) :: l) ++ tl) (Z.of_nat (length pre)) = 1 + N.of_nat k.
Proof.
  intros Hk Hl Hb Hv. unfold split_get_at, split_getlen_at, split_getlen_quick_at. cbv zeta.
  rewrite byte_atz_mid_0 by (cbn [length]; lia). cbn [nth].
  unfold split_width_ext, split_encoding2, SPLIT_MASK, SPLIT_6, SPLIT_14, SPLIT_VAR, SPLIT_MAX_14.
  rewrite land192 by lia.
  replace (64 * ((128 + N.of_nat k) / 64)) with 128 by lia.
  change (128 =? 0) with false. change (128 =? 64) with false. change (128 =? 128) with true.
  cbv iota.
  replace (1 + (128 + N.of_nat k - 128) - 1) with (N.of_nat k) by lia.
  replace (pre ++ ((128 + N.of_nat k) :: l) ++ tl) with ((pre ++ [128 + N.of_nat k]) ++ l ++ tl)
    by (rewrite <- app_assoc; reflexivity).
  replace (Z.of_nat (length pre) + 1)%Z with (Z.of_nat (length (pre ++ [128 + N.of_nat k])))
    by (rewrite app_length; cbn [length]; lia).
  rewrite ext_get_qm by assumption.
  change (63 + 16383) with 16446. rewrite add64_small by lia.
  repeat split; try (f_equal; f_equal; lia); lia.
Qed.

Lemma split_rev_get_var pre tl k l : (1 <= k <= 8)%nat -> length l = k -> bytes_ok l ->
  of_le l + 16446 < 18446744073709551616 ->
  split_rev_get_at (pre ++ (l ++ [128 + N.of_nat k]) ++ tl) (Z.of_nat (length pre) + Z.of_nat k)
    = Some (1 + N.of_nat k, of_le l + 16446).
Proof.
  intros Hk Hl Hb Hv. unfold split_rev_get_at. cbv zeta.
  rewrite byte_atz_mid_z by (rewrite app_length; cbn [length]; lia).
  rewrite Nat2Z.id. rewrite app_nth2 by lia. replace (k - length l)%nat with 0%nat by lia. cbn [nth].
  unfold split_width_ext, split_encoding2, SPLIT_MASK, SPLIT_6, SPLIT_14, SPLIT_VAR, SPLIT_MAX_14.
  rewrite land192 by lia.
  replace (64 * ((128 + N.of_nat k) / 64)) with 128 by lia.
  change (128 =? 0) with false. change (128 =? 64) with false. change (128 =? 128) with true.
  cbv iota.
  replace (128 + N.of_nat k - 128) with (N.of_nat k) by lia.
  replace (Z.of_nat (length pre) + Z.of_nat k - Z.of_N (N.of_nat k))%Z with (Z.of_nat (length pre)) by lia.
  rewrite <- app_assoc.
  rewrite ext_get_qm by assumption.
  change (63 + 16383) with 16446. rewrite add64_small by lia.
  first [reflexivity | f_equal; f_equal; lia].
Qed.

(* ------------------------------------------------------------------ *)
(* round trip and length agreement                                     *)
Theorem split_roundtrip_at x : x < 18446744073709551616 ->
  exists bs, split_put x = Some bs /\
    N.of_nat (length bs) = split_length x /\
    forall pre tl,
      split_get_at (pre ++ bs ++ tl) (Z.of_nat (length pre)) = Some (split_length x, x) /\
      split_getlen_at (pre ++ bs ++ tl) (Z.of_nat (length pre)) = split_length x /\
      split_getlen_quick_at (pre ++ bs ++ tl) (Z.of_nat (length pre)) = split_length x.
Proof.
  intro Hx. destruct (split_classify x Hx) as [H|H|k Hk H Hw Hlt Hge].
  - exists [x]. rewrite split_put_embed0, split_length_embed0 by exact H.
    split; [reflexivity|]. split; [reflexivity|]. intros pre tl.
    destruct (split_get_embed0 pre tl x H) as (A & B & C & _). auto.
  - eexists. rewrite split_put_embed1, split_length_embed1 by exact H.
    split; [reflexivity|]. split; [reflexivity|]. intros pre tl.
    destruct (split_get_embed1 pre tl ((x - 63) / 256) ((x - 63) mod 256)) as (A & B & C); try lia.
    rewrite A, B, C. repeat split. f_equal. f_equal. lia.
  - eexists. rewrite (split_put_var x k), (split_length_var x k) by (assumption || lia).
    split; [reflexivity|]. split; [cbn [length]; rewrite length_le_bytes; lia|]. intros pre tl.
    pose proof (of_le_le_bytes_small k (x - 16446) Hlt) as V.
    destruct (split_get_var pre tl k (le_bytes k (x - 16446))) as (A & B & C);
      try assumption; [apply length_le_bytes | apply bytes_ok_le_bytes | rewrite V; lia |].
    rewrite A, B, C, V. repeat split. f_equal. f_equal. lia.
Qed.

Theorem split_roundtrip x tl : x < 18446744073709551616 ->
  exists bs, split_put x = Some bs /\ split_get (bs ++ tl) = Some (split_length x, x).
Proof.
  intro Hx. destruct (split_roundtrip_at x Hx) as (bs & P & _ & G).
  exists bs. split; [exact P|]. destruct (G [] tl) as (A & _). exact A.
Qed.

Theorem split_len_agree x : x < 18446744073709551616 ->
  exists bs, split_put x = Some bs /\
    N.of_nat (length bs) = split_length x /\
    split_getlen bs = split_length x /\ split_getlen_quick bs = split_length x.
Proof.
  intro Hx. destruct (split_roundtrip_at x Hx) as (bs & P & L & G).
  exists bs. split; [exact P|]. split; [exact L|].
  destruct (G [] []) as (_ & B & C). cbn [app length] in B, C. rewrite app_nil_r in B, C.
  split; assumption.
Qed.

Theorem split_len_range x : x < 18446744073709551616 -> 1 <= split_length x <= 9.
Proof.
  intro Hx. rewrite split_length_chain by exact Hx. unfold split_len_chain. kill_ifs; lia.
Qed.

(* reversed container: the reader placed at the type byte (the last byte
   written) of either reversed writer returns the value and the length,
   whatever surrounds the bytes *)
Theorem split_rev_roundtrip_at x : x < 18446744073709551616 ->
  exists bs, split_rev_put_forward x = Some bs /\
    split_rev_put_reversed x = Some (bs, (length bs - 1)%nat) /\
    N.of_nat (length bs) = split_length x /\
    forall pre tl,
      split_rev_get_at (pre ++ bs ++ tl) (Z.of_nat (length pre) + Z.of_nat (length bs - 1))
        = Some (split_length x, x).
Proof.
  intro Hx. destruct (split_rev_put_reversed_forward x Hx) as (bs & F & R).
  exists bs. split; [exact F|]. split; [exact R|]. clear R.
  destruct (split_classify x Hx) as [H|H|k Hk H Hw Hlt Hge].
  - rewrite split_rev_put_forward_embed0 in F by exact H. apply some_inj in F; subst bs.
    rewrite split_length_embed0 by exact H. split; [reflexivity|]. intros pre tl.
    change (Z.of_nat (length [x] - 1)) with 0%Z. rewrite Z.add_0_r.
    destruct (split_get_embed0 pre tl x H) as (_ & _ & _ & D). exact D.
  - rewrite split_rev_put_forward_embed1 in F by exact H. apply some_inj in F; subst bs.
    rewrite split_length_embed1 by exact H. split; [reflexivity|]. intros pre tl.
    change (Z.of_nat (length [(x - 63) mod 256; 64 + (x - 63) / 256] - 1)) with 1%Z.
    rewrite split_rev_get_embed1 by lia. f_equal. f_equal. lia.
  - rewrite (split_rev_put_forward_var x k) in F by (assumption || lia). apply some_inj in F; subst bs.
    rewrite (split_length_var x k) by assumption.
    rewrite app_length, length_le_bytes. cbn [length].
    split; [lia|]. intros pre tl.
    replace (k + 1 - 1)%nat with k by lia.
    pose proof (of_le_le_bytes_small k (x - 16446) Hlt) as V.
    rewrite split_rev_get_var; try assumption;
      [| apply length_le_bytes | apply bytes_ok_le_bytes | rewrite V; lia].
    rewrite V. f_equal. f_equal. lia.
Qed.

(* ------------------------------------------------------------------ *)
(* length classes: monotone, documented maxima                         *)
Theorem split_len_mono x y : x <= y -> y < 18446744073709551616 ->
  split_length x <= split_length y.
Proof.
  intros Hxy Hy. rewrite !split_length_chain by lia. unfold split_len_chain.
  kill_ifs; lia.
Qed.

Theorem split_max_values :
  split_max 1 = 63 /\ split_max 2 = 16701 /\ split_max 3 = 81981 /\ split_max 4 = 16793661 /\
  split_max 5 = 4294983741 /\ split_max 6 = 1099511644221 /\ split_max 7 = 281474976727101 /\
  split_max 8 = 72057594037944381 /\ split_max 9 = 18446744073709551615.
Proof. vm_compute. repeat split; reflexivity. Qed.

Theorem split_len_le_max x k : x < 18446744073709551616 -> 1 <= k <= 9 ->
  (split_length x <= k <-> x <= split_max k).
Proof.
  intros Hx Hk. rewrite split_length_chain by exact Hx.
  destruct split_max_values as (M1 & M2 & M3 & M4 & M5 & M6 & M7 & M8 & M9).
  assert (C : k = 1 \/ k = 2 \/ k = 3 \/ k = 4 \/ k = 5 \/ k = 6 \/ k = 7 \/ k = 8 \/ k = 9) by lia.
  unfold split_len_chain.
  destruct C as [C|[C|[C|[C|[C|[C|[C|[C|C]]]]]]]]; subst k;
    rewrite ?M1, ?M2, ?M3, ?M4, ?M5, ?M6, ?M7, ?M8, ?M9; kill_ifs; lia.
Qed.
