(* TaggedCanon.v — the tagged format is canonical: decode-spec of the
   encoder's bytes is the value, every byte string denoting x is at least as
   long as the encoder's, lengths are monotone and match the published
   per-length maxima (VVgen.Consts, regenerated from varintTagged.h). *)
Require Import VV.Base VV.BaseProofs VV.Tagged VV.TaggedProofs VV.TaggedSpec VV.TaggedSpecProofs.
Require Import VVgen.Consts.
From Coq Require Import Lia ZifyBool ZifyN ZifyNat.
Local Open Scope N_scope.
Ltac Zify.zify_post_hook ::= Z.div_mod_to_equations.

Lemma of_le_lt l : bytes_ok l -> of_le l < 256 ^ N.of_nat (length l).
Proof.
  unfold bytes_ok. induction 1 as [|b l Hb Hl IH]; [cbn; lia|].
  cbn [of_le length]. rewrite Nat2N.inj_succ, N.pow_succ_r'.
  set (P := 256 ^ N.of_nat (length l)) in *. lia.
Qed.

Lemma of_be_lt l : bytes_ok l -> of_be l < 256 ^ N.of_nat (length l).
Proof.
  intro H. unfold of_be. rewrite <- (rev_length l). apply of_le_lt. apply bytes_ok_rev. exact H.
Qed.

Theorem tagged_denote_put x : x < 18446744073709551616 -> tagged_denote (tagged_put64 x) = Some x.
Proof.
  intro Hx. rewrite tagged_put_is_spec by exact Hx. unfold tagged_spec. cbv zeta.
  destruct (x <=? 240) eqn:E1.
  { cbn [tagged_denote]. rewrite E1. reflexivity. }
  destruct (x <=? 2287) eqn:E2.
  { cbn [tagged_denote].
    destruct ((241 <=? 241 + (x - 240) / 256) && (241 + (x - 240) / 256 <=? 248)) eqn:E; [|lia].
    f_equal. lia. }
  destruct (x <=? 67823) eqn:E3.
  { cbn [tagged_denote length]. cbn [Nat.eqb andb N.eqb Pos.eqb nth]. f_equal. lia. }
  destruct (kmax_facts x Hx) as (K1 & K2 & K3). cbv zeta in *.
  set (k := Nat.max 3 (ext_width x)) in *.
  pose proof (length_be_bytes k x) as L.
  destruct (be_bytes k x) as [|b1 [|b2 rest]] eqn:EB; [cbn [length] in L; lia|cbn [length] in L; lia|].
  cbn [tagged_denote].
  destruct (N.of_nat k + 247 =? 249) eqn:E4; [lia|]. cbn [andb].
  rewrite L. rewrite <- EB.
  destruct ((250 <=? N.of_nat k + 247) && (N.of_nat k + 247 <=? 255) && (N.of_nat k =? N.of_nat k + 247 - 247)) eqn:E5; [|lia].
  f_equal. rewrite of_be_be_bytes. apply N.mod_small. exact K2.
Qed.

Lemma tagged_len_le x k : 3 <= k <= 8 -> x < 256 ^ k -> tagged_len x <= k + 1.
Proof.
  intros Hk Hx.
  assert (k = 3 \/ k = 4 \/ k = 5 \/ k = 6 \/ k = 7 \/ k = 8) as [ -> | [ -> | [ -> | [ -> | [ -> | -> ] ] ] ] ] by lia;
  match type of Hx with _ < 256 ^ ?e => let v := eval vm_compute in (256 ^ e) in change (256 ^ e) with v in Hx end;
  unfold tagged_len, u32, shr; cbv zeta; kill_ifs; lia.
Qed.

(* every byte string the DECODE rules map to x is at least as long as the
   encoder's output for x: the encoder is the shortest (canonical) form *)
Theorem tagged_shortest b x : bytes_ok b -> tagged_denote b = Some x ->
  tagged_len x <= N.of_nat (length b).
Proof.
  intros Hb H. destruct b as [|a0 [|a1 [|a2 rest]]].
  - discriminate.
  - assert (D : tagged_denote [a0] = if a0 <=? 240 then Some a0 else None) by reflexivity.
    rewrite D in H. clear D. destruct (a0 <=? 240) eqn:E; [|discriminate].
    injection H as <-. unfold tagged_len. rewrite E. cbn [length]. lia.
  - assert (D : tagged_denote [a0; a1] =
      if (241 <=? a0) && (a0 <=? 248) then Some (240 + 256 * (a0 - 241) + a1) else None) by reflexivity.
    rewrite D in H. clear D.
    destruct ((241 <=? a0) && (a0 <=? 248)) eqn:E; [|discriminate].
    assert (X : x = 240 + 256 * (a0 - 241) + a1) by congruence. clear H.
    assert (H1 : a1 < 256) by (apply (byte_at_lt [a0; a1] 1 Hb)). subst x.
    change (length [a0; a1]) with 2%nat. unfold tagged_len, u32, shr. cbv zeta. kill_ifs; lia.
  - remember (a1 :: a2 :: rest) as r eqn:Er.
    assert (Hr : bytes_ok r) by (inversion Hb; assumption).
    assert (D : tagged_denote (a0 :: r) =
      if (a0 =? 249) && (length r =? 2)%nat then Some (2288 + 256 * nth 0 r 0 + nth 1 r 0)
      else if (250 <=? a0) && (a0 <=? 255) && (N.of_nat (length r) =? a0 - 247) then Some (of_be r) else None).
    { subst r. reflexivity. }
    rewrite D in H. clear D.
    destruct ((a0 =? 249) && (length r =? 2)%nat) eqn:E1.
    + assert (X : x = 2288 + 256 * nth 0 r 0 + nth 1 r 0) by congruence. clear H.
      subst r. change (nth 0 (a1 :: a2 :: rest) 0) with a1 in X. change (nth 1 (a1 :: a2 :: rest) 0) with a2 in X.
      assert (rest = []) as -> by (destruct rest; [reflexivity|cbn [length Nat.eqb] in E1; lia]).
      change (length [a0; a1; a2]) with 3%nat.
      assert (H1 : a1 < 256) by (apply (byte_at_lt [a1; a2] 0 Hr)).
      assert (H2 : a2 < 256) by (apply (byte_at_lt [a1; a2] 1 Hr)). subst x.
      unfold tagged_len, u32, shr. cbv zeta. kill_ifs; lia.
    + destruct ((250 <=? a0) && (a0 <=? 255) && (N.of_nat (length r) =? a0 - 247)) eqn:E2; [|discriminate].
      assert (X : x = of_be r) by congruence. clear H. subst x. pose proof (of_be_lt r Hr) as B.
      change (length (a0 :: r)) with (S (length r)). rewrite Nat2N.inj_succ.
      pose proof (tagged_len_le (of_be r) (N.of_nat (length r)) ltac:(lia) B). lia.
Qed.

Theorem tagged_len_mono x y : y < 18446744073709551616 -> x <= y -> tagged_len x <= tagged_len y.
Proof.
  intros Hy H. unfold tagged_len, u32, shr. cbv zeta. kill_ifs; lia.
Qed.

(* published per-length maxima, as regenerated from varintTagged.h *)
Definition tagged_max_c (k : N) : N :=
  match k with
  | 1 => VARINT_TAGGED_MAX_1 | 2 => VARINT_TAGGED_MAX_2 | 3 => VARINT_TAGGED_MAX_3
  | 4 => VARINT_TAGGED_MAX_4 | 5 => VARINT_TAGGED_MAX_5 | 6 => VARINT_TAGGED_MAX_6
  | 7 => VARINT_TAGGED_MAX_7 | 8 => VARINT_TAGGED_MAX_8 | 9 => VARINT_TAGGED_MAX_9
  | _ => 0
  end.

Theorem tagged_len_class x k : x < 18446744073709551616 -> 1 <= k <= 9 ->
  (tagged_len x <= k <-> x <= tagged_max_c k).
Proof.
  intros Hx Hk.
  assert (k = 1 \/ k = 2 \/ k = 3 \/ k = 4 \/ k = 5 \/ k = 6 \/ k = 7 \/ k = 8 \/ k = 9)
    as [ -> | [ -> | [ -> | [ -> | [ -> | [ -> | [ -> | [ -> | -> ] ] ] ] ] ] ] ] by lia;
  cbn [tagged_max_c];
  unfold VARINT_TAGGED_MAX_1, VARINT_TAGGED_MAX_2, VARINT_TAGGED_MAX_3, VARINT_TAGGED_MAX_4,
    VARINT_TAGGED_MAX_5, VARINT_TAGGED_MAX_6, VARINT_TAGGED_MAX_7, VARINT_TAGGED_MAX_8, VARINT_TAGGED_MAX_9;
  unfold tagged_len, u32, shr; cbv zeta; split; intro H; revert H; kill_ifs; lia.
Qed.

(* the documented summary table equals the header constants *)
Theorem tagged_max_table : forall k, 1 <= k <= 9 -> tagged_max k = tagged_max_c k.
Proof.
  intros k Hk.
  assert (k = 1 \/ k = 2 \/ k = 3 \/ k = 4 \/ k = 5 \/ k = 6 \/ k = 7 \/ k = 8 \/ k = 9)
    as [ -> | [ -> | [ -> | [ -> | [ -> | [ -> | [ -> | [ -> | -> ] ] ] ] ] ] ] ] by lia; reflexivity.
Qed.
