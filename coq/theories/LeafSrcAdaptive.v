(* LeafSrcAdaptive.v — the regenerated renderings (coq/gen/Src_leaf_adaptive.v,
   produced by gen/c2coq.py from the current src/varintAdaptive.c + varintAdaptive.h)
   of varintAdaptiveMaxSize and size_mul_overflow: the first computes what the hand
   model (Adaptive.v: adp_max_size) computes for every size_t count; the second (no
   hand model: the model's encoders work on lists) is proved against its
   specification — it reports exactly the products that do not fit in size_t and
   stores the wrapped product; and the C03 bound theorems restated with the bound
   taken from src_varintAdaptiveMaxSize. *)
Require Import VV.Base VV.BaseProofs VV.Adaptive VV.AdaptiveTheorems VV.CSem VV.CSemProofs VV.LeafSrcLemmas.
Require Import VVgen.Src_leaf_adaptive.
From Coq Require Import Lia ZifyBool ZifyN ZifyNat.
Local Open Scope Z_scope.
Ltac Zify.zify_post_hook ::= Z.div_mod_to_equations.

Lemma src_varintAdaptiveMaxSize_is_model : forall c, 0 <= c < 18446744073709551616 ->
  src_varintAdaptiveMaxSize c = COk (Z.of_N (adp_max_size (Z.to_N c))).
Proof.
  intros c H. unfold adp_max_size, u64, mul64.
  unfold src_varintAdaptiveMaxSize. c_run. f_equal. closed_eval. n2z_push. rewrite Z2N.id by lia. lia.
Qed.

(* (a*b mod 2^64) / a <> b  iff  the product does not fit *)
Lemma mul_ovf_test a b : 0 < a < 18446744073709551616 -> 0 < b < 18446744073709551616 ->
  ((a * b) mod 18446744073709551616 / a =? b) = (a * b <? 18446744073709551616).
Proof.
  intros Ha Hb. destruct (a * b <? 18446744073709551616) eqn:E.
  - rewrite Z.mod_small by nia. rewrite Z.mul_comm, Z.div_mul by lia. apply Z.eqb_refl.
  - apply Z.eqb_neq. intro Q.
    set (r := (a * b) mod 18446744073709551616) in *.
    assert (R : 0 <= r < 18446744073709551616) by (apply Z.mod_pos_bound; lia).
    pose proof (Z.mul_div_le r a ltac:(lia)) as D. rewrite Q in D. lia.
Qed.

Lemma src_size_mul_overflow_spec : forall a b p, 0 <= a < 18446744073709551616 -> 0 <= b < 18446744073709551616 ->
  src_size_mul_overflow a b p =
  COk (b2z (18446744073709551616 <=? a * b), Some ((a * b) mod 18446744073709551616)).
Proof.
  intros a b p Ha Hb.
  assert (C : a = 0 \/ b = 0 \/ (0 < a /\ 0 < b)) by lia.
  destruct C as [C|[C|C]].
  - subst a. unfold src_size_mul_overflow. c_run. reflexivity.
  - subst b. unfold src_size_mul_overflow. c_run. all: rewrite Z.mul_0_r; reflexivity.
  - unfold src_size_mul_overflow. c_run.
    all: rewrite mul_ovf_test in E by lia.
    all: destruct (18446744073709551616 <=? a * b) eqn:F; try reflexivity; exfalso; lia.
Qed.

(* ---------- property C03, about the regenerated bound ---------- *)

Theorem src_adaptive_max_size_value : forall n, 0 <= n < 576460752303423488 ->
  src_varintAdaptiveMaxSize n = COk (21 + 22 * n).
Proof.
  intros n H. rewrite src_varintAdaptiveMaxSize_is_model by lia.
  rewrite adp_max_size_eq by lia. f_equal. lia.
Qed.

Theorem src_adaptive_encode_bound : forall xs,
  Forall (fun x => (x < 18446744073709551616)%N) xs -> (N.of_nat (length xs) < 4294967296)%N ->
  exists mb, src_varintAdaptiveMaxSize (Z.of_nat (length xs)) = COk mb /\
    Z.of_nat (length (match adp_encode xs with AEOk b _ => b | AEFail b => b | AEUB => [] end)) <= mb.
Proof.
  intros xs Hx Hc. exists (Z.of_N (adp_max_size (N.of_nat (length xs)))).
  rewrite src_varintAdaptiveMaxSize_is_model by lia.
  replace (Z.to_N (Z.of_nat (length xs))) with (N.of_nat (length xs)) by lia.
  split; [reflexivity|]. pose proof (adp_encode_bound xs Hx Hc) as B. unfold adp_written in B.
  destruct (adp_encode xs); lia.
Qed.

Theorem src_adaptive_encode_with_bound : forall xs e,
  Forall (fun x => (x < 18446744073709551616)%N) xs -> (N.of_nat (length xs) < 4294967296)%N ->
  exists mb, src_varintAdaptiveMaxSize (Z.of_nat (length xs)) = COk mb /\
    Z.of_nat (length (match adp_encode_with xs e with AEOk b _ => b | AEFail b => b | AEUB => [] end)) <= mb.
Proof.
  intros xs e Hx Hc. exists (Z.of_N (adp_max_size (N.of_nat (length xs)))).
  rewrite src_varintAdaptiveMaxSize_is_model by lia.
  replace (Z.to_N (Z.of_nat (length xs))) with (N.of_nat (length xs)) by lia.
  split; [reflexivity|]. pose proof (adp_encode_with_bound xs e Hx Hc) as B. unfold adp_written in B.
  destruct (adp_encode_with xs e); lia.
Qed.
