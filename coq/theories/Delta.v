(* Delta.v — Gallina model of src/varintDelta.{c,h} and of the pieces of
   src/varintExternal.{c,h} that delta / FOR / group call (little-endian
   host).  One definition per C function / macro, same case structure.

   Conventions (harness/GUIDE.md): encoders return the bytes written,
   decoders take the bytes "at the pointer" as a list (a pointer advance is
   [skipn]) and read with default 0 beyond the end; reading only inside the
   encoding is stated as independence from any suffix.  [None] = the C code
   reaches undefined behaviour (signed overflow, a width the external
   varint switch does not handle). *)
Require Import VV.Base.
Local Open Scope N_scope.

(* ---------- varintExternal pieces ---------- *)

(* varintExternalUnsignedEncoding(value, encoding) is Base.ext_width *)

(* widths the little-endian copy switch handles with 8 bytes of source /
   destination: 1..8.  (9..16 copy 9..16 bytes from/to an 8-byte object,
   everything else reaches __builtin_unreachable.) *)
Definition dfg_width_ok (w : N) : bool := (1 <=? w) && (w <=? 8).

(* varintExternalPutFixedWidth(p, v, encoding) *)
Definition dfg_ext_put (v w : N) : option (list N) :=
  if dfg_width_ok w then Some (le_bytes (N.to_nat w) v) else None.

(* varintExternalGet(p, encoding): the bytes at p, missing ones read as 0 *)
Definition dfg_ext_get (p : list N) (w : N) : option N :=
  if dfg_width_ok w then Some (of_le (firstn (N.to_nat w) p)) else None.

(* varintExternalPutFixedWidthQuick_(dst, val, encoding) *)
Definition dfg_ext_put_quick (v w : N) : option (list N) :=
  match w with
  | 1 => Some [u8 v]
  | 2 => Some [N.land v 255; N.land (shr v 8) 255]
  | 3 => Some [N.land v 255; N.land (shr v 8) 255; N.land (shr v 16) 255]
  | _ => dfg_ext_put v w
  end.

(* varintExternalGetQuick_(src, width, result) *)
Definition dfg_ext_get_quick (p : list N) (w : N) : option N :=
  match w with
  | 1 => Some (byte_at p 0)
  | 2 => Some (N.lor (shl64 (byte_at p 1) 8) (byte_at p 0))
  | 3 => Some (N.lor (N.lor (shl64 (byte_at p 2) 16) (shl64 (byte_at p 1) 8)) (byte_at p 0))
  | _ => dfg_ext_get p w
  end.

(* ---------- varintDelta.h ---------- *)

(* varintDeltaZigZag(int64_t n):
     sign_mask = (uint64_t)(n < 0 ? -1 : 0);  ((uint64_t)n << 1) ^ sign_mask *)
Definition delta_zigzag (n : Z) : N :=
  let sign_mask := if (n <? 0)%Z then of_s64 (-1) else 0 in
  N.lxor (shl64 (of_s64 n) 1) sign_mask.

(* varintDeltaZigZagDecode(uint64_t zigzag):
     (int64_t)((zigzag >> 1) ^ (uint64_t)(-(int64_t)(zigzag & 1))) *)
Definition delta_unzigzag (zz : N) : Z :=
  to_s64 (N.lxor (shr zz 1) (of_s64 (- Z.of_N (N.land zz 1)))).

(* the mapping the header documents: 0->0, -1->1, 1->2, -2->3, ... *)
Definition delta_zigzag_spec (n : Z) : N :=
  Z.to_N (if (0 <=? n)%Z then 2 * n else - 2 * n - 1)%Z.

(* varintDeltaMaxEncodedSize(count), size_t arithmetic *)
Definition delta_max_encoded_size (count : N) : N :=
  if count =? 0 then 0 else u64 (1 + 8 + mul64 (count - 1) 9).

(* ---------- varintDelta.c ---------- *)

(* varintDeltaPut(p, delta): bytes written (return value = their number) *)
Definition delta_put (delta : Z) : list N :=
  let zz := delta_zigzag delta in
  let width := ext_width zz in
  u8 (N.of_nat width) :: le_bytes width zz.

(* varintDeltaGet(p, &delta): (bytes consumed, delta) *)
Definition delta_get (p : list N) : option (N * Z) :=
  let width := byte_at p 0 in
  match dfg_ext_get (tl p) width with
  | Some zz => Some (1 + width, delta_unzigzag zz)
  | None => None
  end.

(* the delta loop of varintDeltaEncode; `values[i] - prev` is a signed
   subtraction: not representable = undefined *)
Fixpoint delta_encode_loop (prev : Z) (vs : list Z) : option (list N) :=
  match vs with
  | [] => Some []
  | v :: t =>
      let d := (v - prev)%Z in
      if in_s64 d then
        match delta_encode_loop v t with
        | Some r => Some (delta_put d ++ r)
        | None => None
        end
      else None
  end.

(* varintDeltaEncode(output, values, count), count = length values *)
Definition delta_encode (values : list Z) : option (list N) :=
  match values with
  | [] => Some []
  | base :: rest =>
      let bz := delta_zigzag base in
      let bw := ext_width bz in
      match delta_encode_loop base rest with
      | Some r => Some (u8 (N.of_nat bw) :: le_bytes bw bz ++ r)
      | None => None
      end
  end.

(* the delta loop of varintDeltaDecode: (bytes consumed, values stored);
   `current += delta` is a signed addition *)
Fixpoint delta_decode_loop (p : list N) (n : nat) (cur : Z) : option (N * list Z) :=
  match n with
  | O => Some (0, [])
  | S n' =>
      match delta_get p with
      | None => None
      | Some (used, d) =>
          let c := (cur + d)%Z in
          if in_s64 c then
            match delta_decode_loop (skipn (N.to_nat used) p) n' c with
            | Some (u, vs) => Some (used + u, c :: vs)
            | None => None
            end
          else None
      end
  end.

(* varintDeltaDecode(input, count, output): (return value, output[0..count)) *)
Definition delta_decode (input : list N) (count : nat) : option (N * list Z) :=
  match count with
  | O => Some (0, [])
  | S n =>
      let bw := byte_at input 0 in
      match dfg_ext_get (tl input) bw with
      | None => None
      | Some bz =>
          let base := delta_unzigzag bz in
          match delta_decode_loop (skipn (N.to_nat (1 + bw)) input) n base with
          | Some (u, vs) => Some (1 + bw + u, base :: vs)
          | None => None
          end
      end
  end.

(* varintDeltaEncodeUnsigned: delta = (int64_t)(values[i] - prev), the
   subtraction is unsigned (wraps), the conversion keeps the bit pattern *)
Fixpoint delta_encode_u_loop (prev : N) (vs : list N) : list N :=
  match vs with
  | [] => []
  | v :: t => delta_put (to_s64 (sub64 v prev)) ++ delta_encode_u_loop v t
  end.

Definition delta_encode_u (values : list N) : list N :=
  match values with
  | [] => []
  | base :: rest =>
      let bw := ext_width base in
      u8 (N.of_nat bw) :: le_bytes bw base ++ delta_encode_u_loop base rest
  end.

(* varintDeltaDecodeUnsigned: current = current + (uint64_t)delta (after the
   fix: commit "fix: varintDeltaDecodeUnsigned adds the delta in unsigned
   arithmetic"; before it the addition was done in int64_t and overflowed,
   e.g. on [2^63; 0]) *)
Fixpoint delta_decode_u_loop (p : list N) (n : nat) (cur : N) : option (N * list N) :=
  match n with
  | O => Some (0, [])
  | S n' =>
      match delta_get p with
      | None => None
      | Some (used, d) =>
          let c := add64 cur (of_s64 d) in
          match delta_decode_u_loop (skipn (N.to_nat used) p) n' c with
          | Some (u, vs) => Some (used + u, c :: vs)
          | None => None
          end
      end
  end.

Definition delta_decode_u (input : list N) (count : nat) : option (N * list N) :=
  match count with
  | O => Some (0, [])
  | S n =>
      let bw := byte_at input 0 in
      match dfg_ext_get (tl input) bw with
      | None => None
      | Some base =>
          match delta_decode_u_loop (skipn (N.to_nat (1 + bw)) input) n base with
          | Some (u, vs) => Some (1 + bw + u, base :: vs)
          | None => None
          end
      end
  end.

(* EXTRACT: dfg_width_ok dfg_ext_put dfg_ext_get dfg_ext_put_quick dfg_ext_get_quick
   delta_zigzag delta_unzigzag delta_zigzag_spec delta_max_encoded_size delta_put delta_get
   delta_encode delta_decode delta_encode_u delta_decode_u *)
