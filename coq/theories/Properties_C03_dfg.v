(* Properties_C03_dfg.v — property C03 (encoders never write more than
   their advertised size), contribution of delta (maximum-size bound), FOR
   and group (exact size predictors).  The model's encoders return exactly
   the bytes written, so `length enc` is both the extent written and the
   returned length. *)
Require Import VV.Base VV.Tagged VV.Delta VV.FOR VV.Group.
Require Import VV.DeltaProofs VV.FORProofs VV.GroupProofs.
Local Open Scope N_scope.

(* 2^60 bounds the element count of an in-memory array; under it the size_t
   arithmetic of the sizing functions does not wrap *)

Theorem C03_delta_put_bound : forall d, in_s64 d = true -> (2 <= length (delta_put d) <= 9)%nat.
Proof. exact delta_put_length. Qed.
Print Assumptions C03_delta_put_bound.

Theorem C03_delta_bound : forall xs enc,
  Forall (fun x => in_s64 x = true) xs -> N.of_nat (length xs) < 1152921504606846976 ->
  delta_encode xs = Some enc ->
  N.of_nat (length enc) <= delta_max_encoded_size (N.of_nat (length xs)).
Proof. exact delta_bound. Qed.
Print Assumptions C03_delta_bound.

Theorem C03_delta_u_bound : forall xs,
  Forall (fun x => x < 18446744073709551616) xs -> N.of_nat (length xs) < 1152921504606846976 ->
  N.of_nat (length (delta_encode_u xs)) <= delta_max_encoded_size (N.of_nat (length xs)).
Proof. exact delta_u_bound. Qed.
Print Assumptions C03_delta_u_bound.

(* varintFORSize of the analysis = bytes written = meta.encodedSize *)
Theorem C03_for_size_exact : forall xs meta enc meta',
  xs <> [] -> Forall (fun x => x < 18446744073709551616) xs ->
  N.of_nat (length xs) < 1152921504606846976 ->
  (meta = None \/ exists m0, meta = Some m0 /\
     (fm_count m0 <> N.of_nat (length xs) \/ for_analyze xs = Some m0)) ->
  for_encode xs meta = Some (enc, meta') ->
  exists m, for_analyze xs = Some m /\ for_size m = N.of_nat (length enc) /\
            fm_size m = N.of_nat (length enc).
Proof. exact for_size_exact. Qed.
Print Assumptions C03_for_size_exact.

(* a caller meta with the matching count is trusted: whatever minimum and
   (supported) width it holds, exactly varintFORSize(meta) bytes are written *)
Theorem C03_for_size_exact_trusted : forall xs m0 enc meta',
  xs <> [] -> N.of_nat (length xs) < 1152921504606846976 ->
  fm_count m0 = N.of_nat (length xs) ->
  for_encode xs (Some m0) = Some (enc, meta') ->
  for_size m0 = N.of_nat (length enc) /\ meta' = Some m0.
Proof. exact for_size_exact_trusted. Qed.
Print Assumptions C03_for_size_exact_trusted.

Theorem C03_group_size_exact : forall xs,
  (1 <= length xs <= 64)%nat -> Forall (fun x => x < 18446744073709551616) xs ->
  exists enc, group_encode xs (N.of_nat (length xs)) = Some enc /\
    group_size xs (N.of_nat (length xs)) = Some (N.of_nat (length enc)).
Proof. exact group_size_exact. Qed.
Print Assumptions C03_group_size_exact.

(* refused field counts: nothing written, size 0 *)
Theorem C03_group_refused : forall xs fc, fc = 0 \/ 64 < fc ->
  group_encode xs fc = Some [] /\ group_size xs fc = Some 0.
Proof. exact group_refused. Qed.
Print Assumptions C03_group_refused.

Example C03_dfg_examples :
  delta_max_encoded_size 3 = 27 /\
  N.of_nat (length (delta_encode_u [9223372036854775808; 0; 9223372036854775808])) = 27 /\
  (exists e m, for_encode [18446744073709551615; 0] None = Some (e, m) /\ length e = 19%nat) /\
  group_size [18446744073709551615; 4294967296] 2 = Some 18.
Proof.
  split; [reflexivity|]. split; [vm_compute; reflexivity|].
  split; [do 2 eexists; split; vm_compute; reflexivity|vm_compute; reflexivity].
Qed.
