(* Properties_C04_splitfull.v — property C04 for SplitFull and SplitFullNoZero:
   the bytes produced are exactly those of the documented level table, the
   per-length maxima are the published constants of varint.h, length is
   monotone, and the encoding is the shortest the layout allows except in the
   documented never-shrink window.  Only `exact` + Print Assumptions. *)
Require Import VV.Base VV.SplitFull VV.SplitFullSpec VV.SplitFullSpecProofs VV.SplitFullDenoteProofs.
Require Import VVgen.Consts.
Local Open Scope N_scope.

(* ---- SplitFull ---- *)

(* byte-exact: the macro's output is the table interpreter's output *)
Theorem C04_splitfull_put_is_spec : forall x,
  x < 18446744073709551616 -> sf_put x = sf_spec x.
Proof. exact sf_put_is_spec. Qed.
Print Assumptions C04_splitfull_put_is_spec.

Theorem C04_splitfull_length_is_spec : forall x,
  x < 18446744073709551616 -> sf_length x = sf_spec_len x.
Proof. exact sf_length_is_spec. Qed.
Print Assumptions C04_splitfull_length_is_spec.

Theorem C04_splitfull_rev_is_spec : forall x,
  x < 18446744073709551616 -> sf_rev_put_forward x = sf_spec_rev x.
Proof. exact sf_rev_is_spec. Qed.
Print Assumptions C04_splitfull_rev_is_spec.

(* the documented decoder reads the encoder's bytes back *)
Theorem C04_splitfull_denote_put : forall x,
  x < 18446744073709551616 -> sf_denote (sf_put x) = Some x.
Proof. exact sf_denote_put. Qed.
Print Assumptions C04_splitfull_denote_put.

(* the level table's per-length maxima are the constants of varint.h *)
Theorem C04_splitfull_max_consts :
  sf_max 1 = VARINT_SPLIT_FULL_STORAGE_1 /\ sf_max 2 = VARINT_SPLIT_FULL_STORAGE_2 /\
  sf_max 3 = VARINT_SPLIT_FULL_STORAGE_3 /\ sf_max 4 = VARINT_SPLIT_FULL_STORAGE_4 /\
  sf_max 5 = VARINT_SPLIT_FULL_STORAGE_5 /\ sf_max 6 = VARINT_SPLIT_FULL_STORAGE_6 /\
  sf_max 7 = VARINT_SPLIT_FULL_STORAGE_7 /\ sf_max 8 = VARINT_SPLIT_FULL_STORAGE_8 /\
  sf_max 9 = VARINT_SPLIT_FULL_STORAGE_9.
Proof. exact sf_max_consts. Qed.
Print Assumptions C04_splitfull_max_consts.

(* len x = k  <->  STORAGE_(k-1) < x <= STORAGE_k *)
Theorem C04_splitfull_length_class : forall x,
  x < 18446744073709551616 ->
  (sf_length x = 1 <-> x <= VARINT_SPLIT_FULL_STORAGE_1) /\
  (sf_length x = 2 <-> VARINT_SPLIT_FULL_STORAGE_1 < x <= VARINT_SPLIT_FULL_STORAGE_2) /\
  (sf_length x = 3 <-> VARINT_SPLIT_FULL_STORAGE_2 < x <= VARINT_SPLIT_FULL_STORAGE_3) /\
  (sf_length x = 4 <-> VARINT_SPLIT_FULL_STORAGE_3 < x <= VARINT_SPLIT_FULL_STORAGE_4) /\
  (sf_length x = 5 <-> VARINT_SPLIT_FULL_STORAGE_4 < x <= VARINT_SPLIT_FULL_STORAGE_5) /\
  (sf_length x = 6 <-> VARINT_SPLIT_FULL_STORAGE_5 < x <= VARINT_SPLIT_FULL_STORAGE_6) /\
  (sf_length x = 7 <-> VARINT_SPLIT_FULL_STORAGE_6 < x <= VARINT_SPLIT_FULL_STORAGE_7) /\
  (sf_length x = 8 <-> VARINT_SPLIT_FULL_STORAGE_7 < x <= VARINT_SPLIT_FULL_STORAGE_8) /\
  (sf_length x = 9 <-> VARINT_SPLIT_FULL_STORAGE_8 < x <= VARINT_SPLIT_FULL_STORAGE_9).
Proof. exact sf_length_class. Qed.
Print Assumptions C04_splitfull_length_class.

Theorem C04_splitfull_length_mono : forall x y,
  y < 18446744073709551616 -> x <= y -> sf_length x <= sf_length y.
Proof. exact sf_length_mono. Qed.
Print Assumptions C04_splitfull_length_mono.

(* shortest encoding, with the exception stated exactly: a byte string of the
   layout shorter than the encoder's output exists only for the 256 values
   4210749..4211004 and is the 2-byte NOT USED row |11000001|q| *)
Theorem C04_splitfull_shorter_only_unused_row : forall b x,
  bytes_ok b -> sf_denote b = Some x -> x < 18446744073709551616 ->
  N.of_nat (length b) < sf_length x ->
  4210749 <= x <= 4211004 /\ b = [193; x - 4210749].
Proof. exact sf_shorter_only_unused_row. Qed.
Print Assumptions C04_splitfull_shorter_only_unused_row.

Theorem C04_splitfull_shortest : forall b x,
  bytes_ok b -> sf_denote b = Some x -> x < 18446744073709551616 ->
  x < 4210749 \/ 4211004 < x ->
  sf_length x <= N.of_nat (length b).
Proof. exact sf_shortest. Qed.
Print Assumptions C04_splitfull_shortest.

(* the window is real: every value in it has the 2-byte form and takes 3 *)
Theorem C04_splitfull_never_shrink_window : forall x,
  4210749 <= x <= 4211004 ->
  sf_denote [193; x - 4210749] = Some x /\ sf_length x = 3.
Proof. exact sf_never_shrink_window. Qed.
Print Assumptions C04_splitfull_never_shrink_window.

(* ... and the header's [4210750, 4211004] is stored as |11000010|q|00| *)
Theorem C04_splitfull_never_shrink_bytes : forall x,
  4210750 <= x <= 4211004 -> sf_put x = [194; x - 4210749; 0].
Proof. exact sf_never_shrink_bytes. Qed.
Print Assumptions C04_splitfull_never_shrink_bytes.

(* ---- SplitFullNoZero (1 <= x) ---- *)

Theorem C04_splitfullnz_put_is_spec : forall x,
  1 <= x -> x < 18446744073709551616 -> sfnz_put x = sfnz_spec x.
Proof. exact sfnz_put_is_spec. Qed.
Print Assumptions C04_splitfullnz_put_is_spec.

Theorem C04_splitfullnz_length_is_spec : forall x,
  1 <= x -> x < 18446744073709551616 -> sfnz_length x = sfnz_spec_len x.
Proof. exact sfnz_length_is_spec. Qed.
Print Assumptions C04_splitfullnz_length_is_spec.

Theorem C04_splitfullnz_rev_is_spec : forall x,
  1 <= x -> x < 18446744073709551616 -> sfnz_rev_put_forward x = sfnz_spec_rev x.
Proof. exact sfnz_rev_is_spec. Qed.
Print Assumptions C04_splitfullnz_rev_is_spec.

Theorem C04_splitfullnz_denote_put : forall x,
  1 <= x -> x < 18446744073709551616 -> sfnz_denote (sfnz_put x) = Some x.
Proof. exact sfnz_denote_put. Qed.
Print Assumptions C04_splitfullnz_denote_put.

Theorem C04_splitfullnz_max_consts :
  sfnz_max 1 = VARINT_SPLIT_FULL_NO_ZERO_STORAGE_1 /\
  sfnz_max 2 = VARINT_SPLIT_FULL_NO_ZERO_STORAGE_2 /\
  sfnz_max 3 = VARINT_SPLIT_FULL_NO_ZERO_STORAGE_3 /\
  sfnz_max 4 = VARINT_SPLIT_FULL_NO_ZERO_STORAGE_4 /\
  sfnz_max 5 = VARINT_SPLIT_FULL_NO_ZERO_STORAGE_5 /\
  sfnz_max 6 = VARINT_SPLIT_FULL_NO_ZERO_STORAGE_6 /\
  sfnz_max 7 = VARINT_SPLIT_FULL_NO_ZERO_STORAGE_7 /\
  sfnz_max 8 = VARINT_SPLIT_FULL_NO_ZERO_STORAGE_8 /\
  sfnz_max 9 = VARINT_SPLIT_FULL_NO_ZERO_STORAGE_9.
Proof. exact sfnz_max_consts. Qed.
Print Assumptions C04_splitfullnz_max_consts.

Theorem C04_splitfullnz_length_class : forall x,
  1 <= x -> x < 18446744073709551616 ->
  (sfnz_length x = 1 <-> x <= VARINT_SPLIT_FULL_NO_ZERO_STORAGE_1) /\
  (sfnz_length x = 2 <->
     VARINT_SPLIT_FULL_NO_ZERO_STORAGE_1 < x <= VARINT_SPLIT_FULL_NO_ZERO_STORAGE_2) /\
  (sfnz_length x = 3 <->
     VARINT_SPLIT_FULL_NO_ZERO_STORAGE_2 < x <= VARINT_SPLIT_FULL_NO_ZERO_STORAGE_3) /\
  (sfnz_length x = 4 <->
     VARINT_SPLIT_FULL_NO_ZERO_STORAGE_3 < x <= VARINT_SPLIT_FULL_NO_ZERO_STORAGE_4) /\
  (sfnz_length x = 5 <->
     VARINT_SPLIT_FULL_NO_ZERO_STORAGE_4 < x <= VARINT_SPLIT_FULL_NO_ZERO_STORAGE_5) /\
  (sfnz_length x = 6 <->
     VARINT_SPLIT_FULL_NO_ZERO_STORAGE_5 < x <= VARINT_SPLIT_FULL_NO_ZERO_STORAGE_6) /\
  (sfnz_length x = 7 <->
     VARINT_SPLIT_FULL_NO_ZERO_STORAGE_6 < x <= VARINT_SPLIT_FULL_NO_ZERO_STORAGE_7) /\
  (sfnz_length x = 8 <->
     VARINT_SPLIT_FULL_NO_ZERO_STORAGE_7 < x <= VARINT_SPLIT_FULL_NO_ZERO_STORAGE_8) /\
  (sfnz_length x = 9 <->
     VARINT_SPLIT_FULL_NO_ZERO_STORAGE_8 < x <= VARINT_SPLIT_FULL_NO_ZERO_STORAGE_9).
Proof. exact sfnz_length_class. Qed.
Print Assumptions C04_splitfullnz_length_class.

Theorem C04_splitfullnz_length_mono : forall x y,
  1 <= x -> y < 18446744073709551616 -> x <= y -> sfnz_length x <= sfnz_length y.
Proof. exact sfnz_length_mono. Qed.
Print Assumptions C04_splitfullnz_length_mono.

Theorem C04_splitfullnz_shorter_only_unused_row : forall b x,
  bytes_ok b -> sfnz_denote b = Some x -> x < 18446744073709551616 ->
  N.of_nat (length b) < sfnz_length x ->
  4210750 <= x <= 4211005 /\ b = [193; x - 4210750].
Proof. exact sfnz_shorter_only_unused_row. Qed.
Print Assumptions C04_splitfullnz_shorter_only_unused_row.

Theorem C04_splitfullnz_shortest : forall b x,
  bytes_ok b -> sfnz_denote b = Some x -> x < 18446744073709551616 ->
  x < 4210750 \/ 4211005 < x ->
  sfnz_length x <= N.of_nat (length b).
Proof. exact sfnz_shortest. Qed.
Print Assumptions C04_splitfullnz_shortest.

Theorem C04_splitfullnz_never_shrink_window : forall x,
  4210750 <= x <= 4211005 ->
  sfnz_denote [193; x - 4210750] = Some x /\ sfnz_length x = 3.
Proof. exact sfnz_never_shrink_window. Qed.
Print Assumptions C04_splitfullnz_never_shrink_window.

Theorem C04_splitfullnz_never_shrink_bytes : forall x,
  4210751 <= x <= 4211005 -> sfnz_put x = [194; x - 4210750; 0].
Proof. exact sfnz_never_shrink_bytes. Qed.
Print Assumptions C04_splitfullnz_never_shrink_bytes.

(* non-vacuity / table sanity: maxima, both sides of boundaries, the window *)
Example C04_splitfull_examples :
  sf_max 3 = 4276284 /\ sf_emax = 4210749 /\ sfnz_max 3 = 4276285 /\ sfnz_emax = 4210750 /\
  sf_spec 4276284 = [194; 255; 255] /\ sf_spec 4276285 = [195; 0; 0; 1] /\
  sfnz_spec 4276285 = [194; 255; 255] /\ sfnz_spec 0 = [] /\
  sf_denote [193; 7] = Some 4210756 /\ sf_length 4210756 = 3 /\
  sf_denote [194; 7; 0] = Some 4210756 /\ sf_spec_rev 16447 = [1; 0; 128].
Proof. vm_compute. repeat split; reflexivity. Qed.
