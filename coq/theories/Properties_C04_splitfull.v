(* Properties_C04_splitfull.v — placeholder, filled in below *)
Require Import VV.Base VV.SplitFull VV.SplitFullSpec.
