(* SplitFullProofs.v — lemmas about the SplitFull model (varintSplitFull.h):
   normal form of the encoders, lengths, round trips (forward and reversed). *)
Require Import VV.Base VV.BaseProofs VV.SplitFull VV.SplitFullLemmas.
From Coq Require Import Lia ZifyBool ZifyN ZifyNat Arith.
Local Open Scope N_scope.
Ltac Zify.zify_post_hook ::= Z.div_mod_to_equations.

Ltac sf_consts :=
  unfold SF_MAX_22, SF_MAX_14, SF_MAX_6, SF_MASK, SF_6_MASK,
         SF_TAG_6, SF_TAG_14, SF_TAG_22, SF_TAG_VAR in *.

(* ---------------- external helpers ---------------- *)

Lemma sf_ext_put_medium_le v w : sf_ext_put_medium v w = le_bytes (N.to_nat w) v.
Proof.
  unfold sf_ext_put_medium.
  destruct w as [|p]; [reflexivity|].
  destruct p as [[q|q|]|[q|q|]|]; try reflexivity.
  - (* 3 *) change (N.to_nat 3) with 3%nat. rewrite sfl_le_bytes_3, !sfl_land255. unfold shr.
    reflexivity.
  - (* 2 *) change (N.to_nat 2) with 2%nat. rewrite sfl_le_bytes_2, !sfl_land255. unfold shr.
    reflexivity.
Qed.

(* reading back k little-endian bytes through any reader that sees them *)
Lemma sf_ext_get_medium_le rd k v :
  (1 <= k <= 8)%nat -> v < 256 ^ N.of_nat k ->
  (forall i, (i < k)%nat -> rd i = nth i (le_bytes k v) 0) ->
  sf_ext_get_medium rd (N.of_nat k) = Some v.
Proof.
  intros Hk Hv Hrd.
  assert (Hgen : Some (of_le (map rd (seq 0 k))) = Some v).
  { f_equal. rewrite <- (length_le_bytes k v) at 1.
    rewrite (sfl_map_rd rd (le_bytes k v)).
    - rewrite of_le_le_bytes. apply N.mod_small. exact Hv.
    - intros i Hi. rewrite length_le_bytes in Hi. apply Hrd. exact Hi. }
  destruct k as [|[|[|[|[|[|[|[|[|k]]]]]]]]]; try lia;
    try (unfold sf_ext_get_medium; cbn [N.of_nat Pos.of_succ_nat Pos.succ];
         cbn [N.to_nat Pos.to_nat Pos.iter_op Nat.add]; exact Hgen).
  - (* 2 *) unfold sf_ext_get_medium. cbn [N.of_nat Pos.of_succ_nat Pos.succ].
    rewrite (Hrd 0%nat), (Hrd 1%nat) by lia. rewrite sfl_le_bytes_2. cbn [nth].
    change (256 ^ N.of_nat 2) with 65536 in Hv.
    rewrite sfl_or2 by lia. f_equal. lia.
  - (* 3 *) unfold sf_ext_get_medium. cbn [N.of_nat Pos.of_succ_nat Pos.succ].
    rewrite (Hrd 0%nat), (Hrd 1%nat), (Hrd 2%nat) by lia. rewrite sfl_le_bytes_3. cbn [nth].
    change (256 ^ N.of_nat 3) with 16777216 in Hv.
    rewrite sfl_or3 by lia. f_equal. lia.
Qed.

(* ---------------- LengthVAR_ ---------------- *)

Lemma sf_length_var_kw v : v < 18446744073709551616 ->
  sf_length_var v = 1 + N.of_nat (sfl_kw v).
Proof.
  intro Hv. destruct (ext_width_bounds v Hv) as (A & _ & _).
  unfold sf_length_var, sfl_kw, u8. cbv zeta.
  destruct (ext_width v =? 1)%nat eqn:E.
  - apply Nat.eqb_eq in E. rewrite E. reflexivity.
  - apply Nat.eqb_neq in E. rewrite Nat.max_r by lia. lia.
Qed.

Lemma sf_length_var_range v : v < 18446744073709551616 -> 3 <= sf_length_var v <= 9.
Proof.
  intro Hv. rewrite sf_length_var_kw by exact Hv.
  destruct (sfl_kw_facts v Hv) as (A & _). lia.
Qed.

(* ---------------- normal form of the encoder ---------------- *)

Definition sf_norm (x : N) : list N :=
  if x <=? 63 then [x]
  else if x <=? 16446 then [64 + (x - 63) / 256; (x - 63) mod 256]
  else if x <=? 4210749 then
    [128 + (x - 16446) / 65536; ((x - 16446) / 256) mod 256; (x - 16446) mod 256]
  else (192 + N.of_nat (sfl_kw (x - 4210749)))
         :: le_bytes (sfl_kw (x - 4210749)) (x - 4210749).

Definition sf_norm_len (x : N) : N :=
  if x <=? 63 then 1 else if x <=? 16446 then 2 else if x <=? 4210749 then 3
  else 1 + N.of_nat (sfl_kw (x - 4210749)).

Lemma sf_length_norm x : x < 18446744073709551616 -> sf_length x = sf_norm_len x.
Proof.
  intro Hx. unfold sf_length, sf_norm_len. sf_consts.
  change (63 + 16383) with 16446. change (16446 + 4194303) with 4210749.
  destruct (x <=? 63); [reflexivity|]. destruct (x <=? 16446); [reflexivity|].
  destruct (x <=? 4210749) eqn:E; [reflexivity|].
  apply sf_length_var_kw. lia.
Qed.

(* the first byte and payload of the embedded levels *)
Lemma sf_tag14 v : 1 <= v <= 16383 ->
  u8 (N.lor 64 (N.land (shr v 8) 63)) = 64 + v / 256.
Proof.
  intro H. rewrite sfl_land63. unfold shr. change (2 ^ 8) with 256.
  rewrite sfl_lor64 by (apply N.mod_lt; lia). unfold u8. lia.
Qed.
Lemma sf_tag22 v : 1 <= v <= 4194303 ->
  u8 (N.lor 128 (N.land (shr v 16) 63)) = 128 + v / 65536.
Proof.
  intro H. rewrite sfl_land63. unfold shr. change (2 ^ 16) with 65536.
  rewrite sfl_lor128 by (apply N.mod_lt; lia). unfold u8. lia.
Qed.
Lemma sf_tagvar w : w <= 8 -> u8 (N.lor 192 w) = 192 + w.
Proof. intro H. rewrite sfl_lor192 by lia. unfold u8. lia. Qed.
Lemma sf_lo8 v : u8 (N.land v 255) = v mod 256.
Proof. rewrite sfl_land255. unfold u8. lia. Qed.
Lemma sf_mid8 v : u8 (N.land (shr v 8) 255) = (v / 256) mod 256.
Proof. rewrite sfl_land255. unfold u8, shr. change (2 ^ 8) with 256. lia. Qed.

Lemma sf_put_norm x : x < 18446744073709551616 -> sf_put x = sf_norm x.
Proof.
  intro Hx. unfold sf_put, sf_norm. sf_consts. cbv zeta.
  change (63 + 16383) with 16446. change (16446 + 4194303) with 4210749.
  destruct (x <=? 63) eqn:E1.
  { rewrite N.lor_0_l. unfold u8. f_equal. lia. }
  destruct (x <=? 16446) eqn:E2.
  { rewrite sf_tag14, sf_lo8 by lia. reflexivity. }
  destruct (x <=? 4210749) eqn:E3.
  { rewrite sf_tag22, sf_mid8, sf_lo8 by lia. reflexivity. }
  assert (Hv : x - 4210749 < 18446744073709551616) by lia.
  rewrite sf_length_var_kw by exact Hv.
  destruct (sfl_kw_facts _ Hv) as (A & _).
  replace (1 + N.of_nat (sfl_kw (x - 4210749)) - 1) with (N.of_nat (sfl_kw (x - 4210749))) by lia.
  rewrite sf_tagvar by lia. rewrite sf_ext_put_medium_le, Nat2N.id. reflexivity.
Qed.

Lemma sf_norm_length x : N.of_nat (length (sf_norm x)) = sf_norm_len x.
Proof.
  unfold sf_norm, sf_norm_len.
  destruct (x <=? 63); [reflexivity|]. destruct (x <=? 16446); [reflexivity|].
  destruct (x <=? 4210749); [reflexivity|].
  cbn [length]. rewrite length_le_bytes. lia.
Qed.

Theorem sf_put_length x : x < 18446744073709551616 ->
  N.of_nat (length (sf_put x)) = sf_length x.
Proof. intro Hx. rewrite sf_put_norm, sf_length_norm by exact Hx. apply sf_norm_length. Qed.

Theorem sf_length_range x : x < 18446744073709551616 -> 1 <= sf_length x <= 9.
Proof.
  intro Hx. rewrite sf_length_norm by exact Hx. unfold sf_norm_len.
  destruct (x <=? 63); [lia|]. destruct (x <=? 16446); [lia|].
  destruct (x <=? 4210749) eqn:E; [lia|].
  destruct (sfl_kw_facts (x - 4210749) ltac:(lia)) as (A & _). lia.
Qed.

Theorem sf_put_bytes_ok x : x < 18446744073709551616 -> bytes_ok (sf_put x).
Proof.
  intro Hx. rewrite sf_put_norm by exact Hx. unfold sf_norm, bytes_ok.
  destruct (x <=? 63) eqn:E1; [repeat (apply Forall_cons; [lia|]); apply Forall_nil|].
  destruct (x <=? 16446) eqn:E2; [repeat (apply Forall_cons; [lia|]); apply Forall_nil|].
  destruct (x <=? 4210749) eqn:E3; [repeat (apply Forall_cons; [lia|]); apply Forall_nil|].
  destruct (sfl_kw_facts (x - 4210749) ltac:(lia)) as (A & _).
  apply Forall_cons; [lia|]. apply bytes_ok_le_bytes.
Qed.

(* ---------------- type byte readers ---------------- *)

Lemma sf_enc2 b : b < 256 -> sf_encoding2 b = 64 * (b / 64).
Proof. intro H. unfold sf_encoding2. sf_consts. apply sfl_land192. exact H. Qed.

Lemma sf_norm_head x tl : x < 18446744073709551616 ->
  exists b0, byte_at (sf_norm x ++ tl) 0 = b0 /\ b0 < 256 /\
    ((x <= 63 /\ b0 = x) \/
     (63 < x <= 16446 /\ b0 = 64 + (x - 63) / 256) \/
     (16446 < x <= 4210749 /\ b0 = 128 + (x - 16446) / 65536) \/
     (4210749 < x /\ b0 = 192 + N.of_nat (sfl_kw (x - 4210749)))).
Proof.
  intro Hx. unfold sf_norm.
  destruct (x <=? 63) eqn:E1; [eexists; split; [cbn [app byte_at nth]; reflexivity|]; split; [lia|left; lia]|].
  destruct (x <=? 16446) eqn:E2; [eexists; split; [cbn [app byte_at nth]; reflexivity|]; split; [lia|right; left; lia]|].
  destruct (x <=? 4210749) eqn:E3;
    [eexists; split; [cbn [app byte_at nth]; reflexivity|]; split; [lia|right; right; left; lia]|].
  destruct (sfl_kw_facts (x - 4210749) ltac:(lia)) as (A & _).
  eexists; split; [cbn [app byte_at nth]; reflexivity|]; split; [lia|right; right; right; lia].
Qed.

Theorem sf_getlen_put x tl : x < 18446744073709551616 ->
  sf_getlen (sf_put x ++ tl) = sf_length x.
Proof.
  intro Hx. rewrite sf_put_norm, sf_length_norm by exact Hx.
  destruct (sf_norm_head x tl Hx) as (b0 & Hb & Hlt & Hc).
  unfold sf_getlen. cbv zeta. rewrite Hb. rewrite sf_enc2 by exact Hlt.
  unfold sf_width_external. rewrite sfl_land15. unfold sf_norm_len. sf_consts.
  destruct Hc as [(R & ->)|[(R & ->)|[(R & ->)|(R & ->)]]].
  - sfl_kill_ifs; lia.
  - sfl_kill_ifs; lia.
  - sfl_kill_ifs; lia.
  - destruct (sfl_kw_facts (x - 4210749) ltac:(lia)) as (A & _).
    set (k := N.of_nat (sfl_kw (x - 4210749))) in *. sfl_kill_ifs; lia.
Qed.

Theorem sf_getlen_quick_put x tl : x < 18446744073709551616 ->
  sf_getlen_quick (sf_put x ++ tl) = sf_length x.
Proof.
  intro Hx. rewrite sf_put_norm, sf_length_norm by exact Hx.
  destruct (sf_norm_head x tl Hx) as (b0 & Hb & Hlt & Hc).
  unfold sf_getlen_quick. cbv zeta. rewrite Hb. rewrite sf_enc2 by exact Hlt.
  unfold sf_width_external, shr. rewrite sfl_land15. change (2 ^ 6) with 64.
  unfold sf_norm_len. sf_consts.
  destruct Hc as [(R & ->)|[(R & ->)|[(R & ->)|(R & ->)]]].
  - sfl_kill_ifs; lia.
  - sfl_kill_ifs; lia.
  - sfl_kill_ifs; lia.
  - destruct (sfl_kw_facts (x - 4210749) ltac:(lia)) as (A & _).
    set (k := N.of_nat (sfl_kw (x - 4210749))) in *. sfl_kill_ifs; lia.
Qed.

(* ---------------- round trip ---------------- *)

Lemma sf_width_of_tag k : k <= 8 -> sf_width_external (192 + k) = k.
Proof. intro H. unfold sf_width_external. rewrite sfl_land15. lia. Qed.

Lemma sf_nth_app_le (l tl : list N) i : (i < length l)%nat -> nth i (l ++ tl) 0 = nth i l 0.
Proof. intro H. apply app_nth1. exact H. Qed.

Theorem sf_roundtrip x tl : x < 18446744073709551616 ->
  sf_get (sf_put x ++ tl) = Some (sf_length x, x).
Proof.
  intro Hx. rewrite sf_put_norm, sf_length_norm by exact Hx.
  unfold sf_norm, sf_norm_len.
  destruct (x <=? 63) eqn:E1.
  { unfold sf_get. cbv zeta. cbn [app byte_at nth]. rewrite sf_enc2 by lia. sf_consts.
    sfl_kill_ifs. rewrite sfl_land63. f_equal. f_equal; lia. }
  destruct (x <=? 16446) eqn:E2.
  { unfold sf_get. cbv zeta. cbn [app byte_at nth]. rewrite sf_enc2 by lia. sf_consts.
    sfl_kill_ifs. rewrite sfl_land63. rewrite sfl_or2 by lia. unfold add64.
    f_equal. f_equal; lia. }
  destruct (x <=? 4210749) eqn:E3.
  { unfold sf_get. cbv zeta. cbn [app byte_at nth]. rewrite sf_enc2 by lia. sf_consts.
    change (63 + 16383) with 16446.
    sfl_kill_ifs. rewrite sfl_land63. rewrite sfl_or3 by lia. unfold add64.
    f_equal. f_equal; lia. }
  assert (Hv : x - 4210749 < 18446744073709551616) by lia.
  destruct (sfl_kw_facts _ Hv) as (A & B & _).
  set (v := x - 4210749) in *. set (k := sfl_kw v) in *.
  unfold sf_get. cbv zeta. cbn [app byte_at nth]. rewrite sf_enc2 by lia. sf_consts.
  change (63 + 16383 + 4194303) with 4210749.
  destruct (64 * ((192 + N.of_nat k) / 64) =? 0) eqn:F1; [lia|].
  destruct (64 * ((192 + N.of_nat k) / 64) =? 64) eqn:F2; [lia|].
  destruct (64 * ((192 + N.of_nat k) / 64) =? 128) eqn:F3; [lia|].
  destruct (64 * ((192 + N.of_nat k) / 64) =? 192) eqn:F4; [|lia].
  rewrite sf_width_of_tag by lia.
  rewrite (sf_ext_get_medium_le _ k v); [| lia | exact B |].
  - unfold add64. f_equal. f_equal. lia.
  - intros i Hi. cbn [Nat.add nth]. apply sf_nth_app_le. rewrite length_le_bytes. exact Hi.
Qed.

(* ---------------- reversed forms ---------------- *)

Theorem sf_rev_reversed_forward x : fst (sf_rev_put_reversed x) = sf_rev_put_forward x.
Proof.
  unfold sf_rev_put_reversed, sf_rev_put_forward. cbv zeta.
  destruct (x <=? SF_MAX_6); [reflexivity|]. destruct (x <=? SF_MAX_14); [reflexivity|].
  destruct (x <=? SF_MAX_22); reflexivity.
Qed.

Definition sf_rev_norm (x : N) : list N :=
  if x <=? 63 then [x]
  else if x <=? 16446 then [(x - 63) mod 256; 64 + (x - 63) / 256]
  else if x <=? 4210749 then
    [(x - 16446) mod 256; ((x - 16446) / 256) mod 256; 128 + (x - 16446) / 65536]
  else le_bytes (sfl_kw (x - 4210749)) (x - 4210749)
         ++ [192 + N.of_nat (sfl_kw (x - 4210749))].

Lemma sf_rev_put_forward_norm x : x < 18446744073709551616 ->
  sf_rev_put_forward x = sf_rev_norm x.
Proof.
  intro Hx. unfold sf_rev_put_forward, sf_rev_norm. sf_consts. cbv zeta.
  change (63 + 16383) with 16446. change (16446 + 4194303) with 4210749.
  destruct (x <=? 63) eqn:E1.
  { rewrite N.lor_0_l. unfold u8. f_equal. lia. }
  destruct (x <=? 16446) eqn:E2.
  { rewrite sf_tag14, sf_lo8 by lia. reflexivity. }
  destruct (x <=? 4210749) eqn:E3.
  { rewrite sf_tag22, sf_mid8, sf_lo8 by lia. reflexivity. }
  assert (Hv : x - 4210749 < 18446744073709551616) by lia.
  rewrite sf_length_var_kw by exact Hv.
  destruct (sfl_kw_facts _ Hv) as (A & _).
  replace (1 + N.of_nat (sfl_kw (x - 4210749)) - 1) with (N.of_nat (sfl_kw (x - 4210749))) by lia.
  rewrite sf_tagvar by lia. rewrite sf_ext_put_medium_le, Nat2N.id. reflexivity.
Qed.

Lemma sf_rev_norm_length x : N.of_nat (length (sf_rev_norm x)) = sf_norm_len x.
Proof.
  unfold sf_rev_norm, sf_norm_len.
  destruct (x <=? 63); [reflexivity|]. destruct (x <=? 16446); [reflexivity|].
  destruct (x <=? 4210749); [reflexivity|].
  rewrite app_length, length_le_bytes. cbn [length]. lia.
Qed.

Theorem sf_rev_put_length x : x < 18446744073709551616 ->
  N.of_nat (length (sf_rev_put_forward x)) = sf_length x.
Proof.
  intro Hx. rewrite sf_rev_put_forward_norm, sf_length_norm by exact Hx. apply sf_rev_norm_length.
Qed.

(* index of dst[0] in the bytes left by ReversedPutReversed_: the last one *)
Theorem sf_rev_reversed_offset x : x < 18446744073709551616 ->
  S (snd (sf_rev_put_reversed x)) = length (fst (sf_rev_put_reversed x)).
Proof.
  intro Hx. unfold sf_rev_put_reversed. cbv zeta.
  destruct (x <=? SF_MAX_6); [reflexivity|]. destruct (x <=? SF_MAX_14); [reflexivity|].
  destruct (x <=? SF_MAX_22) eqn:E; [reflexivity|]. cbn [fst snd].
  rewrite app_length, sf_ext_put_medium_le, length_le_bytes. cbn [length]. lia.
Qed.

Lemma sf_rev_get_r_norm x tl : x < 18446744073709551616 ->
  sf_rev_get_r (rev (sf_rev_norm x) ++ tl) = Some (sf_norm_len x, x).
Proof.
  intro Hx. unfold sf_rev_norm, sf_norm_len.
  destruct (x <=? 63) eqn:E1.
  { unfold sf_rev_get_r. cbv zeta. cbn [rev app byte_at nth]. rewrite sf_enc2 by lia. sf_consts.
    sfl_kill_ifs. rewrite sfl_land63. f_equal. f_equal; lia. }
  destruct (x <=? 16446) eqn:E2.
  { unfold sf_rev_get_r. cbv zeta. cbn [rev app byte_at nth]. rewrite sf_enc2 by lia. sf_consts.
    sfl_kill_ifs. rewrite sfl_land63. rewrite sfl_or2 by lia. unfold add64.
    f_equal. f_equal; lia. }
  destruct (x <=? 4210749) eqn:E3.
  { unfold sf_rev_get_r. cbv zeta. cbn [rev app byte_at nth]. rewrite sf_enc2 by lia. sf_consts.
    change (63 + 16383) with 16446.
    sfl_kill_ifs. rewrite sfl_land63. rewrite sfl_or3 by lia. unfold add64.
    f_equal. f_equal; lia. }
  assert (Hv : x - 4210749 < 18446744073709551616) by lia.
  destruct (sfl_kw_facts _ Hv) as (A & B & _).
  set (v := x - 4210749) in *. set (k := sfl_kw v) in *.
  rewrite rev_app_distr. cbn [rev app].
  unfold sf_rev_get_r. cbv zeta. cbn [app byte_at nth]. rewrite sf_enc2 by lia. sf_consts.
  change (63 + 16383 + 4194303) with 4210749.
  destruct (64 * ((192 + N.of_nat k) / 64) =? 0) eqn:F1; [lia|].
  destruct (64 * ((192 + N.of_nat k) / 64) =? 64) eqn:F2; [lia|].
  destruct (64 * ((192 + N.of_nat k) / 64) =? 128) eqn:F3; [lia|].
  destruct (64 * ((192 + N.of_nat k) / 64) =? 192) eqn:F4; [|lia].
  rewrite sf_width_of_tag by lia. rewrite Nat2N.id.
  rewrite (sf_ext_get_medium_le _ k v); [| lia | exact B |].
  - unfold add64. f_equal. f_equal. lia.
  - intros i Hi. replace (k - i)%nat with (S (k - i - 1)) by lia. cbn [nth].
    rewrite sf_nth_app_le by (rewrite rev_length, length_le_bytes; lia).
    rewrite rev_nth by (rewrite length_le_bytes; lia).
    rewrite length_le_bytes. f_equal. lia.
Qed.

Lemma sf_rev_view (pre f post : list N) : (1 <= length f)%nat ->
  rev (firstn (S (length pre + (length f - 1))) (pre ++ f ++ post)) = rev f ++ rev pre.
Proof.
  intro H. replace (S (length pre + (length f - 1))) with (length pre + length f)%nat by lia.
  rewrite firstn_app_2. rewrite firstn_app, Nat.sub_diag, firstn_all. cbn [firstn].
  rewrite app_nil_r. apply rev_app_distr.
Qed.

Theorem sf_rev_roundtrip x pre post : x < 18446744073709551616 ->
  sf_rev_get (pre ++ sf_rev_put_forward x ++ post)
             (length pre + (length (sf_rev_put_forward x) - 1))
  = Some (sf_length x, x).
Proof.
  intro Hx. unfold sf_rev_get.
  pose proof (sf_rev_put_length x Hx) as HL. pose proof (sf_length_range x Hx) as HR.
  rewrite sf_rev_view by lia.
  rewrite sf_rev_put_forward_norm, sf_length_norm by exact Hx.
  apply sf_rev_get_r_norm. exact Hx.
Qed.
