(* PFORProofs.v — the encoder: facts about the analysed metadata, the layout
   of the bytes written, their length against varintPFORSize. *)
Require Import VV.Base VV.BaseProofs VV.Tagged VV.TaggedProofs VV.TaggedSpecProofs
  VV.PFOR VV.PFORSpec VV.PFORLemmas.
From Coq Require Import Lia ZifyBool ZifyN ZifyNat Sorting.Sorted Sorting.Permutation.
Local Open Scope N_scope.
Ltac Zify.zify_post_hook ::= Z.div_mod_to_equations.

Definition u64ok (xs : list N) : Prop := Forall (fun x => x < 18446744073709551616) xs.

Lemma sub64_small x y : y <= x -> x < 18446744073709551616 -> sub64 x y = x - y.
Proof. intros. unfold sub64. lia. Qed.

(* ---------- sorting: minimum and percentile are elements ---------- *)

Lemma leb_trans : RelationClasses.Transitive (fun x y : N => is_true (x <=? y)).
Proof. intros a b c. unfold is_true. rewrite !N.leb_le. lia. Qed.

Lemma sorted_head_le l : StronglySorted (fun x y : N => is_true (x <=? y)) l ->
  forall v, In v l -> nth 0 l 0 <= v.
Proof.
  intros S v Hv. destruct l as [|a l]; [contradiction|]. cbn [nth].
  apply StronglySorted_inv in S. destruct S as [_ F].
  destruct Hv as [->|Hv]; [lia|].
  rewrite Forall_forall in F. specialize (F v Hv). unfold is_true in F. lia.
Qed.

Lemma pfor_sort_perm xs : Permutation xs (pfor_sort xs).
Proof. apply NSort.Permuted_sort. Qed.

Lemma pfor_sort_length xs : length (pfor_sort xs) = length xs.
Proof. symmetry. apply Permutation_length, pfor_sort_perm. Qed.

Lemma pfor_sort_min_le xs v : In v xs -> nthN (pfor_sort xs) 0 0 <= v.
Proof.
  intro Hv. rewrite nthN_nth. change (N.to_nat 0) with 0%nat.
  apply sorted_head_le.
  - apply NSort.StronglySorted_sort. exact leb_trans.
  - apply (Permutation_in _ (pfor_sort_perm xs)). exact Hv.
Qed.

Lemma pfor_sort_nth_in xs i : i < N.of_nat (length xs) -> In (nthN (pfor_sort xs) i 0) xs.
Proof.
  intro Hi. rewrite nthN_nth.
  apply (Permutation_in _ (Permutation_sym (pfor_sort_perm xs))).
  apply nth_In. rewrite pfor_sort_length. lia.
Qed.

Lemma pfor_threshold_index_lt count thr : 0 < count -> pfor_threshold_index count thr < count.
Proof. intro H. unfold pfor_threshold_index. cbv zeta. kill_ifs; lia. Qed.

(* ---------- what ComputeThreshold establishes ---------- *)

Record meta_ok (m : pfor_meta) (xs : list N) (w : nat) : Prop := {
  mo_w : (1 <= w <= 8)%nat;
  mo_width : pm_width m = N.of_nat w;
  mo_marker : pm_marker m = 256 ^ N.of_nat w - 1;
  mo_min_le : forall v, In v xs -> pm_min m <= v;
  mo_min_in : In (pm_min m) xs;
  mo_tv_in : In (pm_tv m) xs;
  mo_range : pm_tv m - pm_min m < 256 ^ N.of_nat w;
  mo_width_min : w = 1%nat \/ 256 ^ N.of_nat (w - 1) <= pm_tv m - pm_min m;
  mo_count : pm_count m = N.of_nat (length xs);
  mo_exc : pm_exc m = pfor_count_exc (pm_min m) (pm_tv m) (pm_marker m) xs
}.

Lemma compute_threshold_ok xs thr : xs <> [] -> u64ok xs ->
  exists w, meta_ok (pfor_compute_threshold xs thr) xs w.
Proof.
  intros Hne Hok. unfold pfor_compute_threshold. cbv zeta.
  destruct (N.of_nat (length xs) =? 0) eqn:E0.
  { destruct xs; [congruence|]. cbn [length] in E0. lia. }
  set (count := N.of_nat (length xs)) in *.
  set (mn := nthN (pfor_sort xs) 0 0).
  set (tv := nthN (pfor_sort xs) (pfor_threshold_index count thr) 0).
  assert (Hmn_in : In mn xs) by (apply pfor_sort_nth_in; lia).
  assert (Htv_in : In tv xs).
  { apply pfor_sort_nth_in. apply pfor_threshold_index_lt. lia. }
  assert (Hmn_le : forall v, In v xs -> mn <= v) by (intros; apply pfor_sort_min_le; assumption).
  pose proof (Hmn_le tv Htv_in) as Hle.
  assert (Htv64 : tv < 18446744073709551616).
  { unfold u64ok in Hok. rewrite Forall_forall in Hok. apply Hok. exact Htv_in. }
  rewrite (sub64_small tv mn) by assumption.
  destruct (ext_width_bounds (tv - mn) ltac:(lia)) as (B1 & B2 & B3).
  exists (ext_width (tv - mn)).
  constructor; cbn [pm_width pm_marker pm_min pm_tv pm_count pm_exc]; try assumption; try reflexivity.
  apply pfor_marker_val. exact B1.
Qed.

(* ---------- classification of the elements ---------- *)

Section WithMeta.
  Variable m : pfor_meta.
  Variable xs0 : list N.
  Variable w : nat.
  Hypothesis MO : meta_ok m xs0 w.
  Hypothesis OK : u64ok xs0.

  Let isx := pfor_is_exc (pm_min m) (pm_tv m) (pm_marker m).

  Lemma in64 v : In v xs0 -> v < 18446744073709551616.
  Proof. intro H. unfold u64ok in OK. rewrite Forall_forall in OK. apply OK. exact H. Qed.

  Lemma regular_offset v : In v xs0 -> isx v = false ->
    sub64 v (pm_min m) = v - pm_min m /\ v - pm_min m < 256 ^ N.of_nat w /\
    v - pm_min m <> pm_marker m /\ pm_min m <= v.
  Proof.
    intros Hv Hx. pose proof (mo_min_le _ _ _ MO v Hv) as Hle. pose proof (in64 v Hv) as H64.
    pose proof (mo_range _ _ _ MO) as Hr.
    pose proof (mo_min_le _ _ _ MO _ (mo_tv_in _ _ _ MO)) as Htv.
    unfold isx, pfor_is_exc in Hx. rewrite sub64_small in * by assumption. lia.
  Qed.

  Lemma marker_lt : pm_marker m < 256 ^ N.of_nat w.
  Proof. rewrite (mo_marker _ _ _ MO). pose proof (pow256_pos w). lia. Qed.

  Lemma pow_w_le64 : 256 ^ N.of_nat w <= 18446744073709551616.
  Proof. apply pow256_le64. pose proof (mo_w _ _ _ MO). lia. Qed.
End WithMeta.

(* ---------- the encoder's loop = layout ---------- *)

Lemma pfor_put_fixed_eq v width : pfor_put_fixed v width = le_bytes (N.to_nat width) v.
Proof. reflexivity. Qed.

Lemma enc_values_true m i xs :
  pfor_enc_values m true i xs = (flat_map (pfor_slot m) xs, pfor_excs m i xs).
Proof.
  revert i. induction xs as [|v t IH]; intro i; [reflexivity|].
  cbn [pfor_enc_values flat_map pfor_excs]. rewrite IH. cbn [fst snd]. unfold pfor_slot, pfor_put_fixed.
  rewrite andb_true_r. destruct (pfor_is_exc _ _ _ v); reflexivity.
Qed.

Lemma enc_values_noexc m have i xs :
  (forall v, In v xs -> pfor_is_exc (pm_min m) (pm_tv m) (pm_marker m) v = false) ->
  pfor_enc_values m have i xs = (flat_map (pfor_slot m) xs, pfor_excs m i xs).
Proof.
  revert i. induction xs as [|v t IH]; intros i H; [reflexivity|].
  cbn [pfor_enc_values flat_map pfor_excs]. rewrite IH by (intros; apply H; right; assumption).
  cbn [fst snd]. unfold pfor_slot, pfor_put_fixed.
  rewrite (H v (or_introl eq_refl)). reflexivity.
Qed.

Lemma count_exc_length m i xs :
  pfor_count_exc (pm_min m) (pm_tv m) (pm_marker m) xs = N.of_nat (length (pfor_excs m i xs)).
Proof.
  revert i. induction xs as [|v t IH]; intro i; [reflexivity|].
  cbn [pfor_count_exc pfor_excs]. rewrite (IH (i + 1)).
  destruct (pfor_is_exc _ _ _ v); cbn [length]; lia.
Qed.

Lemma count_exc_zero mn tv mk xs : pfor_count_exc mn tv mk xs = 0 ->
  forall v, In v xs -> pfor_is_exc mn tv mk v = false.
Proof.
  induction xs as [|a t IH]; intros H v Hv; [contradiction|].
  cbn [pfor_count_exc] in H. destruct Hv as [->|Hv].
  - destruct (pfor_is_exc mn tv mk v); [lia|reflexivity].
  - apply IH; [|assumption]. destruct (pfor_is_exc mn tv mk a); lia.
Qed.

Lemma enc_values_eq m xs i :
  pm_exc m = pfor_count_exc (pm_min m) (pm_tv m) (pm_marker m) xs ->
  pfor_enc_values m (0 <? pm_exc m) i xs = (flat_map (pfor_slot m) xs, pfor_excs m i xs).
Proof.
  intro He. destruct (0 <? pm_exc m) eqn:E.
  - apply enc_values_true.
  - apply enc_values_noexc. apply count_exc_zero. lia.
Qed.

(* the two counts of exceptions in the C (ComputeThreshold's loop and the
   records made by Encode's first pass) agree, so Encode's second loop reads
   exactly the records made *)
Lemma pfor_exc_count_consistent xs thr :
  let m := pfor_compute_threshold xs thr in
  pm_exc m = N.of_nat (length (snd (pfor_enc_values m (0 <? pm_exc m) 0 xs))).
Proof.
  cbv zeta. set (m := pfor_compute_threshold xs thr).
  assert (He : pm_exc m = pfor_count_exc (pm_min m) (pm_tv m) (pm_marker m) xs).
  { subst m. unfold pfor_compute_threshold. cbv zeta.
    destruct (N.of_nat (length xs) =? 0) eqn:E0; [|reflexivity].
    destruct xs; [reflexivity|]. cbn [length] in E0. lia. }
  rewrite enc_values_eq by exact He. cbn [snd]. rewrite He. apply count_exc_length.
Qed.

Lemma u8_small x : x < 256 -> u8 x = x.
Proof. intro H. unfold u8. apply N.mod_small. exact H. Qed.

Theorem pfor_encode_layout xs thr : xs <> [] -> u64ok xs ->
  pfor_encode_bytes xs thr = pfor_layout (pfor_compute_threshold xs thr) xs
  /\ pfor_encode_meta xs thr = pfor_compute_threshold xs thr.
Proof.
  intros Hne Hok. split; [|reflexivity].
  destruct (compute_threshold_ok xs thr Hne Hok) as (w & MO).
  unfold pfor_encode_bytes, pfor_encode. cbv zeta. cbn [fst].
  set (m := pfor_compute_threshold xs thr) in *.
  rewrite enc_values_eq by (apply (mo_exc _ _ _ MO)). cbn [fst snd].
  unfold pfor_layout.
  rewrite (mo_exc _ _ _ MO), (count_exc_length m 0 xs), takeNp_all.
  rewrite (mo_count _ _ _ MO).
  rewrite u8_small by (rewrite (mo_width _ _ _ MO); pose proof (mo_w _ _ _ MO); lia).
  rewrite <- !app_assoc. reflexivity.
Qed.
