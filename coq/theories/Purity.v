(* Purity.v — "results depend only on the arguments", as a statement about
   call histories.  The library has no writable globals (gen/Globals.v), so
   the only thing one call can leave behind for the next is memory residue
   (dead stack frames, freed heap blocks): `Junk`.  A call is modelled as a
   function of its arguments and the residue it happens to find, returning a
   result and the residue it leaves. *)
From Coq Require Import List.
Import ListNotations.

Section History.
  Variables Args Res Junk : Type.
  Variable call : Args -> Junk -> Res * Junk.

  (* the residue after a history of calls *)
  Definition after (h : list Args) (j0 : Junk) : Junk :=
    fold_left (fun j a => snd (call a j)) h j0.

  (* no result is computed from residue *)
  Definition residue_independent : Prop :=
    forall a j1 j2, fst (call a j1) = fst (call a j2).

  (* then every call returns, after ANY history and from ANY initial residue,
     what it returns as the first call of a fresh process *)
  Theorem history_independent :
    residue_independent ->
    forall (h : list Args) (a : Args) (j0 jfresh : Junk),
      fst (call a (after h j0)) = fst (call a jfresh).
  Proof. intros H h a j0 jfresh. apply H. Qed.

  (* conversely a call whose result depends on residue is exposed by a
     two-call history: this is what the --pred mode of the driver looks for *)
  Theorem residue_dependence_shows :
    forall a j1 j2, fst (call a j1) <> fst (call a j2) ->
    ~ residue_independent.
  Proof. intros a j1 j2 H R. apply H. apply R. Qed.
End History.
