(* ExternalBigProofs.v — the 128-bit external entry points: exactly w bytes,
   the little-endian slice, truncation below the value's width, round trip *)
Require Import VV.Base VV.BaseProofs VV.External VV.ExternalLemmas VV.ExternalProofs VV.ExternalBig.
From Coq Require Import Lia ZifyBool ZifyN ZifyNat List.
Import ListNotations.
Local Open Scope N_scope.

Lemma extbig_copy_le_spec s w : (1 <= w <= 16)%nat -> extbig_copy_le s w = Some (map s (seq 0 w)).
Proof.
  intro H.
  do 17 (destruct w as [|w]; [try lia; try reflexivity|]); lia.
Qed.

Lemma extbig_copy_le_none s w : ~ (1 <= w <= 16)%nat -> extbig_copy_le s w = None.
Proof.
  intro H.
  do 17 (destruct w as [|w]; [try (exfalso; lia); try reflexivity|]). reflexivity.
Qed.

Lemma extbig_put_fixed_spec x w : (1 <= w <= 16)%nat -> extbig_put_fixed x w = Some (le_bytes w x).
Proof. intro H. unfold extbig_put_fixed. rewrite extbig_copy_le_spec by exact H. rewrite le_bytes_src. reflexivity. Qed.

Lemma extbig_get_spec z w : (1 <= w <= 16)%nat -> extbig_get z w = Some (of_le (map (byte_at z) (seq 0 w))).
Proof. intro H. unfold extbig_get. rewrite extbig_copy_le_spec by exact H. reflexivity. Qed.

Lemma extbig_get_app bs tl : (1 <= length bs <= 16)%nat -> extbig_get (bs ++ tl) (length bs) = Some (of_le bs).
Proof. intro H. rewrite extbig_get_spec by exact H. rewrite map_nth_seq_app. reflexivity. Qed.

(* the reader looks at the first w bytes only *)
Lemma extbig_get_reads_w z z' w : firstn w z = firstn w z' -> extbig_get z w = extbig_get z' w.
Proof.
  intro H. unfold extbig_get.
  destruct (le_lt_dec 1 w) as [L|G]; [destruct (le_lt_dec w 16) as [L8|G8]|].
  - rewrite !extbig_copy_le_spec by lia.
    rewrite (map_byte_at_firstn z), (map_byte_at_firstn z'), H. reflexivity.
  - rewrite !extbig_copy_le_none by lia. reflexivity.
  - rewrite !extbig_copy_le_none by lia. reflexivity.
Qed.

(* any width 1..16: exactly w bytes, the low w bytes of v, which read back as
   v truncated to w bytes *)
Theorem extbig_fixed_trunc x w tl : (1 <= w <= 16)%nat ->
  extbig_put_fixed x w = Some (le_bytes w x) /\ length (le_bytes w x) = w /\
  extbig_get (le_bytes w x ++ tl) w = Some (x mod 256 ^ N.of_nat w).
Proof.
  intro H. split; [apply extbig_put_fixed_spec; exact H|]. split; [apply length_le_bytes|].
  pose proof (extbig_get_app (le_bytes w x) tl) as G. rewrite length_le_bytes in G.
  rewrite G by exact H. rewrite of_le_le_bytes. reflexivity.
Qed.

(* a value that fits in w bytes comes back *)
Theorem extbig_fixed_roundtrip x w tl : (1 <= w <= 16)%nat -> x < 256 ^ N.of_nat w ->
  extbig_put_fixed x w = Some (le_bytes w x) /\ length (le_bytes w x) = w /\
  extbig_get (le_bytes w x ++ tl) w = Some x.
Proof.
  intros H Hx. destruct (extbig_fixed_trunc x w tl H) as (A & B & C).
  split; [exact A|]. split; [exact B|]. rewrite C. f_equal. apply N.mod_small. exact Hx.
Qed.

(* outside 1..16 the switch has no case (assert / unreachable in C) *)
Theorem extbig_fixed_domain x z w : ~ (1 <= w <= 16)%nat ->
  extbig_put_fixed x w = None /\ extbig_get z w = None.
Proof.
  intro H. unfold extbig_put_fixed, extbig_get. rewrite !extbig_copy_le_none by exact H. split; reflexivity.
Qed.

(* on widths 1..8 and 64-bit values the 128-bit entry points are the 64-bit ones *)
Theorem extbig_agrees_with_64 x z w : (1 <= w <= 8)%nat ->
  extbig_put_fixed x w = ext_put_fixed x w /\ extbig_get z w = ext_get z w.
Proof.
  intro H. unfold extbig_put_fixed, ext_put_fixed, extbig_get, ext_get.
  rewrite !extbig_copy_le_spec by lia. rewrite !ext_copy_le_spec by lia. split; reflexivity.
Qed.
