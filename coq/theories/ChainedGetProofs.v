(* ChainedGetProofs.v — varintChainedGetVarint (the sqlite3 a/b/s register
   dance) against the reference decoder: one lemma per return point, each
   closed by the wiring checker, then the general theorem. *)
Require Import VV.Base VV.BaseProofs VV.Chained VV.ChainedSpec VV.ChainedWiring VV.ChainedLemmas.
From Coq Require Import Lia ZifyBool ZifyN ZifyNat Arith.
Local Open Scope N_scope.
Ltac Zify.zify_post_hook ::= Z.div_mod_to_equations.

(* the value a return point must produce, still in shift/or form *)
Definition lorH (l : list N) : N :=
  fold_left (fun a c => N.lor (shl64 a 7) (N.land c 127)) l 0.

Lemma lorH_horner_gen l acc : forallb cont_byte l = true ->
  (acc + 1) * 128 ^ N.of_nat (length l) <= 18446744073709551616 ->
  fold_left (fun a c => N.lor (shl64 a 7) (N.land c 127)) l acc = horner128 acc l.
Proof.
  unfold horner128. revert acc. induction l as [|c l IH]; intros acc Hc Hb; [reflexivity|].
  cbn [forallb] in Hc. apply andb_true_iff in Hc. destruct Hc as [Hc Hl].
  cbn [fold_left length] in *. rewrite pow128_S in Hb.
  pose proof (pow128_pos (length l)) as PP. set (P := 128 ^ N.of_nat (length l)) in *.
  unfold cont_byte in Hc.
  assert (E : N.lor (shl64 acc 7) (N.land c 127) = acc * 128 + (c - 128)).
  { rewrite land127. unfold shl64. change (2 ^ 7) with 128.
    rewrite N.mod_small by nia.
    change 128 with (2 ^ 7) at 1. rewrite lor_add_disjoint.
    - change (2 ^ 7) with 128. lia.
    - change (2 ^ 7) with 128. apply N.mod_lt. lia. }
  rewrite E. apply IH; [exact Hl|]. nia.
Qed.

Lemma lorH_horner l : forallb cont_byte l = true -> (length l <= 9)%nat ->
  lorH l = horner128 0 l.
Proof.
  intros Hc Hl. unfold lorH. apply lorH_horner_gen; [exact Hc|].
  pose proof (pow128_mono (length l) 9 Hl) as M. norm_pow128. lia.
Qed.

Lemma lorH_last l last : forallb cont_byte l = true -> (length l <= 7)%nat -> last < 128 ->
  N.lor (shl64 (lorH l) 7) last = horner128 0 l * 128 + last.
Proof.
  intros Hc Hl Hlast. rewrite lorH_horner by (assumption || lia).
  pose proof (horner_bound l 0 Hc) as B. pose proof (pow128_mono (length l) 7 Hl) as M.
  norm_pow128. unfold shl64. change (2 ^ 7) with 128. rewrite N.mod_small by lia.
  change 128 with (2 ^ 7) at 1. rewrite lor_add_disjoint by (change (2 ^ 7) with 128; lia).
  reflexivity.
Qed.

Lemma lorH_last9 l last : forallb cont_byte l = true -> length l = 8%nat -> last < 256 ->
  N.lor (shl64 (lorH l) 8) last = horner128 0 l * 256 + last.
Proof.
  intros Hc Hl Hlast. rewrite lorH_horner by (assumption || lia).
  pose proof (horner_bound l 0 Hc) as B. rewrite Hl in B.
  norm_pow128. unfold shl64. change (2 ^ 8) with 256. rewrite N.mod_small by lia.
  change 256 with (2 ^ 8) at 1. rewrite lor_add_disjoint by (change (2 ^ 8) with 256; lia).
  reflexivity.
Qed.

(* resolve the branch test on byte j inside return point k *)
Ltac cond z k j Hb :=
  match goal with
  | |- context [N.land ?e 128 =? 0] =>
      let H := fresh "W" in
      assert (H : N.land e 128 = N.land (byte_at z j) 128)
        by (wire_k z k bw8 (envk_ok8 z k Hb) bw8_le);
      rewrite H; clear H;
      rewrite (land128_test (byte_at z j)) by (apply Hb; lia)
  end.

Ltac cont_side :=
  cbn [forallb]; unfold cont_byte;
  repeat match goal with
  | |- context [128 <=? ?a] => let E := fresh in destruct (128 <=? a) eqn:E; [|exfalso; lia]
  | |- context [?a <? 256] => let E := fresh in destruct (a <? 256) eqn:E; [|exfalso; lia]
  end; reflexivity.

Lemma chained_get_ret1 z : byte_at z 0 < 128 -> chained_get z = (1, byte_at z 0).
Proof. intro C0. unfold chained_get. cbv zeta. destruct (byte_at z 0 <? 128) eqn:E0; [reflexivity|lia]. Qed.

Lemma chained_get_ret2 z : (forall i, (i < 2)%nat -> byte_at z i < 256) ->
  128 <= byte_at z 0 -> byte_at z 1 < 128 ->
  chained_get z = (2, horner128 0 [byte_at z 0] * 128 + byte_at z 1).
Proof.
  intros Hb C0 C1.
  pose proof (Hb 0%nat ltac:(lia)) as B0.
  pose proof (Hb 1%nat ltac:(lia)) as B1.
  unfold chained_get. cbv zeta.
  destruct (byte_at z 0 <? 128) eqn:E0; [lia|].
  destruct (byte_at z 1 <? 128) eqn:E1; [|lia].
  f_equal.
  rewrite <- lorH_last by (try cont_side; cbn [length]; lia).
  unfold lorH. cbn [fold_left].
  wire_k z 2%nat (bw7 1) (envk_ok7 z 2 1 Hb C1) (bw7_le 1).
Qed.

Lemma chained_get_ret3 z : (forall i, (i < 3)%nat -> byte_at z i < 256) ->
  128 <= byte_at z 0 -> 128 <= byte_at z 1 -> byte_at z 2 < 128 ->
  chained_get z = (3, horner128 0 [byte_at z 0; byte_at z 1] * 128 + byte_at z 2).
Proof.
  intros Hb C0 C1 C2.
  pose proof (Hb 0%nat ltac:(lia)) as B0.
  pose proof (Hb 1%nat ltac:(lia)) as B1.
  pose proof (Hb 2%nat ltac:(lia)) as B2.
  unfold chained_get. cbv zeta.
  destruct (byte_at z 0 <? 128) eqn:E0; [lia|].
  destruct (byte_at z 1 <? 128) eqn:E1; [lia|].
  cond z 3%nat 2%nat Hb. destruct (byte_at z 2 <? 128) eqn:E2; [|lia].
  f_equal.
  rewrite <- lorH_last by (try cont_side; cbn [length]; lia).
  unfold lorH. cbn [fold_left].
  wire_k z 3%nat (bw7 2) (envk_ok7 z 3 2 Hb C2) (bw7_le 2).
Qed.

Lemma chained_get_ret4 z : (forall i, (i < 4)%nat -> byte_at z i < 256) ->
  128 <= byte_at z 0 -> 128 <= byte_at z 1 -> 128 <= byte_at z 2 -> byte_at z 3 < 128 ->
  chained_get z = (4, horner128 0 [byte_at z 0; byte_at z 1; byte_at z 2] * 128 + byte_at z 3).
Proof.
  intros Hb C0 C1 C2 C3.
  pose proof (Hb 0%nat ltac:(lia)) as B0.
  pose proof (Hb 1%nat ltac:(lia)) as B1.
  pose proof (Hb 2%nat ltac:(lia)) as B2.
  pose proof (Hb 3%nat ltac:(lia)) as B3.
  unfold chained_get. cbv zeta.
  destruct (byte_at z 0 <? 128) eqn:E0; [lia|].
  destruct (byte_at z 1 <? 128) eqn:E1; [lia|].
  cond z 4%nat 2%nat Hb. destruct (byte_at z 2 <? 128) eqn:E2; [lia|].
  cond z 4%nat 3%nat Hb. destruct (byte_at z 3 <? 128) eqn:E3; [|lia].
  f_equal.
  rewrite <- lorH_last by (try cont_side; cbn [length]; lia).
  unfold lorH. cbn [fold_left].
  wire_k z 4%nat (bw7 3) (envk_ok7 z 4 3 Hb C3) (bw7_le 3).
Qed.

Lemma chained_get_ret5 z : (forall i, (i < 5)%nat -> byte_at z i < 256) ->
  128 <= byte_at z 0 -> 128 <= byte_at z 1 -> 128 <= byte_at z 2 -> 128 <= byte_at z 3 -> byte_at z 4 < 128 ->
  chained_get z = (5, horner128 0 [byte_at z 0; byte_at z 1; byte_at z 2; byte_at z 3] * 128 + byte_at z 4).
Proof.
  intros Hb C0 C1 C2 C3 C4.
  pose proof (Hb 0%nat ltac:(lia)) as B0.
  pose proof (Hb 1%nat ltac:(lia)) as B1.
  pose proof (Hb 2%nat ltac:(lia)) as B2.
  pose proof (Hb 3%nat ltac:(lia)) as B3.
  pose proof (Hb 4%nat ltac:(lia)) as B4.
  unfold chained_get. cbv zeta.
  destruct (byte_at z 0 <? 128) eqn:E0; [lia|].
  destruct (byte_at z 1 <? 128) eqn:E1; [lia|].
  cond z 5%nat 2%nat Hb. destruct (byte_at z 2 <? 128) eqn:E2; [lia|].
  cond z 5%nat 3%nat Hb. destruct (byte_at z 3 <? 128) eqn:E3; [lia|].
  cond z 5%nat 4%nat Hb. destruct (byte_at z 4 <? 128) eqn:E4; [|lia].
  f_equal.
  rewrite <- lorH_last by (try cont_side; cbn [length]; lia).
  unfold lorH. cbn [fold_left].
  wire_k z 5%nat (bw7 4) (envk_ok7 z 5 4 Hb C4) (bw7_le 4).
Qed.

Lemma chained_get_ret6 z : (forall i, (i < 6)%nat -> byte_at z i < 256) ->
  128 <= byte_at z 0 -> 128 <= byte_at z 1 -> 128 <= byte_at z 2 -> 128 <= byte_at z 3 -> 128 <= byte_at z 4 -> byte_at z 5 < 128 ->
  chained_get z = (6, horner128 0 [byte_at z 0; byte_at z 1; byte_at z 2; byte_at z 3; byte_at z 4] * 128 + byte_at z 5).
Proof.
  intros Hb C0 C1 C2 C3 C4 C5.
  pose proof (Hb 0%nat ltac:(lia)) as B0.
  pose proof (Hb 1%nat ltac:(lia)) as B1.
  pose proof (Hb 2%nat ltac:(lia)) as B2.
  pose proof (Hb 3%nat ltac:(lia)) as B3.
  pose proof (Hb 4%nat ltac:(lia)) as B4.
  pose proof (Hb 5%nat ltac:(lia)) as B5.
  unfold chained_get. cbv zeta.
  destruct (byte_at z 0 <? 128) eqn:E0; [lia|].
  destruct (byte_at z 1 <? 128) eqn:E1; [lia|].
  cond z 6%nat 2%nat Hb. destruct (byte_at z 2 <? 128) eqn:E2; [lia|].
  cond z 6%nat 3%nat Hb. destruct (byte_at z 3 <? 128) eqn:E3; [lia|].
  cond z 6%nat 4%nat Hb. destruct (byte_at z 4 <? 128) eqn:E4; [lia|].
  cond z 6%nat 5%nat Hb. destruct (byte_at z 5 <? 128) eqn:E5; [|lia].
  f_equal.
  rewrite <- lorH_last by (try cont_side; cbn [length]; lia).
  unfold lorH. cbn [fold_left].
  wire_k z 6%nat (bw7 5) (envk_ok7 z 6 5 Hb C5) (bw7_le 5).
Qed.

Lemma chained_get_ret7 z : (forall i, (i < 7)%nat -> byte_at z i < 256) ->
  128 <= byte_at z 0 -> 128 <= byte_at z 1 -> 128 <= byte_at z 2 -> 128 <= byte_at z 3 -> 128 <= byte_at z 4 -> 128 <= byte_at z 5 -> byte_at z 6 < 128 ->
  chained_get z = (7, horner128 0 [byte_at z 0; byte_at z 1; byte_at z 2; byte_at z 3; byte_at z 4; byte_at z 5] * 128 + byte_at z 6).
Proof.
  intros Hb C0 C1 C2 C3 C4 C5 C6.
  pose proof (Hb 0%nat ltac:(lia)) as B0.
  pose proof (Hb 1%nat ltac:(lia)) as B1.
  pose proof (Hb 2%nat ltac:(lia)) as B2.
  pose proof (Hb 3%nat ltac:(lia)) as B3.
  pose proof (Hb 4%nat ltac:(lia)) as B4.
  pose proof (Hb 5%nat ltac:(lia)) as B5.
  pose proof (Hb 6%nat ltac:(lia)) as B6.
  unfold chained_get. cbv zeta.
  destruct (byte_at z 0 <? 128) eqn:E0; [lia|].
  destruct (byte_at z 1 <? 128) eqn:E1; [lia|].
  cond z 7%nat 2%nat Hb. destruct (byte_at z 2 <? 128) eqn:E2; [lia|].
  cond z 7%nat 3%nat Hb. destruct (byte_at z 3 <? 128) eqn:E3; [lia|].
  cond z 7%nat 4%nat Hb. destruct (byte_at z 4 <? 128) eqn:E4; [lia|].
  cond z 7%nat 5%nat Hb. destruct (byte_at z 5 <? 128) eqn:E5; [lia|].
  cond z 7%nat 6%nat Hb. destruct (byte_at z 6 <? 128) eqn:E6; [|lia].
  f_equal.
  rewrite <- lorH_last by (try cont_side; cbn [length]; lia).
  unfold lorH. cbn [fold_left].
  wire_k z 7%nat (bw7 6) (envk_ok7 z 7 6 Hb C6) (bw7_le 6).
Qed.

Lemma chained_get_ret8 z : (forall i, (i < 8)%nat -> byte_at z i < 256) ->
  128 <= byte_at z 0 -> 128 <= byte_at z 1 -> 128 <= byte_at z 2 -> 128 <= byte_at z 3 -> 128 <= byte_at z 4 -> 128 <= byte_at z 5 -> 128 <= byte_at z 6 -> byte_at z 7 < 128 ->
  chained_get z = (8, horner128 0 [byte_at z 0; byte_at z 1; byte_at z 2; byte_at z 3; byte_at z 4; byte_at z 5; byte_at z 6] * 128 + byte_at z 7).
Proof.
  intros Hb C0 C1 C2 C3 C4 C5 C6 C7.
  pose proof (Hb 0%nat ltac:(lia)) as B0.
  pose proof (Hb 1%nat ltac:(lia)) as B1.
  pose proof (Hb 2%nat ltac:(lia)) as B2.
  pose proof (Hb 3%nat ltac:(lia)) as B3.
  pose proof (Hb 4%nat ltac:(lia)) as B4.
  pose proof (Hb 5%nat ltac:(lia)) as B5.
  pose proof (Hb 6%nat ltac:(lia)) as B6.
  pose proof (Hb 7%nat ltac:(lia)) as B7.
  unfold chained_get. cbv zeta.
  destruct (byte_at z 0 <? 128) eqn:E0; [lia|].
  destruct (byte_at z 1 <? 128) eqn:E1; [lia|].
  cond z 8%nat 2%nat Hb. destruct (byte_at z 2 <? 128) eqn:E2; [lia|].
  cond z 8%nat 3%nat Hb. destruct (byte_at z 3 <? 128) eqn:E3; [lia|].
  cond z 8%nat 4%nat Hb. destruct (byte_at z 4 <? 128) eqn:E4; [lia|].
  cond z 8%nat 5%nat Hb. destruct (byte_at z 5 <? 128) eqn:E5; [lia|].
  cond z 8%nat 6%nat Hb. destruct (byte_at z 6 <? 128) eqn:E6; [lia|].
  cond z 8%nat 7%nat Hb. destruct (byte_at z 7 <? 128) eqn:E7; [|lia].
  f_equal.
  rewrite <- lorH_last by (try cont_side; cbn [length]; lia).
  unfold lorH. cbn [fold_left].
  wire_k z 8%nat (bw7 7) (envk_ok7 z 8 7 Hb C7) (bw7_le 7).
Qed.

Lemma chained_get_ret9 z : (forall i, (i < 9)%nat -> byte_at z i < 256) ->
  128 <= byte_at z 0 -> 128 <= byte_at z 1 -> 128 <= byte_at z 2 -> 128 <= byte_at z 3 -> 128 <= byte_at z 4 -> 128 <= byte_at z 5 -> 128 <= byte_at z 6 -> 128 <= byte_at z 7 ->
  chained_get z = (9, horner128 0 [byte_at z 0; byte_at z 1; byte_at z 2; byte_at z 3; byte_at z 4; byte_at z 5; byte_at z 6; byte_at z 7] * 256 + byte_at z 8).
Proof.
  intros Hb C0 C1 C2 C3 C4 C5 C6 C7.
  pose proof (Hb 0%nat ltac:(lia)) as B0.
  pose proof (Hb 1%nat ltac:(lia)) as B1.
  pose proof (Hb 2%nat ltac:(lia)) as B2.
  pose proof (Hb 3%nat ltac:(lia)) as B3.
  pose proof (Hb 4%nat ltac:(lia)) as B4.
  pose proof (Hb 5%nat ltac:(lia)) as B5.
  pose proof (Hb 6%nat ltac:(lia)) as B6.
  pose proof (Hb 7%nat ltac:(lia)) as B7.
  pose proof (Hb 8%nat ltac:(lia)) as B8.
  unfold chained_get. cbv zeta.
  destruct (byte_at z 0 <? 128) eqn:E0; [lia|].
  destruct (byte_at z 1 <? 128) eqn:E1; [lia|].
  cond z 9%nat 2%nat Hb. destruct (byte_at z 2 <? 128) eqn:E2; [lia|].
  cond z 9%nat 3%nat Hb. destruct (byte_at z 3 <? 128) eqn:E3; [lia|].
  cond z 9%nat 4%nat Hb. destruct (byte_at z 4 <? 128) eqn:E4; [lia|].
  cond z 9%nat 5%nat Hb. destruct (byte_at z 5 <? 128) eqn:E5; [lia|].
  cond z 9%nat 6%nat Hb. destruct (byte_at z 6 <? 128) eqn:E6; [lia|].
  cond z 9%nat 7%nat Hb. destruct (byte_at z 7 <? 128) eqn:E7; [lia|].
  f_equal.
  rewrite <- lorH_last9 by (try cont_side; cbn [length]; lia).
  unfold lorH. cbn [fold_left].
  wire_k z 9%nat bw8 (envk_ok8 z 9 Hb) bw8_le.
Qed.

(* ---- the general theorem: the model decoder is the reference decoder ---- *)
Lemma hd_byte_at z : hd 0 z = byte_at z 0.
Proof. destruct z; reflexivity. Qed.
Lemma byte_at_tl z i : byte_at (tl z) i = byte_at z (S i).
Proof. destruct z; destruct i; reflexivity. Qed.

Ltac leaf H L :=
  rewrite L by (first [ intros ? ?; apply H; lia | lia ]); reflexivity.

Theorem chained_get_is_decode z :
  (forall i, N.of_nat i < fst (chained_decode z) -> byte_at z i < 256) ->
  chained_get z = chained_decode z.
Proof.
  unfold chained_decode. cbn [ch_loop]. rewrite !hd_byte_at. repeat rewrite byte_at_tl.
  destruct (byte_at z 0 <? 128) eqn:E0; cbn [fst]; intro H.
  { rewrite chained_get_ret1 by lia. reflexivity. }
  revert H. destruct (byte_at z 1 <? 128) eqn:E1; cbn [fst]; intro H. { leaf H chained_get_ret2. }
  revert H. destruct (byte_at z 2 <? 128) eqn:E2; cbn [fst]; intro H. { leaf H chained_get_ret3. }
  revert H. destruct (byte_at z 3 <? 128) eqn:E3; cbn [fst]; intro H. { leaf H chained_get_ret4. }
  revert H. destruct (byte_at z 4 <? 128) eqn:E4; cbn [fst]; intro H. { leaf H chained_get_ret5. }
  revert H. destruct (byte_at z 5 <? 128) eqn:E5; cbn [fst]; intro H. { leaf H chained_get_ret6. }
  revert H. destruct (byte_at z 6 <? 128) eqn:E6; cbn [fst]; intro H. { leaf H chained_get_ret7. }
  revert H. destruct (byte_at z 7 <? 128) eqn:E7; cbn [fst]; intro H. { leaf H chained_get_ret8. }
  leaf H chained_get_ret9.
Qed.

Corollary chained_get_is_decode_ok z : bytes_ok z -> chained_get z = chained_decode z.
Proof. intro H. apply chained_get_is_decode. intros i _. apply byte_at_lt. exact H. Qed.
