(* ConcArray2Examples.v — the hypotheses of the C17 instances of
   Properties_C17_codecs2.v are satisfiable: for concrete configurations of its
   examples the placement hypotheses are proved and the theorems applied, so
   the conclusions hold for EVERY schedule of these configurations (an array
   codec with a proven window; the in-place packed accessors with the slot
   ranges of C09; bitstream Sets with the bit ranges of C11). *)
Require Import VV.Conc VV.ConcProofs VV.ConcCodec VV.ConcCodec2 VV.ConcCodec2Examples VV.ConcArray.
Require Import VV.ConcArray2Group VV.ConcArray2Adaptive VV.ConcPacked VV.ConcPackedBits.
Require Import VV.Base VV.Group VV.Adaptive VV.Packed VV.PackedProofs VV.Bitstream.
From Coq Require Import List NArith ZArith Arith Lia ZifyBool ZifyN ZifyNat.
Import ListNotations.
Local Open Scope N_scope.
Ltac Zify.zify_post_hook ::= Z.div_mod_to_equations.

Lemma group_encode_example_all_schedules : forall sched,
  let ps := [mk_io 0 3 100; mk_io 1 2 200] in
  let ths := map (fun p => prog1 (io_src p) (io_n p) (io_dst p) group_enc_fn) ps in
  let c := crun sched (mem_list [7; 300; 70000], ths) in
  ~ races (snd c) /\
  (forall r, nth_error (snd c) 0 = Some (Ret r) -> r = [1; 9] /\ fst c 100 = 3 /\ fst c 108 = 0) /\
  (forall r, nth_error (snd c) 1 = Some (Ret r) -> r = [1; 8] /\ fst c 200 = 2 /\ fst c 206 = 1).
Proof.
  intros sched ps ths c.
  destruct (group_encode_threads_safe ps (mem_list [7; 300; 70000])) with (sched := sched) as (NR & SE).
  - intros i j pi pj NE Hi Hj l. unfold ps in Hi, Hj. enum_nth Hi; enum_nth Hj;
      try congruence; injection Hi as <-; injection Hj as <-;
      cbn [io_dst io_src io_n];
      change (group_max_size (N.of_nat 3)) with 26; change (group_max_size (N.of_nat 2)) with 18;
      unfold in_range; lia.
  - split; [exact NR|]. split.
    + intros r Hr. destruct (SE 0%nat _ r eq_refl Hr) as [E M].
      split; [exact E|]. split.
      * exact (M 0%nat ltac:(vm_compute; lia)).
      * exact (M 8%nat ltac:(vm_compute; lia)).
    + intros r Hr. destruct (SE 1%nat _ r eq_refl Hr) as [E M].
      split; [exact E|]. split.
      * exact (M 0%nat ltac:(vm_compute; lia)).
      * exact (M 6%nat ltac:(vm_compute; lia)).
Qed.

Lemma adaptive_decode_example_all_schedules : forall sched,
  let ps := [(mk_io 0 14 100, 5); (mk_io 0 14 200, 3)] in
  let ths := map (fun p => prog1 (io_src (fst p)) (io_n (fst p)) (io_dst (fst p)) (adaptive_dec_fn (snd p))) ps in
  let c := crun sched (mem_list [0; 2; 232; 3; 1; 2; 1; 4; 1; 2; 3; 8; 27; 2], ths) in
  ~ races (snd c) /\
  (forall r, nth_error (snd c) 0 = Some (Ret r) -> r = [1; 5] /\ fst c 100 = 1000 /\ fst c 104 = 70000) /\
  (forall r, nth_error (snd c) 1 = Some (Ret r) -> r = [1; 3] /\ fst c 202 = 1003).
Proof.
  intros sched ps ths c.
  destruct (adaptive_decode_threads_safe ps (mem_list [0; 2; 232; 3; 1; 2; 1; 4; 1; 2; 3; 8; 27; 2]))
    with (sched := sched) as (NR & SE).
  - intros i j pi pj NE Hi Hj l. unfold ps in Hi, Hj. enum_nth Hi; enum_nth Hj;
      try congruence; injection Hi as <-; injection Hj as <-;
      cbn [fst snd io_dst io_src io_n]; unfold in_range; lia.
  - split; [exact NR|]. split.
    + intros r Hr. destruct (SE 0%nat _ r eq_refl Hr) as [E M].
      split; [exact E|]. split.
      * exact (M 0%nat ltac:(vm_compute; lia)).
      * exact (M 4%nat ltac:(vm_compute; lia)).
    + intros r Hr. destruct (SE 1%nat _ r eq_refl Hr) as [E M].
      split; [exact E|]. exact (M 2%nat ltac:(vm_compute; lia)).
Qed.

(* elements 0, 2 and 4 of a compact 12-bit array occupy slots 0..1, 3..4, 6..7 *)
Lemma packed_example_all_schedules : forall sched,
  let c12 := mk_pcfg 12 8 None 16 32 true in
  let ps := [(mk_pcall 10 c12 0, PSet 2748); (mk_pcall 10 c12 2, PIncr 5%Z); (mk_pcall 10 c12 4, PHalf)] in
  let ths := map (fun p => slots_prog (pc_base (fst p)) (pc_slots (fst p))
                             (pop_fn (pc_cfg (fst p)) (pc_i (fst p)) (snd p))) ps in
  let c := crun sched (mem_list (repeat 0 10%nat ++ [17; 34; 51; 68; 85; 102; 119; 136]), ths) in
  ~ races (snd c) /\
  (forall r, nth_error (snd c) 0 = Some (Ret r) -> r = [] /\ fst c 10 = 188 /\ fst c 11 = 42) /\
  (forall r, nth_error (snd c) 1 = Some (Ret r) -> r = [] /\ fst c 13 = 73 /\ fst c 14 = 85) /\
  (forall r, nth_error (snd c) 2 = Some (Ret r) -> r = [] /\ fst c 16 = 59 /\ fst c 17 = 132).
Proof.
  intros sched c12 ps ths c.
  destruct (packed_threads_safe_by_range ps
              (mem_list (repeat 0 10%nat ++ [17; 34; 51; 68; 85; 102; 119; 136]))) with (sched := sched)
    as (NR & SE).
  - intros p H. unfold ps in H. enum_in H; subst p; cbn [fst pc_cfg pc_i]; (split; [|lia]);
      unfold admitted, c12; cbn [p_w p_S p_V p_P]; change (N.gcd 12 8) with 4; repeat split; lia.
  - intros i j pi pj NE Hi Hj ki kj. unfold ps in Hi, Hj. enum_nth Hi; enum_nth Hj;
      try congruence; injection Hi as <-; injection Hj as <-;
      unfold c12; cbn [fst pc_base pc_cfg pc_i p_w p_S]; lia.
  - split; [exact NR|]. split; [|split].
    + intros r Hr. destruct (SE 0%nat _ r eq_refl Hr) as [E M].
      split; [exact E|]. split.
      * exact (M 0%nat ltac:(vm_compute; lia)).
      * exact (M 1%nat ltac:(vm_compute; lia)).
    + intros r Hr. destruct (SE 1%nat _ r eq_refl Hr) as [E M].
      split; [exact E|]. split.
      * exact (M 0%nat ltac:(vm_compute; lia)).
      * exact (M 1%nat ltac:(vm_compute; lia)).
    + intros r Hr. destruct (SE 2%nat _ r eq_refl Hr) as [E M].
      split; [exact E|]. split.
      * exact (M 0%nat ltac:(vm_compute; lia)).
      * exact (M 1%nat ltac:(vm_compute; lia)).
Qed.

(* bits 4..11 lie in words 0..1, bits 20..22 in word 2 of a stream of 8-bit words *)
Lemma bitstream_example_all_schedules : forall sched,
  let ps := [mk_bcall 10 8 64 4 8 171; mk_bcall 10 8 64 20 3 5] in
  let ths := map (fun p => slots_prog (bc_base p) (bc_words p)
                             (bitstream_set_fn (bc_W p) (bc_V p) (bc_off p) (bc_n p) (bc_v p))) ps in
  let c := crun sched (mem_list (repeat 0 10%nat ++ [255; 255; 255; 255; 255]), ths) in
  ~ races (snd c) /\
  (forall r, nth_error (snd c) 0 = Some (Ret r) -> r = [1] /\ fst c 10 = 250 /\ fst c 11 = 191) /\
  (forall r, nth_error (snd c) 1 = Some (Ret r) -> r = [1] /\ fst c 12 = 251).
Proof.
  intros sched ps ths c.
  destruct (bitstream_set_threads_safe_by_bits ps
              (mem_list (repeat 0 10%nat ++ [255; 255; 255; 255; 255]))) with (sched := sched) as (NR & SE).
  - intros p H. unfold ps in H. enum_in H; subst p; cbn [bc_n bc_W bc_V]; lia.
  - intros i j pi pj NE Hi Hj bi bj. unfold ps in Hi, Hj. enum_nth Hi; enum_nth Hj;
      try congruence; injection Hi as <-; injection Hj as <-;
      cbn [bc_base bc_off bc_n bc_W]; lia.
  - split; [exact NR|]. split.
    + intros r Hr. destruct (SE 0%nat _ r eq_refl Hr) as [E M].
      split; [exact E|]. split.
      * exact (M 0%nat ltac:(vm_compute; lia)).
      * exact (M 1%nat ltac:(vm_compute; lia)).
    + intros r Hr. destruct (SE 1%nat _ r eq_refl Hr) as [E M].
      split; [exact E|]. exact (M 0%nat ltac:(vm_compute; lia)).
Qed.
