(* Oom.v — property C18: allocation skeletons of every allocating API of
   src/varintDict.c, varintPFOR.c, varintFloat.c, varintAdaptive.c and
   varintBitmap.c (as the code stands after the `fix:` commits 89b36ee, 6f9b0d5,
   676e1f0, 910a4e8 of branch a/oom-2), over an allocation-oracle monad.

   A skeleton is the sequence of allocation sites of one library call together
   with the recovery code of each site (what is freed, what is returned), and
   nothing else: the data computation between the sites is the business of the
   codec models (Dict.v, PFOR.v, Float.v, Bitmap.v).  The few facts about the
   input that decide which sites are reached ("more than 16 distinct values",
   "there are exceptions", "this Add crosses 4096 members" ...) are parameters
   of the skeleton; the second half of this file computes them from the actual
   input with the codec models, so that the model driver predicts, for a case
   and a fault plan, the line the C driver prints (harness/c/drv_oom.c).

   Line numbers in comments refer to the C sources at the commits above.
   No proofs here (OomProofs.v, Properties_C18_oom.v). *)
Require Import VV.Base VV.Dict VV.PFOR VV.Float VV.Bitmap.
Local Open Scope N_scope.

(* ------------------------------------------------------------------ *)
(* the allocation-oracle monad                                          *)

Inductive oom_outcome :=
| OomFail        (* the documented failure indication: 0, NULL, false, -1 *)
| OomOkCorrect   (* success, and the result is the right one *)
| OomOkWrong     (* success reported, result incomplete or corrupt *)
| OomCrash.      (* NULL dereference, assert, unreachable *)

(* AAlloc k : malloc/calloc/realloc(NULL,..) ; k true = a block was obtained
   AFree k  : free of a live block
   realloc of a live block = AAlloc (fun ok => if ok then AFree .. else ..):
   on success one block replaces another, on failure the old one stays *)
Inductive aprog (A : Type) : Type :=
| ARet (a : A)
| AAlloc (k : bool -> aprog A)
| AFree (k : aprog A).
Arguments ARet {A} a.
Arguments AAlloc {A} k.
Arguments AFree {A} k.

Fixpoint abind {A B : Type} (p : aprog A) (f : A -> aprog B) : aprog B :=
  match p with
  | ARet a => f a
  | AAlloc k => AAlloc (fun ok => abind (k ok) f)
  | AFree k => AFree (abind k f)
  end.

(* plan i = true: the i-th allocation attempted by the call (1-based) fails.
   Result: value, live blocks (allocated minus freed, relative to the start of
   the call), allocations attempted. *)
Fixpoint arun_from {A : Type} (plan : nat -> bool) (p : aprog A) (n : nat) (live : Z)
  : A * Z * nat :=
  match p with
  | ARet a => (a, live, n)
  | AAlloc k =>
      if plan (S n) then arun_from plan (k false) (S n) live
      else arun_from plan (k true) (S n) (live + 1)%Z
  | AFree k => arun_from plan k n (live - 1)%Z
  end.
Definition arun_plan {A : Type} (plan : nat -> bool) (p : aprog A) : A * Z * nat :=
  arun_from plan p O 0%Z.
(* "the k-th allocation fails" (k = 0: none) *)
Definition arun {A : Type} (fail_at : nat) (p : aprog A) : A * Z * nat :=
  arun_plan (fun i => Nat.eqb i fail_at) p.

Definition oom_val {A : Type} (r : A * Z * nat) : A := fst (fst r).
Definition oom_live {A : Type} (r : A * Z * nat) : Z := snd (fst r).
Definition oom_count {A : Type} (r : A * Z * nat) : nat := snd r.

(* the value reached when every allocation succeeds *)
Fixpoint oom_success_path {A : Type} (p : aprog A) : A :=
  match p with
  | ARet a => a
  | AAlloc k => oom_success_path (k true)
  | AFree k => oom_success_path k
  end.

(* an allocation site with its two continuations *)
Definition oom_alloc {A : Type} (ok fail : aprog A) : aprog A :=
  AAlloc (fun b => if b then ok else fail).
(* realloc of a live block / "obtain the replacement, then release the old block" *)
Definition oom_realloc {A : Type} (ok fail : aprog A) : aprog A :=
  oom_alloc (AFree ok) fail.
Definition oom_free_if {A : Type} (b : bool) (k : aprog A) : aprog A :=
  if b then AFree k else k.

Definition oom_ok : aprog oom_outcome := ARet OomOkCorrect.
Definition oom_fail : aprog oom_outcome := ARet OomFail.

(* ------------------------------------------------------------------ *)
(* dictionary (src/varintDict.c)                                        *)

(* varintDictCreate :81-93 *)
Definition oom_dict_create_k {A : Type} (ok fail : aprog A) : aprog A :=
  oom_alloc (* :82 calloc(1, sizeof(varintDict)) *)
    (oom_alloc (* :87 malloc(capacity * 8) *) ok
               (AFree (* :89 free(dict) *) fail))
    fail (* :84 return NULL *).

(* varintDictFree :95-100 *)
Definition oom_dict_free_k {A : Type} (k : aprog A) : aprog A :=
  AFree (* :97 values *) (AFree (* :98 dict *) k).

(* varintDictBuild :102-163 with count > 0; grow = (unique > dict->capacity).
   On failure dict->values, size, capacity are untouched. *)
Definition oom_dict_build_k {A : Type} (grow : bool) (ok fail : aprog A) : aprog A :=
  oom_alloc (* :108 sorted *)
    (if grow
     then oom_realloc (* :135 realloc(dict->values) *)
            (AFree (* :152 free(sorted) *) ok)
            (AFree (* :137 free(sorted) *) fail (* :138 return -1 *))
     else AFree (* :152 *) ok)
    fail (* :110 return -1 *).

Definition oom_dict_create_skel : aprog oom_outcome := oom_dict_create_k oom_ok oom_fail.
Definition oom_dict_build_skel (grow : bool) : aprog oom_outcome :=
  oom_dict_build_k grow oom_ok oom_fail.

(* varintDictEncode :183-202, varintDictEncodedSize :436-455,
   varintDictGetStats :496-537: Create, Build, use the dictionary, Free *)
Definition oom_dict_transient_k {A : Type} (grow : bool) (ok fail : aprog A) : aprog A :=
  oom_dict_create_k
    (oom_dict_build_k grow (oom_dict_free_k ok)
                           (oom_dict_free_k (* :195 / :448 / :509 *) fail))
    fail.
Definition oom_dict_encode_skel (grow : bool) : aprog oom_outcome :=
  oom_dict_transient_k grow oom_ok oom_fail.
Definition oom_dict_size_skel (grow : bool) : aprog oom_outcome :=
  oom_dict_transient_k grow oom_ok oom_fail.
Definition oom_dict_stats_skel (grow : bool) : aprog oom_outcome :=
  oom_dict_transient_k grow oom_ok oom_fail.
(* varintDictCompressionRatio :482-494 = EncodedSize (0.0f on failure) *)
Definition oom_dict_ratio_skel (grow : bool) : aprog oom_outcome := oom_dict_size_skel grow.

(* varintDictDecode :245-338 on a well-formed stream: the output array is
   handed to the caller (one live block on success) *)
Definition oom_dict_decode_skel : aprog oom_outcome :=
  oom_alloc (* :275 dictValues *)
    (oom_alloc (* :316 output *)
       (AFree (* :335 free(dictValues) *) oom_ok)
       (AFree (* :318 *) oom_fail))
    oom_fail (* :277 *).

(* varintDictDecodeInto :340-430 on a well-formed stream *)
Definition oom_dict_decode_into_k {A : Type} (ok fail : aprog A) : aprog A :=
  oom_alloc (* :370 dictValues *) (AFree (* :428 *) ok) fail (* :372 *).
Definition oom_dict_decode_into_skel : aprog oom_outcome :=
  oom_dict_decode_into_k oom_ok oom_fail.

(* ------------------------------------------------------------------ *)
(* PFOR (src/varintPFOR.c)                                              *)

(* varintPFORComputeThreshold :47-102.  Out of memory: metadata zeroed
   (count = 0 for a non-empty input), width 8 returned: `fail`. *)
Definition oom_pfor_threshold_k {A : Type} (nonempty : bool) (ok fail : aprog A) : aprog A :=
  if nonempty then oom_alloc (* :56 sorted *) (AFree (* :100 *) ok) fail (* :57-61 *)
  else ok (* :50-53 *).
Definition oom_pfor_threshold_skel (nonempty : bool) : aprog oom_outcome :=
  oom_pfor_threshold_k nonempty oom_ok oom_fail.

(* varintPFOREncode :129-196 *)
Definition oom_pfor_encode_k {A : Type} (nonempty has_exc : bool) (ok fail : aprog A) : aprog A :=
  oom_pfor_threshold_k nonempty
    (if has_exc
     then oom_alloc (* :155 exceptions *) (AFree (* :194 *) ok) fail (* :159 return 0 *)
     else ok (* :194 free(NULL) *))
    fail (* :135-138 return 0 *).
Definition oom_pfor_encode_skel (nonempty has_exc : bool) : aprog oom_outcome :=
  oom_pfor_encode_k nonempty has_exc oom_ok oom_fail.

(* ------------------------------------------------------------------ *)
(* float (src/varintFloat.c), count > 0                                 *)

(* :218-229 and :420-431: four mallocs attempted unconditionally, tested
   together; on failure the ones obtained are freed (free(NULL) is a no-op) *)
Definition oom_float4_k {A : Type} (ok fail : aprog A) : aprog A :=
  AAlloc (fun a => AAlloc (fun b => AAlloc (fun c => AAlloc (fun d =>
    if a && b && c && d then ok
    else oom_free_if a (oom_free_if b (oom_free_if c (oom_free_if d fail))))))).
Definition oom_free4_k {A : Type} (k : aprog A) : aprog A :=
  AFree (AFree (AFree (AFree k))).

(* varintFloatEncode :191-393 *)
Definition oom_float_encode_skel : aprog oom_outcome :=
  oom_float4_k (oom_free4_k (* :387-390 *) oom_ok) oom_fail (* :228 return 0 *).

(* varintFloatEncodeAuto :588-622 = Encode at the selected precision *)
Definition oom_float_encode_auto_skel : aprog oom_outcome := oom_float_encode_skel.

(* varintFloatDecode :396-585; has_normal = some value is not special *)
Definition oom_float_decode_skel (has_normal : bool) : aprog oom_outcome :=
  oom_float4_k
    (if has_normal
     then oom_alloc (* :526 packed_mantissas *)
            (AFree (* :555 *) (oom_free4_k (* :579-582 *) oom_ok))
            (oom_free4_k (* :528-531 *) oom_fail (* :532 return 0 *))
     else oom_free4_k oom_ok)
    oom_fail (* :430 *).

(* ------------------------------------------------------------------ *)
(* bitmap (src/varintBitmap.c): abstract container state                *)

(* type (0 ARRAY, 1 BITMAP, 2 RUNS), cardinality, array capacity *)
Record oom_bst := mk_oom_bst { ob_ty : N; ob_card : N; ob_cap : N }.

(* varintBitmapCreate :151-169 *)
Definition oom_bm_create_k {A : Type} (ok fail : aprog A) : aprog A :=
  oom_alloc (* :152 calloc *)
    (oom_alloc (* :160 malloc *) ok (AFree (* :163 *) fail (* :164 *)))
    fail (* :154 *).
Definition oom_bm_created : oom_bst := mk_oom_bst 0 0 16.
(* varintBitmapFree :171-189: the container block and the struct *)
Definition oom_bm_free_k {A : Type} (k : aprog A) : aprog A := AFree (AFree k).
(* varintBitmapClone :191-238 (same two sites for each container type) *)
Definition oom_bm_clone_k {A : Type} (ok fail : aprog A) : aprog A :=
  oom_alloc (* :192 *)
    (oom_alloc (* :203 / :214 / :226 *) ok (AFree (* :206 / :216 / :229 *) fail))
    fail (* :194 *).
(* varintBitmapDecode :621-734 on a well-formed buffer *)
Definition oom_bm_decode_k {A : Type} (ok fail : aprog A) : aprog A :=
  oom_alloc (* :637 *)
    (oom_alloc (* :652 / :674 / :703 *) ok (AFree (* :654 / :676 / :705 *) fail))
    fail (* :639 *).

(* varintBitmapAdd :240-332.  present = the value is already a member.
   ok st' : the call returned normally (true, or false because present);
   oom    : it returned false and the value is NOT a member (state unchanged). *)
Definition oom_bm_add_k {A : Type} (st : oom_bst) (present : bool)
           (ok : oom_bst -> aprog A) (oom : aprog A) : aprog A :=
  let card := ob_card st in
  let cap := ob_cap st in
  let card' := if present then card else card + 1 in
  if ob_ty st =? 0 then
    if present then ok st (* :246-248 *)
    else if 4096 <=? card then
      (* :251-258 arrayToBitmap_ :73-93 *)
      oom_alloc (* :76 calloc *) (AFree (* :87 free(values) *) (ok (mk_oom_bst 1 (card + 1) cap)))
                oom (* :253 *)
    else if card + 1 <=? cap then ok (mk_oom_bst 0 (card + 1) cap)
    else
      (* :262 arrayEnsureCapacity_ :125-145 *)
      oom_realloc (* :138 *) (ok (mk_oom_bst 0 (card + 1) (N.max (2 * cap) (card + 1))))
                  oom (* :263 *)
  else if ob_ty st =? 1 then ok (mk_oom_bst 1 card' cap) (* :276-282 *)
  else
    (* :284-329 RUNS: always converted first, even when the value is present *)
    oom_alloc (* :288 calloc / :308 malloc *)
      (AFree (* :301 / :322 free(runs) *)
         (if 4096 <=? card then ok (mk_oom_bst 1 card' cap)        (* :305 -> :276 *)
          else ok (mk_oom_bst 0 card' (card + 1))))                 (* :327 -> :242, capacity card+1 fits *)
      (if present then ok st else oom) (* :290 / :310 return false *).

(* varintBitmapRemove :334-413 on a container that is not RUNS *)
Definition oom_bm_remove_nr_k {A : Type} (st : oom_bst) (present : bool)
           (ok : oom_bst -> aprog A) : aprog A :=
  let card := ob_card st in
  if ob_ty st =? 0 then ok (mk_oom_bst 0 (if present then card - 1 else card) (ob_cap st))
  else
    if present then
      let c := card - 1 in
      if c <? 4096 then
        (* :357-362 bitmapToArray_ :96-122; a failure is ignored, the value is
           removed and the container stays a (sparse) bitmap *)
        AAlloc (* :99 *) (fun b => if b then AFree (* :115 *) (ok (mk_oom_bst 0 c c))
                                 else ok (mk_oom_bst 1 c (ob_cap st)))
      else ok (mk_oom_bst 1 c (ob_cap st))
    else ok st.
Definition oom_bm_remove_k {A : Type} (st : oom_bst) (present : bool)
           (ok : oom_bst -> aprog A) (oom : aprog A) : aprog A :=
  if ob_ty st =? 2 then
    (* :369-409 convert, then Remove again *)
    oom_alloc (* :372 calloc / :389 malloc *)
      (AFree (* :385 / :403 *)
         (oom_bm_remove_nr_k
            (if 4096 <=? ob_card st then mk_oom_bst 1 (ob_card st) (ob_cap st)
             else mk_oom_bst 0 (ob_card st) (ob_card st)) present ok))
      (if present then oom else ok st) (* :374 / :391 return false *)
  else oom_bm_remove_nr_k st present ok.

(* loops of Add / Remove that stop at the first value that could not be
   stored / removed:  `if (!Add(vb,v) && !Contains(vb,v)) <oom>` *)
Fixpoint oom_bm_adds_k {A : Type} (st : oom_bst) (flags : list bool)
         (ok : oom_bst -> aprog A) (oom : aprog A) : aprog A :=
  match flags with
  | [] => ok st
  | p :: t => oom_bm_add_k st p (fun st' => oom_bm_adds_k st' t ok oom) oom
  end.
Fixpoint oom_bm_removes_k {A : Type} (st : oom_bst) (flags : list bool)
         (ok : oom_bst -> aprog A) (oom : aprog A) : aprog A :=
  match flags with
  | [] => ok st
  | p :: t => oom_bm_remove_k st p (fun st' => oom_bm_removes_k st' t ok oom) oom
  end.

Definition oom_bm_create_skel : aprog oom_outcome := oom_bm_create_k oom_ok oom_fail.
Definition oom_bm_clone_skel : aprog oom_outcome := oom_bm_clone_k oom_ok oom_fail.
Definition oom_bm_decode_skel : aprog oom_outcome := oom_bm_decode_k oom_ok oom_fail.
(* varintBitmapEncode :583-619, varintBitmapToArray :810-817: no allocation *)
Definition oom_bm_encode_skel : aprog oom_outcome := oom_ok.
Definition oom_bm_to_array_skel : aprog oom_outcome := oom_ok.

(* varintBitmapAdd / Remove as API calls: `false` with the value present
   (Add) / absent (Remove) is the documented answer, not a failure *)
Definition oom_bm_add_skel (st : oom_bst) (present : bool) : aprog oom_outcome :=
  oom_bm_add_k st present (fun _ => oom_ok) oom_fail.
Definition oom_bm_remove_skel (st : oom_bst) (present : bool) : aprog oom_outcome :=
  oom_bm_remove_k st present (fun _ => oom_ok) oom_fail.

(* varintBitmapAddMany :799-808 (bool since 6f9b0d5); flags = membership of
   each value at the time it is added *)
Definition oom_bm_add_many_skel (st : oom_bst) (flags : list bool) : aprog oom_outcome :=
  oom_bm_adds_k st flags (fun _ => oom_ok) oom_fail.

(* varintBitmapAddRange :863-903; nonempty_range = (min < max),
   big = (max - min > 4096), flags = membership of min, min+1, ... *)
Definition oom_bm_add_range_skel (st : oom_bst) (nonempty_range big : bool) (flags : list bool)
  : aprog oom_outcome :=
  if negb nonempty_range then oom_ok (* :864-866 *)
  else if big && (ob_card st =? 0) then
    (* :872-894 single run: allocated before the old container is released *)
    oom_alloc (* :874 *) (AFree (* :878-884 *) oom_ok) oom_fail (* :876 *)
  else oom_bm_adds_k st flags (fun _ => oom_ok) oom_fail (* :897-902 *).

(* varintBitmapRemoveRange :905-912 *)
Definition oom_bm_remove_range_skel (st : oom_bst) (flags : list bool) : aprog oom_outcome :=
  oom_bm_removes_k st flags (fun _ => oom_ok) oom_fail.

(* varintBitmapAnd :453-497, Xor :515-541, AndNot :543-559: Create, then one
   Add per member of the result (all new); resultAdd_ :444-451 frees the
   partial result on failure.  m_flags = one `false` per member. *)
Definition oom_bm_fresh_setop_skel (m_flags : list bool) : aprog oom_outcome :=
  oom_bm_create_k
    (oom_bm_adds_k oom_bm_created m_flags (fun _ => oom_ok)
                   (oom_bm_free_k (* :449 *) oom_fail (* return NULL *)))
    oom_fail.
(* varintBitmapOr :499-513: Clone(vb1), then Add every member of vb2 *)
Definition oom_bm_or_skel (st1 : oom_bst) (flags : list bool) : aprog oom_outcome :=
  oom_bm_clone_k
    (oom_bm_adds_k st1 flags (fun _ => oom_ok) (oom_bm_free_k oom_fail))
    oom_fail.

(* ------------------------------------------------------------------ *)
(* adaptive (src/varintAdaptive.c)                                      *)

(* varintAdaptiveCountUnique :69-161 (and varintAdaptiveAnalyze :183-242, whose
   only allocation it is).  On failure the function returns `count`
   ("conservative estimate"): the right answer iff `exact`. *)
Definition oom_adp_unique_k {A : Type} (two_or_more : bool) (ok fail : aprog A) : aprog A :=
  if two_or_more then oom_alloc (* :90 / :133 *) (AFree (* :120 / :159 *) ok) fail (* :92 / :135 *)
  else ok (* :70-75 *).
Definition oom_adp_unique_skel (two_or_more exact : bool) : aprog oom_outcome :=
  oom_adp_unique_k two_or_more oom_ok (if exact then oom_ok else oom_fail).

(* facts about the input that decide the sites of EncodeWith *)
Record oom_adp_facts := mk_oom_adp_facts {
  oaf_nonempty : bool;          (* count > 0 *)
  oaf_pfor_exc : bool;          (* PFOR at threshold 95 has exceptions *)
  oaf_dict_grow : bool;         (* more than 16 distinct values *)
  oaf_bm_flags : list bool;     (* BITMAP: for each value < 65536, already added? *)
  oaf_bm_valid : bool           (* BITMAP is lossless here: strictly ascending, < 65536 *)
}.

(* varintAdaptiveEncodeWith :316-427 *)
Definition oom_adp_encode_with_k {A : Type} (t : N) (f : oom_adp_facts)
           (ok wrong fail : aprog A) : aprog A :=
  if t =? 0 then
    (* DELTA :333-352: a scratch copy that is never used *)
    oom_alloc (* :340 *) (AFree (* :350 *) ok) fail (* :342 *)
  else if t =? 1 then ok (* FOR :354-362 *)
  else if t =? 2 then
    (* PFOR :364-376; 0 from the encoder and count > 0 -> return 0 *)
    oom_pfor_encode_k (oaf_nonempty f) (oaf_pfor_exc f) ok fail (* :368-370 *)
  else if t =? 3 then
    (* DICT :378-384; count = 0: the encoder returns 0 without allocating,
       the header byte alone is returned *)
    if oaf_nonempty f then oom_dict_transient_k (oaf_dict_grow f) ok fail (* :380-382 *)
    else ok
  else if t =? 4 then
    (* BITMAP :386-405 *)
    oom_bm_create_k
      (oom_bm_adds_k oom_bm_created (oaf_bm_flags f)
         (fun _ => oom_bm_free_k (* :403 *) (if oaf_bm_valid f then ok else wrong))
         (oom_bm_free_k (* :397 *) fail (* :398 *)))
      fail (* :390 *)
  else ok (* TAGGED :407-417 *).
Definition oom_adp_encode_with_skel (t : N) (f : oom_adp_facts) : aprog oom_outcome :=
  oom_adp_encode_with_k t f oom_ok (ARet OomOkWrong) oom_fail.

(* varintAdaptiveEncode :429-451: analysis (its allocation may fail: the
   selection is then made with uniqueCount = count), EncodeWith(selected),
   TAGGED when that returned 0 *)
Definition oom_adp_encode_skel (two_or_more : bool) (sel sel_fallback : N) (f : oom_adp_facts)
  : aprog oom_outcome :=
  let enc (t : N) :=
    oom_adp_encode_with_k t f oom_ok (ARet OomOkWrong)
      (if t =? 5 then oom_fail else oom_ok (* :441-449 TAGGED retry *)) in
  oom_adp_unique_k two_or_more (enc sel) (enc sel_fallback).

(* varintAdaptiveDecode :457-562 on the stream EncodeWith(t) produced *)
Definition oom_adp_decode_skel (t : N) : aprog oom_outcome :=
  if t =? 3 then oom_dict_decode_into_k oom_ok oom_fail (* :500 *)
  else if t =? 4 then
    oom_bm_decode_k (* :506 *)
      (oom_alloc (* :515 shortValues *)
         (AFree (* :526 *) (oom_bm_free_k (* :528 *) oom_ok))
         (oom_bm_free_k (* :528 *) oom_fail (* decoded = 0 *)))
      oom_fail
  else oom_ok.

(* ------------------------------------------------------------------ *)
(* what the caller owns after the call, relative to before: the blocks of  *)
(* a returned object / array                                            *)

(* kind 0: nothing new (in-place and transient APIs); 1: one block (decoded
   array); 2: an object of two blocks (struct + container) *)
Definition oom_owned (kind : N) (o : oom_outcome) : Z :=
  match o with
  | OomOkCorrect | OomOkWrong => Z.of_N kind
  | _ => 0%Z
  end.
Definition oom_leak (kind : N) (r : oom_outcome * Z * nat) : Z :=
  (oom_live r - oom_owned kind (oom_val r))%Z.

(* ================================================================== *)
(* facts about concrete inputs (computed with the codec models)         *)

(* number of distinct values = dict->size after Build *)
Definition oom_distinct (vals : list N) : N :=
  match dict_build vals with DictBuildOk d => dct_size d | _ => 0 end.
(* capacity of a dictionary created and built with prev (not built when empty) *)
Definition oom_dict_cap (prev : list N) : N := N.max 16 (oom_distinct prev).
Definition oom_dict_grow (prev vals : list N) : bool := oom_dict_cap prev <? oom_distinct vals.

Definition oom_nonempty {A : Type} (l : list A) : bool := match l with [] => false | _ => true end.
Definition oom_two {A : Type} (l : list A) : bool := match l with _ :: _ :: _ => true | _ => false end.

Definition oom_pfor_has_exc (vals : list N) (thr : N) : bool :=
  0 <? pm_exc (pfor_compute_threshold vals thr).

Definition oom_float_has_normal (bits : list N) : bool :=
  existsb (fun d => p_normal (fl_decompose d)) bits.

(* abstract state of a Bitmap.v state (only entry points of Bitmap.v are used) *)
Definition oom_bst_of_stats (s : N * N * N * N) : oom_bst :=
  mk_oom_bst (snd (fst (fst s))) (snd (fst s)) (snd s).

(* for (v = lo; v < hi; v += step) *)
Definition oom_stride (lo hi step : N) : list N :=
  let step := if step =? 0 then 1 else step in
  if hi <=? lo then []
  else rev_append (snd (N.iter ((hi - lo + step - 1) / step)
                               (fun p => (fst p + step, fst p :: snd p)) (lo, []))) [].

(* the set scripts of harness/c/drv_oom.c.  Written with `bm_create` as the
   only way to name the state type, so that Bitmap.v may rename it. *)
Definition oom_run_bytes (runs : list N) : list N :=
  let pairs := map (fun o => ((o / 65536) mod 65536, o mod 65536)) runs in
  let card := fold_left (fun c p => c + snd p) pairs 0 in
  [2] ++ le_bytes 4 card ++ le_bytes 4 (N.of_nat (length runs))
      ++ flat_map (fun p => le_bytes 2 (fst p) ++ le_bytes 2 (snd p)) pairs.

Fixpoint oom_split_runs (ops : list N) : list N * list N :=
  match ops with
  | o :: t => if N.testbit o 60 then let r := oom_split_runs t in (o :: fst r, snd r) else ([], ops)
  | [] => ([], [])
  end.

Definition oom_bm_script (ops : list N) :=
  let sp := oom_split_runs ops in
  let start :=
    match fst sp with
    | [] => bm_create
    | runs => let z := oom_run_bytes runs in
              match fst (bm_decode z (N.of_nat (length z))) with Some s => s | None => bm_create end
    end in
  fold_left (fun s o =>
    let lo := (o / 65536) mod 65536 in
    let hi := o mod 65536 in
    if N.testbit o 35 then fold_left (fun r v => fst (bm_add r v)) (oom_stride lo hi ((o / 68719476736) mod 65536)) s
    else if N.testbit o 34 then bm_remove_range s lo hi
    else if N.testbit o 33 then fst (bm_remove s hi)
    else if N.testbit o 32 then bm_add_range s lo hi
    else fst (bm_add s hi)) (snd sp) start.

Definition oom_bst_of_script (ops : list N) : oom_bst := oom_bst_of_stats (bm_get_stats (oom_bm_script ops)).

(* membership of each value at the time it is added / removed *)
Definition oom_add_flags_from (ops vs : list N) : list bool :=
  rev_append (snd (fold_left (fun p v => (fst (bm_add (fst p) v), bm_contains (fst p) v :: snd p))
                             vs (oom_bm_script ops, []))) [].
Definition oom_remove_flags_from (ops vs : list N) : list bool :=
  rev_append (snd (fold_left (fun p v => (fst (bm_remove (fst p) v), bm_contains (fst p) v :: snd p))
                             vs (oom_bm_script ops, []))) [].
Definition oom_contains_script (ops : list N) (v : N) : bool := bm_contains (oom_bm_script ops) v.

(* members of the results of the set operations, in the order the C adds them *)
Definition oom_and_flags (a b : list N) : list bool :=
  let sa := oom_bm_script a in let sb := oom_bm_script b in
  map (fun _ => false) (filter (bm_contains sb) (bm_to_array sa)).
Definition oom_andnot_flags (a b : list N) : list bool :=
  let sa := oom_bm_script a in let sb := oom_bm_script b in
  map (fun _ => false) (filter (fun v => negb (bm_contains sb v)) (bm_to_array sa)).
Definition oom_xor_flags (a b : list N) : list bool :=
  oom_andnot_flags a b ++ oom_andnot_flags b a.
Definition oom_or_flags (a b : list N) : list bool :=
  let sa := oom_bm_script a in let sb := oom_bm_script b in
  map (bm_contains sa) (bm_to_array sb).

(* adaptive *)
Fixpoint oom_strictly_ascending (l : list N) : bool :=
  match l with
  | a :: ((b :: _) as t) => (a <? b) && oom_strictly_ascending t
  | _ => true
  end.
Definition oom_adp_facts_of (vals : list N) : oom_adp_facts :=
  let small := filter (fun v => v <? 65536) vals in
  mk_oom_adp_facts
    (oom_nonempty vals)
    (oom_pfor_has_exc vals 95)
    (16 <? oom_distinct vals)
    (oom_add_flags_from [] small)
    (oom_strictly_ascending vals && forallb (fun v => v <? 65536) vals).
(* CountUnique's fallback `count` is exact: all values distinct (exact path, count <= 10000) *)
Definition oom_adp_unique_exact (vals : list N) : bool :=
  oom_distinct vals =? N.of_nat (length vals).

(* ------------------------------------------------------------------ *)
(* the cases of harness/c/drv_oom.c: arguments -> skeleton instance       *)

Definition oom_case_dict_build (prev vals : list N) := oom_dict_build_skel (oom_dict_grow prev vals).
Definition oom_case_dict_encode (vals : list N) := oom_dict_encode_skel (oom_dict_grow [] vals).
Definition oom_case_dict_size (vals : list N) := oom_dict_size_skel (oom_dict_grow [] vals).
Definition oom_case_dict_stats (vals : list N) := oom_dict_stats_skel (oom_dict_grow [] vals).
Definition oom_case_dict_ratio (vals : list N) := oom_dict_ratio_skel (oom_dict_grow [] vals).
Definition oom_case_pfor_threshold (vals : list N) := oom_pfor_threshold_skel (oom_nonempty vals).
Definition oom_case_pfor_encode (vals : list N) (thr : N) :=
  oom_pfor_encode_skel (oom_nonempty vals) (oom_pfor_has_exc vals thr).
Definition oom_case_float_decode (bits : list N) := oom_float_decode_skel (oom_float_has_normal bits).
Definition oom_case_adp_unique (vals : list N) :=
  oom_adp_unique_skel (oom_two vals) (oom_adp_unique_exact vals).
Definition oom_case_adp_encode_with (vals : list N) (t : N) :=
  oom_adp_encode_with_skel t (oom_adp_facts_of vals).
Definition oom_case_adp_encode (vals : list N) (sel self : N) :=
  oom_adp_encode_skel (oom_two vals) sel self (oom_adp_facts_of vals).
Definition oom_case_bm_add (ops : list N) (v : N) :=
  oom_bm_add_skel (oom_bst_of_script ops) (oom_contains_script ops v).
Definition oom_case_bm_remove (ops : list N) (v : N) :=
  oom_bm_remove_skel (oom_bst_of_script ops) (oom_contains_script ops v).
Definition oom_case_bm_add_many (ops vs : list N) :=
  oom_bm_add_many_skel (oom_bst_of_script ops) (oom_add_flags_from ops vs).
Definition oom_case_bm_add_range (ops : list N) (lo hi : N) :=
  let st := oom_bst_of_script ops in
  let big := 4096 <? hi - lo in
  if big && (ob_card st =? 0) then oom_bm_add_range_skel st (lo <? hi) big []
  else oom_bm_add_range_skel st (lo <? hi) big (oom_add_flags_from ops (oom_stride lo hi 1)).
Definition oom_case_bm_remove_range (ops : list N) (lo hi : N) :=
  oom_bm_remove_range_skel (oom_bst_of_script ops) (oom_remove_flags_from ops (oom_stride lo hi 1)).
Definition oom_case_bm_and (a b : list N) := oom_bm_fresh_setop_skel (oom_and_flags a b).
Definition oom_case_bm_xor (a b : list N) := oom_bm_fresh_setop_skel (oom_xor_flags a b).
Definition oom_case_bm_andnot (a b : list N) := oom_bm_fresh_setop_skel (oom_andnot_flags a b).
Definition oom_case_bm_or (a b : list N) := oom_bm_or_skel (oom_bst_of_script a) (oom_or_flags a b).

(* EXTRACT: arun oom_val oom_live oom_count oom_leak
   oom_dict_create_skel oom_dict_decode_skel oom_dict_decode_into_skel
   oom_float_encode_skel oom_float_encode_auto_skel oom_adp_decode_skel
   oom_bm_create_skel oom_bm_clone_skel oom_bm_decode_skel oom_bm_encode_skel oom_bm_to_array_skel
   oom_case_dict_build oom_case_dict_encode oom_case_dict_size oom_case_dict_stats oom_case_dict_ratio
   oom_case_pfor_threshold oom_case_pfor_encode oom_case_float_decode
   oom_case_adp_unique oom_case_adp_encode_with oom_case_adp_encode
   oom_case_bm_add oom_case_bm_remove oom_case_bm_add_many oom_case_bm_add_range
   oom_case_bm_remove_range oom_case_bm_and oom_case_bm_xor oom_case_bm_andnot oom_case_bm_or *)
