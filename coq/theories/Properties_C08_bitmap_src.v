(* Properties_C08_bitmap_src.v — property C08 (the hybrid bitmap answers like a set
   of uint16 values), bit level of the BITMAP container, stated about
   src_bitmapContains_ / src_bitmapSet_ / src_bitmapClear_: the Gallina renderings
   that gen/c2coq.py regenerates from the CURRENT src/varintBitmap.c on every run
   (coq/gen/Src_leaf_bitmap.v; meaning of the c_* operations: CSem.v).  C integer
   values are Z, `bool` results are 0 / 1; the object `uint8_t *bits` points to is a
   byte list (8192 bytes in the library; the statements need only the byte value/8
   to be inside it — an access outside is COob), returned as the final list by the
   writers; `COk v` = the C abstract machine yields v.  bm_bits_* and the finite-map
   memory bm_mem8 are the hand model (Bitmap.v); [bm_rep m M]: list m and map M
   hold the same byte at every index.  Nothing but statements closed by `exact`. *)
Require Import VV.Base VV.CSem VV.Bitmap VV.LeafSrcBitmap.
Require Import VVgen.Src_leaf_bitmap.
Local Open Scope Z_scope.

(* ---- the regenerated functions compute the hand model, every uint16_t value ---- *)

Theorem C08_src_bitmapContains_is_model : forall m M v, 0 <= v < 65536 -> bytes_ok m ->
  (forall i, bm_mget M i = byte_at m (N.to_nat i)) ->
  (Z.to_nat (v / 8) < length m)%nat ->
  src_bitmapContains_ m v = COk (b2z (bm_bits_contains M (Z.to_N v))).
Proof. exact src_bitmapContains__is_model. Qed.
Print Assumptions C08_src_bitmapContains_is_model.

Theorem C08_src_bitmapSet_is_model : forall m M v, 0 <= v < 65536 -> bytes_ok m ->
  (forall i, bm_mget M i = byte_at m (N.to_nat i)) ->
  (Z.to_nat (v / 8) < length m)%nat ->
  exists m', src_bitmapSet_ m v = COk (b2z (snd (bm_bits_set M (Z.to_N v))), m') /\
    (forall i, bm_mget (fst (bm_bits_set M (Z.to_N v))) i = byte_at m' (N.to_nat i)) /\
    length m' = length m /\ bytes_ok m'.
Proof. exact src_bitmapSet__is_model. Qed.
Print Assumptions C08_src_bitmapSet_is_model.

Theorem C08_src_bitmapClear_is_model : forall m M v, 0 <= v < 65536 -> bytes_ok m ->
  (forall i, bm_mget M i = byte_at m (N.to_nat i)) ->
  (Z.to_nat (v / 8) < length m)%nat ->
  exists m', src_bitmapClear_ m v = COk (b2z (snd (bm_bits_clear M (Z.to_N v))), m') /\
    (forall i, bm_mget (fst (bm_bits_clear M (Z.to_N v))) i = byte_at m' (N.to_nat i)) /\
    length m' = length m /\ bytes_ok m'.
Proof. exact src_bitmapClear__is_model. Qed.
Print Assumptions C08_src_bitmapClear_is_model.

(* ---- C08: after bitmapSet_(bits, v), v is contained, every other value x answers as
   before, and the return value (1 = changed) is the negation of the previous answer ---- *)
Theorem C08_src_bitmap_contains_after_set : forall m v x,
  0 <= v < 65536 -> 0 <= x < 65536 -> bytes_ok m ->
  (Z.to_nat (v / 8) < length m)%nat -> (Z.to_nat (x / 8) < length m)%nat ->
  exists r m', src_bitmapSet_ m v = COk (r, m') /\ length m' = length m /\ bytes_ok m' /\
    src_bitmapContains_ m' v = COk 1 /\
    (x <> v -> src_bitmapContains_ m' x = src_bitmapContains_ m x) /\
    src_bitmapContains_ m v = COk (1 - r).
Proof. exact src_bitmap_contains_after_set. Qed.
Print Assumptions C08_src_bitmap_contains_after_set.

(* ---- C08: after bitmapClear_(bits, v), v is not contained, every other value x answers
   as before, and the return value (1 = changed) is the previous answer ---- *)
Theorem C08_src_bitmap_contains_after_clear : forall m v x,
  0 <= v < 65536 -> 0 <= x < 65536 -> bytes_ok m ->
  (Z.to_nat (v / 8) < length m)%nat -> (Z.to_nat (x / 8) < length m)%nat ->
  exists r m', src_bitmapClear_ m v = COk (r, m') /\ length m' = length m /\ bytes_ok m' /\
    src_bitmapContains_ m' v = COk 0 /\
    (x <> v -> src_bitmapContains_ m' x = src_bitmapContains_ m x) /\
    src_bitmapContains_ m v = COk r.
Proof. exact src_bitmap_contains_after_clear. Qed.
Print Assumptions C08_src_bitmap_contains_after_clear.

(* non-vacuity: the regenerated functions on a 2-byte object; an access outside it is COob *)
Example C08_src_bitmap_example :
  src_bitmapSet_ [0; 0]%N 9 = COk (1, [0; 2]%N) /\ src_bitmapSet_ [0; 2]%N 9 = COk (0, [0; 2]%N) /\
  src_bitmapContains_ [0; 2]%N 9 = COk 1 /\ src_bitmapContains_ [0; 2]%N 8 = COk 0 /\
  src_bitmapClear_ [255; 255]%N 7 = COk (1, [127; 255]%N) /\
  src_bitmapClear_ [127; 255]%N 7 = COk (0, [127; 255]%N) /\
  src_bitmapContains_ [0; 2]%N 16 = COob.
Proof. vm_compute. repeat split; reflexivity. Qed.
