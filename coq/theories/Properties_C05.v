(* Properties_C05.v — property C05: tagged varints sort bytewise in numeric
   order.  Nothing but statements closed by `exact`, each followed by
   Print Assumptions. *)
Require Import VV.Base VV.Tagged VV.TaggedSpecProofs.
Local Open Scope N_scope.

(* memcmp order of two encodings = numeric order, all pairs of 64-bit values *)
Theorem C05_tagged_order : forall a b,
  a < 18446744073709551616 -> b < 18446744073709551616 ->
  lex (tagged_put64 a) (tagged_put64 b) = (a ?= b).
Proof. exact tagged_order. Qed.
Print Assumptions C05_tagged_order.

(* equal bytes only for equal values *)
Theorem C05_tagged_injective : forall a b,
  a < 18446744073709551616 -> b < 18446744073709551616 ->
  tagged_put64 a = tagged_put64 b -> a = b.
Proof. exact tagged_injective. Qed.
Print Assumptions C05_tagged_injective.

(* the code is prefix-free *)
Theorem C05_tagged_prefix_free : forall a b,
  a < 18446744073709551616 -> b < 18446744073709551616 ->
  prefix (tagged_put64 a) (tagged_put64 b) -> a = b.
Proof. exact tagged_prefix_free. Qed.
Print Assumptions C05_tagged_prefix_free.

(* composite keys: concatenated encodings of tuples sort as the tuples *)
Theorem C05_tagged_tuple_order : forall xs ys,
  Forall (fun x => x < 18446744073709551616) xs ->
  Forall (fun x => x < 18446744073709551616) ys ->
  lex (tagged_key xs) (tagged_key ys) = lex_list xs ys.
Proof. exact tagged_tuple_order. Qed.
Print Assumptions C05_tagged_tuple_order.

(* non-vacuity: concrete instances across a length boundary *)
Example C05_example :
  lex (tagged_put64 2287) (tagged_put64 2288) = Lt /\
  lex (tagged_key [240; 18446744073709551615]) (tagged_key [241; 0]) = Lt.
Proof. vm_compute. split; reflexivity. Qed.
