(* Properties_C05.v — property C05: tagged varints sort bytewise in numeric
   order.  Nothing but statements closed by `exact`, each followed by
   Print Assumptions. *)
Require Import VV.Base VV.Tagged VV.TaggedSpecProofs VV.TaggedWriters.
Local Open Scope N_scope.

(* memcmp order of two encodings = numeric order, all pairs of 64-bit values *)
Theorem C05_tagged_order : forall a b,
  a < 18446744073709551616 -> b < 18446744073709551616 ->
  lex (tagged_put64 a) (tagged_put64 b) = (a ?= b).
Proof. exact tagged_order. Qed.
Print Assumptions C05_tagged_order.

(* equal bytes only for equal values *)
Theorem C05_tagged_injective : forall a b,
  a < 18446744073709551616 -> b < 18446744073709551616 ->
  tagged_put64 a = tagged_put64 b -> a = b.
Proof. exact tagged_injective. Qed.
Print Assumptions C05_tagged_injective.

(* the code is prefix-free *)
Theorem C05_tagged_prefix_free : forall a b,
  a < 18446744073709551616 -> b < 18446744073709551616 ->
  prefix (tagged_put64 a) (tagged_put64 b) -> a = b.
Proof. exact tagged_prefix_free. Qed.
Print Assumptions C05_tagged_prefix_free.

(* composite keys: concatenated encodings of tuples sort as the tuples *)
Theorem C05_tagged_tuple_order : forall xs ys,
  Forall (fun x => x < 18446744073709551616) xs ->
  Forall (fun x => x < 18446744073709551616) ys ->
  lex (tagged_key xs) (tagged_key ys) = lex_list xs ys.
Proof. exact tagged_tuple_order. Qed.
Print Assumptions C05_tagged_tuple_order.

(* keys written by the other writers of the family — the 32-bit writer, the
   fixed-width writer and the Quick macro at the value's natural width — are
   the same bytes as Put64's, so they sort with Put64 keys *)
Theorem C05_tagged_writers_order : forall a b,
  a < 18446744073709551616 -> b < 18446744073709551616 ->
  (a < 4294967296 -> lex (tagged_put32 a) (tagged_put64 b) = (a ?= b)) /\
  (forall k, tagged_put64_fixed a (tagged_len a) = Some k -> lex k (tagged_put64 b) = (a ?= b)) /\
  (forall k, tagged_put64_fixed_quick a (tagged_len a) = Some k -> lex k (tagged_put64 b) = (a ?= b)).
Proof. exact tagged_writers_order. Qed.
Print Assumptions C05_tagged_writers_order.

(* and so is the key left in a slot by the in-place add helpers, whenever they
   store (no overflow; grow allowed or the sum fits): the first `width` bytes
   are exactly Put64 of the sum *)
Theorem C05_tagged_add_key_order : forall p add force b,
  b < 18446744073709551616 ->
  in_s64 (to_s64 (snd (tagged_get64 p)) + add) = true ->
  (force = true \/
   tagged_len (of_s64 (to_s64 (snd (tagged_get64 p)) + add)) <= fst (tagged_get64 p)) ->
  let nv := of_s64 (to_s64 (snd (tagged_get64 p)) + add) in
  let r := tagged_add p add force in
  firstn (N.to_nat (fst r)) (snd r) = tagged_put64 nv /\
  lex (firstn (N.to_nat (fst r)) (snd r)) (tagged_put64 b) = (nv ?= b).
Proof. exact tagged_add_key_order. Qed.
Print Assumptions C05_tagged_add_key_order.

Example C05_writers_example :
  tagged_put64_fixed 16777221 (tagged_len 16777221) = Some [251; 1; 0; 0; 5] /\
  snd (tagged_add [251; 1; 0; 0; 5] (-10) true) = [250; 255; 255; 251; 5] /\
  lex [250; 255; 255; 251] (tagged_put64 16777216) = Lt.
Proof. vm_compute. repeat split; reflexivity. Qed.

(* non-vacuity: concrete instances across a length boundary *)
Example C05_example :
  lex (tagged_put64 2287) (tagged_put64 2288) = Lt /\
  lex (tagged_key [240; 18446744073709551615]) (tagged_key [241; 0]) = Lt.
Proof. vm_compute. split; reflexivity. Qed.
