(* LeafSrcEliasProps.v — the Elias theorems of properties C03 / C04 that depend on
   varintElias{Gamma,Delta}MaxBytes and varintEliasGammaBits, restated with those
   functions taken from the regenerated source (coq/gen/Src_leaf_elias.v). *)
Require Import VV.Base VV.EliasBits VV.Elias VV.EliasSpec VV.EliasEncProofs VV.EliasProofs VV.CSem VV.LeafSrcElias.
Require Import VVgen.Src_leaf_elias.
From Coq Require Import Lia ZifyBool ZifyN ZifyNat.
Local Open Scope N_scope.
Ltac Zify.zify_post_hook ::= Z.div_mod_to_equations.

Theorem src_gamma_encode_bound : forall xs,
  Forall (fun x => 1 <= x < 18446744073709551616) xs ->
  N.of_nat (length xs) < 144115188075855872 ->
  let e := elias_gamma_encode_array xs in
  exists mb, src_varintEliasGammaMaxBytes (Z.of_nat (length xs)) = COk (Z.of_N mb) /\
    ee_extent e = mb /\ ee_ovf e = false /\ ee_ret e <= mb /\ N.of_nat (length (ee_bytes e)) = ee_ret e.
Proof.
  intros xs Hx Hc e. destruct (gamma_encode_bound xs Hx Hc) as (A & B & C & D).
  exists (elias_gamma_max_bytes (N.of_nat (length xs))).
  rewrite src_varintEliasGammaMaxBytes_is_model by lia.
  replace (Z.to_N (Z.of_nat (length xs))) with (N.of_nat (length xs)) by lia.
  repeat split; assumption.
Qed.

Theorem src_delta_encode_bound : forall xs,
  Forall (fun x => 1 <= x < 18446744073709551616) xs ->
  N.of_nat (length xs) < 144115188075855872 ->
  let e := elias_delta_encode_array xs in
  exists mb, src_varintEliasDeltaMaxBytes (Z.of_nat (length xs)) = COk (Z.of_N mb) /\
    ee_extent e = mb /\ ee_ovf e = false /\ ee_ret e <= mb /\ N.of_nat (length (ee_bytes e)) = ee_ret e.
Proof.
  intros xs Hx Hc e. destruct (delta_encode_bound xs Hx Hc) as (A & B & C & D).
  exists (elias_delta_max_bytes (N.of_nat (length xs))).
  rewrite src_varintEliasDeltaMaxBytes_is_model by lia.
  replace (Z.to_N (Z.of_nat (length xs))) with (N.of_nat (length xs)) by lia.
  repeat split; assumption.
Qed.

(* c codes, each as long as the code of x, fit in the bytes MaxBytes(c) advertises *)
Theorem src_gamma_code_fits : forall x c, 1 <= x < 18446744073709551616 -> c < 144115188075855872 ->
  exists mb, src_varintEliasGammaMaxBytes (Z.of_N c) = COk (Z.of_N mb) /\
    N.of_nat (length (gamma_code x)) <= 127 /\
    (c * N.of_nat (length (gamma_code x)) + 7) / 8 <= mb.
Proof.
  intros x c Hx Hc. pose proof (gamma_code_le_127 x Hx) as L.
  exists (elias_gamma_max_bytes c). rewrite src_varintEliasGammaMaxBytes_is_model by lia.
  rewrite N2Z.id. split; [reflexivity|]. split; [exact L|].
  rewrite gamma_max_bytes_spec by lia.
  apply N.div_le_mono; [lia|]. apply N.add_le_mono_r. apply N.mul_le_mono_l. exact L.
Qed.

Theorem src_delta_code_fits : forall x c, 1 <= x < 18446744073709551616 -> c < 144115188075855872 ->
  exists mb, src_varintEliasDeltaMaxBytes (Z.of_N c) = COk (Z.of_N mb) /\
    N.of_nat (length (delta_code x)) <= 76 /\
    (c * N.of_nat (length (delta_code x)) + 7) / 8 <= mb.
Proof.
  intros x c Hx Hc. pose proof (delta_code_le_76 x Hx) as L.
  exists (elias_delta_max_bytes c). rewrite src_varintEliasDeltaMaxBytes_is_model by lia.
  rewrite N2Z.id. split; [reflexivity|]. split; [exact L|].
  rewrite delta_max_bytes_spec by lia.
  apply N.div_le_mono; [lia|]. apply N.add_le_mono_r. apply N.mul_le_mono_l. exact L.
Qed.

(* varintEliasGammaBits(x) is the length of the code and 2*floor(log2 x)+1 *)
Theorem src_gamma_bits : forall fuel x, (64 <= fuel)%nat -> 1 <= x < 18446744073709551616 ->
  src_varintEliasGammaBits fuel (Z.of_N x) = COk (Z.of_nat (length (gamma_code x))) /\
  src_varintEliasGammaBits fuel (Z.of_N x) = COk (Z.of_N (2 * N.log2 x + 1)).
Proof.
  intros fuel x Hf Hx. destruct (gamma_bits_len x Hx) as (A & B).
  rewrite src_varintEliasGammaBits_is_model by lia. rewrite N2Z.id.
  split; f_equal; lia.
Qed.

(* floorLog2 is floor(log2 x) *)
Theorem src_floor_log2 : forall fuel x, (64 <= fuel)%nat -> 1 <= x < 18446744073709551616 ->
  src_floorLog2 fuel (Z.of_N x) = COk (Z.of_N (N.log2 x)) /\ 2 ^ N.log2 x <= x < 2 ^ (N.log2 x + 1).
Proof.
  intros fuel x Hf Hx. rewrite src_floorLog2_is_model by lia. rewrite N2Z.id.
  rewrite floor_log2_spec by lia. split; [reflexivity|].
  pose proof (N.log2_spec x ltac:(lia)) as S. rewrite N.add_1_r. exact S.
Qed.
