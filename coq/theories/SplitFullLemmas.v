(* SplitFullLemmas.v — generic helper lemmas used by the SplitFull proofs
   (bit masks as div/mod, byte-wise facts by exhaustive check, list
   indexing, ext_width versus powers of 256).  Nothing here mentions the
   SplitFull model. *)
Require Import VV.Base VV.BaseProofs.
From Coq Require Import Lia ZifyBool ZifyN ZifyNat Arith.
Local Open Scope N_scope.
Ltac Zify.zify_post_hook ::= Z.div_mod_to_equations.

Ltac sfl_kill_ifs :=
  repeat match goal with
  | |- context [if ?b then _ else _] =>
      let E := fresh "E" in destruct b eqn:E; try (exfalso; lia)
  end.

(* ---- masks ---- *)
Lemma sfl_land255 a : N.land a 255 = a mod 256.
Proof. change 255 with (N.ones 8). rewrite N.land_ones. reflexivity. Qed.
Lemma sfl_land63 a : N.land a 63 = a mod 64.
Proof. change 63 with (N.ones 6). rewrite N.land_ones. reflexivity. Qed.
Lemma sfl_land15 a : N.land a 15 = a mod 16.
Proof. change 15 with (N.ones 4). rewrite N.land_ones. reflexivity. Qed.

(* a property of bytes checked on all 256 of them *)
Lemma sfl_forall_byte (P : N -> bool) :
  forallb P (map N.of_nat (seq 0 256)) = true -> forall b, b < 256 -> P b = true.
Proof.
  intros H b Hb. rewrite forallb_forall in H. apply H.
  apply in_map_iff. exists (N.to_nat b). split; [lia|]. apply in_seq. lia.
Qed.

Lemma sfl_land192 b : b < 256 -> N.land b 192 = 64 * (b / 64).
Proof.
  intro Hb.
  pose proof (sfl_forall_byte (fun b => N.land b 192 =? 64 * (b / 64))) as H.
  specialize (H ltac:(vm_compute; reflexivity) b Hb). cbv beta in H. lia.
Qed.

Lemma sfl_lor_tag k b : b < 64 -> N.lor (k * 64) b = k * 64 + b.
Proof. intro H. change 64 with (2 ^ 6). apply lor_add_disjoint. exact H. Qed.
Lemma sfl_lor64 b : b < 64 -> N.lor 64 b = 64 + b.
Proof. intro H. apply (sfl_lor_tag 1 b H). Qed.
Lemma sfl_lor128 b : b < 64 -> N.lor 128 b = 128 + b.
Proof. intro H. apply (sfl_lor_tag 2 b H). Qed.
Lemma sfl_lor192 b : b < 64 -> N.lor 192 b = 192 + b.
Proof. intro H. apply (sfl_lor_tag 3 b H). Qed.

(* ---- shifts and ors of bytes ---- *)
Lemma sfl_shl64_small b k : b * 2 ^ k < 18446744073709551616 -> shl64 b k = b * 2 ^ k.
Proof. intro H. unfold shl64. apply N.mod_small. exact H. Qed.
Lemma sfl_shl32_small b k : b * 2 ^ k < 4294967296 -> shl32 b k = b * 2 ^ k.
Proof. intro H. unfold shl32. apply N.mod_small. exact H. Qed.

Lemma sfl_or2 a b : a < 256 -> b < 256 -> N.lor (shl64 a 8) b = a * 256 + b.
Proof.
  intros. rewrite sfl_shl64_small by lia.
  rewrite (lor_add_disjoint a b 8) by lia. lia.
Qed.
Lemma sfl_mul_pow_mod0 a j k : k <= j -> (a * 2 ^ j) mod 2 ^ k = 0.
Proof.
  intro H. replace j with ((j - k) + k) by lia. rewrite N.pow_add_r, N.mul_assoc.
  apply N.mod_mul. apply N.pow_nonzero. lia.
Qed.
Lemma sfl_or3 a b c : a < 256 -> b < 256 -> c < 256 ->
  N.lor (N.lor (shl64 a 16) (shl64 b 8)) c = a * 65536 + b * 256 + c.
Proof.
  intros. rewrite !sfl_shl64_small by lia.
  rewrite (lor_add_mod0 (a * 2 ^ 16) (b * 2 ^ 8) 16) by (try apply sfl_mul_pow_mod0; lia).
  rewrite (lor_add_mod0 _ c 8) by lia. lia.
Qed.
Lemma sfl_or2_32 a b : a < 256 -> b < 256 -> N.lor (shl32 a 8) b = a * 256 + b.
Proof.
  intros. rewrite sfl_shl32_small by lia.
  rewrite (lor_add_disjoint a b 8) by lia. lia.
Qed.
Lemma sfl_or3_32 a b c : a < 256 -> b < 256 -> c < 256 ->
  N.lor (N.lor (shl32 a 16) (shl32 b 8)) c = a * 65536 + b * 256 + c.
Proof.
  intros. rewrite !sfl_shl32_small by lia.
  rewrite (lor_add_mod0 (a * 2 ^ 16) (b * 2 ^ 8) 16) by (try apply sfl_mul_pow_mod0; lia).
  rewrite (lor_add_mod0 _ c 8) by lia. lia.
Qed.

(* ---- le_bytes / be_bytes of small widths ---- *)
Lemma sfl_le_bytes_1 x : le_bytes 1 x = [x mod 256].
Proof. reflexivity. Qed.
Lemma sfl_le_bytes_2 x : le_bytes 2 x = [x mod 256; (x / 256) mod 256].
Proof. reflexivity. Qed.
Lemma sfl_le_bytes_3 x : le_bytes 3 x = [x mod 256; (x / 256) mod 256; (x / 65536) mod 256].
Proof.
  cbn [le_bytes]. rewrite N.div_div by lia. reflexivity.
Qed.
Lemma sfl_be_bytes_1 x : be_bytes 1 x = [x mod 256].
Proof. reflexivity. Qed.
Lemma sfl_be_bytes_2 x : be_bytes 2 x = [(x / 256) mod 256; x mod 256].
Proof. reflexivity. Qed.
Lemma sfl_be_bytes_3 x : be_bytes 3 x = [(x / 65536) mod 256; (x / 256) mod 256; x mod 256].
Proof. unfold be_bytes. rewrite sfl_le_bytes_3. reflexivity. Qed.

Lemma sfl_nth_le_bytes_lt k x i : nth i (le_bytes k x) 0 < 256.
Proof.
  pose proof (bytes_ok_le_bytes k x) as H. apply (byte_at_lt _ i H).
Qed.

(* ---- list indexing ---- *)
Lemma sfl_map_nth_seq (l : list N) d :
  map (fun i => nth i l d) (seq 0 (length l)) = l.
Proof.
  induction l as [|a l IH]; [reflexivity|].
  cbn [length seq map nth]. f_equal.
  rewrite <- seq_shift, map_map. cbn [nth]. exact IH.
Qed.

Lemma sfl_map_rd (rd : nat -> N) (l : list N) :
  (forall i, (i < length l)%nat -> rd i = nth i l 0) ->
  map rd (seq 0 (length l)) = l.
Proof.
  intro H. rewrite <- (sfl_map_nth_seq l 0) at 2.
  apply map_ext_in. intros i Hi. apply in_seq in Hi. apply H. lia.
Qed.

(* ---- ext_width against powers of 256 ---- *)
Lemma sfl_ext_width_le v k : v < 18446744073709551616 -> (1 <= k)%nat ->
  ((ext_width v <= k)%nat <-> v < 256 ^ N.of_nat k).
Proof.
  intros Hv Hk. destruct (ext_width_bounds v Hv) as (A & B & C).
  set (w := ext_width v) in *. split; intro H.
  - pose proof (pow256_mono w k H). lia.
  - destruct (Nat.le_gt_cases w k) as [L|G]; [exact L|exfalso].
    destruct C as [C|C]; [lia|].
    pose proof (pow256_mono k (w - 1) ltac:(lia)). lia.
Qed.

(* the external width after the never-shrink rule: max 2 (ext_width v) *)
Definition sfl_kw (v : N) : nat := Nat.max 2 (ext_width v).

Lemma sfl_kw_facts v : v < 18446744073709551616 ->
  (2 <= sfl_kw v <= 8)%nat /\ v < 256 ^ N.of_nat (sfl_kw v) /\
  (sfl_kw v = 2%nat \/ 256 ^ N.of_nat (sfl_kw v - 1) <= v).
Proof.
  intro Hv. destruct (ext_width_bounds v Hv) as (A & B & C).
  unfold sfl_kw. set (w := ext_width v) in *.
  destruct (Nat.le_gt_cases w 2) as [L|G].
  - rewrite Nat.max_l by lia. split; [lia|]. split; [|left; reflexivity].
    pose proof (pow256_mono w 2 L). lia.
  - rewrite Nat.max_r by lia. split; [lia|]. split; [exact B|].
    destruct C as [C|C]; [lia|]. right. exact C.
Qed.

Lemma sfl_kw_le v k : v < 18446744073709551616 -> (2 <= k)%nat ->
  ((sfl_kw v <= k)%nat <-> v < 256 ^ N.of_nat k).
Proof.
  intros Hv Hk. unfold sfl_kw. rewrite <- (sfl_ext_width_le v k Hv) by lia. lia.
Qed.

Ltac sfl_norm_pow :=
  repeat match goal with
  | |- context [256 ^ N.of_nat ?k] =>
      let v := eval vm_compute in (256 ^ N.of_nat k) in change (256 ^ N.of_nat k) with v
  | H : context [256 ^ N.of_nat ?k] |- _ =>
      let v := eval vm_compute in (256 ^ N.of_nat k) in change (256 ^ N.of_nat k) with v in H
  end.

(* ---- writing bs at offset off touches nothing else ---- *)
Lemma sfl_store_frame (buf : list N) off bs : (off + length bs <= length buf)%nat ->
  length (store buf off bs) = length buf /\
  firstn off (store buf off bs) = firstn off buf /\
  skipn (off + length bs) (store buf off bs) = skipn (off + length bs) buf /\
  firstn (length bs) (skipn off (store buf off bs)) = bs.
Proof.
  intro H. unfold store.
  assert (L1 : length (firstn off buf) = off) by (apply firstn_length_le; lia).
  repeat split.
  - rewrite !app_length, L1, skipn_length. lia.
  - rewrite <- L1 at 1. rewrite firstn_app, Nat.sub_diag, firstn_all. cbn [firstn].
    rewrite app_nil_r. reflexivity.
  - assert (L2 : length (firstn off buf ++ bs) = (off + length bs)%nat)
      by (rewrite app_length, L1; reflexivity).
    rewrite app_assoc. set (A := firstn off buf ++ bs) in *.
    set (S := skipn (off + length bs) buf). rewrite <- L2.
    rewrite skipn_app, Nat.sub_diag, skipn_all. reflexivity.
  - rewrite <- L1 at 1. rewrite skipn_app, Nat.sub_diag, skipn_all. cbn [skipn app].
    rewrite firstn_app, Nat.sub_diag, firstn_all. cbn [firstn]. apply app_nil_r.
Qed.
