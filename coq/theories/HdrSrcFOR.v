(* HdrSrcFOR.v — the header accessors of src/varintFOR.c as gen/c2coq.py regenerates
   them from the CURRENT source (coq/gen/Src_hdr_for.v, registered in gen/c2coq_hdr.py;
   they call the regenerated varintTaggedGet64 of coq/gen/Src_tagged.v):

     varintFORGetMinValue   varintFORGetCount   varintFORGetOffsetWidth   varintFORReadMetadata

   Each computes what the hand model (FOR.v) computes, for EVERY byte list that
   holds the bytes the C reads — the length precondition is exactly that: the
   leading tagged varint is complete (its length is decoded from its first byte,
   1..9 bytes), and so is what the function reads after it.  Then the C16 statements
   (FORProofs.for_header_truth) are restated about the regenerated functions.

   A C source that finds the count without decoding the length of the minimum
   (e.g. with a length macro applied to the first byte) does not satisfy
   src_varintFORGetCount_is_model: the lemma stops compiling. *)
Require Import VV.Base VV.BaseProofs VV.Tagged VV.TaggedProofs VV.TaggedSpecProofs VV.Delta VV.DfgLemmas VV.FOR VV.FORProofs.
Require Import VV.CSem VV.CSemProofs VV.TaggedSrcGet VV.TaggedSrcAdd VV.TaggedSrcPropsPut VV.RleSrcProofs.
Require Import VVgen.Src_tagged VVgen.Src_hdr_for.
From Coq Require Import Lia ZifyBool ZifyN ZifyNat.
Local Open Scope Z_scope.
Ltac Zify.zify_post_hook ::= Z.div_mod_to_equations.

(* ---------- what "long enough" means ---------- *)

(* the tagged varint at the head of z is inside z *)
Definition hdr_varint_in (z : list N) : Prop := Z.of_N (tagged_getlen z) <= Z.of_nat (length z).
(* ... and so is the byte after it (the offset width of a FOR header) *)
Definition for_hdr_width_in (z : list N) : Prop := Z.of_N (tagged_getlen z) + 1 <= Z.of_nat (length z).
(* ... and so is the tagged varint after that byte (the count of a FOR header) *)
Definition for_hdr_count_in (z : list N) : Prop :=
  Z.of_N (tagged_getlen z) + 1 + Z.of_N (tagged_getlen (skipn (N.to_nat (tagged_getlen z + 1)) z))
  <= Z.of_nat (length z).

Lemma tagged_getlen_range z : bytes_ok z -> (1 <= tagged_getlen z <= 9)%N.
Proof.
  intro Hz. pose proof (bytes_ok_nth z 0 Hz) as Hb. unfold tagged_getlen; cbv zeta; kill_ifs; lia.
Qed.

Lemma for_hdr_count_in_width z : bytes_ok z -> for_hdr_count_in z -> for_hdr_width_in z.
Proof.
  intros Hz H. unfold for_hdr_count_in, for_hdr_width_in in *.
  pose proof (tagged_getlen_range _ (bytes_ok_skipn (N.to_nat (tagged_getlen z + 1)) z Hz)). lia.
Qed.
Lemma for_hdr_width_in_varint z : for_hdr_width_in z -> hdr_varint_in z.
Proof. unfold for_hdr_width_in, hdr_varint_in. lia. Qed.

(* any 19 bytes suffice (9 + 1 + 9); any 10 for the width; any 9 for the minimum *)
Lemma hdr_varint_in_9 z : bytes_ok z -> (9 <= length z)%nat -> hdr_varint_in z.
Proof. intros Hz L. pose proof (tagged_getlen_range z Hz). unfold hdr_varint_in. lia. Qed.
Lemma for_hdr_width_in_10 z : bytes_ok z -> (10 <= length z)%nat -> for_hdr_width_in z.
Proof. intros Hz L. pose proof (tagged_getlen_range z Hz). unfold for_hdr_width_in. lia. Qed.
Lemma for_hdr_count_in_19 z : bytes_ok z -> (19 <= length z)%nat -> for_hdr_count_in z.
Proof.
  intros Hz L. pose proof (tagged_getlen_range z Hz).
  pose proof (tagged_getlen_range _ (bytes_ok_skipn (N.to_nat (tagged_getlen z + 1)) z Hz)).
  unfold for_hdr_count_in. lia.
Qed.

(* ---------- the accessors equal the hand model ---------- *)

Lemma src_varintFORGetMinValue_is_model : forall z, bytes_ok z -> hdr_varint_in z ->
  src_varintFORGetMinValue z = COk (Z.of_N (for_get_min_value z)).
Proof.
  intros z Hz H1. destruct (get64_complete z Hz H1) as (E1 & F1 & G1).
  unfold src_varintFORGetMinValue, for_get_min_value. c_unfold. c_simp. rewrite E1. c_simp.
  repeat c_step. c_simp. reflexivity.
Qed.

Lemma src_varintFORGetOffsetWidth_is_model : forall z, bytes_ok z -> for_hdr_width_in z ->
  src_varintFORGetOffsetWidth z = COk (Z.of_N (for_get_offset_width z)).
Proof.
  intros z Hz H1. destruct (get64_complete z Hz (for_hdr_width_in_varint z H1)) as (E1 & F1 & G1).
  unfold for_hdr_width_in in H1.
  pose proof (bytes_ok_nth z (N.to_nat (tagged_getlen z)) Hz) as Hb.
  unfold src_varintFORGetOffsetWidth, for_get_offset_width. c_unfold. c_simp. rewrite E1. c_simp. rewrite F1.
  repeat c_step. c_simp.
  replace (Z.to_nat (Z.of_N (tagged_getlen z))) with (N.to_nat (tagged_getlen z)) by lia. reflexivity.
Qed.

Lemma src_varintFORGetCount_is_model : forall z, bytes_ok z -> for_hdr_count_in z ->
  src_varintFORGetCount z = COk (Z.of_N (for_get_count z)).
Proof.
  intros z Hz H2.
  pose proof (for_hdr_width_in_varint z (for_hdr_count_in_width z Hz H2)) as H1.
  destruct (get64_complete z Hz H1) as (E1 & F1 & G1).
  unfold for_hdr_count_in in H2.
  set (z2 := skipn (N.to_nat (tagged_getlen z + 1)) z) in *.
  assert (Hz2 : bytes_ok z2) by (apply bytes_ok_skipn; exact Hz).
  pose proof (tagged_getlen_range z2 Hz2) as G2'.
  assert (L2 : Z.of_nat (length z2) = Z.of_nat (length z) - (Z.of_N (tagged_getlen z) + 1))
    by (unfold z2; rewrite skipn_length; lia).
  destruct (get64_complete z2 Hz2 ltac:(lia)) as (E2 & F2 & G2).
  unfold src_varintFORGetCount, for_get_count. cbv zeta. rewrite F1. fold z2. c_unfold. c_simp.
  rewrite E1. c_simp. rewrite F1. repeat c_step. c_simp.
  replace (Z.to_nat (Z.of_N (tagged_getlen z) + 1)) with (N.to_nat (tagged_getlen z + 1)) by lia. fold z2.
  rewrite E2. c_simp. repeat c_step. c_simp. reflexivity.
Qed.

(* varintFORReadMetadata(src, meta), meta != NULL: every field of *meta is assigned (whatever it held: [old]),
   with the values of the model's record *)
Definition for_meta_cells (m : for_meta) : option (option Z * option Z * option Z * option Z * option Z * option Z) :=
  Some (Some (Z.of_N (fm_min m)), Some (Z.of_N (fm_max m)), Some (Z.of_N (fm_range m)),
        Some (Z.of_N (fm_count m)), Some (Z.of_N (fm_size m)), Some (Z.of_N (fm_width m))).

Lemma nth_skipn_add {A} k i (l : list A) d : nth i (skipn k l) d = nth (k + i) l d.
Proof. revert l. induction k as [|k IH]; intros [|h t]; try reflexivity; [destruct i; reflexivity|apply (IH t)]. Qed.
Lemma skipn_S_tl {A} k (l : list A) : skipn (S k) l = tl (skipn k l).
Proof. revert l. induction k as [|k IH]; intros [|h t]; try reflexivity. apply (IH t). Qed.

Lemma src_varintFORReadMetadata_is_model : forall z old, bytes_ok z -> for_hdr_count_in z ->
  src_varintFORReadMetadata z (Some old) = COk (for_meta_cells (for_read_metadata z)).
Proof.
  intros z old Hz H2. destruct old as [[[[[o1 o2] o3] o4] o5] o6].
  pose proof (for_hdr_count_in_width z Hz H2) as Hw.
  pose proof (for_hdr_width_in_varint z Hw) as H1.
  destruct (get64_complete z Hz H1) as (E1 & F1 & G1).
  unfold for_hdr_count_in in H2. unfold for_hdr_width_in in Hw.
  pose proof (bytes_ok_nth z (N.to_nat (tagged_getlen z)) Hz) as Hb.
  set (z2 := skipn (N.to_nat (tagged_getlen z + 1)) z) in *.
  assert (Hz2 : bytes_ok z2) by (apply bytes_ok_skipn; exact Hz).
  assert (L2 : Z.of_nat (length z2) = Z.of_nat (length z) - (Z.of_N (tagged_getlen z) + 1))
    by (unfold z2; rewrite skipn_length; lia).
  destruct (get64_complete z2 Hz2 ltac:(lia)) as (E2 & F2 & G2).
  assert (V2 : (snd (tagged_get64 z2) < 18446744073709551616)%N).
  { unfold tagged_get64. apply tagged_get_val_lt. exact Hz2. }
  unfold src_varintFORReadMetadata, for_read_metadata, for_meta_cells. cbv zeta.
  cbn [fm_min fm_max fm_range fm_count fm_size fm_width].
  rewrite F1.
  replace (tl (skipn (N.to_nat (tagged_getlen z)) z)) with z2
    by (unfold z2; rewrite <- skipn_S_tl; f_equal; lia).
  replace (byte_at (skipn (N.to_nat (tagged_getlen z)) z) 0) with (byte_at z (N.to_nat (tagged_getlen z)))
    by (unfold byte_at; rewrite nth_skipn_add; f_equal; lia).
  c_unfold. repeat c_step. c_simp. cbn [skipn]. rewrite E1. c_simp. rewrite F1. repeat c_step. c_simp.
  replace (Z.to_nat (0 + Z.of_N (tagged_getlen z) + 1)) with (N.to_nat (tagged_getlen z + 1)) by lia. fold z2.
  rewrite E2. c_simp. rewrite F2. repeat c_step. c_simp.
  replace (Z.to_nat (0 + Z.of_N (tagged_getlen z))) with (N.to_nat (tagged_getlen z)) by lia.
  do 6 f_equal. unfold u64, mul64. lia.
Qed.

(* meta == NULL: the stores through meta are undefined (the debug build asserts meta != NULL) *)
Lemma src_varintFORReadMetadata_null : forall z, bytes_ok z -> for_hdr_count_in z ->
  src_varintFORReadMetadata z None = CUB UB_null_deref.
Proof.
  intros z Hz H2.
  pose proof (for_hdr_count_in_width z Hz H2) as Hw.
  pose proof (for_hdr_width_in_varint z Hw) as H1.
  destruct (get64_complete z Hz H1) as (E1 & F1 & G1).
  unfold for_hdr_count_in in H2. unfold for_hdr_width_in in Hw.
  pose proof (bytes_ok_nth z (N.to_nat (tagged_getlen z)) Hz) as Hb.
  set (z2 := skipn (N.to_nat (tagged_getlen z + 1)) z) in *.
  assert (Hz2 : bytes_ok z2) by (apply bytes_ok_skipn; exact Hz).
  assert (L2 : Z.of_nat (length z2) = Z.of_nat (length z) - (Z.of_N (tagged_getlen z) + 1))
    by (unfold z2; rewrite skipn_length; lia).
  destruct (get64_complete z2 Hz2 ltac:(lia)) as (E2 & F2 & G2).
  unfold src_varintFORReadMetadata. c_unfold. repeat c_step. c_simp. cbn [skipn]. rewrite E1. c_simp. rewrite F1. repeat c_step. c_simp.
  replace (Z.to_nat (0 + Z.of_N (tagged_getlen z) + 1)) with (N.to_nat (tagged_getlen z + 1)) by lia. fold z2.
  rewrite E2. c_simp. reflexivity.
Qed.

(* ---------- property C16 about the regenerated accessors ---------- *)

(* the bytes the encoder writes are bytes, and hold the whole header *)
Lemma bytes_ok_for_flat minv w vs : bytes_ok (for_flat minv w vs).
Proof.
  unfold for_flat. induction vs as [|v t IH]; cbn [flat_map]; [constructor|].
  apply bytes_ok_app; [apply bytes_ok_le_bytes|exact IH].
Qed.

Lemma bytes_ok_for_bytes m xs : bytes_ok (for_bytes m xs).
Proof.
  unfold for_bytes. repeat apply bytes_ok_app; try apply bytes_ok_tagged_put64; try apply bytes_ok_for_flat.
  constructor; [unfold u8; lia|constructor].
Qed.

Lemma for_hdr_count_in_bytes mn w cnt rest :
  (mn < 18446744073709551616)%N -> (cnt < 18446744073709551616)%N ->
  for_hdr_count_in (tagged_put64 mn ++ [w] ++ tagged_put64 cnt ++ rest).
Proof.
  intros Hm Hc. unfold for_hdr_count_in. rewrite tagged_getlen_put by exact Hm.
  replace (N.to_nat (tagged_len mn + 1)) with (N.to_nat (tagged_len mn) + 1)%nat by lia.
  rewrite skipn_add, skipn_app_exact by apply tagged_put_len_nat.
  cbn [app skipn]. rewrite tagged_getlen_put by exact Hc.
  rewrite app_length. cbn [length]. rewrite app_length, !tagged_put_len_nat. lia.
Qed.

(* the model's accessors agree with the model's varintFORReadMetadata (used by the decoder) *)
Lemma for_get_count_read_metadata z : for_get_count z = fm_count (for_read_metadata z).
Proof.
  unfold for_get_count, for_read_metadata. cbv zeta. cbn [fm_count]. do 2 f_equal.
  replace (N.to_nat (fst (tagged_get64 z) + 1)) with (S (N.to_nat (fst (tagged_get64 z)))) by lia.
  apply skipn_S_tl.
Qed.
Lemma for_get_offset_width_read_metadata z : for_get_offset_width z = fm_width (for_read_metadata z).
Proof.
  unfold for_get_offset_width, for_read_metadata. cbv zeta. cbn [fm_width].
  unfold byte_at. rewrite nth_skipn_add. f_equal. lia.
Qed.
Lemma for_get_min_value_read_metadata z : for_get_min_value z = fm_min (for_read_metadata z).
Proof. reflexivity. Qed.

(* C16 for_header_truth about the regenerated accessors: on the bytes varintFOREncode produced, followed by
   any bytes, they return the real minimum, count and width, and ReadMetadata fills *meta with them and
   with the number of bytes written *)
Theorem src_for_header_truth : forall xs meta post old,
  xs <> [] -> Forall (fun x => (x < 18446744073709551616)%N) xs ->
  (N.of_nat (length xs) < 1152921504606846976)%N ->
  (meta = None \/ exists m0, meta = Some m0 /\
     (fm_count m0 <> N.of_nat (length xs) \/ for_analyze xs = Some m0)) ->
  bytes_ok post ->
  exists enc meta' m, for_encode xs meta = Some (enc, meta') /\ for_analyze xs = Some m /\
    src_varintFORGetMinValue (enc ++ post) = COk (Z.of_N (fm_min m)) /\
    src_varintFORGetCount (enc ++ post) = COk (Z.of_nat (length xs)) /\
    src_varintFORGetOffsetWidth (enc ++ post) = COk (Z.of_N (fm_width m)) /\
    src_varintFORReadMetadata (enc ++ post) (Some old) =
      COk (Some (Some (Z.of_N (fm_min m)), Some (Z.of_N (fm_min m)), Some 0, Some (Z.of_nat (length xs)),
                 Some (Z.of_nat (length enc)), Some (Z.of_N (fm_width m)))).
Proof.
  intros xs meta post old Hne Hall Hn Hacc Hpost.
  destruct (for_header_truth xs meta post Hne Hall Hn Hacc) as (enc & meta' & m & He & Ha & T).
  cbv zeta in T. destruct T as (T1 & T2 & T3 & T4 & T5 & T6 & T7).
  destruct (for_encode_accepted xs meta Hne Hall Hacc) as (m2 & Ha2 & He2).
  rewrite Ha in Ha2. injection Ha2 as <-. rewrite He in He2. injection He2 as Eenc _.
  pose proof (for_analyze_fits xs m Hall Ha) as F. destruct F as (Hm & Hc & _ & _).
  assert (OK : bytes_ok (enc ++ post)) by (rewrite Eenc; apply bytes_ok_app; [apply bytes_ok_for_bytes|exact Hpost]).
  assert (IN : for_hdr_count_in (enc ++ post)).
  { rewrite Eenc, for_bytes_app. apply for_hdr_count_in_bytes; [exact Hm|]. rewrite Hc. lia. }
  pose proof (for_hdr_count_in_width _ OK IN) as INw. pose proof (for_hdr_width_in_varint _ INw) as INv.
  exists enc, meta', m. split; [exact He|]. split; [exact Ha|].
  rewrite src_varintFORGetMinValue_is_model, src_varintFORGetCount_is_model, src_varintFORGetOffsetWidth_is_model,
    src_varintFORReadMetadata_is_model by assumption.
  unfold for_meta_cells.
  change (fm_max (for_read_metadata (enc ++ post))) with (fm_min (for_read_metadata (enc ++ post))).
  change (fm_range (for_read_metadata (enc ++ post))) with 0%N.
  rewrite T1, T2, T3, T4, T5, T6, T7. rewrite !nat_N_Z. repeat split; reflexivity.
Qed.

(* the width and count the accessors report are those varintFORDecode works with (it reads them with
   varintFORReadMetadata), on any buffer that holds a whole header *)
Theorem src_for_accessors_are_decoders : forall z, bytes_ok z -> for_hdr_count_in z ->
  src_varintFORGetMinValue z = COk (Z.of_N (fm_min (for_read_metadata z))) /\
  src_varintFORGetCount z = COk (Z.of_N (fm_count (for_read_metadata z))) /\
  src_varintFORGetOffsetWidth z = COk (Z.of_N (fm_width (for_read_metadata z))).
Proof.
  intros z Hz IN.
  pose proof (for_hdr_count_in_width _ Hz IN) as INw. pose proof (for_hdr_width_in_varint _ INw) as INv.
  rewrite src_varintFORGetMinValue_is_model, src_varintFORGetCount_is_model, src_varintFORGetOffsetWidth_is_model
    by assumption.
  rewrite for_get_count_read_metadata, for_get_offset_width_read_metadata. repeat split; reflexivity.
Qed.

(* C16 for_count_is_decoded about the regenerated accessor: the count it reports is the number of elements
   decoding yields (when the caller's capacity admits the decode at all) *)
Theorem src_for_count_is_decoded : forall z cap r out, bytes_ok z -> for_hdr_count_in z ->
  for_decode z cap = Some (r, out) -> (fm_count (for_read_metadata z) <= cap)%N ->
  src_varintFORGetCount z = COk (Z.of_nat (length out)) /\ r = N.of_nat (length out).
Proof.
  intros z cap r out Hz IN D Hcap.
  destruct (for_decode_cap z cap r out D) as [_ R].
  rewrite src_varintFORGetCount_is_model, for_get_count_read_metadata by assumption.
  split; [|exact R]. f_equal.
  unfold for_decode in D. cbv zeta in D. set (c := fm_count (for_read_metadata z)) in *.
  destruct (cap <? c)%N eqn:E; [lia|].
  destruct (for_get_offsets _ _ _ _); [|discriminate]. injection D as D1 D2. subst out. lia.
Qed.
