(* BitmapProofsSer.v — varintBitmapEncode / varintBitmapDecode: round trip
   (C08) and the decoder on arbitrary bytes (C14: reads only below the declared
   length, bounded allocation, a result satisfies the invariant). *)
Require Import VV.Base VV.BaseProofs VV.Bitmap VV.BitmapLemmas VV.BitmapProofsBits VV.BitmapProofsArr
  VV.BitmapProofsRuns VV.BitmapProofs.
From Coq Require Import Lia ZifyBool ZifyN ZifyNat Sorted Arith.
Local Open Scope N_scope.
Ltac Zify.zify_post_hook ::= Z.div_mod_to_equations.

(* ---- reading ---- *)
Lemma rd_spec z off cnt :
  bm_rd z off cnt = firstn (N.to_nat cnt) (skipn (N.to_nat off) z)
                    ++ repeat 0 (N.to_nat cnt - length (firstn (N.to_nat cnt) (skipn (N.to_nat off) z))).
Proof.
  unfold bm_rd. rewrite firstnN_spec, skipnN_spec, replN_spec. f_equal. f_equal. unfold bm_lenN. lia.
Qed.

Lemma rd_length z off cnt : length (bm_rd z off cnt) = N.to_nat cnt.
Proof.
  rewrite rd_spec, app_length, repeat_length.
  pose proof (firstn_le_length (N.to_nat cnt) (skipn (N.to_nat off) z)). lia.
Qed.

Lemma rd_app a b c : bm_rd (a ++ b ++ c) (bm_lenN a) (bm_lenN b) = b.
Proof.
  rewrite rd_spec. unfold bm_lenN. rewrite !Nat2N.id.
  rewrite skipn_app, skipn_all, Nat.sub_diag. cbn [app skipn].
  rewrite firstn_app, firstn_all, Nat.sub_diag. cbn [firstn]. rewrite app_nil_r, Nat.sub_diag. cbn [repeat]. apply app_nil_r.
Qed.

Lemma rd_nonint z z' off cnt k : (N.to_nat off + N.to_nat cnt <= k)%nat ->
  firstn k z = firstn k z' -> bm_rd z off cnt = bm_rd z' off cnt.
Proof.
  intros Hk H. rewrite !rd_spec.
  assert (E : firstn (N.to_nat cnt) (skipn (N.to_nat off) z) = firstn (N.to_nat cnt) (skipn (N.to_nat off) z')).
  { rewrite !firstn_skipn_comm.
    assert (F : firstn (N.to_nat off + N.to_nat cnt) z = firstn (N.to_nat off + N.to_nat cnt) z').
    { rewrite <- (Nat.min_l _ _ Hk), <- !firstn_firstn, H. reflexivity. }
    rewrite F. reflexivity. }
  rewrite E. reflexivity.
Qed.

Lemma Forall_firstn' {A} (P : A -> Prop) n l : Forall P l -> Forall P (firstn n l).
Proof.
  revert l. induction n as [|n IH]; intros l H; [constructor|].
  destruct l as [|x l]; [constructor|]. inversion H; subst. cbn [firstn]. constructor; [assumption|apply IH; assumption].
Qed.
Lemma Forall_skipn' {A} (P : A -> Prop) n l : Forall P l -> Forall P (skipn n l).
Proof.
  revert l. induction n as [|n IH]; intros l H; [exact H|].
  destruct l as [|x l]; [constructor|]. inversion H; subst. cbn [skipn]. apply IH; assumption.
Qed.

Lemma bytes_ok_rd z off cnt : bytes_ok z -> bytes_ok (bm_rd z off cnt).
Proof.
  intro H. rewrite rd_spec. apply bytes_ok_app.
  - apply Forall_firstn', Forall_skipn'. exact H.
  - unfold bytes_ok. apply Forall_forall. intros x Hx. apply repeat_spec in Hx. subst. lia.
Qed.

(* ---- 16-bit little-endian fields ---- *)
Lemma le2 x : x < 65536 -> le_bytes 2 x = [x mod 256; x / 256].
Proof. intro H. cbn [le_bytes]. f_equal. f_equal. lia. Qed.

Lemma dec_enc_u16s l : (forall x, In x l -> x < 65536) -> bm_dec_u16s (bm_enc_u16s l) = l.
Proof.
  induction l as [|x l IH]; intro H; [reflexivity|].
  unfold bm_enc_u16s. cbn [flat_map]. rewrite le2 by (apply H; left; reflexivity). cbn [app bm_dec_u16s].
  fold (bm_enc_u16s l). rewrite IH by (intros y Hy; apply H; right; exact Hy). f_equal. lia.
Qed.

Lemma length_enc_u16s l : bm_lenN (bm_enc_u16s l) = 2 * bm_lenN l.
Proof.
  induction l as [|x l IH]; [reflexivity|]. unfold bm_enc_u16s in *. cbn [flat_map]. rewrite lenN_app, IH, lenN_cons.
  unfold bm_lenN. rewrite length_le_bytes. lia.
Qed.

Lemma dec_enc_runs l : (forall r, In r l -> fst r < 65536 /\ snd r < 65536) -> bm_dec_runs (bm_enc_runs l) = l.
Proof.
  induction l as [|[a b] l IH]; intro H; [reflexivity|].
  destruct (H (a, b) (or_introl eq_refl)) as [Ha Hb]. cbn [fst snd] in *.
  unfold bm_enc_runs. cbn [flat_map fst snd]. rewrite !le2 by assumption. cbn [app bm_dec_runs].
  fold (bm_enc_runs l). rewrite IH by (intros y Hy; apply H; right; exact Hy). f_equal. f_equal; lia.
Qed.

Lemma length_enc_runs l : bm_lenN (bm_enc_runs l) = 4 * bm_lenN l.
Proof.
  induction l as [|x l IH]; [reflexivity|]. unfold bm_enc_runs in *. cbn [flat_map]. rewrite !lenN_app, IH, lenN_cons.
  unfold bm_lenN. rewrite !length_le_bytes. lia.
Qed.

(* decoding arbitrary bytes *)
Lemma dec_u16s_props l : bytes_ok l ->
  forall k, length l = (2 * k)%nat -> length (bm_dec_u16s l) = k /\ forall x, In x (bm_dec_u16s l) -> x < 65536.
Proof.
  intro H. assert (G : forall k l, bytes_ok l -> length l = (2 * k)%nat ->
                      length (bm_dec_u16s l) = k /\ forall x, In x (bm_dec_u16s l) -> x < 65536).
  { clear. induction k as [|k IH]; intros l H E.
    - destruct l; [|cbn in E; lia]. split; [reflexivity|intros x []].
    - destruct l as [|a [|b l]]; try (cbn in E; lia). cbn [bm_dec_u16s].
      unfold bytes_ok in H. inversion H as [|? ? Ha H']; subst. inversion H' as [|? ? Hb H'']; subst.
      destruct (IH l H'') as [L B]; [cbn in E; lia|]. split; [cbn [length]; lia|].
      intros x [<-|Hx]; [lia|apply B; exact Hx]. }
  intros k E. apply G; assumption.
Qed.

Lemma dec_runs_props l : bytes_ok l ->
  forall k, length l = (4 * k)%nat ->
  length (bm_dec_runs l) = k /\ forall r, In r (bm_dec_runs l) -> fst r < 65536 /\ snd r < 65536.
Proof.
  intro H. assert (G : forall k l, bytes_ok l -> length l = (4 * k)%nat ->
                      length (bm_dec_runs l) = k /\ forall r, In r (bm_dec_runs l) -> fst r < 65536 /\ snd r < 65536).
  { clear. induction k as [|k IH]; intros l H E.
    - destruct l; [|cbn in E; lia]. split; [reflexivity|intros x []].
    - destruct l as [|a [|b [|c [|d l]]]]; try (cbn in E; lia). cbn [bm_dec_runs].
      unfold bytes_ok in H. inversion H as [|? ? Ha H1]; subst. inversion H1 as [|? ? Hb H2]; subst.
      inversion H2 as [|? ? Hc H3]; subst. inversion H3 as [|? ? Hd H4]; subst.
      destruct (IH l H4) as [L B]; [cbn in E; lia|]. split; [cbn [length]; lia|].
      intros x [<-|Hx]; [cbn [fst snd]; lia|apply B; exact Hx]. }
  intros k E. apply G; assumption.
Qed.

(* ---- the validation loops ---- *)
Lemma ascending_sorted l : bm_ascending l = true <-> sorted l.
Proof.
  induction l as [|a l IH]; [split; [constructor|reflexivity]|].
  destruct l as [|b t].
  - split; [intros _; apply sorted_single|reflexivity].
  - change (bm_ascending (a :: b :: t)) with ((a <? b) && bm_ascending (b :: t)). split.
    + intro H. apply andb_prop in H. destruct H as [H1 H2]. apply (proj1 IH) in H2.
      constructor; [exact H2|]. destruct (sorted_cons_inv _ _ H2) as [_ Hb].
      apply Forall_forall. intros y [<-|Hy]; [lia|specialize (Hb _ Hy); lia].
    + intro H. destruct (sorted_cons_inv _ _ H) as [H2 Ha]. apply andb_true_intro. split.
      * specialize (Ha b (or_introl eq_refl)). lia.
      * apply (proj2 IH). exact H2.
Qed.

Lemma check_runs_complete runs : forall lo total, runs_ok lo runs -> total <= lo -> lo <= 65536 ->
  bm_check_runs runs lo total = Some (total + runs_sum runs).
Proof.
  induction runs as [|[s l] t IH]; intros lo total H Ht Hlo; cbn [bm_check_runs runs_sum].
  - f_equal. lia.
  - destruct H as (A & B & C & D). cbn [fst snd] in *.
    destruct ((l =? 0) || (s <? lo) || (65536 <? s + l)) eqn:E; [lia|].
    rewrite u32_small by lia. rewrite IH by (assumption || lia). f_equal. lia.
Qed.

Lemma check_runs_sound runs : forall lo total t, total <= lo -> lo <= 65536 ->
  (forall r, In r runs -> snd r <= 65535) ->
  bm_check_runs runs lo total = Some t -> runs_ok lo runs /\ t = total + runs_sum runs.
Proof.
  induction runs as [|[s l] rest IH]; intros lo total t Ht Hlo Hb H; cbn [bm_check_runs runs_sum runs_ok] in *.
  - inversion H. split; [exact I|lia].
  - cbn [fst snd]. destruct ((l =? 0) || (s <? lo) || (65536 <? s + l)) eqn:E; [discriminate H|].
    rewrite u32_small in H by lia.
    assert (Hl : l <= 65535) by (apply (Hb (s, l)); left; reflexivity).
    destruct (IH (s + l) (total + l) t) as [R1 R2]; [lia|lia|intros r Hr; apply Hb; right; exact Hr|exact H|].
    split; [repeat split; try lia; exact R1|lia].
Qed.

Lemma runs_count_le lo runs : runs_ok lo runs -> bm_lenN runs <= runs_sum runs.
Proof.
  revert lo. induction runs as [|r t IH]; intros lo H; [unfold bm_lenN; cbn; lia|].
  destruct H as (A & B & C & D). cbn [runs_sum]. rewrite lenN_cons. specialize (IH _ D). lia.
Qed.

Lemma runs_fields lo runs r : runs_ok lo runs -> In r runs -> fst r < 65536 /\ snd r < 65536.
Proof.
  revert lo. induction runs as [|q t IH]; intros lo H Hin; [destruct Hin|].
  destruct H as (A & B & C & D). destruct Hin as [<-|Hin]; [lia|apply (IH _ D Hin)].
Qed.

(* ---- Decode (Encode s ++ anything) ---- *)
Lemma rd_app' a b c off cnt : off = bm_lenN a -> cnt = bm_lenN b -> bm_rd (a ++ b ++ c) off cnt = b.
Proof. intros -> ->. apply rd_app. Qed.

Lemma of_le_4 x : x < 4294967296 -> of_le (le_bytes 4 x) = x.
Proof. intro H. rewrite of_le_le_bytes. change (256 ^ N.of_nat 4) with 4294967296. apply N.mod_small. exact H. Qed.

Lemma lenN_le_bytes k x : bm_lenN (le_bytes k x) = N.of_nat k.
Proof. unfold bm_lenN. rewrite length_le_bytes. reflexivity. Qed.

Definition dec_ok (s : bm_state) (r : option bm_state * N) : Prop :=
  exists s', fst r = Some s' /\ bm_Inv s' /\ bm_abs s' = bm_abs s /\ bm_card s' = bm_card s.

Lemma decode_encode_array card R cap tl len :
  arr_ok card R cap -> 5 + 2 * card <= len ->
  dec_ok (mkBM card (BmArray R cap))
         (bm_decode ((0 :: le_bytes 4 card ++ bm_enc_u16s (rev R)) ++ tl) len).
Proof.
  intros (Hc & Hs & Hb & Hcap) Hlen.
  assert (Hle : bm_lenN R <= 65536).
  { pose proof (sorted_length_le (rev R) Hs) as H. rewrite lenN_rev in H. apply H. intros x Hx. apply Hb, in_rev. exact Hx. }
  set (pay := bm_enc_u16s (rev R)).
  set (z := (0 :: le_bytes 4 card ++ pay) ++ tl).
  assert (Hpay : bm_lenN pay = card * 2) by (unfold pay; rewrite length_enc_u16s, lenN_rev; lia).
  assert (E0 : bm_nthN z 0 = 0) by reflexivity.
  assert (E1 : bm_rd z 1 4 = le_bytes 4 card).
  { unfold z. change (0 :: le_bytes 4 card ++ pay) with ([0] ++ le_bytes 4 card ++ pay).
    rewrite <- !app_assoc. apply rd_app'; [reflexivity|rewrite lenN_le_bytes; reflexivity]. }
  assert (E5 : bm_rd z 5 (card * 2) = pay).
  { unfold z. replace ((0 :: le_bytes 4 card ++ pay) ++ tl) with ((0 :: le_bytes 4 card) ++ pay ++ tl)
      by (cbn [app]; rewrite <- app_assoc; reflexivity).
    apply rd_app'; [rewrite lenN_cons, lenN_le_bytes; reflexivity|symmetry; exact Hpay]. }
  unfold bm_decode. fold z. rewrite E0, E1, of_le_4 by lia. rewrite E5.
  destruct (len <? 5) eqn:C1; [lia|].
  destruct ((2 <? 0) || (65536 <? card)) eqn:C2; [lia|].
  change (0 =? 0) with true. cbv iota.
  destruct ((len - 5) / 2 <? card) eqn:C3; [lia|].
  unfold pay. rewrite dec_enc_u16s by (intros x Hx; apply Hb, in_rev; exact Hx).
  rewrite (proj2 (ascending_sorted (rev R)) Hs).
  eexists. split; [reflexivity|]. rewrite arr_of_values_rev, rev_involutive. split; [|split; reflexivity].
  unfold bm_Inv. cbn [bm_c bm_card]. repeat split; try assumption. lia.
Qed.

Lemma flat_map_ext_in' {A B} (f g : A -> list B) l : (forall a, In a l -> f a = g a) -> flat_map f l = flat_map g l.
Proof.
  induction l as [|x l IH]; intro H; [reflexivity|]. cbn [flat_map]. rewrite (H x (or_introl eq_refl)).
  rewrite IH by (intros a Ha; apply H; right; exact Ha). reflexivity.
Qed.

Lemma mget_agree_values m m' : (forall i, i < 8192 -> bm_mget m' i = bm_mget m i) ->
  bm_bits_values m' = bm_bits_values m /\ popsum m' = popsum m.
Proof.
  intro H. split.
  - rewrite !bits_values_alt. apply flat_map_ext_in'. intros j Hj. apply (proj1 (in_byte_idx j)) in Hj.
    unfold byte_list. rewrite (H j Hj). reflexivity.
  - unfold popsum. apply (f_equal sumN). apply map_ext_in. intros j Hj. apply (proj1 (in_byte_idx j)) in Hj. rewrite (H j Hj). reflexivity.
Qed.

Lemma nth_map_nseq (f : N -> N) n i : (i < n)%nat -> nth i (map f (nseq 0 n)) 0 = f (N.of_nat i).
Proof.
  intro H. assert (G : forall n lo i, (i < n)%nat -> nth i (map f (nseq lo n)) 0 = f (lo + N.of_nat i)).
  { clear. induction n as [|n IH]; intros lo i H; [lia|]. destruct i as [|i]; cbn [nseq map nth].
    - f_equal. lia.
    - rewrite IH by lia. f_equal. lia. }
  rewrite G by exact H. f_equal.
Qed.

Lemma decode_encode_bits card m tl len :
  bits_ok card m -> 5 + 8192 <= len ->
  dec_ok (mkBM card (BmBits m))
         (bm_decode ((1 :: le_bytes 4 card ++ map (bm_mget m) bm_byte_idx) ++ tl) len).
Proof.
  intros (Hb & Hc) Hlen. pose proof (popsum_le m) as Hle.
  set (pay := map (bm_mget m) bm_byte_idx).
  set (z := (1 :: le_bytes 4 card ++ pay) ++ tl).
  assert (Hpay : bm_lenN pay = 8192) by (unfold pay, bm_lenN; rewrite map_length; apply lenN_byte_idx).
  assert (E0 : bm_nthN z 0 = 1) by reflexivity.
  assert (E1 : bm_rd z 1 4 = le_bytes 4 card).
  { unfold z. change (1 :: le_bytes 4 card ++ pay) with ([1] ++ le_bytes 4 card ++ pay).
    rewrite <- !app_assoc. apply rd_app'; [reflexivity|rewrite lenN_le_bytes; reflexivity]. }
  assert (E5 : bm_rd z 5 8192 = pay).
  { unfold z. replace ((1 :: le_bytes 4 card ++ pay) ++ tl) with ((1 :: le_bytes 4 card) ++ pay ++ tl)
      by (cbn [app]; rewrite <- app_assoc; reflexivity).
    apply rd_app'; [rewrite lenN_cons, lenN_le_bytes; reflexivity|symmetry; exact Hpay]. }
  unfold bm_decode. fold z. rewrite E0, E1, of_le_4 by lia. rewrite E5.
  destruct (len <? 5) eqn:C1; [lia|].
  destruct ((2 <? 1) || (65536 <? card)) eqn:C2; [lia|].
  change (1 =? 0) with false. change (1 =? 1) with true. cbv iota.
  destruct (len - 5 <? 8192) eqn:C3; [lia|].
  set (m' := bm_mem_of_bytes pay).
  assert (Hag : forall i, i < 8192 -> bm_mget m' i = bm_mget m i).
  { intros i Hi. unfold m'. rewrite mget_mem_of_bytes. unfold pay. rewrite byte_idx_spec.
    rewrite nth_map_nseq by lia. f_equal. lia. }
  destruct (mget_agree_values m m' Hag) as [V P].
  rewrite bitmap_cardinality_spec, P.
  destruct (popsum m =? card) eqn:C4; [|lia].
  eexists. split; [reflexivity|]. split; [|split; [exact V|reflexivity]].
  unfold bm_Inv. cbn [bm_c bm_card]. split; [|lia].
  intro i. unfold m'. rewrite mget_mem_of_bytes.
  destruct (Nat.lt_ge_cases (N.to_nat i) (length pay)) as [L|G].
  - unfold pay in *. rewrite map_length in L. rewrite byte_idx_spec in *. rewrite nseq_length in L.
    rewrite nth_map_nseq by lia. apply Hb.
  - rewrite nth_overflow by exact G. lia.
Qed.

Lemma decode_encode_runs card runs cap tl len :
  runs_inv card runs cap -> 5 + 4 + 4 * bm_lenN runs <= len ->
  dec_ok (mkBM card (BmRuns runs cap))
         (bm_decode ((2 :: le_bytes 4 card ++ le_bytes 4 (bm_lenN runs) ++ bm_enc_runs runs) ++ tl) len).
Proof.
  intros (Hr & Hc & Hcap) Hlen.
  pose proof (runs_sum_le 0 runs Hr) as Hle. pose proof (runs_count_le 0 runs Hr) as Hcnt.
  set (nr := bm_lenN runs) in *.
  set (pay := bm_enc_runs runs).
  set (z := (2 :: le_bytes 4 card ++ le_bytes 4 nr ++ pay) ++ tl).
  assert (Hpay : bm_lenN pay = nr * 4) by (unfold pay; rewrite length_enc_runs; fold nr; lia).
  assert (E0 : bm_nthN z 0 = 2) by reflexivity.
  assert (E1 : bm_rd z 1 4 = le_bytes 4 card).
  { unfold z. change (2 :: le_bytes 4 card ++ le_bytes 4 nr ++ pay) with ([2] ++ le_bytes 4 card ++ (le_bytes 4 nr ++ pay)).
    rewrite <- !app_assoc. apply rd_app'; [reflexivity|rewrite lenN_le_bytes; reflexivity]. }
  assert (E5 : bm_rd z 5 4 = le_bytes 4 nr).
  { unfold z. replace ((2 :: le_bytes 4 card ++ le_bytes 4 nr ++ pay) ++ tl)
      with ((2 :: le_bytes 4 card) ++ le_bytes 4 nr ++ (pay ++ tl))
      by (cbn [app]; rewrite <- !app_assoc; reflexivity).
    apply rd_app'; [rewrite lenN_cons, lenN_le_bytes; reflexivity|rewrite lenN_le_bytes; reflexivity]. }
  assert (E9 : bm_rd z 9 (nr * 4) = pay).
  { unfold z. replace ((2 :: le_bytes 4 card ++ le_bytes 4 nr ++ pay) ++ tl)
      with ((2 :: le_bytes 4 card ++ le_bytes 4 nr) ++ pay ++ tl)
      by (cbn [app]; rewrite <- !app_assoc; reflexivity).
    apply rd_app'; [rewrite lenN_cons, lenN_app, !lenN_le_bytes; reflexivity|symmetry; exact Hpay]. }
  unfold bm_decode. fold z. rewrite E0, E1, of_le_4 by lia. rewrite E5, of_le_4 by lia. rewrite E9.
  destruct (len <? 5) eqn:C1; [lia|].
  destruct ((2 <? 2) || (65536 <? card)) eqn:C2; [lia|].
  change (2 =? 0) with false. change (2 =? 1) with false. cbv iota.
  destruct (len - 5 <? 4) eqn:C3; [lia|].
  destruct ((card <? nr) || ((len - 5 - 4) / 4 <? nr)) eqn:C4; [lia|].
  unfold pay. rewrite dec_enc_runs by (intros r Hin; apply (runs_fields 0 runs r Hr Hin)).
  rewrite (check_runs_complete runs 0 0 Hr) by lia. rewrite N.add_0_l.
  destruct (runs_sum runs =? card) eqn:C5; [|lia].
  eexists. split; [reflexivity|]. split; [|split; reflexivity].
  unfold bm_Inv, runs_inv. cbn [bm_c bm_card]. fold nr. repeat split; [exact Hr|exact Hc|lia].
Qed.

Lemma enc_u16s_len l : length (bm_enc_u16s l) = (2 * length l)%nat.
Proof. pose proof (length_enc_u16s l). unfold bm_lenN in *. lia. Qed.

Theorem decode_encode_app s : bm_Inv s -> forall tl len, bm_lenN (bm_encode s) <= len ->
  exists s', fst (bm_decode (bm_encode s ++ tl) len) = Some s' /\ bm_Inv s' /\
             bm_abs s' = bm_abs s /\ bm_card s' = bm_card s.
Proof.
  intros H tl len Hlen. destruct s as [card c]. unfold bm_Inv in H. cbn [bm_c bm_card] in H.
  unfold bm_encode in *. destruct c as [R cap|m|runs cap]; cbn [bm_c bm_card bm_type app] in *.
  - rewrite arr_values_rev in *. change BM_ARRAY with 0 in *.
    apply (decode_encode_array card R cap tl len H).
    rewrite lenN_cons, lenN_app, lenN_le_bytes, length_enc_u16s, lenN_rev in Hlen.
    destruct H as (Hc & _). lia.
  - change BM_BITMAP with 1 in *.
    apply (decode_encode_bits card m tl len H).
    rewrite lenN_cons, lenN_app, lenN_le_bytes in Hlen. unfold bm_lenN in Hlen at 1. rewrite map_length in Hlen.
    pose proof lenN_byte_idx as L. unfold bm_lenN in L. lia.
  - change BM_RUNS with 2 in *.
    apply (decode_encode_runs card runs cap tl len H).
    rewrite lenN_cons, !lenN_app, !lenN_le_bytes, length_enc_runs in Hlen. lia.
Qed.

(* ---- C14: the decoder on arbitrary input ---- *)
Lemma nth_firstn_agree (z z' : list N) k i : firstn k z = firstn k z' -> (i < k)%nat -> nth i z 0 = nth i z' 0.
Proof.
  revert z z' i. induction k as [|k IH]; intros z z' i H Hi; [lia|].
  destruct z as [|a z], z' as [|b z']; cbn [firstn] in H; try discriminate H.
  - reflexivity.
  - inversion H; subst. destruct i as [|i]; [reflexivity|]. cbn [nth]. apply IH; [assumption|lia].
Qed.

(* the result depends only on the first `len` bytes of the buffer *)
Theorem decode_nonint z z' len :
  firstn (N.to_nat len) z = firstn (N.to_nat len) z' -> bm_decode z len = bm_decode z' len.
Proof.
  intro H. unfold bm_decode. destruct (len <? 5) eqn:C1; [reflexivity|].
  assert (E0 : bm_nthN z 0 = bm_nthN z' 0).
  { rewrite !nthN_spec. apply (nth_firstn_agree z z' (N.to_nat len)); [exact H|lia]. }
  assert (E1 : bm_rd z 1 4 = bm_rd z' 1 4) by (apply (rd_nonint z z' 1 4 (N.to_nat len)); [lia|exact H]).
  rewrite E0, E1. set (ty := bm_nthN z' 0). set (card := of_le (bm_rd z' 1 4)).
  destruct ((2 <? ty) || (65536 <? card)) eqn:C2; [reflexivity|].
  destruct (ty =? 0) eqn:T0.
  - destruct ((len - 5) / 2 <? card) eqn:C3; [reflexivity|].
    assert (E5 : bm_rd z 5 (card * 2) = bm_rd z' 5 (card * 2)) by (apply (rd_nonint z z' _ _ (N.to_nat len)); [lia|exact H]).
    rewrite E5. reflexivity.
  - destruct (ty =? 1) eqn:T1.
    + destruct (len - 5 <? 8192) eqn:C3; [reflexivity|].
      assert (E5 : bm_rd z 5 8192 = bm_rd z' 5 8192) by (apply (rd_nonint z z' _ _ (N.to_nat len)); [lia|exact H]).
      rewrite E5. reflexivity.
    + destruct (len - 5 <? 4) eqn:C3; [reflexivity|].
      assert (E5 : bm_rd z 5 4 = bm_rd z' 5 4) by (apply (rd_nonint z z' _ _ (N.to_nat len)); [lia|exact H]).
      rewrite E5. set (nr := of_le (bm_rd z' 5 4)).
      destruct ((card <? nr) || ((len - 5 - 4) / 4 <? nr)) eqn:C4; [reflexivity|].
      assert (E9 : bm_rd z 9 (nr * 4) = bm_rd z' 9 (nr * 4)) by (apply (rd_nonint z z' _ _ (N.to_nat len)); [lia|exact H]).
      rewrite E9. reflexivity.
Qed.

(* it asks malloc for at most 24 + max(len, 8192) bytes in total *)
Theorem decode_alloc z len : snd (bm_decode z len) <= 24 + N.max len 8192.
Proof.
  unfold bm_decode. destruct (len <? 5) eqn:C1; [cbn [snd]; lia|].
  set (ty := bm_nthN z 0). set (card := of_le (bm_rd z 1 4)).
  destruct ((2 <? ty) || (65536 <? card)) eqn:C2; [cbn [snd]; lia|].
  destruct (ty =? 0) eqn:T0.
  - destruct ((len - 5) / 2 <? card) eqn:C3; [cbn [snd]; lia|].
    destruct (bm_ascending _); cbn [snd]; lia.
  - destruct (ty =? 1) eqn:T1.
    + destruct (len - 5 <? 8192) eqn:C3; [cbn [snd]; lia|].
      destruct (_ =? card); cbn [snd]; lia.
    + destruct (len - 5 <? 4) eqn:C3; [cbn [snd]; lia|].
      set (nr := of_le (bm_rd z 5 4)).
      destruct ((card <? nr) || ((len - 5 - 4) / 4 <? nr)) eqn:C4; [cbn [snd]; lia|].
      destruct (bm_check_runs _ 0 0) as [total|]; [destruct (total =? card)|]; cbn [snd]; lia.
Qed.

(* whatever it accepts is a well-formed bitmap *)
Theorem decode_inv z len s : bytes_ok z -> fst (bm_decode z len) = Some s -> bm_Inv s.
Proof.
  intro Hz. unfold bm_decode. destruct (len <? 5) eqn:C1; [intro Hd; discriminate Hd|].
  set (ty := bm_nthN z 0). set (card := of_le (bm_rd z 1 4)).
  destruct ((2 <? ty) || (65536 <? card)) eqn:C2; [intro Hd; discriminate Hd|].
  destruct (ty =? 0) eqn:T0.
  - destruct ((len - 5) / 2 <? card) eqn:C3; [intro Hd; discriminate Hd|].
    set (l := bm_rd z 5 (card * 2)).
    destruct (bm_ascending (bm_dec_u16s l)) eqn:A; cbn [fst]; [|intro Hd; discriminate Hd].
    intro E. inversion E; subst s. clear E.
    destruct (dec_u16s_props l (bytes_ok_rd z 5 (card * 2) Hz) (N.to_nat card)) as [L B];
      [unfold l; rewrite rd_length; lia|].
    unfold bm_Inv, arr_ok. cbn [bm_c bm_card]. rewrite arr_of_values_rev, rev_involutive, lenN_rev.
    unfold bm_lenN. rewrite L. repeat split; [lia|apply (proj1 (ascending_sorted _)); exact A| |lia].
    intros x Hx. apply B. apply in_rev. exact Hx.
  - destruct (ty =? 1) eqn:T1.
    + destruct (len - 5 <? 8192) eqn:C3; [intro Hd; discriminate Hd|].
      set (l := bm_rd z 5 8192).
      destruct (bm_bitmap_cardinality (bm_mem_of_bytes l) =? card) eqn:A; cbn [fst]; [|intro Hd; discriminate Hd].
      intro E. inversion E; subst s. clear E.
      unfold bm_Inv, bits_ok. cbn [bm_c bm_card]. rewrite bitmap_cardinality_spec in A. split; [|lia].
      intro i. rewrite mget_mem_of_bytes. pose proof (bytes_ok_rd z 5 8192 Hz) as Hl. fold l in Hl.
      apply (byte_at_lt l (N.to_nat i) Hl).
    + destruct (len - 5 <? 4) eqn:C3; [intro Hd; discriminate Hd|].
      set (nr := of_le (bm_rd z 5 4)).
      destruct ((card <? nr) || ((len - 5 - 4) / 4 <? nr)) eqn:C4; [intro Hd; discriminate Hd|].
      set (l := bm_rd z 9 (nr * 4)).
      destruct (dec_runs_props l (bytes_ok_rd z 9 (nr * 4) Hz) (N.to_nat nr)) as [L B];
        [unfold l; rewrite rd_length; lia|].
      destruct (bm_check_runs (bm_dec_runs l) 0 0) as [total|] eqn:K; [|intro Hd; discriminate Hd].
      destruct (total =? card) eqn:A; cbn [fst]; [|intro Hd; discriminate Hd].
      intro E. inversion E; subst s. clear E.
      destruct (check_runs_sound (bm_dec_runs l) 0 0 total) as [R1 R2]; try lia; [|exact K|].
      * intros r Hr. destruct (B r Hr). lia.
      * unfold bm_Inv, runs_inv. cbn [bm_c bm_card]. unfold bm_lenN. rewrite L. repeat split; [exact R1|lia|lia].
Qed.

(* ---- every truncation of a valid encoding is rejected ---- *)
Lemma decode_truncated_array card R cap tl len :
  arr_ok card R cap -> len < 5 + 2 * card ->
  fst (bm_decode ((0 :: le_bytes 4 card ++ bm_enc_u16s (rev R)) ++ tl) len) = None.
Proof.
  intros (Hc & Hs & Hb & Hcap) Hlen.
  assert (Hle : bm_lenN R <= 65536).
  { pose proof (sorted_length_le (rev R) Hs) as H. rewrite lenN_rev in H. apply H. intros x Hx. apply Hb, in_rev. exact Hx. }
  set (pay := bm_enc_u16s (rev R)).
  set (z := (0 :: le_bytes 4 card ++ pay) ++ tl).
  assert (E0 : bm_nthN z 0 = 0) by reflexivity.
  assert (E1 : bm_rd z 1 4 = le_bytes 4 card).
  { unfold z. change (0 :: le_bytes 4 card ++ pay) with ([0] ++ le_bytes 4 card ++ pay).
    rewrite <- !app_assoc. apply rd_app'; [reflexivity|rewrite lenN_le_bytes; reflexivity]. }
  unfold bm_decode. fold z. rewrite E0, E1, of_le_4 by lia.
  destruct (len <? 5) eqn:C1; [reflexivity|].
  destruct ((2 <? 0) || (65536 <? card)) eqn:C2; [reflexivity|].
  change (0 =? 0) with true. cbv iota.
  destruct ((len - 5) / 2 <? card) eqn:C3; [reflexivity|lia].
Qed.

Lemma decode_truncated_bits card m tl len :
  bits_ok card m -> len < 5 + 8192 ->
  fst (bm_decode ((1 :: le_bytes 4 card ++ map (bm_mget m) bm_byte_idx) ++ tl) len) = None.
Proof.
  intros (Hb & Hc) Hlen. pose proof (popsum_le m) as Hle.
  set (pay := map (bm_mget m) bm_byte_idx).
  set (z := (1 :: le_bytes 4 card ++ pay) ++ tl).
  assert (E0 : bm_nthN z 0 = 1) by reflexivity.
  assert (E1 : bm_rd z 1 4 = le_bytes 4 card).
  { unfold z. change (1 :: le_bytes 4 card ++ pay) with ([1] ++ le_bytes 4 card ++ pay).
    rewrite <- !app_assoc. apply rd_app'; [reflexivity|rewrite lenN_le_bytes; reflexivity]. }
  unfold bm_decode. fold z. rewrite E0, E1, of_le_4 by lia.
  destruct (len <? 5) eqn:C1; [reflexivity|].
  destruct ((2 <? 1) || (65536 <? card)) eqn:C2; [reflexivity|].
  change (1 =? 0) with false. change (1 =? 1) with true. cbv iota.
  destruct (len - 5 <? 8192) eqn:C3; [reflexivity|lia].
Qed.

Lemma decode_truncated_runs card runs cap tl len :
  runs_inv card runs cap -> len < 5 + 4 + 4 * bm_lenN runs ->
  fst (bm_decode ((2 :: le_bytes 4 card ++ le_bytes 4 (bm_lenN runs) ++ bm_enc_runs runs) ++ tl) len) = None.
Proof.
  intros (Hr & Hc & Hcap) Hlen.
  pose proof (runs_sum_le 0 runs Hr) as Hle. pose proof (runs_count_le 0 runs Hr) as Hcnt.
  set (nr := bm_lenN runs) in *.
  set (pay := bm_enc_runs runs).
  set (z := (2 :: le_bytes 4 card ++ le_bytes 4 nr ++ pay) ++ tl).
  assert (E0 : bm_nthN z 0 = 2) by reflexivity.
  assert (E1 : bm_rd z 1 4 = le_bytes 4 card).
  { unfold z. change (2 :: le_bytes 4 card ++ le_bytes 4 nr ++ pay) with ([2] ++ le_bytes 4 card ++ (le_bytes 4 nr ++ pay)).
    rewrite <- !app_assoc. apply rd_app'; [reflexivity|rewrite lenN_le_bytes; reflexivity]. }
  assert (E5 : bm_rd z 5 4 = le_bytes 4 nr).
  { unfold z. replace ((2 :: le_bytes 4 card ++ le_bytes 4 nr ++ pay) ++ tl)
      with ((2 :: le_bytes 4 card) ++ le_bytes 4 nr ++ (pay ++ tl))
      by (cbn [app]; rewrite <- !app_assoc; reflexivity).
    apply rd_app'; [rewrite lenN_cons, lenN_le_bytes; reflexivity|rewrite lenN_le_bytes; reflexivity]. }
  unfold bm_decode. fold z. rewrite E0, E1, of_le_4 by lia. rewrite E5, of_le_4 by lia.
  destruct (len <? 5) eqn:C1; [reflexivity|].
  destruct ((2 <? 2) || (65536 <? card)) eqn:C2; [reflexivity|].
  change (2 =? 0) with false. change (2 =? 1) with false. cbv iota.
  destruct (len - 5 <? 4) eqn:C3; [reflexivity|].
  destruct ((card <? nr) || ((len - 5 - 4) / 4 <? nr)) eqn:C4; [reflexivity|lia].
Qed.

Theorem decode_truncated s : bm_Inv s -> forall tl len, len < bm_lenN (bm_encode s) ->
  fst (bm_decode (bm_encode s ++ tl) len) = None.
Proof.
  intros H tl len Hlen. destruct s as [card c]. unfold bm_Inv in H. cbn [bm_c bm_card] in H.
  unfold bm_encode in *. destruct c as [R cap|m|runs cap]; cbn [bm_c bm_card bm_type app] in *.
  - rewrite arr_values_rev in *. change BM_ARRAY with 0 in *.
    apply (decode_truncated_array card R cap tl len H).
    rewrite lenN_cons, lenN_app, lenN_le_bytes, length_enc_u16s, lenN_rev in Hlen.
    destruct H as (Hc & _). lia.
  - change BM_BITMAP with 1 in *.
    apply (decode_truncated_bits card m tl len H).
    rewrite lenN_cons, lenN_app, lenN_le_bytes in Hlen. unfold bm_lenN in Hlen at 1. rewrite map_length in Hlen.
    pose proof lenN_byte_idx as L. unfold bm_lenN in L. lia.
  - change BM_RUNS with 2 in *.
    apply (decode_truncated_runs card runs cap tl len H).
    rewrite lenN_cons, !lenN_app, !lenN_le_bytes, length_enc_runs in Hlen. lia.
Qed.
