(* Properties_C04_elias_src.v — property C04 (documented wire formats), the
   bit-length helpers of the Elias part, stated about src_floorLog2 and
   src_varintEliasGammaBits: the Gallina renderings that gen/c2coq.py regenerates
   from the CURRENT src/varintElias.c on every run (coq/gen/Src_leaf_elias.v; meaning
   of the c_* operations: CSem.v).  The functions contain the loop
   `while (value > 1) { value >>= 1; log++; }`; [fuel] bounds its iterations
   (CFuel otherwise) and the statements hold for every fuel >= 64.
   gamma_code is the specification of EliasSpec.v:
     gamma_code x = repeat false (log2 x) ++ bits_msb x.
   Nothing but statements closed by `exact`. *)
Require Import VV.Base VV.EliasBits VV.Elias VV.EliasSpec VV.CSem VV.LeafSrcElias VV.LeafSrcEliasProps.
Require Import VVgen.Src_leaf_elias.
Local Open Scope N_scope.

(* the regenerated functions compute the hand model on all of uint64_t (0 included: NDEBUG) *)
Theorem C04_src_floorLog2_is_model : forall fuel v, (64 <= fuel)%nat -> (0 <= v < 18446744073709551616)%Z ->
  src_floorLog2 fuel v = COk (Z.of_N (floor_log2 (Z.to_N v))).
Proof. exact src_floorLog2_is_model. Qed.
Print Assumptions C04_src_floorLog2_is_model.

Theorem C04_src_varintEliasGammaBits_is_model : forall fuel v, (64 <= fuel)%nat -> (0 <= v < 18446744073709551616)%Z ->
  src_varintEliasGammaBits fuel v = COk (Z.of_N (elias_gamma_bits (Z.to_N v))).
Proof. exact src_varintEliasGammaBits_is_model. Qed.
Print Assumptions C04_src_varintEliasGammaBits_is_model.

(* floorLog2(x) = floor(log2 x) *)
Theorem C04_src_floor_log2 : forall fuel x, (64 <= fuel)%nat -> 1 <= x < 18446744073709551616 ->
  src_floorLog2 fuel (Z.of_N x) = COk (Z.of_N (N.log2 x)) /\ 2 ^ N.log2 x <= x < 2 ^ (N.log2 x + 1).
Proof. exact src_floor_log2. Qed.
Print Assumptions C04_src_floor_log2.

(* varintEliasGammaBits(x) = length of the documented code = 2*floor(log2 x)+1 *)
Theorem C04_src_gamma_bits : forall fuel x, (64 <= fuel)%nat -> 1 <= x < 18446744073709551616 ->
  src_varintEliasGammaBits fuel (Z.of_N x) = COk (Z.of_nat (length (gamma_code x))) /\
  src_varintEliasGammaBits fuel (Z.of_N x) = COk (Z.of_N (2 * N.log2 x + 1)).
Proof. exact src_gamma_bits. Qed.
Print Assumptions C04_src_gamma_bits.

(* non-vacuity: the regenerated functions run on concrete values, the extremes included;
   too little fuel is reported as CFuel, never as a value *)
Example C04_src_elias_example :
  src_floorLog2 64 1 = COk 0%Z /\ src_floorLog2 64 18446744073709551615 = COk 63%Z /\
  src_floorLog2 64 4096 = COk 12%Z /\
  src_varintEliasGammaBits 64 1 = COk 1%Z /\ src_varintEliasGammaBits 64 18446744073709551615 = COk 127%Z /\
  src_varintEliasGammaBits 10 18446744073709551615 = CFuel.
Proof. vm_compute. repeat split; reflexivity. Qed.
