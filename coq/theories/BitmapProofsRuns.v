(* BitmapProofsRuns.v — the RUNS container: well-formed run lists, their values,
   membership scan, conversion to a bitmap. *)
Require Import VV.Base VV.BaseProofs VV.Bitmap VV.BitmapLemmas VV.BitmapProofsBits VV.BitmapProofsArr.
From Coq Require Import Lia ZifyBool ZifyN ZifyNat Sorted Arith.
Local Open Scope N_scope.
Ltac Zify.zify_post_hook ::= Z.div_mod_to_equations.

(* runs are non-empty, ascending, disjoint, inside 0..65535 *)
Fixpoint runs_ok (lo : N) (runs : list (N * N)) : Prop :=
  match runs with
  | [] => True
  | r :: t => lo <= fst r /\ 1 <= snd r /\ fst r + snd r <= 65536 /\ runs_ok (fst r + snd r) t
  end.

Fixpoint runs_sum (runs : list (N * N)) : N :=
  match runs with [] => 0 | r :: t => snd r + runs_sum t end.

Lemma runs_ok_weaken lo lo' runs : lo' <= lo -> runs_ok lo runs -> runs_ok lo' runs.
Proof. destruct runs as [|r t]; [trivial|]. cbn [runs_ok]. intros H (A & B & C & D). repeat split; try assumption. lia. Qed.

Lemma map_add_nseq s k n : map (fun j => s + j) (nseq k n) = nseq (s + k) n.
Proof.
  revert k. induction n as [|n IH]; intro k; [reflexivity|]. cbn [nseq map]. f_equal.
  rewrite IH. f_equal. lia.
Qed.

Lemma run_vals_spec r : fst r + snd r <= 65536 -> bm_run_vals r = nseq (fst r) (N.to_nat (snd r)).
Proof.
  intro H. unfold bm_run_vals. rewrite nseqN_spec.
  replace (nseq (fst r) (N.to_nat (snd r))) with (nseq (fst r + 0) (N.to_nat (snd r))) by (f_equal; lia).
  rewrite <- map_add_nseq.
  apply map_ext_in. intros j Hj. apply in_nseq in Hj. apply u16_small. lia.
Qed.

Lemma in_run_vals r x : fst r + snd r <= 65536 -> (In x (bm_run_vals r) <-> fst r <= x < fst r + snd r).
Proof. intro H. rewrite run_vals_spec by exact H. rewrite in_nseq. lia. Qed.

Lemma in_runs_values lo runs x : runs_ok lo runs ->
  (In x (bm_runs_values runs) <-> exists r, In r runs /\ fst r <= x < fst r + snd r).
Proof.
  revert lo. induction runs as [|r t IH]; intros lo H; cbn [bm_runs_values flat_map].
  - split; [intros []|intros (r & [] & _)].
  - destruct H as (A & B & C & D). fold (bm_runs_values t). rewrite in_app_iff, in_run_vals by exact C. rewrite (IH _ D).
    split.
    + intros [H|(r' & Hr' & H)]; [exists r; split; [left; reflexivity|exact H]|exists r'; split; [right; exact Hr'|exact H]].
    + intros (r' & [<-|Hr'] & H); [left; exact H|right; exists r'; tauto].
Qed.

Lemma runs_values_bounds lo runs x : runs_ok lo runs -> In x (bm_runs_values runs) -> lo <= x < 65536.
Proof.
  revert lo. induction runs as [|r t IH]; intros lo H Hin; [destruct Hin|].
  destruct H as (A & B & C & D). cbn [bm_runs_values flat_map] in Hin. fold (bm_runs_values t) in Hin.
  apply in_app_or in Hin. destruct Hin as [Hin|Hin].
  - apply in_run_vals in Hin; [lia|exact C].
  - specialize (IH _ D Hin). lia.
Qed.

Lemma sorted_runs_values lo runs : runs_ok lo runs -> sorted (bm_runs_values runs).
Proof.
  revert lo. induction runs as [|r t IH]; intros lo H; [constructor|].
  destruct H as (A & B & C & D). cbn [bm_runs_values flat_map]. fold (bm_runs_values t).
  apply sorted_app; [rewrite run_vals_spec by exact C; apply sorted_nseq|apply (IH _ D)|].
  intros x y Hx Hy. apply in_run_vals in Hx; [|exact C]. pose proof (runs_values_bounds _ _ _ D Hy). lia.
Qed.

Lemma length_runs_values lo runs : runs_ok lo runs -> bm_lenN (bm_runs_values runs) = runs_sum runs.
Proof.
  revert lo. induction runs as [|r t IH]; intros lo H; [reflexivity|].
  destruct H as (A & B & C & D). cbn [bm_runs_values flat_map runs_sum]. fold (bm_runs_values t).
  rewrite lenN_app, (IH _ D), run_vals_spec by exact C. unfold bm_lenN. rewrite nseq_length. lia.
Qed.

Lemma runs_contains_spec lo runs v : runs_ok lo runs ->
  (bm_runs_contains runs v = true <-> In v (bm_runs_values runs)).
Proof.
  revert lo. induction runs as [|[s l] t IH]; intros lo H; cbn [bm_runs_contains].
  - split; [discriminate|intros []].
  - destruct H as (A & B & C & D). cbn [fst snd] in *.
    cbn [bm_runs_values flat_map]. fold (bm_runs_values t). rewrite in_app_iff, in_run_vals by exact C. cbn [fst snd].
    destruct ((s <=? v) && (v <? s + l)) eqn:E1.
    + split; [intros _; left; lia|reflexivity].
    + destruct (v <? s) eqn:E2.
      * split; [discriminate|]. intros [Hc|Hc]; [lia|]. pose proof (runs_values_bounds _ _ _ D Hc). lia.
      * rewrite (IH _ D). split; [intro Hc; right; exact Hc|intros [Hc|Hc]; [lia|exact Hc]].
Qed.

Lemma set_all_app m a b : bm_set_all m (a ++ b) = bm_set_all (bm_set_all m a) b.
Proof. unfold bm_set_all. apply fold_left_app. Qed.

Lemma runs_to_bits_spec runs : bm_runs_to_bits runs = bm_set_all bm_zero_bits (bm_runs_values runs).
Proof.
  unfold bm_runs_to_bits. generalize bm_zero_bits. induction runs as [|r t IH]; intro m; [reflexivity|].
  cbn [fold_left bm_runs_values flat_map]. fold (bm_runs_values t). rewrite set_all_app. apply IH.
Qed.

(* a sorted list of values below 65536 set into an empty bitmap *)
Lemma set_all_zero_bit l x : bit_of (bm_set_all bm_zero_bits l) x = true <-> In x l.
Proof.
  rewrite set_all_bit. unfold bm_zero_bits. rewrite bit_of_zero, orb_false_r. apply existsb_eqb_in.
Qed.

Lemma set_all_zero_popsum l : sorted l -> (forall x, In x l -> x < 65536) ->
  popsum (bm_set_all bm_zero_bits l) = bm_lenN l.
Proof.
  intros Hs Hb. rewrite popsum_set_all; [unfold bm_zero_bits; rewrite popsum_zero; lia|apply sorted_NoDup; exact Hs|].
  intros v Hv. split; [apply Hb; exact Hv|apply bit_of_zero].
Qed.

Lemma set_all_zero_values l : sorted l -> (forall x, In x l -> x < 65536) ->
  bm_bits_values (bm_set_all bm_zero_bits l) = l.
Proof.
  intros Hs Hb. apply sorted_ext; [apply sorted_bits_values|exact Hs|].
  intro x. rewrite in_bits_values, set_all_zero_bit. split; [tauto|]. intro H. split; [apply Hb; exact H|exact H].
Qed.
