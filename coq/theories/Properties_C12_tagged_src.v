(* Properties_C12_tagged_src.v — C12 for varintTaggedAddNoGrow / AddGrow, stated
   about the functions regenerated from the current src/varintTagged.c by
   gen/c2coq.py (coq/gen/Src_tagged.v): the static helper varintTaggedAdd is
   inlined, __builtin_saddll_overflow has the meaning gcc documents (CSem.v). *)
Require Import VV.Base VV.Tagged VV.CSem VV.TaggedSrcPropsAdd.
Require Import VVgen.Src_tagged.
Local Open Scope Z_scope.

(* p holds a complete tagged varint (w bytes, value v, both as read by the
   regenerated varintTaggedGet64).  With s = (int64_t)v + add computed exactly:
   - s outside int64_t: width 0 is returned and no byte changes;
   - otherwise, nw being the width varintTaggedLen gives for (uint64_t)s:
     no-grow and nw > w: nw is returned and no byte changes;
     grow, or nw <= w: nw is returned, the varint now reads back as (uint64_t)s with
     width nw, and every byte from index nw on is unchanged. *)
Theorem C12_src_tagged_add : forall p add (force : bool),
  bytes_ok p -> -9223372036854775808 <= add <= 9223372036854775807 ->
  Z.of_N (tagged_getlen p) <= Z.of_nat (length p) -> (force = true -> (9 <= length p)%nat) ->
  exists w v, src_varintTaggedGet64 p None = COk (w, Some v) /\ 0 <= v < 18446744073709551616 /\
    let s := (if v <? 9223372036854775808 then v else v - 18446744073709551616) + add in
    let call := if force then src_varintTaggedAddGrow p add else src_varintTaggedAddNoGrow p add in
    ((s < -9223372036854775808 \/ 9223372036854775807 < s) -> call = COk (0, p)) /\
    (-9223372036854775808 <= s <= 9223372036854775807 ->
       exists nw, src_varintTaggedLen (s mod 18446744073709551616) = COk nw /\
         (force = false /\ w < nw -> call = COk (nw, p)) /\
         (force = true \/ nw <= w ->
            exists out, call = COk (nw, out) /\
              src_varintTaggedGet64 out None = COk (nw, Some (s mod 18446744073709551616)) /\
              skipn (Z.to_nat nw) out = skipn (Z.to_nat nw) p)).
Proof. exact src_tagged_add_spec. Qed.
Print Assumptions C12_src_tagged_add.

Example C12_src_tagged_example :
  src_varintTaggedAddNoGrow [240; 9; 9]%N 1 = COk (2, [240; 9; 9]%N) /\
  src_varintTaggedAddGrow [240; 9; 9; 9; 9; 9; 9; 9; 9]%N 1 = COk (2, [241; 1; 9; 9; 9; 9; 9; 9; 9]%N) /\
  src_varintTaggedAddGrow [255; 127; 255; 255; 255; 255; 255; 255; 255]%N 1
    = COk (0, [255; 127; 255; 255; 255; 255; 255; 255; 255]%N) /\
  src_varintTaggedAddNoGrow [241; 1]%N (-2) = COk (1, [239; 1]%N).
Proof. vm_compute. repeat split; reflexivity. Qed.
