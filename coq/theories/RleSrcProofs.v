(* RleSrcProofs.v — about the functions regenerated from src/varintRLE.c by
   gen/c2coq.py (coq/gen/Src_rle.v, which calls the regenerated tagged functions
   of coq/gen/Src_tagged.v).  Loops of unbounded length are handled by an
   invariant lemma for c_while (no unrolling). *)
Require Import VV.Base VV.BaseProofs VV.Tagged VV.TaggedProofs VV.TaggedFixed VV.CSem VV.CSemProofs VV.TaggedSrcGet.
Require Import VVgen.Src_tagged VVgen.Src_rle.
From Coq Require Import Lia ZifyBool ZifyN ZifyNat.
Local Open Scope Z_scope.
Ltac Zify.zify_post_hook ::= Z.div_mod_to_equations.

(* a loop whose every iteration, from a state satisfying the invariant I, is
   defined (COk) and either goes on in a state satisfying I or stops with Q:
   whatever the fuel, the loop ends in Q or runs out of fuel — never CUB / COob;
   with a measure that decreases it ends in Q as soon as the fuel exceeds it *)
Lemma c_while_inv {S R} (I : S -> Prop) (Q : lstep S R -> Prop) (m : S -> nat) (step : S -> cres (lstep S R)) :
  (forall s, I s -> exists r, step s = COk r /\
     match r with LNext s' => I s' /\ (m s' < m s)%nat | _ => Q r end) ->
  forall fuel s, I s ->
    (c_while fuel step s = CFuel \/ exists r, c_while fuel step s = COk r /\ Q r) /\
    ((m s < fuel)%nat -> exists r, c_while fuel step s = COk r /\ Q r).
Proof.
  intros H fuel. induction fuel as [|f IH]; intros s Hs.
  - split; [left; reflexivity|lia].
  - destruct (H s Hs) as (r & E & P). cbn [c_while]. unfold bind. rewrite E.
    destruct r as [s'|s'|r'].
    + destruct P as [P1 P2]. destruct (IH s' P1) as [A B]. split; [exact A|]. intro L. apply B. lia.
    + split; [right|intros _]; (eexists; split; [reflexivity|exact P]).
    + split; [right|intros _]; (eexists; split; [reflexivity|exact P]).
Qed.

Lemma bytes_ok_skipn k z : bytes_ok z -> bytes_ok (skipn k z).
Proof. intro H. unfold bytes_ok in *. rewrite <- (firstn_skipn k z) in H. apply Forall_app in H. apply H. Qed.

(* the width the bounded reader returns is 0 or a width 1..9 that fits in n *)
Lemma tagged_get_fst_fits z n : bytes_ok z ->
  fst (tagged_get z n) = 0%N \/ (1 <= Z.of_N (fst (tagged_get z n)) <= 9 /\ Z.of_N (fst (tagged_get z n)) <= n).
Proof.
  intro Hz. pose proof (bytes_ok_nth z 0 Hz) as Hb.
  assert (G : (1 <= tagged_getlen z <= 9)%N) by (unfold tagged_getlen; cbv zeta; kill_ifs; lia).
  destruct (Z.lt_ge_cases n (Z.of_N (tagged_getlen z))) as [L|L].
  - left. apply tagged_get_short; assumption.
  - right. rewrite tagged_get_width by assumption. lia.
Qed.

Ltac get_step Hz :=
  match goal with
  | |- context [src_varintTaggedGet ?v ?n None] =>
      let Hv := fresh "Hv" in let F := fresh "F" in
      assert (Hv : bytes_ok v) by (apply bytes_ok_skipn; exact Hz);
      pose proof (tagged_get_fst_fits v n Hv) as F;
      rewrite (src_varintTaggedGet_is_model v n None) by (try exact Hv; rewrite ?skipn_length; lia);
      unfold get_result; clear Hv
  end.

Lemma src_varintRLEGetRunCount_safe : forall fuel z, bytes_ok z -> Z.of_nat (length z) < 9223372036854775808 ->
  (src_varintRLEGetRunCount fuel z (Z.of_nat (length z)) = CFuel \/
   exists r, src_varintRLEGetRunCount fuel z (Z.of_nat (length z)) = COk r) /\
  ((length z < fuel)%nat -> exists r, src_varintRLEGetRunCount fuel z (Z.of_nat (length z)) = COk r).
Proof.
  intros fuel z Hz Hlen. unfold src_varintRLEGetRunCount. c_unfold. c_simp.
  match goal with |- context [c_while _ ?st ?s0] => set (step := st); set (s0' := s0) end.
  pose (Inv := fun s : Z * Z * Z => let '(p, e, r) := s in
              e = Z.of_nat (length z) /\ 0 <= p <= e /\ 0 <= r < 18446744073709551616).
  pose (Q := fun r : lstep (Z * Z * Z) Z => exists p e n, r = LBreak (p, e, n)).
  pose (m := fun s : Z * Z * Z => let '(p, e, r) := s in Z.to_nat (e - p)).
  assert (Hstep : forall s, Inv s -> exists r, step s = COk r /\
            match r with LNext s' => Inv s' /\ (m s' < m s)%nat | _ => Q r end).
  { intros [[p e] r] (He & Hp & Hr). subst step. cbv beta iota.
    repeat (first [get_step Hz | c_step]). all: c_simp.
    all: eexists; (split; [reflexivity|]); cbv beta iota.
    all: try (unfold Q; eexists; eexists; eexists; reflexivity).
    all: unfold Inv, m; repeat split; lia. }
  assert (I0 : Inv s0') by (unfold Inv, s0'; lia).
  destruct (c_while_inv Inv Q m step Hstep fuel s0' I0) as [A B].
  split.
  - destruct A as [A'|(r & A' & (p & e & n & ->))]; rewrite A'; [left; reflexivity|right]. c_simp. eexists; reflexivity.
  - intro L. destruct (B ltac:(unfold m, s0'; lia)) as (r & A' & (p & e & n & ->)). rewrite A'. c_simp. eexists; reflexivity.
Qed.

(* ---------- the loop-free readers equal the hand model (RLE.v) ---------- *)
Require Import VV.RLE.

(* a complete tagged varint at the head of z: what the unbounded reader returns *)
Lemma get64_complete z : bytes_ok z -> Z.of_N (tagged_getlen z) <= Z.of_nat (length z) ->
  src_varintTaggedGet64 z None =
  COk (Z.of_N (fst (tagged_get64 z)), Some (Z.of_N (snd (tagged_get64 z)))) /\
  fst (tagged_get64 z) = tagged_getlen z /\ (1 <= tagged_getlen z <= 9)%N.
Proof.
  intros Hz Hl. pose proof (bytes_ok_nth z 0 Hz) as Hb.
  assert (G : (1 <= tagged_getlen z <= 9)%N) by (unfold tagged_getlen; cbv zeta; kill_ifs; lia).
  pose proof (tagged_get_width z 9 Hb ltac:(lia)) as W.
  rewrite src_varintTaggedGet64_is_model by (try assumption; lia). unfold get_result, tagged_get64.
  destruct (fst (tagged_get z 9) =? 0)%N eqn:E; [lia|]. repeat split; try assumption; lia.
Qed.

(* varintRLEDecodeRun on bytes that hold the two varints of a run *)
Lemma src_varintRLEDecodeRun_is_model : forall z rl v, bytes_ok z ->
  Z.of_N (tagged_getlen z) <= Z.of_nat (length z) ->
  Z.of_N (tagged_getlen (skipn (N.to_nat (tagged_getlen z)) z)) <= Z.of_nat (length z) - Z.of_N (tagged_getlen z) ->
  src_varintRLEDecodeRun z rl v =
  COk (Z.of_N (fst (fst (rle_decode_run z))), Some (Z.of_N (snd (fst (rle_decode_run z)))),
       Some (Z.of_N (snd (rle_decode_run z)))).
Proof.
  intros z rl v Hz H1 H2.
  destruct (get64_complete z Hz H1) as (E1 & F1 & G1).
  set (z2 := skipn (N.to_nat (tagged_getlen z)) z) in *.
  assert (Hz2 : bytes_ok z2) by (apply bytes_ok_skipn; exact Hz).
  assert (L2 : Z.of_nat (length z2) = Z.of_nat (length z) - Z.of_N (tagged_getlen z)) by (unfold z2; rewrite skipn_length; lia).
  destruct (get64_complete z2 Hz2 ltac:(lia)) as (E2 & F2 & G2).
  unfold src_varintRLEDecodeRun, rle_decode_run. cbv zeta. rewrite F1. fold z2. c_unfold.
  repeat c_step. c_simp. cbn [skipn]. rewrite E1. c_simp. rewrite F1.
  repeat c_step. c_simp.
  replace (Z.to_nat (0 + Z.of_N (tagged_getlen z))) with (N.to_nat (tagged_getlen z)) by lia. fold z2.
  rewrite E2. c_simp. repeat c_step. c_simp.
  f_equal. f_equal. f_equal. rewrite F2. lia.
Qed.

Lemma src_varintRLEGetCount_is_model : forall z, bytes_ok z ->
  Z.of_N (tagged_getlen z) <= Z.of_nat (length z) ->
  src_varintRLEGetCount z = COk (Z.of_N (rle_get_count z)).
Proof.
  intros z Hz H1. destruct (get64_complete z Hz H1) as (E1 & F1 & G1).
  unfold src_varintRLEGetCount, rle_get_count. c_unfold. c_simp. rewrite E1. c_simp. repeat c_step. c_simp. reflexivity.
Qed.
