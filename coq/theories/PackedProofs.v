(* PackedProofs.v — element isolation of the packed arrays (Packed.v):
   Get/Set as bit fields of the storage, frame, touched slots, wellformedness,
   SetIncr / SetHalf as Get followed by Set. *)
Require Import VV.Base VV.BaseProofs VV.Packed VV.PackedLemmas.
From Coq Require Import Lia ZifyBool ZifyN ZifyNat.
Local Open Scope N_scope.
Ltac Zify.zify_post_hook ::= Z.div_mod_to_equations.

(* ---- vocabulary ---- *)

(* the instantiations the property admits *)
Definition admitted (c : pcfg) : Prop :=
  1 <= p_w c /\ p_w c <= 32 /\
  0 < p_S c /\ p_S c <= 64 /\
  p_w c <= p_S c + N.gcd (p_w c) (p_S c) /\          (* an element never spans more than two slots *)
  p_w c <= p_V c /\
  match p_P c with Some p => p_S c <= p /\ p_w c <= p | None => True end.

(* every slot holds a value of the slot type *)
Definition wf (c : pcfg) (a : list N) : Prop := Forall (fun s => s < 2 ^ p_S c) a.

(* storage bit n of the array (bit n mod S of slot n / S) *)
Definition abit (c : pcfg) (a : list N) (n : N) : bool :=
  N.testbit (slot_at a (n / p_S c)) (n mod p_S c).

(* the slots of element i lie inside the array *)
Definition inb (c : pcfg) (a : list N) (i : N) : Prop :=
  (i * p_w c + p_w c - 1) / p_S c < N.of_nat (length a).

Definition getv (c : pcfg) (a : list N) (i : N) : N := fst (packed_get c a i).
Definition setv (c : pcfg) (a : list N) (i v : N) : list N := fst (packed_set c a i v).

(* ---- slots of a list ---- *)
Lemma length_upd_nat a k v : length (upd_nat a k v) = length a.
Proof. revert k. induction a as [|x a IH]; intros [|k]; simpl; auto. Qed.

Lemma nth_upd_nat_same a k v : (k < length a)%nat -> nth k (upd_nat a k v) 0 = v.
Proof. revert k. induction a as [|x a IH]; intros [|k] H; simpl in *; try lia; auto. apply IH. lia. Qed.

Lemma nth_upd_nat_other a k k' v : k <> k' -> nth k' (upd_nat a k v) 0 = nth k' a 0.
Proof.
  revert k k'. induction a as [|x a IH]; intros [|k] [|k'] H; simpl; auto; try congruence.
Qed.

Lemma length_slot_upd a k v : length (slot_upd a k v) = length a.
Proof. apply length_upd_nat. Qed.

Lemma slot_at_upd_same a k v : k < N.of_nat (length a) -> slot_at (slot_upd a k v) k = v.
Proof. intro H. unfold slot_at, slot_upd. apply nth_upd_nat_same. lia. Qed.

Lemma slot_at_upd_other a k k' v : k <> k' -> slot_at (slot_upd a k v) k' = slot_at a k'.
Proof. intro H. unfold slot_at, slot_upd. apply nth_upd_nat_other. lia. Qed.

Lemma wf_upd_nat c a k v : wf c a -> v < 2 ^ p_S c -> wf c (upd_nat a k v).
Proof.
  unfold wf. intros H Hv. revert k. induction H as [|x a Hx Ha IH]; intros [|k]; simpl; constructor; auto.
Qed.

Lemma wf_slot_upd c a k v : wf c a -> v < 2 ^ p_S c -> wf c (slot_upd a k v).
Proof. apply wf_upd_nat. Qed.

Lemma slot_at_lt c a k : wf c a -> slot_at a k < 2 ^ p_S c.
Proof.
  unfold wf, slot_at. intro H. generalize (N.to_nat k). clear k.
  induction H as [|x a Hx Ha IH]; intros [|k]; simpl; auto;
    apply N.neq_0_lt_0, N.pow_nonzero; lia.
Qed.

(* ---- casts disappear for admitted instantiations ---- *)
Lemma value_mask_ok c : admitted c -> value_mask c = N.ones (p_w c).
Proof.
  intros (W1 & W32 & S0 & S64 & SP & HV & HP). unfold value_mask, u32, trunc.
  rewrite ones_sub64 by lia.
  assert (M : p_w c <= mp_bits c).
  { unfold mp_bits. destruct (p_P c); [tauto | exact HV]. }
  rewrite (mod_small_pow _ (p_w c)) by (apply ones_lt || exact M).
  change 4294967296 with (2 ^ 32). apply (mod_small_pow _ (p_w c)); [apply ones_lt | exact W32].
Qed.

Lemma mp_cast_slot c x : admitted c -> x < 2 ^ p_S c -> mp_cast c x = x.
Proof.
  intros (W1 & W32 & S0 & S64 & SP & HV & HP) Hx. unfold mp_cast, trunc.
  destruct (p_P c) as [p|]; [|reflexivity]. apply (mod_small_pow _ (p_S c)); tauto.
Qed.

Lemma mp_cast_val c x : admitted c -> x < 2 ^ p_w c -> mp_cast c x = x.
Proof.
  intros (W1 & W32 & S0 & S64 & SP & HV & HP) Hx. unfold mp_cast, trunc.
  destruct (p_P c) as [p|]; [|reflexivity]. apply (mod_small_pow _ (p_w c)); tauto.
Qed.

Lemma val_cast_val c x : admitted c -> x < 2 ^ p_w c -> val_cast c x = x.
Proof.
  intros (W1 & W32 & S0 & S64 & SP & HV & HP) Hx. unfold val_cast, trunc.
  apply (mod_small_pow _ (p_w c)); assumption.
Qed.

Lemma start_offset_ok c i : admitted c -> i < 4294967296 -> start_offset c i = i * p_w c.
Proof.
  intros (W1 & W32 & S0 & S64 & SP & HV & HP) Hi. unfold start_offset, u64.
  apply N.mod_small. nia.
Qed.

(* ---- position arithmetic of one element ---- *)
Lemma startbit_facts c i : admitted c ->
  (i * p_w c) mod p_S c < p_S c /\ (i * p_w c) mod p_S c + p_w c <= 2 * p_S c.
Proof.
  intros (W1 & W32 & S0 & S64 & SP & HV & HP).
  pose proof (startbit_gcd (p_w c) (p_S c) i S0).
  pose proof (N.mod_lt (i * p_w c) (p_S c)). lia.
Qed.

(* ---- Set and Get in terms of the field operations ---- *)
Lemma packed_set_eq c a i v : admitted c -> i < 4294967296 -> v < 2 ^ p_w c ->
  packed_set c a i v =
  let sbo := i * p_w c in
  let k := sbo / p_S c in
  let sB := sbo mod p_S c in
  if p_w c <=? p_S c - sB then
    (slot_upd a k (write_lo (p_S c) (p_w c) (slot_at a k) sB v), [k])
  else
    (slot_upd (slot_upd a k (write_lo (p_S c) (p_w c) (slot_at a k) sB v)) (k + 1)
       (write_hi (p_S c) (p_w c) (slot_at a (k + 1)) (p_S c - sB) v), [k; k + 1]).
Proof.
  intros A Hi Hv. unfold packed_set. cbv zeta.
  rewrite (start_offset_ok c i A Hi), (value_mask_ok c A), (mp_cast_val c v A Hv).
  unfold slot_can_hold_entire_value, not64, trunc, write_lo, write_hi. cbn [andb]. reflexivity.
Qed.

Lemma touched_set c a i v : admitted c -> i < 4294967296 ->
  snd (packed_set c a i v) =
  let sbo := i * p_w c in
  if p_w c <=? p_S c - sbo mod p_S c then [sbo / p_S c] else [sbo / p_S c; sbo / p_S c + 1].
Proof.
  intros A Hi. unfold packed_set. cbv zeta. rewrite (start_offset_ok c i A Hi).
  unfold slot_can_hold_entire_value. cbn [andb].
  destruct (p_w c <=? p_S c - (i * p_w c) mod p_S c); reflexivity.
Qed.

Lemma touched_get c a i : admitted c -> i < 4294967296 ->
  snd (packed_get c a i) =
  let sbo := i * p_w c in
  if p_w c <=? p_S c - sbo mod p_S c then [sbo / p_S c] else [sbo / p_S c; sbo / p_S c + 1].
Proof.
  intros A Hi. unfold packed_get. cbv zeta. rewrite (start_offset_ok c i A Hi).
  unfold slot_can_hold_entire_value. cbn [andb].
  destruct (p_w c <=? p_S c - (i * p_w c) mod p_S c); reflexivity.
Qed.

(* the last slot of an element *)
Lemma last_slot_one c i : admitted c -> p_w c <= p_S c - (i * p_w c) mod p_S c ->
  (i * p_w c + p_w c - 1) / p_S c = (i * p_w c) / p_S c.
Proof.
  intros A H. destruct A as (W1 & W32 & S0 & S64 & SP & HV & HP).
  replace (i * p_w c + p_w c - 1) with (i * p_w c + (p_w c - 1)) by lia.
  apply divmod_lo; lia.
Qed.

Lemma last_slot_two c i : admitted c -> ~ p_w c <= p_S c - (i * p_w c) mod p_S c ->
  (i * p_w c + p_w c - 1) / p_S c = (i * p_w c) / p_S c + 1.
Proof.
  intros A H. pose proof (startbit_facts c i A) as [F1 F2].
  destruct A as (W1 & W32 & S0 & S64 & SP & HV & HP).
  replace (i * p_w c + p_w c - 1) with (i * p_w c + (p_w c - 1)) by lia.
  apply divmod_hi; lia.
Qed.

(* wellformedness and length are preserved *)
Lemma setv_length c a i v : length (setv c a i v) = length a.
Proof.
  unfold setv, packed_set. cbv zeta.
  destruct (slot_can_hold_entire_value c && _); cbn [fst]; rewrite ?length_slot_upd; reflexivity.
Qed.

Lemma setv_wf c a i v : admitted c -> wf c a -> wf c (setv c a i v).
Proof.
  intros A H. unfold setv, packed_set. cbv zeta.
  assert (P : 2 ^ p_S c <> 0) by (apply N.pow_nonzero; lia).
  destruct (slot_can_hold_entire_value c && _); cbn [fst];
    repeat apply wf_slot_upd; try assumption; unfold trunc; apply N.mod_lt; exact P.
Qed.

(* ---- Set: the bits of the element become the value, all others stay ---- *)
Lemma set_bits_inside c a i v j : admitted c -> wf c a -> inb c a i -> i < 4294967296 ->
  v < 2 ^ p_w c -> j < p_w c ->
  abit c (setv c a i v) (i * p_w c + j) = N.testbit v j.
Proof.
  intros A Hwf Hin Hi Hv Hj. unfold setv. rewrite (packed_set_eq c a i v A Hi Hv). cbv zeta.
  pose proof (startbit_facts c i A) as [F1 F2].
  pose proof A as (W1 & W32 & S0 & S64 & SP & HV & HP).
  pose proof (last_slot_one c i A) as LS1. pose proof (last_slot_two c i A) as LS2.
  unfold abit, inb in *.
  set (sbo := i * p_w c) in *. set (sb := p_S c) in *. set (w := p_w c) in *.
  destruct (N.leb_spec w (sb - sbo mod sb)) as [One|Two]; cbn [fst].
  - (* one slot *)
    rewrite (LS1 One) in Hin.
    destruct (divmod_lo sb sbo j S0 ltac:(lia)) as [Eq Er]. rewrite Eq, Er.
    rewrite slot_at_upd_same by exact Hin.
    rewrite tb_write_lo by (assumption || lia).
    replace (sbo mod sb + j <? sb) with true by (symmetry; apply N.ltb_lt; lia).
    replace (sbo mod sb <=? sbo mod sb + j) with true by (symmetry; apply N.leb_le; lia).
    replace (sbo mod sb + j <? sbo mod sb + w) with true by (symmetry; apply N.ltb_lt; lia).
    cbn [andb]. f_equal. lia.
  - (* two slots *)
    rewrite (LS2 ltac:(lia)) in Hin.
    destruct (N.lt_ge_cases (sbo mod sb + j) sb) as [Lo|Hi'].
    + destruct (divmod_lo sb sbo j S0 Lo) as [Eq Er]. rewrite Eq, Er.
      rewrite slot_at_upd_other by lia.
      rewrite slot_at_upd_same by lia.
      rewrite tb_write_lo by (assumption || lia).
      replace (sbo mod sb + j <? sb) with true by (symmetry; apply N.ltb_lt; lia).
      replace (sbo mod sb <=? sbo mod sb + j) with true by (symmetry; apply N.leb_le; lia).
      replace (sbo mod sb + j <? sbo mod sb + w) with true by (symmetry; apply N.ltb_lt; lia).
      cbn [andb]. f_equal. lia.
    + destruct (divmod_hi sb sbo j S0 Hi' ltac:(lia)) as [Eq Er]. rewrite Eq, Er.
      rewrite slot_at_upd_same by (rewrite length_slot_upd; exact Hin).
      rewrite tb_write_hi by (assumption || lia).
      replace (sbo mod sb + j - sb <? sb) with true by (symmetry; apply N.ltb_lt; lia).
      replace (sbo mod sb + j - sb + (sb - sbo mod sb) <? w) with true by (symmetry; apply N.ltb_lt; lia).
      cbn [andb]. f_equal. lia.
Qed.

Lemma set_bits_outside c a i v n : admitted c -> wf c a -> inb c a i -> i < 4294967296 ->
  v < 2 ^ p_w c -> ~ (i * p_w c <= n < i * p_w c + p_w c) ->
  abit c (setv c a i v) n = abit c a n.
Proof.
  intros A Hwf Hin Hi Hv Hn. unfold setv. rewrite (packed_set_eq c a i v A Hi Hv). cbv zeta.
  pose proof (startbit_facts c i A) as [F1 F2].
  pose proof A as (W1 & W32 & S0 & S64 & SP & HV & HP).
  pose proof (last_slot_one c i A) as LS1. pose proof (last_slot_two c i A) as LS2.
  unfold abit, inb in *.
  set (sbo := i * p_w c) in *. set (sb := p_S c) in *. set (w := p_w c) in *.
  pose proof (N.div_mod' n sb) as Dn. pose proof (N.div_mod' sbo sb) as Ds.
  pose proof (N.mod_lt n sb ltac:(lia)) as Rn.
  destruct (N.leb_spec w (sb - sbo mod sb)) as [One|Two]; cbn [fst].
  - rewrite (LS1 One) in Hin.
    destruct (N.eq_dec (n / sb) (sbo / sb)) as [E|E].
    + rewrite E. rewrite slot_at_upd_same by exact Hin.
      rewrite tb_write_lo by (assumption || lia).
      replace (n mod sb <? sb) with true by (symmetry; apply N.ltb_lt; lia). cbn [andb].
      rewrite E in Dn. set (X := sb * (sbo / sb)) in *.
      destruct (N.leb_spec (sbo mod sb) (n mod sb)); destruct (N.ltb_spec (n mod sb) (sbo mod sb + w));
        cbn [andb]; try reflexivity. exfalso. lia.
    + rewrite slot_at_upd_other by congruence. reflexivity.
  - rewrite (LS2 ltac:(lia)) in Hin.
    destruct (N.eq_dec (n / sb) (sbo / sb + 1)) as [E1|E1].
    + rewrite E1. rewrite slot_at_upd_same by (rewrite length_slot_upd; exact Hin).
      rewrite tb_write_hi by (assumption || lia).
      replace (n mod sb <? sb) with true by (symmetry; apply N.ltb_lt; lia). cbn [andb].
      rewrite E1 in Dn. rewrite N.mul_add_distr_l, N.mul_1_r in Dn. set (X := sb * (sbo / sb)) in *.
      destruct (N.ltb_spec (n mod sb + (sb - sbo mod sb)) w); try reflexivity. exfalso. lia.
    + rewrite slot_at_upd_other by congruence.
      destruct (N.eq_dec (n / sb) (sbo / sb)) as [E|E].
      * rewrite E. rewrite slot_at_upd_same by lia.
        rewrite tb_write_lo by (assumption || lia).
        replace (n mod sb <? sb) with true by (symmetry; apply N.ltb_lt; lia). cbn [andb].
        rewrite E in Dn. set (X := sb * (sbo / sb)) in *.
        destruct (N.leb_spec (sbo mod sb) (n mod sb)); destruct (N.ltb_spec (n mod sb) (sbo mod sb + w));
          cbn [andb]; try reflexivity. exfalso. lia.
      * rewrite slot_at_upd_other by congruence. reflexivity.
Qed.

(* ---- Get reads exactly the bits of the element ---- *)
Lemma get_bits c a i j : admitted c -> wf c a -> i < 4294967296 ->
  N.testbit (getv c a i) j = (j <? p_w c) && abit c a (i * p_w c + j).
Proof.
  intros A Hwf Hi. unfold getv, packed_get. cbv zeta.
  rewrite (start_offset_ok c i A Hi), (value_mask_ok c A).
  pose proof (startbit_facts c i A) as [F1 F2].
  pose proof A as (W1 & W32 & S0 & S64 & SP & HV & HP).
  unfold slot_can_hold_entire_value, abit. cbn [andb].
  set (sbo := i * p_w c) in *. set (sb := p_S c) in *. set (w := p_w c) in *.
  pose proof (slot_at_lt c a (sbo / sb) Hwf) as L0. pose proof (slot_at_lt c a (sbo / sb + 1) Hwf) as L1.
  fold sb in L0, L1.
  rewrite (mp_cast_slot c _ A L0).
  destruct (N.leb_spec w (sb - sbo mod sb)) as [One|Two]; cbn [fst].
  - unfold val_cast, trunc. rewrite tb_trunc_gen, N.land_spec, tb_shr, tb_ones.
    destruct (N.ltb_spec j w) as [Hj|Hj]; [|rewrite !andb_false_r; reflexivity].
    replace (j <? p_V c) with true by (symmetry; apply N.ltb_lt; lia). cbn [andb].
    rewrite andb_true_r.
    destruct (divmod_lo sb sbo j S0 ltac:(lia)) as [Eq Er]. rewrite Eq, Er. f_equal. lia.
  - rewrite (mp_cast_slot c _ A L1).
    unfold val_cast, trunc. rewrite tb_trunc_gen, N.lor_spec, N.land_spec, tb_shr, tb_shl64, tb_shl32, tb_shr, tb_ones.
    destruct (N.ltb_spec j w) as [Hj|Hj]; cbn [andb].
    + replace (j <? p_V c) with true by (symmetry; apply N.ltb_lt; lia). cbn [andb].
      replace (j <? 64) with true by (symmetry; apply N.ltb_lt; lia).
      replace (j <? 32) with true by (symmetry; apply N.ltb_lt; lia). cbn [andb].
      destruct (N.leb_spec (sb - sbo mod sb) j) as [Hi'|Lo]; cbn [andb].
      * replace (j - (sb - sbo mod sb) + (sb - sbo mod sb) <? w) with true by (symmetry; apply N.ltb_lt; lia).
        rewrite andb_true_r.
        rewrite (tb_small _ sb (j + sbo mod sb) L0) by lia. cbn [orb].
        destruct (divmod_hi sb sbo j S0 ltac:(lia) ltac:(lia)) as [Eq Er]. rewrite Eq, Er. f_equal. lia.
      * rewrite orb_false_r.
        destruct (divmod_lo sb sbo j S0 ltac:(lia)) as [Eq Er]. rewrite Eq, Er. f_equal. lia.
    + rewrite (tb_small _ sb (j + sbo mod sb) L0) by lia. cbn [orb].
      destruct (N.leb_spec (sb - sbo mod sb) j) as [Hi'|Lo]; cbn [andb].
      * replace (j - (sb - sbo mod sb) + (sb - sbo mod sb) <? w) with false by (symmetry; apply N.ltb_ge; lia).
        rewrite !andb_false_r. reflexivity.
      * rewrite !andb_false_r. reflexivity.
Qed.

Lemma getv_lt c a i : admitted c -> wf c a -> i < 4294967296 -> getv c a i < 2 ^ p_w c.
Proof.
  intros A Hwf Hi. apply lt_pow2_bits. intros n Hn. rewrite (get_bits c a i n A Hwf Hi).
  replace (n <? p_w c) with false by (symmetry; apply N.ltb_ge; exact Hn). reflexivity.
Qed.

(* two arrays with the same bits in the range of element i give the same element *)
Lemma getv_ext c a b i : admitted c -> wf c a -> wf c b -> i < 4294967296 ->
  (forall j, j < p_w c -> abit c a (i * p_w c + j) = abit c b (i * p_w c + j)) ->
  getv c a i = getv c b i.
Proof.
  intros A Ha Hb Hi H. apply N.bits_inj. intro j.
  rewrite (get_bits c a i j A Ha Hi), (get_bits c b i j A Hb Hi).
  destruct (N.ltb_spec j (p_w c)) as [Hj|Hj]; [|reflexivity]. cbn [andb]. apply H. exact Hj.
Qed.

(* ---- the isolation theorems ---- *)
Theorem get_set_same c a i v : admitted c -> wf c a -> inb c a i -> i < 4294967296 ->
  v < 2 ^ p_w c -> getv c (setv c a i v) i = v.
Proof.
  intros A Hwf Hin Hi Hv. apply N.bits_inj. intro j.
  rewrite (get_bits c _ i j A (setv_wf c a i v A Hwf) Hi).
  destruct (N.ltb_spec j (p_w c)) as [Hj|Hj]; cbn [andb].
  - apply set_bits_inside; assumption.
  - symmetry. apply (tb_small v (p_w c)); assumption.
Qed.

Theorem get_set_other c a i j v : admitted c -> wf c a -> inb c a i -> i < 4294967296 ->
  j < 4294967296 -> v < 2 ^ p_w c -> j <> i -> getv c (setv c a i v) j = getv c a j.
Proof.
  intros A Hwf Hin Hi Hj Hv Hne.
  apply getv_ext; try assumption; [apply setv_wf; assumption|].
  intros b Hb. apply set_bits_outside; try assumption.
  destruct (N.lt_gt_cases j i) as [[L|G] _]; [exact Hne| |].
  - pose proof (elem_ranges_disjoint (p_w c) j i L). lia.
  - pose proof (elem_ranges_disjoint (p_w c) i j G). lia.
Qed.

(* touched slots: only the slots the element occupies *)
Theorem set_touched c a i v k : admitted c -> i < 4294967296 ->
  In k (snd (packed_set c a i v)) ->
  (i * p_w c) / p_S c <= k <= (i * p_w c + p_w c - 1) / p_S c.
Proof.
  intros A Hi. rewrite (touched_set c a i v A Hi). cbv zeta.
  destruct (N.leb_spec (p_w c) (p_S c - (i * p_w c) mod p_S c)) as [One|Two]; intro H.
  - rewrite (last_slot_one c i A One). destruct H as [<-|[]]. lia.
  - rewrite (last_slot_two c i A ltac:(lia)). destruct H as [<-|[<-|[]]]; lia.
Qed.

Theorem get_touched c a i k : admitted c -> i < 4294967296 ->
  In k (snd (packed_get c a i)) ->
  (i * p_w c) / p_S c <= k <= (i * p_w c + p_w c - 1) / p_S c.
Proof.
  intros A Hi. rewrite (touched_get c a i A Hi). cbv zeta.
  destruct (N.leb_spec (p_w c) (p_S c - (i * p_w c) mod p_S c)) as [One|Two]; intro H.
  - rewrite (last_slot_one c i A One). destruct H as [<-|[]]. lia.
  - rewrite (last_slot_two c i A ltac:(lia)). destruct H as [<-|[<-|[]]]; lia.
Qed.

(* no shift by the width of its type is ever evaluated *)
Theorem no_shift_ub c i : admitted c -> i < 4294967296 -> packed_shift_ub c i = false.
Proof.
  intros A Hi. unfold packed_shift_ub. cbv zeta. rewrite (start_offset_ok c i A Hi).
  destruct A as (W1 & W32 & S0 & S64 & SP & HV & HP).
  unfold slot_can_hold_entire_value. cbn [andb].
  destruct (N.leb_spec (p_w c) (p_S c - (i * p_w c) mod p_S c)); cbn [negb andb]; [reflexivity|].
  apply N.leb_gt. lia.
Qed.
