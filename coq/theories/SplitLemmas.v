(* SplitLemmas.v — generic lemmas used by the Split proofs: byte-wise
   enumeration, mask/or facts on bytes, pointer-offset reads, the external
   put/get helpers, frame of [store]. *)
Require Import VV.Base VV.BaseProofs VV.Tagged VV.TaggedProofs VV.Split.
From Coq Require Import Lia ZifyBool ZifyN ZifyNat.
Local Open Scope N_scope.
Ltac Zify.zify_post_hook ::= Z.div_mod_to_equations.

(* ---- a predicate checked on the 256 byte values holds of every byte ---- *)
Lemma forall_byte (P : N -> bool) :
  forallb P (map N.of_nat (seq 0 256)) = true -> forall b, b < 256 -> P b = true.
Proof.
  intros H b Hb. rewrite forallb_forall in H. apply H.
  apply in_map_iff. exists (N.to_nat b). split; [apply N2Nat.id|].
  apply in_seq. lia.
Qed.

Lemma land192 b : b < 256 -> N.land b 192 = 64 * (b / 64).
Proof.
  intro H. apply N.eqb_eq.
  apply (forall_byte (fun b => N.land b 192 =? 64 * (b / 64))); [vm_compute; reflexivity | exact H].
Qed.

Lemma land63 b : N.land b 63 = b mod 64.
Proof. change 63 with (N.ones 6). rewrite N.land_ones. reflexivity. Qed.
Lemma land255 b : N.land b 255 = b mod 256.
Proof. change 255 with (N.ones 8). rewrite N.land_ones. reflexivity. Qed.
Lemma land15 b : N.land b 15 = b mod 16.
Proof. change 15 with (N.ones 4). rewrite N.land_ones. reflexivity. Qed.

Lemma lor0 v : N.lor 0 v = v.
Proof. apply N.lor_0_l. Qed.
Lemma lor64 a : a < 64 -> N.lor 64 a = 64 + a.
Proof. intro H. change 64 with (1 * 2 ^ 6). rewrite lor_add_disjoint by exact H. reflexivity. Qed.
Lemma lor128 a : a < 64 -> N.lor 128 a = 128 + a.
Proof. intro H. change 128 with (2 * 2 ^ 6). rewrite lor_add_disjoint by exact H. reflexivity. Qed.
Lemma lor192 a : a < 64 -> N.lor 192 a = 192 + a.
Proof. intro H. change 192 with (3 * 2 ^ 6). rewrite lor_add_disjoint by exact H. reflexivity. Qed.

(* big-endian assembly with N.lor (restating TaggedProofs.be3/be4 without [bor]) *)
Lemma lor2 a b : a < 256 -> b < 256 -> N.lor (shl64 a 8) b = a * 256 + b.
Proof.
  intros. rewrite shl64_small by lia. change (2 ^ 8) with 256.
  change 256 with (2 ^ 8) at 1. rewrite lor_add_disjoint by (change (2 ^ 8) with 256; lia).
  reflexivity.
Qed.
Lemma lor3 a b c : a < 256 -> b < 256 -> c < 256 ->
  N.lor (N.lor (shl64 a 16) (shl64 b 8)) c = a * 65536 + b * 256 + c.
Proof. exact (be3 a b c). Qed.
Lemma lor4 a b c d : a < 256 -> b < 256 -> c < 256 -> d < 256 ->
  N.lor (N.lor (N.lor (shl64 a 24) (shl64 b 16)) (shl64 c 8)) d
  = a * 16777216 + b * 65536 + c * 256 + d.
Proof. exact (be4 a b c d). Qed.

Lemma u64_small v : v < 18446744073709551616 -> u64 v = v.
Proof. intro H. unfold u64. apply N.mod_small. exact H. Qed.
Lemma u8_small v : v < 256 -> u8 v = v.
Proof. intro H. unfold u8. apply N.mod_small. exact H. Qed.
Lemma add64_small a b : a + b < 18446744073709551616 -> add64 a b = a + b.
Proof. intro H. unfold add64. apply N.mod_small. exact H. Qed.

(* ---- pointer-offset reads ---- *)
Lemma byte_atz_mid pre l post i : (i < length l)%nat ->
  byte_atz (pre ++ l ++ post) (Z.of_nat (length pre) + Z.of_nat i) = nth i l 0.
Proof.
  intro H. unfold byte_atz, byte_at.
  destruct (Z.of_nat (length pre) + Z.of_nat i <? 0)%Z eqn:E; [lia|].
  replace (Z.to_nat (Z.of_nat (length pre) + Z.of_nat i)) with (length pre + i)%nat by lia.
  rewrite app_nth2_plus. apply app_nth1. exact H.
Qed.

Lemma byte_atz_mid0 pre b post :
  byte_atz (pre ++ b :: post) (Z.of_nat (length pre)) = b.
Proof.
  pose proof (byte_atz_mid pre [b] post 0) as H. cbn [length nth app] in H.
  rewrite Z.add_0_r in H. apply H. lia.
Qed.

Lemma nth_map_seq {A} (f : nat -> A) n len d : (n < len)%nat ->
  nth n (map f (seq 0 len)) d = f n.
Proof.
  intro H. rewrite (nth_indep _ d (f 0%nat)) by (rewrite map_length, seq_length; lia).
  rewrite map_nth, seq_nth by lia. reflexivity.
Qed.

Lemma map_byte_atz_mid pre l post :
  map (fun i => byte_atz (pre ++ l ++ post) (Z.of_nat (length pre) + Z.of_nat i)) (seq 0 (length l)) = l.
Proof.
  apply nth_ext with (d := 0) (d' := 0).
  - rewrite map_length, seq_length. reflexivity.
  - intros n Hn. rewrite map_length, seq_length in Hn.
    rewrite nth_map_seq by exact Hn. apply byte_atz_mid. exact Hn.
Qed.

Lemma rd_le_mid pre l post :
  rd_le (pre ++ l ++ post) (Z.of_nat (length pre)) (length l) = of_le l.
Proof. unfold rd_le. rewrite map_byte_atz_mid. reflexivity. Qed.

Lemma of_le_lt l : bytes_ok l -> of_le l < 256 ^ N.of_nat (length l).
Proof.
  unfold bytes_ok. induction 1 as [|b l Hb Hl IH].
  - simpl. lia.
  - cbn [of_le length]. rewrite Nat2N.inj_succ, N.pow_succ_r'.
    set (P := 256 ^ N.of_nat (length l)) in *. lia.
Qed.

(* ---- external put / get through the QuickMedium macros ---- *)
Ltac cases8 k :=
  let C := fresh "C" in
  assert (C : (k = 1 \/ k = 2 \/ k = 3 \/ k = 4 \/ k = 5 \/ k = 6 \/ k = 7 \/ k = 8)%nat) by lia;
  destruct C as [C|[C|[C|[C|[C|[C|[C|C]]]]]]]; subst k.

Lemma ext_put_qm v k : (1 <= k <= 8)%nat -> v < 18446744073709551616 ->
  ext_put_fixed_quick_medium v (N.of_nat k) = Some (le_bytes k v).
Proof.
  intros Hk Hv.
  cases8 k;
    unfold ext_put_fixed_quick_medium, split_ext_put_fixed;
    match goal with |- context [N.of_nat ?n] => let r := eval vm_compute in (N.of_nat n) in change (N.of_nat n) with r end;
    cbv beta iota zeta; rewrite ?u64_small by exact Hv; try reflexivity.
  - (* 2 *) cbn [le_bytes]. rewrite !land255. unfold shr. change (2 ^ 8) with 256. reflexivity.
  - (* 3 *) cbn [le_bytes]. rewrite !land255. unfold shr. change (2 ^ 8) with 256.
    change (2 ^ 16) with (256 * 256). rewrite <- N.div_div by lia. reflexivity.
Qed.

Lemma nth_lt_bytes l i : bytes_ok l -> nth i l 0 < 256.
Proof. intro H. apply (byte_at_lt l i H). Qed.

Lemma ext_get_qm pre l post k : (1 <= k <= 8)%nat -> length l = k -> bytes_ok l ->
  ext_get_quick_medium (pre ++ l ++ post) (Z.of_nat (length pre)) (N.of_nat k) = Some (of_le l).
Proof.
  intros Hk.
  assert (R : forall n, length l = n -> rd_le (pre ++ l ++ post) (Z.of_nat (length pre)) n = of_le l).
  { intros n <-. apply rd_le_mid. }
  cases8 k; intros Hl Hb;
    unfold ext_get_quick_medium, split_ext_get;
    match goal with |- context [N.of_nat ?n] => let r := eval vm_compute in (N.of_nat n) in change (N.of_nat n) with r end;
    cbv beta iota zeta; try (rewrite R by exact Hl; reflexivity).
  - (* 2 *)
    destruct l as [|a [|b [|c l]]]; try discriminate.
    change (Z.of_nat (length pre) + 1)%Z with (Z.of_nat (length pre) + Z.of_nat 1)%Z.
    change (Z.of_nat (length pre) + 0)%Z with (Z.of_nat (length pre) + Z.of_nat 0)%Z.
    rewrite !byte_atz_mid by (cbn [length]; lia). cbn [nth of_le].
    inversion Hb as [|? ? Ha Hb']; subst. inversion Hb' as [|? ? Hb1 _]; subst.
    rewrite lor2 by assumption. f_equal. lia.
  - (* 3 *)
    destruct l as [|a [|b [|c [|d l]]]]; try discriminate.
    change (Z.of_nat (length pre) + 2)%Z with (Z.of_nat (length pre) + Z.of_nat 2)%Z.
    change (Z.of_nat (length pre) + 1)%Z with (Z.of_nat (length pre) + Z.of_nat 1)%Z.
    change (Z.of_nat (length pre) + 0)%Z with (Z.of_nat (length pre) + Z.of_nat 0)%Z.
    rewrite !byte_atz_mid by (cbn [length]; lia). cbn [nth of_le].
    inversion Hb as [|? ? Ha Hb']; subst. inversion Hb' as [|? ? Hb1 Hb'']; subst.
    inversion Hb'' as [|? ? Hc _]; subst.
    rewrite lor3 by assumption. f_equal. lia.
Qed.

(* ---- frame of a store ---- *)
Lemma store_length buf off bs : (off + length bs <= length buf)%nat ->
  length (store buf off bs) = length buf.
Proof.
  intro H. unfold store. rewrite !app_length, firstn_length, skipn_length. lia.
Qed.

Lemma store_frame buf off bs i d : (off + length bs <= length buf)%nat ->
  (i < off \/ off + length bs <= i)%nat -> nth i (store buf off bs) d = nth i buf d.
Proof.
  intros H Hi. unfold store.
  destruct Hi as [Hi|Hi].
  - rewrite app_nth1 by (rewrite firstn_length; lia).
    rewrite <- (firstn_skipn off buf) at 2. rewrite app_nth1 by (rewrite firstn_length; lia). reflexivity.
  - rewrite app_nth2 by (rewrite firstn_length; lia). rewrite firstn_length.
    replace (Nat.min off (length buf)) with off by lia.
    rewrite app_nth2 by lia.
    rewrite <- (firstn_skipn (off + length bs) buf) at 2.
    rewrite app_nth2 by (rewrite firstn_length; lia). rewrite firstn_length.
    f_equal. lia.
Qed.

Lemma store_inside buf off bs i d : (off + length bs <= length buf)%nat ->
  (i < length bs)%nat -> nth (off + i) (store buf off bs) d = nth i bs d.
Proof.
  intros H Hi. unfold store.
  rewrite app_nth2 by (rewrite firstn_length; lia). rewrite firstn_length.
  replace (off + i - Nat.min off (length buf))%nat with i by lia.
  apply app_nth1. exact Hi.
Qed.

(* ---- more pointer-offset reads ---- *)
Lemma byte_atz_mid_z pre l post i : (0 <= i < Z.of_nat (length l))%Z ->
  byte_atz (pre ++ l ++ post) (Z.of_nat (length pre) + i) = nth (Z.to_nat i) l 0.
Proof. intro H. rewrite <- (Z2Nat.id i) at 1 by lia. apply byte_atz_mid. lia. Qed.

Lemma byte_atz_mid_0 pre l post : (0 < length l)%nat ->
  byte_atz (pre ++ l ++ post) (Z.of_nat (length pre)) = nth 0 l 0.
Proof.
  intro H. rewrite <- (Z.add_0_r (Z.of_nat (length pre))).
  change 0%Z with (Z.of_nat 0). apply (byte_atz_mid pre l post 0 H).
Qed.

Ltac kill_ifs :=
  repeat match goal with
  | |- context [if ?b then _ else _] =>
      let E := fresh "E" in destruct b eqn:E; try (exfalso; lia)
  end.

(* closed powers of 256 to numerals, in goal and hypotheses *)
Ltac norm256 :=
  repeat match goal with
  | H : context [256 ^ N.of_nat ?n] |- _ =>
      let r := eval vm_compute in (256 ^ N.of_nat n) in change (256 ^ N.of_nat n) with r in H
  | |- context [256 ^ N.of_nat ?n] =>
      let r := eval vm_compute in (256 ^ N.of_nat n) in change (256 ^ N.of_nat n) with r
  end.

Lemma of_le_le_bytes_small k v : v < 256 ^ N.of_nat k -> of_le (le_bytes k v) = v.
Proof. intro H. rewrite of_le_le_bytes. apply N.mod_small. exact H. Qed.

Lemma some_inj {A} (a b : A) : Some a = Some b -> a = b.
Proof. congruence. Qed.
