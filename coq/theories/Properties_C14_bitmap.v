(* Properties_C14_bitmap.v — C14 for varintBitmapDecode(buffer, len) (after the
   fix: commit for F14).  bm_decode z len returns (result or NULL, bytes asked from
   malloc); the model reads byte i of the buffer as `nth i z 0`, so "reads nothing
   at or beyond len" is the statement that the result does not depend on the
   bytes from position len on.  Termination: bm_decode is a total Coq function
   without fuel (structural recursion on the bytes read).  Statements only. *)
Require Import VV.Base VV.Bitmap VV.BitmapProofs VV.BitmapProofsSer.
Local Open Scope N_scope.

(* two buffers that agree on their first `len` bytes decode alike: nothing at or
   beyond the declared length is read, whatever the (truncated, corrupt, hostile)
   contents *)
Theorem C14_bitmap_decode_reads_below_len : forall z z' len,
  firstn (N.to_nat len) z = firstn (N.to_nat len) z' -> bm_decode z len = bm_decode z' len.
Proof. exact decode_nonint. Qed.
Print Assumptions C14_bitmap_decode_reads_below_len.

(* never asks for more than 24 + max(len, 8192) bytes *)
Theorem C14_bitmap_decode_bounded_allocation : forall z len,
  snd (bm_decode z len) <= 24 + N.max len 8192.
Proof. exact decode_alloc. Qed.
Print Assumptions C14_bitmap_decode_bounded_allocation.

(* it either fails or returns a bitmap satisfying the representation invariant
   (on which every later operation is covered by C08) *)
Theorem C14_bitmap_decode_result_wellformed : forall z len s,
  bytes_ok z -> fst (bm_decode z len) = Some s -> bm_Inv s.
Proof. exact decode_inv. Qed.
Print Assumptions C14_bitmap_decode_result_wellformed.

(* every truncation of every valid encoding is reported as an error *)
Theorem C14_bitmap_decode_truncated : forall s, bm_Inv s -> forall tl len,
  len < N.of_nat (length (bm_encode s)) -> fst (bm_decode (bm_encode s ++ tl) len) = None.
Proof. exact decode_truncated. Qed.
Print Assumptions C14_bitmap_decode_truncated.

(* non-vacuity: a 5-byte header announcing 3 array values is rejected when the
   declared length is 5 whatever follows in memory, and accepted with length 11 *)
Example C14_bitmap_example :
  fst (bm_decode [0; 3; 0; 0; 0; 1; 0; 2; 0; 3; 0] 5) = None /\
  option_map bm_to_array (fst (bm_decode [0; 3; 0; 0; 0; 1; 0; 2; 0; 3; 0] 11)) = Some [1; 2; 3] /\
  fst (bm_decode [7; 5; 0; 0; 0] 5) = None /\
  fst (bm_decode [0; 2; 0; 0; 0; 2; 0; 1; 0] 9) = None.
Proof. vm_compute. repeat split; reflexivity. Qed.
