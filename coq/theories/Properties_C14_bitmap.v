(* Properties_C14_bitmap.v — placeholder, theorems are added below as they are proved *)
Require Import VV.Base VV.Bitmap.
