(* Properties_C15.v — C15: results depend only on the arguments.
   PARTIAL by nature: Gallina functions are pure, so the models cannot hide
   state; what can be proved is (a) the library object files contain no
   writable global (regenerated fact), (b) with residue as the only channel
   between calls, residue-independence of each call gives history-independence
   of every call sequence.  That the C functions are residue-independent is
   established per run by the correspondence under different stack/heap
   poison patterns, shuffled order and same-API predecessors (and valgrind in
   the thorough tier), not by a proof about C. *)
Require Import VV.Purity.
Require Import VVgen.Globals.
From Coq Require Import List String.
Import ListNotations.

Theorem C15_no_writable_globals : writable_globals = [].
Proof. exact (eq_refl _). Qed.
Print Assumptions C15_no_writable_globals.

Theorem C15_history_independent :
  forall (Args Res Junk : Type) (call : Args -> Junk -> Res * Junk),
  (forall a j1 j2, fst (call a j1) = fst (call a j2)) ->
  forall (h : list Args) (a : Args) (j0 jfresh : Junk),
    fst (call a (fold_left (fun j a => snd (call a j)) h j0)) = fst (call a jfresh).
Proof. exact history_independent. Qed.
Print Assumptions C15_history_independent.
