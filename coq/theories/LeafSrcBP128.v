(* LeafSrcBP128.v — the regenerated renderings (coq/gen/Src_leaf_bp128.v, produced
   by gen/c2coq.py from the current src/varintBP128.c) of varintBP128BitsNeeded32
   and varintBP128BitsNeeded64 compute what the hand model (BP128.v: bits_needed,
   the bit length) computes, on all of uint32_t / uint64_t; and C16
   bp128_width_is_bit_length restated about them.

   The loop `while (value) { value >>= 1; bits++; }` is handled by the invariant
   lemma c_while_count: its k-th state is (value / 2^k, k); the two facts needed
   about the loop's step function (one iteration on a non-zero value, exit at 0)
   are proved by c_run on whatever text the translator produced for it. *)
Require Import VV.Base VV.BaseProofs VV.BP128 VV.BP128Lemmas VV.CSem VV.CSemProofs VV.LeafSrcLemmas.
Require Import VVgen.Src_leaf_bp128.
From Coq Require Import Lia ZifyBool ZifyN ZifyNat.
Local Open Scope Z_scope.
Ltac Zify.zify_post_hook ::= Z.div_mod_to_equations.

Lemma cok_lnext2 {R : Type} (a a' b b' : Z) :
  a = a' -> b = b' -> @COk (lstep (Z * Z) R) (LNext (a, b)) = COk (LNext (a', b')).
Proof. intros; subst; reflexivity. Qed.

Lemma bits_needed_le64 v : (v < 18446744073709551616)%N -> (bits_needed v <= 64)%N.
Proof. intro H. apply bits_needed_le. exact H. Qed.

(* shift right and count until zero, for any step function that does one such
   iteration on a non-zero value below M and stops at 0 *)
Lemma shift_count_loop {R : Type} (step : Z * Z -> cres (lstep (Z * Z) R)) (M : Z) (v : N) (fuel : nat) :
  Z.of_N v < M -> M <= 18446744073709551616 -> (64 < fuel)%nat ->
  (forall a l, 0 < a < M -> 0 <= l < 64 -> step (a, l) = COk (LNext (a / 2, l + 1))) ->
  (forall l, step (0, l) = COk (LBreak (0, l))) ->
  c_while fuel step (Z.of_N v, 0) = COk (LBreak (0, Z.of_N (bits_needed v))).
Proof.
  intros Hv HM Hf Hnext Hbrk.
  set (st := fun k : nat => (Z.of_N (v / 2 ^ N.of_nat k), Z.of_nat k)).
  pose proof (bits_needed_le64 v ltac:(lia)) as L64.
  pose proof (bits_needed_lt v) as Lt.
  assert (E0 : (v / 2 ^ bits_needed v = 0)%N) by (apply N.div_small; exact Lt).
  replace (Z.of_N v, 0) with (st 0%nat)
    by (unfold st; change (N.of_nat 0) with 0%N; rewrite N.pow_0_r, N.div_1_r; reflexivity).
  replace (0, Z.of_N (bits_needed v)) with (st (N.to_nat (bits_needed v)))
    by (unfold st; rewrite N2Nat.id, E0, N_nat_Z; reflexivity).
  apply c_while_count.
  - intros k Hk. unfold st.
    assert (P : (2 ^ N.of_nat k <> 0)%N) by (apply N.pow_nonzero; lia).
    assert (G : (1 <= v / 2 ^ N.of_nat k)%N).
    { apply N.div_le_lower_bound; [exact P|]. rewrite N.mul_1_r.
      destruct (N.le_gt_cases (2 ^ N.of_nat k) v) as [G|G]; [exact G|].
      pose proof (bits_needed_le v (N.of_nat k) G). lia. }
    assert (U : (v / 2 ^ N.of_nat k <= v)%N) by (apply N.div_le_upper_bound; [exact P|]; nia).
    rewrite Hnext by lia.
    apply cok_lnext2; [|lia].
    rewrite Nat2N.inj_succ, N.pow_succ_r', (N.mul_comm 2), <- N.div_div by (try exact P; lia).
    rewrite (N2Z.inj_div (v / 2 ^ N.of_nat k) 2). reflexivity.
  - unfold st. rewrite N2Nat.id, E0. apply Hbrk.
  - lia.
Qed.

Ltac shift_step STEP :=
  first [ intros a l Ha Hl; subst STEP; c_run; apply cok_lnext2; lia
        | intros l; subst STEP; c_run; reflexivity ].

(* all 2^64 arguments; fuel: 64 iterations and the final test *)
Lemma src_varintBP128BitsNeeded64_is_model : forall fuel v, (64 < fuel)%nat -> 0 <= v < 18446744073709551616 ->
  src_varintBP128BitsNeeded64 fuel v = COk (Z.of_N (bits_needed (Z.to_N v))).
Proof.
  intros fuel v Hf Hv.
  unfold src_varintBP128BitsNeeded64.
  match goal with |- context [c_while _ ?s _] => set (STEP := s) end.
  assert (H1 : forall a l, 0 < a < 18446744073709551616 -> 0 <= l < 64 -> STEP (a, l) = COk (LNext (a / 2, l + 1)))
    by shift_step STEP.
  assert (H2 : forall l, STEP (0, l) = COk (LBreak (0, l))) by shift_step STEP.
  pose proof (shift_count_loop STEP 18446744073709551616 (Z.to_N v) fuel ltac:(lia) ltac:(lia) Hf H1 H2) as Hloop.
  rewrite Z2N.id in Hloop by lia.
  c_run. all: closed_eval.
  all: first [ rewrite Hloop; reflexivity | assert (v = 0) by lia; subst v; reflexivity ].
Qed.

(* all 2^32 arguments *)
Lemma src_varintBP128BitsNeeded32_is_model : forall fuel v, (64 < fuel)%nat -> 0 <= v < 4294967296 ->
  src_varintBP128BitsNeeded32 fuel v = COk (Z.of_N (bits_needed (Z.to_N v))).
Proof.
  intros fuel v Hf Hv.
  unfold src_varintBP128BitsNeeded32.
  match goal with |- context [c_while _ ?s _] => set (STEP := s) end.
  assert (H1 : forall a l, 0 < a < 4294967296 -> 0 <= l < 64 -> STEP (a, l) = COk (LNext (a / 2, l + 1)))
    by shift_step STEP.
  assert (H2 : forall l, STEP (0, l) = COk (LBreak (0, l))) by shift_step STEP.
  pose proof (shift_count_loop STEP 4294967296 (Z.to_N v) fuel ltac:(lia) ltac:(lia) Hf H1 H2) as Hloop.
  rewrite Z2N.id in Hloop by lia.
  c_run. all: closed_eval.
  all: first [ rewrite Hloop; reflexivity | assert (v = 0) by lia; subst v; reflexivity ].
Qed.

(* ---------- property C16, about the regenerated functions ---------- *)

(* the reported width is the bit length: the least k with v < 2^k *)
Theorem src_bp128_width_is_bit_length64 : forall fuel v, (64 < fuel)%nat -> (v < 18446744073709551616)%N ->
  exists w, src_varintBP128BitsNeeded64 fuel (Z.of_N v) = COk (Z.of_N w) /\
    (w <= 64 /\ v < 2 ^ w /\ forall k, v < 2 ^ k -> w <= k)%N.
Proof.
  intros fuel v Hf Hv. exists (bits_needed v).
  rewrite src_varintBP128BitsNeeded64_is_model by lia. rewrite N2Z.id.
  split; [reflexivity|]. split; [apply bits_needed_le64; exact Hv|].
  split; [apply bits_needed_lt|apply bits_needed_le].
Qed.

Theorem src_bp128_width_is_bit_length32 : forall fuel v, (64 < fuel)%nat -> (v < 4294967296)%N ->
  exists w, src_varintBP128BitsNeeded32 fuel (Z.of_N v) = COk (Z.of_N w) /\
    (w <= 32 /\ v < 2 ^ w /\ forall k, v < 2 ^ k -> w <= k)%N.
Proof.
  intros fuel v Hf Hv. exists (bits_needed v).
  rewrite src_varintBP128BitsNeeded32_is_model by lia. rewrite N2Z.id.
  split; [reflexivity|]. split; [apply bits_needed_le; exact Hv|].
  split; [apply bits_needed_lt|apply bits_needed_le].
Qed.
