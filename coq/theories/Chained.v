(* Chained.v — Gallina model of src/varintChained.{c,h} (the sqlite3 varint)
   and src/varintChainedSimple.{c,h} (the leveldb varint with a 9-byte cap).
   One definition per C function / macro, same case structure, explicit
   truncations.  No proofs here. *)
Require Import VV.Base.
Local Open Scope N_scope.

(* ------------------------------------------------------------------ *)
(* varintChained.c                                                     *)
(* ------------------------------------------------------------------ *)

(* (uint8_t)((v & 0x7f) | 0x80) *)
Definition ch_cont (v : N) : N := u8 (N.lor (N.land v 127) 128).

(* putVarint64, 9-byte branch: `for (i = 7; i >= 0; i--) { p[i] = (v & 0x7f) | 0x80; v >>= 7; }`
   k = number of iterations left, acc = bytes p[k..8] already written. *)
Fixpoint ch_fill (k : nat) (v : N) (acc : list N) : list N :=
  match k with
  | O => acc
  | S k' => ch_fill k' (shr v 7) (ch_cont v :: acc)
  end.

(* putVarint64, general branch: `do { buf[n++] = (v&0x7f)|0x80; v >>= 7; } while (v != 0)`
   returns buf[0..n-1].  fuel = sizeof buf = 10, enough for every v < 2^70
   (the last admissible iteration always sees v >> 7 == 0); out of fuel the
   list simply stops (never reached for a uint64_t). *)
Fixpoint ch_digits (fuel : nat) (v : N) : list N :=
  match fuel with
  | O => []
  | S f => ch_cont v :: (if shr v 7 =? 0 then [] else ch_digits f (shr v 7))
  end.

(* buf[0] &= 0x7f *)
Definition ch_clear0 (buf : list N) : list N :=
  match buf with
  | [] => []
  | b0 :: t => N.land b0 127 :: t
  end.

(* static putVarint64: returns the bytes written (length = return value).
   `for (i = 0, j = n - 1; j >= 0; j--, i++) p[i] = buf[j]` is `rev`. *)
Definition ch_put64 (v : N) : list N :=
  if negb (N.land v 18374686479671623680 =? 0) (* v & (0xff000000 << 32) *)
  then ch_fill 8 (shr v 8) [u8 v]
  else rev (ch_clear0 (ch_digits 10 v)).

(* varintChainedPutVarint *)
Definition chained_put (v : N) : list N :=
  if v <=? 127 then [u8 (N.land v 127)]
  else if v <=? 16383 then [u8 (N.lor (N.land (shr v 7) 127) 128); u8 (N.land v 127)]
  else ch_put64 v.

Definition SLOT_2_0 : N := 2080895.      (* 0x001fc07f *)
Definition SLOT_4_2_0 : N := 4028612735. (* 0xf01fc07f *)

(* varintChainedGetVarint(p, &v): returns (width, value).  a, b, s are
   uint32_t: every `<<` is shl32.  The test `p[i] read as int8_t >= 0` is `p[i] < 128`.
   Nine return points, named by the width they return. *)
Definition chained_get (z : list N) : N * N :=
  let p i := byte_at z i in
  if p 0%nat <? 128 then (1, p 0%nat)
  else if p 1%nat <? 128 then
    (2, N.lor (shl32 (N.land (p 0%nat) 127) 7) (p 1%nat))
  else
    let a := shl32 (p 0%nat) 14 in
    let b := p 1%nat in
    let a := N.lor a (p 2%nat) in
    if N.land a 128 =? 0 then
      let a := N.land a SLOT_2_0 in
      let b := N.land b 127 in
      let b := shl32 b 7 in
      let a := N.lor a b in
      (3, a)
    else
    let a := N.land a SLOT_2_0 in
    let b := shl32 b 14 in
    let b := N.lor b (p 3%nat) in
    if N.land b 128 =? 0 then
      let b := N.land b SLOT_2_0 in
      let a := shl32 a 7 in
      let a := N.lor a b in
      (4, a)
    else
    let b := N.land b SLOT_2_0 in
    let s := a in
    let a := shl32 a 14 in
    let a := N.lor a (p 4%nat) in
    if N.land a 128 =? 0 then
      let b := shl32 b 7 in
      let a := N.lor a b in
      let s := shr s 18 in
      (5, N.lor (shl64 s 32) a)
    else
    let s := shl32 s 7 in
    let s := N.lor s b in
    let b := shl32 b 14 in
    let b := N.lor b (p 5%nat) in
    if N.land b 128 =? 0 then
      let a := N.land a SLOT_2_0 in
      let a := shl32 a 7 in
      let a := N.lor a b in
      let s := shr s 18 in
      (6, N.lor (shl64 s 32) a)
    else
    let a := shl32 a 14 in
    let a := N.lor a (p 6%nat) in
    if N.land a 128 =? 0 then
      let a := N.land a SLOT_4_2_0 in
      let b := N.land b SLOT_2_0 in
      let b := shl32 b 7 in
      let a := N.lor a b in
      let s := shr s 11 in
      (7, N.lor (shl64 s 32) a)
    else
    let a := N.land a SLOT_2_0 in
    let b := shl32 b 14 in
    let b := N.lor b (p 7%nat) in
    if N.land b 128 =? 0 then
      let b := N.land b SLOT_4_2_0 in
      let a := shl32 a 7 in
      let a := N.lor a b in
      let s := shr s 4 in
      (8, N.lor (shl64 s 32) a)
    else
    let a := shl32 a 15 in
    let a := N.lor a (p 8%nat) in
    let b := N.land b SLOT_2_0 in
    let b := shl32 b 8 in
    let a := N.lor a b in
    let s := shl32 s 4 in
    let b := p 4%nat in               (* p[-4] with p advanced by 8 *)
    let b := N.land b 127 in
    let b := shr b 3 in
    let s := N.lor s b in
    (9, N.lor (shl64 s 32) a).

(* varintChainedGetVarint32 as compiled: the header defines
   varintChained_getVarint32, so the 1-byte case is NOT in the function. *)
Definition chained_get32_fn (z : list N) : N * N :=
  let p i := byte_at z i in
  let a := p 0%nat in
  let b := p 1%nat in
  if N.land b 128 =? 0 then
    let a := N.land a 127 in
    let a := shl32 a 7 in
    (2, N.lor a b)
  else
    let a := shl32 a 14 in
    let a := N.lor a (p 2%nat) in
    if N.land a 128 =? 0 then
      let a := N.land a SLOT_2_0 in   (* (0x7f << 14) | 0x7f *)
      let b := N.land b 127 in
      let b := shl32 b 7 in
      (3, N.lor a b)
    else
      let r := chained_get z in
      let n := u8 (fst r) in
      let v64 := snd r in
      if negb (N.land v64 4294967295 =? v64) then (n, 4294967295)
      else (n, u32 v64).

(* macro varintChained_getVarint32(A, B):
   (uint8_t)( A[0] < 0x80 ? (B = A[0], 1) : varintChainedGetVarint32(A, &B) ) *)
Definition chained_get32 (z : list N) : N * N :=
  if byte_at z 0 <? 128 then (1, byte_at z 0)
  else let r := chained_get32_fn z in (u8 (fst r), snd r).

(* macro varintChained_putVarint32(A, B), B a uint32_t:
   ( (uint32_t)B < 0x80 ? (A[0] = (unsigned char)B, 1) : varintChainedPutVarint(A, B) ) *)
Definition chained_put32 (v : N) : list N :=
  if u32 v <? 128 then [u8 v] else chained_put v.

(* `while (v >>= 7) i++` starting from i; fuel 10 is enough for v < 2^70
   (the 10th shift gives 0); out of fuel returns the count so far. *)
Fixpoint len7_loop (fuel : nat) (v i : N) : N :=
  match fuel with
  | O => i
  | S f => if shr v 7 =? 0 then i else len7_loop f (shr v 7) (i + 1)
  end.

(* varintChainedVarintLen *)
Definition chained_len (v : N) : N :=
  let i := len7_loop 10 v 1 in if 9 <? i then 9 else i.

(* ------------------------------------------------------------------ *)
(* varintChainedSimple.c                                               *)
(* ------------------------------------------------------------------ *)

(* varintChainedSimpleEncode64: `for (; v >= 128 && writeP - p < 8; writeP++)`.
   The fuel IS the C's notAtMaximumWidth test (8 continuation bytes at
   most), not a proof device. *)
Fixpoint cs_enc (room : nat) (v : N) : list N :=
  match room with
  | O => [u8 v]
  | S r => if 128 <=? v then u8 (N.lor (N.land v 127) 128) :: cs_enc r (shr v 7)
           else [u8 v]
  end.
Definition csimple_encode64 (v : N) : list N := cs_enc 8 v.

(* varintChainedSimpleLength *)
Definition csimple_length (v : N) : N :=
  let i := len7_loop 10 v 1 in if 9 <? i then 9 else i.

(* varintChainedSimpleDecode64: returns (width, value); index i = mover - p,
   shift = 7 i (uint8_t, at most 63).  fuel 10 = the iterations allowed by
   `shift <= 63`; falling out of the loop is VARINT_WIDTH_INVALID (0) with
   *v unwritten (modelled as 0). *)
Fixpoint cs_dec (fuel : nat) (z : list N) (i : nat) (result : N) : N * N :=
  match fuel with
  | O => (0, 0)
  | S f =>
      let holder := byte_at z i in
      let shift := 7 * N.of_nat i in
      if negb (N.land holder 128 =? 0) && (i <? 8)%nat then
        cs_dec f z (S i) (N.lor result (shl64 (N.land holder 127) shift))
      else (N.of_nat (S i), N.lor result (shl64 holder shift))
  end.
Definition csimple_decode64 (z : list N) : N * N := cs_dec 10 z 0 0.

(* varintChainedSimpleEncode32 (v a uint32_t) *)
Definition csimple_encode32 (v : N) : list N :=
  if v <? 128 then [u8 v]
  else if v <? 16384 then [u8 (N.lor v 128); u8 (shr v 7)]
  else if v <? 2097152 then
    [u8 (N.lor v 128); u8 (N.lor (shr v 7) 128); u8 (shr v 14)]
  else if v <? 268435456 then
    [u8 (N.lor v 128); u8 (N.lor (shr v 7) 128); u8 (N.lor (shr v 14) 128); u8 (shr v 21)]
  else
    [u8 (N.lor v 128); u8 (N.lor (shr v 7) 128); u8 (N.lor (shr v 14) 128);
     u8 (N.lor (shr v 21) 128); u8 (shr v 28)].

(* varintChainedSimpleDecode32Fallback *)
Definition csimple_decode32_fallback (z : list N) : N * N :=
  let r := csimple_decode64 z in (fst r, u32 (snd r)).

(* varintChainedSimpleDecode32 *)
Definition csimple_decode32 (z : list N) : N * N :=
  if N.land (byte_at z 0) 128 =? 0 then (1, byte_at z 0)
  else csimple_decode32_fallback z.

(* EXTRACT: chained_put chained_get chained_get32_fn chained_get32 chained_put32
   chained_len csimple_encode64 csimple_length csimple_decode64 csimple_encode32
   csimple_decode32_fallback csimple_decode32 *)
