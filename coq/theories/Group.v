(* Group.v — Gallina model of src/varintGroup.{c,h}.

   Layout: [field_count:1][width bitmap: 2 bits per field, LSB first]
           [value_1]...[value_n], values little-endian at 1/2/4/8 bytes.
   The header constants are regenerated from the headers (coq/gen/Consts.v). *)
Require Import VV.Base VV.Delta VVgen.Consts.
Local Open Scope N_scope.

(* varintGroupBitmapSize_(fieldCount) *)
Definition group_bitmap_size (fieldCount : N) : N :=
  (fieldCount * VARINT_GROUP_WIDTH_BITS + 7) / 8.

(* varintGroupWidthDecode_(encoded) *)
Definition group_width_decode (encoded : N) : N :=
  match N.land encoded VARINT_GROUP_WIDTH_MASK with
  | 0 => 1
  | 1 => 2
  | 2 => 4
  | 3 => 8
  | _ => 0
  end.

(* varintGroupWidthEncode_(width) *)
Definition group_width_encode (width : N) : N :=
  match width with
  | 1 => 0
  | 2 => 1
  | 3 => 2
  | 4 => 2
  | 5 => 3
  | 6 => 3
  | 7 => 3
  | 8 => 3
  | _ => 3
  end.

(* the "normalize to supported widths" ladder of Encode and Size *)
Definition group_norm_width (v : N) : N :=
  let actual := N.of_nat (ext_width v) in
  if actual <=? 1 then 1
  else if actual <=? 2 then 2
  else if actual <=? 4 then 4
  else 8.

(* dst[bytePos] |= x, inside the cleared bitmap area *)
Fixpoint group_or_at (bm : list N) (pos : nat) (x : N) : list N :=
  match bm, pos with
  | [], _ => []
  | b :: t, O => u8 (N.lor b x) :: t
  | b :: t, S p => b :: group_or_at t p x
  end.

(* the bitmap-building part of the first loop of varintGroupEncode, field
   index i upwards *)
Fixpoint group_build_bitmap (widths : list N) (i : N) (bm : list N) : list N :=
  match widths with
  | [] => bm
  | w :: t =>
      let encoded := group_width_encode w in
      let bitPos := i * VARINT_GROUP_WIDTH_BITS in
      group_build_bitmap t (i + 1)
        (group_or_at bm (N.to_nat (bitPos / 8)) (encoded * 2 ^ (bitPos mod 8)))
  end.

(* the value loop of varintGroupEncode *)
Fixpoint group_put_values (vs widths : list N) : option (list N) :=
  match vs, widths with
  | v :: t, w :: wt =>
      match dfg_ext_put v w, group_put_values t wt with
      | Some b, Some r => Some (b ++ r)
      | _, _ => None
      end
  | _, _ => Some []
  end.

(* varintGroupEncode(dst, values, fieldCount): bytes written (none and
   return 0 for a refused fieldCount).  None: values[] shorter than
   fieldCount (the C would read past the caller's array). *)
Definition group_encode (values : list N) (fieldCount : N) : option (list N) :=
  if (fieldCount =? 0) || (VARINT_GROUP_MAX_FIELDS <? fieldCount) then Some []
  else if (length values <? N.to_nat fieldCount)%nat then None
  else
    let vs := firstn (N.to_nat fieldCount) values in
    let widths := map group_norm_width vs in
    let bm := group_build_bitmap widths 0 (repeat 0 (N.to_nat (group_bitmap_size fieldCount))) in
    match group_put_values vs widths with
    | Some body => Some (u8 fieldCount :: bm ++ body)
    | None => None
    end.

(* (src[1 + bitPos/8] >> bitPos%8) & MASK for field i *)
Definition group_field_code (src : list N) (i : N) : N :=
  let bitPos := i * VARINT_GROUP_WIDTH_BITS in
  N.land (shr (byte_at src (N.to_nat (1 + bitPos / 8))) (bitPos mod 8)) VARINT_GROUP_WIDTH_MASK.

(* widths of fields i, i+1, ..., i+n-1 *)
Fixpoint group_widths (src : list N) (i : N) (n : nat) : list N :=
  match n with
  | O => []
  | S n' => group_width_decode (group_field_code src i) :: group_widths src (i + 1) n'
  end.

Fixpoint group_sum (ws : list N) : N :=
  match ws with [] => 0 | w :: t => w + group_sum t end.

(* the value loop of varintGroupDecode *)
Fixpoint group_get_values (p : list N) (widths : list N) : option (list N) :=
  match widths with
  | [] => Some []
  | w :: t =>
      match dfg_ext_get p w, group_get_values (skipn (N.to_nat w) p) t with
      | Some v, Some r => Some (v :: r)
      | _, _ => None
      end
  end.

(* varintGroupDecode(src, values, &fieldCount, maxFields):
   (return value, what was stored to *fieldCount if anything, values stored) *)
Definition group_decode (src : list N) (maxFields : N) : option (N * option N * list N) :=
  let count := byte_at src 0 in
  if (count =? 0) || (VARINT_GROUP_MAX_FIELDS <? count) || (maxFields <? count)
  then Some (0, None, [])
  else
    let widths := group_widths src 0 (N.to_nat count) in
    let offset := 1 + group_bitmap_size count in
    match group_get_values (skipn (N.to_nat offset) src) widths with
    | Some vs => Some (offset + group_sum widths, Some count, vs)
    | None => None
    end.

(* varintGroupGetField(src, fieldIndex, &value): (return value, *value) *)
Definition group_get_field (src : list N) (fieldIndex : N) : option (N * option N) :=
  let count := byte_at src 0 in
  if (count =? 0) || (count <=? fieldIndex) then Some (0, None)
  else
    let targetWidth := group_width_decode (group_field_code src fieldIndex) in
    let offset := 1 + group_bitmap_size count
                  + group_sum (group_widths src 0 (N.to_nat fieldIndex)) in
    match dfg_ext_get (skipn (N.to_nat offset) src) targetWidth with
    | Some v => Some (offset + targetWidth, Some v)
    | None => None
    end.

(* varintGroupSize(values, fieldCount) *)
Definition group_size (values : list N) (fieldCount : N) : option N :=
  if (fieldCount =? 0) || (VARINT_GROUP_MAX_FIELDS <? fieldCount) then Some 0
  else if (length values <? N.to_nat fieldCount)%nat then None
  else
    Some (1 + group_bitmap_size fieldCount
          + group_sum (map group_norm_width (firstn (N.to_nat fieldCount) values))).

(* varintGroupGetSize(src) *)
Definition group_get_size (src : list N) : N :=
  let count := byte_at src 0 in
  if (count =? 0) || (VARINT_GROUP_MAX_FIELDS <? count) then 0
  else 1 + group_bitmap_size count + group_sum (group_widths src 0 (N.to_nat count)).

(* varintGroupGetFieldCount(src) *)
Definition group_get_field_count (src : list N) : N := byte_at src 0.

(* varintGroupGetFieldWidth(src, fieldIndex); 0 = VARINT_WIDTH_INVALID *)
Definition group_get_field_width (src : list N) (fieldIndex : N) : N :=
  let count := byte_at src 0 in
  if (count =? 0) || (count <=? fieldIndex) then 0
  else group_width_decode (group_field_code src fieldIndex).

(* EXTRACT: group_bitmap_size group_width_decode group_width_encode group_norm_width
   group_encode group_decode group_get_field group_size group_get_size
   group_get_field_count group_get_field_width *)
