(* LeafSrcGroupProps.v — the group theorems of property C16 restated about the
   regenerated functions (coq/gen/Src_leaf_group.v), by rewriting with the
   src_<f>_is_model lemmas of LeafSrcGroup.v. *)
Require Import VV.Base VV.BaseProofs VV.Delta VV.Group VV.GroupProofs VV.DfgLemmas VV.CSem VV.CSemProofs VV.LeafSrcGroup.
Require Import VVgen.Consts VVgen.Src_leaf_group.
From Coq Require Import Lia ZifyBool ZifyN ZifyNat.
Local Open Scope Z_scope.
Ltac Zify.zify_post_hook ::= Z.div_mod_to_equations.

(* ---------- property C16, group part, about the regenerated functions ---------- *)

Lemma enc_domain xs post : (1 <= length xs <= 64)%nat ->
  let z := (N.of_nat (length xs) :: gbm xs ++ gbody xs) ++ post in
  (1 <= length z)%nat /\ byte_at z 0 = N.of_nat (length xs) /\
  (1 + group_bitmap_size (N.of_nat (length xs)) <= N.of_nat (length z))%N.
Proof.
  intros H z. unfold z. rewrite app_length. pose proof (length_enc xs) as L.
  split; [cbn [length app]; lia|]. split; [reflexivity|]. lia.
Qed.

Theorem src_group_get_size : forall xs post fuel,
  (1 <= length xs <= 64)%nat -> Forall (fun x => (x < 18446744073709551616)%N) xs -> (64 < fuel)%nat ->
  exists enc, group_encode xs (N.of_nat (length xs)) = Some enc /\
    src_varintGroupGetSize fuel (enc ++ post) = COk (Z.of_nat (length enc)).
Proof.
  intros xs post fuel Hn Hx Hf.
  destruct (group_get_size_ok xs post Hn Hx) as (enc & He & Hs & _).
  exists enc. split; [exact He|].
  rewrite group_encode_eq in He by exact Hn. injection He as He. subst enc.
  destruct (enc_domain xs post Hn) as (D1 & D2 & D3).
  rewrite src_varintGroupGetSize_is_model; [rewrite Hs; f_equal; lia|exact Hf|exact D1|].
  rewrite D2. intros _. exact D3.
Qed.

Theorem src_group_get_field_width : forall xs post i,
  (1 <= length xs <= 64)%nat -> Forall (fun x => (x < 18446744073709551616)%N) xs -> (i < length xs)%nat ->
  exists enc, group_encode xs (N.of_nat (length xs)) = Some enc /\
    src_varintGroupGetFieldWidth (enc ++ post) (Z.of_nat i) = COk (Z.of_N (group_norm_width (nth i xs 0%N))).
Proof.
  intros xs post i Hn Hx Hi.
  destruct (group_get_field_width_ok xs post i Hn Hx Hi) as (enc & He & Hw).
  exists enc. split; [exact He|].
  rewrite group_encode_eq in He by exact Hn. injection He as He. subst enc.
  destruct (enc_domain xs post Hn) as (D1 & D2 & D3).
  rewrite src_varintGroupGetFieldWidth_is_model; [|lia|exact D1|].
  - replace (Z.to_N (Z.of_nat i)) with (N.of_nat i) by lia. rewrite Hw. reflexivity.
  - intros _. unfold group_bitmap_size, VARINT_GROUP_WIDTH_BITS in D3. rewrite Nat2Z.id. lia.
Qed.

(* the width the encoder picks for x, stored as a 2-bit code by varintGroupWidthEncode_ and read
   back by varintGroupWidthDecode_, is one of 1/2/4/8 and holds x *)
Theorem src_group_norm_width_fits : forall x, (x < 18446744073709551616)%N ->
  exists e, src_varintGroupWidthEncode_ (Z.of_N (group_norm_width x)) = COk e /\ 0 <= e < 4 /\
    src_varintGroupWidthDecode_ e = COk (Z.of_N (group_norm_width x)) /\
    (x < 256 ^ group_norm_width x)%N /\ In (group_norm_width x) [1; 2; 4; 8]%N.
Proof.
  intros x Hx. destruct (group_norm_width_fits x Hx) as (F1 & F2).
  pose proof (group_width_encode_lt (group_norm_width x)) as L.
  exists (Z.of_N (group_width_encode (group_norm_width x))).
  assert (R : (group_norm_width x <= 8)%N) by (cbn [In] in F2; lia).
  rewrite src_varintGroupWidthEncode__is_model by lia. rewrite N2Z.id.
  split; [reflexivity|]. split; [lia|].
  rewrite src_varintGroupWidthDecode__is_model by lia. rewrite N2Z.id.
  rewrite group_width_decode_encode. split; [reflexivity|]. split; assumption.
Qed.
