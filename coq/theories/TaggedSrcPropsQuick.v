(* TaggedSrcPropsQuick.v — C01 for the header's Quick macros, about their
   regenerated renderings src_q_* (coq/gen/Src_tagged.v). *)
Require Import VV.Base VV.BaseProofs VV.Tagged VV.TaggedProofs VV.TaggedSpecProofs VV.TaggedFixed VV.CSem VV.CSemProofs
  VV.TaggedSrcLen VV.TaggedSrcPut VV.TaggedSrcGet VV.TaggedSrcPropsPut VV.TaggedSrcQuick.
Require Import VVgen.Src_tagged.
From Coq Require Import Lia ZifyBool ZifyN ZifyNat.
Local Open Scope Z_scope.

Lemma src_tagged_quick_agree :
  (forall x, 0 <= x < 18446744073709551616 -> src_q_varintTaggedLenQuick x = src_varintTaggedLen x) /\
  (forall z, z <> [] -> bytes_ok z -> src_q_varintTaggedGetLenQuick_ z = src_varintTaggedGetLen z) /\
  (forall buf x w, 0 <= x < 18446744073709551616 -> 0 <= w <= 4294967295 -> (9 <= length buf)%nat ->
     exists w' out, src_varintTaggedPut64FixedWidth buf x w = COk (w', out) /\
                    src_q_varintTaggedPut64FixedWidthQuick_ buf x w = COk out) /\
  (forall x buf tl, 0 <= x < 18446744073709551616 -> (9 <= length buf)%nat -> bytes_ok tl ->
     exists w out, src_varintTaggedPut64 buf x = COk (w, out) /\
                   src_q_varintTaggedGet64Quick_ (firstn (Z.to_nat w) out ++ tl) = COk x).
Proof.
  repeat split.
  - intros x Hx. rewrite src_q_varintTaggedLenQuick_is_model, src_varintTaggedLen_is_model by assumption.
    rewrite tagged_len_quick_eq. reflexivity.
  - intros z NE Hz. pose proof (byte_at_lt z 0 Hz).
    rewrite src_q_varintTaggedGetLenQuick__is_model, src_varintTaggedGetLen_is_model by assumption. reflexivity.
  - intros buf x w Hx Hw Hb.
    rewrite src_varintTaggedPut64FixedWidth_is_model, src_q_varintTaggedPut64FixedWidthQuick__is_model
      by (try assumption; lia).
    rewrite tagged_put64_fixed_quick_eq. destruct (tagged_put64_fixed _ _); eexists; eexists; split; reflexivity.
  - intros x buf tl Hx Hb Htl. destruct (src_put64_ok buf x Hx Hb) as (w & out & E & W & F & _).
    exists w, out. split; [exact E|]. rewrite F.
    assert (X : (Z.to_N x < 18446744073709551616)%N) by lia.
    rewrite src_q_varintTaggedGet64Quick__is_model.
    + rewrite tagged_get64_quick_put by exact X. rewrite Z2N.id by lia. reflexivity.
    + apply bytes_ok_app; [apply bytes_ok_tagged_put64|exact Htl].
    + rewrite tagged_getlen_put by exact X. rewrite app_length.
      pose proof (tagged_put_length_nat (Z.to_N x)). lia.
Qed.
