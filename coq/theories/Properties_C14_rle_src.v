(* Properties_C14_rle_src.v — C14 for varintRLEGetRunCount(src, encodedSize),
   stated about the function regenerated from the current src/varintRLE.c by
   gen/c2coq.py (coq/gen/Src_rle.v; it calls src_varintTaggedGet of
   coq/gen/Src_tagged.v).  Loads are checked: reading at or beyond the end of
   the byte list is the outcome COob. *)
Require Import VV.Base VV.CSem VV.RleSrcProofs.
Require Import VVgen.Src_rle.
Local Open Scope Z_scope.

(* handed a byte list of EXACTLY encodedSize bytes — whatever they are: valid,
   truncated, hostile — the run counter never reads outside it and is never
   undefined: for every fuel the outcome is a count or "out of fuel", and it is a
   count as soon as the fuel exceeds the size *)
Theorem C14_src_rle_get_run_count_bounded : forall fuel z,
  bytes_ok z -> Z.of_nat (length z) < 9223372036854775808 ->
  (src_varintRLEGetRunCount fuel z (Z.of_nat (length z)) = CFuel \/
   exists r, src_varintRLEGetRunCount fuel z (Z.of_nat (length z)) = COk r) /\
  ((length z < fuel)%nat -> exists r, src_varintRLEGetRunCount fuel z (Z.of_nat (length z)) = COk r).
Proof. exact src_varintRLEGetRunCount_safe. Qed.
Print Assumptions C14_src_rle_get_run_count_bounded.

(* non-vacuity: a complete run, a run cut short by the end, and what an
   unbounded read of the same bytes would be *)
Example C14_src_rle_example :
  src_varintRLEGetRunCount 9 [3; 7; 2; 255]%N 4 = COk 1 /\
  src_varintRLEGetRunCount 9 [3; 7; 2; 255]%N 3 = COk 1 /\
  src_varintRLEGetRunCount 9 [3; 7; 2; 255]%N 13 = COob.
Proof. vm_compute. repeat split; reflexivity. Qed.
