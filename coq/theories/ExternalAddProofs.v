(* ExternalAddProofs.v — C12 for varintExternalAdd_ (NoGrow / Grow). *)
Require Import VV.Base VV.BaseProofs VV.External VV.ExternalLemmas VV.ExternalProofs.
From Coq Require Import Lia ZifyBool ZifyN ZifyNat Arith.
Local Open Scope N_scope.
Ltac Zify.zify_post_hook ::= Z.div_mod_to_equations.

(* the value the function reads from the slot *)
Definition slot_value (p : list N) (w : nat) : N := of_le (map (byte_at p) (seq 0 w)).

Lemma slot_value_get p w : (1 <= w <= 8)%nat -> ext_get p w = Some (slot_value p w).
Proof. apply ext_get_spec. Qed.

(* signed sum outside int64: failure, buffer untouched *)
Lemma external_add_overflow p w add force : (1 <= w <= 8)%nat ->
  in_s64 (to_s64 (slot_value p w) + add) = false ->
  external_add p w add force = Some (0%nat, p).
Proof.
  intros Hw Hov. unfold external_add. rewrite slot_value_get by exact Hw. cbv zeta.
  rewrite Hov. reflexivity.
Qed.

(* no overflow, no-grow form, sum needs more bytes: width required, buffer untouched *)
Lemma external_add_nogrow_refused p w add : (1 <= w <= 8)%nat ->
  in_s64 (to_s64 (slot_value p w) + add) = true ->
  (w < ext_width (of_s64 (to_s64 (slot_value p w) + add)))%nat ->
  external_add p w add false
  = Some (ext_width (of_s64 (to_s64 (slot_value p w) + add)), p).
Proof.
  intros Hw Hin Hn. unfold external_add. rewrite slot_value_get by exact Hw. cbv zeta.
  rewrite Hin. cbn [negb]. unfold ext_unsigned_encoding.
  destruct (w <? ext_width _)%nat eqn:E; [reflexivity|].
  apply Nat.ltb_ge in E. lia.
Qed.

(* no overflow, and (grow form, or the sum fits the current width): the sum is stored *)
Lemma external_add_stores p w add force : (1 <= w <= 8)%nat ->
  in_s64 (to_s64 (slot_value p w) + add) = true ->
  force = true \/ (ext_width (of_s64 (to_s64 (slot_value p w) + add)) <= w)%nat ->
  external_add p w add force
  = Some (ext_width (of_s64 (to_s64 (slot_value p w) + add)),
          store p 0 (ext_put (of_s64 (to_s64 (slot_value p w) + add)))).
Proof.
  intros Hw Hin Hc. unfold external_add. rewrite slot_value_get by exact Hw. cbv zeta.
  rewrite Hin. cbn [negb]. unfold ext_unsigned_encoding.
  destruct (w <? ext_width _)%nat eqn:E.
  - destruct Hc as [->|Hc]; [reflexivity|]. apply Nat.ltb_lt in E. lia.
  - reflexivity.
Qed.

(* consequences of a store of `ext_put nv` at offset 0 *)
Lemma stored_reads_back p nv : nv < 18446744073709551616 ->
  ext_get (store p 0 (ext_put nv)) (ext_width nv) = Some nv.
Proof.
  intro H. rewrite store0_app. rewrite <- (ext_put_length nv H). apply external_roundtrip. exact H.
Qed.

Lemma stored_frame p nv i : nv < 18446744073709551616 -> (ext_width nv <= i)%nat ->
  nth i (store p 0 (ext_put nv)) 0 = nth i p 0.
Proof. intros H Hi. apply nth_store0_beyond. rewrite ext_put_length by exact H. exact Hi. Qed.

Lemma stored_length p nv : nv < 18446744073709551616 ->
  length (store p 0 (ext_put nv)) = Nat.max (ext_width nv) (length p).
Proof. intro H. rewrite length_store0, ext_put_length by exact H. reflexivity. Qed.

Lemma add_case force (n w : nat) :
  {force = true \/ (n <= w)%nat} + {force = false /\ (w < n)%nat}.
Proof.
  destruct force; [left; left; reflexivity|].
  destruct (le_lt_dec n w); [left; right; assumption|right; split; [reflexivity|assumption]].
Qed.

(* The whole of C12 for the external family in one statement.
   old = the stored bytes reinterpreted as int64_t. *)
Lemma external_add_correct p w add force : (1 <= w <= 8)%nat -> (w <= length p)%nat ->
  let old := to_s64 (slot_value p w) in
  let sum := (old + add)%Z in
  let nv := of_s64 sum in
  let n := ext_width nv in
  exists r buf, external_add p w add force = Some (r, buf) /\
    (* overflow: width 0, nothing changes *)
    (in_s64 sum = false -> r = 0%nat /\ buf = p) /\
    (in_s64 sum = true ->
       r = n /\ (1 <= n <= 8)%nat /\
       (* no-grow and the sum does not fit: nothing changes *)
       (force = false -> (w < n)%nat -> buf = p) /\
       (* otherwise exactly the sum is stored in n bytes, nothing else moves *)
       (force = true \/ (n <= w)%nat ->
          buf = store p 0 (ext_put nv) /\
          ext_get buf n = Some nv /\
          (forall i, (n <= i)%nat -> nth i buf 0 = nth i p 0) /\
          length buf = Nat.max n (length p)) /\
       (* the no-grow form never touches a byte at index >= w and keeps the length *)
       (force = false -> (forall i, (w <= i)%nat -> nth i buf 0 = nth i p 0) /\ length buf = length p)).
Proof.
  intros Hw Hlen old sum nv n.
  assert (Hnv : nv < 18446744073709551616) by apply of_s64_lt.
  pose proof (ext_width_range nv Hnv) as Hn. fold n in Hn.
  destruct (in_s64 sum) eqn:Hin.
  - destruct (add_case force n w) as [Hc|Hc].
    + (* stores *)
      pose proof (external_add_stores p w add force Hw Hin Hc) as E. fold old sum nv n in E.
      eexists _, _. split; [exact E|]. split; [discriminate|]. intros _.
      split; [reflexivity|]. split; [exact Hn|]. split.
      { intros Hf Hlt. destruct Hc as [Hc|Hc]; [congruence|lia]. }
      split.
      { intros _. split; [reflexivity|]. split; [apply stored_reads_back; exact Hnv|].
        split; [intros i Hi; apply stored_frame; assumption|apply stored_length; exact Hnv]. }
      intros Hf. destruct Hc as [Hc|Hc]; [congruence|]. split.
      * intros i Hi. apply stored_frame; [exact Hnv|fold n; lia].
      * rewrite stored_length by exact Hnv. fold n. lia.
    + (* refused *)
      destruct Hc as [Hf Hlt]. subst force.
      pose proof (external_add_nogrow_refused p w add Hw Hin Hlt) as E. fold old sum nv n in E.
      eexists _, _. split; [exact E|]. split; [discriminate|]. intros _.
      split; [reflexivity|]. split; [exact Hn|]. split; [reflexivity|]. split.
      { intros [Hc|Hc]; [discriminate|lia]. }
      intros _. split; reflexivity.
  - pose proof (external_add_overflow p w add force Hw Hin) as E.
    eexists _, _. split; [exact E|]. split; [intros _; split; reflexivity|discriminate].
Qed.

(* ---- the same facts phrased with the value read by ext_get (the form used
   in Properties_C12_external.v) ---- *)

Lemma get_slot p w u : (1 <= w <= 8)%nat -> ext_get p w = Some u -> u = slot_value p w.
Proof. intros Hw G. rewrite slot_value_get in G by exact Hw. congruence. Qed.

Lemma add_overflow_u p w add force u : (1 <= w <= 8)%nat -> ext_get p w = Some u ->
  in_s64 (to_s64 u + add) = false -> external_add p w add force = Some (0%nat, p).
Proof. intros Hw G. rewrite (get_slot p w u Hw G). apply external_add_overflow. exact Hw. Qed.

Lemma add_nogrow_refused_u p w add u : (1 <= w <= 8)%nat -> ext_get p w = Some u ->
  in_s64 (to_s64 u + add) = true ->
  (w < ext_width (of_s64 (to_s64 u + add)))%nat ->
  external_add p w add false = Some (ext_width (of_s64 (to_s64 u + add)), p).
Proof. intros Hw G. rewrite (get_slot p w u Hw G). apply external_add_nogrow_refused. exact Hw. Qed.

Lemma add_stores_u p w add force u : (1 <= w <= 8)%nat -> ext_get p w = Some u ->
  in_s64 (to_s64 u + add) = true ->
  force = true \/ (ext_width (of_s64 (to_s64 u + add)) <= w)%nat ->
  external_add p w add force
    = Some (ext_width (of_s64 (to_s64 u + add)), store p 0 (ext_put (of_s64 (to_s64 u + add)))) /\
  ext_get (store p 0 (ext_put (of_s64 (to_s64 u + add)))) (ext_width (of_s64 (to_s64 u + add)))
    = Some (of_s64 (to_s64 u + add)) /\
  (forall i, (ext_width (of_s64 (to_s64 u + add)) <= i)%nat ->
     nth i (store p 0 (ext_put (of_s64 (to_s64 u + add)))) 0 = nth i p 0) /\
  length (store p 0 (ext_put (of_s64 (to_s64 u + add))))
    = Nat.max (ext_width (of_s64 (to_s64 u + add))) (length p) /\
  (1 <= ext_width (of_s64 (to_s64 u + add)) <= 8)%nat.
Proof.
  intros Hw G Hin Hc. rewrite (get_slot p w u Hw G) in *.
  pose proof (of_s64_lt (to_s64 (slot_value p w) + add)) as Hnv.
  split; [apply external_add_stores; assumption|].
  split; [apply stored_reads_back; exact Hnv|].
  split; [intros i Hi; apply stored_frame; assumption|].
  split; [apply stored_length; exact Hnv|apply ext_width_range; exact Hnv].
Qed.

Lemma add_nogrow_frame p w add r buf : (1 <= w <= 8)%nat -> (w <= length p)%nat ->
  external_add p w add false = Some (r, buf) ->
  (forall i, (w <= i)%nat -> nth i buf 0 = nth i p 0) /\ length buf = length p /\
  (firstn w buf <> firstn w p -> (1 <= r <= w)%nat).
Proof.
  intros Hw Hl E.
  destruct (external_add_correct p w add false Hw Hl) as (r' & buf' & E' & Hov & Hok).
  rewrite E in E'. injection E' as <- <-.
  destruct (in_s64 (to_s64 (slot_value p w) + add)) eqn:Hin.
  - destruct (Hok eq_refl) as (Hr & Hn & Hrefuse & Hstore & Hframe).
    destruct (Hframe eq_refl) as (F1 & F2). split; [exact F1|]. split; [exact F2|].
    intro Hd. destruct (le_lt_dec r w) as [L|G]; [lia|].
    exfalso. apply Hd. rewrite (Hrefuse eq_refl) by lia. reflexivity.
  - destruct (Hov eq_refl) as (-> & ->). split; [reflexivity|]. split; [reflexivity|].
    intro Hd. exfalso. apply Hd. reflexivity.
Qed.

Lemma add_defined p w add force : (1 <= w <= 8)%nat ->
  exists r buf, external_add p w add force = Some (r, buf) /\ (r <= 8)%nat.
Proof.
  intro Hw. unfold external_add. rewrite slot_value_get by exact Hw. cbv zeta.
  pose proof (ext_width_range _ (of_s64_lt (to_s64 (slot_value p w) + add))).
  unfold ext_unsigned_encoding.
  destruct (negb (in_s64 _)); [eexists _, _; split; [reflexivity|lia]|].
  destruct ((w <? _)%nat && negb force); eexists _, _; (split; [reflexivity|lia]).
Qed.
