(* AdaptiveFloatProofs.v — the integer binary32 helper of Adaptive.v
   (adp_round_ratio, adp_f32_of_N, adp_f32_div, adp_f32_lt) against Flocq's
   binary32 (AdaptiveFloatSpec.v). *)
Require Import VV.Base VV.Adaptive VV.AdaptiveFloatSpec VV.AdaptiveFloatRound.
From Flocq Require Import Core Binary Bits.
From Coq Require Import Reals Lra Lia ZifyBool ZifyN ZArith NArith Bool.
Local Open Scope N_scope.

(* the real number an adp_f32 denotes *)
Definition afl_R (f : adp_f32) : R :=
  match f with
  | AF0 => 0%R
  | AF m e => (IZR (Z.of_N m) * bpow radix2 e)%R
  end.

Notation NR n := (IZR (Z.of_N n)).

Lemma afl_NR_pow2 t : NR (2 ^ t) = bpow radix2 (Z.of_N t).
Proof.
  rewrite N2Z.inj_pow. change (Z.of_N 2) with (radix_val radix2). apply IZR_Zpower. lia.
Qed.

Lemma afl_NR_pos n : 0 < n -> (0 < NR n)%R.
Proof. intros. apply IZR_lt. lia. Qed.

(* step 1: scaling p/q into (2^22, 2^24) *)
Lemma afl_scale p q : 0 < p -> 0 < q ->
  let e0 := (Z.of_N (N.log2 p) - Z.of_N (N.log2 q) - 23)%Z in
  let num := if (e0 <? 0)%Z then p * 2 ^ Z.to_N (- e0) else p in
  let den := if (e0 <? 0)%Z then q else q * 2 ^ Z.to_N e0 in
  0 < den /\ 4194304 * den < num /\ num < 16777216 * den /\
  (NR num / NR den * bpow radix2 e0 = NR p / NR q)%R.
Proof.
  intros Hp Hq e0 num den.
  destruct (N.log2_spec p Hp) as [Pl Ph]. destruct (N.log2_spec q Hq) as [Ql Qh].
  rewrite N.pow_succ_r' in Ph, Qh.
  set (lp := N.log2 p) in *. set (lq := N.log2 q) in *.
  set (A := 2 ^ lp) in *. set (B := 2 ^ lq) in *.
  assert (Pp : (0 < NR p)%R) by (apply afl_NR_pos; lia).
  assert (Pq : (0 < NR q)%R) by (apply afl_NR_pos; lia).
  destruct (e0 <? 0)%Z eqn:E0.
  - set (t := Z.to_N (- e0)) in *. set (T := 2 ^ t) in *.
    assert (Et : lp + t = lq + 23) by (unfold t, e0; lia).
    assert (ET : A * T = B * 8388608).
    { unfold A, T, B. change 8388608 with (2 ^ 23). rewrite <- !N.pow_add_r. f_equal. exact Et. }
    assert (Tp : 0 < T) by (unfold T; apply N.neq_0_lt_0, N.pow_nonzero; lia).
    unfold num, den. repeat split; try nia.
    rewrite N2Z.inj_mul, mult_IZR. fold T. unfold T. rewrite afl_NR_pow2.
    replace e0 with (- Z.of_N t)%Z by (unfold t; lia). rewrite bpow_opp.
    pose proof (bpow_gt_0 radix2 (Z.of_N t)). field. split; lra.
  - set (t := Z.to_N e0) in *. set (T := 2 ^ t) in *.
    assert (Et : lp = lq + 23 + t) by (unfold t, e0; lia).
    assert (ET : A = B * 8388608 * T).
    { unfold A, T, B. change 8388608 with (2 ^ 23). rewrite <- !N.pow_add_r. f_equal. exact Et. }
    assert (Tp : 0 < T) by (unfold T; apply N.neq_0_lt_0, N.pow_nonzero; lia).
    unfold num, den. repeat split; try nia.
    rewrite N2Z.inj_mul, mult_IZR. fold T. unfold T. rewrite afl_NR_pow2.
    replace e0 with (Z.of_N t)%Z by (unfold t; lia).
    pose proof (bpow_gt_0 radix2 (Z.of_N t)). field. split; lra.
Qed.

Lemma afl_odd_N k : Z.odd (Z.of_N k) = N.odd k.
Proof. destruct k as [|[?|?|]]; reflexivity. Qed.

(* step 2: the quotient digit selection is afl_rne_q *)
Lemma afl_rne_N n d : 0 < d ->
  Z.of_N (if (d <? 2 * (n mod d)) || ((2 * (n mod d) =? d) && N.odd (n / d)) then n / d + 1 else n / d)
  = afl_rne_q (Z.of_N n) (Z.of_N d).
Proof.
  intros Hd. unfold afl_rne_q. cbv zeta.
  rewrite <- N2Z.inj_div, <- N2Z.inj_mod by lia. rewrite afl_odd_N.
  set (k := n / d). set (r := n mod d).
  replace (Z.of_N d <? 2 * Z.of_N r)%Z with (d <? 2 * r) by lia.
  replace (2 * Z.of_N r =? Z.of_N d)%Z with (2 * r =? d) by lia.
  destruct ((d <? 2 * r) || ((2 * r =? d) && N.odd k)); lia.
Qed.

Definition afl_round := round radix2 (FLX_exp 24) ZnearestE.

Lemma afl_tail num1 den e1 : 0 < den -> 8388608 * den <= num1 -> num1 < 16777216 * den ->
  exists m e,
    (let k := num1 / den in
     let r := num1 mod den in
     let k' := if (den <? 2 * r) || ((2 * r =? den) && N.odd k) then k + 1 else k in
     if k' =? 16777216 then AF 8388608 (e1 + 1) else AF k' e1) = AF m e /\
    8388608 <= m < 16777216 /\
    forall s, afl_round (NR num1 / NR den * bpow radix2 (e1 + s)) = (NR m * bpow radix2 (e + s))%R.
Proof.
  intros Hd L H. cbv zeta.
  assert (K1 : 8388608 <= num1 / den) by (apply N.div_le_lower_bound; lia).
  assert (K2 : num1 / den < 16777216) by (apply N.div_lt_upper_bound; lia).
  pose proof (afl_rne_N num1 den Hd) as EQ.
  set (k' := if (den <? 2 * (num1 mod den)) || ((2 * (num1 mod den) =? den) && N.odd (num1 / den))
             then num1 / den + 1 else num1 / den) in *.
  assert (K' : 8388608 <= k' <= 16777216).
  { unfold k'. destruct ((den <? 2 * (num1 mod den)) || ((2 * (num1 mod den) =? den) && N.odd (num1 / den))); lia. }
  assert (Rd : forall s, afl_round (NR num1 / NR den * bpow radix2 (e1 + s)) = (NR k' * bpow radix2 (e1 + s))%R).
  { intros s. unfold afl_round. rewrite afl_round_core by lia. rewrite EQ. reflexivity. }
  destruct (k' =? 16777216) eqn:Ek.
  - exists 8388608, (e1 + 1)%Z. split; [reflexivity|]. split; [lia|].
    intros s. rewrite Rd. replace k' with 16777216 by lia.
    replace (e1 + 1 + s)%Z with (1 + (e1 + s))%Z by lia. rewrite (bpow_plus radix2 1).
    change (bpow radix2 1) with 2%R. change (NR 16777216) with 16777216%R. change (NR 8388608) with 8388608%R. ring.
  - exists k', e1. split; [reflexivity|]. split; [lia|]. exact Rd.
Qed.

(* step 3: adp_round_ratio p q is p/q rounded to nearest even, 24 bits, with
   any power-of-two scaling commuting *)
Lemma afl_round_ratio_spec p q : 0 < p -> 0 < q ->
  exists m e, adp_round_ratio p q = AF m e /\ 8388608 <= m < 16777216 /\
    forall s, afl_round (NR p / NR q * bpow radix2 s) = (NR m * bpow radix2 (e + s))%R.
Proof.
  intros Hp Hq. unfold adp_round_ratio. replace (p =? 0) with false by lia.
  pose proof (afl_scale p q Hp Hq) as S. cbv zeta in S |- *.
  set (e0 := (Z.of_N (N.log2 p) - Z.of_N (N.log2 q) - 23)%Z) in *.
  set (num := if (e0 <? 0)%Z then p * 2 ^ Z.to_N (- e0) else p) in *.
  set (den := if (e0 <? 0)%Z then q else q * 2 ^ Z.to_N e0) in *.
  destruct S as (Dp & L & H & E).
  assert (Pd : (0 < NR den)%R) by (apply afl_NR_pos; lia).
  destruct (num / den <? 8388608) eqn:Lq.
  - assert (Hl : num < 8388608 * den).
    { destruct (N.lt_ge_cases num (8388608 * den)) as [A|A]; [exact A|].
      pose proof (N.div_le_lower_bound num den 8388608 ltac:(lia) ltac:(lia)). lia. }
    destruct (afl_tail (2 * num) den (e0 - 1)%Z Dp ltac:(lia) ltac:(lia)) as (m & e & E1 & Bm & Rd).
    exists m, e. split; [exact E1|]. split; [exact Bm|].
    intros s. rewrite <- Rd. f_equal. rewrite <- E.
    rewrite N2Z.inj_mul, mult_IZR. replace (e0 - 1 + s)%Z with (e0 + (-1) + s)%Z by lia.
    rewrite !bpow_plus. change (bpow radix2 (-1)) with (/ 2)%R. change (NR 2) with 2%R. field. lra.
  - assert (Hl : 8388608 * den <= num).
    { destruct (N.lt_ge_cases num (8388608 * den)) as [A|A]; [|exact A].
      pose proof (N.div_lt_upper_bound num den 8388608 ltac:(lia) ltac:(lia)). lia. }
    destruct (afl_tail num den e0 Dp Hl H) as (m & e & E1 & Bm & Rd).
    exists m, e. split; [exact E1|]. split; [exact Bm|].
    intros s. rewrite <- Rd. f_equal. rewrite <- E. rewrite bpow_plus. ring.
Qed.

(* ------------------------------------------------------------------ *)
(* binary32 = FLT(-149, 24); in [2^-126, 2^128) it coincides with FLX 24   *)

Local Instance afl_prec_gt_0 : Prec_gt_0 24 := flt32_prec_gt_0.

Definition afl_round32 := round radix2 (FLT_exp (-149) 24) ZnearestE.

Lemma afl_round32_FLX x : (bpow radix2 (-126) <= Rabs x)%R -> afl_round32 x = afl_round x.
Proof. intros H. unfold afl_round32, afl_round. apply round_FLT_FLX. exact H. Qed.

Lemma afl_round_between lo hi x : (bpow radix2 lo <= x <= bpow radix2 hi)%R ->
  (bpow radix2 lo <= afl_round x <= bpow radix2 hi)%R.
Proof.
  intros [L H]. unfold afl_round. split.
  - apply round_ge_generic; auto with typeclass_instances.
    apply generic_format_bpow. unfold FLX_exp. lia.
  - apply round_le_generic; auto with typeclass_instances.
    apply generic_format_bpow. unfold FLX_exp. lia.
Qed.

Lemma afl_bpow_lt_128 e x : (e < 128)%Z -> (0 <= x <= bpow radix2 e)%R ->
  Rlt_bool (Rabs x) (bpow radix2 128) = true.
Proof.
  intros He [L H]. apply Rlt_bool_true. rewrite Rabs_pos_eq by exact L.
  apply Rle_lt_trans with (1 := H). apply bpow_lt. exact He.
Qed.

(* well-formed helper values: 0, or a 24-bit significand with the top bit set *)
Definition afl_wf (f : adp_f32) : Prop :=
  match f with AF0 => True | AF m e => 8388608 <= m < 16777216 end.

(* ---- (float)n ---- *)

Lemma afl_of_N_pos a : 0 < a -> a < 18446744073709551616 ->
  exists m e, adp_f32_of_N a = AF m e /\ 8388608 <= m < 16777216 /\
    afl_round32 (NR a) = (NR m * bpow radix2 e)%R /\
    (bpow radix2 0 <= NR m * bpow radix2 e <= bpow radix2 64)%R.
Proof.
  intros Hp Ha. unfold adp_f32_of_N.
  destruct (afl_round_ratio_spec a 1 Hp ltac:(lia)) as (m & e & E & Bm & Rd).
  exists m, e. split; [exact E|]. split; [exact Bm|].
  specialize (Rd 0%Z). replace (e + 0)%Z with e in Rd by lia.
  assert (X : (NR a / NR 1 * bpow radix2 0 = NR a)%R) by (simpl; field).
  rewrite X in Rd.
  assert (B : (bpow radix2 0 <= NR a <= bpow radix2 64)%R).
  { change (bpow radix2 0) with (IZR 1). change (bpow radix2 64) with (IZR 18446744073709551616).
    split; apply IZR_le; lia. }
  split.
  - rewrite afl_round32_FLX; [exact Rd|].
    rewrite Rabs_pos_eq by (apply IZR_le; lia).
    apply Rle_trans with (2 := proj1 B). apply bpow_le. lia.
  - rewrite <- Rd. apply afl_round_between. exact B.
Qed.

Theorem afl_of_N_correct a : a < 18446744073709551616 ->
  B2R 24 128 (flt32_of_N a) = afl_R (adp_f32_of_N a) /\
  is_finite 24 128 (flt32_of_N a) = true /\ afl_wf (adp_f32_of_N a).
Proof.
  intros Ha. unfold flt32_of_N.
  pose proof (binary_normalize_correct 24 128 flt32_prec_gt_0 flt32_prec_lt_emax
                BinarySingleNaN.mode_NE (Z.of_N a) 0 false) as C.
  cbn [BinarySingleNaN.round_mode] in C.
  change (SpecFloat.fexp 24 128) with (FLT_exp (-149) 24) in C.
  assert (X : F2R (Float radix2 (Z.of_N a) 0) = NR a) by (unfold F2R; simpl; ring).
  rewrite X in C. fold afl_round32 in C.
  destruct (N.eq_dec a 0) as [->|Hn].
  - change (NR 0) with 0%R in C. unfold afl_round32 in C. rewrite round_0 in C by auto with typeclass_instances.
    rewrite Rabs_R0, Rlt_bool_true in C by apply bpow_gt_0.
    destruct C as (C1 & C2 & _). rewrite C1, C2. repeat split; reflexivity.
  - destruct (afl_of_N_pos a ltac:(lia) Ha) as (m & e & E & Bm & Rd & Bd).
    rewrite Rd in C. rewrite (afl_bpow_lt_128 64) in C by (try lia; pose proof (bpow_gt_0 radix2 0); lra).
    destruct C as (C1 & C2 & _). rewrite C1, C2, E. repeat split; try reflexivity; cbn [afl_wf]; lia.
Qed.

(* ---- (float)a / (float)b ---- *)

Lemma afl_quot_bounds x y : (bpow radix2 0 <= x <= bpow radix2 64)%R -> (bpow radix2 0 <= y <= bpow radix2 64)%R ->
  (bpow radix2 (-64) <= x / y <= bpow radix2 64)%R.
Proof.
  intros [X1 X2] [Y1 Y2]. change (bpow radix2 0) with 1%R in *.
  assert (P : (0 < bpow radix2 64)%R) by apply bpow_gt_0.
  assert (U1 : (/ y <= 1)%R) by (rewrite <- Rinv_1; apply Rinv_le_contravar; lra).
  assert (U2 : (bpow radix2 (-64) <= / y)%R).
  { change (-64)%Z with (- (64))%Z. rewrite bpow_opp. apply Rinv_le_contravar; lra. }
  assert (U0 : (0 < / y)%R) by (apply Rinv_0_lt_compat; lra).
  unfold Rdiv. split.
  - apply Rle_trans with (1 := U2). rewrite <- (Rmult_1_l (/ y)) at 1. apply Rmult_le_compat_r; lra.
  - apply Rle_trans with (2 := X2). rewrite <- (Rmult_1_r x) at 2. apply Rmult_le_compat_l; lra.
Qed.

Theorem afl_ratio_correct a b : a < 18446744073709551616 -> 0 < b -> b < 18446744073709551616 ->
  B2R 24 128 (flt32_ratio a b) = afl_R (adp_ratio a b) /\
  is_finite 24 128 (flt32_ratio a b) = true /\ afl_wf (adp_ratio a b) /\
  (a = 0 /\ adp_ratio a b = AF0 \/
   (bpow radix2 (-64) <= afl_R (adp_ratio a b) <= bpow radix2 64)%R).
Proof.
  intros Ha Hb Hb'. unfold flt32_ratio, flt32_div, adp_ratio.
  destruct (afl_of_N_correct a Ha) as (Xa & Fa & _).
  destruct (afl_of_N_correct b Hb') as (Xb & Fb & _).
  destruct (afl_of_N_pos b Hb Hb') as (mb & eb & Eb & Bmb & _ & Bb).
  rewrite Eb in Xb |- *. cbn [afl_R] in Xb.
  set (x := flt32_of_N a) in *. set (y := flt32_of_N b) in *.
  assert (Yn : B2R 24 128 y <> 0%R).
  { rewrite Xb. pose proof (bpow_gt_0 radix2 0). lra. }
  pose proof (Bdiv_correct 24 128 flt32_prec_gt_0 flt32_prec_lt_emax binop_nan_pl32
                BinarySingleNaN.mode_NE x y Yn) as C.
  cbn [BinarySingleNaN.round_mode] in C.
  change (SpecFloat.fexp 24 128) with (FLT_exp (-149) 24) in C. fold afl_round32 in C.
  change (b32_div BinarySingleNaN.mode_NE x y)
    with (Bdiv 24 128 flt32_prec_gt_0 flt32_prec_lt_emax binop_nan_pl32 BinarySingleNaN.mode_NE x y).
  destruct (N.eq_dec a 0) as [A0|Hn].
  - assert (Z0 : adp_f32_of_N a = AF0) by (rewrite A0; reflexivity).
    rewrite Z0 in Xa |- *. cbn [afl_R] in Xa. rewrite Xa in C.
    unfold Rdiv in C. rewrite Rmult_0_l in C. unfold afl_round32 in C.
    rewrite round_0 in C by auto with typeclass_instances.
    rewrite Rabs_R0, Rlt_bool_true in C by apply bpow_gt_0.
    destruct C as (C1 & C2 & _). rewrite C1, C2, Fa. repeat split; try reflexivity.
    left. split; [exact A0|reflexivity].
  - destruct (afl_of_N_pos a ltac:(lia) Ha) as (ma & ea & Ea & Bma & _ & Ba).
    rewrite Ea in Xa |- *. cbn [afl_R] in Xa. cbn [adp_f32_div].
    destruct (afl_round_ratio_spec ma mb ltac:(lia) ltac:(lia)) as (m & e & E & Bm & Rd).
    rewrite E. specialize (Rd (ea - eb)%Z).
    pose proof (afl_quot_bounds _ _ Ba Bb) as Bq.
    assert (Q : (B2R 24 128 x / B2R 24 128 y = NR ma / NR mb * bpow radix2 (ea - eb))%R).
    { rewrite Xa, Xb. unfold Zminus. rewrite bpow_plus, bpow_opp.
      pose proof (bpow_gt_0 radix2 eb). pose proof (afl_NR_pos mb ltac:(lia)). field. split; lra. }
    rewrite <- Xa, <- Xb in Bq. rewrite Q in C, Bq.
    assert (P64 : (0 < bpow radix2 (-64))%R) by apply bpow_gt_0.
    rewrite afl_round32_FLX in C.
    2:{ rewrite Rabs_pos_eq by lra. apply Rle_trans with (2 := proj1 Bq). apply bpow_le. lia. }
    pose proof (afl_round_between _ _ _ Bq) as Br.
    rewrite (afl_bpow_lt_128 64) in C by (try lia; lra).
    destruct C as (C1 & C2 & _). rewrite Rd in Br. rewrite C1, C2, Fa, Rd. cbn [afl_R afl_wf].
    replace (e + ea - eb)%Z with (e + (ea - eb))%Z by lia.
    split; [reflexivity|]. split; [reflexivity|]. split; [lia|]. right. exact Br.
Qed.

(* ---- comparison ---- *)

Lemma afl_lt_exp m1 e1 m2 e2 : m1 < 16777216 -> 8388608 <= m2 -> (e1 < e2)%Z ->
  (NR m1 * bpow radix2 e1 < NR m2 * bpow radix2 e2)%R.
Proof.
  intros H1 H2 He.
  assert (P1 : (0 < bpow radix2 e1)%R) by apply bpow_gt_0.
  assert (L : (bpow radix2 (1 + e1) <= bpow radix2 e2)%R) by (apply bpow_le; lia).
  rewrite bpow_plus in L. change (bpow radix2 1) with 2%R in L.
  assert (A : (NR m1 < 16777216)%R) by (apply IZR_lt; lia).
  assert (B : (8388608 <= NR m2)%R) by (apply IZR_le; lia).
  apply Rlt_le_trans with (16777216 * bpow radix2 e1)%R.
  - apply Rmult_lt_compat_r; lra.
  - apply Rle_trans with (8388608 * bpow radix2 e2)%R; [lra|].
    apply Rmult_le_compat_r; [apply bpow_ge_0|lra].
Qed.

Lemma afl_R_nonneg f : (0 <= afl_R f)%R.
Proof.
  destruct f as [|m e]; cbn [afl_R]; [lra|].
  apply Rmult_le_pos; [apply IZR_le; lia|apply bpow_ge_0].
Qed.

Theorem afl_lt_correct f g : afl_wf f -> afl_wf g ->
  adp_f32_lt f g = Rlt_bool (afl_R f) (afl_R g).
Proof.
  intros Wf Wg. destruct g as [|m2 e2].
  - replace (adp_f32_lt f AF0) with false by (destruct f; reflexivity).
    symmetry. apply Rlt_bool_false. apply afl_R_nonneg.
  - destruct f as [|m1 e1]; cbn [afl_wf] in *.
    + cbn [adp_f32_lt afl_R]. symmetry. apply Rlt_bool_true.
      apply Rmult_lt_0_compat; [apply afl_NR_pos; lia|apply bpow_gt_0].
    + cbn [adp_f32_lt afl_R]. destruct (Z.eqb_spec e1 e2) as [->|Ne].
      * assert (P : (0 < bpow radix2 e2)%R) by apply bpow_gt_0.
        destruct (N.ltb_spec m1 m2) as [L|L]; symmetry.
        -- apply Rlt_bool_true. apply Rmult_lt_compat_r; [exact P|apply IZR_lt; lia].
        -- apply Rlt_bool_false. apply Rmult_le_compat_r; [lra|apply IZR_le; lia].
      * destruct (Z.ltb_spec e1 e2) as [L|L]; symmetry.
        -- apply Rlt_bool_true. apply afl_lt_exp; lia.
        -- apply Rlt_bool_false. apply Rlt_le. apply afl_lt_exp; lia.
Qed.

(* ---- the constants ---- *)

Lemma afl_015 : B2R 24 128 flt32_015 = afl_R adp_f015 /\ is_finite 24 128 flt32_015 = true.
Proof.
  assert (E : exists H, flt32_015 = B754_finite 24 128 false 10066330 (-26) H)
    by (eexists; vm_compute; reflexivity).
  destruct E as (H & ->). split; reflexivity.
Qed.

Lemma afl_005 : B2R 24 128 flt32_005 = afl_R adp_f005 /\ is_finite 24 128 flt32_005 = true.
Proof.
  assert (E : exists H, flt32_005 = B754_finite 24 128 false 13421773 (-28) H)
    by (eexists; vm_compute; reflexivity).
  destruct E as (H & ->). split; reflexivity.
Qed.

Lemma afl_wf_015 : afl_wf adp_f015. Proof. cbn; lia. Qed.
Lemma afl_wf_005 : afl_wf adp_f005. Proof. cbn; lia. Qed.

(* 0x3E19999A / 0x3D4CCCCD are the binary32 values nearest to 15/100 and 5/100 *)
Theorem afl_015_rounded : B2R 24 128 flt32_015 = afl_round32 (15 / 100).
Proof.
  rewrite (proj1 afl_015).
  destruct (afl_round_ratio_spec 15 100 ltac:(lia) ltac:(lia)) as (m & e & E & _ & Rd).
  vm_compute in E. injection E as <- <-. specialize (Rd 0%Z).
  replace (NR 15 / NR 100 * bpow radix2 0)%R with (15 / 100)%R in Rd by (simpl; field).
  rewrite afl_round32_FLX.
  2:{ rewrite Rabs_pos_eq by lra. apply Rle_trans with (bpow radix2 (-3)); [apply bpow_le; lia|]. simpl. lra. }
  rewrite Rd. reflexivity.
Qed.

Theorem afl_005_rounded : B2R 24 128 flt32_005 = afl_round32 (5 / 100).
Proof.
  rewrite (proj1 afl_005).
  destruct (afl_round_ratio_spec 5 100 ltac:(lia) ltac:(lia)) as (m & e & E & _ & Rd).
  vm_compute in E. injection E as <- <-. specialize (Rd 0%Z).
  replace (NR 5 / NR 100 * bpow radix2 0)%R with (5 / 100)%R in Rd by (simpl; field).
  rewrite afl_round32_FLX.
  2:{ rewrite Rabs_pos_eq by lra. apply Rle_trans with (bpow radix2 (-5)); [apply bpow_le; lia|]. simpl. lra. }
  rewrite Rd. reflexivity.
Qed.

(* ---- Bcompare read as Rlt_bool ---- *)

Lemma afl_flt32_lt x y : is_finite 24 128 x = true -> is_finite 24 128 y = true ->
  flt32_lt x y = Rlt_bool (B2R 24 128 x) (B2R 24 128 y).
Proof.
  intros Fx Fy. unfold flt32_lt, b32_compare. rewrite Bcompare_correct by assumption.
  unfold Rlt_bool. destruct (Rcompare _ _); reflexivity.
Qed.

Lemma afl_flt32_gt x y : is_finite 24 128 x = true -> is_finite 24 128 y = true ->
  flt32_gt x y = Rlt_bool (B2R 24 128 y) (B2R 24 128 x).
Proof.
  intros Fx Fy. unfold flt32_gt, b32_compare. rewrite Bcompare_correct by assumption.
  unfold Rlt_bool. rewrite (Rcompare_sym (B2R 24 128 y)). destruct (Rcompare _ _); reflexivity.
Qed.

(* ---- the three tests ---- *)

Theorem afl_ratio_lt_015 a b :
  a < 18446744073709551616 -> 0 < b -> b < 18446744073709551616 ->
  adp_f32_lt (adp_ratio a b) adp_f015 = flt32_ratio_lt_015 a b.
Proof.
  intros Ha Hb Hb'. destruct (afl_ratio_correct a b Ha Hb Hb') as (X & F & W & _).
  destruct afl_015 as (Xc & Fc).
  unfold flt32_ratio_lt_015. rewrite afl_flt32_lt by assumption.
  rewrite X, Xc. apply afl_lt_correct; [exact W|exact afl_wf_015].
Qed.

Theorem afl_ratio_gt_005 a b :
  a < 18446744073709551616 -> 0 < b -> b < 18446744073709551616 ->
  adp_f32_lt adp_f005 (adp_ratio a b) = flt32_ratio_gt_005 a b.
Proof.
  intros Ha Hb Hb'. destruct (afl_ratio_correct a b Ha Hb Hb') as (X & F & W & _).
  destruct afl_005 as (Xc & Fc).
  unfold flt32_ratio_gt_005. rewrite afl_flt32_gt by assumption.
  rewrite X, Xc. apply afl_lt_correct; [exact afl_wf_005|exact W].
Qed.

Theorem afl_ratio_lt_005 a b :
  a < 18446744073709551616 -> 0 < b -> b < 18446744073709551616 ->
  adp_f32_lt (adp_ratio a b) adp_f005 = flt32_ratio_lt_005 a b.
Proof.
  intros Ha Hb Hb'. destruct (afl_ratio_correct a b Ha Hb Hb') as (X & F & W & _).
  destruct afl_005 as (Xc & Fc).
  unfold flt32_ratio_lt_005. rewrite afl_flt32_lt by assumption.
  rewrite X, Xc. apply afl_lt_correct; [exact W|exact afl_wf_005].
Qed.
