(* AdaptiveFloatProofs.v — the integer binary32 helper of Adaptive.v
   (adp_round_ratio, adp_f32_of_N, adp_f32_div, adp_f32_lt) against Flocq's
   binary32 (AdaptiveFloatSpec.v). *)
Require Import VV.Base VV.Adaptive VV.AdaptiveFloatSpec VV.AdaptiveFloatRound.
From Flocq Require Import Core Binary Bits.
From Coq Require Import Reals Lra Lia ZifyBool ZifyN ZArith NArith Bool.
Local Open Scope N_scope.

(* the real number an adp_f32 denotes *)
Definition afl_R (f : adp_f32) : R :=
  match f with
  | AF0 => 0%R
  | AF m e => (IZR (Z.of_N m) * bpow radix2 e)%R
  end.

Notation NR n := (IZR (Z.of_N n)).

Lemma afl_NR_pow2 t : NR (2 ^ t) = bpow radix2 (Z.of_N t).
Proof.
  rewrite N2Z.inj_pow. change (Z.of_N 2) with (radix_val radix2). apply IZR_Zpower. lia.
Qed.

Lemma afl_NR_pos n : 0 < n -> (0 < NR n)%R.
Proof. intros. apply IZR_lt. lia. Qed.

(* step 1: scaling p/q into (2^22, 2^24) *)
Lemma afl_scale p q : 0 < p -> 0 < q ->
  let e0 := (Z.of_N (N.log2 p) - Z.of_N (N.log2 q) - 23)%Z in
  let num := if (e0 <? 0)%Z then p * 2 ^ Z.to_N (- e0) else p in
  let den := if (e0 <? 0)%Z then q else q * 2 ^ Z.to_N e0 in
  0 < den /\ 4194304 * den < num /\ num < 16777216 * den /\
  (NR num / NR den * bpow radix2 e0 = NR p / NR q)%R.
Proof.
  intros Hp Hq e0 num den.
  destruct (N.log2_spec p Hp) as [Pl Ph]. destruct (N.log2_spec q Hq) as [Ql Qh].
  rewrite N.pow_succ_r' in Ph, Qh.
  set (lp := N.log2 p) in *. set (lq := N.log2 q) in *.
  set (A := 2 ^ lp) in *. set (B := 2 ^ lq) in *.
  assert (Pp : (0 < NR p)%R) by (apply afl_NR_pos; lia).
  assert (Pq : (0 < NR q)%R) by (apply afl_NR_pos; lia).
  destruct (e0 <? 0)%Z eqn:E0.
  - set (t := Z.to_N (- e0)) in *. set (T := 2 ^ t) in *.
    assert (Et : lp + t = lq + 23) by (unfold t, e0; lia).
    assert (ET : A * T = B * 8388608).
    { unfold A, T, B. change 8388608 with (2 ^ 23). rewrite <- !N.pow_add_r. f_equal. exact Et. }
    assert (Tp : 0 < T) by (unfold T; apply N.neq_0_lt_0, N.pow_nonzero; lia).
    unfold num, den. repeat split; try nia.
    rewrite N2Z.inj_mul, mult_IZR. fold T. unfold T. rewrite afl_NR_pow2.
    replace e0 with (- Z.of_N t)%Z by (unfold t; lia). rewrite bpow_opp.
    pose proof (bpow_gt_0 radix2 (Z.of_N t)). field. split; lra.
  - set (t := Z.to_N e0) in *. set (T := 2 ^ t) in *.
    assert (Et : lp = lq + 23 + t) by (unfold t, e0; lia).
    assert (ET : A = B * 8388608 * T).
    { unfold A, T, B. change 8388608 with (2 ^ 23). rewrite <- !N.pow_add_r. f_equal. exact Et. }
    assert (Tp : 0 < T) by (unfold T; apply N.neq_0_lt_0, N.pow_nonzero; lia).
    unfold num, den. repeat split; try nia.
    rewrite N2Z.inj_mul, mult_IZR. fold T. unfold T. rewrite afl_NR_pow2.
    replace e0 with (Z.of_N t)%Z by (unfold t; lia).
    pose proof (bpow_gt_0 radix2 (Z.of_N t)). field. split; lra.
Qed.

Lemma afl_odd_N k : Z.odd (Z.of_N k) = N.odd k.
Proof. destruct k as [|[?|?|]]; reflexivity. Qed.

(* step 2: the quotient digit selection is afl_rne_q *)
Lemma afl_rne_N n d : 0 < d ->
  Z.of_N (if (d <? 2 * (n mod d)) || ((2 * (n mod d) =? d) && N.odd (n / d)) then n / d + 1 else n / d)
  = afl_rne_q (Z.of_N n) (Z.of_N d).
Proof.
  intros Hd. unfold afl_rne_q. cbv zeta.
  rewrite <- N2Z.inj_div, <- N2Z.inj_mod by lia. rewrite afl_odd_N.
  set (k := n / d). set (r := n mod d).
  replace (Z.of_N d <? 2 * Z.of_N r)%Z with (d <? 2 * r) by lia.
  replace (2 * Z.of_N r =? Z.of_N d)%Z with (2 * r =? d) by lia.
  destruct ((d <? 2 * r) || ((2 * r =? d) && N.odd k)); lia.
Qed.

Definition afl_round := round radix2 (FLX_exp 24) ZnearestE.

Lemma afl_tail num1 den e1 : 0 < den -> 8388608 * den <= num1 -> num1 < 16777216 * den ->
  exists m e,
    (let k := num1 / den in
     let r := num1 mod den in
     let k' := if (den <? 2 * r) || ((2 * r =? den) && N.odd k) then k + 1 else k in
     if k' =? 16777216 then AF 8388608 (e1 + 1) else AF k' e1) = AF m e /\
    8388608 <= m < 16777216 /\
    forall s, afl_round (NR num1 / NR den * bpow radix2 (e1 + s)) = (NR m * bpow radix2 (e + s))%R.
Proof.
  intros Hd L H. cbv zeta.
  assert (K1 : 8388608 <= num1 / den) by (apply N.div_le_lower_bound; lia).
  assert (K2 : num1 / den < 16777216) by (apply N.div_lt_upper_bound; lia).
  pose proof (afl_rne_N num1 den Hd) as EQ.
  set (k' := if (den <? 2 * (num1 mod den)) || ((2 * (num1 mod den) =? den) && N.odd (num1 / den))
             then num1 / den + 1 else num1 / den) in *.
  assert (K' : 8388608 <= k' <= 16777216).
  { unfold k'. destruct ((den <? 2 * (num1 mod den)) || ((2 * (num1 mod den) =? den) && N.odd (num1 / den))); lia. }
  assert (Rd : forall s, afl_round (NR num1 / NR den * bpow radix2 (e1 + s)) = (NR k' * bpow radix2 (e1 + s))%R).
  { intros s. unfold afl_round. rewrite afl_round_core by lia. rewrite EQ. reflexivity. }
  destruct (k' =? 16777216) eqn:Ek.
  - exists 8388608, (e1 + 1)%Z. split; [reflexivity|]. split; [lia|].
    intros s. rewrite Rd. replace k' with 16777216 by lia.
    replace (e1 + 1 + s)%Z with (1 + (e1 + s))%Z by lia. rewrite (bpow_plus radix2 1).
    change (bpow radix2 1) with 2%R. change (NR 16777216) with 16777216%R. change (NR 8388608) with 8388608%R. ring.
  - exists k', e1. split; [reflexivity|]. split; [lia|]. exact Rd.
Qed.

(* step 3: adp_round_ratio p q is p/q rounded to nearest even, 24 bits, with
   any power-of-two scaling commuting *)
Lemma afl_round_ratio_spec p q : 0 < p -> 0 < q ->
  exists m e, adp_round_ratio p q = AF m e /\ 8388608 <= m < 16777216 /\
    forall s, afl_round (NR p / NR q * bpow radix2 s) = (NR m * bpow radix2 (e + s))%R.
Proof.
  intros Hp Hq. unfold adp_round_ratio. replace (p =? 0) with false by lia.
  pose proof (afl_scale p q Hp Hq) as S. cbv zeta in S |- *.
  set (e0 := (Z.of_N (N.log2 p) - Z.of_N (N.log2 q) - 23)%Z) in *.
  set (num := if (e0 <? 0)%Z then p * 2 ^ Z.to_N (- e0) else p) in *.
  set (den := if (e0 <? 0)%Z then q else q * 2 ^ Z.to_N e0) in *.
  destruct S as (Dp & L & H & E).
  assert (Pd : (0 < NR den)%R) by (apply afl_NR_pos; lia).
  destruct (num / den <? 8388608) eqn:Lq.
  - assert (Hl : num < 8388608 * den).
    { destruct (N.lt_ge_cases num (8388608 * den)) as [A|A]; [exact A|].
      pose proof (N.div_le_lower_bound num den 8388608 ltac:(lia) ltac:(lia)). lia. }
    destruct (afl_tail (2 * num) den (e0 - 1)%Z Dp ltac:(lia) ltac:(lia)) as (m & e & E1 & Bm & Rd).
    exists m, e. split; [exact E1|]. split; [exact Bm|].
    intros s. rewrite <- Rd. f_equal. rewrite <- E.
    rewrite N2Z.inj_mul, mult_IZR. replace (e0 - 1 + s)%Z with (e0 + (-1) + s)%Z by lia.
    rewrite !bpow_plus. change (bpow radix2 (-1)) with (/ 2)%R. change (NR 2) with 2%R. field. lra.
  - assert (Hl : 8388608 * den <= num).
    { destruct (N.lt_ge_cases num (8388608 * den)) as [A|A]; [|exact A].
      pose proof (N.div_lt_upper_bound num den 8388608 ltac:(lia) ltac:(lia)). lia. }
    destruct (afl_tail num den e0 Dp Hl H) as (m & e & E1 & Bm & Rd).
    exists m, e. split; [exact E1|]. split; [exact Bm|].
    intros s. rewrite <- Rd. f_equal. rewrite <- E. rewrite bpow_plus. ring.
Qed.
