(* BP128.v — Gallina model of /repo/src/varintBP128.{c,h} (scalar code paths;
   the AVX2/NEON branches of varintBP128MaxBitWidth32 and the NEON prefix sum
   compute the same mathematical max / prefix sums).

   Conventions
   * values are N; bytes are N < 256; an encoder returns the bytes it wrote
     (the C return value is their number).
   * a decoder takes the byte list starting at `src` and the capacity
     `maxCount`, and returns `Some out` where `out` is the sequence of values it
     stored: every decoder stores values[0], values[1], ... in increasing index
     order, each index once, and returns their number, so `length out` is both
     the return value and the exclusive upper bound of the indices written.
     `None` = the C executes an out-of-range shift (`1U << b` with b >= 32,
     `1ULL << b` with b >= 64; only possible on streams no encoder produces;
     over-approximated: flagged as soon as the header announces such a width
     with a non-zero number of values), or the model ran out of fuel.
   * bytes are read with `byte_at` (default 0) / `firstn`: what a decoder
     result depends on is exactly the bytes the C reads.
   * index arithmetic (`decoded + blockCount`, `count - i`, sizes) is done in
     unbounded N: element counts are < 2^61 because the arrays exist in a
     64-bit address space, so no size_t computation of the C wraps.  The
     loops carry `room = maxCount - decoded` instead of `decoded`.
   * value arithmetic wraps exactly where the C wraps (sub32/u32, sub64/add64).
*)
Require Import VV.Base VV.Tagged.
Local Open Scope N_scope.

(* ------------------------------------------------------------------ *)
(* bit-packing layer: the inlined loops
     for each value: for b < bitWidth: if ((val >> b) & 1) out[bitPos/8] |= 1 << (bitPos%8); bitPos++
   and their readers.  Bit stream = value bits LSB first, values in order;
   byte k holds stream bits 8k..8k+7, LSB first; memset makes the tail 0. *)

Fixpoint bits (w : nat) (v : N) : list bool :=
  match w with
  | O => []
  | S k => N.odd v :: bits k (N.div2 v)
  end.

Fixpoint of_bits (bs : list bool) : N :=
  match bs with
  | [] => 0
  | b :: t => N.b2n b + 2 * of_bits t
  end.

Fixpoint pack_bytes (nbytes : nat) (bs : list bool) : list N :=
  match nbytes with
  | O => []
  | S k => of_bits (firstn 8%nat bs) :: pack_bytes k (skipn 8%nat bs)
  end.

Definition bits_of_bytes (z : list N) : list bool := flat_map (bits 8%nat) z.

Fixpoint unpack (w n : nat) (bs : list bool) : list N :=
  match n with
  | O => []
  | S k => of_bits (firstn w bs) :: unpack w k (skipn w bs)
  end.

(* (n * w + 7) / 8 *)
Definition nbytes (n w : N) : N := (n * w + 7) / 8.

(* memset(out, 0, (n*w+7)/8) + the packing loop over the n values of vs *)
Definition pack (w : N) (vs : list N) : list N :=
  pack_bytes (N.to_nat (nbytes (N.of_nat (length vs)) w))
             (flat_map (bits (N.to_nat w)) vs).

(* the unpacking loop: n values of w bits from the bytes at z; reads only
   bytes with index < (n*w+7)/8 *)
Definition unpack_at (w n : N) (z : list N) : list N :=
  unpack (N.to_nat w) (N.to_nat n)
         (bits_of_bytes (firstn (N.to_nat (nbytes n w)) z)).

(* ------------------------------------------------------------------ *)
(* varintBP128BitsNeeded32 / 64: the shift-and-count loop = bit length *)
Definition bits_needed (v : N) : N := if v =? 0 then 0 else N.size v.

(* the `if (values[i] > maxVal) maxVal = values[i]` loop *)
Definition max_val (vs : list N) : N :=
  fold_left (fun m v => if m <? v then v else m) vs 0.

(* varintBP128MaxBitWidth32 / 64 (values, count) on the list of the count values *)
Definition max_bit_width (vs : list N) : N :=
  match vs with
  | [] => 0
  | _ => bits_needed (max_val vs)
  end.

(* ------------------------------------------------------------------ *)
(* 32-bit blocks.  Precondition of the C: `values` points to 128 values. *)

(* varintBP128EncodeBlock32 *)
Definition encode_block32 (vs : list N) : list N :=
  let bw := max_bit_width vs in
  if bw =? 0 then [u8 bw] else u8 bw :: pack bw vs.

(* varintBP128DecodeBlock32: (values, bytes consumed) *)
Definition decode_block32 (z : list N) : option (list N * N) :=
  let bw := byte_at z 0 in
  if bw =? 0 then Some (repeat 0 128%nat, 1)
  else if 32 <? bw then None
  else Some (unpack_at bw 128 (skipn 1%nat z), 1 + nbytes 128 bw).

Definition sub32 (x y : N) : N := (x + 4294967296 - y mod 4294967296) mod 4294967296.

(* deltas[i] = values[i] - prev; prev = values[i]   (uint32_t) *)
Fixpoint deltas32 (prev : N) (vs : list N) : list N :=
  match vs with
  | [] => []
  | v :: t => sub32 v prev :: deltas32 v t
  end.

(* prev += deltas[i]; values[i] = prev   (uint32_t) *)
Fixpoint psum32 (prev : N) (ds : list N) : list N :=
  match ds with
  | [] => []
  | d :: t => let p := u32 (prev + d) in p :: psum32 p t
  end.

(* varintBP128DeltaEncodeBlock32 *)
Definition delta_encode_block32 (vs : list N) (prev : N) : list N :=
  encode_block32 (deltas32 prev vs).

(* varintBP128DeltaDecodeBlock32 *)
Definition delta_decode_block32 (z : list N) (prev : N) : option (list N * N) :=
  match decode_block32 z with
  | None => None
  | Some (ds, c) => Some (psum32 prev ds, c)
  end.

(* list lengths computed with an accumulator: `ptr - dst` of the C; same value
   as N.of_nat (length l) / length l (BP128Lemmas.nlen_eq, len_acc_eq) but
   tail-recursive, so the extracted model handles megabyte-sized encodings *)
Fixpoint nlen_acc (l : list N) (acc : N) : N :=
  match l with
  | [] => acc
  | _ :: t => nlen_acc t (N.succ acc)
  end.
Definition nlen (l : list N) : N := nlen_acc l 0.
Fixpoint len_acc (l : list N) (acc : nat) : nat :=
  match l with
  | [] => acc
  | _ :: t => len_acc t (S acc)
  end.

(* ------------------------------------------------------------------ *)
(* metadata *)
Record meta := mkmeta {
  m_count : N; m_blockCount : N; m_encodedBytes : N; m_lastBlockSize : N; m_maxBitWidth : N }.
Definition meta_zero := mkmeta 0 0 0 0 0.   (* memset(meta, 0, sizeof) *)

(* [0x80 | bitWidth; (uint8_t)n] ++ packed values (only if bitWidth > 0) *)
Definition partial_block (bw n : N) (vs : list N) : list N :=
  [u8 (N.lor 128 bw); u8 n] ++ (if 0 <? bw then pack bw vs else []).

(* the header parse shared by the four array decoders:
     header = *ptr; if (header & 0x80) { bitWidth = header & 0x7F; blockSize = ptr[1]; data at ptr+2 }
     else { bitWidth = header; blockSize = 128; data at ptr+1 }
   result: (header & 0x80 != 0, bitWidth, blockSize, bytes after the header) *)
Definition read_header (z : list N) : bool * N * N * list N :=
  let header := byte_at z 0 in
  if negb (N.land header 128 =? 0) then (true, N.land header 127, byte_at z 1, skipn 2%nat z)
  else (false, header, 128, skipn 1%nat z).

(* ------------------------------------------------------------------ *)
(* varintBP128Encode32 *)

(* for (b = 0; b < fullBlocks; b++) ... ; `after` = the bytes written after the
   loop (the partial block), threaded through so that no append runs over the
   whole output *)
Fixpoint enc32_full (nblk : nat) (vs : list N) (after : list N) : list N :=
  match nblk with
  | O => after
  | S k => encode_block32 (firstn 128%nat vs) ++ enc32_full k (skipn 128%nat vs) after
  end.

(* if (ptr[0] > maxBitWidth) maxBitWidth = ptr[0] *)
Fixpoint enc32_full_maxbw (nblk : nat) (vs : list N) (m : N) : N :=
  match nblk with
  | O => m
  | S k => let h := byte_at (encode_block32 (firstn 128%nat vs)) 0 in
           enc32_full_maxbw k (skipn 128%nat vs) (if m <? h then h else m)
  end.

Definition encode32 (vs : list N) : list N :=
  let count := N.of_nat (length vs) in
  if count =? 0 then []
  else
    let fb := count / 128 in
    let r := count mod 128 in
    enc32_full (N.to_nat fb) vs
      (if 0 <? r then
         let padded := skipn (N.to_nat (fb * 128)) vs in
         partial_block (max_bit_width padded) r padded
       else []).

Definition encode32_meta (vs : list N) : meta :=
  let count := N.of_nat (length vs) in
  if count =? 0 then meta_zero
  else
    let fb := count / 128 in
    let r := count mod 128 in
    let m1 := enc32_full_maxbw (N.to_nat fb) vs 0 in
    let m2 := if 0 <? r then
                let bw := max_bit_width (skipn (N.to_nat (fb * 128)) vs) in
                if m1 <? N.land bw 127 then N.land bw 127 else m1
              else m1 in
    mkmeta count (fb + (if 0 <? r then 1 else 0)) (nlen (encode32 vs))
           (if 0 <? r then r else 128) m2.

(* varintBP128Decode32: the while loop; room = maxCount - decoded *)
Fixpoint dec32_loop (fuel : nat) (z : list N) (room : N) : option (list N) :=
  match fuel with
  | O => None
  | S f =>
    if room =? 0 then Some []
    else
      let '(part, bw, bc, z1) := read_header z in
      if part then
        let bc := if room <? bc then u8 room else bc in
        if bw =? 0 then Some (repeat 0 (N.to_nat bc))
        else if 32 <? bw then (if bc =? 0 then Some [] else None)
        else Some (unpack_at bw bc z1)
      else if room <? 128 then Some []
      else
        match decode_block32 z with
        | None => None
        | Some (vals, c) =>
            match dec32_loop f (skipn (N.to_nat c) z) (room - 128) with
            | None => None
            | Some rest => Some (vals ++ rest)
            end
        end
  end.

Definition decode32 (z : list N) (cap : N) : option (list N) :=
  dec32_loop (S (N.to_nat (cap / 128))) z cap.

(* ------------------------------------------------------------------ *)
(* varintBP128DeltaEncode32 *)

(* while (remaining >= 128): nblk = remaining / 128 iterations; `after` = the
   bytes written after the loop *)
Fixpoint denc32_full (nblk : nat) (prev : N) (vs : list N) (after : list N) : list N :=
  match nblk with
  | O => after
  | S k => delta_encode_block32 (firstn 128%nat vs) prev ++
           denc32_full k (nth 127%nat vs 0) (skipn 128%nat vs) after
  end.

(* prevValue after the loop *)
Fixpoint denc32_prev (nblk : nat) (prev : N) (vs : list N) : N :=
  match nblk with
  | O => prev
  | S k => denc32_prev k (nth 127%nat vs 0) (skipn 128%nat vs)
  end.

Fixpoint denc32_full_maxbw (nblk : nat) (prev : N) (vs : list N) (m : N) : N :=
  match nblk with
  | O => m
  | S k => let h := N.land (byte_at (delta_encode_block32 (firstn 128%nat vs) prev) 0) 127 in
           denc32_full_maxbw k (nth 127%nat vs 0) (skipn 128%nat vs) (if m <? h then h else m)
  end.

Definition delta_encode32 (vs : list N) : list N :=
  match vs with
  | [] => []
  | v0 :: rest =>
    let remaining0 := N.of_nat (length rest) in
    let nblk := N.to_nat (remaining0 / 128) in
    let r := remaining0 mod 128 in
    tagged_put64 v0 ++
    denc32_full nblk v0 rest
      (if 0 <? r then
         let ds := deltas32 (denc32_prev nblk v0 rest) (skipn (128 * nblk)%nat rest) in
         partial_block (max_bit_width ds) r ds
       else [])
  end.

Definition delta_encode32_meta (vs : list N) : meta :=
  match vs with
  | [] => meta_zero
  | v0 :: rest =>
    let remaining0 := N.of_nat (length rest) in
    let nblk := N.to_nat (remaining0 / 128) in
    let r := remaining0 mod 128 in
    let m1 := denc32_full_maxbw nblk v0 rest 0 in
    let m2 := if 0 <? r then
                let bw := max_bit_width (deltas32 (denc32_prev nblk v0 rest)
                                                  (skipn (128 * nblk)%nat rest)) in
                if m1 <? bw then bw else m1
              else m1 in
    mkmeta (N.of_nat (length vs)) (remaining0 / 128 + (if 0 <? r then 1 else 0))
           (nlen (delta_encode32 vs))
           (if 0 <? r then r else 128) m2
  end.

(* varintBP128DeltaDecode32: the while loop *)
Fixpoint ddec32_loop (fuel : nat) (z : list N) (room : N) (prev : N) : option (list N) :=
  match fuel with
  | O => None
  | S f =>
    if room =? 0 then Some []
    else
      let '(part, bw, bc, z1) := read_header z in
      if part then
        let bc := if room <? bc then u8 room else bc in
        if bw =? 0 then Some (psum32 prev (repeat 0 (N.to_nat bc)))
        else if 32 <? bw then (if bc =? 0 then Some [] else None)
        else Some (psum32 prev (unpack_at bw bc z1))
      else if room <? 128 then Some []
      else
        match delta_decode_block32 z prev with
        | None => None
        | Some (vals, c) =>
            match ddec32_loop f (skipn (N.to_nat c) z) (room - 128) (nth 127%nat vals 0) with
            | None => None
            | Some rest => Some (vals ++ rest)
            end
        end
  end.

Definition delta_decode32 (z : list N) (cap : N) : option (list N) :=
  if cap =? 0 then Some []
  else
    let r := tagged_get64 z in
    let v0 := u32 (snd r) in
    match ddec32_loop (S (N.to_nat ((cap - 1) / 128))) (skipn (N.to_nat (fst r)) z) (cap - 1) v0 with
    | None => None
    | Some rest => Some (v0 :: rest)
    end.

(* ------------------------------------------------------------------ *)
(* varintBP128Encode64 *)

(* block header: full = [bitWidth], partial = [0x80|bitWidth; blockSize] *)
Definition block_header (bs bw : N) : list N :=
  if bs <? 128 then [u8 (N.lor 128 bw); u8 bs] else [u8 bw].

(* for (i = 0; i < count; i += 128); vs = values from index i on *)
Fixpoint enc64_blocks (fuel : nat) (vs : list N) : list N :=
  match fuel with
  | O => []
  | S f =>
    match vs with
    | [] => []
    | _ =>
      let blk := firstn 128%nat vs in
      let bw := max_bit_width blk in
      block_header (N.of_nat (length blk)) bw ++
      (if 0 <? bw then pack bw blk else []) ++
      enc64_blocks f (skipn 128%nat vs)
    end
  end.

Fixpoint enc64_maxbw (fuel : nat) (vs : list N) (m : N) : N :=
  match fuel with
  | O => m
  | S f =>
    match vs with
    | [] => m
    | _ =>
      let bw := max_bit_width (firstn 128%nat vs) in
      enc64_maxbw f (skipn 128%nat vs) (if m <? bw then bw else m)
    end
  end.

Definition blocks_fuel (vs : list N) : nat := S (N.to_nat (N.of_nat (length vs) / 128)).

Definition encode64 (vs : list N) : list N :=
  let count := N.of_nat (length vs) in
  if count =? 0 then []
  else tagged_put64 count ++ enc64_blocks (blocks_fuel vs) vs.

Definition encode64_meta (vs : list N) : meta :=
  let count := N.of_nat (length vs) in
  if count =? 0 then meta_zero
  else
    let l := count mod 128 in
    mkmeta count ((count + 128 - 1) / 128) (nlen (encode64 vs))
           (if l =? 0 then 128 else l) (enc64_maxbw (blocks_fuel vs) vs 0).

(* varintBP128Decode64: the while loop; room = count - decoded *)
Fixpoint dec64_loop (fuel : nat) (z : list N) (room : N) : option (list N) :=
  match fuel with
  | O => None
  | S f =>
    if room =? 0 then Some []
    else
      let '(part, bw, bs, z1) := read_header z in
      let bs := if room <? bs then room else bs in
      if bw =? 0 then
        match dec64_loop f z1 (room - bs) with
        | None => None
        | Some rest => Some (repeat 0 (N.to_nat bs) ++ rest)
        end
      else if (64 <? bw) && negb (bs =? 0) then None
      else
        match dec64_loop f (skipn (N.to_nat (nbytes bs bw)) z1) (room - bs) with
        | None => None
        | Some rest => Some (unpack_at bw bs z1 ++ rest)
        end
  end.

Definition decode64 (z : list N) (cap : N) : option (list N) :=
  let r := tagged_get64 z in
  let count := if cap <? snd r then cap else snd r in
  dec64_loop (N.to_nat (count / 128) + 2 + len_acc z 0)%nat (skipn (N.to_nat (fst r)) z) count.

(* ------------------------------------------------------------------ *)
(* varintBP128DeltaEncode64 *)

Fixpoint deltas64 (prev : N) (vs : list N) : list N :=
  match vs with
  | [] => []
  | v :: t => sub64 v prev :: deltas64 v t
  end.

Fixpoint psum64 (prev : N) (ds : list N) : list N :=
  match ds with
  | [] => []
  | d :: t => let p := add64 prev d in p :: psum64 p t
  end.

(* for (i = 1; i < count; i += 128); vs = values from index i on *)
Fixpoint denc64_blocks (fuel : nat) (prev : N) (vs : list N) : list N :=
  match fuel with
  | O => []
  | S f =>
    match vs with
    | [] => []
    | _ =>
      let blk := firstn 128%nat vs in
      let ds := deltas64 prev blk in
      let bw := bits_needed (max_val ds) in
      block_header (N.of_nat (length blk)) bw ++
      (if 0 <? bw then pack bw ds else []) ++
      denc64_blocks f (last blk prev) (skipn 128%nat vs)
    end
  end.

Fixpoint denc64_maxbw (fuel : nat) (prev : N) (vs : list N) (m : N) : N :=
  match fuel with
  | O => m
  | S f =>
    match vs with
    | [] => m
    | _ =>
      let blk := firstn 128%nat vs in
      let bw := bits_needed (max_val (deltas64 prev blk)) in
      denc64_maxbw f (last blk prev) (skipn 128%nat vs) (if m <? bw then bw else m)
    end
  end.

Definition delta_encode64 (vs : list N) : list N :=
  match vs with
  | [] => []
  | v0 :: rest => tagged_put64 v0 ++ denc64_blocks (blocks_fuel rest) v0 rest
  end.

(* after the fix of F16 (lastBlockSize was never written) *)
Definition delta_encode64_meta (vs : list N) : meta :=
  match vs with
  | [] => meta_zero
  | v0 :: rest =>
    let count := N.of_nat (length vs) in
    let l := (count - 1) mod 128 in
    mkmeta count ((count + 128 - 2) / 128) (nlen (delta_encode64 vs))
           (if l =? 0 then 128 else l) (denc64_maxbw (blocks_fuel rest) v0 rest 0)
  end.

(* varintBP128DeltaDecode64: the while loop; room = maxCount - decoded *)
Fixpoint ddec64_loop (fuel : nat) (z : list N) (room : N) (prev : N) : option (list N) :=
  match fuel with
  | O => None
  | S f =>
    if room =? 0 then Some []
    else
      let '(part, bw, bs, z1) := read_header z in
      let bs := if room <? bs then room else bs in
      if (64 <? bw) && negb (bs =? 0) then None
      else
        let ds := if 0 <? bw then unpack_at bw bs z1 else repeat 0 (N.to_nat bs) in
        let vals := psum64 prev ds in
        let z2 := if 0 <? bw then skipn (N.to_nat (nbytes bs bw)) z1 else z1 in
        if part then Some vals
        else
          match ddec64_loop f z2 (room - bs) (last vals prev) with
          | None => None
          | Some rest => Some (vals ++ rest)
          end
  end.

Definition delta_decode64 (z : list N) (cap : N) : option (list N) :=
  if cap =? 0 then Some []
  else
    let r := tagged_get64 z in
    let v0 := snd r in
    match ddec64_loop (N.to_nat ((cap - 1) / 128) + 2)%nat (skipn (N.to_nat (fst r)) z) (cap - 1) v0 with
    | None => None
    | Some rest => Some (v0 :: rest)
    end.

(* ------------------------------------------------------------------ *)
(* varintBP128MaxBytes (after the fix of F06: + VARINT_BP128_MAX_HEADER_BYTES) *)
Definition max_bytes (count : N) : N :=
  let fb := count / 128 in
  let r := count mod 128 in
  9 + fb * 1025 + (if 0 <? r then 2 + r * 8 else 0).

(* varintBP128IsSorted32 / 64 *)
Fixpoint is_sorted_from (prev : N) (vs : list N) : bool :=
  match vs with
  | [] => true
  | v :: t => if v <? prev then false else is_sorted_from v t
  end.
Definition is_sorted (vs : list N) : bool :=
  match vs with
  | [] => true
  | v :: t => is_sorted_from v t
  end.

(* varintBP128GetCount: reads a tagged varint at src (srcBytes is ignored) *)
Definition get_count (z : list N) : N := snd (tagged_get64 z).

(* varintBP128IsBeneficial32 *)
Fixpoint benef32_full (nblk : nat) (vs : list N) : N :=
  match nblk with
  | O => 0
  | S k => 1 + nbytes 128 (max_bit_width (firstn 128%nat vs)) + benef32_full k (skipn 128%nat vs)
  end.
Definition is_beneficial32 (vs : list N) : bool :=
  let count := N.of_nat (length vs) in
  if count =? 0 then false
  else
    let fb := count / 128 in
    let r := count mod 128 in
    let e := benef32_full (N.to_nat fb) vs +
             (if 0 <? r then 2 + nbytes r (max_bit_width (skipn (N.to_nat (fb * 128)) vs)) else 0) in
    e <? count * 4.

(* varintBP128IsBeneficial64 *)
Fixpoint benef64_blocks (fuel : nat) (vs : list N) : N :=
  match fuel with
  | O => 0
  | S f =>
    match vs with
    | [] => 0
    | _ =>
      let blk := firstn 128%nat vs in
      let bs := N.of_nat (length blk) in
      (if bs <? 128 then 2 else 1) + nbytes bs (max_bit_width blk) + benef64_blocks f (skipn 128%nat vs)
    end
  end.
Definition is_beneficial64 (vs : list N) : bool :=
  let count := N.of_nat (length vs) in
  if count =? 0 then false
  else 10 + benef64_blocks (blocks_fuel vs) vs <? count * 8.

(* EXTRACT: bits_needed max_bit_width encode_block32 decode_block32 delta_encode_block32
   delta_decode_block32 encode32 encode32_meta decode32 delta_encode32 delta_encode32_meta
   delta_decode32 encode64 encode64_meta decode64 delta_encode64 delta_encode64_meta
   delta_decode64 max_bytes is_sorted get_count is_beneficial32 is_beneficial64
   m_count m_blockCount m_encodedBytes m_lastBlockSize m_maxBitWidth *)
