(* FloatReal.v — the relative error bound over the reals (Flocq): the integer
   inequality of FloatTheorems.v, read through B2R of the binary64 value that a
   bit pattern denotes.  Only this file (and Properties_C07_float_real.v)
   depends on the axioms of the standard library's real numbers. *)
Require Import VV.Base VV.Float VV.FloatSpec VV.FloatValueProofs VV.FloatProofs VV.FloatTheorems.
From Flocq Require Import Core Binary Bits.
From Coq Require Import Reals Lra Lia ZifyBool ZifyN.
Local Open Scope N_scope.
Ltac Zify.zify_post_hook ::= Z.div_mod_to_equations.

Definition fl_R (d : N) : R := B2R 53 1024 (b64_of_bits (Z.of_N d)).

Lemma fl_R_normal d : d < 18446744073709551616 -> fl_is_special d = false ->
  fl_R d = ((if fl_sgn d =? 1 then -1 else 1) * IZR (Z.of_N (fl_sig d))
            * bpow radix2 (Z.of_N (fl_bexp d) - 1075))%R.
Proof.
  intros H S. unfold fl_R, b64_of_bits, binary_float_of_bits. rewrite B2R_FF2B.
  unfold binary_float_of_bits_aux, split_bits.
  destruct (fl_fields d H) as (Hd & Hs & Hb & Hf). unfold fl_is_special in S.
  change (2 ^ 52)%Z with 4503599627370496%Z. change (2 ^ 11)%Z with 2048%Z.
  assert (E1 : (Z.of_N d mod 4503599627370496 = Z.of_N (fl_frac d))%Z) by (unfold fl_frac; lia).
  assert (E2 : ((Z.of_N d / 4503599627370496) mod 2048 = Z.of_N (fl_bexp d))%Z) by (unfold fl_bexp; lia).
  rewrite E1, E2.
  destruct (Zeq_bool_spec (Z.of_N (fl_bexp d)) 0) as [A|_]; [lia|].
  destruct (Zeq_bool_spec (Z.of_N (fl_bexp d)) (2048 - 1)) as [A|_]; [lia|].
  assert (E3 : (Z.of_N (fl_frac d) + 4503599627370496 = Z.of_N (fl_sig d))%Z) by (unfold fl_sig; lia).
  rewrite E3.
  destruct (Z.of_N (fl_sig d)) as [|p|p] eqn:Ep; [unfold fl_sig in Ep; lia| |lia].
  unfold FF2R, F2R. cbn [Fnum Fexp].
  change (SpecFloat.emin (52 + 1) (2 ^ (11 - 1))) with (-1074)%Z.
  replace (Z.of_N (fl_bexp d) + -1074 - 1)%Z with (Z.of_N (fl_bexp d) - 1075)%Z by lia.
  assert (Sg : (4503599627370496 * 2048 <=? Z.of_N d)%Z = (fl_sgn d =? 1)) by (unfold fl_sgn; lia).
  rewrite Sg. destruct (fl_sgn d =? 1); cbn [SpecFloat.cond_Zopp].
  - rewrite opp_IZR. lra.
  - lra.
Qed.

Lemma fl_R_mag d : d < 18446744073709551616 -> fl_is_special d = false ->
  fl_R d = ((if fl_sgn d =? 1 then -1 else 1) * (IZR (Z.of_N (fl_mag d)) * bpow radix2 (-1075)))%R.
Proof.
  intros H S. rewrite fl_R_normal by assumption. unfold fl_mag.
  rewrite N2Z.inj_mul, N2Z.inj_pow, mult_IZR.
  change (Z.of_N 2) with (radix_val radix2). rewrite IZR_Zpower by lia.
  replace (Z.of_N (fl_bexp d) - 1075)%Z with (Z.of_N (fl_bexp d) + (-1075))%Z by lia. rewrite bpow_plus. ring.
Qed.

(* relative error over the reals, from the integer inequality *)
Lemma fl_real_bound d d' mb :
  d < 18446744073709551616 -> d' < 18446744073709551616 ->
  fl_is_special d = false -> fl_is_special d' = false -> fl_sgn d' = fl_sgn d ->
  (fl_mag d' - fl_mag d) * 2 ^ mb <= fl_mag d -> (fl_mag d - fl_mag d') * 2 ^ mb <= fl_mag d ->
  (Rabs (fl_R d' - fl_R d) <= bpow radix2 (- Z.of_N mb) * Rabs (fl_R d))%R.
Proof.
  intros H H' S S' Sg B1 B2.
  rewrite (fl_R_mag d H S), (fl_R_mag d' H' S'), Sg.
  set (s := (if fl_sgn d =? 1 then -1 else 1)%R).
  assert (Hs : Rabs s = 1%R) by (unfold s; destruct (fl_sgn d =? 1); unfold Rabs; destruct (Rcase_abs _); lra).
  set (c := bpow radix2 (-1075)). assert (Hc : (0 < c)%R) by apply bpow_gt_0.
  set (m := fl_mag d) in *. set (m' := fl_mag d') in *.
  set (P := bpow radix2 (Z.of_N mb)). assert (HP : (0 < P)%R) by apply bpow_gt_0.
  assert (EP : IZR (Z.of_N (2 ^ mb)) = P).
  { rewrite N2Z.inj_pow. change (Z.of_N 2) with (radix_val radix2). apply IZR_Zpower. lia. }
  assert (Hm : (0 <= IZR (Z.of_N m))%R) by (apply IZR_le; lia).
  assert (K : (Rabs (IZR (Z.of_N m') - IZR (Z.of_N m)) * P <= IZR (Z.of_N m))%R).
  { rewrite <- EP. destruct (N.le_ge_cases m m') as [L|L].
    - rewrite Rabs_pos_eq by (apply Rle_0_minus, IZR_le; lia).
      rewrite <- minus_IZR, <- mult_IZR. apply IZR_le.
      rewrite <- N2Z.inj_sub, <- N2Z.inj_mul by exact L. lia.
    - rewrite Rabs_minus_sym, Rabs_pos_eq by (apply Rle_0_minus, IZR_le; lia).
      rewrite <- minus_IZR, <- mult_IZR. apply IZR_le.
      rewrite <- N2Z.inj_sub, <- N2Z.inj_mul by exact L. lia. }
  replace (s * (IZR (Z.of_N m') * c) - s * (IZR (Z.of_N m) * c))%R
    with (s * ((IZR (Z.of_N m') - IZR (Z.of_N m)) * c))%R by ring.
  rewrite !Rabs_mult, Hs, (Rabs_pos_eq c), (Rabs_pos_eq (IZR (Z.of_N m))) by lra.
  rewrite bpow_opp. fold P.
  apply Rmult_le_reg_r with P; [exact HP|].
  replace (1 * (Rabs (IZR (Z.of_N m') - IZR (Z.of_N m)) * c) * P)%R
    with ((Rabs (IZR (Z.of_N m') - IZR (Z.of_N m)) * P) * c)%R by ring.
  replace (/ P * (1 * (IZR (Z.of_N m) * c)) * P)%R with (IZR (Z.of_N m) * c)%R by (field; lra).
  apply Rmult_le_compat_r; lra.
Qed.

(* the value a reduced precision returns for a normal double is that double's
   infinity (only from the top binade, see C07_float_rel_error) or a normal
   double within relative error 2^-mantissa_bits *)
Theorem float_rel_error_real ds prec mode rest :
  Forall (fun d => d < 18446744073709551616) ds -> mode <= 2 ->
  prec = 1 \/ prec = 2 \/ prec = 3 ->
  exists outs,
    fl_decode (fl_encode ds prec mode ++ rest) (length ds)
      = Some (N.of_nat (length (fl_encode ds prec mode)), outs) /\
    Forall2 (fun d d' =>
      fl_is_special d = false ->
      fl_is_inf d' = true \/
      (Rabs (fl_R d' - fl_R d) <= bpow radix2 (- Z.of_N (fl_mant_bits prec)) * Rabs (fl_R d))%R) ds outs.
Proof.
  intros H M P. eexists. split; [apply fl_decode_encode; assumption || lia|].
  apply (fl_Forall2_map _ _ _ _ H). intros d Hd S.
  destruct (fl_rt_reduced prec d P Hd S) as (L & A & [(B1 & _)|(B1 & B2 & B3)]); [left; exact B1|right].
  apply fl_real_bound; assumption.
Qed.
