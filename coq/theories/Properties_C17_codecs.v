(* Properties_C17_codecs.v — C17 (stateless codecs are safe to call
   concurrently), the codec instances of the interleaving theorem of
   Properties_C17.v.

   A call of a stateless codec is modelled (Conc.v semantics: threads of
   atomic reads and writes over one shared memory, every schedule) as a
   program that reads every cell of its input regions, computes with the pure
   model function of the codec, writes its whole output cell by cell at its
   destination and returns.  For every family below, ANY number of threads,
   EVERY schedule:
     - no two threads ever race;
     - a call that has finished returned what the model function returns on
       the INITIAL contents of its inputs (which other calls may share), and
       left exactly its output at its destination;
   provided only that the destination WINDOWS [dst, dst + bound) are pairwise
   disjoint and meet nobody's inputs — where `bound` is the proven size bound
   of the codec (C01 length ranges, C03 encoder bounds, C13 decoder
   capacities).  That the real C call stays inside that window is the business
   of the footprint correspondences of C01/C03/C13; here the window is shown
   to be enough.
   Nothing but statements closed by `exact`, each followed by Print Assumptions,
   and vm_compute examples. *)
Require Import VV.Conc VV.ConcProofs VV.ConcCodec VV.ConcCodec2 VV.ConcCodec2Scalar.
Require Import VV.ConcArray VV.ConcArrayDfg VV.ConcArrayElias VV.ConcArrayRleDict VV.ConcArrayBitmap
  VV.ConcCodec2Examples.
Require Import VV.Base VV.Tagged VV.Chained VV.Split VV.SplitFull VV.External.
Require Import VV.Delta VV.FOR VV.EliasBits VV.Elias VV.RLE VV.Dict VV.Bitmap.
From Coq Require Import List NArith.
Import ListNotations.
Local Open Scope N_scope.

(* ---------------------------------------------------------------- generic *)

(* any mixture of calls (c_reads: input regions, c_dst/c_bound: destination
   window, c_fn: inputs -> (cells written, values returned)) *)
Theorem C17_calls_safe :
  forall (cs : list call) (m0 : mem),
  (forall c, In c cs -> forall ins,
     Forall2 (fun r bs => length bs = snd r) (c_reads c) ins ->
     (length (fst (c_fn c ins)) <= c_bound c)%nat) ->
  (forall i j ci cj, i <> j -> nth_error cs i = Some ci -> nth_error cs j = Some cj ->
     forall l, in_range (c_dst cj) (c_bound cj) l ->
       ~ ((exists r, In r (c_reads ci) /\ in_range (fst r) (snd r) l) \/
          in_range (c_dst ci) (c_bound ci) l)) ->
  forall sched,
  let ths := map (fun c => read_regions (c_reads c) []
                   (fun ins => write_bytes (c_dst c) (fst (c_fn c ins)) (Ret (snd (c_fn c ins))))) cs in
  ~ races (snd (crun sched (m0, ths))) /\
  forall i c r, nth_error cs i = Some c ->
    nth_error (snd (crun sched (m0, ths))) i = Some (Ret r) ->
    r = snd (c_fn c (map (fun r => peek m0 (fst r) (snd r)) (c_reads c))) /\
    forall j, (j < length (fst (c_fn c (map (fun r => peek m0 (fst r) (snd r)) (c_reads c)))))%nat ->
      fst (crun sched (m0, ths)) (c_dst c + N.of_nat j)
      = nth j (fst (c_fn c (map (fun r => peek m0 (fst r) (snd r)) (c_reads c)))) 0.
Proof. exact calls_safe. Qed.
Print Assumptions C17_calls_safe.

(* scalar codecs: encoder calls given by a pure `enc : A -> bytes` with
   `length (enc a) <= B`, decoder calls given by a pure function of the
   `rlen d` bytes at their source.  Encoders write pairwise disjoint B-byte
   windows that no decoder reads; decoders may share inputs. *)
Theorem C17_codec_threads_safe :
  forall (A D : Type) (enc : A -> list N) (eret : A -> list N) (B : nat)
         (rlen : D -> nat) (dec : D -> list N -> list N)
         (encs : list (loc * A)) (decs : list (loc * D)) (m0 : mem),
  (forall d a, In (d, a) encs -> (length (enc a) <= B)%nat) ->
  (forall i j di ai dj aj, i <> j ->
     nth_error encs i = Some (di, ai) -> nth_error encs j = Some (dj, aj) ->
     forall l, in_range di B l -> ~ in_range dj B l) ->
  (forall d a s p l, In (d, a) encs -> In (s, p) decs ->
     in_range d B l -> ~ in_range s (rlen p) l) ->
  forall sched,
  let ths :=
    map (fun da => write_bytes (fst da) (enc (snd da)) (Ret (eret (snd da)))) encs ++
    map (fun sd => read_bytes (fst sd) (rlen (snd sd)) [] (fun bs => Ret (dec (snd sd) bs))) decs in
  ~ races (snd (crun sched (m0, ths))) /\
  (forall i d a r, nth_error encs i = Some (d, a) ->
     nth_error (snd (crun sched (m0, ths))) i = Some (Ret r) ->
     r = eret a /\
     forall j, (j < length (enc a))%nat ->
       fst (crun sched (m0, ths)) (d + N.of_nat j) = nth j (enc a) 0) /\
  (forall k s p r, nth_error decs k = Some (s, p) ->
     nth_error (snd (crun sched (m0, ths))) (length encs + k) = Some (Ret r) ->
     r = dec p (peek m0 s (rlen p))).
Proof. exact codec_threads_safe. Qed.
Print Assumptions C17_codec_threads_safe.

(* the tagged instance of Properties_C17.v as a corollary of the generic
   theorem: for every initial memory, and with what a finished DECODER
   returned (threads dsts xs srcs = encoders ++ decoders, ConcCodec.v) *)
Theorem C17_tagged_threads_safe_generic :
  forall (dsts : list loc) (xs : list N) (srcs : list loc) (m0 : mem),
  length dsts = length xs ->
  (forall i j, i <> j -> (i < length dsts)%nat -> (j < length dsts)%nat ->
     forall l, in_range (nth i dsts 0) 9 l -> ~ in_range (nth j dsts 0) 9 l) ->
  (forall i s l, (i < length dsts)%nat -> In s srcs ->
     in_range (nth i dsts 0) 9 l -> ~ in_range s 9 l) ->
  forall sched,
  ~ races (snd (crun sched (m0, threads dsts xs srcs))) /\
  (forall i r, (i < length dsts)%nat ->
     nth_error (snd (crun sched (m0, threads dsts xs srcs))) i = Some (Ret r) ->
     r = [tagged_len (nth i xs 0)] /\
     forall j, (j < length (tagged_put64 (nth i xs 0%N)))%nat ->
       fst (crun sched (m0, threads dsts xs srcs)) (nth i dsts 0 + N.of_nat j)
       = nth j (tagged_put64 (nth i xs 0)) 0) /\
  (forall k r, (k < length srcs)%nat ->
     nth_error (snd (crun sched (m0, threads dsts xs srcs))) (length dsts + k) = Some (Ret r) ->
     r = [fst (tagged_get (peek m0 (nth k srcs 0) 9) 9); snd (tagged_get (peek m0 (nth k srcs 0) 9) 9)]).
Proof. exact tagged_threads_safe_again. Qed.
Print Assumptions C17_tagged_threads_safe_generic.

(* ... and the very statement of C17_tagged_threads_safe (Properties_C17.v),
   now obtained from the generic theorem *)
Theorem C17_tagged_threads_safe_corollary :
  forall (dsts : list loc) (xs : list N), List.length dsts = List.length xs ->
  (forall i j, i <> j -> (i < List.length dsts)%nat -> (j < List.length dsts)%nat ->
     forall l, in_range (nth i dsts 0%N) 9 l -> ~ in_range (nth j dsts 0%N) 9 l) ->
  forall (srcs : list loc),
  (forall i s l, (i < List.length dsts)%nat -> In s srcs ->
     in_range (nth i dsts 0%N) 9 l -> ~ in_range s 9 l) ->
  forall sched,
  ~ races (snd (crun sched (mem0, threads dsts xs srcs))) /\
  forall i r, (i < List.length dsts)%nat ->
    nth_error (snd (crun sched (mem0, threads dsts xs srcs))) i = Some (Ret r) ->
    r = [tagged_len (nth i xs 0%N)] /\
    forall j, (j < List.length (tagged_put64 (nth i xs 0%N)))%nat ->
      fst (crun sched (mem0, threads dsts xs srcs)) (nth i dsts 0%N + N.of_nat j)%N
      = nth j (tagged_put64 (nth i xs 0%N)) 0%N.
Proof. exact tagged_threads_safe_from_generic. Qed.
Print Assumptions C17_tagged_threads_safe_corollary.

(* ---------------------------------------------------------------- vocabulary
   the definitions the instance statements use, spelled out (each closed by
   reflexivity): the program shapes, the window predicate, the memory reader,
   and for every array codec the pure function a call computes — always the
   model function of the codec applied to the cells read (as uint64_t / uint8_t
   where the bound theorems need it), giving (cells written, values returned) *)
Example C17_vocabulary_programs :
  (forall lo len l, in_range lo len l <-> lo <= l < lo + N.of_nat len) /\
  (forall src n dst f,
     prog1 src n dst f = read_bytes src n [] (fun bs => write_bytes dst (fst (f bs)) (Ret (snd (f bs))))) /\
  (forall s1 n1 s2 n2 dst f,
     prog2 s1 n1 s2 n2 dst f =
     read_bytes s1 n1 [] (fun a => read_bytes s2 n2 [] (fun b =>
       write_bytes dst (fst (f a b)) (Ret (snd (f a b)))))) /\
  (forall src k, read_bytes src 2 [] k = Rd src (fun a => Rd (src + 1) (fun b => k [a; b]))) /\
  (forall dst a b k, write_bytes dst [a; b] k = Wr dst a (Wr (dst + 1) b k)) /\
  (forall m s, peek m s 3 = [m s; m (s + 1); m (s + 1 + 1)]) /\
  (forall bs l, mem_list bs l = nth (N.to_nat l) bs 0).
Proof. repeat split; intros; try reflexivity; unfold in_range in *; tauto. Qed.

Example C17_vocabulary_functions :
  (forall meta vs, for_enc_fn meta vs =
     match for_encode (map u64 vs) (Some meta) with
     | Some (bs, _) => (bs, [1; N.of_nat (length bs)]) | None => ([], [0]) end) /\
  (forall vs, for_enc_auto_fn vs =
     match for_encode (map u64 vs) None with
     | Some (bs, _) => (bs, [1; N.of_nat (length bs)]) | None => ([], [0]) end) /\
  (forall cap bs, for_dec_fn cap bs =
     match for_decode bs cap with Some (r, out) => (out, [1; r]) | None => ([], [0]) end) /\
  (forall vs, delta_enc_fn vs =
     (delta_encode_u (map u64 vs), [N.of_nat (length (delta_encode_u (map u64 vs)))])) /\
  (forall count bs, delta_dec_fn count bs =
     match delta_decode_u bs count with Some (used, vs) => (vs, [1; used]) | None => ([], [0]) end) /\
  (forall vs, gamma_enc_fn vs =
     if forallb (fun x => 1 <=? x) (map u64 vs) then
       (ee_bytes (elias_gamma_encode_array (map u64 vs)) ++
        repeat 0 (N.to_nat (ee_extent (elias_gamma_encode_array (map u64 vs)) -
                            ee_ret (elias_gamma_encode_array (map u64 vs)))),
        [1; ee_ret (elias_gamma_encode_array (map u64 vs));
            ee_totalBits (elias_gamma_encode_array (map u64 vs))])
     else ([], [0])) /\
  (forall bc bs, gamma_dec_fn bc bs =
     (elias_gamma_decode_array bs (fst bc) (snd bc),
      [N.of_nat (length (elias_gamma_decode_array bs (fst bc) (snd bc)))])) /\
  (forall bc bs, elias_delta_dec_fn bc bs =
     (elias_delta_decode_array bs (fst bc) (snd bc),
      [N.of_nat (length (elias_delta_decode_array bs (fst bc) (snd bc)))])) /\
  (forall vs, rle_enc_fn vs =
     (fst (rle_encode (map u64 vs)), [N.of_nat (length (fst (rle_encode (map u64 vs))))])) /\
  (forall cap bs, rle_dec_fn cap bs =
     (rle_stores (rle_decode bs cap), [N.of_nat (length (rle_stores (rle_decode bs cap)))])) /\
  (forall cap bs, fst (dict_dec_fn cap bs) =
     DictSafety.dict_dec_stores (dict_decode_into bs (N.of_nat (length bs)) cap)) /\
  (forall dv, shared_dict dv =
     mk_dict (map u64 dv) (N.of_nat (length dv)) (dict_index_width (N.of_nat (length dv)))) /\
  (forall dv idx, dict_lookup_fn dv idx =
     (map (fun i => dict_lookup (shared_dict dv) (u32 i)) idx, [N.of_nat (length idx)])) /\
  (forall dv vs, dict_encwd_fn dv vs =
     (fst (dict_encode_with_dict (shared_dict dv) (map u64 vs)),
      [dict_ret (dict_encode_with_dict (shared_dict dv) (map u64 vs))])) /\
  (forall dn n, dict_encwd_bound dn n = (18 + 9 * dn + n * dict_index_width (N.of_nat dn))%nat) /\
  (forall bs, bm_view_of bs = fst (bm_decode (map u8 bs) (N.of_nat (length bs)))) /\
  (forall v bs, bm_contains_fn v bs =
     ([], match bm_view_of bs with Some s => [1; b2n (bm_contains s (u16 v))] | None => [0] end)) /\
  (forall bs, bm_to_array_fn bs =
     match bm_view_of bs with Some s => (bm_to_array s, [1; bm_cardinality s]) | None => ([], [0]) end).
Proof. repeat split; intros; reflexivity. Qed.

(* ---------------------------------------------------------------- instances *)

(* external varints, little endian (varintExternalPut / varintExternalGet): encoders
   into pairwise disjoint 8-byte windows (the C01 bound ext_width x <= 8), decoders reading
   the w bytes of their (shareable) input *)
Theorem C17_external_threads_safe :
  forall (encs : list (loc * N)) (decs : list (loc * nat)) (m0 : mem),
  (forall d x, In (d, x) encs -> x < 18446744073709551616) ->
  (forall i j di xi dj xj, i <> j ->
     nth_error encs i = Some (di, xi) -> nth_error encs j = Some (dj, xj) ->
     forall l, in_range di 8 l -> ~ in_range dj 8 l) ->
  (forall d x s w l, In (d, x) encs -> In (s, w) decs -> in_range d 8 l -> ~ in_range s w l) ->
  forall sched,
  let ths :=
    map (fun dx => write_bytes (fst dx) (ext_put (snd dx)) (Ret [N.of_nat (ext_width (snd dx))])) encs ++
    map (fun sw => read_bytes (fst sw) (snd sw) [] (fun bs => Ret (ret_opt (ext_get bs (snd sw))))) decs in
  ~ races (snd (crun sched (m0, ths))) /\
  (forall i d x r, nth_error encs i = Some (d, x) ->
     nth_error (snd (crun sched (m0, ths))) i = Some (Ret r) ->
     r = [N.of_nat (ext_width x)] /\
     forall j, (j < length (ext_put x))%nat ->
       fst (crun sched (m0, ths)) (d + N.of_nat j) = nth j (ext_put x) 0) /\
  (forall k s w r, nth_error decs k = Some (s, w) ->
     nth_error (snd (crun sched (m0, ths))) (length encs + k) = Some (Ret r) ->
     r = ret_opt (ext_get (peek m0 s w) w)).
Proof. exact external_threads_safe. Qed.
Print Assumptions C17_external_threads_safe.

(* external varints, big endian *)
Theorem C17_externalbe_threads_safe :
  forall (encs : list (loc * N)) (decs : list (loc * nat)) (m0 : mem),
  (forall d x, In (d, x) encs -> x < 18446744073709551616) ->
  (forall i j di xi dj xj, i <> j ->
     nth_error encs i = Some (di, xi) -> nth_error encs j = Some (dj, xj) ->
     forall l, in_range di 8 l -> ~ in_range dj 8 l) ->
  (forall d x s w l, In (d, x) encs -> In (s, w) decs -> in_range d 8 l -> ~ in_range s w l) ->
  forall sched,
  let ths :=
    map (fun dx => write_bytes (fst dx) (extbe_put (snd dx)) (Ret [N.of_nat (ext_width (snd dx))])) encs ++
    map (fun sw => read_bytes (fst sw) (snd sw) [] (fun bs => Ret (ret_opt (extbe_get bs (snd sw))))) decs in
  ~ races (snd (crun sched (m0, ths))) /\
  (forall i d x r, nth_error encs i = Some (d, x) ->
     nth_error (snd (crun sched (m0, ths))) i = Some (Ret r) ->
     r = [N.of_nat (ext_width x)] /\
     forall j, (j < length (extbe_put x))%nat ->
       fst (crun sched (m0, ths)) (d + N.of_nat j) = nth j (extbe_put x) 0) /\
  (forall k s w r, nth_error decs k = Some (s, w) ->
     nth_error (snd (crun sched (m0, ths))) (length encs + k) = Some (Ret r) ->
     r = ret_opt (extbe_get (peek m0 s w) w)).
Proof. exact externalbe_threads_safe. Qed.
Print Assumptions C17_externalbe_threads_safe.

(* chained (sqlite3) varints: 9-byte windows (C01_chained_len_range) *)
Theorem C17_chained_threads_safe :
  forall (encs : list (loc * N)) (srcs : list loc) (m0 : mem),
  (forall d x, In (d, x) encs -> x < 18446744073709551616) ->
  (forall i j di xi dj xj, i <> j ->
     nth_error encs i = Some (di, xi) -> nth_error encs j = Some (dj, xj) ->
     forall l, in_range di 9 l -> ~ in_range dj 9 l) ->
  (forall d x s l, In (d, x) encs -> In s srcs -> in_range d 9 l -> ~ in_range s 9 l) ->
  forall sched,
  let ths :=
    map (fun dx => write_bytes (fst dx) (chained_put (snd dx)) (Ret [chained_len (snd dx)])) encs ++
    map (fun s => read_bytes s 9 [] (fun bs => Ret [fst (chained_get bs); snd (chained_get bs)])) srcs in
  ~ races (snd (crun sched (m0, ths))) /\
  (forall i d x r, nth_error encs i = Some (d, x) ->
     nth_error (snd (crun sched (m0, ths))) i = Some (Ret r) ->
     r = [chained_len x] /\
     forall j, (j < length (chained_put x))%nat ->
       fst (crun sched (m0, ths)) (d + N.of_nat j) = nth j (chained_put x) 0) /\
  (forall k s r, nth_error srcs k = Some s ->
     nth_error (snd (crun sched (m0, ths))) (length encs + k) = Some (Ret r) ->
     r = [fst (chained_get (peek m0 s 9)); snd (chained_get (peek m0 s 9))]).
Proof. exact chained_threads_safe. Qed.
Print Assumptions C17_chained_threads_safe.

(* chained-simple (leveldb) varints: 9-byte windows (C01_csimple_length_range) *)
Theorem C17_csimple_threads_safe :
  forall (encs : list (loc * N)) (srcs : list loc) (m0 : mem),
  (forall d x, In (d, x) encs -> x < 18446744073709551616) ->
  (forall i j di xi dj xj, i <> j ->
     nth_error encs i = Some (di, xi) -> nth_error encs j = Some (dj, xj) ->
     forall l, in_range di 9 l -> ~ in_range dj 9 l) ->
  (forall d x s l, In (d, x) encs -> In s srcs -> in_range d 9 l -> ~ in_range s 9 l) ->
  forall sched,
  let ths :=
    map (fun dx => write_bytes (fst dx) (csimple_encode64 (snd dx)) (Ret [csimple_length (snd dx)])) encs ++
    map (fun s => read_bytes s 9 [] (fun bs => Ret [fst (csimple_decode64 bs); snd (csimple_decode64 bs)])) srcs in
  ~ races (snd (crun sched (m0, ths))) /\
  (forall i d x r, nth_error encs i = Some (d, x) ->
     nth_error (snd (crun sched (m0, ths))) i = Some (Ret r) ->
     r = [csimple_length x] /\
     forall j, (j < length (csimple_encode64 x))%nat ->
       fst (crun sched (m0, ths)) (d + N.of_nat j) = nth j (csimple_encode64 x) 0) /\
  (forall k s r, nth_error srcs k = Some s ->
     nth_error (snd (crun sched (m0, ths))) (length encs + k) = Some (Ret r) ->
     r = [fst (csimple_decode64 (peek m0 s 9)); snd (csimple_decode64 (peek m0 s 9))]).
Proof. exact csimple_threads_safe. Qed.
Print Assumptions C17_csimple_threads_safe.

(* split varints: 9-byte windows (C01_split_len_range); bytes_of (Some bs) = bs *)
Theorem C17_split_threads_safe :
  forall (encs : list (loc * N)) (srcs : list loc) (m0 : mem),
  (forall d x, In (d, x) encs -> x < 18446744073709551616) ->
  (forall i j di xi dj xj, i <> j ->
     nth_error encs i = Some (di, xi) -> nth_error encs j = Some (dj, xj) ->
     forall l, in_range di 9 l -> ~ in_range dj 9 l) ->
  (forall d x s l, In (d, x) encs -> In s srcs -> in_range d 9 l -> ~ in_range s 9 l) ->
  forall sched,
  let ths :=
    map (fun dx => write_bytes (fst dx) (bytes_of (split_put (snd dx))) (Ret [split_length (snd dx)])) encs ++
    map (fun s => read_bytes s 9 [] (fun bs => Ret (ret_opt2 (split_get bs)))) srcs in
  ~ races (snd (crun sched (m0, ths))) /\
  (forall i d x r, nth_error encs i = Some (d, x) ->
     nth_error (snd (crun sched (m0, ths))) i = Some (Ret r) ->
     r = [split_length x] /\
     forall j, (j < length (bytes_of (split_put x)))%nat ->
       fst (crun sched (m0, ths)) (d + N.of_nat j) = nth j (bytes_of (split_put x)) 0) /\
  (forall k s r, nth_error srcs k = Some s ->
     nth_error (snd (crun sched (m0, ths))) (length encs + k) = Some (Ret r) ->
     r = ret_opt2 (split_get (peek m0 s 9))).
Proof. exact split_threads_safe. Qed.
Print Assumptions C17_split_threads_safe.

(* splitfull16 varints: 9-byte windows (C01_split16_len_range) *)
Theorem C17_split16_threads_safe :
  forall (encs : list (loc * N)) (srcs : list loc) (m0 : mem),
  (forall d x, In (d, x) encs -> x < 18446744073709551616) ->
  (forall i j di xi dj xj, i <> j ->
     nth_error encs i = Some (di, xi) -> nth_error encs j = Some (dj, xj) ->
     forall l, in_range di 9 l -> ~ in_range dj 9 l) ->
  (forall d x s l, In (d, x) encs -> In s srcs -> in_range d 9 l -> ~ in_range s 9 l) ->
  forall sched,
  let ths :=
    map (fun dx => write_bytes (fst dx) (bytes_of (split16_put (snd dx))) (Ret [split16_length (snd dx)])) encs ++
    map (fun s => read_bytes s 9 [] (fun bs => Ret (ret_opt2 (split16_get bs)))) srcs in
  ~ races (snd (crun sched (m0, ths))) /\
  (forall i d x r, nth_error encs i = Some (d, x) ->
     nth_error (snd (crun sched (m0, ths))) i = Some (Ret r) ->
     r = [split16_length x] /\
     forall j, (j < length (bytes_of (split16_put x)))%nat ->
       fst (crun sched (m0, ths)) (d + N.of_nat j) = nth j (bytes_of (split16_put x)) 0) /\
  (forall k s r, nth_error srcs k = Some s ->
     nth_error (snd (crun sched (m0, ths))) (length encs + k) = Some (Ret r) ->
     r = ret_opt2 (split16_get (peek m0 s 9))).
Proof. exact split16_threads_safe. Qed.
Print Assumptions C17_split16_threads_safe.

(* splitfull varints: 9-byte windows (C01_splitfull_len_range) *)
Theorem C17_splitfull_threads_safe :
  forall (encs : list (loc * N)) (srcs : list loc) (m0 : mem),
  (forall d x, In (d, x) encs -> x < 18446744073709551616) ->
  (forall i j di xi dj xj, i <> j ->
     nth_error encs i = Some (di, xi) -> nth_error encs j = Some (dj, xj) ->
     forall l, in_range di 9 l -> ~ in_range dj 9 l) ->
  (forall d x s l, In (d, x) encs -> In s srcs -> in_range d 9 l -> ~ in_range s 9 l) ->
  forall sched,
  let ths :=
    map (fun dx => write_bytes (fst dx) (sf_put (snd dx)) (Ret [sf_length (snd dx)])) encs ++
    map (fun s => read_bytes s 9 [] (fun bs => Ret (ret_opt2 (sf_get bs)))) srcs in
  ~ races (snd (crun sched (m0, ths))) /\
  (forall i d x r, nth_error encs i = Some (d, x) ->
     nth_error (snd (crun sched (m0, ths))) i = Some (Ret r) ->
     r = [sf_length x] /\
     forall j, (j < length (sf_put x))%nat ->
       fst (crun sched (m0, ths)) (d + N.of_nat j) = nth j (sf_put x) 0) /\
  (forall k s r, nth_error srcs k = Some s ->
     nth_error (snd (crun sched (m0, ths))) (length encs + k) = Some (Ret r) ->
     r = ret_opt2 (sf_get (peek m0 s 9))).
Proof. exact splitfull_threads_safe. Qed.
Print Assumptions C17_splitfull_threads_safe.

(* splitfull-nozero varints (domain 1 <= x): 9-byte windows (C01_splitfullnz_len_range) *)
Theorem C17_splitfullnz_threads_safe :
  forall (encs : list (loc * N)) (srcs : list loc) (m0 : mem),
  (forall d x, In (d, x) encs -> 1 <= x < 18446744073709551616) ->
  (forall i j di xi dj xj, i <> j ->
     nth_error encs i = Some (di, xi) -> nth_error encs j = Some (dj, xj) ->
     forall l, in_range di 9 l -> ~ in_range dj 9 l) ->
  (forall d x s l, In (d, x) encs -> In s srcs -> in_range d 9 l -> ~ in_range s 9 l) ->
  forall sched,
  let ths :=
    map (fun dx => write_bytes (fst dx) (sfnz_put (snd dx)) (Ret [sfnz_length (snd dx)])) encs ++
    map (fun s => read_bytes s 9 [] (fun bs => Ret (ret_opt2 (sfnz_get bs)))) srcs in
  ~ races (snd (crun sched (m0, ths))) /\
  (forall i d x r, nth_error encs i = Some (d, x) ->
     nth_error (snd (crun sched (m0, ths))) i = Some (Ret r) ->
     r = [sfnz_length x] /\
     forall j, (j < length (sfnz_put x))%nat ->
       fst (crun sched (m0, ths)) (d + N.of_nat j) = nth j (sfnz_put x) 0) /\
  (forall k s r, nth_error srcs k = Some s ->
     nth_error (snd (crun sched (m0, ths))) (length encs + k) = Some (Ret r) ->
     r = ret_opt2 (sfnz_get (peek m0 s 9))).
Proof. exact splitfullnz_threads_safe. Qed.
Print Assumptions C17_splitfullnz_threads_safe.

(* varintFOREncode with the caller's meta on shared value arrays: the window of a
   call is the varintFORSize(meta) bytes of C03_for_size_exact_trusted *)
Theorem C17_for_encode_threads_safe :
  forall (ps : list (io * for_meta)) (m0 : mem),
  (forall p, In p ps -> io_n (fst p) <> 0%nat /\
     N.of_nat (io_n (fst p)) < 1152921504606846976 /\ fm_count (snd p) = N.of_nat (io_n (fst p))) ->
  (forall i j pi pj, i <> j -> nth_error ps i = Some pi -> nth_error ps j = Some pj ->
     forall l, in_range (io_dst (fst pj)) (N.to_nat (for_size (snd pj))) l ->
       ~ in_range (io_dst (fst pi)) (N.to_nat (for_size (snd pi))) l /\
       ~ in_range (io_src (fst pi)) (io_n (fst pi)) l) ->
  forall sched,
  let ths := map (fun p => prog1 (io_src (fst p)) (io_n (fst p)) (io_dst (fst p)) (for_enc_fn (snd p))) ps in
  ~ races (snd (crun sched (m0, ths))) /\
  forall i p r, nth_error ps i = Some p ->
    nth_error (snd (crun sched (m0, ths))) i = Some (Ret r) ->
    let res := for_enc_fn (snd p) (peek m0 (io_src (fst p)) (io_n (fst p))) in
    r = snd res /\
    forall j, (j < length (fst res))%nat ->
      fst (crun sched (m0, ths)) (io_dst (fst p) + N.of_nat j) = nth j (fst res) 0.
Proof. exact for_encode_threads_safe. Qed.
Print Assumptions C17_for_encode_threads_safe.

(* varintFOREncode with meta = NULL (the call analyses what it reads): the window is
   the worst case 19 + 8 * count of varintFORSize (C03_for_size_exact, width <= 8) *)
Theorem C17_for_encode_auto_threads_safe :
  forall (ps : list io) (m0 : mem),
  (forall p, In p ps -> io_n p <> 0%nat /\ N.of_nat (io_n p) < 1152921504606846976) ->
  (forall i j pi pj, i <> j -> nth_error ps i = Some pi -> nth_error ps j = Some pj ->
     forall l, in_range (io_dst pj) (19 + 8 * io_n pj) l ->
       ~ in_range (io_dst pi) (19 + 8 * io_n pi) l /\ ~ in_range (io_src pi) (io_n pi) l) ->
  forall sched,
  let ths := map (fun p => prog1 (io_src p) (io_n p) (io_dst p) for_enc_auto_fn) ps in
  ~ races (snd (crun sched (m0, ths))) /\
  forall i p r, nth_error ps i = Some p ->
    nth_error (snd (crun sched (m0, ths))) i = Some (Ret r) ->
    let res := for_enc_auto_fn (peek m0 (io_src p) (io_n p)) in
    r = snd res /\
    forall j, (j < length (fst res))%nat ->
      fst (crun sched (m0, ths)) (io_dst p + N.of_nat j) = nth j (fst res) 0.
Proof. exact for_encode_auto_threads_safe. Qed.
Print Assumptions C17_for_encode_auto_threads_safe.

(* varintFORDecode on shared encodings: the window is maxCount elements (C13_for_decode_cap) *)
Theorem C17_for_decode_threads_safe :
  forall (ps : list (io * N)) (m0 : mem),
  (forall i j pi pj, i <> j -> nth_error ps i = Some pi -> nth_error ps j = Some pj ->
     forall l, in_range (io_dst (fst pj)) (N.to_nat (snd pj)) l ->
       ~ in_range (io_dst (fst pi)) (N.to_nat (snd pi)) l /\
       ~ in_range (io_src (fst pi)) (io_n (fst pi)) l) ->
  forall sched,
  let ths := map (fun p => prog1 (io_src (fst p)) (io_n (fst p)) (io_dst (fst p)) (for_dec_fn (snd p))) ps in
  ~ races (snd (crun sched (m0, ths))) /\
  forall i p r, nth_error ps i = Some p ->
    nth_error (snd (crun sched (m0, ths))) i = Some (Ret r) ->
    let res := for_dec_fn (snd p) (peek m0 (io_src (fst p)) (io_n (fst p))) in
    r = snd res /\
    forall j, (j < length (fst res))%nat ->
      fst (crun sched (m0, ths)) (io_dst (fst p) + N.of_nat j) = nth j (fst res) 0.
Proof. exact for_decode_threads_safe. Qed.
Print Assumptions C17_for_decode_threads_safe.

(* varintDeltaEncodeUnsigned on shared value arrays: the window is
   varintDeltaMaxEncodedSize(count) bytes (C03_delta_u_bound) *)
Theorem C17_delta_encode_threads_safe :
  forall (ps : list io) (m0 : mem),
  (forall p, In p ps -> N.of_nat (io_n p) < 1152921504606846976) ->
  (forall i j pi pj, i <> j -> nth_error ps i = Some pi -> nth_error ps j = Some pj ->
     forall l, in_range (io_dst pj) (N.to_nat (delta_max_encoded_size (N.of_nat (io_n pj)))) l ->
       ~ in_range (io_dst pi) (N.to_nat (delta_max_encoded_size (N.of_nat (io_n pi)))) l /\
       ~ in_range (io_src pi) (io_n pi) l) ->
  forall sched,
  let ths := map (fun p => prog1 (io_src p) (io_n p) (io_dst p) delta_enc_fn) ps in
  ~ races (snd (crun sched (m0, ths))) /\
  forall i p r, nth_error ps i = Some p ->
    nth_error (snd (crun sched (m0, ths))) i = Some (Ret r) ->
    let res := delta_enc_fn (peek m0 (io_src p) (io_n p)) in
    r = snd res /\
    forall j, (j < length (fst res))%nat ->
      fst (crun sched (m0, ths)) (io_dst p + N.of_nat j) = nth j (fst res) 0.
Proof. exact delta_encode_threads_safe. Qed.
Print Assumptions C17_delta_encode_threads_safe.

(* varintDeltaDecodeUnsigned on shared encodings: the window is count elements *)
Theorem C17_delta_decode_threads_safe :
  forall (ps : list (io * nat)) (m0 : mem),
  (forall i j pi pj, i <> j -> nth_error ps i = Some pi -> nth_error ps j = Some pj ->
     forall l, in_range (io_dst (fst pj)) (snd pj) l ->
       ~ in_range (io_dst (fst pi)) (snd pi) l /\
       ~ in_range (io_src (fst pi)) (io_n (fst pi)) l) ->
  forall sched,
  let ths := map (fun p => prog1 (io_src (fst p)) (io_n (fst p)) (io_dst (fst p)) (delta_dec_fn (snd p))) ps in
  ~ races (snd (crun sched (m0, ths))) /\
  forall i p r, nth_error ps i = Some p ->
    nth_error (snd (crun sched (m0, ths))) i = Some (Ret r) ->
    let res := delta_dec_fn (snd p) (peek m0 (io_src (fst p)) (io_n (fst p))) in
    r = snd res /\
    forall j, (j < length (fst res))%nat ->
      fst (crun sched (m0, ths)) (io_dst (fst p) + N.of_nat j) = nth j (fst res) 0.
Proof. exact delta_decode_threads_safe. Qed.
Print Assumptions C17_delta_decode_threads_safe.

(* varintEliasGammaEncodeArray on shared value arrays: the window is the
   varintEliasGammaMaxBytes(count) bytes the call zeroes (C03_gamma_encode_bound) *)
Theorem C17_gamma_encode_threads_safe :
  forall (ps : list io) (m0 : mem),
  (forall p, In p ps -> N.of_nat (io_n p) < 144115188075855872) ->
  (forall i j pi pj, i <> j -> nth_error ps i = Some pi -> nth_error ps j = Some pj ->
     forall l, in_range (io_dst pj) (N.to_nat (elias_gamma_max_bytes (N.of_nat (io_n pj)))) l ->
       ~ in_range (io_dst pi) (N.to_nat (elias_gamma_max_bytes (N.of_nat (io_n pi)))) l /\
       ~ in_range (io_src pi) (io_n pi) l) ->
  forall sched,
  let ths := map (fun p => prog1 (io_src p) (io_n p) (io_dst p) gamma_enc_fn) ps in
  ~ races (snd (crun sched (m0, ths))) /\
  forall i p r, nth_error ps i = Some p ->
    nth_error (snd (crun sched (m0, ths))) i = Some (Ret r) ->
    let res := gamma_enc_fn (peek m0 (io_src p) (io_n p)) in
    r = snd res /\
    forall j, (j < length (fst res))%nat ->
      fst (crun sched (m0, ths)) (io_dst p + N.of_nat j) = nth j (fst res) 0.
Proof. exact gamma_encode_threads_safe. Qed.
Print Assumptions C17_gamma_encode_threads_safe.

(* varintEliasGammaDecodeArray on shared code bytes: the window is maxCount elements
   (C13_gamma_capacity); the argument pair is (srcBits, maxCount) *)
Theorem C17_gamma_decode_threads_safe :
  forall (ps : list (io * (N * nat))) (m0 : mem),
  (forall i j pi pj, i <> j -> nth_error ps i = Some pi -> nth_error ps j = Some pj ->
     forall l, in_range (io_dst (fst pj)) (snd (snd pj)) l ->
       ~ in_range (io_dst (fst pi)) (snd (snd pi)) l /\
       ~ in_range (io_src (fst pi)) (io_n (fst pi)) l) ->
  forall sched,
  let ths := map (fun p => prog1 (io_src (fst p)) (io_n (fst p)) (io_dst (fst p)) (gamma_dec_fn (snd p))) ps in
  ~ races (snd (crun sched (m0, ths))) /\
  forall i p r, nth_error ps i = Some p ->
    nth_error (snd (crun sched (m0, ths))) i = Some (Ret r) ->
    let res := gamma_dec_fn (snd p) (peek m0 (io_src (fst p)) (io_n (fst p))) in
    r = snd res /\
    forall j, (j < length (fst res))%nat ->
      fst (crun sched (m0, ths)) (io_dst (fst p) + N.of_nat j) = nth j (fst res) 0.
Proof. exact gamma_decode_threads_safe. Qed.
Print Assumptions C17_gamma_decode_threads_safe.

(* varintEliasDeltaEncodeArray: the window is varintEliasDeltaMaxBytes(count) bytes
   (C03_delta_encode_bound) *)
Theorem C17_elias_delta_encode_threads_safe :
  forall (ps : list io) (m0 : mem),
  (forall p, In p ps -> N.of_nat (io_n p) < 144115188075855872) ->
  (forall i j pi pj, i <> j -> nth_error ps i = Some pi -> nth_error ps j = Some pj ->
     forall l, in_range (io_dst pj) (N.to_nat (elias_delta_max_bytes (N.of_nat (io_n pj)))) l ->
       ~ in_range (io_dst pi) (N.to_nat (elias_delta_max_bytes (N.of_nat (io_n pi)))) l /\
       ~ in_range (io_src pi) (io_n pi) l) ->
  forall sched,
  let ths := map (fun p => prog1 (io_src p) (io_n p) (io_dst p) elias_delta_enc_fn) ps in
  ~ races (snd (crun sched (m0, ths))) /\
  forall i p r, nth_error ps i = Some p ->
    nth_error (snd (crun sched (m0, ths))) i = Some (Ret r) ->
    let res := elias_delta_enc_fn (peek m0 (io_src p) (io_n p)) in
    r = snd res /\
    forall j, (j < length (fst res))%nat ->
      fst (crun sched (m0, ths)) (io_dst p + N.of_nat j) = nth j (fst res) 0.
Proof. exact elias_delta_encode_threads_safe. Qed.
Print Assumptions C17_elias_delta_encode_threads_safe.

(* varintEliasDeltaDecodeArray: the window is maxCount elements (C13_delta_capacity) *)
Theorem C17_elias_delta_decode_threads_safe :
  forall (ps : list (io * (N * nat))) (m0 : mem),
  (forall i j pi pj, i <> j -> nth_error ps i = Some pi -> nth_error ps j = Some pj ->
     forall l, in_range (io_dst (fst pj)) (snd (snd pj)) l ->
       ~ in_range (io_dst (fst pi)) (snd (snd pi)) l /\
       ~ in_range (io_src (fst pi)) (io_n (fst pi)) l) ->
  forall sched,
  let ths := map (fun p => prog1 (io_src (fst p)) (io_n (fst p)) (io_dst (fst p)) (elias_delta_dec_fn (snd p))) ps in
  ~ races (snd (crun sched (m0, ths))) /\
  forall i p r, nth_error ps i = Some p ->
    nth_error (snd (crun sched (m0, ths))) i = Some (Ret r) ->
    let res := elias_delta_dec_fn (snd p) (peek m0 (io_src (fst p)) (io_n (fst p))) in
    r = snd res /\
    forall j, (j < length (fst res))%nat ->
      fst (crun sched (m0, ths)) (io_dst (fst p) + N.of_nat j) = nth j (fst res) 0.
Proof. exact elias_delta_decode_threads_safe. Qed.
Print Assumptions C17_elias_delta_decode_threads_safe.

(* varintRLEEncode on shared value arrays: the window is varintRLEMaxSize(count) bytes
   (C03_rle_bound) *)
Theorem C17_rle_encode_threads_safe :
  forall (ps : list io) (m0 : mem),
  (forall p, In p ps -> 10 * N.of_nat (io_n p) + 9 < 18446744073709551616) ->
  (forall i j pi pj, i <> j -> nth_error ps i = Some pi -> nth_error ps j = Some pj ->
     forall l, in_range (io_dst pj) (N.to_nat (rle_max_size (N.of_nat (io_n pj)))) l ->
       ~ in_range (io_dst pi) (N.to_nat (rle_max_size (N.of_nat (io_n pi)))) l /\
       ~ in_range (io_src pi) (io_n pi) l) ->
  forall sched,
  let ths := map (fun p => prog1 (io_src p) (io_n p) (io_dst p) rle_enc_fn) ps in
  ~ races (snd (crun sched (m0, ths))) /\
  forall i p r, nth_error ps i = Some p ->
    nth_error (snd (crun sched (m0, ths))) i = Some (Ret r) ->
    let res := rle_enc_fn (peek m0 (io_src p) (io_n p)) in
    r = snd res /\
    forall j, (j < length (fst res))%nat ->
      fst (crun sched (m0, ths)) (io_dst p + N.of_nat j) = nth j (fst res) 0.
Proof. exact rle_encode_threads_safe. Qed.
Print Assumptions C17_rle_encode_threads_safe.

(* varintRLEDecode on shared encodings: the window is maxCount elements
   (C13_rle_decode_cap_any_input) *)
Theorem C17_rle_decode_threads_safe :
  forall (ps : list (io * N)) (m0 : mem),
  (forall i j pi pj, i <> j -> nth_error ps i = Some pi -> nth_error ps j = Some pj ->
     forall l, in_range (io_dst (fst pj)) (N.to_nat (snd pj)) l ->
       ~ in_range (io_dst (fst pi)) (N.to_nat (snd pi)) l /\
       ~ in_range (io_src (fst pi)) (io_n (fst pi)) l) ->
  forall sched,
  let ths := map (fun p => prog1 (io_src (fst p)) (io_n (fst p)) (io_dst (fst p)) (rle_dec_fn (snd p))) ps in
  ~ races (snd (crun sched (m0, ths))) /\
  forall i p r, nth_error ps i = Some p ->
    nth_error (snd (crun sched (m0, ths))) i = Some (Ret r) ->
    let res := rle_dec_fn (snd p) (peek m0 (io_src (fst p)) (io_n (fst p))) in
    r = snd res /\
    forall j, (j < length (fst res))%nat ->
      fst (crun sched (m0, ths)) (io_dst (fst p) + N.of_nat j) = nth j (fst res) 0.
Proof. exact rle_decode_threads_safe. Qed.
Print Assumptions C17_rle_decode_threads_safe.

(* varintDictDecodeInto on shared encodings (dictionary and indices are both in the
   shared buffer): the window is maxValues elements (C13_dict_into_cap_any_input) *)
Theorem C17_dict_decode_threads_safe :
  forall (ps : list (io * N)) (m0 : mem),
  (forall i j pi pj, i <> j -> nth_error ps i = Some pi -> nth_error ps j = Some pj ->
     forall l, in_range (io_dst (fst pj)) (N.to_nat (snd pj)) l ->
       ~ in_range (io_dst (fst pi)) (N.to_nat (snd pi)) l /\
       ~ in_range (io_src (fst pi)) (io_n (fst pi)) l) ->
  forall sched,
  let ths := map (fun p => prog1 (io_src (fst p)) (io_n (fst p)) (io_dst (fst p)) (dict_dec_fn (snd p))) ps in
  ~ races (snd (crun sched (m0, ths))) /\
  forall i p r, nth_error ps i = Some p ->
    nth_error (snd (crun sched (m0, ths))) i = Some (Ret r) ->
    let res := dict_dec_fn (snd p) (peek m0 (io_src (fst p)) (io_n (fst p))) in
    r = snd res /\
    forall j, (j < length (fst res))%nat ->
      fst (crun sched (m0, ths)) (io_dst (fst p) + N.of_nat j) = nth j (fst res) 0.
Proof. exact dict_decode_threads_safe. Qed.
Print Assumptions C17_dict_decode_threads_safe.

(* decoding index arrays with varintDictLookup on a SHARED read-only dictionary
   (dio_dict, dio_dn cells): one store per index *)
Theorem C17_dict_lookup_threads_safe :
  forall (ps : list dio) (m0 : mem),
  (forall i j pi pj, i <> j -> nth_error ps i = Some pi -> nth_error ps j = Some pj ->
     forall l, in_range (dio_dst pj) (dio_n pj) l ->
       ~ in_range (dio_dst pi) (dio_n pi) l /\
       ~ in_range (dio_dict pi) (dio_dn pi) l /\ ~ in_range (dio_src pi) (dio_n pi) l) ->
  forall sched,
  let ths := map (fun p => prog2 (dio_dict p) (dio_dn p) (dio_src p) (dio_n p) (dio_dst p) dict_lookup_fn) ps in
  ~ races (snd (crun sched (m0, ths))) /\
  forall i p r, nth_error ps i = Some p ->
    nth_error (snd (crun sched (m0, ths))) i = Some (Ret r) ->
    let res := dict_lookup_fn (peek m0 (dio_dict p) (dio_dn p)) (peek m0 (dio_src p) (dio_n p)) in
    r = snd res /\
    forall j, (j < length (fst res))%nat ->
      fst (crun sched (m0, ths)) (dio_dst p + N.of_nat j) = nth j (fst res) 0.
Proof. exact dict_lookup_threads_safe. Qed.
Print Assumptions C17_dict_lookup_threads_safe.

(* varintDictEncodeWithDict with a SHARED read-only dictionary: the window is
   18 + 9 * size + count * indexWidth >= varintDictEncodedSizeWithDict (C03_dict_with_bound) *)
Theorem C17_dict_encode_with_dict_threads_safe :
  forall (ps : list dio) (m0 : mem),
  (forall p, In p ps -> N.of_nat (dio_dn p) < 18446744073709551616 /\
                        N.of_nat (dio_n p) * 8 < 18446744073709551616) ->
  (forall i j pi pj, i <> j -> nth_error ps i = Some pi -> nth_error ps j = Some pj ->
     forall l, in_range (dio_dst pj) (dict_encwd_bound (dio_dn pj) (dio_n pj)) l ->
       ~ in_range (dio_dst pi) (dict_encwd_bound (dio_dn pi) (dio_n pi)) l /\
       ~ in_range (dio_dict pi) (dio_dn pi) l /\ ~ in_range (dio_src pi) (dio_n pi) l) ->
  forall sched,
  let ths := map (fun p => prog2 (dio_dict p) (dio_dn p) (dio_src p) (dio_n p) (dio_dst p) dict_encwd_fn) ps in
  ~ races (snd (crun sched (m0, ths))) /\
  forall i p r, nth_error ps i = Some p ->
    nth_error (snd (crun sched (m0, ths))) i = Some (Ret r) ->
    let res := dict_encwd_fn (peek m0 (dio_dict p) (dio_dn p)) (peek m0 (dio_src p) (dio_n p)) in
    r = snd res /\
    forall j, (j < length (fst res))%nat ->
      fst (crun sched (m0, ths)) (dio_dst p + N.of_nat j) = nth j (fst res) 0.
Proof. exact dict_encode_with_dict_threads_safe. Qed.
Print Assumptions C17_dict_encode_with_dict_threads_safe.

(* varintBitmapContains readers on SHARED bitmaps: nothing is written, so no
   hypothesis on the placement at all *)
Theorem C17_bitmap_contains_threads_safe :
  forall (ps : list (io * N)) (m0 : mem),
  forall sched,
  let ths := map (fun p => prog1 (io_src (fst p)) (io_n (fst p)) (io_dst (fst p)) (bm_contains_fn (snd p))) ps in
  ~ races (snd (crun sched (m0, ths))) /\
  forall i p r, nth_error ps i = Some p ->
    nth_error (snd (crun sched (m0, ths))) i = Some (Ret r) ->
    r = snd (bm_contains_fn (snd p) (peek m0 (io_src (fst p)) (io_n (fst p)))).
Proof. exact bitmap_contains_threads_safe. Qed.
Print Assumptions C17_bitmap_contains_threads_safe.

(* varintBitmapToArray readers on SHARED bitmaps, private outputs: the window is the
   65536 elements a bitmap can hold *)
Theorem C17_bitmap_to_array_threads_safe :
  forall (ps : list io) (m0 : mem),
  (forall i j pi pj, i <> j -> nth_error ps i = Some pi -> nth_error ps j = Some pj ->
     forall l, in_range (io_dst pj) (N.to_nat 65536) l ->
       ~ in_range (io_dst pi) (N.to_nat 65536) l /\ ~ in_range (io_src pi) (io_n pi) l) ->
  forall sched,
  let ths := map (fun p => prog1 (io_src p) (io_n p) (io_dst p) bm_to_array_fn) ps in
  ~ races (snd (crun sched (m0, ths))) /\
  forall i p r, nth_error ps i = Some p ->
    nth_error (snd (crun sched (m0, ths))) i = Some (Ret r) ->
    let res := bm_to_array_fn (peek m0 (io_src p) (io_n p)) in
    r = snd res /\
    forall j, (j < length (fst res))%nat ->
      fst (crun sched (m0, ths)) (io_dst p + N.of_nat j) = nth j (fst res) 0.
Proof. exact bitmap_to_array_threads_safe. Qed.
Print Assumptions C17_bitmap_to_array_threads_safe.

(* ---------------------------------------------------------------- non-vacuity
   one concrete configuration per instance, run under an irregular prefix
   followed by a round-robin schedule (rr k n = k rounds over n threads);
   mem_list bs = the memory holding bs from address 0 on, 0 elsewhere *)

Example C17_tagged_example :
  let c := crun ([2; 0; 2; 2; 1]%nat ++ rr 10 3) (mem_list (tagged_put64 300), threads [100; 200] [70000; 5] [0]) in
  snd c = [Ret [tagged_len 70000]; Ret [1]; Ret [2; 300]] /\
  peek (fst c) 100 (length (tagged_put64 70000)) = tagged_put64 70000 /\ peek (fst c) 200 1 = [5].
Proof. vm_compute. repeat split; reflexivity. Qed.

(* two encoders, two decoders sharing the input at 0 (widths 2 and 3) *)
Example C17_external_example :
  let ths :=
    map (fun dx => write_bytes (fst dx) (ext_put (snd dx)) (Ret [N.of_nat (ext_width (snd dx))])) [(100, 65536); (200, 255)] ++
    map (fun sw => read_bytes (fst sw) (snd sw) [] (fun bs => Ret (ret_opt (ext_get bs (snd sw))))) [(0, 2%nat); (0, 3%nat)] in
  let c := crun ([3; 0; 2; 2; 1; 3]%nat ++ rr 4 4) (mem_list [52; 18; 1; 0; 0; 0; 0; 0; 0; 7], ths) in
  snd c = [Ret [3]; Ret [1]; Ret [1; 4660]; Ret [1; 70196]] /\
  peek (fst c) 100 4 = [0; 0; 1; 0] /\ peek (fst c) 200 2 = [255; 0].
Proof. vm_compute. repeat split; reflexivity. Qed.

Example C17_externalbe_example :
  let ths :=
    map (fun dx => write_bytes (fst dx) (extbe_put (snd dx)) (Ret [N.of_nat (ext_width (snd dx))])) [(100, 65536); (200, 255)] ++
    map (fun sw => read_bytes (fst sw) (snd sw) [] (fun bs => Ret (ret_opt (extbe_get bs (snd sw))))) [(0, 2%nat); (0, 3%nat)] in
  let c := crun ([3; 0; 2; 2; 1; 3]%nat ++ rr 4 4) (mem_list [52; 18; 1; 0; 0; 0; 0; 0; 0; 7], ths) in
  snd c = [Ret [3]; Ret [1]; Ret [1; 13330]; Ret [1; 3412481]] /\
  peek (fst c) 100 4 = [1; 0; 0; 0] /\ peek (fst c) 200 2 = [255; 0].
Proof. vm_compute. repeat split; reflexivity. Qed.

(* two encoders into 100.. and 200.., one decoder on the shared input at 0 *)
Example C17_chained_example :
  let ths :=
    map (fun dx => write_bytes (fst dx) (chained_put (snd dx)) (Ret [chained_len (snd dx)])) [(100, 72057594037927936); (200, 5)] ++
    map (fun s => read_bytes s 9 [] (fun bs => Ret [fst (chained_get bs); snd (chained_get bs)])) [0] in
  let c := crun ([2; 0; 2; 2; 1]%nat ++ rr 10 3) (mem_list [130; 44], ths) in
  snd c = [Ret [9]; Ret [1]; Ret [2; 300]] /\
  peek (fst c) 100 9 = [128; 192; 128; 128; 128; 128; 128; 128; 0] /\ peek (fst c) 200 2 = [5; 0].
Proof. vm_compute. repeat split; reflexivity. Qed.

Example C17_csimple_example :
  let ths :=
    map (fun dx => write_bytes (fst dx) (csimple_encode64 (snd dx)) (Ret [csimple_length (snd dx)])) [(100, 18446744073709551615); (200, 5)] ++
    map (fun s => read_bytes s 9 [] (fun bs => Ret [fst (csimple_decode64 bs); snd (csimple_decode64 bs)])) [0] in
  let c := crun ([2; 0; 2; 2; 1]%nat ++ rr 10 3) (mem_list [172; 2], ths) in
  snd c = [Ret [9]; Ret [1]; Ret [2; 300]] /\
  peek (fst c) 100 9 = [255; 255; 255; 255; 255; 255; 255; 255; 255] /\ peek (fst c) 200 2 = [5; 0].
Proof. vm_compute. repeat split; reflexivity. Qed.

Example C17_split_example :
  let ths :=
    map (fun dx => write_bytes (fst dx) (bytes_of (split_put (snd dx))) (Ret [split_length (snd dx)])) [(100, 81981); (200, 18446744073709551615)] ++
    map (fun s => read_bytes s 9 [] (fun bs => Ret (ret_opt2 (split_get bs)))) [0] in
  let c := crun ([2; 0; 2; 2; 1]%nat ++ rr 10 3) (mem_list [131; 0; 0; 1], ths) in
  snd c = [Ret [3]; Ret [9]; Ret [1; 4; 81982]] /\
  peek (fst c) 100 4 = [130; 255; 255; 0] /\
  peek (fst c) 200 9 = [136; 193; 191; 255; 255; 255; 255; 255; 255].
Proof. vm_compute. repeat split; reflexivity. Qed.

Example C17_split16_example :
  let ths :=
    map (fun dx => write_bytes (fst dx) (bytes_of (split16_put (snd dx))) (Ret [split16_length (snd dx)])) [(100, 81981); (200, 18446744073709551615)] ++
    map (fun s => read_bytes s 9 [] (fun bs => Ret (ret_opt2 (split16_get bs)))) [0] in
  let c := crun ([2; 0; 2; 2; 1]%nat ++ rr 10 3) (mem_list [196; 1; 0; 0; 0], ths) in
  snd c = [Ret [3]; Ret [9]; Ret [1; 5; 1077952510]] /\
  peek (fst c) 100 4 = [65; 0; 62; 0] /\
  peek (fst c) 200 9 = [200; 2; 192; 191; 191; 255; 255; 255; 255].
Proof. vm_compute. repeat split; reflexivity. Qed.

Example C17_splitfull_example :
  let ths :=
    map (fun dx => write_bytes (fst dx) (sf_put (snd dx)) (Ret [sf_length (snd dx)])) [(100, 64); (200, 18446744073709551615)] ++
    map (fun s => read_bytes s 9 [] (fun bs => Ret (ret_opt2 (sf_get bs)))) [0] in
  let c := crun ([2; 0; 2; 2; 1]%nat ++ rr 10 3) (mem_list [195; 0; 0; 1], ths) in
  snd c = [Ret [2]; Ret [9]; Ret [1; 4; 4276285]] /\
  peek (fst c) 100 3 = [64; 1; 0] /\
  peek (fst c) 200 9 = [200; 194; 191; 191; 255; 255; 255; 255; 255].
Proof. vm_compute. repeat split; reflexivity. Qed.

Example C17_splitfullnz_example :
  let ths :=
    map (fun dx => write_bytes (fst dx) (sfnz_put (snd dx)) (Ret [sfnz_length (snd dx)])) [(100, 1); (200, 18446744073709551615)] ++
    map (fun s => read_bytes s 9 [] (fun bs => Ret (ret_opt2 (sfnz_get bs)))) [0] in
  let c := crun ([2; 0; 2; 2; 1]%nat ++ rr 10 3) (mem_list [64; 1], ths) in
  snd c = [Ret [1]; Ret [9]; Ret [1; 2; 65]] /\
  peek (fst c) 100 2 = [0; 0] /\
  peek (fst c) 200 9 = [200; 193; 191; 191; 255; 255; 255; 255; 255].
Proof. vm_compute. repeat split; reflexivity. Qed.

(* two FOR encoders on the SAME three values at 0..2, one with the analysis
   (min 7, width 1: 6 bytes), one with a wider caller meta (min 0, width 2: 9 bytes) *)
Example C17_for_encode_example :
  let ps := [(mk_io 0 3 100, mk_for_meta 7 9 2 3 6 1); (mk_io 0 3 200, mk_for_meta 0 65535 65535 3 9 2)] in
  let ths := map (fun p => prog1 (io_src (fst p)) (io_n (fst p)) (io_dst (fst p)) (for_enc_fn (snd p))) ps in
  let c := crun ([1; 0; 1; 1; 0]%nat ++ rr 20 2) (mem_list [7; 8; 9], ths) in
  map (fun p => for_size (snd p)) ps = [6; 9] /\
  snd c = [Ret [1; 6]; Ret [1; 9]] /\
  peek (fst c) 100 7 = [7; 1; 3; 0; 1; 2; 0] /\ peek (fst c) 200 10 = [0; 2; 3; 7; 0; 8; 0; 9; 0; 0].
Proof. vm_compute. repeat split; reflexivity. Qed.

(* FOR encoders with their own analysis on overlapping shared inputs [7;8;300] and [8;300] *)
Example C17_for_encode_auto_example :
  let ths := map (fun p => prog1 (io_src p) (io_n p) (io_dst p) for_enc_auto_fn) [mk_io 0 3 100; mk_io 1 2 200] in
  let c := crun ([1; 0; 1; 1; 0]%nat ++ rr 20 2) (mem_list [7; 8; 300], ths) in
  snd c = [Ret [1; 9]; Ret [1; 7]] /\
  peek (fst c) 100 10 = [7; 2; 3; 0; 0; 1; 0; 37; 1; 0] /\ peek (fst c) 200 8 = [8; 2; 2; 0; 0; 36; 1; 0].
Proof. vm_compute. repeat split; reflexivity. Qed.

(* two FOR decoders on the SAME encoding, capacities 3 (all) and 2 (refused) *)
Example C17_for_decode_example :
  let ths := map (fun p => prog1 (io_src (fst p)) (io_n (fst p)) (io_dst (fst p)) (for_dec_fn (snd p)))
               [(mk_io 0 6 100, 3); (mk_io 0 6 200, 2)] in
  let c := crun ([1; 0; 1; 1; 0]%nat ++ rr 20 2) (mem_list [7; 1; 3; 0; 1; 2], ths) in
  snd c = [Ret [1; 3]; Ret [1; 0]] /\ peek (fst c) 100 4 = [7; 8; 9; 0] /\ peek (fst c) 200 4 = [0; 0; 0; 0].
Proof. vm_compute. repeat split; reflexivity. Qed.

(* delta encoders on overlapping shared inputs [100;90;300] and [90;300] *)
Example C17_delta_encode_example :
  let ths := map (fun p => prog1 (io_src p) (io_n p) (io_dst p) delta_enc_fn) [mk_io 0 3 100; mk_io 1 2 200] in
  let c := crun ([1; 0; 1; 1; 0]%nat ++ rr 40 2) (mem_list [100; 90; 300], ths) in
  snd c = [Ret [7]; Ret [5]] /\
  peek (fst c) 100 9 = [1; 100; 1; 19; 2; 164; 1; 0; 0] /\ peek (fst c) 200 7 = [1; 90; 2; 164; 1; 0; 0] /\
  delta_max_encoded_size 3 = 27.
Proof. vm_compute. repeat split; reflexivity. Qed.

Example C17_delta_decode_example :
  let ths := map (fun p => prog1 (io_src (fst p)) (io_n (fst p)) (io_dst (fst p)) (delta_dec_fn (snd p)))
               [(mk_io 0 7 100, 3%nat); (mk_io 0 7 200, 2%nat)] in
  let c := crun ([1; 0; 1; 1; 0]%nat ++ rr 40 2) (mem_list [1; 100; 1; 19; 2; 164; 1], ths) in
  snd c = [Ret [1; 7]; Ret [1; 4]] /\ peek (fst c) 100 4 = [100; 90; 300; 0] /\ peek (fst c) 200 4 = [100; 90; 0; 0].
Proof. vm_compute. repeat split; reflexivity. Qed.

(* gamma encoders on overlapping shared inputs [5;1;9] and [1;9]: windows of 48 and 32 bytes *)
Example C17_gamma_encode_example :
  let ths := map (fun p => prog1 (io_src p) (io_n p) (io_dst p) gamma_enc_fn) [mk_io 0 3 100; mk_io 1 2 200] in
  let c := crun ([1; 0; 1; 1; 0]%nat ++ rr 60 2) (mem_list [5; 1; 9], ths) in
  snd c = [Ret [1; 2; 13]; Ret [1; 1; 8]] /\
  peek (fst c) 100 3 = [44; 72; 0] /\ peek (fst c) 200 3 = [137; 0; 0] /\
  elias_gamma_max_bytes 3 = 48 /\ elias_gamma_max_bytes 2 = 32.
Proof. vm_compute. repeat split; reflexivity. Qed.

Example C17_gamma_decode_example :
  let ths := map (fun p => prog1 (io_src (fst p)) (io_n (fst p)) (io_dst (fst p)) (gamma_dec_fn (snd p)))
               [(mk_io 0 2 100, (13, 3%nat)); (mk_io 0 2 200, (13, 2%nat))] in
  let c := crun ([1; 0; 1; 1; 0]%nat ++ rr 20 2) (mem_list [44; 72], ths) in
  snd c = [Ret [3]; Ret [2]] /\ peek (fst c) 100 4 = [5; 1; 9; 0] /\ peek (fst c) 200 4 = [5; 1; 0; 0].
Proof. vm_compute. repeat split; reflexivity. Qed.

(* RLE decoders on the SAME encoding of [4;4;4;9;9], capacities 5 and 4 (a prefix) *)
Example C17_rle_decode_example :
  let ths := map (fun p => prog1 (io_src (fst p)) (io_n (fst p)) (io_dst (fst p)) (rle_dec_fn (snd p)))
               [(mk_io 0 4 100, 5); (mk_io 0 4 200, 4)] in
  let c := crun ([1; 0; 1; 1; 0]%nat ++ rr 20 2) (mem_list [3; 4; 2; 9], ths) in
  snd c = [Ret [5]; Ret [4]] /\ peek (fst c) 100 6 = [4; 4; 4; 9; 9; 0] /\ peek (fst c) 200 6 = [4; 4; 4; 9; 0; 0].
Proof. vm_compute. repeat split; reflexivity. Qed.

(* varintDictDecodeInto on the SAME encoding of [30;10;20;10;30;30], capacities 6 and 5 (refused) *)
Example C17_dict_decode_example :
  let ths := map (fun p => prog1 (io_src (fst p)) (io_n (fst p)) (io_dst (fst p)) (dict_dec_fn (snd p)))
               [(mk_io 0 11 100, 6); (mk_io 0 11 200, 5)] in
  let c := crun ([1; 0; 1; 1; 0]%nat ++ rr 40 2) (mem_list [3; 10; 20; 30; 6; 2; 0; 1; 0; 2; 2], ths) in
  snd c = [Ret [3; 6]; Ret [0; 0]] /\
  peek (fst c) 100 7 = [30; 10; 20; 10; 30; 30; 0] /\ peek (fst c) 200 7 = [0; 0; 0; 0; 0; 0; 0].
Proof. vm_compute. repeat split; reflexivity. Qed.

(* the shared dictionary [10;20;30] at 0..2; index arrays [2;0;1;7] at 10.. and [1;1] at 20.. *)
Example C17_dict_lookup_example :
  let ths := map (fun p => prog2 (dio_dict p) (dio_dn p) (dio_src p) (dio_n p) (dio_dst p) dict_lookup_fn)
               [mk_dio 0 3 10 4 100; mk_dio 0 3 20 2 200] in
  let m0 := mem_list ([10; 20; 30] ++ repeat 0 7 ++ [2; 0; 1; 7] ++ repeat 0 6 ++ [1; 1]) in
  let c := crun ([1; 0; 1; 1; 0]%nat ++ rr 20 2) (m0, ths) in
  snd c = [Ret [4]; Ret [2]] /\ peek (fst c) 100 5 = [30; 10; 20; 0; 0] /\ peek (fst c) 200 3 = [20; 20; 0].
Proof. vm_compute. repeat split; reflexivity. Qed.

(* the shared dictionary [10;20;30]; values [30;10;20] (8 bytes) and [20;99] (99 missing: returns 0) *)
Example C17_dict_encode_with_dict_example :
  let ths := map (fun p => prog2 (dio_dict p) (dio_dn p) (dio_src p) (dio_n p) (dio_dst p) dict_encwd_fn)
               [mk_dio 0 3 10 3 100; mk_dio 0 3 20 2 200] in
  let m0 := mem_list ([10; 20; 30] ++ repeat 0 7 ++ [30; 10; 20] ++ repeat 0 7 ++ [20; 99]) in
  let c := crun ([1; 0; 1; 1; 0]%nat ++ rr 20 2) (m0, ths) in
  snd c = [Ret [8]; Ret [0]] /\
  peek (fst c) 100 9 = [3; 10; 20; 30; 3; 2; 0; 1; 0] /\ peek (fst c) 200 9 = [3; 10; 20; 30; 2; 1; 0; 0; 0] /\
  dict_encwd_bound 3 3 = 48%nat.
Proof. vm_compute. repeat split; reflexivity. Qed.

(* three Contains readers on the SAME bitmap {1,2,3} (array container, 11 bytes);
   the third is given only 5 of its bytes: not a bitmap *)
Example C17_bitmap_contains_example :
  let ths := map (fun p => prog1 (io_src (fst p)) (io_n (fst p)) (io_dst (fst p)) (bm_contains_fn (snd p)))
               [(mk_io 0 11 0, 2); (mk_io 0 11 0, 5); (mk_io 0 5 0, 2)] in
  let c := crun ([2; 0; 2; 1; 0]%nat ++ rr 12 3) (mem_list [0; 3; 0; 0; 0; 1; 0; 2; 0; 3; 0], ths) in
  snd c = [Ret [1; 1]; Ret [1; 0]; Ret [0]].
Proof. vm_compute. reflexivity. Qed.

Example C17_bitmap_to_array_example :
  let ths := map (fun p => prog1 (io_src p) (io_n p) (io_dst p) bm_to_array_fn)
               [mk_io 0 11 100000; mk_io 0 11 200000; mk_io 0 9 300000] in
  let c := crun ([2; 0; 2; 1; 0]%nat ++ rr 16 3) (mem_list [0; 3; 0; 0; 0; 1; 0; 2; 0; 3; 0], ths) in
  snd c = [Ret [1; 3]; Ret [1; 3]; Ret [0]] /\
  peek (fst c) 100000 4 = [1; 2; 3; 0] /\ peek (fst c) 200000 4 = [1; 2; 3; 0] /\ peek (fst c) 300000 4 = [0; 0; 0; 0].
Proof. vm_compute. repeat split; reflexivity. Qed.

Example C17_elias_delta_encode_example :
  let ths := map (fun p => prog1 (io_src p) (io_n p) (io_dst p) elias_delta_enc_fn) [mk_io 0 3 100; mk_io 1 2 200] in
  let c := crun ([1; 0; 1; 1; 0]%nat ++ rr 40 2) (mem_list [5; 1; 9], ths) in
  snd c = [Ret [1; 2; 14]; Ret [1; 2; 9]] /\
  peek (fst c) 100 3 = [108; 132; 0] /\ peek (fst c) 200 3 = [144; 128; 0] /\
  elias_delta_max_bytes 3 = 29 /\ elias_delta_max_bytes 2 = 19.
Proof. vm_compute. repeat split; reflexivity. Qed.

Example C17_elias_delta_decode_example :
  let ths := map (fun p => prog1 (io_src (fst p)) (io_n (fst p)) (io_dst (fst p)) (elias_delta_dec_fn (snd p)))
               [(mk_io 0 2 100, (14, 3%nat)); (mk_io 0 2 200, (14, 2%nat))] in
  let c := crun ([1; 0; 1; 1; 0]%nat ++ rr 20 2) (mem_list [108; 132], ths) in
  snd c = [Ret [3]; Ret [2]] /\ peek (fst c) 100 4 = [5; 1; 9; 0] /\ peek (fst c) 200 4 = [5; 1; 0; 0].
Proof. vm_compute. repeat split; reflexivity. Qed.

(* RLE encoders on overlapping shared inputs [4;4;4;9;9] and [4;9;9] *)
Example C17_rle_encode_example :
  let ths := map (fun p => prog1 (io_src p) (io_n p) (io_dst p) rle_enc_fn) [mk_io 0 5 100; mk_io 2 3 200] in
  let c := crun ([1; 0; 1; 1; 0]%nat ++ rr 20 2) (mem_list [4; 4; 4; 9; 9], ths) in
  snd c = [Ret [4]; Ret [4]] /\ peek (fst c) 100 5 = [3; 4; 2; 9; 0] /\ peek (fst c) 200 5 = [1; 4; 2; 9; 0] /\
  rle_max_size 5 = 59.
Proof. vm_compute. repeat split; reflexivity. Qed.

(* the hypotheses are satisfiable: for three of the configurations above the
   placement hypotheses are proved and the theorems applied, so the results
   hold under EVERY schedule (a scalar family, a one-input array family with a
   validity condition, the two-input family with the shared dictionary) *)
Example C17_external_example_all_schedules : forall sched,
  let encs := [(100, 65536); (200, 255)] in
  let decs := [(0, 2%nat); (0, 3%nat)] in
  let ths :=
    map (fun dx => write_bytes (fst dx) (ext_put (snd dx)) (Ret [N.of_nat (ext_width (snd dx))])) encs ++
    map (fun sw => read_bytes (fst sw) (snd sw) [] (fun bs => Ret (ret_opt (ext_get bs (snd sw))))) decs in
  let c := crun sched (mem_list [52; 18; 1; 0; 0; 0; 0; 0; 0; 7], ths) in
  ~ races (snd c) /\
  (forall r, nth_error (snd c) 0 = Some (Ret r) -> r = [3] /\ fst c 100 = 0 /\ fst c 102 = 1) /\
  (forall r, nth_error (snd c) 2 = Some (Ret r) -> r = [1; 4660]) /\
  (forall r, nth_error (snd c) 3 = Some (Ret r) -> r = [1; 70196]).
Proof. exact external_example_all_schedules. Qed.

Example C17_for_encode_example_all_schedules : forall sched,
  let ps := [(mk_io 0 3 100, mk_for_meta 7 9 2 3 6 1); (mk_io 0 3 200, mk_for_meta 0 65535 65535 3 9 2)] in
  let ths := map (fun p => prog1 (io_src (fst p)) (io_n (fst p)) (io_dst (fst p)) (for_enc_fn (snd p))) ps in
  let c := crun sched (mem_list [7; 8; 9], ths) in
  ~ races (snd c) /\
  (forall r, nth_error (snd c) 0 = Some (Ret r) -> r = [1; 6] /\ fst c 100 = 7 /\ fst c 105 = 2) /\
  (forall r, nth_error (snd c) 1 = Some (Ret r) -> r = [1; 9] /\ fst c 200 = 0 /\ fst c 207 = 9).
Proof. exact for_encode_example_all_schedules. Qed.

Example C17_dict_lookup_example_all_schedules : forall sched,
  let ps := [mk_dio 0 3 10 4 100; mk_dio 0 3 20 2 200] in
  let ths := map (fun p => prog2 (dio_dict p) (dio_dn p) (dio_src p) (dio_n p) (dio_dst p) dict_lookup_fn) ps in
  let m0 := mem_list ([10; 20; 30] ++ repeat 0 7 ++ [2; 0; 1; 7] ++ repeat 0 6 ++ [1; 1]) in
  let c := crun sched (m0, ths) in
  ~ races (snd c) /\
  (forall r, nth_error (snd c) 0 = Some (Ret r) -> r = [4] /\ fst c 100 = 30 /\ fst c 103 = 0) /\
  (forall r, nth_error (snd c) 1 = Some (Ret r) -> r = [2] /\ fst c 201 = 20).
Proof. exact dict_lookup_example_all_schedules. Qed.
