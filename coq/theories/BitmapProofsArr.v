(* BitmapProofsArr.v — the ARRAY container: binary search on the last-slot-first
   list, insertion and deletion. `vals` is the array in index order,
   rvals = rev vals is what the model stores. *)
Require Import VV.Base VV.BaseProofs VV.Bitmap VV.BitmapLemmas.
From Coq Require Import Lia ZifyBool ZifyN ZifyNat Sorted Arith Zeven.
Local Open Scope N_scope.
Ltac Zify.zify_post_hook ::= Z.div_mod_to_equations.

Lemma firstn_S_nth (l : list N) m : (m < length l)%nat -> firstn (S m) l = firstn m l ++ [nth m l 0].
Proof.
  revert m. induction l as [|x l IH]; intros m H; [cbn in H; lia|].
  destruct m as [|m]; [reflexivity|]. cbn [firstn nth app]. f_equal. apply IH. cbn in H. lia.
Qed.

Lemma rev_firstn_S (l : list N) m : (m < length l)%nat -> rev (firstn (S m) l) = nth m l 0 :: rev (firstn m l).
Proof. intro H. rewrite firstn_S_nth by exact H. rewrite rev_app_distr. reflexivity. Qed.

Lemma skipn_rev_firstn (l : list N) k m : (k <= m)%nat -> (m <= length l)%nat ->
  skipn k (rev (firstn m l)) = rev (firstn (m - k) l).
Proof.
  intros Hk Hm. rewrite skipn_rev, firstn_length_le by exact Hm. rewrite firstn_firstn.
  f_equal. f_equal. lia.
Qed.

Lemma sorted_firstn_le l m : sorted l -> (m < length l)%nat -> Forall (fun x => x <= nth m l 0) (firstn (S m) l).
Proof.
  revert m. induction l as [|x l IH]; intros m Hs H; [cbn in H; lia|].
  destruct (sorted_cons_inv _ _ Hs) as [S' Hx]. destruct m as [|m].
  - cbn. constructor; [lia|constructor].
  - cbn [firstn nth]. cbn in H. constructor.
    + assert (In (nth m l 0) l) by (apply nth_In; lia). specialize (Hx _ H0). lia.
    + apply IH; [exact S'|lia].
Qed.

Lemma sorted_skipn_ge l m : sorted l -> (m < length l)%nat -> Forall (fun x => nth m l 0 <= x) (skipn m l).
Proof.
  revert m. induction l as [|x l IH]; intros m Hs H; [cbn in H; lia|].
  destruct (sorted_cons_inv _ _ Hs) as [S' Hx]. destruct m as [|m].
  - cbn [skipn nth]. constructor; [lia|]. apply Forall_forall. intros y Hy. specialize (Hx _ Hy). lia.
  - cbn [skipn nth]. apply IH; [exact S'|cbn in H; lia].
Qed.

Lemma Forall_lt_le (l : list N) a v : Forall (fun x => x <= a) l -> a < v -> Forall (fun x => x < v) l.
Proof. intros H Ha. eapply Forall_impl; [|exact H]. cbv beta. intros. lia. Qed.
Lemma Forall_gt_ge (l : list N) a v : Forall (fun x => a <= x) l -> v < a -> Forall (fun x => v < x) l.
Proof. intros H Ha. eapply Forall_impl; [|exact H]. cbv beta. intros. lia. Qed.

(* result of the search on a strictly ascending array *)
Definition bs_post (vals : list N) (v : N) (r : Z) : Prop :=
  ((0 <= r)%Z -> (Z.to_nat r < length vals)%nat /\ nth (Z.to_nat r) vals 0 = v) /\
  ((r < 0)%Z -> let p := Z.to_nat (- (r + 1)) in
               (p <= length vals)%nat /\ Forall (fun x => x < v) (firstn p vals) /\
               Forall (fun x => v < x) (skipn p vals)).

Lemma bsearch_loop_spec f : forall vals low high v,
  sorted vals -> (0 <= low)%Z -> (high < Z.of_nat (length vals))%Z -> (low <= high + 1)%Z ->
  (high - low + 2 <= 2 ^ Z.of_nat f)%Z ->
  Forall (fun x => x < v) (firstn (Z.to_nat low) vals) ->
  Forall (fun x => v < x) (skipn (Z.to_nat (high + 1)) vals) ->
  bs_post vals v (bm_bsearch_loop (S f) (rev (firstn (Z.to_nat (high + 1)) vals)) low high v).
Proof.
  induction f as [|f IH]; intros vals low high v Hs Hlow Hhigh Hlh Hfuel HL HR.
  - (* interval is empty *)
    change (2 ^ Z.of_nat 0)%Z with 1%Z in Hfuel.
    cbn [bm_bsearch_loop]. destruct (low <=? high)%Z eqn:E; [lia|].
    unfold bs_post. split; [lia|]. intros _. cbv zeta.
    replace (Z.to_nat (- (- (low + 1) + 1))) with (Z.to_nat low) by lia.
    replace (Z.to_nat (high + 1)) with (Z.to_nat low) in HR by lia. repeat split; [lia|exact HL|exact HR].
  - rewrite Nat2Z.inj_succ, Z.pow_succ_r in Hfuel by lia.
    set (P := (2 ^ Z.of_nat f)%Z) in *.
    cbn [bm_bsearch_loop]. destruct (low <=? high)%Z eqn:E.
    + rewrite Zquot2_quot, Z.quot_div_nonneg by lia.
      set (mid := ((low + high) / 2)%Z).
      assert (Hmid : (low <= mid <= high)%Z) by (unfold mid; lia).
      rewrite skipnN_spec, Z_N_nat.
      rewrite skipn_rev_firstn by lia.
      replace (Z.to_nat (high + 1) - Z.to_nat (high - mid))%nat with (S (Z.to_nat mid)) by lia.
      rewrite rev_firstn_S by lia. cbn [hd tl].
      set (mv := nth (Z.to_nat mid) vals 0).
      destruct (mv <? v) eqn:E1.
      * (* go right *)
        apply IH; try assumption; try lia.
        replace (Z.to_nat (mid + 1)) with (S (Z.to_nat mid)) by lia.
        apply Forall_lt_le with mv; [apply sorted_firstn_le; [exact Hs|lia]|lia].
      * destruct (v <? mv) eqn:E2.
        -- (* go left *)
           replace (rev (firstn (Z.to_nat mid) vals)) with (rev (firstn (Z.to_nat (mid - 1 + 1)) vals))
             by (do 2 f_equal; lia).
           apply IH; try assumption; try lia.
           replace (Z.to_nat (mid - 1 + 1)) with (Z.to_nat mid) by lia.
           apply Forall_gt_ge with mv; [apply sorted_skipn_ge; [exact Hs|lia]|lia].
        -- (* found *)
           unfold bs_post. split; [|lia]. intros _. split; [lia|]. fold mv. lia.
    + unfold bs_post. split; [lia|]. intros _. cbv zeta.
      replace (Z.to_nat (- (- (low + 1) + 1))) with (Z.to_nat low) by lia.
      replace (Z.to_nat (high + 1)) with (Z.to_nat low) in HR by lia. repeat split; [lia|exact HL|exact HR].
Qed.

Lemma to_s32_small x : x < 2147483648 -> bm_to_s32 x = Z.of_N x.
Proof. intro H. unfold bm_to_s32. destruct (x <? 2147483648) eqn:E; [reflexivity|lia]. Qed.

Lemma sub32_small x y : y <= x -> x < 4294967296 -> bm_sub32 x y = x - y.
Proof. intros H1 H2. unfold bm_sub32. destruct ((y <=? x) && (x <? 4294967296)) eqn:E; [reflexivity|lia]. Qed.

Lemma u32_small x : x < 4294967296 -> bm_u32 x = x.
Proof. intro H. unfold bm_u32. destruct (x <? 4294967296) eqn:E; [reflexivity|lia]. Qed.

Lemma u16_small x : x < 65536 -> bm_u16 x = x.
Proof. intro H. unfold bm_u16. destruct (x <? 65536) eqn:E; [reflexivity|lia]. Qed.

Lemma binary_search_spec vals v :
  sorted vals -> bm_lenN vals < 2147483648 ->
  bs_post vals v (bm_binary_search (rev vals) (bm_lenN vals) v).
Proof.
  intros Hs Hn. unfold bm_binary_search. destruct (bm_lenN vals =? 0) eqn:E.
  - assert (vals = []) by (destruct vals; [reflexivity|unfold bm_lenN in E; cbn in E; lia]). subst.
    unfold bs_post. split; [lia|]. intros _. cbn. repeat split; [lia|constructor|constructor].
  - rewrite sub32_small, to_s32_small by lia.
    assert (Hrev : rev vals = rev (firstn (Z.to_nat (Z.of_N (bm_lenN vals - 1) + 1)) vals)).
    { rewrite firstn_all2; [reflexivity|]. unfold bm_lenN in *. lia. }
    rewrite Hrev. apply (bsearch_loop_spec 39); try assumption; unfold bm_lenN in *; try lia.
    + cbn. constructor.
    + rewrite skipn_all2 by lia. constructor.
Qed.

(* membership from the search result *)
Lemma bs_found_iff vals v r : sorted vals -> bs_post vals v r -> ((0 <= r)%Z <-> In v vals).
Proof.
  intros Hs [H1 H2]. split.
  - intro Hr. destruct (H1 Hr) as [Hlt <-]. apply nth_In. exact Hlt.
  - intro Hin. destruct (Z.lt_ge_cases r 0) as [Hneg|]; [|assumption]. exfalso.
    destruct (H2 Hneg) as (_ & HL & HR). cbv zeta in *.
    rewrite <- (firstn_skipn (Z.to_nat (- (r + 1))) vals) in Hin. apply in_app_or in Hin.
    rewrite Forall_forall in HL, HR. destruct Hin as [Hin|Hin]; [specialize (HL _ Hin)|specialize (HR _ Hin)]; lia.
Qed.

(* insertion at the reported position *)
Lemma insert_rev vals p v : (p <= length vals)%nat ->
  rev (bm_insertN (rev vals) (bm_lenN vals - N.of_nat p) v) = firstn p vals ++ v :: skipn p vals.
Proof.
  intro Hp. rewrite insertN_spec. unfold bm_lenN.
  replace (N.to_nat (N.of_nat (length vals) - N.of_nat p)) with (length vals - p)%nat by lia.
  rewrite rev_app_distr. cbn [rev]. rewrite <- app_assoc. cbn [app].
  rewrite skipn_rev, firstn_rev, !rev_involutive.
  replace (length vals - (length vals - p))%nat with p by lia. reflexivity.
Qed.

Lemma sorted_insert vals p v : sorted vals ->
  Forall (fun x => x < v) (firstn p vals) -> Forall (fun x => v < x) (skipn p vals) ->
  sorted (firstn p vals ++ v :: skipn p vals).
Proof.
  intros Hs HL HR. rewrite <- (firstn_skipn p vals) in Hs. apply sorted_app_inv in Hs. destruct Hs as (S1 & S2 & S3).
  rewrite Forall_forall in HL, HR.
  apply sorted_app; [exact S1| |].
  - constructor; [exact S2|]. apply Forall_forall. exact HR.
  - intros x y Hx [<-|Hy]; [apply HL; exact Hx|apply S3; assumption].
Qed.

Lemma in_insert (vals : list N) p v x : In x (firstn p vals ++ v :: skipn p vals) <-> x = v \/ In x vals.
Proof.
  rewrite in_app_iff. cbn [In]. rewrite <- (firstn_skipn p vals) at 3. rewrite in_app_iff.
  split; intros [H|[H|H]]; auto.
Qed.

(* deletion at the reported index *)
Lemma remove_rev vals r : (r < length vals)%nat ->
  rev (bm_removeN (rev vals) (bm_lenN vals - 1 - N.of_nat r)) = firstn r vals ++ skipn (S r) vals.
Proof.
  intro Hr. rewrite removeN_spec. unfold bm_lenN.
  replace (N.to_nat (N.of_nat (length vals) - 1 - N.of_nat r)) with (length vals - 1 - r)%nat by lia.
  rewrite rev_app_distr. rewrite skipn_rev, firstn_rev, !rev_involutive.
  replace (length vals - S (length vals - 1 - r))%nat with r by lia.
  replace (length vals - (length vals - 1 - r))%nat with (S r) by lia. reflexivity.
Qed.

Lemma split_nth (vals : list N) r : (r < length vals)%nat ->
  vals = firstn r vals ++ nth r vals 0 :: skipn (S r) vals.
Proof.
  intro H. rewrite <- (firstn_skipn r vals) at 1. f_equal.
  revert r H. induction vals as [|x l IH]; intros r H; [cbn in H; lia|].
  destruct r as [|r]; [reflexivity|]. cbn [skipn nth]. apply IH. cbn in H. lia.
Qed.

Lemma sorted_remove vals r : sorted vals -> (r < length vals)%nat ->
  sorted (firstn r vals ++ skipn (S r) vals) /\
  forall x, In x (firstn r vals ++ skipn (S r) vals) <-> (In x vals /\ x <> nth r vals 0).
Proof.
  intros Hs Hr. pose proof (split_nth vals r Hr) as E.
  set (a := firstn r vals) in *. set (b := skipn (S r) vals) in *. set (v := nth r vals 0) in *.
  rewrite E in Hs. apply sorted_app_inv in Hs. destruct Hs as (S1 & S2 & S3).
  destruct (sorted_cons_inv _ _ S2) as [S4 S5].
  split.
  - apply sorted_app; [exact S1|exact S4|]. intros x y Hx Hy. apply S3; [exact Hx|right; exact Hy].
  - intro x. rewrite E at 1. rewrite !in_app_iff. cbn [In]. split.
    + intros [H|H]; (split; [tauto|]); intro; subst x.
      * specialize (S3 v v H (or_introl eq_refl)). lia.
      * specialize (S5 _ H). lia.
    + intros [[H|[H|H]] Hne]; [left; exact H|congruence|right; exact H].
Qed.
