(* Properties_C01_external_big.v — C01 for the __uint128_t entry points of the
   external family (varintExternalPutFixedWidthBig / varintBigExternalGet),
   widths 1..16.  Only statements closed by `exact` + Print Assumptions. *)
Require Import VV.Base VV.External VV.ExternalBig VV.ExternalBigProofs.
From Coq Require Import List NArith.
Import ListNotations.
Local Open Scope N_scope.

(* a value that fits in w bytes (any w in 1..16, any value below 256^w, in
   particular all 2^128 values at w = 16) is written as exactly w bytes — its
   little-endian slice — and reads back unchanged, whatever follows the w bytes *)
Theorem C01_extbig_fixed_roundtrip : forall x w tl, (1 <= w <= 16)%nat -> x < 256 ^ N.of_nat w ->
  extbig_put_fixed x w = Some (le_bytes w x) /\ length (le_bytes w x) = w /\
  extbig_get (le_bytes w x ++ tl) w = Some x.
Proof. exact extbig_fixed_roundtrip. Qed.
Print Assumptions C01_extbig_fixed_roundtrip.

(* a width below the value's own: truncation to w bytes, nothing else *)
Theorem C01_extbig_fixed_truncates : forall x w tl, (1 <= w <= 16)%nat ->
  extbig_put_fixed x w = Some (le_bytes w x) /\ length (le_bytes w x) = w /\
  extbig_get (le_bytes w x ++ tl) w = Some (x mod 256 ^ N.of_nat w).
Proof. exact extbig_fixed_trunc. Qed.
Print Assumptions C01_extbig_fixed_truncates.

(* the reader looks at the first w bytes only *)
Theorem C01_extbig_get_reads_w : forall z z' w,
  firstn w z = firstn w z' -> extbig_get z w = extbig_get z' w.
Proof. exact extbig_get_reads_w. Qed.
Print Assumptions C01_extbig_get_reads_w.

(* widths outside 1..16 have no case in the C switch (assert / unreachable) *)
Theorem C01_extbig_fixed_domain : forall x z w, ~ (1 <= w <= 16)%nat ->
  extbig_put_fixed x w = None /\ extbig_get z w = None.
Proof. exact extbig_fixed_domain. Qed.
Print Assumptions C01_extbig_fixed_domain.

(* on widths 1..8 the 128-bit entry points agree with the 64-bit ones *)
Theorem C01_extbig_agrees_with_64 : forall x z w, (1 <= w <= 8)%nat ->
  extbig_put_fixed x w = ext_put_fixed x w /\ extbig_get z w = ext_get z w.
Proof. exact extbig_agrees_with_64. Qed.
Print Assumptions C01_extbig_agrees_with_64.

Example C01_extbig_example :
  extbig_put_fixed (2 ^ 127 + 258) 16 = Some [2; 1; 0; 0; 0; 0; 0; 0; 0; 0; 0; 0; 0; 0; 0; 128] /\
  extbig_get [2; 1; 0; 0; 0; 0; 0; 0; 0; 0; 0; 0; 0; 0; 0; 128; 77] 16 = Some (2 ^ 127 + 258) /\
  extbig_put_fixed (2 ^ 72 + 5) 9 = Some [5; 0; 0; 0; 0; 0; 0; 0; 0].
Proof. vm_compute. repeat split; reflexivity. Qed.
