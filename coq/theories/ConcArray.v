(* ConcArray.v — C17 for array codecs: a call reads its WHOLE input region
   (n cells at src: bytes of an encoding, or the uint64_t elements of a value
   array, one cell per element), computes with the pure model function, and
   writes its WHOLE output at dst (again one cell per byte / per element).
   The point of each instance (ConcArrayDfg/Elias/RleDict/Bitmap.v) is the
   footprint: the output never exceeds `bound`, the proven C03/C13 bound of
   the codec, so pairwise disjoint windows [dst, dst + bound) that avoid the
   (shareable) inputs suffice for race freedom and sequential results.

   Cells are `N`; where the C object is a uint64_t / uint8_t the call applies
   `u64` / `u8` to what it reads (a cell of that type cannot hold more), which
   is also what lets the bound theorems (stated for 64-bit values) apply on
   every path of the program. *)
Require Import VV.Conc VV.ConcProofs VV.ConcCodec VV.ConcCodec2 VV.Base VV.BaseProofs.
From Coq Require Import List NArith Arith Lia Bool.
Import ListNotations.
Local Open Scope N_scope.

(* where a call reads and writes *)
Record io := mk_io { io_src : loc; io_n : nat; io_dst : loc }.

(* the program of a call with one input region *)
Definition prog1 (src : loc) (n : nat) (dst : loc) (f : list N -> list N * list N) : prog :=
  read_bytes src n [] (fun bs => write_bytes dst (fst (f bs)) (Ret (snd (f bs)))).

Definition call1 (src : loc) (n : nat) (dst : loc) (bound : nat) (f : list N -> list N * list N) : call :=
  mk_call [(src, n)] dst bound (fun ins => f (hd [] ins)).

Lemma call1_prog src n dst bound f : call_prog (call1 src n dst bound f) = prog1 src n dst f.
Proof. reflexivity. Qed.

Lemma call1_ok src n dst bound f :
  (forall bs, length bs = n -> (length (fst (f bs)) <= bound)%nat) -> call_ok (call1 src n dst bound f).
Proof.
  intros H ins Hs. cbn [call1 c_reads c_fn c_bound] in *.
  inversion Hs as [|r bs rs' ins' Hl Hrest]; subst. cbn [hd]. apply H. exact Hl.
Qed.

Section Family1.
  Variable P : Type.
  Variable src : P -> loc.
  Variable n : P -> nat.
  Variable dst : P -> loc.
  Variable bound : P -> nat.
  Variable f : P -> list N -> list N * list N.

  Theorem family1_safe (ps : list P) (m0 : mem) :
    (forall p, In p ps -> forall bs, length bs = n p -> (length (fst (f p bs)) <= bound p)%nat) ->
    (forall i j pi pj, i <> j -> nth_error ps i = Some pi -> nth_error ps j = Some pj ->
       forall l, in_range (dst pj) (bound pj) l ->
         ~ in_range (dst pi) (bound pi) l /\ ~ in_range (src pi) (n pi) l) ->
    forall sched,
    ~ races (snd (crun sched (m0, map (fun p => prog1 (src p) (n p) (dst p) (f p)) ps))) /\
    forall i p r, nth_error ps i = Some p ->
      nth_error (snd (crun sched (m0, map (fun p => prog1 (src p) (n p) (dst p) (f p)) ps))) i = Some (Ret r) ->
      r = snd (f p (peek m0 (src p) (n p))) /\
      forall j, (j < length (fst (f p (peek m0 (src p) (n p)))))%nat ->
        fst (crun sched (m0, map (fun p => prog1 (src p) (n p) (dst p) (f p)) ps)) (dst p + N.of_nat j)
        = nth j (fst (f p (peek m0 (src p) (n p)))) 0.
  Proof.
    intros Hb Hap sched.
    apply (family_safe P (fun p => call1 (src p) (n p) (dst p) (bound p) (f p)) ps m0).
    - intros p Hp. apply call1_ok. apply Hb. exact Hp.
    - intros i j pi pj NE Hi Hj l Wj.
      destruct (Hap i j pi pj NE Hi Hj l Wj) as [A1 A2].
      intros [(r & [<-|F] & Hr)|Wi]; [exact (A2 Hr)|exact F|exact (A1 Wi)].
  Qed.
End Family1.

(* ------------------------------------------------------------------ *)
(* cells read as uint64_t / uint8_t *)
Lemma u64_lt x : u64 x < 18446744073709551616.
Proof. unfold u64. apply N.mod_lt. lia. Qed.

Lemma map_u64_ok l : Forall (fun x => x < 18446744073709551616) (map u64 l).
Proof. apply Forall_forall. intros x H. apply in_map_iff in H. destruct H as (y & <- & _). apply u64_lt. Qed.

Lemma map_u8_ok l : bytes_ok (map u8 l).
Proof. apply Forall_forall. intros x H. apply in_map_iff in H. destruct H as (y & <- & _). apply u8_lt. Qed.

Definition b2n (b : bool) : N := if b then 1 else 0.

(* ------------------------------------------------------------------ *)
(* calls with two input regions (e.g. a shared dictionary and an index array) *)
Definition prog2 (s1 : loc) (n1 : nat) (s2 : loc) (n2 : nat) (dst : loc)
    (f : list N -> list N -> list N * list N) : prog :=
  read_bytes s1 n1 [] (fun a => read_bytes s2 n2 [] (fun b =>
    write_bytes dst (fst (f a b)) (Ret (snd (f a b))))).

Definition call2 (s1 : loc) (n1 : nat) (s2 : loc) (n2 : nat) (dst : loc) (bound : nat)
    (f : list N -> list N -> list N * list N) : call :=
  mk_call [(s1, n1); (s2, n2)] dst bound (fun ins => f (hd [] ins) (hd [] (tl ins))).

Lemma call2_prog s1 n1 s2 n2 dst bound f : call_prog (call2 s1 n1 s2 n2 dst bound f) = prog2 s1 n1 s2 n2 dst f.
Proof. reflexivity. Qed.

Lemma call2_ok s1 n1 s2 n2 dst bound f :
  (forall a b, length a = n1 -> length b = n2 -> (length (fst (f a b)) <= bound)%nat) ->
  call_ok (call2 s1 n1 s2 n2 dst bound f).
Proof.
  intros H ins Hs. cbn [call2 c_reads c_fn c_bound] in *.
  inversion Hs as [|r1 a rs1 ins1 Ha Hrest]; subst.
  inversion Hrest as [|r2 b rs2 ins2 Hb Hrest']; subst.
  cbn [hd tl]. apply H; assumption.
Qed.

Section Family2.
  Variable P : Type.
  Variable s1 : P -> loc.
  Variable n1 : P -> nat.
  Variable s2 : P -> loc.
  Variable n2 : P -> nat.
  Variable dst : P -> loc.
  Variable bound : P -> nat.
  Variable f : P -> list N -> list N -> list N * list N.

  Theorem family2_safe (ps : list P) (m0 : mem) :
    (forall p, In p ps -> forall a b, length a = n1 p -> length b = n2 p ->
       (length (fst (f p a b)) <= bound p)%nat) ->
    (forall i j pi pj, i <> j -> nth_error ps i = Some pi -> nth_error ps j = Some pj ->
       forall l, in_range (dst pj) (bound pj) l ->
         ~ in_range (dst pi) (bound pi) l /\ ~ in_range (s1 pi) (n1 pi) l /\ ~ in_range (s2 pi) (n2 pi) l) ->
    forall sched,
    ~ races (snd (crun sched (m0, map (fun p => prog2 (s1 p) (n1 p) (s2 p) (n2 p) (dst p) (f p)) ps))) /\
    forall i p r, nth_error ps i = Some p ->
      nth_error (snd (crun sched (m0, map (fun p => prog2 (s1 p) (n1 p) (s2 p) (n2 p) (dst p) (f p)) ps))) i
        = Some (Ret r) ->
      r = snd (f p (peek m0 (s1 p) (n1 p)) (peek m0 (s2 p) (n2 p))) /\
      forall j, (j < length (fst (f p (peek m0 (s1 p) (n1 p)) (peek m0 (s2 p) (n2 p)))))%nat ->
        fst (crun sched (m0, map (fun p => prog2 (s1 p) (n1 p) (s2 p) (n2 p) (dst p) (f p)) ps)) (dst p + N.of_nat j)
        = nth j (fst (f p (peek m0 (s1 p) (n1 p)) (peek m0 (s2 p) (n2 p)))) 0.
  Proof.
    intros Hb Hap sched.
    apply (family_safe P (fun p => call2 (s1 p) (n1 p) (s2 p) (n2 p) (dst p) (bound p) (f p)) ps m0).
    - intros p Hp. apply call2_ok. apply Hb. exact Hp.
    - intros i j pi pj NE Hi Hj l Wj.
      destruct (Hap i j pi pj NE Hi Hj l Wj) as (A1 & A2 & A3).
      intros [(r & [<-|[<-|F]] & Hr)|Wi]; [exact (A2 Hr)|exact (A3 Hr)|exact F|exact (A1 Wi)].
  Qed.
End Family2.
