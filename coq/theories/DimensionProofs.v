(* DimensionProofs.v — proofs about the model of varintDimension.{c,h}:
   packed pairs, pair headers. (Cells are in DimensionCellProofs.v.) *)
Require Import VV.Base VV.BaseProofs VV.Bitstream VV.BitstreamLemmas VV.Dimension.
From Coq Require Import Lia ZifyBool ZifyN ZifyNat.
Local Open Scope N_scope.
Ltac Zify.zify_post_hook ::= Z.div_mod_to_equations.

(* ------------------------------------------------------------- Pack *)

Lemma pow4_le_32 d : d <= 8 -> 2 ^ packed_to_bits d <= 4294967296.
Proof.
  intro H. unfold packed_to_bits. change 4294967296 with (2 ^ 32).
  apply N.pow_le_mono_r; lia.
Qed.

Lemma dim_pack_loop_spec f maxc : forall d,
  1 <= d -> d <= 8 -> (N.to_nat (9 - d) <= f)%nat ->
  (d = 1 \/ 2 ^ packed_to_bits (d - 1) <= maxc) ->
  (maxc < 4294967296 ->
     exists d', dim_pack_loop f maxc d = Some (Some d') /\ d <= d' /\ d' <= 8 /\
                maxc < 2 ^ packed_to_bits d' /\ (d' = 1 \/ 2 ^ packed_to_bits (d' - 1) <= maxc)) /\
  (4294967296 <= maxc -> dim_pack_loop f maxc d = Some None).
Proof.
  induction f as [|f IH]; intros d H1 H8 Hf Hinv; [lia|].
  cbn [dim_pack_loop].
  destruct (N.leb_spec (2 ^ packed_to_bits d) maxc) as [L|L].
  - destruct (N.ltb_spec 8 (d + 1)) as [L8|L8].
    + assert (d = 8) by lia. subst d. split.
      * intro Hm. exfalso. change (2 ^ packed_to_bits 8) with 4294967296 in L. lia.
      * reflexivity.
    + destruct (IH (d + 1)) as [A B]; try lia.
      { right. replace (d + 1 - 1) with d by lia. exact L. }
      split.
      * intro Hm. destruct (A Hm) as (d' & E & R). exists d'. split; [exact E|]. lia.
      * exact B.
  - split.
    + intro Hm. exists d. repeat split; try lia; exact Hinv.
    + intro Hm. exfalso. pose proof (pow4_le_32 d H8). lia.
Qed.

Lemma shl64_pow x k : x * 2 ^ k < 18446744073709551616 -> shl64 x k = x * 2 ^ k.
Proof. intro H. unfold shl64. apply N.mod_small. exact H. Qed.

Lemma tb_shl64 x k m :
  N.testbit (shl64 x k) m = (m <? 64) && ((k <=? m) && N.testbit x (m - k)).
Proof.
  unfold shl64. change 18446744073709551616 with (2 ^ 64). rewrite <- N.shiftl_mul_pow2.
  destruct (N.ltb_spec m 64) as [L|L]; cbn [andb].
  - rewrite N.mod_pow2_bits_low by exact L. apply tb_shiftl.
  - apply N.mod_pow2_bits_high. exact L.
Qed.

(* ~(0xFFFFFFFFFFFFFFFF << bits) = the low `bits` ones *)
Lemma unpack_mask bits : bits < 64 ->
  N.ldiff 18446744073709551615 (shl64 18446744073709551615 bits) = N.ones bits.
Proof.
  intro H. rewrite ones64. apply N.bits_inj. intro m.
  rewrite N.ldiff_spec, tb_shl64, !tb_ones.
  destruct (N.ltb_spec m 64), (N.leb_spec bits m), (N.ltb_spec (m - bits) 64), (N.ltb_spec m bits);
    cbn [andb negb]; try reflexivity; exfalso; lia.
Qed.

Lemma pow_lt_64 k x : k <= 32 -> x < 2 ^ k -> x * 2 ^ k < 18446744073709551616.
Proof.
  intros Hk Hx. change 18446744073709551616 with (2 ^ 32 * 2 ^ 32).
  assert (2 ^ k <= 2 ^ 32) by (apply N.pow_le_mono_r; lia).
  assert (0 < 2 ^ k) by (apply N.neq_0_lt_0, N.pow_nonzero; lia).
  apply N.lt_le_trans with (2 ^ k * 2 ^ k).
  - apply N.mul_lt_mono_pos_r; lia.
  - apply N.mul_le_mono; lia.
Qed.

(* every pair the 8 levels support (both coordinates below 2^32) packs into
   the smallest sufficient level and unpacks to itself *)
Theorem dim_pack_roundtrip row col :
  row < 4294967296 -> col < 4294967296 ->
  exists p d, dim_pack row col = PackOk p d /\ 1 <= d /\ d <= 8 /\
              row < 2 ^ (4 * d) /\ col < 2 ^ (4 * d) /\
              (d = 1 \/ 2 ^ (4 * (d - 1)) <= row \/ 2 ^ (4 * (d - 1)) <= col) /\
              p = row * 2 ^ (4 * d) + col /\
              dim_unpack p d = Some (row, col).
Proof.
  intros Hr Hc. unfold dim_pack.
  set (maxc := if col <? row then row else col).
  assert (Hm : maxc < 4294967296) by (unfold maxc; destruct (col <? row); assumption).
  assert (Hrm : row <= maxc /\ col <= maxc /\ (maxc = row \/ maxc = col)).
  { unfold maxc. destruct (N.ltb_spec col row); lia. }
  destruct (dim_pack_loop_spec 9 maxc 1) as [A _]; try lia.
  destruct (A Hm) as (d & E & D1 & D8 & Dlt & Dmin). rewrite E.
  unfold packed_to_bits in Dlt, Dmin. rewrite (N.mul_comm d 4) in Dlt.
  rewrite (N.mul_comm (d - 1) 4) in Dmin.
  set (k := 4 * d) in *.
  assert (Hk : k <= 32) by lia.
  assert (Hrk : row < 2 ^ k) by lia. assert (Hck : col < 2 ^ k) by lia.
  exists (N.lor (shl64 row (packed_to_bits d)) col), d.
  split; [reflexivity|].
  unfold packed_to_bits. rewrite (N.mul_comm d 4). fold k.
  rewrite shl64_pow by (apply pow_lt_64; assumption).
  rewrite lor_add_disjoint by exact Hck.
  repeat split; try lia.
  unfold dim_unpack, packed_to_bits. rewrite (N.mul_comm d 4). fold k.
  replace (k <? 64) with true by (symmetry; apply N.ltb_lt; lia).
  rewrite unpack_mask by lia. rewrite N.land_ones, N.shiftr_div_pow2.
  assert (P : 2 ^ k <> 0) by (apply N.pow_nonzero; lia).
  f_equal. f_equal.
  - symmetry. apply N.div_unique with col; [exact Hck|lia].
  - symmetry. apply N.mod_unique with row; [exact Hck|lia].
Qed.

(* pairs the format cannot hold are rejected *)
Theorem dim_pack_unsupported row col :
  4294967296 <= row \/ 4294967296 <= col -> dim_pack row col = PackFalse.
Proof.
  intro H. unfold dim_pack.
  set (maxc := if col <? row then row else col).
  assert (Hm : 4294967296 <= maxc) by (unfold maxc; destruct (N.ltb_spec col row); lia).
  destruct (dim_pack_loop_spec 9 maxc 1) as [_ B]; try lia.
  rewrite (B Hm). reflexivity.
Qed.

(* ------------------------------------------------------------- Pair macros *)

Lemma pair_pair_fields x y :
  x <= 8 -> 1 <= y -> y <= 8 ->
  pair_row_count (pair_pair x y 0) = x /\ pair_col_count (pair_pair x y 0) = y /\
  pair_is_sparse (pair_pair x y 0) = 0.
Proof.
  intros Hx Hy1 Hy8.
  assert (X : x = 0 \/ x = 1 \/ x = 2 \/ x = 3 \/ x = 4 \/ x = 5 \/ x = 6 \/ x = 7 \/ x = 8) by lia.
  assert (Y : y = 1 \/ y = 2 \/ y = 3 \/ y = 4 \/ y = 5 \/ y = 6 \/ y = 7 \/ y = 8) by lia.
  repeat (destruct X as [->|X]; [|]); try subst x;
    repeat (destruct Y as [->|Y]; [|]); try subst y; vm_compute; repeat split; reflexivity.
Qed.

(* widths chosen by varintDimensionPairDimension *)
Definition need_rows (rows : N) : N := if rows =? 0 then 0 else N.of_nat (ext_width rows).
Definition need_cols (cols : N) : N := N.of_nat (ext_width cols).

Lemma need_rows_range rows : rows < 18446744073709551616 ->
  need_rows rows <= 8 /\ rows < 256 ^ need_rows rows /\ (rows <> 0 -> 1 <= need_rows rows).
Proof.
  intro H. unfold need_rows. destruct (N.eqb_spec rows 0) as [->|Hz].
  - split; [lia|]. split; [reflexivity|]. intro; lia.
  - destruct (ext_width_bounds rows H) as (A & B & _). split; [lia|]. split; [exact B|]. intro; lia.
Qed.

Lemma need_cols_range cols : cols < 18446744073709551616 ->
  1 <= need_cols cols /\ need_cols cols <= 8 /\ cols < 256 ^ need_cols cols.
Proof.
  intro H. unfold need_cols. destruct (ext_width_bounds cols H) as (A & B & _).
  split; [lia|]. split; [lia|exact B].
Qed.

Lemma pair_dimension_fields rows cols :
  rows < 18446744073709551616 -> 1 <= cols -> cols < 18446744073709551616 ->
  pair_row_count (pair_dimension rows cols) = need_rows rows /\
  pair_col_count (pair_dimension rows cols) = need_cols cols /\
  pair_is_sparse (pair_dimension rows cols) = 0.
Proof.
  intros Hr Hc1 Hc. unfold pair_dimension.
  replace (cols =? 0) with false by (symmetry; apply N.eqb_neq; lia).
  fold (need_rows rows). fold (need_cols cols).
  destruct (need_rows_range rows Hr) as (A & _). destruct (need_cols_range cols Hc) as (B & C & _).
  apply pair_pair_fields; assumption.
Qed.

(* ------------------------------------------------------------- byte reads *)

Lemma rd_bytes_app (a b c : list N) :
  rd_bytes (a ++ b ++ c) (N.of_nat (length a)) (N.of_nat (length b)) = Some b.
Proof.
  unfold rd_bytes. rewrite !app_length.
  replace (N.of_nat (length a) + N.of_nat (length b) <=? N.of_nat (length a + (length b + length c)))
    with true by (symmetry; apply N.leb_le; lia).
  rewrite !Nat2N.id. rewrite skipn_app, skipn_all, Nat.sub_diag. cbn [skipn app].
  rewrite firstn_app, firstn_all, Nat.sub_diag. cbn [firstn]. rewrite app_nil_r. reflexivity.
Qed.

Lemma of_le_le_bytes_small k x : x < 256 ^ N.of_nat k -> of_le (le_bytes k x) = x.
Proof. intro H. rewrite of_le_le_bytes. apply N.mod_small. exact H. Qed.

(* ------------------------------------------------------------- header round trip *)

Theorem pair_roundtrip rows cols :
  rows < 18446744073709551616 -> 1 <= cols -> cols < 18446744073709551616 ->
  exists hdr,
    pair_encode rows cols = Some (pair_dimension rows cols, hdr) /\
    hdr = le_bytes (N.to_nat (need_rows rows)) rows ++ le_bytes (N.to_nat (need_cols cols)) cols /\
    N.of_nat (length hdr) = pair_byte_length (pair_dimension rows cols) /\
    pair_byte_length (pair_dimension rows cols) = need_rows rows + need_cols cols /\
    forall tail, pair_decode (hdr ++ tail) (pair_dimension rows cols) = Some (rows, cols).
Proof.
  intros Hr Hc1 Hc.
  destruct (pair_dimension_fields rows cols Hr Hc1 Hc) as (Fr & Fc & _).
  destruct (need_rows_range rows Hr) as (R8 & Rlt & R1).
  destruct (need_cols_range cols Hc) as (C1 & C8 & Clt).
  exists (le_bytes (N.to_nat (need_rows rows)) rows ++ le_bytes (N.to_nat (need_cols cols)) cols).
  split.
  { unfold pair_encode. rewrite Fr, Fc. unfold dim_ext_put_fixed.
    replace ((1 <=? need_cols cols) && (need_cols cols <=? 8)) with true by lia.
    destruct (N.eqb_spec (need_rows rows) 0) as [E|E].
    - rewrite E. reflexivity.
    - replace ((1 <=? need_rows rows) && (need_rows rows <=? 8)) with true by lia. reflexivity. }
  split; [reflexivity|].
  split.
  { unfold pair_byte_length. rewrite Fr, Fc, app_length, !length_le_bytes. lia. }
  split.
  { unfold pair_byte_length. rewrite Fr, Fc. reflexivity. }
  intro tail. unfold pair_decode. rewrite Fr, Fc. unfold dim_ext_get.
  replace ((1 <=? need_cols cols) && (need_cols cols <=? 8)) with true by lia.
  set (br := le_bytes (N.to_nat (need_rows rows)) rows).
  set (bc := le_bytes (N.to_nat (need_cols cols)) cols).
  assert (Lr : N.of_nat (length br) = need_rows rows) by (unfold br; rewrite length_le_bytes; lia).
  assert (Lc : N.of_nat (length bc) = need_cols cols) by (unfold bc; rewrite length_le_bytes; lia).
  rewrite <- app_assoc.
  pose proof (rd_bytes_app br bc tail) as Rc. rewrite Lr, Lc in Rc. rewrite Rc.
  assert (Vc : of_le bc = cols).
  { unfold bc. apply of_le_le_bytes_small. rewrite N2Nat.id. exact Clt. }
  rewrite Vc.
  destruct (N.eqb_spec (need_rows rows) 0) as [E|E].
  - (* no row bytes: rows = 0 *)
    assert (rows = 0).
    { destruct (N.eq_dec rows 0) as [Z|Z]; [exact Z|]. specialize (R1 Z). lia. }
    subst rows. reflexivity.
  - replace ((1 <=? need_rows rows) && (need_rows rows <=? 8)) with true by lia.
    pose proof (rd_bytes_app [] br (bc ++ tail)) as Rr. cbn [app length] in Rr.
    change (N.of_nat 0) with 0 in Rr. rewrite Lr in Rr. rewrite Rr.
    assert (Vr : of_le br = rows).
    { unfold br. apply of_le_le_bytes_small. rewrite N2Nat.id. exact Rlt. }
    rewrite Vr. reflexivity.
Qed.

(* every one of the 9 x 8 width combinations is reached, by the smallest and
   by the largest count of that width *)
Definition width_min (w : N) : N := if w =? 0 then 0 else 256 ^ (w - 1).
Definition width_max (w : N) : N := if w =? 0 then 0 else 256 ^ w - 1.

Lemma all_width_combinations :
  forallb (fun wr => forallb (fun wc =>
     (need_rows (width_min wr) =? wr) && (need_rows (width_max wr) =? wr) &&
     (need_cols (N.max 1 (width_min wc)) =? wc) && (need_cols (width_max wc) =? wc))
     [1;2;3;4;5;6;7;8]) [0;1;2;3;4;5;6;7;8] = true.
Proof. vm_compute. reflexivity. Qed.
