(* LeafSrcPFOR.v — the regenerated rendering (coq/gen/Src_leaf_pfor.v, produced by
   gen/c2coq.py from the current src/varintPFOR.c) of varintPFORCalculateMarker
   computes what the hand model (PFOR.v: pfor_marker) computes, for every
   varintWidth (uint32_t) argument; and the marker-value part of C16
   pfor_marker_slot_iff restated about it. *)
Require Import VV.Base VV.BaseProofs VV.Tagged VV.PFOR VV.PFORSpec VV.PFORLemmas VV.PFORProofs VV.PFORProofsDec
  VV.PFORTheorems VV.CSem VV.CSemProofs VV.LeafSrcLemmas.
Require Import VVgen.Src_leaf_pfor.
From Coq Require Import Lia ZifyBool ZifyN ZifyNat.
Local Open Scope Z_scope.
Ltac Zify.zify_post_hook ::= Z.div_mod_to_equations.

Lemma pfor_marker_ge8 w : (8 <= w)%N -> pfor_marker w = 18446744073709551615%N.
Proof. intro H. unfold pfor_marker. destruct (8 <=? w)%N eqn:E; [reflexivity|lia]. Qed.

(* the model's classes: widths 0..7 (one shift each), and the saturated case *)
Lemma src_varintPFORCalculateMarker_is_model : forall w, 0 <= w < 4294967296 ->
  src_varintPFORCalculateMarker w = COk (Z.of_N (pfor_marker (Z.to_N w))).
Proof.
  intros w H.
  assert (C : w = 0 \/ w = 1 \/ w = 2 \/ w = 3 \/ w = 4 \/ w = 5 \/ w = 6 \/ w = 7 \/ 8 <= w) by lia.
  repeat (destruct C as [C|C]; [subst w; vm_compute; reflexivity|]).
  rewrite pfor_marker_ge8 by lia.
  unfold src_varintPFORCalculateMarker. c_run. reflexivity.
Qed.

(* ---------- property C16, marker part, about the regenerated function ---------- *)

(* the marker in the encoder's metadata is varintPFORCalculateMarker(width) of the regenerated
   source, it is the all-ones value of the slot width, and a slot holds it exactly for the
   listed outliers *)
Theorem src_pfor_marker_slot_iff : forall xs thr v,
  (1 <= length xs)%nat -> Forall (fun x => (x < 18446744073709551616)%N) xs -> In v xs ->
  let m := pfor_encode_meta xs thr in
  exists mk, src_varintPFORCalculateMarker (Z.of_N (pm_width m)) = COk (Z.of_N mk) /\
    mk = pm_marker m /\ (1 <= pm_width m <= 8)%N /\ mk = (256 ^ pm_width m - 1)%N /\
    (pfor_slot m v = le_bytes (N.to_nat (pm_width m)) mk
     <-> pfor_is_exc (pm_min m) (pm_tv m) mk v = true).
Proof.
  intros xs thr v Hlen Hok Hv m.
  pose proof (pfor_marker_slot_iff xs thr v Hlen Hok Hv) as S. cbv zeta in S. fold m in S.
  pose proof (nonempty_of_len xs Hlen) as Hne.
  destruct (compute_threshold_ok xs thr Hne Hok) as (w & MO).
  change (pfor_compute_threshold xs thr) with m in MO.
  pose proof (marker_of_width m xs w MO) as MW.
  pose proof (mo_w _ _ _ MO) as Hw. pose proof (mo_width _ _ _ MO) as Ww.
  exists (pm_marker m).
  rewrite src_varintPFORCalculateMarker_is_model by lia. rewrite N2Z.id, MW.
  split; [reflexivity|]. split; [reflexivity|]. split; [lia|].
  split; [rewrite (mo_marker _ _ _ MO), Ww; reflexivity|exact S].
Qed.
