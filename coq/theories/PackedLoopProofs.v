(* PackedLoopProofs.v — the loops of varintPacked.h (Insert, Delete,
   BinarySearch, Member) described element by element (index level):
   which element each position holds afterwards, which storage bits stay
   unchanged, which slots are touched. *)
Require Import VV.Base VV.BaseProofs VV.Packed VV.PackedLemmas VV.PackedProofs.
From Coq Require Import Lia ZifyBool ZifyN ZifyNat.
Local Open Scope N_scope.
Ltac Zify.zify_post_hook ::= Z.div_mod_to_equations.

(* n elements fit in the array *)
Definition fits (c : pcfg) (a : list N) (n : N) : Prop := n * p_w c <= p_S c * N.of_nat (length a).

(* slot k holds bits of the first n elements *)
Definition within (c : pcfg) (n k : N) : Prop := k * p_S c < n * p_w c.

(* lengths and indices the length type and the int/uint32 arithmetic can hold *)
Definition len_ok (c : pcfg) (len : N) : Prop := len < 2147483648 /\ len < 2 ^ p_L c.

Lemma fits_inb c a n i : admitted c -> fits c a n -> i < n -> inb c a i.
Proof.
  intros A F Hi. destruct A as (W1 & W32 & S0 & S64 & SP & HV & HP). unfold fits, inb in *.
  apply N.div_lt_upper_bound; [lia|].
  pose proof (elem_ranges_disjoint (p_w c) i n Hi). lia.
Qed.

Lemma fits_le c a n m : fits c a n -> m <= n -> fits c a m.
Proof. unfold fits. intros F H. apply N.le_trans with (n * p_w c); [apply N.mul_le_mono_r; exact H | exact F]. Qed.

Lemma within_in_array c a n k : admitted c -> fits c a n -> within c n k -> k < N.of_nat (length a).
Proof.
  intros A F W. destruct A as (W1 & W32 & S0 & S64 & SP & HV & HP). unfold fits, within in *.
  apply (N.mul_lt_mono_pos_r (p_S c)); [exact S0|]. lia.
Qed.

Lemma within_mono c n m k : within c n k -> n <= m -> within c m k.
Proof. unfold within. intros W H. apply N.lt_le_trans with (n * p_w c); [exact W | apply N.mul_le_mono_r; exact H]. Qed.

Lemma elem_slots_within c n i k : admitted c -> i < n ->
  k <= (i * p_w c + p_w c - 1) / p_S c -> within c n k.
Proof.
  intros A Hi Hk. destruct A as (W1 & W32 & S0 & S64 & SP & HV & HP). unfold within.
  pose proof (elem_ranges_disjoint (p_w c) i n Hi) as D.
  pose proof (N.mul_div_le (i * p_w c + p_w c - 1) (p_S c) ltac:(lia)) as M.
  assert (k * p_S c <= (i * p_w c + p_w c - 1) / p_S c * p_S c) by (apply N.mul_le_mono_r; exact Hk).
  lia.
Qed.

Lemma get_touched_within c a n i : admitted c -> i < n -> i < 4294967296 ->
  Forall (within c n) (snd (packed_get c a i)).
Proof.
  intros A Hi H32. apply Forall_forall. intros k Hk.
  apply (elem_slots_within c n i k A Hi). apply (get_touched c a i k A H32 Hk).
Qed.

Lemma set_touched_within c a n i v : admitted c -> i < n -> i < 4294967296 ->
  Forall (within c n) (snd (packed_set c a i v)).
Proof.
  intros A Hi H32. apply Forall_forall. intros k Hk.
  apply (elem_slots_within c n i k A Hi). apply (set_touched c a i v k A H32 Hk).
Qed.

Lemma Forall_app3 (P : N -> Prop) a b d : Forall P a -> Forall P b -> Forall P d -> Forall P (a ++ b ++ d).
Proof. intros. apply Forall_app; split; [assumption|]. apply Forall_app; split; assumption. Qed.

(* ---------------------------------------------------------------- Insert *)

(* state of the loop after t iterations *)
Definition insert_inv (c : pcfg) (a : list N) (len : N) (tch : list N) (t : N)
  (st : list N * N * list N) : Prop :=
  let '(a1, i1, t1) := st in
  i1 = len - t /\ wf c a1 /\ length a1 = length a /\
  (forall j, j < 4294967296 -> len - t < j <= len -> getv c a1 j = getv c a (j - 1)) /\
  (forall j, j < 4294967296 -> ~ (len - t < j <= len) -> getv c a1 j = getv c a j) /\
  (forall n, (len + 1) * p_w c <= n -> abit c a1 n = abit c a n) /\
  (Forall (within c (len + 1)) tch -> Forall (within c (len + 1)) t1).

Lemma insert_loop c a len tch t : admitted c -> wf c a -> fits c a (len + 1) -> len < 2147483648 ->
  t <= len -> insert_inv c a len tch t (N.iter t (insert_step c) (a, len, tch)).
Proof.
  intros A Hwf Hfit Hlen. induction t as [|t IH] using N.peano_ind; intro Ht.
  - cbn [N.iter]. unfold insert_inv. rewrite N.sub_0_r.
    repeat split; auto; intros; lia.
  - rewrite N.iter_succ. specialize (IH ltac:(lia)).
    destruct (N.iter t (insert_step c) (a, len, tch)) as [[a1 i1] t1].
    destruct IH as (Ei & W1 & L1 & Sh & Sa & Fr & Tc).
    unfold insert_step, insert_inv.
    assert (Hi1 : i1 < 4294967296) by lia.
    assert (Hi1' : i1 - 1 < 4294967296) by lia.
    assert (Fit1 : fits c a1 (len + 1)) by (unfold fits in *; rewrite L1; exact Hfit).
    assert (In1 : inb c a1 i1) by (apply (fits_inb c a1 (len + 1)); [assumption|assumption|lia]).
    assert (Ev : getv c a1 (i1 - 1) = getv c a (i1 - 1)) by (apply Sa; lia).
    pose proof (getv_lt c a1 (i1 - 1) A W1 Hi1') as Vlt.
    fold (getv c a1 (i1 - 1)). fold (setv c a1 i1 (getv c a1 (i1 - 1))).
    split; [lia|]. split; [apply setv_wf; assumption|]. split; [rewrite setv_length; exact L1|].
    split; [|split; [|split]].
    + intros j Hj Hr. destruct (N.eq_dec j i1) as [->|Ne].
      * rewrite get_set_same by assumption. exact Ev.
      * rewrite get_set_other by assumption. apply Sh; [exact Hj | lia].
    + intros j Hj Hr. rewrite get_set_other by (assumption || lia). apply Sa; [exact Hj | lia].
    + intros n Hn. rewrite set_bits_outside; try assumption; [apply Fr; exact Hn|].
      pose proof (elem_ranges_disjoint (p_w c) i1 (len + 1) ltac:(lia)). lia.
    + intro Ft. apply Forall_app3; [apply Tc; exact Ft | |].
      * apply get_touched_within; [assumption | lia | assumption].
      * apply set_touched_within; [assumption | lia | assumption].
Qed.

(* Insert(len, off, v): positions below off keep their element, position off
   holds v, positions off+1..len hold the former off..len-1 *)
Theorem insert_spec c a len off v : admitted c -> wf c a -> fits c a (len + 1) -> len < 2147483648 ->
  off <= len -> v < 2 ^ p_w c ->
  let a' := fst (packed_insert c a len off v) in
  wf c a' /\ length a' = length a /\
  getv c a' off = v /\
  (forall j, j < off -> getv c a' j = getv c a j) /\
  (forall j, off < j <= len -> getv c a' j = getv c a (j - 1)) /\
  (forall j, len < j < 4294967296 -> getv c a' j = getv c a j) /\
  (forall n, (len + 1) * p_w c <= n -> abit c a' n = abit c a n) /\
  Forall (within c (len + 1)) (snd (packed_insert c a len off v)).
Proof.
  intros A Hwf Hfit Hlen Hoff Hv. unfold packed_insert.
  pose proof (insert_loop c a len [] (len - off) A Hwf Hfit Hlen ltac:(lia)) as I.
  destruct (N.iter (len - off) (insert_step c) (a, len, [])) as [[a1 i1] t1].
  destruct I as (Ei & W1 & L1 & Sh & Sa & Fr & Tc). cbn [fst snd].
  replace (len - (len - off)) with off in * by lia.
  assert (Fit1 : fits c a1 (len + 1)) by (unfold fits in *; rewrite L1; exact Hfit).
  assert (In1 : inb c a1 off) by (apply (fits_inb c a1 (len + 1)); [assumption|assumption|lia]).
  assert (Ho : off < 4294967296) by lia.
  fold (setv c a1 off v).
  split; [apply setv_wf; assumption|]. split; [rewrite setv_length; exact L1|].
  split; [apply get_set_same; assumption|].
  split; [|split; [|split; [|split]]].
  - intros j Hj. rewrite get_set_other by (assumption || lia). apply Sa; lia.
  - intros j Hj. rewrite get_set_other by (assumption || lia). apply Sh; lia.
  - intros j Hj. rewrite get_set_other by (assumption || lia). apply Sa; lia.
  - intros n Hn. rewrite set_bits_outside; try assumption; [apply Fr; exact Hn|].
    pose proof (elem_ranges_disjoint (p_w c) off (len + 1) ltac:(lia)). lia.
  - apply Forall_app; split; [apply Tc; constructor|].
    apply set_touched_within; [assumption | lia | assumption].
Qed.

(* ---------------------------------------------------------------- Delete *)

Definition delete_inv (c : pcfg) (a : list N) (len off : N) (tch : list N) (t : N)
  (st : list N * N * list N) : Prop :=
  let '(a1, i1, t1) := st in
  i1 = off + t /\ wf c a1 /\ length a1 = length a /\
  (forall j, off <= j < off + t -> getv c a1 j = getv c a (j + 1)) /\
  (forall j, j < 4294967296 -> ~ (off <= j < off + t) -> getv c a1 j = getv c a j) /\
  (forall n, len * p_w c <= n -> abit c a1 n = abit c a n) /\
  (Forall (within c len) tch -> Forall (within c len) t1).

Lemma delete_loop c a len off tch t : admitted c -> wf c a -> fits c a len -> len < 2147483648 ->
  off + t < len -> delete_inv c a len off tch t (N.iter t (delete_step c) (a, off, tch)).
Proof.
  intros A Hwf Hfit Hlen. induction t as [|t IH] using N.peano_ind; intro Ht.
  - cbn [N.iter]. unfold delete_inv. rewrite N.add_0_r.
    repeat split; auto; intros; lia.
  - rewrite N.iter_succ. specialize (IH ltac:(lia)).
    destruct (N.iter t (delete_step c) (a, off, tch)) as [[a1 i1] t1].
    destruct IH as (Ei & W1 & L1 & Sh & Sa & Fr & Tc).
    unfold delete_step, delete_inv.
    assert (Hi1 : i1 < 4294967296) by lia.
    assert (Hi1' : i1 + 1 < 4294967296) by lia.
    assert (Fit1 : fits c a1 len) by (unfold fits in *; rewrite L1; exact Hfit).
    assert (In1 : inb c a1 i1) by (apply (fits_inb c a1 len); [assumption|assumption|lia]).
    assert (Ev : getv c a1 (i1 + 1) = getv c a (i1 + 1)) by (apply Sa; lia).
    pose proof (getv_lt c a1 (i1 + 1) A W1 Hi1') as Vlt.
    fold (getv c a1 (i1 + 1)). fold (setv c a1 i1 (getv c a1 (i1 + 1))).
    split; [lia|]. split; [apply setv_wf; assumption|]. split; [rewrite setv_length; exact L1|].
    split; [|split; [|split]].
    + intros j Hr. destruct (N.eq_dec j i1) as [->|Ne].
      * rewrite get_set_same by assumption. exact Ev.
      * rewrite get_set_other by (assumption || lia). apply Sh. lia.
    + intros j Hj Hr. rewrite get_set_other by (assumption || lia). apply Sa; [exact Hj | lia].
    + intros n Hn. rewrite set_bits_outside; try assumption; [apply Fr; exact Hn|].
      pose proof (elem_ranges_disjoint (p_w c) i1 len ltac:(lia)). lia.
    + intro Ft. apply Forall_app3; [apply Tc; exact Ft | |].
      * apply get_touched_within; [assumption | lia | assumption].
      * apply set_touched_within; [assumption | lia | assumption].
Qed.

Lemma delete_bound_ok c len : 1 <= len -> len < 2 ^ p_L c -> delete_bound c len = len - 1.
Proof.
  intros H1 HL. unfold delete_bound, trunc. destruct (p_L c <? 32); [reflexivity|].
  replace (len + 2 ^ p_L c - 1) with ((len - 1) + 1 * 2 ^ p_L c) by lia.
  assert (2 ^ p_L c <> 0) by (apply N.pow_nonzero; lia).
  rewrite N.mod_add by assumption. apply N.mod_small. lia.
Qed.

(* Delete(len, off): positions off..len-2 hold the former off+1..len-1 *)
Theorem delete_spec c a len off : admitted c -> wf c a -> fits c a len -> len_ok c len ->
  off < len ->
  let a' := fst (packed_delete c a len off) in
  wf c a' /\ length a' = length a /\
  (forall j, j < off -> getv c a' j = getv c a j) /\
  (forall j, off <= j < len - 1 -> getv c a' j = getv c a (j + 1)) /\
  (forall j, len - 1 <= j < 4294967296 -> getv c a' j = getv c a j) /\
  (forall n, len * p_w c <= n -> abit c a' n = abit c a n) /\
  Forall (within c len) (snd (packed_delete c a len off)).
Proof.
  intros A Hwf Hfit [Hlen HL] Hoff. unfold packed_delete.
  rewrite (delete_bound_ok c len ltac:(lia) HL).
  pose proof (delete_loop c a len off [] (len - 1 - off) A Hwf Hfit Hlen ltac:(lia)) as I.
  destruct (N.iter (len - 1 - off) (delete_step c) (a, off, [])) as [[a1 i1] t1].
  destruct I as (Ei & W1 & L1 & Sh & Sa & Fr & Tc). cbn [fst snd].
  replace (off + (len - 1 - off)) with (len - 1) in * by lia.
  split; [exact W1|]. split; [exact L1|].
  split; [|split; [|split; [|split]]].
  - intros j Hj. apply Sa; lia.
  - intros j Hj. apply Sh; lia.
  - intros j Hj. apply Sa; lia.
  - exact Fr.
  - apply Tc. constructor.
Qed.

(* ---------------------------------------------------------------- BinarySearch *)

Definition sorted_upto (c : pcfg) (a : list N) (len : N) : Prop :=
  forall j1 j2, j1 <= j2 -> j2 < len -> getv c a j1 <= getv c a j2.

Lemma len_mid c len lo hi : len_ok c len -> lo < hi -> hi <= len ->
  len_cast c (shr (len_sum c lo hi) 1) = (lo + hi) / 2 /\
  len_cast c ((lo + hi) / 2 + 1) = (lo + hi) / 2 + 1.
Proof.
  intros [H31 HL] H1 H2. unfold len_cast, len_sum, shr, trunc. change (2 ^ 1) with 2.
  assert (E : (if p_L c <? 32 then lo + hi else (lo + hi) mod 2 ^ p_L c) = lo + hi).
  { destruct (N.ltb_spec (p_L c) 32) as [L|G]; [reflexivity|]. apply N.mod_small.
    apply N.lt_le_trans with (2 ^ 32); [change (2 ^ 32) with 4294967296; lia|].
    apply N.pow_le_mono_r; lia. }
  rewrite E. clear E. split; apply N.mod_small; lia.
Qed.

Lemma bsearch_loop_S f c a lo hi val t :
  bsearch_loop (S f) c a lo hi val t =
  if lo <? hi then
    let mid := len_cast c (shr (len_sum c lo hi) 1) in
    let g := packed_get c a mid in
    if fst g <? val then bsearch_loop f c a (len_cast c (mid + 1)) hi val (t ++ snd g)
    else bsearch_loop f c a lo mid val (t ++ snd g)
  else Some (lo, t).
Proof. reflexivity. Qed.

Lemma bsearch_spec c a len val f : admitted c -> wf c a -> fits c a len -> len_ok c len ->
  sorted_upto c a len ->
  forall lo hi tch, lo <= hi -> hi <= len ->
  (forall j, j < lo -> getv c a j < val) ->
  (forall j, hi <= j -> j < len -> val <= getv c a j) ->
  hi - lo < 2 ^ N.of_nat f ->
  exists m t, bsearch_loop (S f) c a lo hi val tch = Some (m, t) /\ m <= len /\
    (forall j, j < m -> getv c a j < val) /\
    (forall j, m <= j -> j < len -> val <= getv c a j) /\
    (Forall (within c len) tch -> Forall (within c len) t).
Proof.
  intros A Hwf Hfit Hok Hs. induction f as [|f IH]; intros lo hi tch H1 H2 Hlo Hhi Hsz.
  - change (2 ^ N.of_nat 0) with 1 in Hsz. assert (lo = hi) by lia. subst hi.
    rewrite bsearch_loop_S. rewrite N.ltb_irrefl. exists lo, tch. repeat split; auto.
  - rewrite bsearch_loop_S. cbv zeta. destruct (N.ltb_spec lo hi) as [Lt|Ge].
    + destruct (len_mid c len lo hi Hok Lt H2) as [Em Em1]. rewrite Em.
      set (mid := (lo + hi) / 2) in *.
      assert (Hm1 : lo <= mid) by (unfold mid; lia).
      assert (Hm2 : mid < hi) by (unfold mid; lia).
      assert (P2 : 2 ^ N.of_nat (S f) = 2 * 2 ^ N.of_nat f).
      { rewrite Nat2N.inj_succ. apply N.pow_succ_r'. }
      rewrite P2 in Hsz. destruct Hok as [H31 HL].
      fold (getv c a mid).
      destruct (N.ltb_spec (getv c a mid) val) as [Lv|Gv].
      * rewrite Em1.
        destruct (IH (mid + 1) hi (tch ++ snd (packed_get c a mid))) as (m & t & E & R1 & R2 & R3 & R4).
        -- lia.
        -- exact H2.
        -- intros j Hj. apply N.le_lt_trans with (getv c a mid); [|exact Lv]. apply Hs; lia.
        -- exact Hhi.
        -- clear Em Em1. unfold mid in *. set (P := 2 ^ N.of_nat f) in *. clearbody P. lia.
        -- exists m, t. repeat split; auto.
           intro Ft. apply R4. apply Forall_app; split; [exact Ft|].
           apply get_touched_within; [assumption | lia | lia].
      * destruct (IH lo mid (tch ++ snd (packed_get c a mid))) as (m & t & E & R1 & R2 & R3 & R4).
        -- exact Hm1.
        -- lia.
        -- exact Hlo.
        -- intros j Hj1 Hj2. apply N.le_trans with (getv c a mid); [exact Gv|]. apply Hs; lia.
        -- clear Em Em1. unfold mid in *. set (P := 2 ^ N.of_nat f) in *. clearbody P. lia.
        -- exists m, t. repeat split; auto.
           intro Ft. apply R4. apply Forall_app; split; [exact Ft|].
           apply get_touched_within; [assumption | lia | lia].
    + assert (lo = hi) by lia. subst hi. exists lo, tch. repeat split; auto.
Qed.

(* BinarySearch(len, val) on a sorted array: the lower bound *)
Theorem binary_search_spec c a len val : admitted c -> wf c a -> fits c a len -> len_ok c len ->
  sorted_upto c a len ->
  exists m t, packed_binary_search c a len val = Some (m, t) /\ m <= len /\
    (forall j, j < m -> getv c a j < val) /\
    (forall j, m <= j -> j < len -> val <= getv c a j) /\
    Forall (within c len) t.
Proof.
  intros A Hwf Hfit Hok Hs. unfold packed_binary_search.
  destruct (bsearch_spec c a len val 64 A Hwf Hfit Hok Hs 0 len []) as (m & t & E & R1 & R2 & R3 & R4).
  - lia.
  - lia.
  - intros j Hj. lia.
  - intros j Hj1 Hj2. lia.
  - destruct Hok as [H31 _]. change (N.of_nat 64) with 64.
    change (2 ^ 64) with 18446744073709551616. lia.
  - exists m, t. repeat split; auto.
Qed.

(* Member(len, val) on a sorted array: the lower bound if it holds val, else -1 *)
Theorem member_spec c a len val : admitted c -> wf c a -> fits c a len -> len_ok c len ->
  sorted_upto c a len ->
  exists m t, m <= len /\
    (forall j, j < m -> getv c a j < val) /\
    (forall j, m <= j -> j < len -> val <= getv c a j) /\
    packed_member c a len val =
      Some (if (m <? len) && (getv c a m =? val) then Z.of_N m else (-1)%Z, t) /\
    Forall (within c len) t.
Proof.
  intros A Hwf Hfit Hok Hs.
  destruct (binary_search_spec c a len val A Hwf Hfit Hok Hs) as (m & t & E & R1 & R2 & R3 & R4).
  unfold packed_member. rewrite E. destruct Hok as [H31 HL].
  destruct (m <? len) eqn:Lt; cbn [andb].
  - apply N.ltb_lt in Lt. exists m, (t ++ snd (packed_get c a m)). fold (getv c a m).
    replace (m <? len) with true by (symmetry; apply N.ltb_lt; exact Lt). cbn [andb].
    repeat split; auto.
    + destruct (getv c a m =? val); reflexivity.
    + apply Forall_app; split; [exact R4|]. apply get_touched_within; [assumption | lia | lia].
  - exists m, t. rewrite Lt. cbn [andb]. repeat split; auto.
Qed.
