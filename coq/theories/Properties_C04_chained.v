(* Properties_C04_chained.v — chained / chained-simple share of C04. *)
Require Import VV.Base VV.Chained VV.ChainedSpec.
Local Open Scope N_scope.
