(* Properties_C04_chained.v — property C04 (scalar wire formats are
   byte-exact, canonical and length-monotone), share of the chained and
   chained-simple families.  Nothing but statements closed by `exact`, each
   followed by Print Assumptions. *)
Require Import VV.Base VV.Chained VV.ChainedSpec VV.ChainedPutProofs VV.ChainedRtProofs
  VV.ChainedSpecProofs.
Local Open Scope N_scope.

(* byte-exact: the encoders produce exactly the documented format —
   chained: big-endian 7-bit groups, continuation bit on all but the last
   byte, a ninth byte with 8 full bits; chained-simple: little-endian
   base-128 capped at nine bytes *)
Theorem C04_chained_put_is_spec : forall x, x < 18446744073709551616 ->
  chained_put x = chained_spec x.
Proof. exact chained_put_is_spec. Qed.
Print Assumptions C04_chained_put_is_spec.

Theorem C04_csimple_put_is_spec : forall x, x < 18446744073709551616 ->
  csimple_encode64 x = csimple_spec x.
Proof. exact csimple_put_is_spec. Qed.
Print Assumptions C04_csimple_put_is_spec.

(* length classes: len x = k  <->  2^(7(k-1)) <= x < 2^(7k), the lower bound
   absent for k = 1 and the upper bound absent for k = 9 (x >= 2^56) *)
Theorem C04_chained_len_class : forall x k, x < 18446744073709551616 -> 1 <= k <= 9 ->
  (chained_len x = k <->
   (k = 1 \/ 2 ^ (7 * (k - 1)) <= x) /\ (k = 9 \/ x < 2 ^ (7 * k))).
Proof. exact chained_len_class. Qed.
Print Assumptions C04_chained_len_class.

(* per-length maxima 127, 16383, ..., 2^56-1, 2^64-1 *)
Theorem C04_chained_len_max : forall x k, x < 18446744073709551616 -> 1 <= k <= 9 ->
  (chained_len x <= k <-> x <= chained_max k).
Proof. exact chained_len_max. Qed.
Print Assumptions C04_chained_len_max.

Theorem C04_csimple_length_eq : forall x, csimple_length x = chained_len x.
Proof. exact csimple_length_eq. Qed.
Print Assumptions C04_csimple_length_eq.

(* encoded length never decreases as the value grows *)
Theorem C04_chained_len_mono : forall x y, x < 18446744073709551616 -> y < 18446744073709551616 ->
  x <= y -> chained_len x <= chained_len y.
Proof. exact chained_len_mono. Qed.
Print Assumptions C04_chained_len_mono.

(* canonical: the encoder's output denotes its value under the format's
   DECODE relation, any byte string denoting a value is at least as long as
   the encoder's output, and distinct values get distinct bytes *)
Theorem C04_chained_denote_put : forall x, x < 18446744073709551616 ->
  chained_denote (chained_put x) = Some x.
Proof. exact chained_denote_put. Qed.
Print Assumptions C04_chained_denote_put.

Theorem C04_chained_shortest : forall b x, chained_denote b = Some x ->
  chained_len x <= N.of_nat (length b).
Proof. exact chained_shortest. Qed.
Print Assumptions C04_chained_shortest.

(* one encoding: a denoting string of the encoder's length IS the encoder's output *)
Theorem C04_chained_unique : forall b x, chained_denote b = Some x ->
  N.of_nat (length b) = chained_len x -> b = chained_put x.
Proof. exact chained_unique. Qed.
Print Assumptions C04_chained_unique.

Theorem C04_chained_injective : forall x y, x < 18446744073709551616 -> y < 18446744073709551616 ->
  chained_put x = chained_put y -> x = y.
Proof. exact chained_injective. Qed.
Print Assumptions C04_chained_injective.

Theorem C04_csimple_denote_put : forall x, x < 18446744073709551616 ->
  csimple_denote (csimple_encode64 x) = Some x.
Proof. exact csimple_denote_put. Qed.
Print Assumptions C04_csimple_denote_put.

Theorem C04_csimple_shortest : forall b x, csimple_denote b = Some x ->
  csimple_length x <= N.of_nat (length b).
Proof. exact csimple_shortest. Qed.
Print Assumptions C04_csimple_shortest.

Theorem C04_csimple_unique : forall b x, csimple_denote b = Some x ->
  N.of_nat (length b) = csimple_length x -> b = csimple_encode64 x.
Proof. exact csimple_unique. Qed.
Print Assumptions C04_csimple_unique.

Theorem C04_csimple_injective : forall x y, x < 18446744073709551616 -> y < 18446744073709551616 ->
  csimple_encode64 x = csimple_encode64 y -> x = y.
Proof. exact csimple_injective. Qed.
Print Assumptions C04_csimple_injective.

(* non-vacuity: the decoders accept non-minimal strings, `denote` sees them,
   and the encoder picks the short one *)
Example C04_chained_example :
  chained_spec 16384 = [129; 128; 0] /\ csimple_spec 16384 = [128; 128; 1] /\
  chained_denote [128; 128; 5] = Some 5 /\ chained_len 5 = 1 /\
  chained_spec 18446744073709551615 = [255; 255; 255; 255; 255; 255; 255; 255; 255] /\
  chained_len 72057594037927935 = 8 /\ chained_len 72057594037927936 = 9.
Proof. vm_compute. repeat split; reflexivity. Qed.
