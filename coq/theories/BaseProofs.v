(* BaseProofs.v — generic lemmas about Base.v *)
Require Import VV.Base.
From Coq Require Import Lia ZifyBool ZifyN ZifyNat.
Local Open Scope N_scope.
Ltac Zify.zify_post_hook ::= Z.div_mod_to_equations.

Lemma land_shl_small a b k : b < 2 ^ k -> N.land (a * 2 ^ k) b = 0.
Proof.
  intros Hb. apply N.bits_inj. intro i. rewrite N.land_spec, N.bits_0.
  destruct (N.lt_ge_cases i k) as [Hik|Hik].
  - rewrite N.mul_pow2_bits_low by assumption. reflexivity.
  - destruct (N.eq_dec b 0) as [->|Hb0]; [rewrite N.bits_0; apply andb_false_r|].
    rewrite (N.bits_above_log2 b i); [apply andb_false_r|].
    apply N.lt_le_trans with k; [|assumption].
    apply N.log2_lt_pow2; lia.
Qed.

Lemma lor_add_disjoint a b k : b < 2 ^ k -> N.lor (a * 2 ^ k) b = a * 2 ^ k + b.
Proof.
  intros Hb. pose proof (land_shl_small a b k Hb) as H.
  rewrite (N.add_nocarry_lxor _ _ H). symmetry. apply N.lxor_lor. exact H.
Qed.

Lemma lor_add_mod0 a b k : a mod 2 ^ k = 0 -> b < 2 ^ k -> N.lor a b = a + b.
Proof.
  intros Ha Hb.
  assert (E : a = (a / 2 ^ k) * 2 ^ k).
  { pose proof (N.div_mod a (2 ^ k)) as D. rewrite Ha in D.
    assert (2 ^ k <> 0) by (apply N.pow_nonzero; lia). specialize (D H). lia. }
  rewrite E. apply lor_add_disjoint. exact Hb.
Qed.

Lemma land_ones32 a : a < 4294967296 -> N.land 4294967295 a = a.
Proof.
  intro H. change 4294967295 with (N.ones 32). rewrite N.land_comm, N.land_ones.
  apply N.mod_small. exact H.
Qed.

Lemma byte_at_lt z i : bytes_ok z -> byte_at z i < 256.
Proof.
  unfold bytes_ok, byte_at. intro H. revert i.
  induction H as [|x l Hx Hl IH]; intros [|i]; simpl; try lia. apply IH.
Qed.

Lemma bytes_okb_ok l : bytes_okb l = true <-> bytes_ok l.
Proof.
  unfold bytes_okb, bytes_ok. rewrite forallb_forall, Forall_forall.
  split; intros H x Hx; specialize (H x Hx); lia.
Qed.

Lemma u8_lt x : u8 x < 256. Proof. unfold u8. apply N.mod_lt. lia. Qed.

(* lex facts *)
Lemma lex_refl a : lex a a = Eq.
Proof. induction a as [|x a IH]; simpl; [reflexivity|]. rewrite N.compare_refl. exact IH. Qed.

Lemma lex_eq a b : lex a b = Eq -> a = b.
Proof.
  revert b. induction a as [|x a IH]; intros [|y b]; simpl; try congruence.
  destruct (x ?= y) eqn:E; try congruence.
  apply N.compare_eq in E. subst. intro H. f_equal. apply IH. exact H.
Qed.

Lemma lex_cons_lt x y a b : x < y -> lex (x :: a) (y :: b) = Lt.
Proof. intro H. simpl. rewrite (proj2 (N.compare_lt_iff x y) H). reflexivity. Qed.
Lemma lex_cons_gt x y a b : y < x -> lex (x :: a) (y :: b) = Gt.
Proof. intro H. simpl. rewrite (proj2 (N.compare_gt_iff x y) H). reflexivity. Qed.
Lemma lex_cons_eq x a b : lex (x :: a) (x :: b) = lex a b.
Proof. simpl. rewrite N.compare_refl. reflexivity. Qed.

Lemma lex_app_same p a b : lex (p ++ a) (p ++ b) = lex a b.
Proof. induction p as [|x p IH]; simpl; [reflexivity|]. rewrite N.compare_refl. exact IH. Qed.

(* ---- le_bytes / be_bytes ---- *)
Lemma length_le_bytes k x : length (le_bytes k x) = k.
Proof. revert x. induction k as [|k IH]; intro x; simpl; [reflexivity|]. rewrite IH. reflexivity. Qed.
Lemma length_be_bytes k x : length (be_bytes k x) = k.
Proof. unfold be_bytes. rewrite rev_length. apply length_le_bytes. Qed.

Lemma bytes_ok_le_bytes k x : bytes_ok (le_bytes k x).
Proof. revert x. induction k as [|k IH]; intro x; simpl; constructor; [apply N.mod_lt; lia | apply IH]. Qed.
Lemma bytes_ok_rev l : bytes_ok l -> bytes_ok (rev l).
Proof. unfold bytes_ok. intro H. apply Forall_rev. exact H. Qed.
Lemma bytes_ok_be_bytes k x : bytes_ok (be_bytes k x).
Proof. apply bytes_ok_rev, bytes_ok_le_bytes. Qed.
Lemma bytes_ok_app a b : bytes_ok a -> bytes_ok b -> bytes_ok (a ++ b).
Proof. unfold bytes_ok. intros. apply Forall_app. split; assumption. Qed.

Lemma of_le_le_bytes k x : of_le (le_bytes k x) = x mod 256 ^ N.of_nat k.
Proof.
  revert x. induction k as [|k IH]; intro x.
  - simpl. rewrite N.mod_1_r. reflexivity.
  - cbn [le_bytes of_le]. rewrite IH. rewrite Nat2N.inj_succ, N.pow_succ_r'.
    assert (256 ^ N.of_nat k <> 0) by (apply N.pow_nonzero; lia).
    rewrite N.mod_mul_r by (assumption || lia). reflexivity.
Qed.

Lemma of_be_be_bytes k x : of_be (be_bytes k x) = x mod 256 ^ N.of_nat k.
Proof. unfold of_be, be_bytes. rewrite rev_involutive. apply of_le_le_bytes. Qed.

Lemma be_bytes_S k x : be_bytes (S k) x = be_bytes k (x / 256) ++ [x mod 256].
Proof. unfold be_bytes. reflexivity. Qed.

Lemma lex_snoc p1 p2 a b : length p1 = length p2 ->
  lex (p1 ++ [a]) (p2 ++ [b]) = match lex p1 p2 with Eq => a ?= b | c => c end.
Proof.
  revert p2. induction p1 as [|x p1 IH]; intros [|y p2] H; simpl in H; try discriminate.
  - simpl. destruct (a ?= b); reflexivity.
  - cbn [app lex]. destruct (x ?= y); try reflexivity. apply IH. congruence.
Qed.

Lemma compare_div_mod x y :
  (x ?= y) = match x / 256 ?= y / 256 with Eq => x mod 256 ?= y mod 256 | c => c end.
Proof.
  destruct (N.compare_spec (x / 256) (y / 256)) as [E|E|E].
  - destruct (N.compare_spec (x mod 256) (y mod 256)) as [F|F|F].
    + apply N.compare_eq_iff. lia.
    + apply N.compare_lt_iff. lia.
    + apply N.compare_gt_iff. lia.
  - apply N.compare_lt_iff. lia.
  - apply N.compare_gt_iff. lia.
Qed.

Lemma lex_be_bytes k x y : lex (be_bytes k x) (be_bytes k y)
  = (x mod 256 ^ N.of_nat k ?= y mod 256 ^ N.of_nat k).
Proof.
  revert x y. induction k as [|k IH]; intros x y.
  - simpl. rewrite !N.mod_1_r. reflexivity.
  - rewrite !be_bytes_S, lex_snoc by (rewrite !length_be_bytes; reflexivity).
    rewrite IH. rewrite Nat2N.inj_succ, N.pow_succ_r'.
    assert (256 ^ N.of_nat k <> 0) by (apply N.pow_nonzero; lia).
    rewrite !N.mod_mul_r by (assumption || lia).
    set (P := 256 ^ N.of_nat k) in *.
    rewrite (compare_div_mod (x mod 256 + 256 * ((x / 256) mod P))).
    replace ((x mod 256 + 256 * ((x / 256) mod P)) / 256) with ((x / 256) mod P) by lia.
    replace ((y mod 256 + 256 * ((y / 256) mod P)) / 256) with ((y / 256) mod P) by lia.
    replace ((x mod 256 + 256 * ((x / 256) mod P)) mod 256) with (x mod 256) by lia.
    replace ((y mod 256 + 256 * ((y / 256) mod P)) mod 256) with (y mod 256) by lia.
    reflexivity.
Qed.

Lemma lex_be_bytes_small k x y : x < 256 ^ N.of_nat k -> y < 256 ^ N.of_nat k ->
  lex (be_bytes k x) (be_bytes k y) = (x ?= y).
Proof. intros. rewrite lex_be_bytes, !N.mod_small by assumption. reflexivity. Qed.

(* ext_width *)
Lemma ext_width_fuel_bounds f v : v < 256 ^ N.of_nat (S f) ->
  (1 <= ext_width_fuel f v <= S f)%nat /\
  v < 256 ^ N.of_nat (ext_width_fuel f v) /\
  (ext_width_fuel f v = 1%nat \/ 256 ^ N.of_nat (ext_width_fuel f v - 1) <= v).
Proof.
  revert v. induction f as [|f IH]; intros v Hv.
  - simpl. split; [lia|]. split; [exact Hv|]. left; reflexivity.
  - cbn [ext_width_fuel]. destruct (v / 256 =? 0) eqn:E.
    + split; [lia|]. split; [|left; reflexivity]. change (256 ^ N.of_nat 1) with 256. lia.
    + assert (Hq : v / 256 < 256 ^ N.of_nat (S f)).
      { rewrite (Nat2N.inj_succ (S f)), N.pow_succ_r' in Hv.
        apply N.div_lt_upper_bound; lia. }
      destruct (IH _ Hq) as (R1 & R2 & R3).
      set (w := ext_width_fuel f (v / 256)) in *.
      split; [lia|]. split.
      * rewrite Nat2N.inj_succ, N.pow_succ_r'.
        assert (256 ^ N.of_nat w <> 0) by (apply N.pow_nonzero; lia). lia.
      * right. replace (S w - 1)%nat with w by lia.
        destruct R3 as [R3|R3].
        -- rewrite R3. change (256 ^ N.of_nat 1) with 256. lia.
        -- replace w with (S (w - 1)) by lia. rewrite Nat2N.inj_succ, N.pow_succ_r'.
           set (Q := 256 ^ N.of_nat (w - 1)) in *. lia.
Qed.

Lemma pow256_mono a b : (a <= b)%nat -> 256 ^ N.of_nat a <= 256 ^ N.of_nat b.
Proof. intro H. apply N.pow_le_mono_r; lia. Qed.

Lemma ext_width_bounds v : v < 18446744073709551616 ->
  (1 <= ext_width v <= 8)%nat /\ v < 256 ^ N.of_nat (ext_width v) /\
  (ext_width v = 1%nat \/ 256 ^ N.of_nat (ext_width v - 1) <= v).
Proof.
  intro H. unfold ext_width.
  destruct (ext_width_fuel_bounds 7 v) as (A & B & C).
  - change (256 ^ N.of_nat 8) with 18446744073709551616. exact H.
  - (* fuel 8 vs 7: show equal *)
    assert (E : ext_width_fuel 8 v = ext_width_fuel 7 v).
    { clear A B C. revert H.
      assert (G : forall f v, v < 256 ^ N.of_nat (S f) ->
                  ext_width_fuel (S f) v = ext_width_fuel f v).
      { clear v. induction f as [|f IH]; intros v Hv.
        - change (256 ^ N.of_nat 1) with 256 in Hv. cbn [ext_width_fuel].
          destruct (v / 256 =? 0) eqn:E; [reflexivity|lia].
        - cbn [ext_width_fuel]. destruct (v / 256 =? 0) eqn:E; [reflexivity|].
          f_equal. change (ext_width_fuel (S f) (v / 256) = ext_width_fuel f (v / 256)).
          apply IH. rewrite (Nat2N.inj_succ (S f)), N.pow_succ_r' in Hv.
          apply N.div_lt_upper_bound; lia. }
      intro H. apply G. change (256 ^ N.of_nat 8) with 18446744073709551616. exact H. }
    rewrite E. repeat split; try lia; assumption.
Qed.

Lemma ext_width_unique v k : v < 18446744073709551616 -> (1 <= k)%nat ->
  v < 256 ^ N.of_nat k -> (k = 1%nat \/ 256 ^ N.of_nat (k - 1) <= v) -> ext_width v = k.
Proof.
  intros Hv Hk Hlt Hge. destruct (ext_width_bounds v Hv) as (A & B & C).
  set (w := ext_width v) in *.
  destruct (Nat.lt_trichotomy w k) as [L|[E|G]]; [exfalso|exact E|exfalso].
  - destruct Hge as [->|Hge]; [lia|].
    pose proof (pow256_mono w (k - 1) ltac:(lia)). lia.
  - destruct C as [C|C]; [lia|].
    pose proof (pow256_mono k (w - 1) ltac:(lia)). lia.
Qed.
