(* Properties_C01_split.v — Split / SplitFull16 contribution to C01. *)
Require Import VV.Base VV.Split VV.SplitSpec.
Local Open Scope N_scope.

Example C01_split_example :
  split_put 81982 = Some [131; 0; 0; 1] /\ split_get [131; 0; 0; 1] = Some (4, 81982).
Proof. vm_compute. split; reflexivity. Qed.
