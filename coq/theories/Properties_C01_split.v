(* Properties_C01_split.v — property C01 (scalar varints round-trip every
   value with agreeing, bounded lengths), contribution of the Split
   (varintSplit.h) and SplitFull16 (varintSplitFull16.h) macro families.
   Nothing but statements closed by `exact`, each followed by
   Print Assumptions.  An encoder result [Some bs] is the bytes written;
   [None] would be an expansion reaching undefined behaviour (external
   width outside 1..8) — the theorems show it never happens. *)
Require Import VV.Base VV.Split VV.SplitSpec VV.SplitProofs VV.Split16Proofs VV.SplitConsts VV.SplitDefined.
Local Open Scope N_scope.

(* ---- Split ---- *)

(* varintSplitPut_ is defined on every 64-bit value; varintSplitGet_ on the
   produced bytes (followed by anything) returns the value and the length *)
Theorem C01_split_roundtrip : forall x tl, x < 18446744073709551616 ->
  exists bs, split_put x = Some bs /\ split_get (bs ++ tl) = Some (split_length x, x).
Proof. exact split_roundtrip. Qed.
Print Assumptions C01_split_roundtrip.

(* same at any address, whatever precedes and follows the encoding; the
   number of bytes written, Length_, GetLen_ and GetLenQuick_ all agree *)
Theorem C01_split_roundtrip_at : forall x, x < 18446744073709551616 ->
  exists bs, split_put x = Some bs /\
    N.of_nat (length bs) = split_length x /\
    forall pre tl,
      split_get_at (pre ++ bs ++ tl) (Z.of_nat (length pre)) = Some (split_length x, x) /\
      split_getlen_at (pre ++ bs ++ tl) (Z.of_nat (length pre)) = split_length x /\
      split_getlen_quick_at (pre ++ bs ++ tl) (Z.of_nat (length pre)) = split_length x.
Proof. exact split_roundtrip_at. Qed.
Print Assumptions C01_split_roundtrip_at.

Theorem C01_split_len_agree : forall x, x < 18446744073709551616 ->
  exists bs, split_put x = Some bs /\
    N.of_nat (length bs) = split_length x /\
    split_getlen bs = split_length x /\ split_getlen_quick bs = split_length x.
Proof. exact split_len_agree. Qed.
Print Assumptions C01_split_len_agree.

Theorem C01_split_len_range : forall x, x < 18446744073709551616 -> 1 <= split_length x <= 9.
Proof. exact split_len_range. Qed.
Print Assumptions C01_split_len_range.

(* the encoder modifies no byte outside its split_length x bytes *)
Theorem C01_split_put_frame : forall x dst off bs i, x < 18446744073709551616 ->
  split_put x = Some bs -> (off + length bs <= length dst)%nat ->
  (i < off \/ off + N.to_nat (split_length x) <= i)%nat ->
  nth i (store dst off bs) 0 = nth i dst 0.
Proof. exact split_put_frame. Qed.
Print Assumptions C01_split_put_frame.

(* reversed container: ReversedPutForward_ and ReversedPutReversed_ write the
   same split_length x bytes (the latter with dst = the last of them), and
   ReversedGet_ placed on that last (type) byte returns length and value
   whatever surrounds the bytes *)
Theorem C01_split_reversed_roundtrip : forall x, x < 18446744073709551616 ->
  exists bs, split_rev_put_forward x = Some bs /\
    split_rev_put_reversed x = Some (bs, (length bs - 1)%nat) /\
    N.of_nat (length bs) = split_length x /\
    forall pre tl,
      split_rev_get_at (pre ++ bs ++ tl) (Z.of_nat (length pre) + Z.of_nat (length bs - 1))
        = Some (split_length x, x).
Proof. exact split_rev_roundtrip_at. Qed.
Print Assumptions C01_split_reversed_roundtrip.

(* ---- SplitFull16 ---- *)

Theorem C01_split16_roundtrip : forall x tl, x < 18446744073709551616 ->
  exists bs, split16_put x = Some bs /\ split16_get (bs ++ tl) = Some (split16_length x, x).
Proof. exact split16_roundtrip. Qed.
Print Assumptions C01_split16_roundtrip.

Theorem C01_split16_roundtrip_at : forall x, x < 18446744073709551616 ->
  exists bs, split16_put x = Some bs /\
    N.of_nat (length bs) = split16_length x /\
    forall pre tl,
      split16_get_at (pre ++ bs ++ tl) (Z.of_nat (length pre)) = Some (split16_length x, x) /\
      split16_getlen_at (pre ++ bs ++ tl) (Z.of_nat (length pre)) = split16_length x /\
      split16_getlen_quick_at (pre ++ bs ++ tl) (Z.of_nat (length pre)) = split16_length x.
Proof. exact split16_roundtrip_at. Qed.
Print Assumptions C01_split16_roundtrip_at.

Theorem C01_split16_len_agree : forall x, x < 18446744073709551616 ->
  exists bs, split16_put x = Some bs /\
    N.of_nat (length bs) = split16_length x /\
    split16_getlen bs = split16_length x /\ split16_getlen_quick bs = split16_length x.
Proof. exact split16_len_agree. Qed.
Print Assumptions C01_split16_len_agree.

Theorem C01_split16_len_range : forall x, x < 18446744073709551616 -> 2 <= split16_length x <= 9.
Proof. exact split16_len_range. Qed.
Print Assumptions C01_split16_len_range.

Theorem C01_split16_put_frame : forall x dst off bs i, x < 18446744073709551616 ->
  split16_put x = Some bs -> (off + length bs <= length dst)%nat ->
  (i < off \/ off + N.to_nat (split16_length x) <= i)%nat ->
  nth i (store dst off bs) 0 = nth i dst 0.
Proof. exact split16_put_frame. Qed.
Print Assumptions C01_split16_put_frame.

(* ---- where the decoders are undefined ---- *)
(* The decoder models return None exactly when the expansion reaches
   varintExternalGet with a width outside 1..8 (assert(NULL) +
   __builtin_unreachable in the C): type bytes 10wwwwww with w = 0 or w > 8
   for Split, 11xxwwww with w = 0 or w > 8 for SplitFull16.  These are the
   type bytes the C driver reports instead of executing. *)
Theorem C01_split_get_undefined_iff : forall z p, byte_atz z p < 256 ->
  (split_get_at z p = None <->
   ((byte_atz z p / 64 =? 2) && ((byte_atz z p mod 64 <? 1) || (8 <? byte_atz z p mod 64))) = true).
Proof. exact split_get_undefined_iff. Qed.
Print Assumptions C01_split_get_undefined_iff.

Theorem C01_split_rev_get_undefined_iff : forall z p, byte_atz z p < 256 ->
  (split_rev_get_at z p = None <->
   ((byte_atz z p / 64 =? 2) && ((byte_atz z p mod 64 <? 1) || (8 <? byte_atz z p mod 64))) = true).
Proof. exact split_rev_get_undefined_iff. Qed.
Print Assumptions C01_split_rev_get_undefined_iff.

Theorem C01_split16_get_undefined_iff : forall z p, byte_atz z p < 256 ->
  (split16_get_at z p = None <->
   ((byte_atz z p / 64 =? 3) && ((byte_atz z p mod 16 <? 1) || (8 <? byte_atz z p mod 16))) = true).
Proof. exact split16_get_undefined_iff. Qed.
Print Assumptions C01_split16_get_undefined_iff.

(* non-vacuity: concrete instances on both sides of a level boundary *)
Example C01_split_example :
  split_put 81981 = Some [130; 255; 255] /\ split_get [130; 255; 255; 7] = Some (3, 81981) /\
  split_put 81982 = Some [131; 0; 0; 1] /\ split_get [131; 0; 0; 1] = Some (4, 81982) /\
  split_rev_put_reversed 81982 = Some ([0; 0; 1; 131], 3%nat) /\
  split_rev_get_at [9; 0; 0; 1; 131; 9] 4 = Some (4, 81982) /\
  split16_put 1077952510 = Some [196; 1; 0; 0; 0] /\
  split16_get [196; 1; 0; 0; 0] = Some (5, 1077952510) /\
  split_put 18446744073709551615 <> None /\ split16_put 18446744073709551615 <> None.
Proof. vm_compute. repeat split; try reflexivity; discriminate. Qed.
