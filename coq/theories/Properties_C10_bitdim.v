(* Properties_C10_bitdim.v — placeholder *)
Require Import VV.Base VV.Dimension.
