(* Properties_C10_bitdim.v — property C10: dimension headers round-trip and
   matrix cells are independent (varintDimension.{c,h}, model Dimension.v,
   code after the F26 and F27 fixes).  Nothing but statements closed by
   `exact`, each followed by Print Assumptions.

   A matrix buffer is `hdr ++ data`: the header written by
   varintDimensionPairEncode(rows, cols) followed by the cell storage.
   A matrix with a zero row count is a vector: it has the single row 0, hence
   the row bound `if rows =? 0 then 1 else rows`.  Cell (row, col) has linear
   index row*cols + col.  "Fits" hypotheses say that header + all cells lie
   inside the buffer and the buffer is smaller than 2^64 bytes (so that the
   size_t arithmetic of getEntryByteOffset does not wrap); for bit matrices the
   cell count itself must be below 2^64 (_bitOffsets computes it in size_t). *)
Require Import VV.Base VV.Dimension VV.DimensionProofs VV.DimensionCellProofs.
Local Open Scope N_scope.

(* ---- (rows, cols) packed into one integer *)

(* every pair the format supports (both below 2^32 = 8 levels of 4 bits)
   packs into the smallest sufficient level d, as row * 2^(4d) + col, and
   unpacks to itself *)
Theorem C10_pack_roundtrip : forall row col,
  row < 4294967296 -> col < 4294967296 ->
  exists p d, dim_pack row col = PackOk p d /\ 1 <= d /\ d <= 8 /\
              row < 2 ^ (4 * d) /\ col < 2 ^ (4 * d) /\
              (d = 1 \/ 2 ^ (4 * (d - 1)) <= row \/ 2 ^ (4 * (d - 1)) <= col) /\
              p = row * 2 ^ (4 * d) + col /\
              dim_unpack p d = Some (row, col).
Proof. exact dim_pack_roundtrip. Qed.
Print Assumptions C10_pack_roundtrip.

(* pairs outside the format are refused, never mis-packed *)
Theorem C10_pack_unsupported : forall row col,
  4294967296 <= row \/ 4294967296 <= col -> dim_pack row col = PackFalse.
Proof. exact dim_pack_unsupported. Qed.
Print Assumptions C10_pack_unsupported.

(* ---- variable-width dimension header *)

(* all row counts below 2^64 and column counts 1..2^64-1: the widths are the
   external-varint widths (0 bytes for 0 rows, else 1-8; 1-8 for columns), the
   header is the two little-endian counts, occupies exactly the announced
   number of bytes wr + wc, and decodes to the same pair whatever follows it *)
Theorem C10_pair_roundtrip : forall rows cols,
  rows < 18446744073709551616 -> 1 <= cols -> cols < 18446744073709551616 ->
  let dim := pair_dimension rows cols in
  let wr := if rows =? 0 then 0 else N.of_nat (ext_width rows) in
  let wc := N.of_nat (ext_width cols) in
  wr <= 8 /\ 1 <= wc /\ wc <= 8 /\
  rows < 256 ^ wr /\ cols < 256 ^ wc /\
  pair_row_count dim = wr /\ pair_col_count dim = wc /\ pair_is_sparse dim = 0 /\
  exists hdr,
    pair_encode rows cols = Some (dim, hdr) /\
    hdr = le_bytes (N.to_nat wr) rows ++ le_bytes (N.to_nat wc) cols /\
    N.of_nat (length hdr) = pair_byte_length dim /\
    pair_byte_length dim = wr + wc /\
    forall tail, pair_decode (hdr ++ tail) dim = Some (rows, cols).
Proof. exact c10_pair_roundtrip. Qed.
Print Assumptions C10_pair_roundtrip.

(* all 9 x 8 width combinations occur: the smallest and the largest count of
   every row width 0-8 and column width 1-8 get exactly that width *)
Theorem C10_all_width_combinations :
  forallb (fun wr => forallb (fun wc =>
     (need_rows (width_min wr) =? wr) && (need_rows (width_max wr) =? wr) &&
     (need_cols (N.max 1 (width_min wc)) =? wc) && (need_cols (width_max wc) =? wc))
     [1;2;3;4;5;6;7;8]) [0;1;2;3;4;5;6;7;8] = true.
Proof. exact all_width_combinations. Qed.
Print Assumptions C10_all_width_combinations.

(* ---- cells: unsigned entries of 1-8 bytes *)

(* writing a cell: the read of that cell returns the value; the buffer keeps
   its header bytes and its length; every byte outside the cell's w bytes is
   unchanged; every other cell reads as before *)
Theorem C10_cell_unsigned : forall rows cols dim hdr data row col w v,
  rows < 18446744073709551616 -> 1 <= cols -> cols < 18446744073709551616 ->
  pair_encode rows cols = Some (dim, hdr) ->
  N.of_nat (length (hdr ++ data)) < 18446744073709551616 ->
  row < (if rows =? 0 then 1 else rows) -> col < cols -> 1 <= w -> w <= 8 ->
  N.of_nat (length hdr) + (if rows =? 0 then 1 else rows) * cols * w <= N.of_nat (length (hdr ++ data)) ->
  v < 256 ^ w ->
  exists data',
    entry_set_unsigned (hdr ++ data) row col v w dim = Some (hdr ++ data') /\
    length data' = length data /\
    entry_get_unsigned (hdr ++ data') row col w dim = Some v /\
    (forall i, ~ (N.of_nat (length hdr) + (row * cols + col) * w <= N.of_nat i
                  < N.of_nat (length hdr) + (row * cols + col) * w + w) ->
               nth i (hdr ++ data') 0 = nth i (hdr ++ data) 0) /\
    (forall row' col', row' < (if rows =? 0 then 1 else rows) -> col' < cols -> (row', col') <> (row, col) ->
       entry_get_unsigned (hdr ++ data') row' col' w dim = entry_get_unsigned (hdr ++ data) row' col' w dim).
Proof. exact c10_cell_unsigned. Qed.
Print Assumptions C10_cell_unsigned.

(* all sequences of cell writes: after any history of writes to cells inside
   the matrix, every cell reads the value most recently written to it, or its
   original content if it was never written *)
Theorem C10_write_sequence : forall rows cols dim hdr data w ops,
  rows < 18446744073709551616 -> 1 <= cols -> cols < 18446744073709551616 ->
  pair_encode rows cols = Some (dim, hdr) ->
  N.of_nat (length (hdr ++ data)) < 18446744073709551616 ->
  1 <= w -> w <= 8 ->
  N.of_nat (length hdr) + (if rows =? 0 then 1 else rows) * cols * w <= N.of_nat (length (hdr ++ data)) ->
  Forall (fun op => match op with
                    | (r, c, v) => r < (if rows =? 0 then 1 else rows) /\ c < cols /\ v < 256 ^ w
                    end) ops ->
  exists data',
    apply_writes (hdr ++ data) ops w dim = Some (hdr ++ data') /\
    length data' = length data /\
    forall row col, row < (if rows =? 0 then 1 else rows) -> col < cols ->
      entry_get_unsigned (hdr ++ data') row col w dim =
      match last_write ops row col with
      | Some v => Some v
      | None => entry_get_unsigned (hdr ++ data) row col w dim
      end.
Proof. exact c10_write_sequence. Qed.
Print Assumptions C10_write_sequence.

(* ---- cells: float (4 bytes), double (8), half (2) as raw stores of the bit
   pattern; same statement as for unsigned entries *)

Theorem C10_cell_float : forall rows cols dim hdr data row col bits,
  rows < 18446744073709551616 -> 1 <= cols -> cols < 18446744073709551616 ->
  pair_encode rows cols = Some (dim, hdr) ->
  N.of_nat (length (hdr ++ data)) < 18446744073709551616 ->
  row < (if rows =? 0 then 1 else rows) -> col < cols -> 1 <= 4 -> 4 <= 8 ->
  N.of_nat (length hdr) + (if rows =? 0 then 1 else rows) * cols * 4 <= N.of_nat (length (hdr ++ data)) ->
  bits < 256 ^ 4 ->
  exists data',
    entry_set_float (hdr ++ data) row col bits dim = Some (hdr ++ data') /\
    length data' = length data /\
    entry_get_float (hdr ++ data') row col dim = Some bits /\
    (forall i, ~ (N.of_nat (length hdr) + (row * cols + col) * 4 <= N.of_nat i
                  < N.of_nat (length hdr) + (row * cols + col) * 4 + 4) ->
               nth i (hdr ++ data') 0 = nth i (hdr ++ data) 0) /\
    (forall row' col', row' < (if rows =? 0 then 1 else rows) -> col' < cols -> (row', col') <> (row, col) ->
       entry_get_float (hdr ++ data') row' col' dim = entry_get_float (hdr ++ data) row' col' dim).
Proof. exact (c10_cell_raw 4). Qed.
Print Assumptions C10_cell_float.

Theorem C10_cell_double : forall rows cols dim hdr data row col bits,
  rows < 18446744073709551616 -> 1 <= cols -> cols < 18446744073709551616 ->
  pair_encode rows cols = Some (dim, hdr) ->
  N.of_nat (length (hdr ++ data)) < 18446744073709551616 ->
  row < (if rows =? 0 then 1 else rows) -> col < cols -> 1 <= 8 -> 8 <= 8 ->
  N.of_nat (length hdr) + (if rows =? 0 then 1 else rows) * cols * 8 <= N.of_nat (length (hdr ++ data)) ->
  bits < 256 ^ 8 ->
  exists data',
    entry_set_double (hdr ++ data) row col bits dim = Some (hdr ++ data') /\
    length data' = length data /\
    entry_get_double (hdr ++ data') row col dim = Some bits /\
    (forall i, ~ (N.of_nat (length hdr) + (row * cols + col) * 8 <= N.of_nat i
                  < N.of_nat (length hdr) + (row * cols + col) * 8 + 8) ->
               nth i (hdr ++ data') 0 = nth i (hdr ++ data) 0) /\
    (forall row' col', row' < (if rows =? 0 then 1 else rows) -> col' < cols -> (row', col') <> (row, col) ->
       entry_get_double (hdr ++ data') row' col' dim = entry_get_double (hdr ++ data) row' col' dim).
Proof. exact (c10_cell_raw 8). Qed.
Print Assumptions C10_cell_double.

Theorem C10_cell_half : forall rows cols dim hdr data row col bits,
  rows < 18446744073709551616 -> 1 <= cols -> cols < 18446744073709551616 ->
  pair_encode rows cols = Some (dim, hdr) ->
  N.of_nat (length (hdr ++ data)) < 18446744073709551616 ->
  row < (if rows =? 0 then 1 else rows) -> col < cols -> 1 <= 2 -> 2 <= 8 ->
  N.of_nat (length hdr) + (if rows =? 0 then 1 else rows) * cols * 2 <= N.of_nat (length (hdr ++ data)) ->
  bits < 256 ^ 2 ->
  exists data',
    entry_set_half (hdr ++ data) row col bits dim = Some (hdr ++ data') /\
    length data' = length data /\
    entry_get_half (hdr ++ data') row col dim = Some bits /\
    (forall i, ~ (N.of_nat (length hdr) + (row * cols + col) * 2 <= N.of_nat i
                  < N.of_nat (length hdr) + (row * cols + col) * 2 + 2) ->
               nth i (hdr ++ data') 0 = nth i (hdr ++ data) 0) /\
    (forall row' col', row' < (if rows =? 0 then 1 else rows) -> col' < cols -> (row', col') <> (row, col) ->
       entry_get_half (hdr ++ data') row' col' dim = entry_get_half (hdr ++ data) row' col' dim).
Proof. exact (c10_cell_raw 2). Qed.
Print Assumptions C10_cell_half.

(* ---- bit cells *)

(* SetBit(b), b true or false: a read of the cell returns b (in particular
   setting to false clears); the header and the length are kept; every other
   byte is unchanged, every other bit of the cell's byte is unchanged, every
   other cell reads as before *)
Theorem C10_bit_set : forall rows cols dim hdr data row col (b : bool),
  rows < 18446744073709551616 -> 1 <= cols -> cols < 18446744073709551616 ->
  pair_encode rows cols = Some (dim, hdr) ->
  N.of_nat (length (hdr ++ data)) < 18446744073709551616 ->
  row < (if rows =? 0 then 1 else rows) -> col < cols ->
  (if rows =? 0 then 1 else rows) * cols < 18446744073709551616 ->
  N.of_nat (length hdr) + ((if rows =? 0 then 1 else rows) * cols + 7) / 8 <= N.of_nat (length (hdr ++ data)) ->
  exists data',
    entry_set_bit (hdr ++ data) row col b dim = Some (hdr ++ data') /\
    length data' = length data /\
    entry_get_bit (hdr ++ data') row col dim = Some b /\
    (forall i, i <> N.to_nat (N.of_nat (length hdr) + (row * cols + col) / 8) ->
               nth i (hdr ++ data') 0 = nth i (hdr ++ data) 0) /\
    (forall j, j < 8 -> j <> (row * cols + col) mod 8 ->
       N.testbit (nth (N.to_nat (N.of_nat (length hdr) + (row * cols + col) / 8)) (hdr ++ data') 0) j =
       N.testbit (nth (N.to_nat (N.of_nat (length hdr) + (row * cols + col) / 8)) (hdr ++ data) 0) j) /\
    (forall row' col', row' < (if rows =? 0 then 1 else rows) -> col' < cols -> (row', col') <> (row, col) ->
       entry_get_bit (hdr ++ data') row' col' dim = entry_get_bit (hdr ++ data) row' col' dim).
Proof. exact c10_bit_set. Qed.
Print Assumptions C10_bit_set.

(* ToggleBit returns the previous value of the cell and flips it; same frame *)
Theorem C10_bit_toggle : forall rows cols dim hdr data row col,
  rows < 18446744073709551616 -> 1 <= cols -> cols < 18446744073709551616 ->
  pair_encode rows cols = Some (dim, hdr) ->
  N.of_nat (length (hdr ++ data)) < 18446744073709551616 ->
  row < (if rows =? 0 then 1 else rows) -> col < cols ->
  (if rows =? 0 then 1 else rows) * cols < 18446744073709551616 ->
  N.of_nat (length hdr) + ((if rows =? 0 then 1 else rows) * cols + 7) / 8 <= N.of_nat (length (hdr ++ data)) ->
  exists data' old,
    entry_toggle_bit (hdr ++ data) row col dim = Some (hdr ++ data', old) /\
    entry_get_bit (hdr ++ data) row col dim = Some old /\
    length data' = length data /\
    entry_get_bit (hdr ++ data') row col dim = Some (negb old) /\
    (forall i, i <> N.to_nat (N.of_nat (length hdr) + (row * cols + col) / 8) ->
               nth i (hdr ++ data') 0 = nth i (hdr ++ data) 0) /\
    (forall j, j < 8 -> j <> (row * cols + col) mod 8 ->
       N.testbit (nth (N.to_nat (N.of_nat (length hdr) + (row * cols + col) / 8)) (hdr ++ data') 0) j =
       N.testbit (nth (N.to_nat (N.of_nat (length hdr) + (row * cols + col) / 8)) (hdr ++ data) 0) j) /\
    (forall row' col', row' < (if rows =? 0 then 1 else rows) -> col' < cols -> (row', col') <> (row, col) ->
       entry_get_bit (hdr ++ data') row' col' dim = entry_get_bit (hdr ++ data) row' col' dim).
Proof. exact c10_bit_toggle. Qed.
Print Assumptions C10_bit_toggle.

(* all sequences of bit operations (SetBit true/false, ToggleBit) on cells
   inside the matrix: every cell ends with the value obtained by replaying on
   its initial value exactly the operations addressed to it *)
Theorem C10_bit_sequence : forall rows cols dim hdr data ops,
  rows < 18446744073709551616 -> 1 <= cols -> cols < 18446744073709551616 ->
  pair_encode rows cols = Some (dim, hdr) ->
  N.of_nat (length (hdr ++ data)) < 18446744073709551616 ->
  (if rows =? 0 then 1 else rows) * cols < 18446744073709551616 ->
  N.of_nat (length hdr) + ((if rows =? 0 then 1 else rows) * cols + 7) / 8 <= N.of_nat (length (hdr ++ data)) ->
  Forall (fun op => match op with
                    | (r, c, _) => r < (if rows =? 0 then 1 else rows) /\ c < cols
                    end) ops ->
  exists data',
    apply_bitops (hdr ++ data) ops dim = Some (hdr ++ data') /\
    length data' = length data /\
    forall row col, row < (if rows =? 0 then 1 else rows) -> col < cols ->
      exists v0, entry_get_bit (hdr ++ data) row col dim = Some v0 /\
                 entry_get_bit (hdr ++ data') row col dim = Some (bit_history ops row col v0).
Proof. exact c10_bit_sequence. Qed.
Print Assumptions C10_bit_sequence.

(* non-vacuity: the ledger witnesses.  F26: a 5-byte column count now decodes;
   F27: set then clear on a 4x4 bit matrix; a 3-byte entry in the last cell of
   a 2x3 matrix; pack across a level boundary *)
Example C10_example :
  (match pair_encode 3 8589934592 with
   | Some (d, h) => (pair_row_count d, pair_col_count d, h, pair_decode h d)
   | None => (0, 0, [], None) end)
    = (1, 5, [3; 0; 0; 0; 0; 2], Some (3, 8589934592)) /\
  (match entry_set_bit [4; 4; 0; 0] 1 1 true 16 with
   | Some b1 => match entry_set_bit b1 1 1 false 16 with
                | Some b2 => (entry_get_bit b1 1 1 16, entry_get_bit b2 1 1 16, b2)
                | None => (None, None, []) end
   | None => (None, None, []) end) = (Some true, Some false, [4; 4; 0; 0]) /\
  (match pair_encode 2 3 with
   | Some (d, h) =>
       match entry_set_unsigned (h ++ repeat 170 18) 1 2 66051 3 d with
       | Some b => (b, entry_get_unsigned b 1 2 3 d)
       | None => ([], None) end
   | None => ([], None) end)
    = ([2; 3; 170; 170; 170; 170; 170; 170; 170; 170; 170; 170; 170; 170; 170; 170; 170; 3; 2; 1],
       Some 66051) /\
  dim_pack 15 16 = PackOk 3856 2 /\ dim_unpack 3856 2 = Some (15, 16).
Proof. vm_compute. repeat split; reflexivity. Qed.
