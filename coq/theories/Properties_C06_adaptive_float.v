(* Properties_C06_adaptive_float.v — the binary32 arithmetic of
   varintAdaptiveAnalyze / varintAdaptiveSelectEncoding, which the model
   (Adaptive.v) computes with a hand-written integer round-to-nearest-even
   helper, agrees with IEEE-754 binary32 as formalised by Flocq 4.1, for ALL
   a < 2^64 and 0 < b < 2^64 (2^64 = 18446744073709551616).  Nothing but statements
   closed by `exact`, each followed by Print Assumptions.  These theorems (and
   only these, among the C06 statements) depend on the standard library's axioms
   for the real numbers, through Flocq's B2R / round.

   Reading guide.
   Model side: adp_ratio a b = (float)a / (float)b as computed by the helper
   (adp_f32_of_N, adp_f32_div, both via adp_round_ratio); adp_f32_lt x y = `x < y`;
   adp_f015 = AF 10066330 (-26), adp_f005 = AF 13421773 (-28); adp_f32_bits = the bit
   pattern the driver prints next to the C float's.
   Flocq side: binary_normalize 24 128 _ _ mode_NE n 0 false = the IEEE conversion of
   the integer n to binary32 (round to nearest, ties to even); b32_div mode_NE = IEEE
   division; b32_compare = IEEE comparison (Some Lt / Some Eq / Some Gt, None when
   unordered); b32_of_bits = the float with the given encoding: 0x3E19999A =
   1041865114 is 0.15f, 0x3D4CCCCD = 1028443341 is 0.05f.  flt32_prec_gt_0 and
   flt32_prec_lt_emax are the proofs (eq_refl) of 0 < 24 and 24 < 128 that Flocq's
   operations take as arguments.
   No overflow, underflow or NaN arises in this range: every value is +0 or lies
   in [2^-64, 2^64] (C06_adaptive_float_ratio_value), inside the normal range
   [2^-126, 2^128) of binary32; the results are finite. *)
Require Import VV.Base VV.Adaptive VV.AdaptiveFloatSpec VV.AdaptiveFloatProofs VV.AdaptiveFloatBits.
From Flocq Require Import Core Binary Bits.
From Coq Require Import Reals ZArith NArith.
Local Open Scope N_scope.

(* ---- the three tests ---- *)

(* stats->uniqueRatio < 0.15f   ((float)uniqueCount / (float)count) *)
Theorem C06_adaptive_float_lt_015 : forall a b,
  a < 18446744073709551616 -> 0 < b -> b < 18446744073709551616 ->
  adp_f32_lt (adp_ratio a b) adp_f015 =
  match b32_compare
          (b32_div BinarySingleNaN.mode_NE
             (binary_normalize 24 128 flt32_prec_gt_0 flt32_prec_lt_emax BinarySingleNaN.mode_NE (Z.of_N a) 0 false)
             (binary_normalize 24 128 flt32_prec_gt_0 flt32_prec_lt_emax BinarySingleNaN.mode_NE (Z.of_N b) 0 false))
          (b32_of_bits 1041865114)
  with Some Lt => true | _ => false end.
Proof. exact afl_ratio_lt_015. Qed.
Print Assumptions C06_adaptive_float_lt_015.

(* density > 0.05f   ((float)count / (float)range) *)
Theorem C06_adaptive_float_gt_005 : forall a b,
  a < 18446744073709551616 -> 0 < b -> b < 18446744073709551616 ->
  adp_f32_lt adp_f005 (adp_ratio a b) =
  match b32_compare
          (b32_div BinarySingleNaN.mode_NE
             (binary_normalize 24 128 flt32_prec_gt_0 flt32_prec_lt_emax BinarySingleNaN.mode_NE (Z.of_N a) 0 false)
             (binary_normalize 24 128 flt32_prec_gt_0 flt32_prec_lt_emax BinarySingleNaN.mode_NE (Z.of_N b) 0 false))
          (b32_of_bits 1028443341)
  with Some Gt => true | _ => false end.
Proof. exact afl_ratio_gt_005. Qed.
Print Assumptions C06_adaptive_float_gt_005.

(* stats->outlierRatio < 0.05f   ((float)outlierCount / (float)count) *)
Theorem C06_adaptive_float_lt_005 : forall a b,
  a < 18446744073709551616 -> 0 < b -> b < 18446744073709551616 ->
  adp_f32_lt (adp_ratio a b) adp_f005 =
  match b32_compare
          (b32_div BinarySingleNaN.mode_NE
             (binary_normalize 24 128 flt32_prec_gt_0 flt32_prec_lt_emax BinarySingleNaN.mode_NE (Z.of_N a) 0 false)
             (binary_normalize 24 128 flt32_prec_gt_0 flt32_prec_lt_emax BinarySingleNaN.mode_NE (Z.of_N b) 0 false))
          (b32_of_bits 1028443341)
  with Some Lt => true | _ => false end.
Proof. exact afl_ratio_lt_005. Qed.
Print Assumptions C06_adaptive_float_lt_005.

(* ---- the values behind them ---- *)

(* (float)n: the helper's value m * 2^e (0 for AF0) is the real value of the Flocq
   conversion, which is finite; the helper's significand is normalised *)
Theorem C06_adaptive_float_of_N_value : forall n, n < 18446744073709551616 ->
  B2R 24 128 (binary_normalize 24 128 flt32_prec_gt_0 flt32_prec_lt_emax BinarySingleNaN.mode_NE (Z.of_N n) 0 false)
    = match adp_f32_of_N n with AF0 => 0%R | AF m e => (IZR (Z.of_N m) * bpow radix2 e)%R end /\
  is_finite 24 128
    (binary_normalize 24 128 flt32_prec_gt_0 flt32_prec_lt_emax BinarySingleNaN.mode_NE (Z.of_N n) 0 false) = true /\
  match adp_f32_of_N n with AF0 => True | AF m e => 8388608 <= m < 16777216 end.
Proof. exact afl_of_N_correct. Qed.
Print Assumptions C06_adaptive_float_of_N_value.

(* (float)a / (float)b: same real value, finite, normalised, and either +0 (a = 0)
   or within [2^-64, 2^64]: no overflow, no underflow to subnormals, no NaN *)
Theorem C06_adaptive_float_ratio_value : forall a b,
  a < 18446744073709551616 -> 0 < b -> b < 18446744073709551616 ->
  B2R 24 128
    (b32_div BinarySingleNaN.mode_NE
       (binary_normalize 24 128 flt32_prec_gt_0 flt32_prec_lt_emax BinarySingleNaN.mode_NE (Z.of_N a) 0 false)
       (binary_normalize 24 128 flt32_prec_gt_0 flt32_prec_lt_emax BinarySingleNaN.mode_NE (Z.of_N b) 0 false))
    = match adp_ratio a b with AF0 => 0%R | AF m e => (IZR (Z.of_N m) * bpow radix2 e)%R end /\
  is_finite 24 128
    (b32_div BinarySingleNaN.mode_NE
       (binary_normalize 24 128 flt32_prec_gt_0 flt32_prec_lt_emax BinarySingleNaN.mode_NE (Z.of_N a) 0 false)
       (binary_normalize 24 128 flt32_prec_gt_0 flt32_prec_lt_emax BinarySingleNaN.mode_NE (Z.of_N b) 0 false)) = true /\
  match adp_ratio a b with AF0 => True | AF m e => 8388608 <= m < 16777216 end /\
  (a = 0 /\ adp_ratio a b = AF0 \/
   (bpow radix2 (-64)
      <= match adp_ratio a b with AF0 => 0%R | AF m e => (IZR (Z.of_N m) * bpow radix2 e)%R end
      <= bpow radix2 64)%R).
Proof. exact afl_ratio_correct. Qed.
Print Assumptions C06_adaptive_float_ratio_value.

(* the bit pattern the model reports for the quotient (compared with the C float's
   bits by the driver on every run) is the IEEE encoding of the Flocq quotient *)
Theorem C06_adaptive_float_ratio_bits : forall a b,
  a < 18446744073709551616 -> 0 < b -> b < 18446744073709551616 ->
  bits_of_b32
    (b32_div BinarySingleNaN.mode_NE
       (binary_normalize 24 128 flt32_prec_gt_0 flt32_prec_lt_emax BinarySingleNaN.mode_NE (Z.of_N a) 0 false)
       (binary_normalize 24 128 flt32_prec_gt_0 flt32_prec_lt_emax BinarySingleNaN.mode_NE (Z.of_N b) 0 false))
  = Z.of_N (adp_f32_bits (adp_ratio a b)).
Proof. exact afl_ratio_bits. Qed.
Print Assumptions C06_adaptive_float_ratio_bits.

(* the helper's comparison is the order of the reals on normalised values *)
Theorem C06_adaptive_float_lt_real : forall f g,
  match f with AF0 => True | AF m e => 8388608 <= m < 16777216 end ->
  match g with AF0 => True | AF m e => 8388608 <= m < 16777216 end ->
  adp_f32_lt f g =
  Rlt_bool match f with AF0 => 0%R | AF m e => (IZR (Z.of_N m) * bpow radix2 e)%R end
           match g with AF0 => 0%R | AF m e => (IZR (Z.of_N m) * bpow radix2 e)%R end.
Proof. exact afl_lt_correct. Qed.
Print Assumptions C06_adaptive_float_lt_real.

(* the helper's core: for p, q > 0 it returns a normalised m * 2^e that is p/q
   rounded to 24 significant bits, nearest-even (Flocq's unbounded-exponent format
   FLX 24), and scaling by a power of two commutes *)
Theorem C06_adaptive_float_round_ratio : forall p q, 0 < p -> 0 < q ->
  exists m e, adp_round_ratio p q = AF m e /\ 8388608 <= m < 16777216 /\
    forall s, round radix2 (FLX_exp 24) ZnearestE (IZR (Z.of_N p) / IZR (Z.of_N q) * bpow radix2 s)
              = (IZR (Z.of_N m) * bpow radix2 (e + s))%R.
Proof. exact afl_round_ratio_spec. Qed.
Print Assumptions C06_adaptive_float_round_ratio.

(* the two constants are the binary32 values nearest to 15/100 and 5/100 *)
Theorem C06_adaptive_float_constants :
  B2R 24 128 (b32_of_bits 1041865114) = round radix2 (FLT_exp (-149) 24) ZnearestE (15 / 100) /\
  B2R 24 128 (b32_of_bits 1028443341) = round radix2 (FLT_exp (-149) 24) ZnearestE (5 / 100).
Proof. exact (conj afl_015_rounded afl_005_rounded). Qed.
Print Assumptions C06_adaptive_float_constants.

(* ---- both sides evaluated (Flocq's binary32 computes inside Coq) ---- *)

(* a = 2^24 + 1 and b = 111848108 are BOTH ties of the integer-to-float
   conversion (a -> 2^24, b -> 111848112, to even); the quotient is 0x3E199999, one
   ulp below 0.15f.  Rounding either tie the other way gives 0x3E19999A = 0.15f and
   the test `< 0.15f` flips to false. *)
Example C06_adaptive_float_tie_015 :
  (adp_f32_lt (adp_ratio 16777217 111848108) adp_f015, flt32_ratio_lt_015 16777217 111848108,
   adp_f32_bits (adp_ratio 16777217 111848108), bits_of_b32 (flt32_ratio 16777217 111848108))
  = (true, true, 1041865113, 1041865113%Z).
Proof. vm_compute. reflexivity. Qed.

(* a = 2^24 + 1 (tie), b = 335544304: the quotient is exactly 0.05f, so neither
   `> 0.05f` nor `< 0.05f`; rounding the tie upwards makes `> 0.05f` true *)
Example C06_adaptive_float_tie_005 :
  (adp_f32_lt adp_f005 (adp_ratio 16777217 335544304), flt32_ratio_gt_005 16777217 335544304,
   adp_f32_lt (adp_ratio 16777217 335544304) adp_f005, flt32_ratio_lt_005 16777217 335544304,
   adp_f32_bits (adp_ratio 16777217 335544304), bits_of_b32 (flt32_ratio 16777217 335544304))
  = (false, false, false, false, 1028443341, 1028443341%Z).
Proof. vm_compute. reflexivity. Qed.

(* the extremes of the range: 2^64 - 1 over 1 (0x5F800000 = 2^64) and 1 over 2^64 - 1
   (0x1F800000 = 2^-64), and a zero numerator *)
Example C06_adaptive_float_extremes :
  (adp_f32_bits (adp_ratio 18446744073709551615 1), bits_of_b32 (flt32_ratio 18446744073709551615 1),
   adp_f32_bits (adp_ratio 1 18446744073709551615), bits_of_b32 (flt32_ratio 1 18446744073709551615),
   adp_f32_bits (adp_ratio 0 7), bits_of_b32 (flt32_ratio 0 7),
   adp_f32_lt (adp_ratio 0 7) adp_f005, flt32_ratio_lt_005 0 7)
  = (1602224128, 1602224128%Z, 528482304, 528482304%Z, 0, 0%Z, true, true).
Proof. vm_compute. reflexivity. Qed.
