(* ConcProofs.v — calls whose write sets are disjoint from every other call's
   footprint are race-free under every interleaving and each returns what it
   returns alone. *)
Require Import VV.Conc.
From Coq Require Import List NArith Arith Lia Bool.
Import ListNotations.

Lemma upd_same m l v : upd m l v l = v.
Proof. unfold upd. rewrite N.eqb_refl. reflexivity. Qed.
Lemma upd_other m l v l' : l' <> l -> upd m l v l' = m l'.
Proof. intro H. unfold upd. destruct (N.eqb_spec l' l); [contradiction|reflexivity]. Qed.

Section Footprint.
  Variables R W : loc -> Prop.
  Let F l := R l \/ W l.

  (* the outcome of a call depends only on its footprint *)
  Lemma run_agree p : within R W p -> forall m m',
    (forall l, F l -> m l = m' l) ->
    snd (run m p) = snd (run m' p) /\ (forall l, F l -> fst (run m p) l = fst (run m' p) l).
  Proof.
    induction 1 as [r | l k Hl Hk IH | l v k Hl Hk IH]; intros m m' A; cbn [run].
    - split; [reflexivity|exact A].
    - rewrite (A l Hl). apply IH. exact A.
    - apply IH. intros l' Fl'. unfold upd. destruct (N.eqb l' l); [reflexivity|apply A; exact Fl'].
  Qed.

  Lemma run_step1 m p : run (fst (step1 m p)) (snd (step1 m p)) = run m p.
  Proof. destruct p; reflexivity. Qed.

  Lemma within_step1 m p : within R W p -> within R W (snd (step1 m p)).
  Proof.
    intro H. destruct H as [r | l k Hl Hk | l v k Hl Hk]; cbn [step1 snd].
    - constructor.
    - apply Hk.
    - exact Hk.
  Qed.

  (* a step of a thread changes memory only inside its write set *)
  Lemma step1_frame m p l : within R W p -> ~ W l -> fst (step1 m p) l = m l.
  Proof.
    intros H NW. destruct H as [r | l0 k Hl Hk | l0 v k Hl Hk]; cbn [step1 fst]; try reflexivity.
    apply upd_other. intro E. subst. contradiction.
  Qed.

  Lemma next_access_within p l w : within R W p -> next_access p = Some (l, w) ->
    F l /\ (w = true -> W l).
  Proof.
    intros H E. destruct H as [r | l0 k Hl Hk | l0 v k Hl Hk]; cbn [next_access] in E.
    - discriminate.
    - injection E as <- <-. split; [exact Hl|discriminate].
    - injection E as <- <-. split; [right; exact Hl|intros _; exact Hl].
  Qed.
End Footprint.

Lemma nth_error_set_nth_same {A} (l : list A) i x y :
  nth_error l i = Some y -> nth_error (set_nth l i x) i = Some x.
Proof.
  revert i. induction l as [|h t IH]; intros [|i] H; cbn in *; try discriminate; [reflexivity|apply IH; exact H].
Qed.
Lemma nth_error_set_nth_other {A} (l : list A) i j x :
  i <> j -> nth_error (set_nth l i x) j = nth_error l j.
Proof.
  revert i j. induction l as [|h t IH]; intros [|i] [|j] H; cbn; try reflexivity; try lia.
  apply IH. lia.
Qed.

Section Threads.
  (* per-thread read and write sets *)
  Variable Rs Ws : nat -> loc -> Prop.
  Definition Fs i l := Rs i l \/ Ws i l.
  (* no thread writes inside another thread's footprint *)
  Hypothesis disjoint : forall i j l, i <> j -> Ws j l -> ~ Fs i l.

  Variable m0 : mem.
  Variable ps0 : list prog.
  Hypothesis footprints : forall i p, nth_error ps0 i = Some p -> within (Rs i) (Ws i) p.

  (* invariant of every reachable configuration *)
  Definition Inv (c : mem * list prog) : Prop :=
    let (m, ps) := c in
    length ps = length ps0 /\
    forall i p p0, nth_error ps i = Some p -> nth_error ps0 i = Some p0 ->
      within (Rs i) (Ws i) p /\
      snd (run m p) = snd (run m0 p0) /\
      (forall l, Fs i l -> fst (run m p) l = fst (run m0 p0) l).

  Lemma Inv_init : Inv (m0, ps0).
  Proof.
    split; [reflexivity|]. intros i p p0 H H0. rewrite H in H0. injection H0 as <-.
    split; [apply footprints; exact H|]. split; reflexivity.
  Qed.

  Lemma set_nth_length {A} (l : list A) i x : length (set_nth l i x) = length l.
  Proof. revert i. induction l as [|h t IH]; intros [|i]; cbn; try reflexivity. rewrite IH. reflexivity. Qed.

  Lemma Inv_step c i : Inv c -> Inv (cstep c i).
  Proof.
    destruct c as [m ps]. intros [L I]. unfold cstep.
    destruct (nth_error ps i) as [p|] eqn:E; [|split; assumption].
    destruct (step1 m p) as [m' p'] eqn:S.
    assert (S1 : m' = fst (step1 m p)) by (rewrite S; reflexivity).
    assert (S2 : p' = snd (step1 m p)) by (rewrite S; reflexivity).
    split; [rewrite set_nth_length; exact L|].
    intros j q q0 Hq Hq0.
    destruct (Nat.eq_dec i j) as [<-|NE].
    - rewrite (nth_error_set_nth_same ps i p' p E) in Hq. injection Hq as <-.
      destruct (I i p q0 E Hq0) as (Wi & Ri & Mi).
      split; [subst p'; apply within_step1; exact Wi|].
      subst m' p'. rewrite run_step1. split; assumption.
    - rewrite nth_error_set_nth_other in Hq by exact NE.
      destruct (I j q q0 Hq Hq0) as (Wj & Rj & Mj).
      split; [exact Wj|].
      (* thread i's step changed memory only inside Ws i, outside Fs j *)
      assert (P0 : exists p0, nth_error ps0 i = Some p0).
      { destruct (nth_error ps0 i) eqn:E0; [eexists; reflexivity|].
        apply nth_error_None in E0. assert (i < length ps) by (apply nth_error_Some; congruence). lia. }
      destruct P0 as [p0 E0]. destruct (I i p p0 E E0) as (Wi & _ & _).
      assert (A : forall l, Fs j l -> m' l = m l).
      { intros l Fl. subst m'. apply (step1_frame (Rs i) (Ws i)); [exact Wi|].
        intro Wl. apply (disjoint j i l); [lia|exact Wl|exact Fl]. }
      destruct (run_agree (Rs j) (Ws j) q Wj m' m A) as (Q1 & Q2).
      split; [rewrite Q1; exact Rj|]. intros l Fl. rewrite (Q2 l Fl). apply Mj. exact Fl.
  Qed.

  Lemma Inv_crun sched c : Inv c -> Inv (crun sched c).
  Proof.
    unfold crun. revert c. induction sched as [|i s IH]; intros c H; cbn [fold_left]; [exact H|].
    apply IH. apply Inv_step. exact H.
  Qed.

  (* (1) sequential equivalence: whatever the interleaving, a call that has
     finished returned exactly its solo result, and the memory inside its
     footprint is what the solo run leaves *)
  Theorem interleaving_sequentially_equivalent sched i p0 r :
    nth_error ps0 i = Some p0 ->
    nth_error (snd (crun sched (m0, ps0))) i = Some (Ret r) ->
    r = snd (run m0 p0) /\
    forall l, Fs i l -> fst (crun sched (m0, ps0)) l = fst (run m0 p0) l.
  Proof.
    intros H0 H. pose proof (Inv_crun sched (m0, ps0) Inv_init) as I.
    destruct (crun sched (m0, ps0)) as [m ps]. cbn [fst snd] in *. destruct I as [L I].
    destruct (I i (Ret r) p0 H H0) as (_ & A & B). cbn [run snd fst] in *. split; assumption.
  Qed.

  (* (2) race freedom: in no reachable configuration do two threads have
     conflicting next accesses *)
  Theorem interleaving_race_free sched : ~ races (snd (crun sched (m0, ps0))).
  Proof.
    pose proof (Inv_crun sched (m0, ps0) Inv_init) as I.
    destruct (crun sched (m0, ps0)) as [m ps]. cbn [snd]. destruct I as [L I].
    intros (i & j & pi & pj & l & wi & wj & NE & Hi & Hj & Ai & Aj & C).
    assert (Pi : exists p0, nth_error ps0 i = Some p0).
    { destruct (nth_error ps0 i) eqn:E0; [eexists; reflexivity|].
      apply nth_error_None in E0. assert (i < length ps) by (apply nth_error_Some; congruence). lia. }
    assert (Pj : exists p0, nth_error ps0 j = Some p0).
    { destruct (nth_error ps0 j) eqn:E0; [eexists; reflexivity|].
      apply nth_error_None in E0. assert (j < length ps) by (apply nth_error_Some; congruence). lia. }
    destruct Pi as [pi0 Ei]. destruct Pj as [pj0 Ej].
    destruct (I i pi pi0 Hi Ei) as (Wi & _ & _). destruct (I j pj pj0 Hj Ej) as (Wj & _ & _).
    destruct (next_access_within _ _ _ _ _ Wi Ai) as (Fi & Wri).
    destruct (next_access_within _ _ _ _ _ Wj Aj) as (Fj & Wrj).
    destruct C as [C|C].
    - apply (disjoint j i l); [lia|apply Wri; exact C|exact Fj].
    - apply (disjoint i j l); [exact NE|apply Wrj; exact C|exact Fi].
  Qed.
End Threads.
