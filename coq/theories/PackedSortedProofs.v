(* PackedSortedProofs.v — the sorted packed array refines the reference sorted
   list of PackedSpec.v: every operation, then every history (fold over the
   operation list). *)
Require Import VV.Base VV.BaseProofs VV.Packed VV.PackedLemmas VV.PackedProofs VV.PackedLoopProofs
  VV.PackedSpec VV.PackedSpecProofs VV.PackedRun.
From Coq Require Import Lia ZifyBool ZifyN ZifyNat Sorted Arith.
Local Open Scope N_scope.
Ltac Zify.zify_post_hook ::= Z.div_mod_to_equations.

(* ---- the element list ---- *)
Lemma length_elems c a len : length (elems c a len) = N.to_nat len.
Proof. unfold elems. rewrite map_length, seq_length. reflexivity. Qed.

Lemma nth_map_seq (f : nat -> N) n j : (j < n)%nat -> nth j (map f (seq 0 n)) 0 = f j.
Proof.
  intro H. rewrite (nth_indep _ 0 (f O)) by (rewrite map_length, seq_length; exact H).
  rewrite map_nth. rewrite seq_nth by exact H. reflexivity.
Qed.

Lemma nth_elems c a len j : (j < N.to_nat len)%nat -> nth j (elems c a len) 0 = getv c a (N.of_nat j).
Proof. intro H. unfold elems. rewrite nth_map_seq by exact H. reflexivity. Qed.

Lemma getv_nth_elems c a len j : j < len -> getv c a j = nth (N.to_nat j) (elems c a len) 0.
Proof. intro H. rewrite nth_elems by lia. rewrite N2Nat.id. reflexivity. Qed.

Lemma elems_eq c a len xs : length xs = N.to_nat len ->
  (forall j, j < len -> getv c a j = nth (N.to_nat j) xs 0) -> elems c a len = xs.
Proof.
  intros HL H. apply (nth_ext _ _ 0 0); [rewrite length_elems; lia|].
  intros n Hn. rewrite length_elems in Hn. rewrite nth_elems by exact Hn.
  rewrite H by lia. rewrite Nat2N.id. reflexivity.
Qed.

Lemma sorted_elems_upto c a len : StronglySorted N.le (elems c a len) -> sorted_upto c a len.
Proof.
  intros H j1 j2 H1 H2. rewrite (getv_nth_elems c a len j1) by lia. rewrite (getv_nth_elems c a len j2) by lia.
  apply sorted_nth; [exact H|]. rewrite length_elems. lia.
Qed.

(* the index the binary search finds is the reference lower bound *)
Lemma found_lower_bound c a len v m : m <= len ->
  (forall j, j < m -> getv c a j < v) ->
  (forall j, m <= j -> j < len -> v <= getv c a j) ->
  lower_bound (elems c a len) v = N.to_nat m.
Proof.
  intros Hm Lo Hi. apply lower_bound_unique.
  - rewrite length_elems. lia.
  - intros j Hj. rewrite nth_elems by lia. apply Lo. lia.
  - rewrite length_elems. intro H. rewrite nth_elems by lia. rewrite N2Nat.id. apply Hi; lia.
Qed.

(* ---- search and membership on a sorted array ---- *)
Theorem search_refines c a len v : admitted c -> wf c a -> fits c a len -> len_ok c len ->
  StronglySorted N.le (elems c a len) ->
  exists t, packed_binary_search c a len v = Some (N.of_nat (lower_bound (elems c a len) v), t).
Proof.
  intros A Hwf Hfit Hok Hs.
  destruct (binary_search_spec c a len v A Hwf Hfit Hok (sorted_elems_upto c a len Hs))
    as (m & t & E & R1 & R2 & R3 & R4).
  exists t. rewrite E. rewrite (found_lower_bound c a len v m R1 R2 R3). rewrite N2Nat.id. reflexivity.
Qed.

Theorem member_refines c a len v : admitted c -> wf c a -> fits c a len -> len_ok c len ->
  StronglySorted N.le (elems c a len) ->
  exists t, packed_member c a len v = Some (find_first (elems c a len) v, t).
Proof.
  intros A Hwf Hfit Hok Hs.
  destruct (member_spec c a len v A Hwf Hfit Hok (sorted_elems_upto c a len Hs))
    as (m & t & R1 & R2 & R3 & E & R4).
  exists t. rewrite E. f_equal. f_equal.
  rewrite (find_first_sorted _ v Hs). cbv zeta.
  rewrite (found_lower_bound c a len v m R1 R2 R3), length_elems.
  destruct (N.ltb_spec m len) as [Lt|Ge].
  - replace (N.to_nat m <? N.to_nat len)%nat with true by (symmetry; apply Nat.ltb_lt; lia). cbn [andb].
    rewrite <- (getv_nth_elems c a len m Lt).
    destruct (getv c a m =? v); [lia | reflexivity].
  - replace (N.to_nat m <? N.to_nat len)%nat with false by (symmetry; apply Nat.ltb_ge; lia). reflexivity.
Qed.

(* ---- the invariant tying an array to its reference list ---- *)
Definition refines (c : pcfg) (cap : N) (a : list N) (len : N) (xs : list N) : Prop :=
  wf c a /\ fits c a cap /\ len <= cap /\ elems c a len = xs /\ StronglySorted N.le xs.

Lemma len_ok_le c cap len : len_ok c cap -> len <= cap -> len_ok c len.
Proof. unfold len_ok. intros [H1 H2] H. split; lia. Qed.

(* ---- one operation ---- *)
Lemma step_refines c cap a len xs o : admitted c -> len_ok c cap -> refines c cap a len xs ->
  (match o with SInsertSorted v => v < 2 ^ p_w c | _ => True end) ->
  (match o with SInsertSorted _ => len < cap | _ => True end) ->
  exists a' len' t,
    packed_step c (a, len) o = Some (a', len', snd (spec_step xs o), t) /\
    refines c cap a' len' (fst (spec_step xs o)) /\
    length a' = length a /\
    (forall n, cap * p_w c <= n -> abit c a' n = abit c a n) /\
    Forall (within c cap) t.
Proof.
  intros A Hcap (Hwf & Hfit & Hlen & He & Hs) Hv Hroom.
  pose proof (len_ok_le c cap len Hcap Hlen) as Hok.
  pose proof (fits_le c a cap len Hfit Hlen) as Hfl.
  assert (Hup : sorted_upto c a len) by (apply sorted_elems_upto; rewrite He; exact Hs).
  assert (HLx : length xs = N.to_nat len) by (rewrite <- He; apply length_elems).
  destruct Hcap as [C31 CL].
  destruct o as [v|v|v|v]; unfold packed_step, spec_step; cbn [fst snd].
  - (* InsertSorted *)
    destruct (binary_search_spec c a len v A Hwf Hfl Hok Hup) as (m & t & E & R1 & R2 & R3 & R4).
    unfold packed_insert_sorted. rewrite E.
    pose proof (fits_le c a cap (len + 1) Hfit ltac:(lia)) as Hf1.
    destruct (insert_spec c a len m v A Hwf Hf1 ltac:(lia) R1 Hv) as (W' & L' & G0 & G1 & G2 & G3 & Fr & Tc).
    pose proof (found_lower_bound c a len v m R1 R2 R3) as LB. rewrite He in LB.
    exists (fst (packed_insert c a len m v)), (len + 1), (t ++ snd (packed_insert c a len m v)).
    split; [reflexivity|]. split; [|split; [exact L'|split]].
    + split; [exact W'|]. split; [unfold fits in *; rewrite L'; exact Hfit|]. split; [lia|].
      split; [|apply ins_sorted; exact Hs].
      rewrite ins_insert_at, LB. apply elems_eq.
      * rewrite length_insert_at by lia. lia.
      * intros j Hj. rewrite nth_insert_at by lia.
        destruct (Nat.ltb_spec (N.to_nat j) (N.to_nat m)) as [L1|G].
        -- rewrite G1 by lia. rewrite <- He. apply getv_nth_elems. lia.
        -- destruct (Nat.eqb_spec (N.to_nat j) (N.to_nat m)) as [Eq|Ne].
           ++ replace j with m by lia. exact G0.
           ++ rewrite G2 by lia. rewrite <- He. rewrite (getv_nth_elems c a len) by lia. f_equal. lia.
    + intros n Hn. apply Fr. apply N.le_trans with (cap * p_w c); [apply N.mul_le_mono_r; lia | exact Hn].
    + apply Forall_app; split.
      * eapply Forall_impl; [|exact R4]. intros k Hk. apply (within_mono c len); [exact Hk | lia].
      * eapply Forall_impl; [|exact Tc]. intros k Hk. apply (within_mono c (len + 1)); [exact Hk | lia].
  - (* DeleteMember *)
    destruct (member_spec c a len v A Hwf Hfl Hok Hup) as (m & t & R1 & R2 & R3 & E & R4).
    pose proof (found_lower_bound c a len v m R1 R2 R3) as LB. rewrite He in LB.
    pose proof (find_first_sorted xs v Hs) as FF. cbv zeta in FF. rewrite LB, HLx in FF.
    unfold packed_delete_member. rewrite E.
    rewrite (mem_find_first xs v), FF.
    destruct (N.ltb_spec m len) as [Lt|Ge].
    + replace (N.to_nat m <? N.to_nat len)%nat with true by (symmetry; apply Nat.ltb_lt; lia). cbn [andb].
      rewrite (getv_nth_elems c a len m Lt), He.
      destruct (N.eqb_spec (nth (N.to_nat m) xs 0) v) as [Eq|Ne].
      * replace (0 <=? Z.of_N m)%Z with true by (symmetry; apply Z.leb_le; lia).
        replace (0 <=? Z.of_nat (N.to_nat m))%Z with true by (symmetry; apply Z.leb_le; lia).
        rewrite N2Z.id.
        assert (EL : len_cast c m = m) by (unfold len_cast, trunc; destruct Hok; apply N.mod_small; lia).
        rewrite EL.
        destruct (delete_spec c a len m A Hwf Hfl Hok Lt) as (W' & L' & G1 & G2 & G3 & Fr & Tc).
        exists (fst (packed_delete c a len m)), (len - 1), (t ++ snd (packed_delete c a len m)).
        split; [reflexivity|]. split; [|split; [exact L'|split]].
        -- split; [exact W'|]. split; [unfold fits in *; rewrite L'; exact Hfit|]. split; [lia|].
           split; [|apply remove_first_sorted; exact Hs].
           rewrite remove_first_delete_at by (rewrite FF;
             replace (N.to_nat m <? N.to_nat len)%nat with true by (symmetry; apply Nat.ltb_lt; lia);
             cbn [andb]; lia).
           rewrite FF.
           replace (N.to_nat m <? N.to_nat len)%nat with true by (symmetry; apply Nat.ltb_lt; lia).
           cbn [andb]. rewrite Nat2Z.id.
           apply elems_eq.
           ++ rewrite length_delete_at by lia. lia.
           ++ intros j Hj. rewrite nth_delete_at by lia.
              destruct (Nat.ltb_spec (N.to_nat j) (N.to_nat m)) as [L1|G].
              ** rewrite G1 by lia. rewrite <- He. apply getv_nth_elems. lia.
              ** rewrite G2 by lia. rewrite <- He. rewrite (getv_nth_elems c a len) by lia. f_equal. lia.
        -- intros n Hn. apply Fr. apply N.le_trans with (cap * p_w c); [apply N.mul_le_mono_r; lia | exact Hn].
        -- apply Forall_app; split.
           ++ eapply Forall_impl; [|exact R4]. intros k Hk. apply (within_mono c len); [exact Hk | lia].
           ++ eapply Forall_impl; [|exact Tc]. intros k Hk. apply (within_mono c len); [exact Hk | lia].
      * cbn [andb]. change (0 <=? -1)%Z with false. cbv iota.
        exists a, len, t. split; [reflexivity|]. split; [|split; [reflexivity|split]].
        -- rewrite remove_first_absent.
           ++ repeat split; assumption.
           ++ rewrite mem_find_first, FF.
              replace (N.to_nat m <? N.to_nat len)%nat with true by (symmetry; apply Nat.ltb_lt; lia).
              reflexivity.
        -- reflexivity.
        -- eapply Forall_impl; [|exact R4]. intros k Hk. apply (within_mono c len); [exact Hk | lia].
    + replace (N.to_nat m <? N.to_nat len)%nat with false by (symmetry; apply Nat.ltb_ge; lia). cbn [andb].
      change (0 <=? -1)%Z with false. cbv iota.
      exists a, len, t. split; [reflexivity|]. split; [|split; [reflexivity|split]].
      * rewrite remove_first_absent.
        -- repeat split; assumption.
        -- rewrite mem_find_first, FF.
           replace (N.to_nat m <? N.to_nat len)%nat with false by (symmetry; apply Nat.ltb_ge; lia).
           reflexivity.
      * reflexivity.
      * eapply Forall_impl; [|exact R4]. intros k Hk. apply (within_mono c len); [exact Hk | lia].
  - (* Member *)
    destruct (member_spec c a len v A Hwf Hfl Hok Hup) as (m & t & R1 & R2 & R3 & E & R4).
    pose proof (found_lower_bound c a len v m R1 R2 R3) as LB. rewrite He in LB.
    pose proof (find_first_sorted xs v Hs) as FF. cbv zeta in FF. rewrite LB, HLx in FF.
    rewrite E. exists a, len, t. split; [|split; [|split; [reflexivity|split]]].
    + f_equal. f_equal. f_equal. rewrite FF.
      destruct (N.ltb_spec m len) as [Lt|Ge].
      * replace (N.to_nat m <? N.to_nat len)%nat with true by (symmetry; apply Nat.ltb_lt; lia). cbn [andb].
        rewrite (getv_nth_elems c a len m Lt), He.
        destruct (nth (N.to_nat m) xs 0 =? v); [lia | reflexivity].
      * replace (N.to_nat m <? N.to_nat len)%nat with false by (symmetry; apply Nat.ltb_ge; lia). reflexivity.
    + repeat split; assumption.
    + reflexivity.
    + eapply Forall_impl; [|exact R4]. intros k Hk. apply (within_mono c len); [exact Hk | lia].
  - (* BinarySearch *)
    destruct (binary_search_spec c a len v A Hwf Hfl Hok Hup) as (m & t & E & R1 & R2 & R3 & R4).
    pose proof (found_lower_bound c a len v m R1 R2 R3) as LB. rewrite He in LB.
    rewrite E. exists a, len, t. split; [|split; [|split; [reflexivity|split]]].
    + f_equal. f_equal. f_equal. rewrite LB. lia.
    + repeat split; assumption.
    + reflexivity.
    + eapply Forall_impl; [|exact R4]. intros k Hk. apply (within_mono c len); [exact Hk | lia].
Qed.

(* ---- every history ---- *)
Theorem run_refines c cap ops : admitted c -> len_ok c cap ->
  forall a len xs, refines c cap a len xs ->
  Forall (fun o => match o with SInsertSorted v => v < 2 ^ p_w c | _ => True end) ops ->
  spec_fits (N.to_nat cap) xs ops ->
  exists a' len' t,
    packed_run c (a, len) ops = Some (a', len', snd (spec_run xs ops), t) /\
    refines c cap a' len' (fst (spec_run xs ops)) /\
    length a' = length a /\
    (forall n, cap * p_w c <= n -> abit c a' n = abit c a n) /\
    Forall (within c cap) t.
Proof.
  intros A Hcap. induction ops as [|o rest IH]; intros a len xs R Hv Hf.
  - exists a, len, []. cbn [packed_run spec_run fst snd]. repeat split; auto. apply R. apply R. apply R. apply R. apply R.
  - inversion Hv as [|? ? Hv1 Hv2]; subst. cbn [spec_fits] in Hf. destruct Hf as [Hroom Hf].
    assert (HLx : length xs = N.to_nat len).
    { destruct R as (_ & _ & _ & He & _). rewrite <- He. apply length_elems. }
    destruct (step_refines c cap a len xs o A Hcap R Hv1) as (a1 & len1 & t1 & E1 & R1 & L1 & F1 & T1).
    { destruct o; auto. lia. }
    destruct (IH a1 len1 (fst (spec_step xs o)) R1 Hv2 Hf) as (a2 & len2 & t2 & E2 & R2 & L2 & F2 & T2).
    exists a2, len2, (t1 ++ t2). cbn [packed_run spec_run]. rewrite E1, E2.
    destruct (spec_step xs o) as [xs1 r]. cbn [fst snd] in *.
    destruct (spec_run xs1 rest) as [xs2 rs]. cbn [fst snd] in *.
    split; [reflexivity|]. split; [exact R2|]. split; [lia|]. split.
    + intros n Hn. rewrite F2 by exact Hn. apply F1. exact Hn.
    + apply Forall_app; split; assumption.
Qed.

(* ---- positional Insert / Delete as list operations ---- *)
Theorem insert_refines c a len off v : admitted c -> wf c a -> fits c a (len + 1) -> len < 2147483648 ->
  off <= len -> v < 2 ^ p_w c ->
  elems c (fst (packed_insert c a len off v)) (len + 1) = insert_at (elems c a len) (N.to_nat off) v.
Proof.
  intros A Hwf Hfit Hlen Hoff Hv.
  destruct (insert_spec c a len off v A Hwf Hfit Hlen Hoff Hv) as (W' & L' & G0 & G1 & G2 & G3 & Fr & Tc).
  apply elems_eq.
  - rewrite length_insert_at by (rewrite length_elems; lia). rewrite length_elems. lia.
  - intros j Hj. rewrite nth_insert_at by (rewrite length_elems; lia).
    destruct (Nat.ltb_spec (N.to_nat j) (N.to_nat off)) as [L1|G].
    + rewrite G1 by lia. apply getv_nth_elems. lia.
    + destruct (Nat.eqb_spec (N.to_nat j) (N.to_nat off)) as [Eq|Ne].
      * replace j with off by lia. exact G0.
      * rewrite G2 by lia. rewrite (getv_nth_elems c a len) by lia. f_equal. lia.
Qed.

Theorem delete_refines c a len off : admitted c -> wf c a -> fits c a len -> len_ok c len ->
  off < len ->
  elems c (fst (packed_delete c a len off)) (len - 1) = delete_at (elems c a len) (N.to_nat off).
Proof.
  intros A Hwf Hfit Hok Hoff.
  destruct (delete_spec c a len off A Hwf Hfit Hok Hoff) as (W' & L' & G1 & G2 & G3 & Fr & Tc).
  apply elems_eq.
  - rewrite length_delete_at by (rewrite length_elems; lia). rewrite length_elems. lia.
  - intros j Hj. rewrite nth_delete_at by (rewrite length_elems; lia).
    destruct (Nat.ltb_spec (N.to_nat j) (N.to_nat off)) as [L1|G].
    + rewrite G1 by lia. apply getv_nth_elems. lia.
    + rewrite G2 by lia. rewrite (getv_nth_elems c a len) by lia. f_equal. lia.
Qed.
