(* Properties_C13_rle_src.v — C13 (decoders never write beyond the caller's
   output capacity) stated about the functions regenerated from the current
   src/varintRLE.c by gen/c2coq.py (coq/gen/Src_rle.v).  The output array
   `uint64_t *values` is a list of Z; every store is checked (CSem.c_zstore): a
   store at an index >= the length of the list is the outcome COob.  Handing the
   decoder a list of EXACTLY maxCount elements therefore makes "never stores at
   or beyond maxCount" the statement "the outcome is never COob". *)
Require Import VV.Base VV.Tagged VV.CSem VV.RleSrc2Decode VV.RleSrc2Header.
Require Import VVgen.Src_rle.
Local Open Scope Z_scope.

(* varintRLEDecode(src, values, maxCount) on ANY bytes z — valid, truncated,
   hostile — with 18 readable bytes per element of capacity (the C function has no
   source bound; its loop reads at most maxCount runs of two tagged varints of at
   most 9 bytes each), ANY output list of exactly cap elements and fuel above cap:
   the outcome is a count n <= cap and an output list of unchanged length.  Not
   COob: no store at or beyond the capacity; not CUB; not CFuel. *)
Theorem C13_src_rle_decode_cap_any_input : forall fuel z vals (cap : nat),
  bytes_ok z -> length vals = cap -> Z.of_nat cap < 18446744073709551616 ->
  18 * Z.of_nat cap <= Z.of_nat (length z) -> (cap < fuel)%nat ->
  exists n vals', src_varintRLEDecode fuel z vals (Z.of_nat cap) = COk (n, vals') /\
    0 <= n <= Z.of_nat cap /\ length vals' = cap.
Proof. exact src_varintRLEDecode_cap. Qed.
Print Assumptions C13_src_rle_decode_cap_any_input.

(* varintRLEDecodeWithHeader(src, values, maxCount) is all-or-nothing: a header
   count above maxCount -> it returns 0 and the output list is untouched (ANY bytes
   after the header, any fuel) *)
Theorem C13_src_rle_header_nothing : forall fuel z vals cap,
  bytes_ok z -> 9 <= Z.of_nat (length z) -> 0 <= cap < Z.of_N (snd (tagged_get64 z)) ->
  src_varintRLEDecodeWithHeader fuel z vals cap = COk (0, vals).
Proof. exact src_varintRLEDecodeWithHeader_nothing. Qed.
Print Assumptions C13_src_rle_header_nothing.

(* ... and on ANY bytes z it never stores at or beyond the capacity.  Its loop
   `while (decoded < totalCount && decoded < maxCount)` does not advance on a run of
   length 0, so on hostile bytes the number of iterations is not bounded by the
   capacity (the C goes on reading: that is a source-bound matter, C14); the
   statement is therefore per fuel = number of iterations looked at, with the 9
   header bytes and 18 bytes per iteration readable, so that no load can be COob:
   the outcome is a count n <= cap with an output list of unchanged length, or "out
   of fuel" — never COob, i.e. none of the first `fuel` iterations (for every
   fuel) stores at an index >= cap; never CUB *)
Theorem C13_src_rle_header_cap_any_input : forall fuel z vals (cap : nat),
  bytes_ok z -> length vals = cap -> Z.of_nat cap < 18446744073709551616 ->
  9 + 18 * Z.of_nat fuel <= Z.of_nat (length z) ->
  src_varintRLEDecodeWithHeader fuel z vals (Z.of_nat cap) = CFuel \/
  exists n vals', src_varintRLEDecodeWithHeader fuel z vals (Z.of_nat cap) = COk (n, vals') /\
    0 <= n <= Z.of_nat cap /\ length vals' = cap.
Proof. exact src_varintRLEDecodeWithHeader_cap. Qed.
Print Assumptions C13_src_rle_header_cap_any_input.

(* non-vacuity: a stream of 3+2 values (then the end marker) decoded into a
   capacity of 4 stores 4; the same call with an output list one element short of
   maxCount IS the outcome COob in this semantics (so "never COob" says something) *)
Example C13_src_rle_example :
  src_varintRLEDecode 5 ([3; 7; 2; 9; 0; 0]%N ++ repeat 0%N 72) [0; 0; 0; 0] 4 = COk (4, [7; 7; 7; 9]) /\
  src_varintRLEDecode 5 ([3; 7; 2; 9; 0; 0]%N ++ repeat 0%N 72) [0; 0; 0] 4 = COob /\
  (* header 5 > capacity 4: nothing; header 4 (a lie: the runs hold 5), capacity 4: 4 stores;
     the same with a list one short: COob; runs of length 0 for ever: out of fuel *)
  src_varintRLEDecodeWithHeader 5 ([5; 3; 7; 2; 9]%N ++ repeat 0%N 99) [0; 0; 0; 0] 4 = COk (0, [0; 0; 0; 0]) /\
  src_varintRLEDecodeWithHeader 5 ([4; 3; 7; 2; 9]%N ++ repeat 0%N 99) [0; 0; 0; 0] 4 = COk (4, [7; 7; 7; 9]) /\
  src_varintRLEDecodeWithHeader 5 ([4; 3; 7; 2; 9]%N ++ repeat 0%N 99) [0; 0; 0] 4 = COob /\
  src_varintRLEDecodeWithHeader 5 ([4; 3; 7]%N ++ repeat 0%N 99) [0; 0; 0; 0] 4 = CFuel.
Proof. vm_compute. repeat split; reflexivity. Qed.
