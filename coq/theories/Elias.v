(* Elias.v — Gallina model of /repo/src/varintElias.c and the inline
   functions of varintElias.h (Elias gamma / delta codes), as of the `fix:`
   commit that bounds the decoders by the declared bit count (F13).
   One definition per C function, same case structure.  The bit writer /
   reader are in EliasBits.v.  Proofs are in EliasProofs*.v. *)
Require Import VV.Base VV.EliasBits.
Local Open Scope N_scope.

(* floorLog2: while (value > 1) { value >>= 1; log++; }   (N.div2 v = v / 2; fuel 64 >= the 63
   iterations a uint64_t can take; with NDEBUG the assert(value > 0) is gone
   and floorLog2(0) = 0) *)
Fixpoint floor_log2_loop (fuel : nat) (value log : N) : N :=
  match fuel with
  | O => log
  | S f => if 1 <? value then floor_log2_loop f (N.div2 value) (log + 1) else log
  end.
Definition floor_log2 (value : N) : N := floor_log2_loop 64 value 0.

(* varintEliasGammaBits *)
Definition elias_gamma_bits (value : N) : N := 2 * floor_log2 value + 1.

(* for (i = 0; i < n; i++) varintBitWriterWrite(w, 0, 1); *)
Fixpoint bw_zeros (w : bitw) (n : nat) : bitw :=
  match n with
  | O => w
  | S k => bw_zeros (bw_write w 0 1) k
  end.

(* varintEliasGammaEncode: (writer after, bits written) *)
Definition elias_gamma_encode (w : bitw) (value : N) : bitw * N :=
  let n := floor_log2 value in
  let w1 := bw_zeros w (N.to_nat n) in
  let w2 := bw_write w1 value (N.to_nat (n + 1)) in
  (w2, 2 * n + 1).

(* the zero-counting loop of varintEliasGammaDecode:
     for (;;) { if (!HasMore(r,1)) return 0;
                if (Read(r,1) != 0) break;
                n++; if (n > 63) return 0; }
   Result (true, n, r) = left by `break`; (false, _, r) = `return 0`.
   n grows by one per iteration and the loop leaves when it exceeds 63, so 64
   iterations suffice; the out-of-fuel branch is unreachable from n = 0. *)
Fixpoint elias_gamma_count (fuel : nat) (r : bitr) (n : N) : bool * N * bitr :=
  match fuel with
  | O => (false, n, r)
  | S f =>
      if negb (br_has_more r 1) then (false, n, r)
      else
        let (v, r1) := br_read r 1 in
        if negb (v =? 0) then (true, n, r1)
        else
          let n1 := n + 1 in
          if 63 <? n1 then (false, n1, r1) else elias_gamma_count f r1 n1
  end.

(* varintEliasGammaDecode: (value, reader after); value 0 = decode error *)
Definition elias_gamma_decode (r : bitr) : N * bitr :=
  match elias_gamma_count 64 r 0 with
  | (false, _, r1) => (0, r1)
  | (true, n, r1) =>
      if n =? 0 then (1, r1)
      else if negb (br_has_more r1 n) then (0, r1)
      else
        let (remaining, r2) := br_read r1 (N.to_nat n) in
        (N.lor (shl64 1 n) remaining, r2)
  end.

(* varintEliasDeltaBits *)
Definition elias_delta_bits (value : N) : N :=
  let n := floor_log2 value in
  let lenN := n + 1 in
  elias_gamma_bits lenN + n.

(* varintEliasDeltaEncode *)
Definition elias_delta_encode (w : bitw) (value : N) : bitw * N :=
  let n := floor_log2 value in
  let lenN := n + 1 in
  let (w1, gammaBits) := elias_gamma_encode w lenN in
  let w2 :=
    if 0 <? n
    then bw_write w1 (N.land value (shl64 1 n - 1)) (N.to_nat n)
    else w1 in
  (w2, gammaBits + n).

(* varintEliasDeltaDecode *)
Definition elias_delta_decode (r : bitr) : N * bitr :=
  let (lenN, r1) := elias_gamma_decode r in
  if (lenN =? 0) || (64 <? lenN) then (0, r1)
  else
    let n := lenN - 1 in
    if n =? 0 then (1, r1)
    else if negb (br_has_more r1 n) then (0, r1)
    else
      let (remaining, r2) := br_read r1 (N.to_nat n) in
      (N.lor (shl64 1 n) remaining, r2).

(* varintEliasGammaMaxBytes / varintEliasDeltaMaxBytes (size_t arithmetic) *)
Definition elias_gamma_max_bytes (count : N) : N := add64 (mul64 count 127) 7 / 8.
Definition elias_delta_max_bytes (count : N) : N := add64 (mul64 count 76) 7 / 8.

(* result of an array encoder: bytes dst[0 .. return value), the return
   value, the varintEliasMeta fields, the extent of dst the call touches (the
   memset of varintBitWriterInit) and whether a bit was placed beyond it *)
Record elias_enc := mk_elias_enc {
  ee_bytes : list N;
  ee_ret : N;
  ee_count : N;
  ee_totalBits : N;
  ee_encodedBytes : N;
  ee_extent : N;
  ee_ovf : bool
}.

Definition elias_encode_array (enc : bitw -> N -> bitw * N) (maxb : N -> N)
    (values : list N) : elias_enc :=
  let count := N.of_nat (length values) in
  let w0 := bw_init (maxb count) in
  let '(w, totalBits) :=
    fold_left (fun (st : bitw * N) v =>
                 let (w', b) := enc (fst st) v in (w', snd st + b))
              values (w0, 0) in
  mk_elias_enc (bw_buffer w) (bw_bytes w) count totalBits (bw_bytes w)
               (maxb count) (bw_ovf w).

(* varintEliasGammaEncodeArray / varintEliasDeltaEncodeArray *)
Definition elias_gamma_encode_array := elias_encode_array elias_gamma_encode elias_gamma_max_bytes.
Definition elias_delta_encode_array := elias_encode_array elias_delta_encode elias_delta_max_bytes.

(* while (decoded < maxCount && HasMore(&reader, 1)) {
     value = Decode(&reader); if (value == 0) break; values[decoded++] = value; }
   The result is the list of values stored, in order: values[i] for
   i < length result, and `decoded` = its length; nothing else is stored. *)
Fixpoint elias_decode_loop (dec : bitr -> N * bitr) (r : bitr) (maxCount : nat) : list N :=
  match maxCount with
  | O => []
  | S c =>
      if br_has_more r 1 then
        let (value, r') := dec r in
        if value =? 0 then [] else value :: elias_decode_loop dec r' c
      else []
  end.

(* varintEliasGammaDecodeArray / varintEliasDeltaDecodeArray *)
Definition elias_gamma_decode_array (src : list N) (srcBits : N) (maxCount : nat) : list N :=
  elias_decode_loop elias_gamma_decode (br_init src srcBits) maxCount.
Definition elias_delta_decode_array (src : list N) (srcBits : N) (maxCount : nat) : list N :=
  elias_decode_loop elias_delta_decode (br_init src srcBits) maxCount.

(* varintEliasGammaIsBeneficial / varintEliasDeltaIsBeneficial:
   None = the early `return false` on a value < 1 *)
Fixpoint elias_sum_bits (bits : N -> N) (values : list N) (totalBits : N) : option N :=
  match values with
  | [] => Some totalBits
  | v :: t => if v <? 1 then None else elias_sum_bits bits t (totalBits + bits v)
  end.
Definition elias_is_beneficial (bits : N -> N) (values : list N) : bool :=
  match elias_sum_bits bits values 0 with
  | None => false
  | Some totalBits =>
      let encodedBytes := (totalBits + 7) / 8 in
      encodedBytes <? mul64 (N.of_nat (length values)) 8
  end.
Definition elias_gamma_is_beneficial := elias_is_beneficial elias_gamma_bits.
Definition elias_delta_is_beneficial := elias_is_beneficial elias_delta_bits.

(* EXTRACT: floor_log2 elias_gamma_bits elias_gamma_encode elias_gamma_decode
   elias_delta_bits elias_delta_encode elias_delta_decode
   elias_gamma_max_bytes elias_delta_max_bytes
   elias_gamma_encode_array elias_delta_encode_array
   elias_gamma_decode_array elias_delta_decode_array
   elias_gamma_is_beneficial elias_delta_is_beneficial *)
