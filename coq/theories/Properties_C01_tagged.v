(* Properties_C01_tagged.v — C01 for the tagged family (varintTagged.{c,h}). *)
Require Import VV.Base VV.BaseProofs VV.Tagged VV.TaggedProofs VV.TaggedSpecProofs VV.TaggedFixed.
Local Open Scope N_scope.

(* decoding the encoder's bytes (followed by anything) returns the value and
   the predicted length, for every 64-bit value *)
Theorem C01_tagged_roundtrip : forall x tl n,
  x < 18446744073709551616 -> (Z.of_N (tagged_len x) <= n)%Z ->
  tagged_get (tagged_put64 x ++ tl) n = (tagged_len x, x).
Proof. exact tagged_roundtrip. Qed.
Print Assumptions C01_tagged_roundtrip.

(* encoder's byte count = predicted length = length read back from byte 0 *)
Theorem C01_tagged_len_put : forall x, N.of_nat (length (tagged_put64 x)) = tagged_len x.
Proof. exact tagged_put_length. Qed.
Print Assumptions C01_tagged_len_put.

Theorem C01_tagged_getlen : forall x tl, x < 18446744073709551616 ->
  tagged_getlen (tagged_put64 x ++ tl) = tagged_len x.
Proof. exact tagged_getlen_put. Qed.
Print Assumptions C01_tagged_getlen.

Theorem C01_tagged_len_quick : forall x, tagged_len_quick x = tagged_len x.
Proof. exact tagged_len_quick_eq. Qed.
Print Assumptions C01_tagged_len_quick.

Theorem C01_tagged_len_range : forall x, 1 <= tagged_len x <= 9.
Proof. exact tagged_len_range. Qed.
Print Assumptions C01_tagged_len_range.

(* fixed-width writer: every legal (value, width) pair decodes to the value
   with exactly that width *)
Theorem C01_tagged_fixed_roundtrip : forall x w tl,
  x < 18446744073709551616 ->
  ((w = 1 /\ x <= 240) \/ (w = 2 /\ 240 <= x <= 2287) \/ (w = 3 /\ 2288 <= x <= 67823) \/
   (4 <= w <= 9 /\ x < 256 ^ (w - 1))) ->
  exists bs, tagged_put64_fixed x w = Some bs /\ N.of_nat (length bs) = w /\
             tagged_get (bs ++ tl) (Z.of_N w) = (w, x).
Proof. exact tagged_fixed_roundtrip. Qed.
Print Assumptions C01_tagged_fixed_roundtrip.

(* quick macros agree with the functions *)
Theorem C01_tagged_fixed_quick : forall x w,
  tagged_put64_fixed_quick x w = tagged_put64_fixed x w.
Proof. exact tagged_put64_fixed_quick_eq. Qed.
Print Assumptions C01_tagged_fixed_quick.

Theorem C01_tagged_get_quick : forall x tl, x < 18446744073709551616 ->
  tagged_get64_quick (tagged_put64 x ++ tl) = x.
Proof. exact tagged_get64_quick_put. Qed.
Print Assumptions C01_tagged_get_quick.

(* 32-bit entry points *)
Theorem C01_tagged_32 : forall x tl, x < 4294967296 ->
  tagged_get32 (tagged_put32 x ++ tl) = (tagged_len x, x).
Proof. exact tagged_get32_put32. Qed.
Print Assumptions C01_tagged_32.

Example C01_tagged_example :
  tagged_get (tagged_put64 18446744073709551615 ++ [7]) 9 = (9, 18446744073709551615) /\
  tagged_put64_fixed 5 9 = Some [255; 0; 0; 0; 0; 0; 0; 0; 5].
Proof. vm_compute. split; reflexivity. Qed.
