(* EliasDecProofs.v — the decoders, seen as functions of the declared bits
   only (a_* on bit lists), refine the concrete readers (dec_refines); on bit
   lists they invert the codes (a_gamma_rt, a_delta_rt) and the array loop
   returns the prefix its capacity admits (a_loop_codes). *)
Require Import VV.Base VV.BaseProofs VV.EliasBits VV.Elias VV.EliasSpec
  VV.EliasBitsProofs VV.EliasReadProofs VV.EliasEncProofs.
From Coq Require Import Lia ZifyBool ZifyN ZifyNat Arith.
Local Open Scope N_scope.
Ltac Zify.zify_post_hook ::= Z.div_mod_to_equations.

(* ------------------------------------------------------------------ decoders on bit lists *)

Definition a_has (l : list bool) (n : N) : bool := n <=? N.of_nat (length l).

Fixpoint a_gamma_count (fuel : nat) (l : list bool) (n : N) : bool * N * list bool :=
  match fuel with
  | O => (false, n, l)
  | S f =>
      match l with
      | [] => (false, n, l)
      | b :: l1 =>
          if b then (true, n, l1)
          else let n1 := n + 1 in
               if 63 <? n1 then (false, n1, l1) else a_gamma_count f l1 n1
      end
  end.

Definition a_tail (n : N) (l1 : list bool) : N * list bool :=
  if n =? 0 then (1, l1)
  else if negb (a_has l1 n) then (0, l1)
  else (2 ^ n + val_msb (firstn (N.to_nat n) l1), skipn (N.to_nat n) l1).

Definition a_gamma_decode (l : list bool) : N * list bool :=
  match a_gamma_count 64 l 0 with
  | (false, _, l1) => (0, l1)
  | (true, n, l1) => a_tail n l1
  end.

Definition a_delta_decode (l : list bool) : N * list bool :=
  let (lenN, l1) := a_gamma_decode l in
  if (lenN =? 0) || (64 <? lenN) then (0, l1) else a_tail (lenN - 1) l1.

Fixpoint a_loop (adec : list bool -> N * list bool) (l : list bool) (cap : nat) : list N :=
  match cap with
  | O => []
  | S c =>
      if a_has l 1 then
        let (v, l') := adec l in
        if v =? 0 then [] else v :: a_loop adec l' c
      else []
  end.

(* ------------------------------------------------------------------ refinement *)

Definition dec_refines (dec : bitr -> N * bitr) (adec : list bool -> N * list bool) : Prop :=
  forall r buf l, br_rep r buf l ->
    fst (dec r) = fst (adec l) /\ br_rep (snd (dec r)) buf (snd (adec l)).

Lemma gamma_count_refines fuel : forall r buf l n, br_rep r buf l ->
  fst (fst (elias_gamma_count fuel r n)) = fst (fst (a_gamma_count fuel l n)) /\
  snd (fst (elias_gamma_count fuel r n)) = snd (fst (a_gamma_count fuel l n)) /\
  br_rep (snd (elias_gamma_count fuel r n)) buf (snd (a_gamma_count fuel l n)).
Proof.
  induction fuel; intros r buf l n Hr; cbn [elias_gamma_count a_gamma_count].
  - cbn [fst snd]. auto.
  - rewrite (br_has_more_spec r buf l 1 Hr) by lia.
    destruct l as [|b l1].
    + cbn [length N.of_nat N.leb N.compare negb fst snd]. auto.
    + replace (1 <=? N.of_nat (length (b :: l1))) with true by (cbn [length]; lia).
      cbn [negb].
      destruct (br_rep_read r buf (b :: l1) 1 Hr) as [Hv Hr']; [cbn [length]; lia|lia|].
      destruct (br_read r 1) as [v r1]. cbn [fst snd firstn skipn val_msb length] in Hv, Hr'.
      destruct b; cbn [N.b2n] in Hv.
      * replace (v =? 0) with false by lia. cbn [negb fst snd]. auto.
      * replace (v =? 0) with true by lia. cbn [negb].
        destruct (63 <? n + 1).
        -- cbn [fst snd]. auto.
        -- apply IHfuel. assumption.
Qed.

Lemma a_gamma_count_le fuel : forall l n, n <= 63 ->
  fst (fst (a_gamma_count fuel l n)) = true -> snd (fst (a_gamma_count fuel l n)) <= 63.
Proof.
  induction fuel; intros l n Hn; cbn [a_gamma_count].
  - cbn [fst]. discriminate.
  - destruct l as [|b l1]; [cbn [fst]; discriminate|].
    destruct b; [cbn [fst snd]; auto|].
    destruct (63 <? n + 1) eqn:E; [cbn [fst]; discriminate|].
    apply IHfuel. lia.
Qed.

(* the common end of both decoders: n remainder bits after a leading 1 *)
Lemma tail_refines r buf l n : br_rep r buf l -> n <= 63 ->
  let res := if n =? 0 then (1, r)
             else if negb (br_has_more r n) then (0, r)
             else let (remaining, r2) := br_read r (N.to_nat n) in
                  (N.lor (shl64 1 n) remaining, r2) in
  fst res = fst (a_tail n l) /\ br_rep (snd res) buf (snd (a_tail n l)).
Proof.
  intros Hr Hn. cbv zeta. unfold a_tail, a_has.
  destruct (n =? 0); [cbn [fst snd]; auto|].
  rewrite (br_has_more_spec r buf l n Hr) by lia.
  destruct (n <=? N.of_nat (length l)) eqn:E; cbn [negb]; [|cbn [fst snd]; auto].
  destruct (br_rep_read r buf l (N.to_nat n) Hr) as [Hv Hr']; [lia|lia|].
  destruct (br_read r (N.to_nat n)) as [rem r2]. cbn [fst snd] in *.
  split; [|assumption].
  rewrite shl64_1 by lia. rewrite Hv.
  pose proof (val_msb_lt (firstn (N.to_nat n) l)) as Hlt.
  rewrite firstn_length, Nat.min_l, N2Nat.id in Hlt by lia.
  pose proof (lor_add_disjoint 1 _ n Hlt) as Hl. rewrite N.mul_1_l in Hl. exact Hl.
Qed.

Lemma gamma_decode_refines : dec_refines elias_gamma_decode a_gamma_decode.
Proof.
  intros r buf l Hr. unfold elias_gamma_decode, a_gamma_decode.
  destruct (gamma_count_refines 64 r buf l 0 Hr) as (H1 & H2 & H3).
  pose proof (a_gamma_count_le 64 l 0 ltac:(lia)) as Hle.
  destruct (elias_gamma_count 64 r 0) as [[ok n] r1].
  destruct (a_gamma_count 64 l 0) as [[ok' n'] l1]. cbn [fst snd] in *. subst ok' n'.
  destruct ok; [|cbn [fst snd]; auto].
  apply (tail_refines r1 buf l1 n H3). auto.
Qed.

Lemma a_tail_value n l : n <= 63 -> fst (a_tail n l) < 18446744073709551616.
Proof.
  intros Hn. unfold a_tail, a_has.
  destruct (n =? 0); [cbn; lia|].
  destruct (n <=? N.of_nat (length l)) eqn:E; cbn [negb fst]; [|lia].
  pose proof (val_msb_lt (firstn (N.to_nat n) l)) as Hlt.
  rewrite firstn_length, Nat.min_l, N2Nat.id in Hlt by lia.
  assert (2 ^ n + 2 ^ n <= 2 ^ 64); [|change (2 ^ 64) with 18446744073709551616 in *; lia].
  replace (2 ^ n + 2 ^ n) with (2 ^ N.succ n) by (rewrite N.pow_succ_r'; lia).
  apply N.pow_le_mono_r; lia.
Qed.

Lemma a_gamma_value l : fst (a_gamma_decode l) < 18446744073709551616.
Proof.
  unfold a_gamma_decode.
  pose proof (a_gamma_count_le 64 l 0 ltac:(lia)) as Hle.
  destruct (a_gamma_count 64 l 0) as [[ok n] l1]. cbn [fst snd] in Hle.
  destruct ok; [|cbn; lia]. apply a_tail_value. auto.
Qed.

Lemma delta_decode_refines : dec_refines elias_delta_decode a_delta_decode.
Proof.
  intros r buf l Hr. unfold elias_delta_decode, a_delta_decode.
  destruct (gamma_decode_refines r buf l Hr) as (H1 & H2).
  destruct (elias_gamma_decode r) as [lenN r1].
  destruct (a_gamma_decode l) as [lenN' l1]. cbn [fst snd] in *. subst lenN'.
  destruct ((lenN =? 0) || (64 <? lenN)) eqn:E; [cbn [fst snd]; auto|].
  apply (tail_refines r1 buf l1 (lenN - 1) H2). lia.
Qed.

Lemma loop_refines dec adec : dec_refines dec adec ->
  forall cap r buf l, br_rep r buf l -> elias_decode_loop dec r cap = a_loop adec l cap.
Proof.
  intros Hd. induction cap; intros r buf l Hr; cbn [elias_decode_loop a_loop]; [reflexivity|].
  rewrite (br_has_more_spec r buf l 1 Hr) by lia. unfold a_has.
  destruct (1 <=? N.of_nat (length l)); [|reflexivity].
  destruct (Hd r buf l Hr) as [Hv Hr'].
  destruct (dec r) as [v r']. destruct (adec l) as [v' l']. cbn [fst snd] in *. subst v'.
  destruct (v =? 0); [reflexivity|]. f_equal. apply IHcap with (buf := buf). assumption.
Qed.

(* the array decoders are functions of the declared bits alone *)
Lemma gamma_decode_array_abs buf bits cap : bits + 64 < 18446744073709551616 ->
  elias_gamma_decode_array buf bits cap = a_loop a_gamma_decode (bits_of buf 0 (N.to_nat bits)) cap.
Proof.
  intros H. unfold elias_gamma_decode_array.
  apply (loop_refines _ _ gamma_decode_refines cap _ buf). apply br_rep_init. assumption.
Qed.

Lemma delta_decode_array_abs buf bits cap : bits + 64 < 18446744073709551616 ->
  elias_delta_decode_array buf bits cap = a_loop a_delta_decode (bits_of buf 0 (N.to_nat bits)) cap.
Proof.
  intros H. unfold elias_delta_decode_array.
  apply (loop_refines _ _ delta_decode_refines cap _ buf). apply br_rep_init. assumption.
Qed.

(* ------------------------------------------------------------------ capacity (all inputs, no hypothesis) *)

Lemma decode_loop_length dec : forall cap r, (length (elias_decode_loop dec r cap) <= cap)%nat.
Proof.
  induction cap; intros r; cbn [elias_decode_loop]; [cbn; lia|].
  destruct (br_has_more r 1); [|cbn; lia].
  destruct (dec r) as [v r']. destruct (v =? 0); [cbn; lia|].
  cbn [length]. specialize (IHcap r'). lia.
Qed.

Lemma decode_loop_nonzero dec : forall cap r, Forall (fun v => v <> 0) (elias_decode_loop dec r cap).
Proof.
  induction cap; intros r; cbn [elias_decode_loop]; [constructor|].
  destruct (br_has_more r 1); [|constructor].
  destruct (dec r) as [v r']. destruct (v =? 0) eqn:E; [constructor|].
  constructor; [lia|apply IHcap].
Qed.

(* ------------------------------------------------------------------ the codes are inverted *)

Lemma a_gamma_count_zeros j : forall fuel n t, (j < fuel)%nat -> n + N.of_nat j <= 63 ->
  a_gamma_count fuel (repeat false j ++ true :: t) n = (true, n + N.of_nat j, t).
Proof.
  induction j; intros fuel n t Hf Hn; (destruct fuel; [lia|]); cbn [repeat app a_gamma_count].
  - f_equal. f_equal. lia.
  - replace (63 <? n + 1) with false by lia.
    rewrite IHj by lia. f_equal. f_equal. lia.
Qed.

Lemma val_msb_bits_msb_n k x : val_msb (bits_msb_n k x) = x mod 2 ^ N.of_nat k.
Proof.
  induction k; cbn [bits_msb_n val_msb].
  - change (2 ^ N.of_nat 0) with 1. rewrite N.mod_1_r. reflexivity.
  - rewrite length_bits_msb_n, IHk, Nat2N.inj_succ, N.pow_succ_r', (N.mul_comm 2).
    rewrite N.mod_mul_r by (try apply N.pow_nonzero; lia).
    rewrite N.testbit_spec'. lia.
Qed.
