(* Properties_C02_dfg_src.v — the zigzag part of property C02 stated about
   src_varintDeltaZigZag / src_varintDeltaZigZagDecode, the Gallina renderings
   that gen/c2coq.py regenerates from the CURRENT src/varintDelta.c (+ varintDelta.h)
   on every run (coq/gen/Src_leaf_delta.v; meaning of the c_* operations: CSem.v).
   C integer values are Z; `COk v` = the C abstract machine yields v (no undefined
   behaviour on the way).  Nothing but statements closed by `exact`. *)
Require Import VV.Base VV.CSem VV.Delta VV.LeafSrcDelta.
Require Import VVgen.Src_leaf_delta.
Local Open Scope Z_scope.

(* the regenerated functions compute the hand model (Delta.v) on all of int64_t / uint64_t *)
Theorem C02_src_varintDeltaZigZag_is_model : forall n, -9223372036854775808 <= n <= 9223372036854775807 ->
  src_varintDeltaZigZag n = COk (Z.of_N (delta_zigzag n)).
Proof. exact src_varintDeltaZigZag_is_model. Qed.
Print Assumptions C02_src_varintDeltaZigZag_is_model.

Theorem C02_src_varintDeltaZigZagDecode_is_model : forall z, 0 <= z < 18446744073709551616 ->
  src_varintDeltaZigZagDecode z = COk (delta_unzigzag (Z.to_N z)).
Proof. exact src_varintDeltaZigZagDecode_is_model. Qed.
Print Assumptions C02_src_varintDeltaZigZagDecode_is_model.

(* the C bit trick is the documented mapping 0,-1,1,-2,... -> 0,1,2,3,... on all of int64_t *)
Theorem C02_src_zigzag_is_spec : forall n, -9223372036854775808 <= n <= 9223372036854775807 ->
  src_varintDeltaZigZag n = COk (if 0 <=? n then 2 * n else - 2 * n - 1).
Proof. exact src_zigzag_is_spec. Qed.
Print Assumptions C02_src_zigzag_is_spec.

(* decode after encode is the identity on all of int64_t *)
Theorem C02_src_zigzag_roundtrip : forall n, -9223372036854775808 <= n <= 9223372036854775807 ->
  exists z, src_varintDeltaZigZag n = COk z /\ 0 <= z < 18446744073709551616 /\
            src_varintDeltaZigZagDecode z = COk n.
Proof. exact src_zigzag_roundtrip. Qed.
Print Assumptions C02_src_zigzag_roundtrip.

(* encode after decode is the identity on all of uint64_t: a bijection *)
Theorem C02_src_unzigzag_roundtrip : forall z, 0 <= z < 18446744073709551616 ->
  exists n, src_varintDeltaZigZagDecode z = COk n /\
            -9223372036854775808 <= n <= 9223372036854775807 /\
            src_varintDeltaZigZag n = COk z.
Proof. exact src_unzigzag_roundtrip. Qed.
Print Assumptions C02_src_unzigzag_roundtrip.

(* non-vacuity: the regenerated functions run on concrete inputs, the extremes included *)
Example C02_src_zigzag_example :
  src_varintDeltaZigZag (-1) = COk 1 /\ src_varintDeltaZigZag 1 = COk 2 /\
  src_varintDeltaZigZag (-9223372036854775808) = COk 18446744073709551615 /\
  src_varintDeltaZigZag 9223372036854775807 = COk 18446744073709551614 /\
  src_varintDeltaZigZagDecode 18446744073709551615 = COk (-9223372036854775808) /\
  src_varintDeltaZigZagDecode 3 = COk (-2).
Proof. vm_compute. repeat split; reflexivity. Qed.
