(* AdaptiveFloatBits.v — the bit pattern the integer helper reports
   (adp_f32_bits, what the driver prints and compares with the C float) is the
   IEEE-754 encoding (Flocq bits_of_b32) of the Flocq result. *)
Require Import VV.Base VV.Adaptive VV.AdaptiveFloatSpec VV.AdaptiveFloatRound VV.AdaptiveFloatProofs.
From Flocq Require Import Core Binary Bits.
From Coq Require Import Reals Lra Lia ZifyBool ZifyN ZArith NArith Bool.
Local Open Scope N_scope.

Local Notation NR n := (IZR (Z.of_N n)).

Lemma afl_sig_bounds m : 8388608 <= m < 16777216 -> (bpow radix2 23 <= NR m < bpow radix2 24)%R.
Proof.
  intros Bm. change (bpow radix2 23) with (IZR 8388608). change (bpow radix2 24) with (IZR 16777216).
  split; [apply IZR_le|apply IZR_lt]; lia.
Qed.

Lemma afl_val_bounds m e : 8388608 <= m < 16777216 ->
  (bpow radix2 (23 + e) <= NR m * bpow radix2 e < bpow radix2 (24 + e))%R.
Proof.
  intros Bm. destruct (afl_sig_bounds m Bm) as [L H].
  pose proof (bpow_gt_0 radix2 e) as P. rewrite !bpow_plus. split.
  - apply Rmult_le_compat_r; lra.
  - apply Rmult_lt_compat_r; lra.
Qed.

Lemma afl_exp_range m e : 8388608 <= m < 16777216 ->
  (bpow radix2 (-64) <= NR m * bpow radix2 e <= bpow radix2 64)%R -> (-88 <= e <= 41)%Z.
Proof.
  intros Bm [L H]. destruct (afl_val_bounds m e Bm) as [V1 V2]. split.
  - destruct (Z_lt_le_dec e (-88)) as [C|C]; [exfalso|lia].
    assert (bpow radix2 (24 + e) <= bpow radix2 (-64))%R by (apply bpow_le; lia). lra.
  - destruct (Z_lt_le_dec 41 e) as [C|C]; [exfalso|lia].
    assert (bpow radix2 64 < bpow radix2 (23 + e))%R by (apply bpow_lt; lia). lra.
Qed.

Lemma afl_canonical m e : 8388608 <= m < 16777216 -> (-149 <= e)%Z ->
  canonical radix2 (FLT_exp (-149) 24) (Float radix2 (Z.of_N m) e).
Proof.
  intros Bm He. unfold canonical, cexp, F2R. cbn [Fnum Fexp].
  destruct (afl_val_bounds m e Bm) as [V1 V2].
  rewrite (mag_unique_pos radix2 _ (24 + e)).
  - unfold FLT_exp. lia.
  - replace (24 + e - 1)%Z with (23 + e)%Z by lia. split; assumption.
Qed.

Lemma afl_sign_pos (x : binary32) : is_finite 24 128 x = true -> (0 < B2R 24 128 x)%R ->
  Bsign 24 128 x = false.
Proof.
  destruct x as [s|s|s pl H|s m e H]; cbn [is_finite B2R Bsign]; intros F P; try discriminate; try lra.
  destruct s; [exfalso|reflexivity].
  assert (F2R (Float radix2 (cond_Zopp true (Z.pos m)) e) < 0)%R by (apply F2R_lt_0; simpl; lia). lra.
Qed.

Lemma afl_bits_finite (x : binary32) m e :
  is_finite 24 128 x = true -> Bsign 24 128 x = false ->
  8388608 <= m < 16777216 -> (-149 <= e <= 104)%Z ->
  B2R 24 128 x = (NR m * bpow radix2 e)%R ->
  bits_of_b32 x = Z.of_N (adp_f32_bits (AF m e)).
Proof.
  intros F S Bm Be X. destruct m as [|pm]; [lia|].
  assert (Hb : SpecFloat.bounded 24 128 pm e = true).
  { apply (bounded_canonical_lt_emax 24 128 flt32_prec_gt_0 flt32_prec_lt_emax).
    - apply (afl_canonical (N.pos pm) e Bm). lia.
    - destruct (afl_val_bounds (N.pos pm) e Bm) as [_ V2]. unfold F2R. cbn [Fnum Fexp].
      apply Rlt_le_trans with (1 := V2). apply bpow_le. lia. }
  assert (E : x = B754_finite 24 128 false pm e Hb).
  { apply B2R_Bsign_inj; [exact F|reflexivity|rewrite X; reflexivity|rewrite S; reflexivity]. }
  rewrite E. unfold bits_of_b32, bits_of_binary_float, join_bits, adp_f32_bits.
  change (2 ^ 23)%Z with 8388608%Z. rewrite Z.shiftl_mul_pow2 by lia. change (2 ^ 23)%Z with 8388608%Z.
  replace (0 <=? Z.pos pm - 8388608)%Z with true by lia.
  change (SpecFloat.emin (23 + 1) (2 ^ (8 - 1))) with (-149)%Z. lia.
Qed.

Theorem afl_ratio_bits a b :
  a < 18446744073709551616 -> 0 < b -> b < 18446744073709551616 ->
  bits_of_b32 (flt32_ratio a b) = Z.of_N (adp_f32_bits (adp_ratio a b)).
Proof.
  intros Ha Hb Hb'. destruct (afl_ratio_correct a b Ha Hb Hb') as (X & F & W & [(A0 & E0)|Br]).
  - rewrite E0. subst a. unfold flt32_ratio.
    destruct (afl_of_N_correct b Hb') as (Xb & Fb & _).
    destruct (afl_of_N_pos b Hb Hb') as (mb & eb & Eb & _ & _ & Bb).
    rewrite Eb in Xb. cbn [afl_R] in Xb.
    assert (Pb : (0 < B2R 24 128 (flt32_of_N b))%R).
    { rewrite Xb. pose proof (bpow_gt_0 radix2 0). lra. }
    pose proof (afl_sign_pos _ Fb Pb) as Sb.
    assert (Z0 : flt32_of_N 0 = B754_zero 24 128 false) by (vm_compute; reflexivity).
    rewrite Z0. destruct (flt32_of_N b) as [s|s|s pl H|s m e H]; try discriminate; cbn [B2R] in Pb; try lra.
    cbn [Bsign] in Sb. subst s. reflexivity.
  - destruct (adp_ratio a b) as [|m e] eqn:Eq.
    + cbn [afl_R] in Br. pose proof (bpow_gt_0 radix2 (-64)). lra.
    + cbn [afl_R afl_wf] in *. pose proof (afl_exp_range m e W Br) as Re.
      apply afl_bits_finite; [exact F| |exact W|lia|exact X].
      apply afl_sign_pos; [exact F|]. rewrite X. pose proof (bpow_gt_0 radix2 (-64)). lra.
Qed.
