(* ConcArray2Group.v — C17 instances for the group codec (Group.v):
   varintGroupEncode / varintGroupDecode / varintGroupGetField as concurrent
   calls on shared read-only inputs with caller-supplied outputs.

   Footprints.  Encode: the bytes written are exactly varintGroupSize(values,
   fieldCount) (C03_group_size_exact); the values are what the call READS, so
   the window a caller can reserve beforehand is the worst case of
   varintGroupSize over fieldCount 64-bit values,
       1 + varintGroupBitmapSize_(fieldCount) + 8 * fieldCount
   (every normalised width is 1, 2, 4 or 8).  Decode: at most maxFields values
   are stored, whatever the bytes (C13_group_decode_cap).  GetField: nothing is
   written. *)
Require Import VV.Conc VV.ConcProofs VV.ConcCodec VV.ConcCodec2 VV.ConcArray.
Require Import VV.Base VV.BaseProofs VV.Delta VV.DfgLemmas VV.Group VV.GroupProofs VVgen.Consts.
From Coq Require Import List NArith Arith Lia Bool ZifyBool ZifyN ZifyNat.
Import ListNotations.
Local Open Scope N_scope.

(* the worst case of varintGroupSize for n fields *)
Definition group_max_size (n : N) : N := 1 + group_bitmap_size n + 8 * n.

Lemma group_sum_norm_le xs : group_sum (map group_norm_width xs) <= 8 * N.of_nat (length xs).
Proof.
  induction xs as [|x t IH]; cbn [map group_sum length]; [lia|].
  pose proof (group_norm_width_cases x). lia.
Qed.

(* ---------------- varintGroupEncode(dst, values, fieldCount) ----------------
   values: n uint64_t cells at src (shared), fieldCount = n;
   result [1; bytes written] (0 bytes for a refused field count) *)
Definition group_enc_fn (vs : list N) : list N * list N :=
  match group_encode (map u64 vs) (N.of_nat (length vs)) with
  | Some bs => (bs, [1; N.of_nat (length bs)])
  | None => ([], [0])
  end.

Lemma group_enc_fn_bound vs :
  (length (fst (group_enc_fn vs)) <= N.to_nat (group_max_size (N.of_nat (length vs))))%nat.
Proof.
  unfold group_enc_fn.
  destruct (group_encode (map u64 vs) (N.of_nat (length vs))) as [bs|] eqn:E; cbn [fst length]; [|lia].
  destruct (Nat.eq_dec (length vs) 0) as [Z|NZ].
  - destruct (group_refused (map u64 vs) (N.of_nat (length vs))) as [R _]; [left; lia|].
    rewrite R in E. injection E as <-. cbn [length]. lia.
  - destruct (Nat.le_gt_cases (length vs) 64) as [L|G].
    + destruct (group_size_exact (map u64 vs)) as (enc & E1 & E2).
      * rewrite map_length. lia.
      * apply map_u64_ok.
      * rewrite map_length in E1, E2. rewrite E1 in E. injection E as <-.
        unfold group_size, VARINT_GROUP_MAX_FIELDS in E2.
        destruct ((N.of_nat (length vs) =? 0) || (64 <? N.of_nat (length vs))) eqn:C; [exfalso; lia|].
        rewrite Nat2N.id, map_length in E2.
        destruct (length vs <? length vs)%nat eqn:C2; [exfalso; apply Nat.ltb_lt in C2; lia|].
        pose proof (f_equal (fun o => match o with Some x => x | None => 0 end) E2) as E3. cbv beta iota in E3.
        clear E2. rename E3 into E2. rewrite firstn_all2 in E2 by (rewrite map_length; lia).
        pose proof (group_sum_norm_le (map u64 vs)) as S. rewrite map_length in S.
        unfold group_max_size. lia.
    + destruct (group_refused (map u64 vs) (N.of_nat (length vs))) as [R _]; [right; lia|].
      rewrite R in E. injection E as <-. cbn [length]. lia.
Qed.

Theorem group_encode_threads_safe (ps : list io) (m0 : mem) :
  (forall i j pi pj, i <> j -> nth_error ps i = Some pi -> nth_error ps j = Some pj ->
     forall l, in_range (io_dst pj) (N.to_nat (group_max_size (N.of_nat (io_n pj)))) l ->
       ~ in_range (io_dst pi) (N.to_nat (group_max_size (N.of_nat (io_n pi)))) l /\
       ~ in_range (io_src pi) (io_n pi) l) ->
  forall sched,
  let ths := map (fun p => prog1 (io_src p) (io_n p) (io_dst p) group_enc_fn) ps in
  ~ races (snd (crun sched (m0, ths))) /\
  forall i p r, nth_error ps i = Some p ->
    nth_error (snd (crun sched (m0, ths))) i = Some (Ret r) ->
    let res := group_enc_fn (peek m0 (io_src p) (io_n p)) in
    r = snd res /\
    forall j, (j < length (fst res))%nat ->
      fst (crun sched (m0, ths)) (io_dst p + N.of_nat j) = nth j (fst res) 0.
Proof.
  intros AP sched.
  refine (family1_safe io io_src io_n io_dst
            (fun p => N.to_nat (group_max_size (N.of_nat (io_n p))))
            (fun _ => group_enc_fn) ps m0 _ AP sched).
  intros p _ bs Hl. rewrite <- Hl. apply group_enc_fn_bound.
Qed.

(* ---------------- varintGroupDecode(src, values, &fieldCount, maxFields) ----------------
   the encoding: n byte cells at src (shared); output: at most maxFields
   uint64_t cells at dst; result [1; return value] ++ what was stored to
   *fieldCount ([0] = nothing, [1; c] = c) *)
Definition group_dec_fn (cap : N) (bs : list N) : list N * list N :=
  match group_decode bs cap with
  | Some (r, fc, out) => (out, [1; r] ++ ret_opt fc)
  | None => ([], [0])
  end.

Lemma group_dec_fn_bound cap bs : (length (fst (group_dec_fn cap bs)) <= N.to_nat cap)%nat.
Proof.
  unfold group_dec_fn. destruct (group_decode bs cap) as [[[r fc] out]|] eqn:E; cbn [fst length]; [|lia].
  destruct (group_decode_cap bs cap r fc out E) as [C _]. lia.
Qed.

Theorem group_decode_threads_safe (ps : list (io * N)) (m0 : mem) :
  (forall i j pi pj, i <> j -> nth_error ps i = Some pi -> nth_error ps j = Some pj ->
     forall l, in_range (io_dst (fst pj)) (N.to_nat (snd pj)) l ->
       ~ in_range (io_dst (fst pi)) (N.to_nat (snd pi)) l /\
       ~ in_range (io_src (fst pi)) (io_n (fst pi)) l) ->
  forall sched,
  let ths := map (fun p => prog1 (io_src (fst p)) (io_n (fst p)) (io_dst (fst p)) (group_dec_fn (snd p))) ps in
  ~ races (snd (crun sched (m0, ths))) /\
  forall i p r, nth_error ps i = Some p ->
    nth_error (snd (crun sched (m0, ths))) i = Some (Ret r) ->
    let res := group_dec_fn (snd p) (peek m0 (io_src (fst p)) (io_n (fst p))) in
    r = snd res /\
    forall j, (j < length (fst res))%nat ->
      fst (crun sched (m0, ths)) (io_dst (fst p) + N.of_nat j) = nth j (fst res) 0.
Proof.
  intros AP sched.
  refine (family1_safe (io * N) (fun p => io_src (fst p)) (fun p => io_n (fst p))
            (fun p => io_dst (fst p)) (fun p => N.to_nat (snd p))
            (fun p => group_dec_fn (snd p)) ps m0 _ AP sched).
  intros p _ bs _. apply group_dec_fn_bound.
Qed.

(* ---------------- varintGroupGetField(src, fieldIndex, &value) ----------------
   a reader: result [1; return value] ++ *value ([0] = not stored) *)
Definition group_get_field_fn (idx : N) (bs : list N) : list N * list N :=
  ([], match group_get_field bs idx with
       | Some (r, v) => [1; r] ++ ret_opt v
       | None => [0]
       end).

(* readers only: no hypothesis at all about where the encodings are *)
Theorem group_get_field_threads_safe (ps : list (io * N)) (m0 : mem) :
  forall sched,
  let ths := map (fun p => prog1 (io_src (fst p)) (io_n (fst p)) (io_dst (fst p)) (group_get_field_fn (snd p))) ps in
  ~ races (snd (crun sched (m0, ths))) /\
  forall i p r, nth_error ps i = Some p ->
    nth_error (snd (crun sched (m0, ths))) i = Some (Ret r) ->
    r = snd (group_get_field_fn (snd p) (peek m0 (io_src (fst p)) (io_n (fst p)))).
Proof.
  intro sched.
  destruct (family1_safe (io * N) (fun p => io_src (fst p)) (fun p => io_n (fst p))
              (fun p => io_dst (fst p)) (fun _ => 0%nat)
              (fun p => group_get_field_fn (snd p)) ps m0) with (sched := sched) as [NR SE].
  - intros p _ bs _. cbn. lia.
  - intros i j pi pj _ _ _ l Hl. unfold in_range in Hl. lia.
  - split; [exact NR|]. intros i p r Hp Hr. exact (proj1 (SE i p r Hp Hr)).
Qed.
