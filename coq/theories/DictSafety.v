(* DictSafety.v — the dictionary decoders on ARBITRARY bytes (C13 / C14):
   they never run out of their fuel (= the declared length), their result
   depends only on the declared prefix of the input, the allocations they
   request are bounded by the declared length, and DecodeInto never stores at
   an index >= maxValues. *)
Require Import VV.Base VV.BaseProofs VV.Tagged VV.TaggedProofs VV.TaggedSpecProofs.
Require Import VV.RLELemmas VV.RLE VV.RLESpec VV.RLEProofs VV.Dict VV.DictProofs.
From Coq Require Import Lia ZifyBool ZifyN ZifyNat.
Local Open Scope N_scope.
Ltac Zify.zify_post_hook ::= Z.div_mod_to_equations.

(* ---------------------------------------------------------------- index width *)
Lemma dict_index_width_small ds : ds <= 1048576 ->
  dict_index_width ds = 1%nat \/ dict_index_width ds = 2%nat \/ dict_index_width ds = 3%nat.
Proof.
  intro H. unfold dict_index_width. destruct (ds =? 0) eqn:E; [left; reflexivity|].
  destruct (N.le_gt_cases (ds - 1) 255) as [A|A].
  - left. apply ext_width_unique; try lia; try (left; reflexivity);
      change (256 ^ N.of_nat 1) with 256; lia.
  - destruct (N.le_gt_cases (ds - 1) 65535) as [B|B].
    + right; left. apply ext_width_unique; try lia; try (right; change (256 ^ N.of_nat (2 - 1)) with 256; lia);
        change (256 ^ N.of_nat 2) with 65536; lia.
    + right; right. apply ext_width_unique; try lia; try (right; change (256 ^ N.of_nat (3 - 1)) with 65536; lia);
        change (256 ^ N.of_nat 3) with 16777216; lia.
Qed.

Lemma dict_ext_get_quick_firstn z z' w : (w = 1 \/ w = 2 \/ w = 3)%nat ->
  firstn w z = firstn w z' -> dict_ext_get_quick z w = dict_ext_get_quick z' w.
Proof.
  intros Hw H. pose proof (firstn_eq_nth z z' w 0 H) as E.
  destruct Hw as [-> | [-> | ->]]; unfold dict_ext_get_quick, byte_at.
  - apply E. lia.
  - rewrite (E 0%nat), (E 1%nat) by lia. reflexivity.
  - rewrite (E 0%nat), (E 1%nat), (E 2%nat) by lia. reflexivity.
Qed.

(* ---------------------------------------------------------------- index loop *)
Lemma dict_decode_indices_len fuel : forall a ds w z i count out ok,
  dict_decode_indices fuel a ds w z i count = Some (out, ok) ->
  N.of_nat (length out) <= count - i.
Proof.
  induction fuel as [|f IH]; intros a ds w z i count out ok H; [discriminate|].
  cbn [dict_decode_indices] in H. destruct (i <? count) eqn:E.
  - destruct (ds <=? dict_ext_get_quick z w); [inversion H; subst; cbn; lia|].
    destruct (dict_decode_indices f a ds w (skipn w z) (i + 1) count) as [[l o]|] eqn:R; [|discriminate].
    inversion H; subst. apply IH in R. cbn [length]. lia.
  - inversion H; subst. cbn. lia.
Qed.

Lemma dict_decode_indices_fuel fuel : forall a ds w z i count,
  (N.to_nat (count - i) < fuel)%nat -> dict_decode_indices fuel a ds w z i count <> None.
Proof.
  induction fuel as [|f IH]; intros a ds w z i count H; [lia|].
  cbn [dict_decode_indices]. destruct (i <? count) eqn:E; [|discriminate].
  destruct (ds <=? dict_ext_get_quick z w); [discriminate|].
  specialize (IH a ds w (skipn w z) (i + 1) count ltac:(lia)).
  destruct (dict_decode_indices f a ds w (skipn w z) (i + 1) count) as [[l o]|]; [discriminate|congruence].
Qed.

Lemma dict_decode_indices_ni fuel : forall a ds w z z' i count, (w = 1 \/ w = 2 \/ w = 3)%nat ->
  firstn (N.to_nat (count - i) * w) z = firstn (N.to_nat (count - i) * w) z' ->
  dict_decode_indices fuel a ds w z i count = dict_decode_indices fuel a ds w z' i count.
Proof.
  induction fuel as [|f IH]; intros a ds w z z' i count Hw H; [reflexivity|].
  cbn [dict_decode_indices]. destruct (i <? count) eqn:E; [|reflexivity].
  assert (H1 : firstn w z = firstn w z').
  { apply (firstn_firstn_le z z' w (N.to_nat (count - i) * w)); [nia|exact H]. }
  rewrite (dict_ext_get_quick_firstn z z' w Hw H1).
  destruct (ds <=? dict_ext_get_quick z' w); [reflexivity|].
  rewrite (IH a ds w (skipn w z) (skipn w z') (i + 1) count Hw); [reflexivity|].
  replace (N.to_nat (count - (i + 1)) * w)%nat with (N.to_nat (count - i) * w - w)%nat by nia.
  apply firstn_skipn_eq. exact H.
Qed.

(* ---------------------------------------------------------------- entries loop *)
Lemma dict_read_entries_fuel fuel : forall z avail i ds,
  (N.to_nat avail < fuel)%nat -> dict_read_entries fuel z avail i ds <> None.
Proof.
  induction fuel as [|f IH]; intros z avail i ds H; [lia|].
  cbn [dict_read_entries]. destruct (i <? ds); [|discriminate].
  pose proof (tagged_get_width_le z (rle_tagged_avail avail)) as W.
  pose proof (rle_tagged_avail_to_N avail) as A.
  set (r := tagged_get z (rle_tagged_avail avail)) in *.
  destruct (fst r =? 0) eqn:E; [discriminate|].
  specialize (IH (skipn (N.to_nat (fst r)) z) (avail - fst r) (i + 1) ds ltac:(lia)).
  destruct (dict_read_entries f _ _ _ _) as [[[vs a']|]|]; [discriminate|discriminate|congruence].
Qed.

Lemma dict_read_entries_avail fuel : forall z avail i ds vs a',
  dict_read_entries fuel z avail i ds = Some (Some (vs, a')) ->
  a' <= avail /\ N.of_nat (length vs) <= avail - a'.
Proof.
  induction fuel as [|f IH]; intros z avail i ds vs a' H; [discriminate|].
  cbn [dict_read_entries] in H. destruct (i <? ds).
  - pose proof (tagged_get_width_le z (rle_tagged_avail avail)) as W.
    pose proof (rle_tagged_avail_to_N avail) as A.
    set (r := tagged_get z (rle_tagged_avail avail)) in *.
    destruct (fst r =? 0) eqn:E; [discriminate|].
    destruct (dict_read_entries f _ _ _ _) as [[[vs1 a1]|]|] eqn:R; try discriminate.
    inversion H; subst. apply IH in R. cbn [length]. lia.
  - inversion H; subst. cbn. lia.
Qed.

Lemma dict_read_entries_ni fuel : forall z z' avail i ds,
  firstn (N.to_nat avail) z = firstn (N.to_nat avail) z' ->
  dict_read_entries fuel z avail i ds = dict_read_entries fuel z' avail i ds.
Proof.
  induction fuel as [|f IH]; intros z z' avail i ds H; [reflexivity|].
  cbn [dict_read_entries]. destruct (i <? ds); [|reflexivity].
  rewrite (tagged_get_firstn z z' _ _ (rle_tagged_avail_le avail) H).
  set (r := tagged_get z' (rle_tagged_avail avail)).
  destruct (fst r =? 0); [reflexivity|].
  rewrite (IH (skipn (N.to_nat (fst r)) z) (skipn (N.to_nat (fst r)) z') (avail - fst r) (i + 1) ds); [reflexivity|].
  replace (N.to_nat (avail - fst r)) with (N.to_nat avail - N.to_nat (fst r))%nat by lia.
  apply firstn_skipn_eq. exact H.
Qed.

(* ---------------------------------------------------------------- header *)
Lemma dict_read_header_ni z z' n : firstn (N.to_nat n) z = firstn (N.to_nat n) z' ->
  dict_read_header z n = dict_read_header z' n.
Proof.
  intro H. unfold dict_read_header. destruct (n =? 0); [reflexivity|].
  rewrite (tagged_get_firstn z z' _ _ (rle_tagged_avail_le n) H).
  set (r := tagged_get z' (rle_tagged_avail n)).
  destruct (fst r =? 0); [reflexivity|].
  destruct (dict_max_size <? snd r); [reflexivity|].
  assert (H1 : firstn (N.to_nat (n - fst r)) (skipn (N.to_nat (fst r)) z)
               = firstn (N.to_nat (n - fst r)) (skipn (N.to_nat (fst r)) z')).
  { replace (N.to_nat (n - fst r)) with (N.to_nat n - N.to_nat (fst r))%nat by lia.
    apply firstn_skipn_eq. exact H. }
  rewrite (dict_read_entries_ni _ _ _ _ _ _ H1).
  destruct (dict_read_entries _ (skipn (N.to_nat (fst r)) z') _ _ _) as [[[vs a2]|]|] eqn:R; try reflexivity.
  apply dict_read_entries_avail in R. destruct R as [R _].
  assert (H2 : firstn (N.to_nat a2) (skipn (N.to_nat (n - fst r - a2)) (skipn (N.to_nat (fst r)) z))
               = firstn (N.to_nat a2) (skipn (N.to_nat (n - fst r - a2)) (skipn (N.to_nat (fst r)) z'))).
  { replace (N.to_nat a2) with (N.to_nat (n - fst r) - N.to_nat (n - fst r - a2))%nat by lia.
    apply firstn_skipn_eq. exact H1. }
  rewrite (tagged_get_firstn _ _ _ _ (rle_tagged_avail_le a2) H2). reflexivity.
Qed.

Lemma dict_read_header_facts z n :
  dict_read_header z n <> DictHFuel /\
  (forall al, dict_read_header z n = DictHFail al -> Forall (fun a => a <= 8388608) al) /\
  (forall vs ds c av al, dict_read_header z n = DictHOk vs ds c av al ->
     av <= n /\ ds <= 1048576 /\ al = [8 * ds]).
Proof.
  unfold dict_read_header. destruct (n =? 0) eqn:E0.
  { split; [discriminate|]. split; [intros al H; inversion H; constructor|discriminate]. }
  pose proof (tagged_get_width_le z (rle_tagged_avail n)) as W.
  pose proof (rle_tagged_avail_to_N n) as A.
  set (r := tagged_get z (rle_tagged_avail n)) in *.
  destruct (fst r =? 0) eqn:E1.
  { split; [discriminate|]. split; [intros al H; inversion H; constructor|discriminate]. }
  unfold dict_max_size. destruct (1048576 <? snd r) eqn:E2.
  { split; [discriminate|]. split; [intros al H; inversion H; constructor|discriminate]. }
  replace (u32 (snd r)) with (snd r) by (unfold u32; lia).
  replace (mul64 (snd r) 8) with (8 * snd r) by (unfold mul64; lia).
  remember (8 * snd r) as m8 eqn:Em.
  pose proof (dict_read_entries_fuel (S (N.to_nat n)) (skipn (N.to_nat (fst r)) z) (n - fst r) 0 (snd r) ltac:(lia)) as F.
  destruct (dict_read_entries _ _ _ _ _) as [[[vs a2]|]|] eqn:R; [| |congruence].
  - apply dict_read_entries_avail in R. destruct R as [R _].
    pose proof (tagged_get_width_le (skipn (N.to_nat (n - fst r - a2)) (skipn (N.to_nat (fst r)) z)) (rle_tagged_avail a2)) as W2.
    pose proof (rle_tagged_avail_to_N a2) as A2.
    set (rc := tagged_get _ (rle_tagged_avail a2)) in *.
    destruct (fst rc =? 0).
    + split; [discriminate|]. split; [|discriminate].
      intros al [= <-]. constructor; [lia|constructor].
    + split; [discriminate|]. split; [discriminate|].
      intros vs' ds c av al [= <- <- <- <- <-]. repeat split; try lia. rewrite Em. reflexivity.
  - split; [discriminate|]. split; [|discriminate].
    intros al [= <-]. constructor; [lia|constructor].
Qed.

(* ---------------------------------------------------------------- the decoders *)
Definition dict_dec_allocs (r : dict_dec_res) : list N :=
  match r with DictNull a => a | DictFuel => [] | DictPartial _ a => a | DictOk _ a => a end.
Definition dict_dec_stores (r : dict_dec_res) : list N :=
  match r with DictPartial s _ => s | DictOk s _ => s | _ => [] end.

Lemma div_le_count count avail w : (1 <= w)%nat -> (avail / N.of_nat w <? count) = false -> count * N.of_nat w <= avail.
Proof. intros Hw H. nia. Qed.

Lemma mul_le_count c w av : (1 <= w)%nat -> c * N.of_nat w <= av -> c <= av.
Proof. intros Hw H. nia. Qed.

Lemma to_nat_mul_le c w av : c * N.of_nat w <= av -> (N.to_nat (c - 0) * w <= N.to_nat av)%nat.
Proof. intro H. rewrite N.sub_0_r. nia. Qed.

Theorem dict_decode_safe z n :
  dict_decode z n <> DictFuel /\
  Forall (fun a => a <= 8388608 + 8 * n) (dict_dec_allocs (dict_decode z n)) /\
  N.of_nat (length (dict_dec_stores (dict_decode z n))) <= n /\
  (forall z', firstn (N.to_nat n) z = firstn (N.to_nat n) z' -> dict_decode z n = dict_decode z' n).
Proof.
  destruct (dict_read_header_facts z n) as (F1 & F2 & F3).
  split; [|split; [|split]].
  - unfold dict_decode. destruct (dict_read_header z n) as [al| |vs ds c av al] eqn:Hh; [discriminate|congruence|].
    destruct (F3 _ _ _ _ _ eq_refl) as (Hav & Hds & Hal).
    set (w := dict_index_width ds).
    assert (Hw : (1 <= w)%nat) by (destruct (dict_index_width_small ds Hds) as [W|[W|W]]; subst w; lia).
    destruct (av / N.of_nat w <? c) eqn:E; [discriminate|].
    apply div_le_count in E; [|exact Hw].
    pose proof (dict_decode_indices_fuel (S (N.to_nat n)) (dict_arr_of_list vs) ds w (skipn (N.to_nat (n - av)) z) 0 c) as G.
    destruct (dict_decode_indices _ _ _ _ _ _ _) as [[out [|]]|]; [discriminate|discriminate|exfalso; apply G; [pose proof (mul_le_count c w av Hw E); lia|reflexivity]].
  - unfold dict_decode. destruct (dict_read_header z n) as [al| |vs ds c av al] eqn:Hh.
    + cbn [dict_dec_allocs]. eapply Forall_impl; [|exact (F2 al eq_refl)]. cbv beta. intros; lia.
    + constructor.
    + destruct (F3 _ _ _ _ _ eq_refl) as (Hav & Hds & Hal). subst al.
      set (w := dict_index_width ds).
      assert (Hw : (1 <= w)%nat) by (destruct (dict_index_width_small ds Hds) as [W|[W|W]]; subst w; lia).
      destruct (av / N.of_nat w <? c) eqn:E.
      { cbn [dict_dec_allocs]. constructor; [lia|constructor]. }
      apply div_le_count in E; [|exact Hw].
      assert (A : Forall (fun a => a <= 8388608 + 8 * n) ([8 * ds] ++ [mul64 c 8])).
      { pose proof (mul_le_count c w av Hw E). constructor; [lia|]. constructor; [|constructor]. unfold mul64. lia. }
      destruct (dict_decode_indices _ _ _ _ _ _ _) as [[out [|]]|]; cbn [dict_dec_allocs]; try exact A. constructor.
  - unfold dict_decode. destruct (dict_read_header z n) as [al| |vs ds c av al] eqn:Hh; [cbn; lia|cbn; lia|].
    destruct (F3 _ _ _ _ _ eq_refl) as (Hav & Hds & Hal).
    set (w := dict_index_width ds).
    assert (Hw : (1 <= w)%nat) by (destruct (dict_index_width_small ds Hds) as [W|[W|W]]; subst w; lia).
    destruct (av / N.of_nat w <? c) eqn:E; [cbn; lia|].
    apply div_le_count in E; [|exact Hw].
    destruct (dict_decode_indices _ _ _ _ _ _ _) as [[out [|]]|] eqn:R; cbn [dict_dec_stores length]; try lia.
    apply dict_decode_indices_len in R. pose proof (mul_le_count c w av Hw E). lia.
  - intros z' H. unfold dict_decode. rewrite <- (dict_read_header_ni z z' n H).
    destruct (dict_read_header z n) as [al| |vs ds c av al] eqn:Hh; [reflexivity|reflexivity|].
    destruct (F3 _ _ _ _ _ eq_refl) as (Hav & Hds & Hal).
    pose proof (dict_index_width_small ds Hds) as Hw3.
    set (w := dict_index_width ds) in *.
    assert (Hw : (1 <= w)%nat) by lia.
    destruct (av / N.of_nat w <? c) eqn:E; [reflexivity|].
    apply div_le_count in E; [|exact Hw].
    rewrite (dict_decode_indices_ni _ _ _ _ (skipn (N.to_nat (n - av)) z) (skipn (N.to_nat (n - av)) z') 0 c Hw3); [reflexivity|].
    apply (firstn_firstn_le _ _ _ (N.to_nat av)); [apply to_nat_mul_le; exact E|].
    replace (N.to_nat av) with (N.to_nat n - N.to_nat (n - av))%nat by lia.
    apply firstn_skipn_eq. exact H.
Qed.

Theorem dict_decode_into_safe z n cap :
  dict_decode_into z n cap <> DictFuel /\
  Forall (fun a => a <= 8388608) (dict_dec_allocs (dict_decode_into z n cap)) /\
  N.of_nat (length (dict_dec_stores (dict_decode_into z n cap))) <= cap /\
  (forall z', firstn (N.to_nat n) z = firstn (N.to_nat n) z' ->
              dict_decode_into z n cap = dict_decode_into z' n cap).
Proof.
  destruct (dict_read_header_facts z n) as (F1 & F2 & F3).
  split; [|split; [|split]].
  - unfold dict_decode_into. destruct (cap =? 0); [discriminate|].
    destruct (dict_read_header z n) as [al| |vs ds c av al] eqn:Hh; [discriminate|congruence|].
    destruct (F3 _ _ _ _ _ eq_refl) as (Hav & Hds & Hal).
    destruct (cap <? c); [discriminate|].
    set (w := dict_index_width ds).
    assert (Hw : (1 <= w)%nat) by (destruct (dict_index_width_small ds Hds) as [W|[W|W]]; subst w; lia).
    destruct (av / N.of_nat w <? c) eqn:E; [discriminate|].
    apply div_le_count in E; [|exact Hw].
    pose proof (dict_decode_indices_fuel (S (N.to_nat n)) (dict_arr_of_list vs) ds w (skipn (N.to_nat (n - av)) z) 0 c) as G.
    destruct (dict_decode_indices _ _ _ _ _ _ _) as [[out [|]]|]; [discriminate|discriminate|exfalso; apply G; [pose proof (mul_le_count c w av Hw E); lia|reflexivity]].
  - unfold dict_decode_into. destruct (cap =? 0); [constructor|].
    destruct (dict_read_header z n) as [al| |vs ds c av al] eqn:Hh.
    + exact (F2 al eq_refl).
    + constructor.
    + destruct (F3 _ _ _ _ _ eq_refl) as (Hav & Hds & Hal). subst al.
      assert (A : Forall (fun a => a <= 8388608) [8 * ds]) by (constructor; [lia|constructor]).
      destruct (cap <? c); [exact A|].
      destruct (av / N.of_nat (dict_index_width ds) <? c); [exact A|].
      destruct (dict_decode_indices _ _ _ _ _ _ _) as [[out [|]]|]; cbn [dict_dec_allocs]; try exact A. constructor.
  - unfold dict_decode_into. destruct (cap =? 0); [cbn; lia|].
    destruct (dict_read_header z n) as [al| |vs ds c av al] eqn:Hh; [cbn; lia|cbn; lia|].
    destruct (cap <? c) eqn:Ec; [cbn; lia|].
    destruct (av / N.of_nat (dict_index_width ds) <? c); [cbn; lia|].
    destruct (dict_decode_indices _ _ _ _ _ _ _) as [[out [|]]|] eqn:R; cbn [dict_dec_stores length]; try lia;
      apply dict_decode_indices_len in R; lia.
  - intros z' H. unfold dict_decode_into. destruct (cap =? 0); [reflexivity|].
    rewrite <- (dict_read_header_ni z z' n H).
    destruct (dict_read_header z n) as [al| |vs ds c av al] eqn:Hh; [reflexivity|reflexivity|].
    destruct (F3 _ _ _ _ _ eq_refl) as (Hav & Hds & Hal).
    destruct (cap <? c); [reflexivity|].
    pose proof (dict_index_width_small ds Hds) as Hw3.
    set (w := dict_index_width ds) in *.
    assert (Hw : (1 <= w)%nat) by lia.
    destruct (av / N.of_nat w <? c) eqn:E; [reflexivity|].
    apply div_le_count in E; [|exact Hw].
    rewrite (dict_decode_indices_ni _ _ _ _ (skipn (N.to_nat (n - av)) z) (skipn (N.to_nat (n - av)) z') 0 c Hw3); [reflexivity|].
    apply (firstn_firstn_le _ _ _ (N.to_nat av)); [apply to_nat_mul_le; exact E|].
    replace (N.to_nat av) with (N.to_nat n - N.to_nat (n - av))%nat by lia.
    apply firstn_skipn_eq. exact H.
Qed.

Theorem dict_decode_into_cap z n cap :
  N.of_nat (length (dict_dec_stores (dict_decode_into z n cap))) <= cap.
Proof. apply dict_decode_into_safe. Qed.
