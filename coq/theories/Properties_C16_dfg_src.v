(* Properties_C16_dfg_src.v — property C16 (an encoding's own accessors tell the
   truth), group and FOR leaf functions, stated about the Gallina renderings that
   gen/c2coq.py regenerates from the CURRENT src/varintGroup.c / src/varintFOR.c on
   every run (coq/gen/Src_leaf_group.v, Src_leaf_for.v; meaning of the c_*
   operations: CSem.v).  C integer values are Z, a `const uint8_t *` argument is
   the byte list of the object it points to; `COk v` = the C abstract machine
   yields v without undefined behaviour or an access outside that object.
   [group_encode] is the hand model of varintGroupEncode (Group.v), tied to the C
   by differential execution.  Nothing but statements closed by `exact`. *)
Require Import VV.Base VV.CSem VV.Delta VV.Group VV.FOR VV.LeafSrcGroup VV.LeafSrcGroupProps VV.LeafSrcFOR.
Require Import VVgen.Src_leaf_group VVgen.Src_leaf_for.
Local Open Scope Z_scope.

(* ---- the regenerated leaf functions compute the hand model, on their whole C domain ---- *)

Theorem C16_src_varintGroupBitmapSize_is_model : forall fc, 0 <= fc < 256 ->
  src_varintGroupBitmapSize_ fc = COk (Z.of_N (group_bitmap_size (Z.to_N fc))).
Proof. exact src_varintGroupBitmapSize__is_model. Qed.
Print Assumptions C16_src_varintGroupBitmapSize_is_model.

Theorem C16_src_varintGroupWidthDecode_is_model : forall e, 0 <= e < 256 ->
  src_varintGroupWidthDecode_ e = COk (Z.of_N (group_width_decode (Z.to_N e))).
Proof. exact src_varintGroupWidthDecode__is_model. Qed.
Print Assumptions C16_src_varintGroupWidthDecode_is_model.

Theorem C16_src_varintGroupWidthEncode_is_model : forall w, 0 <= w < 4294967296 ->
  src_varintGroupWidthEncode_ w = COk (Z.of_N (group_width_encode (Z.to_N w))).
Proof. exact src_varintGroupWidthEncode__is_model. Qed.
Print Assumptions C16_src_varintGroupWidthEncode_is_model.

(* domain: the count byte is inside the object and, when the index is accepted, so is its bitmap byte *)
Theorem C16_src_varintGroupGetFieldWidth_is_model : forall src i, 0 <= i < 256 ->
  (1 <= length src)%nat ->
  ((Z.to_N i < byte_at src 0)%N -> (1 + Z.to_nat i / 4 < length src)%nat) ->
  src_varintGroupGetFieldWidth src i = COk (Z.of_N (group_get_field_width src (Z.to_N i))).
Proof. exact src_varintGroupGetFieldWidth_is_model. Qed.
Print Assumptions C16_src_varintGroupGetFieldWidth_is_model.

(* domain: the count byte is inside the object and, for an accepted count, so is the whole width
   bitmap; fuel: any number of loop iterations above the 64 fields *)
Theorem C16_src_varintGroupGetSize_is_model : forall fuel src, (64 < fuel)%nat ->
  (1 <= length src)%nat ->
  ((1 <= byte_at src 0 <= 64)%N -> (1 + group_bitmap_size (byte_at src 0) <= N.of_nat (length src))%N) ->
  src_varintGroupGetSize fuel src = COk (Z.of_N (group_get_size src)).
Proof. exact src_varintGroupGetSize_is_model. Qed.
Print Assumptions C16_src_varintGroupGetSize_is_model.

(* ---- C16: self-measured size = bytes written, whatever follows the encoding ---- *)
Theorem C16_src_group_get_size : forall xs post fuel,
  (1 <= length xs <= 64)%nat -> Forall (fun x => (x < 18446744073709551616)%N) xs -> (64 < fuel)%nat ->
  exists enc, group_encode xs (N.of_nat (length xs)) = Some enc /\
    src_varintGroupGetSize fuel (enc ++ post) = COk (Z.of_nat (length enc)).
Proof. exact src_group_get_size. Qed.
Print Assumptions C16_src_group_get_size.

(* ---- C16: the reported width of field i is the width the encoder used for it ---- *)
Theorem C16_src_group_get_field_width : forall xs post i,
  (1 <= length xs <= 64)%nat -> Forall (fun x => (x < 18446744073709551616)%N) xs -> (i < length xs)%nat ->
  exists enc, group_encode xs (N.of_nat (length xs)) = Some enc /\
    src_varintGroupGetFieldWidth (enc ++ post) (Z.of_nat i) = COk (Z.of_N (group_norm_width (nth i xs 0%N))).
Proof. exact src_group_get_field_width. Qed.
Print Assumptions C16_src_group_get_field_width.

(* ---- ... and that width survives the 2-bit code (varintGroupWidthEncode_ then
   varintGroupWidthDecode_), is one of 1/2/4/8 and holds the value ---- *)
Theorem C16_src_group_norm_width_fits : forall x, (x < 18446744073709551616)%N ->
  exists e, src_varintGroupWidthEncode_ (Z.of_N (group_norm_width x)) = COk e /\ 0 <= e < 4 /\
    src_varintGroupWidthDecode_ e = COk (Z.of_N (group_norm_width x)) /\
    (x < 256 ^ group_norm_width x)%N /\ In (group_norm_width x) [1; 2; 4; 8]%N.
Proof. exact src_group_norm_width_fits. Qed.
Print Assumptions C16_src_group_norm_width_fits.

(* non-vacuity: the regenerated functions run on a concrete 2-field group (widths 2 and 1) *)
Example C16_src_group_example :
  src_varintGroupGetSize 65 [2; 1; 7; 0; 1]%N = COk 5 /\
  src_varintGroupGetFieldWidth [2; 1; 7; 0; 1]%N 0 = COk 2 /\
  src_varintGroupGetFieldWidth [2; 1; 7; 0; 1]%N 1 = COk 1 /\
  src_varintGroupGetFieldWidth [2; 1; 7; 0; 1]%N 2 = COk 0 /\
  src_varintGroupBitmapSize_ 5 = COk 2 /\
  src_varintGroupWidthEncode_ 4 = COk 2 /\ src_varintGroupWidthDecode_ 2 = COk 4.
Proof. vm_compute. repeat split; reflexivity. Qed.

(* ======================= varintFOR.c: varintFORComputeWidth ======================= *)

(* the regenerated function computes the hand model on all of uint64_t; its loop
   `while ((v >>= 8) != 0) width++` needs at most 8 iterations (fuel) *)
Theorem C16_src_varintFORComputeWidth_is_model : forall fuel range, (8 <= fuel)%nat ->
  0 <= range < 18446744073709551616 ->
  src_varintFORComputeWidth fuel range = COk (Z.of_N (for_compute_width (Z.to_N range))).
Proof. exact src_varintFORComputeWidth_is_model. Qed.
Print Assumptions C16_src_varintFORComputeWidth_is_model.

(* it yields the least number of bytes (1..8) that holds the range *)
Theorem C16_src_for_compute_width_least : forall fuel r, (8 <= fuel)%nat -> (r < 18446744073709551616)%N ->
  exists w, src_varintFORComputeWidth fuel (Z.of_N r) = COk (Z.of_N w) /\
    (1 <= w <= 8 /\ r < 256 ^ w /\ (w = 1 \/ 256 ^ (w - 1) <= r))%N.
Proof. exact src_for_compute_width_least. Qed.
Print Assumptions C16_src_for_compute_width_least.

(* C16 for_analyze_truth, width part: the offsetWidth in the analysed metadata is
   varintFORComputeWidth(range) of the regenerated source, range = max - min, and holds the range *)
Theorem C16_src_for_analyze_truth_width : forall xs fuel,
  xs <> [] -> Forall (fun x => (x < 18446744073709551616)%N) xs -> (8 <= fuel)%nat ->
  exists m, for_analyze xs = Some m /\
    (fm_range m = fm_max m - fm_min m)%N /\
    src_varintFORComputeWidth fuel (Z.of_N (fm_range m)) = COk (Z.of_N (fm_width m)) /\
    (fm_range m < 256 ^ fm_width m)%N /\
    (fm_width m = 1 \/ 256 ^ (fm_width m - 1) <= fm_range m)%N.
Proof. exact src_for_analyze_width. Qed.
Print Assumptions C16_src_for_analyze_truth_width.

(* non-vacuity: the regenerated function on both sides of byte-width boundaries *)
Example C16_src_for_example :
  src_varintFORComputeWidth 8 0 = COk 1 /\ src_varintFORComputeWidth 8 255 = COk 1 /\
  src_varintFORComputeWidth 8 256 = COk 2 /\ src_varintFORComputeWidth 8 69995 = COk 3 /\
  src_varintFORComputeWidth 8 18446744073709551615 = COk 8 /\
  src_varintFORComputeWidth 3 18446744073709551615 = CFuel.
Proof. vm_compute. repeat split; reflexivity. Qed.
