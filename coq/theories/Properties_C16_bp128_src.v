(* Properties_C16_bp128_src.v — property C16, BP128 part: the bit width that the
   encoders report, stated about src_varintBP128BitsNeeded32 / 64, the Gallina
   renderings that gen/c2coq.py regenerates from the CURRENT src/varintBP128.c on
   every run (coq/gen/Src_leaf_bp128.v; meaning of the c_* operations: CSem.v).
   C integer values are Z; `COk v` = the C abstract machine yields v.  The
   functions contain the loop `while (value) { value >>= 1; bits++; }`; [fuel]
   bounds its iterations (CFuel otherwise), the statements hold for every
   fuel > 64.  Nothing but statements closed by `exact`. *)
Require Import VV.Base VV.CSem VV.BP128 VV.LeafSrcBP128.
Require Import VVgen.Src_leaf_bp128.
Local Open Scope Z_scope.

(* the regenerated functions compute the hand model on all of uint64_t / uint32_t *)
Theorem C16_src_varintBP128BitsNeeded64_is_model : forall fuel v, (64 < fuel)%nat -> 0 <= v < 18446744073709551616 ->
  src_varintBP128BitsNeeded64 fuel v = COk (Z.of_N (bits_needed (Z.to_N v))).
Proof. exact src_varintBP128BitsNeeded64_is_model. Qed.
Print Assumptions C16_src_varintBP128BitsNeeded64_is_model.

Theorem C16_src_varintBP128BitsNeeded32_is_model : forall fuel v, (64 < fuel)%nat -> 0 <= v < 4294967296 ->
  src_varintBP128BitsNeeded32 fuel v = COk (Z.of_N (bits_needed (Z.to_N v))).
Proof. exact src_varintBP128BitsNeeded32_is_model. Qed.
Print Assumptions C16_src_varintBP128BitsNeeded32_is_model.

(* the reported width is the bit length: it holds the value and no smaller width does *)
Theorem C16_src_bp128_width_is_bit_length64 : forall fuel v, (64 < fuel)%nat -> (v < 18446744073709551616)%N ->
  exists w, src_varintBP128BitsNeeded64 fuel (Z.of_N v) = COk (Z.of_N w) /\
    (w <= 64 /\ v < 2 ^ w /\ forall k, v < 2 ^ k -> w <= k)%N.
Proof. exact src_bp128_width_is_bit_length64. Qed.
Print Assumptions C16_src_bp128_width_is_bit_length64.

Theorem C16_src_bp128_width_is_bit_length32 : forall fuel v, (64 < fuel)%nat -> (v < 4294967296)%N ->
  exists w, src_varintBP128BitsNeeded32 fuel (Z.of_N v) = COk (Z.of_N w) /\
    (w <= 32 /\ v < 2 ^ w /\ forall k, v < 2 ^ k -> w <= k)%N.
Proof. exact src_bp128_width_is_bit_length32. Qed.
Print Assumptions C16_src_bp128_width_is_bit_length32.

(* non-vacuity: the regenerated functions run on concrete values, the extremes included *)
Example C16_src_bp128_example :
  src_varintBP128BitsNeeded64 65 0 = COk 0 /\ src_varintBP128BitsNeeded64 65 1 = COk 1 /\
  src_varintBP128BitsNeeded64 65 255 = COk 8 /\ src_varintBP128BitsNeeded64 65 256 = COk 9 /\
  src_varintBP128BitsNeeded64 65 18446744073709551615 = COk 64 /\
  src_varintBP128BitsNeeded32 65 4294967295 = COk 32 /\
  src_varintBP128BitsNeeded32 65 65536 = COk 17 /\
  src_varintBP128BitsNeeded64 64 18446744073709551615 = CFuel.
Proof. vm_compute. repeat split; reflexivity. Qed.
