(* GroupProofs.v — proofs about the Gallina model Group.v of varintGroup.{c,h}. *)
Require Import VV.Base VV.BaseProofs VV.Delta VV.DfgLemmas VV.Group VVgen.Consts.
From Coq Require Import Lia ZifyBool ZifyN ZifyNat.
Local Open Scope N_scope.
Ltac Zify.zify_post_hook ::= Z.div_mod_to_equations.

(* ---------- widths ---------- *)

Lemma group_norm_width_cases x :
  group_norm_width x = 1 \/ group_norm_width x = 2 \/ group_norm_width x = 4 \/ group_norm_width x = 8.
Proof.
  unfold group_norm_width. cbv zeta.
  destruct (N.of_nat (ext_width x) <=? 1); [tauto|].
  destruct (N.of_nat (ext_width x) <=? 2); [tauto|].
  destruct (N.of_nat (ext_width x) <=? 4); tauto.
Qed.

Lemma group_norm_width_ok x : dfg_width_ok (group_norm_width x) = true.
Proof.
  apply dfg_width_ok_iff. pose proof (group_norm_width_cases x). lia.
Qed.

Lemma group_norm_width_ge x : N.of_nat (ext_width x) <= group_norm_width x \/ 8 < N.of_nat (ext_width x).
Proof.
  unfold group_norm_width. cbv zeta.
  destruct (N.of_nat (ext_width x) <=? 1) eqn:E1; [lia|].
  destruct (N.of_nat (ext_width x) <=? 2) eqn:E2; [lia|].
  destruct (N.of_nat (ext_width x) <=? 4) eqn:E3; lia.
Qed.

Theorem group_norm_width_fits x : x < 18446744073709551616 ->
  x < 256 ^ group_norm_width x /\ In (group_norm_width x) [1; 2; 4; 8].
Proof.
  intro H. split.
  - pose proof (ext_width_lt x H) as L. pose proof (ext_width_range x H) as R.
    destruct (group_norm_width_ge x) as [G|G]; [|lia].
    apply N.lt_le_trans with (1 := L). apply N.pow_le_mono_r; lia.
  - destruct (group_norm_width_cases x) as [C|[C|[C|C]]]; rewrite C; cbn [In]; tauto.
Qed.

Lemma group_width_encode_lt w : group_width_encode w < 4.
Proof.
  unfold group_width_encode.
  repeat match goal with |- context [match ?x with _ => _ end] => destruct x end; lia.
Qed.

Lemma land3 x : N.land x 3 = x mod 4.
Proof. change 3 with (N.ones 2). rewrite N.land_ones. reflexivity. Qed.

Lemma group_width_decode_cases e :
  group_width_decode e = 1 \/ group_width_decode e = 2 \/ group_width_decode e = 4 \/ group_width_decode e = 8.
Proof.
  unfold group_width_decode, VARINT_GROUP_WIDTH_MASK. rewrite land3.
  assert (C : e mod 4 = 0 \/ e mod 4 = 1 \/ e mod 4 = 2 \/ e mod 4 = 3) by lia.
  destruct C as [C|[C|[C|C]]]; rewrite C; tauto.
Qed.

Lemma group_width_decode_ok e : dfg_width_ok (group_width_decode e) = true.
Proof.
  apply dfg_width_ok_iff. pose proof (group_width_decode_cases e). lia.
Qed.

Lemma group_width_decode_encode x :
  group_width_decode (group_width_encode (group_norm_width x)) = group_norm_width x.
Proof.
  destruct (group_norm_width_cases x) as [C|[C|[C|C]]]; rewrite C; reflexivity.
Qed.

(* ---------- one bitmap byte ---------- *)

(* the 2-bit field of index i inside the byte that holds it *)
Definition fcode (b i : N) : N := N.land (shr b ((i * 2) mod 8)) 3.

Lemma new_byte b e k : b < 4 ^ (k mod 4) -> e < 4 ->
  u8 (N.lor b (e * 2 ^ ((k * 2) mod 8))) = b + e * 4 ^ (k mod 4).
Proof.
  intros Hb He. rewrite N.lor_comm.
  assert (C : k mod 4 = 0 \/ k mod 4 = 1 \/ k mod 4 = 2 \/ k mod 4 = 3) by lia.
  destruct C as [C|[C|[C|C]]]; rewrite C in *.
  - replace ((k * 2) mod 8) with 0 by lia.
    rewrite lor_add_disjoint by (change (2 ^ 0) with 1; change (4 ^ 0) with 1 in Hb; lia).
    unfold u8. change (2 ^ 0) with 1. change (4 ^ 0) with 1 in *. rewrite N.mod_small by lia. lia.
  - replace ((k * 2) mod 8) with 2 by lia.
    rewrite lor_add_disjoint by (change (2 ^ 2) with 4; change (4 ^ 1) with 4 in Hb; lia).
    unfold u8. change (2 ^ 2) with 4. change (4 ^ 1) with 4 in *. rewrite N.mod_small by lia. lia.
  - replace ((k * 2) mod 8) with 4 by lia.
    rewrite lor_add_disjoint by (change (2 ^ 4) with 16; change (4 ^ 2) with 16 in Hb; lia).
    unfold u8. change (2 ^ 4) with 16. change (4 ^ 2) with 16 in *. rewrite N.mod_small by lia. lia.
  - replace ((k * 2) mod 8) with 6 by lia.
    rewrite lor_add_disjoint by (change (2 ^ 6) with 64; change (4 ^ 3) with 64 in Hb; lia).
    unfold u8. change (2 ^ 6) with 64. change (4 ^ 3) with 64 in *. rewrite N.mod_small by lia. lia.
Qed.

Lemma fcode_eq b i : fcode b i = (b / 4 ^ (i mod 4)) mod 4.
Proof.
  unfold fcode, shr. rewrite land3.
  assert (C : i mod 4 = 0 \/ i mod 4 = 1 \/ i mod 4 = 2 \/ i mod 4 = 3) by lia.
  destruct C as [C|[C|[C|C]]]; rewrite C.
  - replace ((i * 2) mod 8) with 0 by lia. reflexivity.
  - replace ((i * 2) mod 8) with 2 by lia. reflexivity.
  - replace ((i * 2) mod 8) with 4 by lia. reflexivity.
  - replace ((i * 2) mod 8) with 6 by lia. reflexivity.
Qed.

(* reading the freshly written field *)
Lemma fcode_new_same b e k : b < 4 ^ (k mod 4) -> e < 4 ->
  fcode (b + e * 4 ^ (k mod 4)) k = e.
Proof.
  intros Hb He. rewrite fcode_eq.
  assert (C : k mod 4 = 0 \/ k mod 4 = 1 \/ k mod 4 = 2 \/ k mod 4 = 3) by lia.
  destruct C as [C|[C|[C|C]]]; rewrite C in *.
  - change (4 ^ 0) with 1 in *. lia.
  - change (4 ^ 1) with 4 in *. lia.
  - change (4 ^ 2) with 16 in *. lia.
  - change (4 ^ 3) with 64 in *. lia.
Qed.

(* earlier fields of the same byte are untouched *)
Lemma fcode_new_other b e k i : i mod 4 < k mod 4 ->
  fcode (b + e * 4 ^ (k mod 4)) i = fcode b i.
Proof.
  intros Hik. rewrite !fcode_eq.
  assert (C : k mod 4 = 0 \/ k mod 4 = 1 \/ k mod 4 = 2 \/ k mod 4 = 3) by lia.
  assert (D : i mod 4 = 0 \/ i mod 4 = 1 \/ i mod 4 = 2 \/ i mod 4 = 3) by lia.
  destruct C as [C|[C|[C|C]]]; rewrite C in *;
  destruct D as [D|[D|[D|D]]]; rewrite D in *; try (exfalso; lia);
  change (4 ^ 0) with 1; change (4 ^ 1) with 4; change (4 ^ 2) with 16; change (4 ^ 3) with 64;
  clear C D Hik; lia.
Qed.

Lemma new_byte_lt b e k : b < 4 ^ (k mod 4) -> e < 4 ->
  b + e * 4 ^ (k mod 4) < 4 ^ (k mod 4 + 1).
Proof.
  intros Hb He.
  assert (C : k mod 4 = 0 \/ k mod 4 = 1 \/ k mod 4 = 2 \/ k mod 4 = 3) by lia.
  destruct C as [C|[C|[C|C]]]; rewrite C in *.
  - change (4 ^ (0 + 1)) with 4. change (4 ^ 0) with 1 in *. lia.
  - change (4 ^ (1 + 1)) with 16. change (4 ^ 1) with 4 in *. lia.
  - change (4 ^ (2 + 1)) with 64. change (4 ^ 2) with 16 in *. lia.
  - change (4 ^ (3 + 1)) with 256. change (4 ^ 3) with 64 in *. lia.
Qed.

(* ---------- group_or_at ---------- *)

Lemma length_group_or_at bm p x : length (group_or_at bm p x) = length bm.
Proof.
  revert p. induction bm as [|b t IH]; intro p; [reflexivity|].
  destruct p as [|p]; cbn [group_or_at length]; [reflexivity|]. rewrite IH. reflexivity.
Qed.

Lemma nth_group_or_at_other bm p x j : j <> p -> nth j (group_or_at bm p x) 0 = nth j bm 0.
Proof.
  revert p j. induction bm as [|b t IH]; intros p j H; [reflexivity|].
  destruct p as [|p]; destruct j as [|j]; cbn [group_or_at nth]; try reflexivity.
  - congruence.
  - apply IH. congruence.
Qed.

Lemma nth_group_or_at_same bm p x : (p < length bm)%nat ->
  nth p (group_or_at bm p x) 0 = u8 (N.lor (nth p bm 0) x).
Proof.
  revert p. induction bm as [|b t IH]; intros p H; cbn [length] in H; [lia|].
  destruct p as [|p]; cbn [group_or_at nth]; [reflexivity|]. apply IH. lia.
Qed.

(* ---------- the bitmap loop ---------- *)

(* field code i read from a bare bitmap *)
Definition rd (bm : list N) (i : N) : N := fcode (nth (N.to_nat ((i * 2) / 8)) bm 0) i.

Lemma build_bitmap_inv ws : forall k bm,
  k + N.of_nat (length ws) <= 4 * N.of_nat (length bm) ->
  (forall j, (N.to_nat (k / 4) < j)%nat -> nth j bm 0 = 0) ->
  nth (N.to_nat (k / 4)) bm 0 < 4 ^ (k mod 4) ->
  length (group_build_bitmap ws k bm) = length bm /\
  (forall i, i < k -> rd (group_build_bitmap ws k bm) i = rd bm i) /\
  (forall i, (i < length ws)%nat ->
     rd (group_build_bitmap ws k bm) (k + N.of_nat i) = group_width_encode (nth i ws 0)).
Proof.
  induction ws as [|w t IH]; intros k bm Hlen Hz Hb.
  - cbn [group_build_bitmap length]. split; [reflexivity|]. split; [reflexivity|]. intros i Hi. lia.
  - cbn [group_build_bitmap]. cbv zeta. unfold VARINT_GROUP_WIDTH_BITS.
    cbn [length] in Hlen. rewrite Nat2N.inj_succ in Hlen.
    set (e := group_width_encode w).
    assert (He : e < 4) by apply group_width_encode_lt.
    replace (k * 2 / 8) with (k / 4) by lia.
    set (p := N.to_nat (k / 4)) in *.
    assert (Hp : (p < length bm)%nat) by lia.
    set (bm' := group_or_at bm p (e * 2 ^ ((k * 2) mod 8))).
    assert (Lbm' : length bm' = length bm) by apply length_group_or_at.
    assert (Nb : nth p bm' 0 = nth p bm 0 + e * 4 ^ (k mod 4)).
    { unfold bm'. rewrite nth_group_or_at_same by exact Hp.
      apply new_byte; [exact Hb|exact He]. }
    assert (No : forall j, j <> p -> nth j bm' 0 = nth j bm 0).
    { intros j Hj. unfold bm'. apply nth_group_or_at_other. exact Hj. }
    destruct (IH (k + 1) bm') as (I1 & I2 & I3).
    + rewrite Lbm'. lia.
    + intros j Hj. rewrite No by lia. apply Hz. lia.
    + assert (C : k mod 4 = 3 \/ k mod 4 < 3) by lia. destruct C as [C|C].
      * replace ((k + 1) mod 4) with 0 by lia. change (4 ^ 0) with 1.
        rewrite No by lia. rewrite Hz by lia. lia.
      * replace (N.to_nat ((k + 1) / 4)) with p by lia.
        replace ((k + 1) mod 4) with (k mod 4 + 1) by lia.
        rewrite Nb. apply new_byte_lt; [exact Hb|exact He].
    + split; [lia|]. split.
      * intros i Hi. rewrite I2 by lia. unfold rd.
        destruct (Nat.eq_dec (N.to_nat (i * 2 / 8)) p) as [Q|Q].
        -- rewrite Q, Nb. apply fcode_new_other. lia.
        -- rewrite No by exact Q. reflexivity.
      * intros i Hi. destruct i as [|i].
        -- cbn [nth]. change (N.of_nat 0) with 0. rewrite N.add_0_r.
           rewrite I2 by lia. unfold rd. replace (k * 2 / 8) with (k / 4) by lia. fold p. rewrite Nb.
           apply fcode_new_same; [exact Hb|exact He].
        -- cbn [nth]. cbn [length] in Hi.
           replace (k + N.of_nat (S i)) with (k + 1 + N.of_nat i) by lia.
           apply I3. lia.
Qed.

(* ---------- the encoder, explicitly ---------- *)

Definition gbody (xs : list N) : list N :=
  flat_map (fun v => le_bytes (N.to_nat (group_norm_width v)) v) xs.

Definition gbm (xs : list N) : list N :=
  group_build_bitmap (map group_norm_width xs) 0
    (repeat 0 (N.to_nat (group_bitmap_size (N.of_nat (length xs))))).

Lemma group_put_values_eq xs : group_put_values xs (map group_norm_width xs) = Some (gbody xs).
Proof.
  induction xs as [|x t IH]; [reflexivity|].
  cbn [map group_put_values gbody flat_map]. unfold dfg_ext_put.
  rewrite group_norm_width_ok, IH. reflexivity.
Qed.

Lemma u8_small n : n < 256 -> u8 n = n.
Proof. intro H. unfold u8. apply N.mod_small. exact H. Qed.

Lemma group_encode_eq xs : (1 <= length xs <= 64)%nat ->
  group_encode xs (N.of_nat (length xs)) = Some (N.of_nat (length xs) :: gbm xs ++ gbody xs).
Proof.
  intro H. unfold group_encode, VARINT_GROUP_MAX_FIELDS.
  destruct ((N.of_nat (length xs) =? 0) || (64 <? N.of_nat (length xs))) eqn:E1; [exfalso; lia|].
  rewrite Nat2N.id.
  destruct (length xs <? length xs)%nat eqn:E2; [exfalso; lia|].
  cbv zeta. rewrite firstn_all, group_put_values_eq, u8_small by lia. reflexivity.
Qed.

Lemma length_gbm xs : length (gbm xs) = N.to_nat (group_bitmap_size (N.of_nat (length xs))).
Proof.
  unfold gbm. set (L := N.to_nat (group_bitmap_size (N.of_nat (length xs)))).
  destruct (build_bitmap_inv (map group_norm_width xs) 0 (repeat 0 L)) as (I1 & _).
  - rewrite map_length, repeat_length. unfold L, group_bitmap_size, VARINT_GROUP_WIDTH_BITS. lia.
  - intros j _. apply nth_repeat.
  - rewrite nth_repeat. change (4 ^ (0 mod 4)) with 1. lia.
  - rewrite I1. apply repeat_length.
Qed.

Lemma rd_gbm xs i : (i < length xs)%nat ->
  rd (gbm xs) (N.of_nat i) = group_width_encode (group_norm_width (nth i xs 0)).
Proof.
  intro Hi. unfold gbm. set (L := N.to_nat (group_bitmap_size (N.of_nat (length xs)))).
  destruct (build_bitmap_inv (map group_norm_width xs) 0 (repeat 0 L)) as (_ & _ & I3).
  - rewrite map_length, repeat_length. unfold L, group_bitmap_size, VARINT_GROUP_WIDTH_BITS. lia.
  - intros j _. apply nth_repeat.
  - rewrite nth_repeat. change (4 ^ (0 mod 4)) with 1. lia.
  - specialize (I3 i). rewrite map_length in I3. specialize (I3 Hi).
    rewrite N.add_0_l in I3. rewrite I3. f_equal.
    rewrite <- (map_nth group_norm_width xs 0 i).
    apply nth_indep. rewrite map_length. exact Hi.
Qed.

(* the key bitmap property *)
Lemma group_field_code_enc xs rest i : (i < length xs)%nat ->
  group_field_code (N.of_nat (length xs) :: gbm xs ++ rest) (N.of_nat i)
  = group_width_encode (group_norm_width (nth i xs 0)).
Proof.
  intro Hi. rewrite <- rd_gbm by exact Hi.
  unfold group_field_code, rd, fcode, VARINT_GROUP_WIDTH_BITS, VARINT_GROUP_WIDTH_MASK. cbv zeta.
  replace (N.to_nat (1 + N.of_nat i * 2 / 8)) with (S (N.to_nat (N.of_nat i * 2 / 8))) by lia.
  rewrite byte_at_cons_S, byte_at_app_l.
  - reflexivity.
  - rewrite length_gbm. unfold group_bitmap_size, VARINT_GROUP_WIDTH_BITS. lia.
Qed.

Lemma group_width_field_enc xs rest i : (i < length xs)%nat ->
  group_width_decode (group_field_code (N.of_nat (length xs) :: gbm xs ++ rest) (N.of_nat i))
  = group_norm_width (nth i xs 0).
Proof.
  intro Hi. rewrite group_field_code_enc by exact Hi. apply group_width_decode_encode.
Qed.

(* ---------- lists ---------- *)

Lemma skipn_nth_cons (l : list N) : forall k, (k < length l)%nat ->
  skipn k l = nth k l 0 :: skipn (S k) l.
Proof.
  induction l as [|a t IH]; intros k H; cbn [length] in H; [lia|].
  destruct k as [|k]; [reflexivity|].
  cbn [skipn nth]. rewrite IH by lia. reflexivity.
Qed.

Lemma group_widths_spec src xs :
  (forall i, (i < length xs)%nat ->
     group_width_decode (group_field_code src (N.of_nat i)) = group_norm_width (nth i xs 0)) ->
  forall m k, (k + m <= length xs)%nat ->
  group_widths src (N.of_nat k) m = map group_norm_width (firstn m (skipn k xs)).
Proof.
  intros H m. induction m as [|m IH]; intros k Hk; [reflexivity|].
  cbn [group_widths]. rewrite (skipn_nth_cons xs k) by lia. cbn [firstn map].
  rewrite H by lia. f_equal.
  replace (N.of_nat k + 1) with (N.of_nat (S k)) by lia. apply IH. lia.
Qed.

Lemma group_widths_enc xs rest m : (m <= length xs)%nat ->
  group_widths (N.of_nat (length xs) :: gbm xs ++ rest) 0 m = map group_norm_width (firstn m xs).
Proof.
  intro Hm. change 0 with (N.of_nat 0).
  rewrite (group_widths_spec _ xs) by (try lia; intros i Hi; apply group_width_field_enc; exact Hi).
  reflexivity.
Qed.

Lemma group_sum_app a b : group_sum (a ++ b) = group_sum a + group_sum b.
Proof. induction a as [|x t IH]; cbn [app group_sum]; [reflexivity|]. rewrite IH. lia. Qed.

Lemma length_gbody xs : N.of_nat (length (gbody xs)) = group_sum (map group_norm_width xs).
Proof.
  induction xs as [|x t IH]; [reflexivity|].
  cbn [gbody flat_map map group_sum]. rewrite app_length, length_le_bytes.
  fold (gbody t). lia.
Qed.

Lemma gbody_app a b : gbody (a ++ b) = gbody a ++ gbody b.
Proof. unfold gbody. apply flat_map_app. Qed.

Lemma group_get_values_enc xs post : Forall (fun x => x < 18446744073709551616) xs ->
  group_get_values (gbody xs ++ post) (map group_norm_width xs) = Some xs.
Proof.
  induction 1 as [|x t Hx Ht IH]; [reflexivity|].
  cbn [gbody flat_map map group_get_values]. fold (gbody t). rewrite <- app_assoc.
  rewrite dfg_ext_get_put by (try apply group_norm_width_ok; apply group_norm_width_fits; exact Hx).
  rewrite skipn_app_exact by apply length_le_bytes. rewrite IH. reflexivity.
Qed.

Lemma length_enc xs :
  N.of_nat (length (N.of_nat (length xs) :: gbm xs ++ gbody xs))
  = 1 + group_bitmap_size (N.of_nat (length xs)) + group_sum (map group_norm_width xs).
Proof.
  cbn [length]. rewrite app_length, length_gbm. rewrite <- length_gbody. lia.
Qed.

Lemma skipn_header xs rest :
  skipn (N.to_nat (1 + group_bitmap_size (N.of_nat (length xs))))
        (N.of_nat (length xs) :: gbm xs ++ rest) = rest.
Proof.
  replace (N.to_nat (1 + group_bitmap_size (N.of_nat (length xs))))
    with (S (N.to_nat (group_bitmap_size (N.of_nat (length xs))))) by lia.
  cbn [skipn]. apply skipn_app_exact. apply length_gbm.
Qed.

(* ---------- C02 ---------- *)

Theorem group_roundtrip xs post cap :
  (1 <= length xs <= 64)%nat -> Forall (fun x => x < 18446744073709551616) xs ->
  N.of_nat (length xs) <= cap ->
  exists enc, group_encode xs (N.of_nat (length xs)) = Some enc /\
    group_decode (enc ++ post) cap = Some (N.of_nat (length enc), Some (N.of_nat (length xs)), xs).
Proof.
  intros Hn Hx Hcap. eexists. split; [apply group_encode_eq; exact Hn|].
  rewrite length_enc.
  unfold group_decode, VARINT_GROUP_MAX_FIELDS. cbv zeta.
  cbn [app]. rewrite byte_at_cons_0.
  set (n := N.of_nat (length xs)) in *.
  destruct ((n =? 0) || (64 <? n) || (cap <? n)) eqn:E; [exfalso; lia|].
  unfold n. rewrite Nat2N.id. rewrite <- app_assoc.
  rewrite group_widths_enc by lia. rewrite firstn_all.
  rewrite skipn_header, group_get_values_enc by exact Hx. reflexivity.
Qed.

Lemma gbody_split xs i : (i < length xs)%nat ->
  gbody xs = gbody (firstn i xs)
             ++ le_bytes (N.to_nat (group_norm_width (nth i xs 0))) (nth i xs 0)
             ++ gbody (skipn (S i) xs).
Proof.
  intro Hi. rewrite <- (firstn_skipn i xs) at 1. rewrite gbody_app.
  rewrite (skipn_nth_cons xs i) by exact Hi. reflexivity.
Qed.

Lemma skipn_add (a : nat) : forall b (l : list N), skipn (b + a) l = skipn a (skipn b l).
Proof.
  induction b as [|b IH]; intro l; [reflexivity|].
  destruct l as [|x t]; [rewrite !skipn_nil; reflexivity|].
  cbn [Nat.add skipn]. apply IH.
Qed.

Lemma sum_firstn_S xs : forall i, (i < length xs)%nat ->
  group_sum (map group_norm_width (firstn (S i) xs))
  = group_sum (map group_norm_width (firstn i xs)) + group_norm_width (nth i xs 0).
Proof.
  induction xs as [|x t IH]; intros i Hi; cbn [length] in Hi; [lia|].
  destruct i as [|i].
  - cbn [firstn map group_sum nth]. lia.
  - change (firstn (S (S i)) (x :: t)) with (x :: firstn (S i) t).
    change (firstn (S i) (x :: t)) with (x :: firstn i t).
    cbn [map group_sum nth]. rewrite IH by lia. lia.
Qed.

Theorem group_get_field_ok xs post i :
  (1 <= length xs <= 64)%nat -> Forall (fun x => x < 18446744073709551616) xs -> (i < length xs)%nat ->
  exists enc, group_encode xs (N.of_nat (length xs)) = Some enc /\
    group_get_field (enc ++ post) (N.of_nat i)
    = Some (1 + group_bitmap_size (N.of_nat (length xs)) + group_sum (map group_norm_width (firstn (S i) xs)),
            Some (nth i xs 0)).
Proof.
  intros Hn Hx Hi. eexists. split; [apply group_encode_eq; exact Hn|].
  unfold group_get_field. cbv zeta. cbn [app]. rewrite byte_at_cons_0.
  destruct ((N.of_nat (length xs) =? 0) || (N.of_nat (length xs) <=? N.of_nat i)) eqn:E; [exfalso; lia|].
  rewrite Nat2N.id. rewrite <- app_assoc.
  rewrite group_width_field_enc by exact Hi.
  rewrite group_widths_enc by lia.
  set (s := group_sum (map group_norm_width (firstn i xs))).
  replace (N.to_nat (1 + group_bitmap_size (N.of_nat (length xs)) + s))
    with (N.to_nat (1 + group_bitmap_size (N.of_nat (length xs))) + N.to_nat s)%nat by lia.
  rewrite skipn_add, skipn_header.
  rewrite (gbody_split xs i) by exact Hi. rewrite <- !app_assoc.
  rewrite skipn_app_exact by (unfold s; rewrite <- length_gbody; symmetry; apply Nat2N.id).
  assert (Hxi : nth i xs 0 < 18446744073709551616).
  { rewrite Forall_forall in Hx. apply Hx. apply nth_In. exact Hi. }
  rewrite dfg_ext_get_put by (try apply group_norm_width_ok; apply group_norm_width_fits; exact Hxi).
  rewrite sum_firstn_S by exact Hi. fold s. rewrite N.add_assoc. reflexivity.
Qed.

(* ---------- C03 / C16 ---------- *)

Theorem group_size_exact xs :
  (1 <= length xs <= 64)%nat -> Forall (fun x => x < 18446744073709551616) xs ->
  exists enc, group_encode xs (N.of_nat (length xs)) = Some enc /\
    group_size xs (N.of_nat (length xs)) = Some (N.of_nat (length enc)).
Proof.
  intros Hn _. eexists. split; [apply group_encode_eq; exact Hn|].
  rewrite length_enc. unfold group_size, VARINT_GROUP_MAX_FIELDS.
  destruct ((N.of_nat (length xs) =? 0) || (64 <? N.of_nat (length xs))) eqn:E1; [exfalso; lia|].
  rewrite Nat2N.id.
  destruct (length xs <? length xs)%nat eqn:E2; [exfalso; lia|].
  rewrite firstn_all. reflexivity.
Qed.

Theorem group_refused xs fc : fc = 0 \/ 64 < fc -> group_encode xs fc = Some [] /\ group_size xs fc = Some 0.
Proof.
  intro H. unfold group_encode, group_size, VARINT_GROUP_MAX_FIELDS.
  destruct ((fc =? 0) || (64 <? fc)) eqn:E; [|exfalso; lia]. split; reflexivity.
Qed.

Theorem group_get_size_ok xs post :
  (1 <= length xs <= 64)%nat -> Forall (fun x => x < 18446744073709551616) xs ->
  exists enc, group_encode xs (N.of_nat (length xs)) = Some enc /\
    group_get_size (enc ++ post) = N.of_nat (length enc) /\
    group_get_field_count (enc ++ post) = N.of_nat (length xs).
Proof.
  intros Hn _. eexists. split; [apply group_encode_eq; exact Hn|].
  rewrite length_enc. unfold group_get_size, group_get_field_count, VARINT_GROUP_MAX_FIELDS.
  cbv zeta. cbn [app]. rewrite byte_at_cons_0. split; [|reflexivity].
  destruct ((N.of_nat (length xs) =? 0) || (64 <? N.of_nat (length xs))) eqn:E1; [exfalso; lia|].
  rewrite Nat2N.id. rewrite <- app_assoc. rewrite group_widths_enc by lia.
  rewrite firstn_all. reflexivity.
Qed.

Theorem group_get_field_width_ok xs post i :
  (1 <= length xs <= 64)%nat -> Forall (fun x => x < 18446744073709551616) xs -> (i < length xs)%nat ->
  exists enc, group_encode xs (N.of_nat (length xs)) = Some enc /\
    group_get_field_width (enc ++ post) (N.of_nat i) = group_norm_width (nth i xs 0).
Proof.
  intros Hn _ Hi. eexists. split; [apply group_encode_eq; exact Hn|].
  unfold group_get_field_width. cbv zeta. cbn [app]. rewrite byte_at_cons_0.
  destruct ((N.of_nat (length xs) =? 0) || (N.of_nat (length xs) <=? N.of_nat i)) eqn:E; [exfalso; lia|].
  rewrite <- app_assoc. apply group_width_field_enc. exact Hi.
Qed.

(* ---------- C13: arbitrary input bytes ---------- *)

Lemma group_widths_ok src : forall m k,
  Forall (fun w => dfg_width_ok w = true) (group_widths src k m).
Proof.
  induction m as [|m IH]; intro k; cbn [group_widths]; constructor.
  - apply group_width_decode_ok.
  - apply IH.
Qed.

Lemma length_group_widths src : forall m k, length (group_widths src k m) = m.
Proof.
  induction m as [|m IH]; intro k; cbn [group_widths length]; [reflexivity|].
  rewrite IH. reflexivity.
Qed.

Lemma group_get_values_total ws : Forall (fun w => dfg_width_ok w = true) ws ->
  forall p, exists vs, group_get_values p ws = Some vs /\ length vs = length ws.
Proof.
  induction 1 as [|w t Hw Ht IH]; intro p.
  - exists []. split; reflexivity.
  - cbn [group_get_values]. unfold dfg_ext_get. rewrite Hw.
    destruct (IH (skipn (N.to_nat w) p)) as (vs & E & L). rewrite E.
    eexists. split; [reflexivity|]. cbn [length]. rewrite L. reflexivity.
Qed.

Theorem group_decode_total z cap : group_decode z cap <> None.
Proof.
  unfold group_decode. cbv zeta.
  destruct ((byte_at z 0 =? 0) || (VARINT_GROUP_MAX_FIELDS <? byte_at z 0) || (cap <? byte_at z 0));
    [discriminate|].
  destruct (group_get_values_total _ (group_widths_ok z (N.to_nat (byte_at z 0)) 0)
              (skipn (N.to_nat (1 + group_bitmap_size (byte_at z 0))) z)) as (vs & E & _).
  rewrite E. discriminate.
Qed.

Theorem group_decode_cap z cap r fc out : group_decode z cap = Some (r, fc, out) ->
  N.of_nat (length out) <= cap /\
  (r = 0 -> out = [] /\ fc = None) /\ (r <> 0 -> fc = Some (N.of_nat (length out))).
Proof.
  unfold group_decode, VARINT_GROUP_MAX_FIELDS. cbv zeta.
  destruct ((byte_at z 0 =? 0) || (64 <? byte_at z 0) || (cap <? byte_at z 0)) eqn:E.
  - intro H. injection H as <- <- <-. cbn [length]. split; [lia|]. split; [tauto|congruence].
  - destruct (group_get_values_total _ (group_widths_ok z (N.to_nat (byte_at z 0)) 0)
                (skipn (N.to_nat (1 + group_bitmap_size (byte_at z 0))) z)) as (vs & E1 & L).
    rewrite E1. rewrite length_group_widths in L.
    match goal with |- Some (?t, _, _) = _ -> _ => remember t as r0 eqn:Er0 end.
    intro H. injection H as <- <- <-. rewrite L, N2Nat.id.
    split; [lia|]. split; [intro H0; exfalso; lia|reflexivity].
Qed.

Theorem group_decode_short z cap : cap < byte_at z 0 -> group_decode z cap = Some (0, None, []).
Proof.
  intro H. unfold group_decode. cbv zeta.
  destruct ((byte_at z 0 =? 0) || (VARINT_GROUP_MAX_FIELDS <? byte_at z 0) || (cap <? byte_at z 0)) eqn:E;
    [reflexivity|exfalso; lia].
Qed.

Theorem group_decode_cap_valid xs post cap :
  (1 <= length xs <= 64)%nat -> Forall (fun x => x < 18446744073709551616) xs ->
  cap < N.of_nat (length xs) ->
  exists enc, group_encode xs (N.of_nat (length xs)) = Some enc /\
    group_decode (enc ++ post) cap = Some (0, None, []).
Proof.
  intros Hn _ Hcap. eexists. split; [apply group_encode_eq; exact Hn|].
  apply group_decode_short. cbn [app]. rewrite byte_at_cons_0. exact Hcap.
Qed.
