(* PackedSpec.v — the reference the sorted packed array is compared with: a
   plain sorted list of values (a sorted multiset) and the usual list
   operations.  Independent of the model's slot arithmetic. *)
Require Import VV.Base.
Local Open Scope N_scope.

(* sorted insert: before the first element that is not smaller (so before equal ones) *)
Fixpoint ins (v : N) (xs : list N) : list N :=
  match xs with
  | [] => [v]
  | x :: t => if x <? v then x :: ins v t else v :: x :: t
  end.

(* remove the first element equal to v, if any *)
Fixpoint remove_first (v : N) (xs : list N) : list N :=
  match xs with
  | [] => []
  | x :: t => if x =? v then t else x :: remove_first v t
  end.

(* index of the first element equal to v, or -1 *)
Fixpoint find_first (xs : list N) (v : N) : Z :=
  match xs with
  | [] => (-1)%Z
  | x :: t => if x =? v then 0%Z
              else let r := find_first t v in if (r <? 0)%Z then (-1)%Z else (r + 1)%Z
  end.

(* lower bound: number of leading elements smaller than v (= index of the
   first element >= v, = length when there is none) *)
Fixpoint lower_bound (xs : list N) (v : N) : nat :=
  match xs with
  | [] => O
  | x :: t => if x <? v then S (lower_bound t v) else O
  end.

Definition mem (v : N) (xs : list N) : bool := existsb (N.eqb v) xs.

(* positional operations *)
Definition insert_at (xs : list N) (pos : nat) (v : N) : list N := firstn pos xs ++ v :: skipn pos xs.
Definition delete_at (xs : list N) (pos : nat) : list N := firstn pos xs ++ skipn (S pos) xs.

(* the operations on a sorted array and their reference results *)
Inductive sop : Type :=
| SInsertSorted (v : N)
| SDeleteMember (v : N)
| SMember (v : N)
| SSearch (v : N).

Definition sop_val (o : sop) : N :=
  match o with SInsertSorted v | SDeleteMember v | SMember v | SSearch v => v end.

Definition spec_step (xs : list N) (o : sop) : list N * Z :=
  match o with
  | SInsertSorted v => (ins v xs, 0%Z)
  | SDeleteMember v => (remove_first v xs, if mem v xs then 1%Z else 0%Z)
  | SMember v => (xs, find_first xs v)
  | SSearch v => (xs, Z.of_nat (lower_bound xs v))
  end.

Fixpoint spec_run (xs : list N) (ops : list sop) : list N * list Z :=
  match ops with
  | [] => (xs, [])
  | o :: rest =>
      let '(xs1, r) := spec_step xs o in
      let '(xs2, rs) := spec_run xs1 rest in (xs2, r :: rs)
  end.

(* the history never holds more than cap elements (checked before each insert) *)
Fixpoint spec_fits (cap : nat) (xs : list N) (ops : list sop) : Prop :=
  match ops with
  | [] => True
  | o :: rest =>
      (match o with SInsertSorted _ => (length xs < cap)%nat | _ => True end) /\
      spec_fits cap (fst (spec_step xs o)) rest
  end.
