(* Properties_C03_adaptive.v — property C03 (encoders never write more than their
   advertised size) for the adaptive container: whatever varintAdaptiveEncodeWith
   (any code, any array — in or out of the encoding's documented domain) and
   varintAdaptiveEncode write stays inside varintAdaptiveMaxSize(count) =
   1 + 20 + 22 * count (after fix F09), and the returned length / meta.encodedSize is
   the number of bytes written (C06_adaptive_*: am_size m = length bytes).
   The model's encoders return exactly the bytes written: `adp_written r` is the extent
   touched, also when the call reports failure (AEFail: the type byte). *)
Require Import VV.Base VV.Adaptive VV.AdaptiveTheorems.
Local Open Scope N_scope.

Theorem C03_adaptive_encode_with_bound : forall xs e,
  Forall (fun x => x < 18446744073709551616) xs -> N.of_nat (length xs) < 4294967296 ->
  N.of_nat (length (match adp_encode_with xs e with AEOk b _ => b | AEFail b => b | AEUB => [] end))
  <= adp_max_size (N.of_nat (length xs)).
Proof. exact adp_encode_with_bound. Qed.
Print Assumptions C03_adaptive_encode_with_bound.

Theorem C03_adaptive_encode_bound : forall xs,
  Forall (fun x => x < 18446744073709551616) xs -> N.of_nat (length xs) < 4294967296 ->
  N.of_nat (length (match adp_encode xs with AEOk b _ => b | AEFail b => b | AEUB => [] end))
  <= adp_max_size (N.of_nat (length xs)).
Proof. exact adp_encode_bound. Qed.
Print Assumptions C03_adaptive_encode_bound.

(* the bound in closed form (no wrap-around below 2^59 elements) *)
Theorem C03_adaptive_max_size_value : forall n, n < 576460752303423488 -> adp_max_size n = 21 + 22 * n.
Proof. exact adp_max_size_eq. Qed.
Print Assumptions C03_adaptive_max_size_value.

(* non-vacuity: the former witnesses.  PFOR with every value but one an exception
   (31 bytes for 2 values, old bound 19), FOR / DICT on one value (13 bytes, old bound 10),
   the empty PFOR / BITMAP encodings (5 / 6 bytes, old bound 1) *)
Example C03_adaptive_examples :
  (match adp_encode_with [0; 18446744073709551615] 2 with AEOk b _ => N.of_nat (length b) | _ => 0 end) = 31 /\
  adp_max_size 2 = 65 /\
  (match adp_encode_with [18446744073709551615] 1 with AEOk b _ => N.of_nat (length b) | _ => 0 end) = 13 /\
  (match adp_encode_with [18446744073709551615] 3 with AEOk b _ => N.of_nat (length b) | _ => 0 end) = 13 /\
  adp_max_size 1 = 43 /\
  (match adp_encode_with [] 2 with AEOk b _ => N.of_nat (length b) | _ => 0 end) = 5 /\
  (match adp_encode_with [] 4 with AEOk b _ => N.of_nat (length b) | _ => 0 end) = 6 /\
  adp_max_size 0 = 21.
Proof. vm_compute. repeat split; reflexivity. Qed.
