(* Split16Proofs.v — lemmas about the varintSplitFull16.h model (Split.v). *)
Require Import VV.Base VV.BaseProofs VV.Split VV.SplitSpec VV.SplitLemmas.
From Coq Require Import Lia ZifyBool ZifyN ZifyNat.
Local Open Scope N_scope.
Ltac Zify.zify_post_hook ::= Z.div_mod_to_equations.

Ltac consts16 :=
  unfold SPLIT16_MAX_14, SPLIT16_MAX_22, SPLIT16_MAX_30, SPLIT16_14, SPLIT16_22, SPLIT16_30,
         SPLIT16_VAR, SPLIT16_6_MASK, SPLIT16_MASK in *;
  change (16383 + 4194303 + 1073741823) with 1077952509 in *;
  change (16383 + 4194303) with 4210686 in *.

(* ------------------------------------------------------------------ *)
Lemma split16_length_var_k v : v < 18446744073709551616 ->
  exists k, (4 <= k <= 8)%nat /\ split16_length_var v = 1 + N.of_nat k /\
            v < 256 ^ N.of_nat k /\ (k = 4%nat \/ 256 ^ N.of_nat (k - 1) <= v).
Proof.
  intro Hv. destruct (ext_width_bounds v Hv) as (A & B & C).
  unfold split16_length_var. cbv zeta. set (w := ext_width v) in *.
  destruct (N.of_nat w <=? 4) eqn:E.
  - exists 4%nat. split; [lia|]. split; [reflexivity|]. split; [|left; reflexivity].
    pose proof (pow256_mono w 4 ltac:(lia)). lia.
  - exists w. split; [lia|]. split; [unfold u8; lia|]. split; [exact B|].
    right. destruct C as [C|C]; [lia|exact C].
Qed.

Inductive split16_class (x : N) : Prop :=
| S16_0 : x <= 16383 -> split16_class x
| S16_1 : 16383 < x <= 4210686 -> split16_class x
| S16_2 : 4210686 < x <= 1077952509 -> split16_class x
| S16_V (k : nat) : (4 <= k <= 8)%nat -> 1077952509 < x ->
    split16_length_var (x - 1077952509) = 1 + N.of_nat k ->
    x - 1077952509 < 256 ^ N.of_nat k ->
    (k = 4%nat \/ 256 ^ N.of_nat (k - 1) <= x - 1077952509) -> split16_class x.

Lemma split16_classify x : x < 18446744073709551616 -> split16_class x.
Proof.
  intro H. destruct (N.le_gt_cases x 16383); [apply S16_0; assumption|].
  destruct (N.le_gt_cases x 4210686); [apply S16_1; lia|].
  destruct (N.le_gt_cases x 1077952509); [apply S16_2; lia|].
  destruct (split16_length_var_k (x - 1077952509)) as (k & A & B & C & D); [lia|].
  apply (S16_V x k); assumption.
Qed.

(* ------------------------------------------------------------------ *)
(* encoder per class                                                   *)
Lemma split16_put_0 x : x <= 16383 -> split16_put x = Some [x / 256; x mod 256].
Proof.
  intro H. unfold split16_put. cbv zeta. rewrite u64_small by lia. consts16.
  destruct (x <=? 16383) eqn:E; [|lia].
  rewrite land63, land255, lor0. unfold shr. change (2 ^ 8) with 256.
  rewrite !u8_small by lia. f_equal. f_equal. lia.
Qed.

Lemma split16_put_1 x : 16383 < x <= 4210686 ->
  split16_put x = Some [64 + (x - 16383) / 65536; ((x - 16383) / 256) mod 256; (x - 16383) mod 256].
Proof.
  intro H. unfold split16_put. cbv zeta. rewrite u64_small by lia. consts16.
  destruct (x <=? 16383) eqn:E; [lia|]. destruct (x <=? 4210686) eqn:E2; [|lia].
  rewrite land63, !land255. unfold shr. change (2 ^ 8) with 256. change (2 ^ 16) with 65536.
  rewrite lor64 by lia. rewrite !u8_small by lia. f_equal. f_equal. lia.
Qed.

Lemma split16_put_2 x : 4210686 < x <= 1077952509 ->
  split16_put x = Some [128 + (x - 4210686) / 16777216; ((x - 4210686) / 65536) mod 256;
                        ((x - 4210686) / 256) mod 256; (x - 4210686) mod 256].
Proof.
  intro H. unfold split16_put. cbv zeta. rewrite u64_small by lia. consts16.
  destruct (x <=? 16383) eqn:E; [lia|]. destruct (x <=? 4210686) eqn:E2; [lia|].
  destruct (x <=? 1077952509) eqn:E3; [|lia].
  rewrite land63, !land255. unfold shr. change (2 ^ 8) with 256. change (2 ^ 16) with 65536.
  change (2 ^ 24) with 16777216.
  rewrite lor128 by lia. rewrite !u8_small by lia. f_equal. f_equal. lia.
Qed.

Lemma split16_put_var x k : (4 <= k <= 8)%nat -> 1077952509 < x < 18446744073709551616 ->
  split16_length_var (x - 1077952509) = 1 + N.of_nat k ->
  split16_put x = Some ((192 + N.of_nat k) :: le_bytes k (x - 1077952509)).
Proof.
  intros Hk Hx Hw. unfold split16_put. cbv zeta. rewrite u64_small by lia. consts16.
  destruct (x <=? 16383) eqn:E; [lia|]. destruct (x <=? 4210686) eqn:E2; [lia|].
  destruct (x <=? 1077952509) eqn:E3; [lia|].
  rewrite Hw. replace (1 + N.of_nat k - 1) with (N.of_nat k) by lia.
  rewrite ext_put_qm by lia.
  rewrite lor192 by lia. rewrite u8_small by lia. reflexivity.
Qed.

(* ------------------------------------------------------------------ *)
(* predicted length                                                    *)
Definition split16_len_chain (x : N) : N :=
  if x <=? 16383 then 2
  else if x <=? 4210686 then 3
  else if x <=? 1077952509 then 4
  else if x <=? 5372919804 then 5
  else if x <=? 1100589580284 then 6
  else if x <=? 281476054663164 then 7
  else if x <=? 72057595115880444 then 8
  else 9.

Lemma split16_length_0 x : x <= 16383 -> split16_length x = 2.
Proof. intro H. unfold split16_length. consts16. kill_ifs. reflexivity. Qed.
Lemma split16_length_1 x : 16383 < x <= 4210686 -> split16_length x = 3.
Proof. intro H. unfold split16_length. consts16. kill_ifs. reflexivity. Qed.
Lemma split16_length_2 x : 4210686 < x <= 1077952509 -> split16_length x = 4.
Proof. intro H. unfold split16_length. consts16. kill_ifs. reflexivity. Qed.
Lemma split16_length_v x : 1077952509 < x ->
  split16_length x = split16_length_var (x - 1077952509).
Proof.
  intro H. unfold split16_length. consts16.
  destruct (x <=? 16383) eqn:E; [lia|]. destruct (x <=? 4210686) eqn:E2; [lia|].
  destruct (x <=? 1077952509) eqn:E3; [lia|]. reflexivity.
Qed.

Lemma split16_length_chain x : x < 18446744073709551616 -> split16_length x = split16_len_chain x.
Proof.
  intro Hx. destruct (split16_classify x Hx) as [H|H|H|k Hk H Hw Hlt Hge].
  - rewrite split16_length_0 by exact H. unfold split16_len_chain. kill_ifs. reflexivity.
  - rewrite split16_length_1 by exact H. unfold split16_len_chain. kill_ifs. reflexivity.
  - rewrite split16_length_2 by exact H. unfold split16_len_chain. kill_ifs. reflexivity.
  - rewrite split16_length_v, Hw by exact H. clear Hw.
    assert (C : (k = 4 \/ k = 5 \/ k = 6 \/ k = 7 \/ k = 8)%nat) by lia.
    destruct C as [C|[C|[C|[C|C]]]]; subst k; norm256; unfold split16_len_chain;
      (destruct Hge as [Hge|Hge]; [try discriminate Hge|]); norm256; kill_ifs; reflexivity.
Qed.

(* ------------------------------------------------------------------ *)
(* specification table unfolded                                        *)
Lemma lv_find_split16 x : lv_find split16_table x =
  if x <=? 16383 then Some (mk_level 0 Embed 1 0)
  else if x <=? 4210686 then Some (mk_level 64 Embed 2 16383)
  else if x <=? 1077952509 then Some (mk_level 128 Embed 3 4210686)
  else if x <=? 5372919804 then Some (mk_level 196 Ext 4 1077952509)
  else if x <=? 1100589580284 then Some (mk_level 197 Ext 5 1077952509)
  else if x <=? 281476054663164 then Some (mk_level 198 Ext 6 1077952509)
  else if x <=? 72057595115880444 then Some (mk_level 199 Ext 7 1077952509)
  else if x <=? 18446744073709551615 then Some (mk_level 200 Ext 8 1077952509)
  else None.
Proof. reflexivity. Qed.

Lemma split16_spec_0 x : x <= 16383 -> split16_spec x = [x / 256; x mod 256].
Proof.
  intro H. unfold split16_spec, lv_encode. rewrite lv_find_split16.
  destruct (x <=? 16383) eqn:E; [|lia].
  unfold lv_emit. cbn [lv_kind_of lv_prefix lv_nbytes lv_base be_bytes le_bytes rev app].
  norm256. f_equal; [lia|]. f_equal. f_equal. lia.
Qed.

Lemma split16_spec_1 x : 16383 < x <= 4210686 ->
  split16_spec x = [64 + (x - 16383) / 65536; ((x - 16383) / 256) mod 256; (x - 16383) mod 256].
Proof.
  intro H. unfold split16_spec, lv_encode. rewrite lv_find_split16.
  destruct (x <=? 16383) eqn:E; [lia|]. destruct (x <=? 4210686) eqn:E2; [|lia].
  unfold lv_emit. cbn [lv_kind_of lv_prefix lv_nbytes lv_base be_bytes le_bytes rev app].
  norm256. reflexivity.
Qed.

Lemma split16_spec_2 x : 4210686 < x <= 1077952509 ->
  split16_spec x = [128 + (x - 4210686) / 16777216; ((x - 4210686) / 65536) mod 256;
                    ((x - 4210686) / 256) mod 256; (x - 4210686) mod 256].
Proof.
  intro H. unfold split16_spec, lv_encode. rewrite lv_find_split16.
  destruct (x <=? 16383) eqn:E; [lia|]. destruct (x <=? 4210686) eqn:E2; [lia|].
  destruct (x <=? 1077952509) eqn:E3; [|lia].
  unfold lv_emit. cbn [lv_kind_of lv_prefix lv_nbytes lv_base be_bytes le_bytes rev app].
  norm256. f_equal. f_equal. f_equal. lia.
Qed.

Lemma split16_spec_var x k : (4 <= k <= 8)%nat -> 1077952509 < x < 18446744073709551616 ->
  x - 1077952509 < 256 ^ N.of_nat k -> (k = 4%nat \/ 256 ^ N.of_nat (k - 1) <= x - 1077952509) ->
  split16_spec x = (192 + N.of_nat k) :: le_bytes k (x - 1077952509).
Proof.
  intros Hk Hx Hlt Hge. unfold split16_spec, lv_encode. rewrite lv_find_split16.
  assert (C : (k = 4 \/ k = 5 \/ k = 6 \/ k = 7 \/ k = 8)%nat) by lia.
  destruct C as [C|[C|[C|[C|C]]]]; subst k; norm256;
    (destruct Hge as [Hge|Hge]; [try discriminate Hge|]); norm256; kill_ifs; reflexivity.
Qed.

Theorem split16_put_is_spec x : x < 18446744073709551616 -> split16_put x = Some (split16_spec x).
Proof.
  intro Hx. destruct (split16_classify x Hx) as [H|H|H|k Hk H Hw Hlt Hge].
  - rewrite split16_put_0, split16_spec_0 by exact H. reflexivity.
  - rewrite split16_put_1, split16_spec_1 by exact H. reflexivity.
  - rewrite split16_put_2, split16_spec_2 by exact H. reflexivity.
  - rewrite (split16_put_var x k), (split16_spec_var x k) by (assumption || lia). reflexivity.
Qed.

Lemma split16_spec_len_chain x : x < 18446744073709551616 -> split16_spec_len x = split16_len_chain x.
Proof.
  intro Hx. unfold split16_spec_len, lv_length. rewrite lv_find_split16. unfold split16_len_chain.
  kill_ifs; reflexivity.
Qed.

Theorem split16_length_is_spec x : x < 18446744073709551616 -> split16_length x = split16_spec_len x.
Proof. intro Hx. rewrite split16_length_chain, split16_spec_len_chain by exact Hx. reflexivity. Qed.

(* ------------------------------------------------------------------ *)
(* decoders on byte forms                                              *)
Ltac rd3 :=
  change (Z.to_nat 0) with 0%nat; change (Z.to_nat 1) with 1%nat;
  change (Z.to_nat 2) with 2%nat; change (Z.to_nat 3) with 3%nat; cbn [nth].

Lemma split16_get_0 pre tl a b : a < 64 -> b < 256 ->
  split16_get_at (pre ++ [a; b] ++ tl) (Z.of_nat (length pre)) = Some (2, a * 256 + b) /\
  split16_getlen_at (pre ++ [a; b] ++ tl) (Z.of_nat (length pre)) = 2 /\
  split16_getlen_quick_at (pre ++ [a; b] ++ tl) (Z.of_nat (length pre)) = 2.
Proof.
  intros Ha Hb. unfold split16_get_at, split16_getlen_at, split16_getlen_quick_at. cbv zeta.
  rewrite byte_atz_mid_0 by (cbn [length]; lia).
  rewrite !byte_atz_mid_z by (cbn [length]; lia). rd3.
  unfold split16_width_ext, split16_encoding2. consts16.
  rewrite land192 by lia. rewrite land63. unfold shr. change (2 ^ 6) with 64.
  replace (a mod 64) with a by lia.
  repeat split; kill_ifs; rewrite ?lor2, ?lor3, ?lor4 by lia; rewrite ?add64_small by lia;
    try (f_equal; f_equal); lia.
Qed.

Lemma split16_get_1 pre tl a b c : a < 64 -> b < 256 -> c < 256 ->
  split16_get_at (pre ++ [64 + a; b; c] ++ tl) (Z.of_nat (length pre))
    = Some (3, a * 65536 + b * 256 + c + 16383) /\
  split16_getlen_at (pre ++ [64 + a; b; c] ++ tl) (Z.of_nat (length pre)) = 3 /\
  split16_getlen_quick_at (pre ++ [64 + a; b; c] ++ tl) (Z.of_nat (length pre)) = 3.
Proof.
  intros Ha Hb Hc. unfold split16_get_at, split16_getlen_at, split16_getlen_quick_at. cbv zeta.
  rewrite byte_atz_mid_0 by (cbn [length]; lia).
  rewrite !byte_atz_mid_z by (cbn [length]; lia). rd3.
  unfold split16_width_ext, split16_encoding2. consts16.
  rewrite land192 by lia. rewrite land63. unfold shr. change (2 ^ 6) with 64.
  replace ((64 + a) mod 64) with a by lia.
  repeat split; kill_ifs; rewrite ?lor2, ?lor3, ?lor4 by lia; rewrite ?add64_small by lia;
    try (f_equal; f_equal); lia.
Qed.

Lemma split16_get_2 pre tl a b c d : a < 64 -> b < 256 -> c < 256 -> d < 256 ->
  split16_get_at (pre ++ [128 + a; b; c; d] ++ tl) (Z.of_nat (length pre))
    = Some (4, a * 16777216 + b * 65536 + c * 256 + d + 4210686) /\
  split16_getlen_at (pre ++ [128 + a; b; c; d] ++ tl) (Z.of_nat (length pre)) = 4 /\
  split16_getlen_quick_at (pre ++ [128 + a; b; c; d] ++ tl) (Z.of_nat (length pre)) = 4.
Proof.
  intros Ha Hb Hc Hd. unfold split16_get_at, split16_getlen_at, split16_getlen_quick_at. cbv zeta.
  rewrite byte_atz_mid_0 by (cbn [length]; lia).
  rewrite !byte_atz_mid_z by (cbn [length]; lia). rd3.
  unfold split16_width_ext, split16_encoding2. consts16.
  rewrite land192 by lia. rewrite land63. unfold shr. change (2 ^ 6) with 64.
  replace ((128 + a) mod 64) with a by lia.
  repeat split; kill_ifs; rewrite ?lor2, ?lor3, ?lor4 by lia; rewrite ?add64_small by lia;
    try (f_equal; f_equal); lia.
Qed.

Lemma split16_get_var pre tl k l : (4 <= k <= 8)%nat -> length l = k -> bytes_ok l ->
  of_le l + 1077952509 < 18446744073709551616 ->
  split16_get_at (pre ++ ((192 + N.of_nat k) :: l) ++ tl) (Z.of_nat (length pre))
    = Some (1 + N.of_nat k, of_le l + 1077952509) /\
  split16_getlen_at (pre ++ ((192 + N.of_nat k) :: l) ++ tl) (Z.of_nat (length pre)) = 1 + N.of_nat k /\
  split16_getlen_quick_at (pre ++ ((192 + N.of_nat k) :: l) ++ tl) (Z.of_nat (length pre)) = 1 + N.of_nat k.
Proof.
  intros Hk Hl Hb Hv. unfold split16_get_at, split16_getlen_at, split16_getlen_quick_at. cbv zeta.
  rewrite Z.add_0_r.
  rewrite byte_atz_mid_0 by (cbn [length]; lia). cbn [nth].
  unfold split16_width_ext, split16_encoding2. consts16.
  rewrite land192 by lia. rewrite land15.
  replace (64 * ((192 + N.of_nat k) / 64)) with 192 by lia.
  replace ((192 + N.of_nat k) mod 16) with (N.of_nat k) by lia.
  change (192 =? 0) with false. change (192 =? 64) with false. change (192 =? 128) with false.
  change (192 =? 192) with true. cbv iota.
  replace (1 + N.of_nat k - 1) with (N.of_nat k) by lia.
  replace (pre ++ ((192 + N.of_nat k) :: l) ++ tl) with ((pre ++ [192 + N.of_nat k]) ++ l ++ tl)
    by (rewrite <- app_assoc; reflexivity).
  replace (Z.of_nat (length pre) + 1)%Z with (Z.of_nat (length (pre ++ [192 + N.of_nat k])))
    by (rewrite app_length; cbn [length]; lia).
  rewrite ext_get_qm by (assumption || lia).
  rewrite add64_small by lia.
  repeat split; reflexivity.
Qed.

(* ------------------------------------------------------------------ *)
Theorem split16_roundtrip_at x : x < 18446744073709551616 ->
  exists bs, split16_put x = Some bs /\
    N.of_nat (length bs) = split16_length x /\
    forall pre tl,
      split16_get_at (pre ++ bs ++ tl) (Z.of_nat (length pre)) = Some (split16_length x, x) /\
      split16_getlen_at (pre ++ bs ++ tl) (Z.of_nat (length pre)) = split16_length x /\
      split16_getlen_quick_at (pre ++ bs ++ tl) (Z.of_nat (length pre)) = split16_length x.
Proof.
  intro Hx. destruct (split16_classify x Hx) as [H|H|H|k Hk H Hw Hlt Hge].
  - eexists. rewrite split16_put_0, split16_length_0 by exact H.
    split; [reflexivity|]. split; [reflexivity|]. intros pre tl.
    destruct (split16_get_0 pre tl (x / 256) (x mod 256)) as (A & B & C); try lia.
    rewrite A, B, C. repeat split. f_equal. f_equal. lia.
  - eexists. rewrite split16_put_1, split16_length_1 by exact H.
    split; [reflexivity|]. split; [reflexivity|]. intros pre tl.
    destruct (split16_get_1 pre tl ((x - 16383) / 65536) (((x - 16383) / 256) mod 256)
                ((x - 16383) mod 256)) as (A & B & C); try lia.
    rewrite A, B, C. repeat split. f_equal. f_equal. lia.
  - eexists. rewrite split16_put_2, split16_length_2 by exact H.
    split; [reflexivity|]. split; [reflexivity|]. intros pre tl.
    destruct (split16_get_2 pre tl ((x - 4210686) / 16777216) (((x - 4210686) / 65536) mod 256)
                (((x - 4210686) / 256) mod 256) ((x - 4210686) mod 256)) as (A & B & C); try lia.
    rewrite A, B, C. repeat split. f_equal. f_equal. lia.
  - eexists. rewrite (split16_put_var x k) by (assumption || lia).
    rewrite split16_length_v, Hw by exact H.
    split; [reflexivity|]. split; [cbn [length]; rewrite length_le_bytes; lia|]. intros pre tl.
    pose proof (of_le_le_bytes_small k (x - 1077952509) Hlt) as V.
    destruct (split16_get_var pre tl k (le_bytes k (x - 1077952509))) as (A & B & C);
      try assumption; [apply length_le_bytes | apply bytes_ok_le_bytes | rewrite V; lia |].
    rewrite A, B, C, V. repeat split. f_equal. f_equal. lia.
Qed.

Theorem split16_roundtrip x tl : x < 18446744073709551616 ->
  exists bs, split16_put x = Some bs /\ split16_get (bs ++ tl) = Some (split16_length x, x).
Proof.
  intro Hx. destruct (split16_roundtrip_at x Hx) as (bs & P & _ & G).
  exists bs. split; [exact P|]. destruct (G [] tl) as (A & _). exact A.
Qed.

Theorem split16_len_agree x : x < 18446744073709551616 ->
  exists bs, split16_put x = Some bs /\
    N.of_nat (length bs) = split16_length x /\
    split16_getlen bs = split16_length x /\ split16_getlen_quick bs = split16_length x.
Proof.
  intro Hx. destruct (split16_roundtrip_at x Hx) as (bs & P & L & G).
  exists bs. split; [exact P|]. split; [exact L|].
  destruct (G [] []) as (_ & B & C). cbn [app length] in B, C. rewrite app_nil_r in B, C.
  split; assumption.
Qed.

Theorem split16_len_range x : x < 18446744073709551616 -> 2 <= split16_length x <= 9.
Proof.
  intro Hx. rewrite split16_length_chain by exact Hx. unfold split16_len_chain. kill_ifs; lia.
Qed.

Theorem split16_len_mono x y : x <= y -> y < 18446744073709551616 ->
  split16_length x <= split16_length y.
Proof.
  intros Hxy Hy. rewrite !split16_length_chain by lia. unfold split16_len_chain.
  kill_ifs; lia.
Qed.

Theorem split16_max_values :
  split16_max 1 = 0 /\ split16_max 2 = 16383 /\ split16_max 3 = 4210686 /\ split16_max 4 = 1077952509 /\
  split16_max 5 = 5372919804 /\ split16_max 6 = 1100589580284 /\ split16_max 7 = 281476054663164 /\
  split16_max 8 = 72057595115880444 /\ split16_max 9 = 18446744073709551615.
Proof. vm_compute. repeat split; reflexivity. Qed.

Theorem split16_len_le_max x k : x < 18446744073709551616 -> 2 <= k <= 9 ->
  (split16_length x <= k <-> x <= split16_max k).
Proof.
  intros Hx Hk. rewrite split16_length_chain by exact Hx.
  destruct split16_max_values as (M1 & M2 & M3 & M4 & M5 & M6 & M7 & M8 & M9).
  assert (C : k = 2 \/ k = 3 \/ k = 4 \/ k = 5 \/ k = 6 \/ k = 7 \/ k = 8 \/ k = 9) by lia.
  unfold split16_len_chain.
  destruct C as [C|[C|[C|[C|[C|[C|[C|C]]]]]]]; subst k;
    rewrite ?M2, ?M3, ?M4, ?M5, ?M6, ?M7, ?M8, ?M9; kill_ifs; lia.
Qed.
