(* TaggedSrcGet.v — the regenerated renderings of varintTaggedGet,
   varintTaggedGet64, varintTaggedGet64ReturnValue and varintTaggedGetVarint32
   (coq/gen/Src_tagged.v) compute what the hand-written model computes, for
   every byte list that holds the bytes the C itself needs, and never load
   outside it. *)
Require Import VV.Base VV.BaseProofs VV.Tagged VV.TaggedProofs VV.CSem VV.CSemProofs.
Require Import VVgen.Src_tagged.
From Coq Require Import Lia ZifyBool ZifyN ZifyNat.
Local Open Scope Z_scope.
Ltac Zify.zify_post_hook ::= Z.div_mod_to_equations.

(* the C return value and the final content of *pResult (r = its content
   before the call; untouched when the width is 0) predicted by the model *)
Definition get_result (z : list N) (n : Z) (r : option Z) : Z * option Z :=
  (Z.of_N (fst (tagged_get z n)),
   if (fst (tagged_get z n) =? 0)%N then r else Some (Z.of_N (snd (tagged_get z n)))).

(* precondition = what the C needs: n is an int32_t, and the list holds the
   bytes of the varint or at least n bytes, whichever is less *)
Lemma src_varintTaggedGet_is_model : forall z n r,
  bytes_ok z -> -2147483648 <= n <= 2147483647 ->
  Z.min n (Z.of_N (tagged_getlen z)) <= Z.of_nat (length z) ->
  src_varintTaggedGet z n r = COk (get_result z n r).
Proof.
  intros z n r Hz Hn Hlen. unfold get_result.
  pose proof (bytes_ok_nth z 0 Hz) as Hb0.
  pose proof (bytes_ok_nth z 1 Hz). pose proof (bytes_ok_nth z 2 Hz). pose proof (bytes_ok_nth z 3 Hz).
  pose proof (bytes_ok_nth z 4 Hz). pose proof (bytes_ok_nth z 5 Hz). pose proof (bytes_ok_nth z 6 Hz).
  pose proof (bytes_ok_nth z 7 Hz). pose proof (bytes_ok_nth z 8 Hz).
  unfold tagged_getlen in Hlen. cbv zeta in Hlen.
  (* case analysis on the model's classes of (n, first byte) *)
  assert (C : n < 1 \/ (1 <= n /\
     ((byte_at z 0 <= 240) \/ (241 <= byte_at z 0 <= 248) \/ byte_at z 0 = 249 \/ byte_at z 0 = 250 \/
      byte_at z 0 = 251 \/ byte_at z 0 = 252 \/ byte_at z 0 = 253 \/ byte_at z 0 = 254 \/
      byte_at z 0 = 255)%N)) by lia.
  destruct C as [C|[C1 C]]; [|repeat (destruct C as [C|C])].
  all: c_decide_in Hlen.
  all: unfold src_varintTaggedGet, tagged_get, bor, shl64; cbv zeta.
  all: c_run.
  all: apply cok_pair_eq; [lia|]; try reflexivity; f_equal.
  all: n2z_push; land_to_mod; lor_to_add; lia.
Qed.

Lemma src_varintTaggedGet64_is_model : forall z r,
  bytes_ok z -> Z.min 9 (Z.of_N (tagged_getlen z)) <= Z.of_nat (length z) ->
  src_varintTaggedGet64 z r = COk (get_result z 9 r).
Proof.
  intros z r Hz Hlen. unfold src_varintTaggedGet64. c_run.
  rewrite src_varintTaggedGet_is_model by (try assumption; lia). reflexivity.
Qed.

Lemma src_varintTaggedGet64ReturnValue_is_model : forall z,
  bytes_ok z -> Z.min 9 (Z.of_N (tagged_getlen z)) <= Z.of_nat (length z) ->
  src_varintTaggedGet64ReturnValue z =
  COk (if (fst (tagged_get z 9) =? 0)%N then 0 else Z.of_N (tagged_get64_return_value z)).
Proof.
  intros z Hz Hlen. unfold src_varintTaggedGet64ReturnValue, tagged_get64_return_value. c_unfold. c_simp.
  rewrite src_varintTaggedGet_is_model by (try assumption; lia). unfold get_result. c_simp.
  destruct (fst (tagged_get z 9) =? 0)%N; reflexivity.
Qed.

Lemma src_varintTaggedGetVarint32_is_model : forall z r,
  bytes_ok z -> Z.min 9 (Z.of_N (tagged_getlen z)) <= Z.of_nat (length z) ->
  src_varintTaggedGetVarint32 z r =
  COk (Z.of_N (fst (tagged_get32 z)),
       Some (if (fst (tagged_get z 9) =? 0)%N then 0 else Z.of_N (snd (tagged_get32 z)))).
Proof.
  intros z r Hz Hlen. unfold src_varintTaggedGetVarint32, tagged_get32. cbv zeta. c_unfold. c_simp.
  rewrite src_varintTaggedGet_is_model by (try assumption; lia). unfold get_result. c_simp.
  destruct (fst (tagged_get z 9) =? 0)%N; c_simp; apply cok_pair_eq; try reflexivity.
  f_equal. unfold u32. lia.
Qed.
