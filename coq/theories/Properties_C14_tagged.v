(* Properties_C14_tagged.v — C14 for the bounded tagged reader
   varintTaggedGet(z, n, &result). *)
Require Import VV.Base VV.Tagged VV.TaggedFixed.
Local Open Scope N_scope.

(* the result depends on nothing at or beyond index n *)
Theorem C14_tagged_get_noninterference : forall z z' n,
  firstn (Z.to_nat n) z = firstn (Z.to_nat n) z' -> tagged_get z n = tagged_get z' n.
Proof. exact tagged_get_noninterference. Qed.
Print Assumptions C14_tagged_get_noninterference.

(* a varint cut short of its announced length is reported as length 0 *)
Theorem C14_tagged_get_short : forall z n, byte_at z 0 < 256 ->
  (n < Z.of_N (tagged_getlen z))%Z -> fst (tagged_get z n) = 0.
Proof. exact tagged_get_short. Qed.
Print Assumptions C14_tagged_get_short.

Theorem C14_tagged_get_width : forall z n, byte_at z 0 < 256 ->
  (Z.of_N (tagged_getlen z) <= n)%Z -> fst (tagged_get z n) = tagged_getlen z.
Proof. exact tagged_get_width. Qed.
Print Assumptions C14_tagged_get_width.
