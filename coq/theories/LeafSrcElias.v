(* LeafSrcElias.v — the regenerated renderings (coq/gen/Src_leaf_elias.v, produced
   by gen/c2coq.py from the current src/varintElias.c + varintElias.h) of floorLog2,
   varintEliasGammaBits, varintEliasGammaMaxBytes and varintEliasDeltaMaxBytes
   compute what the hand model (Elias.v) computes.

   The `while (value > 1) { value >>= 1; log++; }` loop is handled by the
   invariant lemma c_while_count: its k-th state is (value / 2^k, k); the two facts
   needed about the loop's step function (one iteration above 1, exit at 0 or 1)
   are proved by c_run on whatever text the translator produced for it. *)
Require Import VV.Base VV.BaseProofs VV.Elias VV.EliasEncProofs VV.CSem VV.CSemProofs VV.LeafSrcLemmas.
Require Import VVgen.Src_leaf_elias.
From Coq Require Import Lia ZifyBool ZifyN ZifyNat.
Local Open Scope Z_scope.
Ltac Zify.zify_post_hook ::= Z.div_mod_to_equations.

Lemma cok_lnext2 {R : Type} (a a' b b' : Z) :
  a = a' -> b = b' -> @COk (lstep (Z * Z) R) (LNext (a, b)) = COk (LNext (a', b')).
Proof. intros; subst; reflexivity. Qed.

(* the halving loop, for any step function that halves above 1 and stops at 0 / 1 *)
Lemma halving_loop {R : Type} (step : Z * Z -> cres (lstep (Z * Z) R)) (v : N) (fuel : nat) :
  (v < 18446744073709551616)%N -> (64 <= fuel)%nat ->
  (forall a l, 1 < a < 18446744073709551616 -> 0 <= l < 64 -> step (a, l) = COk (LNext (a / 2, l + 1))) ->
  (forall a l, 0 <= a <= 1 -> step (a, l) = COk (LBreak (a, l))) ->
  exists a, c_while fuel step (Z.of_N v, 0) = COk (LBreak (a, Z.of_N (N.log2 v))).
Proof.
  intros Hv Hf Hnext Hbrk.
  set (st := fun k : nat => (Z.of_N (v / 2 ^ N.of_nat k), Z.of_nat k)).
  assert (L64 : (N.log2 v < 64)%N).
  { destruct (N.eq_dec v 0) as [->|Hz]; [reflexivity|].
    apply N.log2_lt_pow2; [lia|exact Hv]. }
  exists (Z.of_N (v / 2 ^ N.log2 v)).
  replace (Z.of_N v, 0) with (st 0%nat)
    by (unfold st; change (N.of_nat 0) with 0%N; rewrite N.pow_0_r, N.div_1_r; reflexivity).
  rewrite (c_while_count step st (N.to_nat (N.log2 v)) fuel).
  - unfold st. rewrite !N2Nat.id. rewrite N_nat_Z. reflexivity.
  - intros k Hk. unfold st.
    assert (Hv0 : (0 < v)%N) by (destruct (N.eq_dec v 0) as [->|]; [cbn in Hk; lia|lia]).
    pose proof (N.log2_spec v Hv0) as [S1 _].
    assert (P : (2 ^ N.of_nat k <> 0)%N) by (apply N.pow_nonzero; lia).
    assert (G : (2 <= v / 2 ^ N.of_nat k)%N).
    { apply N.div_le_lower_bound; [exact P|].
      apply N.le_trans with (2 ^ N.log2 v)%N; [|exact S1].
      replace (2 ^ N.of_nat k * 2)%N with (2 ^ N.succ (N.of_nat k))%N by (rewrite N.pow_succ_r'; lia).
      apply N.pow_le_mono_r; lia. }
    assert (U : (v / 2 ^ N.of_nat k <= v)%N) by (apply N.div_le_upper_bound; [exact P|]; nia).
    rewrite Hnext by lia.
    apply cok_lnext2; [|lia].
    rewrite Nat2N.inj_succ, N.pow_succ_r', (N.mul_comm 2), <- N.div_div by (try exact P; lia).
    rewrite (N2Z.inj_div (v / 2 ^ N.of_nat k) 2). reflexivity.
  - unfold st. rewrite N2Nat.id. apply Hbrk.
    destruct (N.eq_dec v 0) as [->|Hz]; [rewrite N.div_0_l by (apply N.pow_nonzero; lia); lia|].
    pose proof (N.log2_spec v ltac:(lia)) as [_ S2].
    assert (P : (2 ^ N.log2 v <> 0)%N) by (apply N.pow_nonzero; lia).
    assert (Q : (v / 2 ^ N.log2 v < 2)%N); [|set (q := (v / 2 ^ N.log2 v)%N) in *; clearbody q; lia].
    apply N.div_lt_upper_bound; [exact P|]. rewrite N.pow_succ_r' in S2. lia.
  - lia.
Qed.

(* the two facts about a loop's step function [STEP], from its text *)
Ltac halving_step STEP :=
  first [ intros a l Ha Hl; subst STEP; c_run; apply cok_lnext2; lia
        | intros a l Ha; subst STEP; c_run; reflexivity ].

(* all 2^64 arguments (0 included: the release build has no assert), any fuel >= 64 *)
Lemma src_floorLog2_is_model : forall fuel v, (64 <= fuel)%nat -> 0 <= v < 18446744073709551616 ->
  src_floorLog2 fuel v = COk (Z.of_N (floor_log2 (Z.to_N v))).
Proof.
  intros fuel v Hf Hv. rewrite floor_log2_spec by lia.
  unfold src_floorLog2.
  match goal with |- context [c_while _ ?s _] => set (STEP := s) end.
  assert (H1 : forall a l, 1 < a < 18446744073709551616 -> 0 <= l < 64 -> STEP (a, l) = COk (LNext (a / 2, l + 1)))
    by halving_step STEP.
  assert (H2 : forall a l, 0 <= a <= 1 -> STEP (a, l) = COk (LBreak (a, l))) by halving_step STEP.
  destruct (halving_loop STEP (Z.to_N v) fuel ltac:(lia) Hf H1 H2) as (a & Hloop).
  rewrite Z2N.id in Hloop by lia.
  c_run. closed_eval. rewrite Hloop. reflexivity.
Qed.

Lemma src_varintEliasGammaBits_is_model : forall fuel v, (64 <= fuel)%nat -> 0 <= v < 18446744073709551616 ->
  src_varintEliasGammaBits fuel v = COk (Z.of_N (elias_gamma_bits (Z.to_N v))).
Proof.
  intros fuel v Hf Hv. unfold elias_gamma_bits. rewrite floor_log2_spec by lia.
  unfold src_varintEliasGammaBits.
  match goal with |- context [c_while _ ?s _] => set (STEP := s) end.
  assert (H1 : forall a l, 1 < a < 18446744073709551616 -> 0 <= l < 64 -> STEP (a, l) = COk (LNext (a / 2, l + 1)))
    by halving_step STEP.
  assert (H2 : forall a l, 0 <= a <= 1 -> STEP (a, l) = COk (LBreak (a, l))) by halving_step STEP.
  destruct (halving_loop STEP (Z.to_N v) fuel ltac:(lia) Hf H1 H2) as (a & Hloop).
  rewrite Z2N.id in Hloop by lia.
  assert (L64 : (N.log2 (Z.to_N v) < 64)%N).
  { destruct (N.eq_dec (Z.to_N v) 0) as [->|Hz]; [reflexivity|]. apply N.log2_lt_pow2; lia. }
  c_run. closed_eval. rewrite Hloop. c_run. f_equal. lia.
Qed.

(* size_t arithmetic: both sides wrap in the same places, all 2^64 counts *)
Lemma src_varintEliasGammaMaxBytes_is_model : forall c, 0 <= c < 18446744073709551616 ->
  src_varintEliasGammaMaxBytes c = COk (Z.of_N (elias_gamma_max_bytes (Z.to_N c))).
Proof.
  intros c H. unfold elias_gamma_max_bytes, add64, mul64.
  unfold src_varintEliasGammaMaxBytes. c_run. f_equal. closed_eval. n2z_push. rewrite Z2N.id by lia. lia.
Qed.

Lemma src_varintEliasDeltaMaxBytes_is_model : forall c, 0 <= c < 18446744073709551616 ->
  src_varintEliasDeltaMaxBytes c = COk (Z.of_N (elias_delta_max_bytes (Z.to_N c))).
Proof.
  intros c H. unfold elias_delta_max_bytes, add64, mul64.
  unfold src_varintEliasDeltaMaxBytes. c_run. f_equal. closed_eval. n2z_push. rewrite Z2N.id by lia. lia.
Qed.
