(* Properties_C11_bitdim.v — property C11: bitstream writes are exact and
   isolated (varintBitstream.h, model Bitstream.v, code after the F28 fix).
   Nothing but statements closed by `exact`, each followed by
   Print Assumptions.

   W = bits of the slot type `vbits`, V = bits of the value type `vbitsVal`.
   Admissible parameters (outside them the C code has undefined shifts or
   needs more than two slots, and the model returns None):
   1 <= n <= W <= V <= 64.  The header's supported slot types are
   W = 8, 16, 32, 64; the theorems hold for every W.
   sbit W s i = bit i of the stream, bit 0 = most significant bit of slot 0. *)
Require Import VV.Base VV.Bitstream VV.BitstreamProofs.
Local Open Scope N_scope.

(* a read at the same offset and width returns the written value: every slot
   width, value width, offset, width 1..W, value below 2^n, prior content *)
Theorem C11_write_then_read : forall W V s off n v s',
  1 <= n -> n <= W -> W <= V -> V <= 64 ->
  Forall (fun w => w < 2 ^ W) s -> v < 2 ^ n ->
  bs_set W V s off n v = Some s' -> bs_get W V s' off n = Some v.
Proof. exact c11_write_then_read. Qed.
Print Assumptions C11_write_then_read.

(* the write is exact and isolated: the stream keeps its length and stays a
   list of W-bit slots; no bit outside [off, off+n) changes; bit off+j
   becomes bit n-1-j of the value; slots other than the touched ones are
   identical *)
Theorem C11_write_isolated : forall W V s off n v s',
  1 <= n -> n <= W -> W <= V -> V <= 64 ->
  Forall (fun w => w < 2 ^ W) s -> v < 2 ^ n ->
  bs_set W V s off n v = Some s' ->
  length s' = length s /\
  Forall (fun w => w < 2 ^ W) s' /\
  (forall i, ~ (off <= i < off + n) -> sbit W s' i = sbit W s i) /\
  (forall j, j < n -> sbit W s' (off + j) = N.testbit v (n - 1 - j)) /\
  (forall k, ~ In k (bs_touched W off n) -> nth k s' 0 = nth k s 0).
Proof. exact c11_write_isolated. Qed.
Print Assumptions C11_write_isolated.

(* a read returns exactly the n bits of the range (first bit most
   significant) and nothing else, for any content *)
Theorem C11_read_exact : forall W V s off n g,
  1 <= n -> n <= W -> W <= V -> V <= 64 ->
  Forall (fun w => w < 2 ^ W) s ->
  bs_get W V s off n = Some g ->
  g < 2 ^ n /\ forall j, j < n -> N.testbit g (n - 1 - j) = sbit W s (off + j).
Proof. exact c11_read_exact. Qed.
Print Assumptions C11_read_exact.

(* only the machine words overlapping the range are accessed: the slot
   indices Set/Get read or write are exactly the slots containing a bit of
   [off, off+n), and the operations are defined (no out-of-bounds access)
   exactly when those slots exist *)
Theorem C11_access_exact : forall W V s off n v,
  1 <= n -> n <= W -> W <= V -> V <= 64 ->
  (forall k, In k (bs_touched W off n) <-> exists i, off <= i < off + n /\ N.to_nat (i / W) = k) /\
  ((forall k, In k (bs_touched W off n) -> (k < length s)%nat) <-> exists s', bs_set W V s off n v = Some s') /\
  ((forall k, In k (bs_touched W off n) -> (k < length s)%nat) <-> exists g, bs_get W V s off n = Some g).
Proof. exact c11_access_exact. Qed.
Print Assumptions C11_access_exact.

(* the signed helpers (sign + magnitude in n bits, as used by the header's
   callers: Prepare for negative values only) restore every value with
   |v| <= 2^(n-1) - 1, and the prepared pattern fits n bits *)
Theorem C11_signed_roundtrip : forall (v : Z) (n : N),
  1 <= n -> n <= 64 -> (- Z.of_N (2 ^ (n - 1)) < v < Z.of_N (2 ^ (n - 1)))%Z ->
  exists p, bs_signed_store v n = Some p /\ p < 2 ^ n /\ bs_signed_load p n = Some v.
Proof. exact bs_signed_roundtrip. Qed.
Print Assumptions C11_signed_roundtrip.

(* non-vacuity: the ledger witness of F28 now round-trips (32-bit slots,
   0xAB at bit 0 then 0xCD at bit 8 gives 0xABCD0000); a write across a slot
   boundary; signed extremes *)
Example C11_example :
  (match bs_set 32 64 [0; 0] 0 8 171 with
   | Some s1 => bs_set 32 64 s1 8 8 205 | None => None end) = Some [2882338816; 0] /\
  bs_set 8 8 [255; 255; 255] 5 7 0 = Some [248; 15; 255] /\
  bs_get 8 8 [248; 15; 255] 5 7 = Some 0 /\
  bs_touched 8 5 7 = [0%nat; 1%nat] /\ bs_touched 8 5 3 = [0%nat] /\
  (match bs_signed_store (-9223372036854775807) 64 with
   | Some p => bs_signed_load p 64 | None => None end) = Some (-9223372036854775807)%Z.
Proof. vm_compute. repeat split; reflexivity. Qed.
