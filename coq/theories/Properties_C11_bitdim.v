(* Properties_C11_bitdim.v — placeholder, filled below *)
Require Import VV.Base VV.Bitstream.
