(* Properties_C04_external.v — property C04 for the external family: the
   bytes are the minimal little- (big-) endian slice of the value, one
   encoding per value, the shortest one, length monotone. *)
Require Import VV.Base VV.BaseProofs VV.External VV.ExternalProofs.
Local Open Scope N_scope.

Theorem C04_external_put_is_spec : forall x, x < 18446744073709551616 ->
  ext_put x = le_bytes (ext_width x) x.
Proof. exact ext_put_is_spec. Qed.
Print Assumptions C04_external_put_is_spec.

Theorem C04_externalbe_put_is_spec : forall x, x < 18446744073709551616 ->
  extbe_put x = be_bytes (ext_width x) x.
Proof. exact extbe_put_is_spec. Qed.
Print Assumptions C04_externalbe_put_is_spec.

(* fixed width (function and macros, see C01 for macro = function) *)
Theorem C04_external_fixed_is_spec : forall x w, (1 <= w <= 8)%nat ->
  ext_put_fixed x w = Some (le_bytes w x).
Proof. exact ext_put_fixed_spec. Qed.
Print Assumptions C04_external_fixed_is_spec.

Theorem C04_externalbe_fixed_is_spec : forall x w, (1 <= w <= 8)%nat ->
  extbe_put_fixed x w = Some (be_bytes w x).
Proof. exact extbe_put_fixed_spec. Qed.
Print Assumptions C04_externalbe_fixed_is_spec.

(* ext_width x is the least k >= 1 with x < 256^k *)
Theorem C04_ext_width_fits : forall x, x < 18446744073709551616 ->
  x < 256 ^ N.of_nat (ext_width x).
Proof. exact ext_width_fits. Qed.
Print Assumptions C04_ext_width_fits.

Theorem C04_ext_width_minimal : forall x k, x < 18446744073709551616 -> (1 <= k)%nat ->
  x < 256 ^ N.of_nat k -> (ext_width x <= k)%nat.
Proof. exact ext_width_minimal. Qed.
Print Assumptions C04_ext_width_minimal.

(* encoded length never decreases as the value grows *)
Theorem C04_ext_width_mono : forall x y, x < 18446744073709551616 -> y < 18446744073709551616 ->
  x <= y -> (ext_width x <= ext_width y)%nat.
Proof. exact ext_width_mono. Qed.
Print Assumptions C04_ext_width_mono.

(* one encoding per value *)
Theorem C04_external_injective : forall x y, x < 18446744073709551616 -> y < 18446744073709551616 ->
  ext_put x = ext_put y -> x = y.
Proof. exact ext_put_injective. Qed.
Print Assumptions C04_external_injective.

Theorem C04_externalbe_injective : forall x y, x < 18446744073709551616 -> y < 18446744073709551616 ->
  extbe_put x = extbe_put y -> x = y.
Proof. exact extbe_put_injective. Qed.
Print Assumptions C04_externalbe_injective.

(* ... and it is the shortest: any 1..8 stored bytes that read as x are at
   least as long as ext_put x *)
Theorem C04_external_shortest : forall x bs, x < 18446744073709551616 ->
  (1 <= length bs <= 8)%nat -> bytes_ok bs ->
  ext_get bs (length bs) = Some x -> (length (ext_put x) <= length bs)%nat.
Proof. exact ext_shortest. Qed.
Print Assumptions C04_external_shortest.

Example C04_external_examples :
  ext_put 16777215 = [255; 255; 255] /\ ext_put 16777216 = [0; 0; 0; 1] /\
  extbe_put 16777216 = [1; 0; 0; 0] /\ extbe_put 72623859790382856 = [1; 2; 3; 4; 5; 6; 7; 8] /\
  ext_width 72057594037927935 = 7%nat /\ ext_width 72057594037927936 = 8%nat.
Proof. vm_compute. repeat split; reflexivity. Qed.
