(* placeholder — replaced below *)
Require Import VV.Base VV.External.
Local Open Scope N_scope.
Theorem C04_external_placeholder : ext_put 0 = [0].
Proof. exact (eq_refl : ext_put 0 = [0]). Qed.
Print Assumptions C04_external_placeholder.
