(* PackedSpecProofs.v — facts about the reference list operations of
   PackedSpec.v: they keep a sorted multiset, and their index-based
   characterisations (what the binary-search implementation computes). *)
Require Import VV.Base VV.PackedSpec.
From Coq Require Import Lia ZifyBool ZifyN ZifyNat Sorted Permutation Arith.
Local Open Scope N_scope.

(* ---- sortedness and multiset ---- *)
Lemma ins_perm v xs : Permutation (ins v xs) (v :: xs).
Proof.
  induction xs as [|x t IH]; simpl; [apply Permutation_refl|].
  destruct (x <? v); [|apply Permutation_refl].
  apply Permutation_trans with (x :: v :: t); [apply perm_skip; exact IH | apply perm_swap].
Qed.

Lemma ins_In v xs y : In y (ins v xs) <-> y = v \/ In y xs.
Proof.
  split; intro H.
  - apply (Permutation_in _ (ins_perm v xs)) in H. destruct H; [left; congruence | right; assumption].
  - apply (Permutation_in _ (Permutation_sym (ins_perm v xs))). destruct H; [left; congruence | right; assumption].
Qed.

Lemma ins_sorted v xs : StronglySorted N.le xs -> StronglySorted N.le (ins v xs).
Proof.
  induction 1 as [|x t Ht IH Hx]; simpl.
  - constructor; constructor.
  - destruct (N.ltb_spec x v) as [L|G].
    + constructor; [exact IH|]. apply Forall_forall. intros y Hy. apply ins_In in Hy.
      destruct Hy as [->|Hy]; [lia|]. rewrite Forall_forall in Hx. apply Hx. exact Hy.
    + constructor; [constructor; assumption|]. constructor; [exact G|].
      rewrite Forall_forall in *. intros y Hy. specialize (Hx y Hy). lia.
Qed.

Lemma remove_first_In v xs y : In y (remove_first v xs) -> In y xs.
Proof.
  induction xs as [|x t IH]; simpl; [tauto|].
  destruct (x =? v); [tauto|]. simpl. intros [->|H]; [left; reflexivity | right; apply IH; exact H].
Qed.

Lemma remove_first_sorted v xs : StronglySorted N.le xs -> StronglySorted N.le (remove_first v xs).
Proof.
  induction 1 as [|x t Ht IH Hx]; simpl; [constructor|].
  destruct (x =? v); [exact Ht|]. constructor; [exact IH|].
  rewrite Forall_forall in *. intros y Hy. apply Hx. eapply remove_first_In. exact Hy.
Qed.

Lemma remove_first_perm v xs : mem v xs = true -> Permutation (v :: remove_first v xs) xs.
Proof.
  unfold mem. induction xs as [|x t IH]; simpl; [discriminate|].
  destruct (N.eqb_spec x v) as [->|Ne].
  - intros _. apply Permutation_refl.
  - replace (v =? x) with false by (symmetry; apply N.eqb_neq; congruence). simpl. intro H.
    apply Permutation_trans with (x :: v :: remove_first v t); [apply perm_swap|].
    apply perm_skip. apply IH. exact H.
Qed.

Lemma remove_first_absent v xs : mem v xs = false -> remove_first v xs = xs.
Proof.
  unfold mem. induction xs as [|x t IH]; simpl; [reflexivity|].
  destruct (N.eqb_spec v x) as [->|Ne]; simpl; [discriminate|].
  replace (x =? v) with false by (symmetry; apply N.eqb_neq; congruence). intro H. rewrite IH by exact H. reflexivity.
Qed.

Lemma sorted_nth xs i j : StronglySorted N.le xs -> (i <= j < length xs)%nat -> nth i xs 0 <= nth j xs 0.
Proof.
  intro H. revert i j. induction H as [|x t Ht IH Hx]; intros i j Hij; simpl in *; [lia|].
  destruct i as [|i], j as [|j]; try lia.
  - rewrite Forall_forall in Hx. apply Hx. apply nth_In. lia.
  - apply IH. lia.
Qed.

(* ---- lower bound ---- *)
Lemma lower_bound_le xs v : (lower_bound xs v <= length xs)%nat.
Proof. induction xs as [|x t IH]; simpl; [lia|]. destruct (x <? v); simpl; lia. Qed.

Lemma lower_bound_unique xs v m : (m <= length xs)%nat ->
  (forall j, (j < m)%nat -> nth j xs 0 < v) ->
  ((m < length xs)%nat -> v <= nth m xs 0) ->
  lower_bound xs v = m.
Proof.
  revert m. induction xs as [|x t IH]; intros m Hm Hlo Hhi; simpl in *; [lia|].
  destruct (N.ltb_spec x v) as [L|G].
  - destruct m as [|m]; [specialize (Hhi ltac:(lia)); lia|].
    f_equal. apply IH; [lia| |].
    + intros j Hj. apply (Hlo (S j)). lia.
    + intro H. apply Hhi. lia.
  - destruct m as [|m]; [reflexivity|]. specialize (Hlo O ltac:(lia)). simpl in Hlo. lia.
Qed.

Lemma ins_insert_at v xs : ins v xs = insert_at xs (lower_bound xs v) v.
Proof.
  unfold insert_at. induction xs as [|x t IH]; simpl; [reflexivity|].
  destruct (x <? v); simpl; [rewrite IH|]; reflexivity.
Qed.

Lemma find_first_none xs v : (forall y, In y xs -> y <> v) -> find_first xs v = (-1)%Z.
Proof.
  induction xs as [|x t IH]; intro H; simpl; [reflexivity|].
  replace (x =? v) with false by (symmetry; apply N.eqb_neq; apply H; left; reflexivity).
  rewrite IH by (intros y Hy; apply H; right; exact Hy). reflexivity.
Qed.

Lemma find_first_range xs v : (-1 <= find_first xs v < Z.of_nat (length xs))%Z.
Proof.
  induction xs as [|x t IH]; simpl; [lia|]. destruct (x =? v); [lia|].
  destruct (find_first t v <? 0)%Z eqn:E; lia.
Qed.

(* on a sorted list the first equal element sits at the lower bound *)
Lemma find_first_sorted xs v : StronglySorted N.le xs ->
  find_first xs v =
  (let m := lower_bound xs v in
   if (m <? length xs)%nat && (nth m xs 0 =? v) then Z.of_nat m else (-1)%Z).
Proof.
  cbv zeta. induction 1 as [|x t Ht IH Hx]; simpl; [reflexivity|].
  destruct (N.ltb_spec x v) as [L|G].
  - replace (x =? v) with false by (symmetry; apply N.eqb_neq; lia). rewrite IH.
    change (S (lower_bound t v) <? S (length t))%nat with (lower_bound t v <? length t)%nat.
    destruct ((lower_bound t v <? length t)%nat && (nth (lower_bound t v) t 0 =? v)); simpl; [|reflexivity].
    replace (Z.of_nat (lower_bound t v) <? 0)%Z with false by (symmetry; apply Z.ltb_ge; lia). lia.
  - change (0 <? S (length t))%nat with true. cbn [andb].
    destruct (N.eqb_spec x v) as [E|Ne]; [reflexivity|].
    rewrite find_first_none; [reflexivity|].
    intros y Hy. rewrite Forall_forall in Hx. specialize (Hx y Hy). lia.
Qed.

Lemma mem_find_first xs v : mem v xs = (0 <=? find_first xs v)%Z.
Proof.
  unfold mem. induction xs as [|x t IH]; simpl; [reflexivity|].
  rewrite (N.eqb_sym v x). destruct (x =? v); simpl; [reflexivity|]. rewrite IH.
  pose proof (find_first_range t v).
  destruct (find_first t v <? 0)%Z eqn:E; destruct (0 <=? find_first t v)%Z eqn:F; try lia;
    symmetry; (apply Z.leb_gt || apply Z.leb_le); lia.
Qed.

Lemma remove_first_delete_at xs v : (0 <= find_first xs v)%Z ->
  remove_first v xs = delete_at xs (Z.to_nat (find_first xs v)).
Proof.
  unfold delete_at. induction xs as [|x t IH]; simpl; [lia|].
  destruct (x =? v); simpl; [reflexivity|].
  pose proof (find_first_range t v).
  destruct (find_first t v <? 0)%Z eqn:E; [lia|]. intros _.
  replace (Z.to_nat (find_first t v + 1)) with (S (Z.to_nat (find_first t v))) by lia.
  simpl. rewrite IH by lia. reflexivity.
Qed.

(* ---- positional operations by index ---- *)
Lemma nth_firstn_lt (l : list N) n i : (i < n)%nat -> nth i (firstn n l) 0 = nth i l 0.
Proof.
  revert n i. induction l as [|x t IH]; intros [|n] [|i] H; simpl; try lia; try reflexivity.
  apply IH. lia.
Qed.

Lemma nth_skipn (l : list N) n i : nth i (skipn n l) 0 = nth (n + i) l 0.
Proof.
  revert n i. induction l as [|x t IH]; intros [|n] i; simpl; try reflexivity.
  - destruct i; reflexivity.
  - apply IH.
Qed.

Lemma length_insert_at xs pos v : (pos <= length xs)%nat -> length (insert_at xs pos v) = S (length xs).
Proof.
  intro H. unfold insert_at. rewrite app_length, firstn_length. simpl. rewrite skipn_length. lia.
Qed.

Lemma nth_insert_at xs pos v j : (pos <= length xs)%nat ->
  nth j (insert_at xs pos v) 0 =
  if (j <? pos)%nat then nth j xs 0 else if (j =? pos)%nat then v else nth (j - 1) xs 0.
Proof.
  intro H. unfold insert_at.
  destruct (Nat.ltb_spec j pos) as [L|G].
  - rewrite app_nth1 by (rewrite firstn_length; lia). apply nth_firstn_lt. exact L.
  - rewrite app_nth2 by (rewrite firstn_length; lia). rewrite firstn_length.
    replace (Nat.min pos (length xs)) with pos by lia.
    destruct (Nat.eqb_spec j pos) as [->|Ne].
    + rewrite Nat.sub_diag. reflexivity.
    + destruct (j - pos)%nat as [|d] eqn:E; [lia|]. cbn [nth]. rewrite nth_skipn. f_equal. lia.
Qed.

Lemma length_delete_at xs pos : (pos < length xs)%nat -> length (delete_at xs pos) = (length xs - 1)%nat.
Proof.
  intro H. unfold delete_at. rewrite app_length, firstn_length, skipn_length. lia.
Qed.

Lemma nth_delete_at xs pos j : (pos < length xs)%nat ->
  nth j (delete_at xs pos) 0 = if (j <? pos)%nat then nth j xs 0 else nth (S j) xs 0.
Proof.
  intro H. unfold delete_at.
  destruct (Nat.ltb_spec j pos) as [L|G].
  - rewrite app_nth1 by (rewrite firstn_length; lia). apply nth_firstn_lt. exact L.
  - rewrite app_nth2 by (rewrite firstn_length; lia). rewrite firstn_length.
    replace (Nat.min pos (length xs)) with pos by lia.
    rewrite nth_skipn. f_equal. lia.
Qed.
