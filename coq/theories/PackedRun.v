(* PackedRun.v — how a caller drives the sorted-array functions of
   varintPacked.h: the caller owns the element count and passes it to every
   call (as varintDimension.c and the harness do).  Definitions only. *)
Require Import VV.Base VV.Packed VV.PackedSpec.
Local Open Scope N_scope.

(* one call: new array, new count, value returned to the caller, slots touched
   (None = the binary search ran out of fuel) *)
Definition packed_step (c : pcfg) (st : list N * N) (o : sop) : option (list N * N * Z * list N) :=
  let '(a, len) := st in
  match o with
  | SInsertSorted v =>
      match packed_insert_sorted c a len v with
      | Some (a', t) => Some (a', len + 1, 0%Z, t)
      | None => None
      end
  | SDeleteMember v =>
      match packed_delete_member c a len v with
      | Some (found, a', t) =>
          Some (a', if found then len - 1 else len, if found then 1%Z else 0%Z, t)
      | None => None
      end
  | SMember v =>
      match packed_member c a len v with
      | Some (r, t) => Some (a, len, r, t)
      | None => None
      end
  | SSearch v =>
      match packed_binary_search c a len v with
      | Some (m, t) => Some (a, len, Z.of_N m, t)
      | None => None
      end
  end.

Fixpoint packed_run (c : pcfg) (st : list N * N) (ops : list sop)
  : option (list N * N * list Z * list N) :=
  match ops with
  | [] => Some (fst st, snd st, [], [])
  | o :: rest =>
      match packed_step c st o with
      | None => None
      | Some (a1, len1, r, t) =>
          match packed_run c (a1, len1) rest with
          | None => None
          | Some (a2, len2, rs, ts) => Some (a2, len2, r :: rs, t ++ ts)
          end
      end
  end.

(* the elements 0..len-1 as Get reads them *)
Definition elems (c : pcfg) (a : list N) (len : N) : list N :=
  map (fun j => fst (packed_get c a (N.of_nat j))) (seq 0 (N.to_nat len)).
