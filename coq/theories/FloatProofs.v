(* FloatProofs.v — decode (encode ds) for whole arrays: every section of the
   stream is read back, in the three exponent modes (with the COMMON fallback),
   and the output is the per-value round trip of FloatValueProofs.v. *)
Require Import VV.Base VV.BaseProofs VV.Float VV.FloatSpec VV.FloatLemmas VV.FloatValueProofs.
From Coq Require Import Lia ZifyBool ZifyN ZifyNat Arith.
Local Open Scope N_scope.
Ltac Zify.zify_post_hook ::= Z.div_mod_to_equations.

(* exponents[] as the decoder leaves it (slots of specials are never read; the
   model writes 0 there) *)
Definition fl_exp' (e : fl_elem) : Z := if e_special e then 0%Z else e_exp e.

Lemma fl_elem_ok_exp e : fl_elem_ok e -> e_special e = false -> (-1022 <= e_exp e <= 1024)%Z.
Proof. intros (_ & _ & H) S. exact (H S). Qed.

(* ---------- counting ---------- *)

Lemma fl_count_normal_flags es : fl_count_normal (map fl_flag es) = length (fl_normals es).
Proof.
  unfold fl_count_normal, fl_normals. induction es as [|e es IH]; [reflexivity|].
  cbn [map filter]. unfold fl_flag at 1. destruct (e_special e); cbn [negb N.eqb length]; rewrite IH; reflexivity.
Qed.

Lemma fl_normals_specials es : (length (fl_normals es) + length (fl_specials es) = length es)%nat.
Proof.
  unfold fl_normals, fl_specials. induction es as [|e es IH]; [reflexivity|].
  cbn [filter]. destruct (e_special e); cbn [negb length]; lia.
Qed.

(* ---------- INDEPENDENT ---------- *)

Lemma fl_dec_indep_ok es rest : Forall fl_elem_ok es ->
  fl_dec_indep (map fl_flag es) (fl_exps_indep es ++ rest)
  = Some (map fl_exp' es, length (fl_exps_indep es)).
Proof.
  unfold fl_exps_indep. induction 1 as [|e es He _ IH]; [reflexivity|].
  cbn [map fl_dec_indep flat_map]. unfold fl_flag at 1, fl_exp' at 1.
  destruct (e_special e) eqn:S.
  - cbn [N.eqb app]. rewrite IH. reflexivity.
  - cbn [N.eqb]. pose proof (fl_elem_ok_exp e He S) as R.
    rewrite <- app_assoc, fl_get_put_exp by lia. rewrite fl_skipn_app, IH.
    rewrite fl_s16_id by lia. rewrite app_length. reflexivity.
Qed.

(* ---------- COMMON_EXPONENT ---------- *)

Definition fl_fold_min (acc : Z) (es : list fl_elem) : Z :=
  fold_left (fun acc e => if e_special e then acc
                          else if (e_exp e <? acc)%Z then e_exp e else acc) es acc.
Definition fl_fold_max (acc : Z) (es : list fl_elem) : Z :=
  fold_left (fun acc e => if e_special e then acc
                          else if (acc <? e_exp e)%Z then e_exp e else acc) es acc.

Lemma fl_fold_min_spec es : forall acc lb,
  (lb <= acc)%Z -> (forall e, In e es -> e_special e = false -> (lb <= e_exp e)%Z) ->
  (lb <= fl_fold_min acc es <= acc)%Z /\
  (forall e, In e es -> e_special e = false -> (fl_fold_min acc es <= e_exp e)%Z).
Proof.
  unfold fl_fold_min. induction es as [|x es IH]; intros acc lb Hlb Hall.
  - cbn. split; [lia|]. intros e [].
  - cbn [fold_left].
    set (acc' := if e_special x then acc else if (e_exp x <? acc)%Z then e_exp x else acc).
    assert (A : (lb <= acc' <= acc)%Z /\ (e_special x = false -> acc' <= e_exp x)%Z).
    { unfold acc'. destruct (e_special x) eqn:S; [split; [lia|discriminate]|].
      pose proof (Hall x (or_introl eq_refl) S). destruct (e_exp x <? acc)%Z eqn:C; lia. }
    destruct (IH acc' lb (proj1 (proj1 A)) (fun e He => Hall e (or_intror He))) as (B1 & B2).
    split; [lia|]. intros e [<-|He] S; [pose proof (proj2 A S); lia | apply B2; assumption].
Qed.

Lemma fl_fold_max_spec es : forall acc,
  (acc <= fl_fold_max acc es)%Z /\
  (forall e, In e es -> e_special e = false -> (e_exp e <= fl_fold_max acc es)%Z).
Proof.
  unfold fl_fold_max. induction es as [|x es IH]; intro acc.
  - cbn. split; [lia|]. intros e [].
  - cbn [fold_left].
    set (acc' := if e_special x then acc else if (acc <? e_exp x)%Z then e_exp x else acc).
    assert (A : (acc <= acc')%Z /\ (e_special x = false -> e_exp x <= acc')%Z).
    { unfold acc'. destruct (e_special x) eqn:S; [split; [lia|discriminate]|].
      destruct (acc <? e_exp x)%Z eqn:C; lia. }
    destruct (IH acc') as (B1 & B2).
    split; [lia|]. intros e [<-|He] S; [pose proof (proj2 A S); lia | apply B2; assumption].
Qed.

Lemma fl_dec_common_deltas_ok base es rest :
  (-1022 <= base <= 1024)%Z ->
  (forall e, In e es -> e_special e = false -> (base <= e_exp e <= base + 255)%Z /\ (e_exp e <= 1024)%Z) ->
  let bytes := flat_map (fun e => if e_special e then []
                                  else [Z.to_N ((e_exp e - base) mod 256)%Z]) es in
  fl_dec_common_deltas base (map fl_flag es) (bytes ++ rest) = (map fl_exp' es, length bytes).
Proof.
  intros Hb. induction es as [|e es IH]; intro Hall; [reflexivity|].
  cbv zeta in *. cbn [map fl_dec_common_deltas flat_map]. unfold fl_flag at 1, fl_exp' at 1.
  specialize (IH (fun x Hx => Hall x (or_intror Hx))).
  destruct (e_special e) eqn:S.
  - cbn [N.eqb app]. rewrite IH. reflexivity.
  - cbn [N.eqb app tl byte_at nth]. rewrite IH. cbn [fst snd length].
    destruct (Hall e (or_introl eq_refl) S) as (R1 & R2).
    f_equal. f_equal. unfold fl_s16. lia.
Qed.

Lemma fl_dec_common_ok es rest : Forall fl_elem_ok es ->
  (0 <? N.of_nat (length (fl_normals es))) && (255 <? fl_max_exp es - fl_min_exp es)%Z = false ->
  fl_dec_common (map fl_flag es) (fl_exps_common es ++ rest)
  = Some (map fl_exp' es, length (fl_exps_common es)).
Proof.
  intros Hok Hsp. unfold fl_dec_common, fl_exps_common. rewrite fl_count_normal_flags.
  destruct (0 <? N.of_nat (length (fl_normals es))) eqn:C.
  - replace (0 <? length (fl_normals es))%nat with true by lia.
    cbn [andb] in Hsp. cbv zeta.
    assert (Hall : forall e, In e es -> e_special e = false -> (-1022 <= e_exp e <= 1024)%Z).
    { intros e He S. rewrite Forall_forall in Hok. exact (fl_elem_ok_exp e (Hok e He) S). }
    destruct (fl_fold_min_spec es 32767%Z (-1022)%Z ltac:(lia) (fun e He S => proj1 (Hall e He S)))
      as (M1 & M2).
    destruct (fl_fold_max_spec es (-32768)%Z) as (X1 & X2).
    change (fl_fold_min 32767 es) with (fl_min_exp es) in M1, M2.
    change (fl_fold_max (-32768) es) with (fl_max_exp es) in X1, X2.
    (* a normal element exists, so min <= 1024 *)
    assert (Hmin : (fl_min_exp es <= 1024)%Z).
    { assert (exists e, In e es /\ e_special e = false) as (e & He & S).
      { clear - C. unfold fl_normals in C. induction es as [|x es IH]; [cbn in C; lia|].
        cbn [filter] in C. destruct (e_special x) eqn:S.
        - cbn [negb] in C. destruct (IH C) as (e & He & Se). exists e. split; [right|]; assumption.
        - exists x. split; [left; reflexivity|exact S]. }
      pose proof (M2 e He S). pose proof (Hall e He S). lia. }
    rewrite <- app_assoc, fl_get_put_exp by lia. rewrite fl_skipn_app.
    rewrite fl_s16_id by lia.
    rewrite fl_dec_common_deltas_ok.
    + cbn [fst snd]. rewrite app_length. reflexivity.
    + lia.
    + intros e He S. pose proof (M2 e He S). pose proof (X2 e He S). pose proof (Hall e He S). lia.
  - replace (0 <? length (fl_normals es))%nat with false by lia.
    cbn [app length]. f_equal. f_equal.
    assert (Hn : fl_normals es = []) by (destruct (fl_normals es); [reflexivity|cbn [length] in C; lia]).
    clear - Hn. unfold fl_normals in Hn. induction es as [|x es IH]; [reflexivity|].
    cbn [filter] in Hn. cbn [map]. unfold fl_exp' at 1. destruct (e_special x); [|discriminate].
    cbn [negb] in Hn. rewrite <- (IH Hn). reflexivity.
Qed.

(* ---------- DELTA_EXPONENT ---------- *)

Lemma fl_dec_delta_rest_ok es : forall prev rest, Forall fl_elem_ok es -> (-1022 <= prev <= 1024)%Z ->
  fl_dec_delta_rest prev (map fl_flag es) (fl_exps_delta_rest prev es ++ rest)
  = Some (map fl_exp' es, length (fl_exps_delta_rest prev es)).
Proof.
  induction es as [|e es IH]; intros prev rest Hok Hp; [reflexivity|].
  inversion Hok as [|? ? He Hes]; subst.
  cbn [map fl_dec_delta_rest fl_exps_delta_rest]. unfold fl_flag at 1, fl_exp' at 1.
  destruct (e_special e) eqn:S.
  - cbn [N.eqb]. rewrite IH by assumption. reflexivity.
  - cbn [N.eqb]. pose proof (fl_elem_ok_exp e He S) as R.
    rewrite (fl_s16_id (e_exp e - prev)) by lia.
    rewrite <- app_assoc, fl_get_put_exp by lia. rewrite fl_skipn_app. cbv zeta.
    rewrite (fl_s16_id (e_exp e - prev)) by lia.
    replace (fl_s16 (prev + (e_exp e - prev))) with (e_exp e) by (rewrite fl_s16_id; lia).
    rewrite IH by assumption. rewrite app_length. reflexivity.
Qed.

Lemma fl_dec_delta_ok es : forall rest, Forall fl_elem_ok es ->
  fl_dec_delta (map fl_flag es) (fl_exps_delta es ++ rest)
  = Some (map fl_exp' es, length (fl_exps_delta es)).
Proof.
  induction es as [|e es IH]; intros rest Hok; [reflexivity|].
  inversion Hok as [|? ? He Hes]; subst.
  cbn [map fl_dec_delta fl_exps_delta]. unfold fl_flag at 1, fl_exp' at 1.
  destruct (e_special e) eqn:S.
  - cbn [N.eqb]. rewrite IH by assumption. reflexivity.
  - cbn [N.eqb]. pose proof (fl_elem_ok_exp e He S) as R.
    rewrite <- app_assoc, fl_get_put_exp by lia. rewrite fl_skipn_app. cbv zeta.
    rewrite fl_s16_id by lia.
    rewrite fl_dec_delta_rest_ok by (assumption || lia). rewrite app_length. reflexivity.
Qed.

(* ---------- the three modes together, with the mode byte of the header ---------- *)

Lemma fl_dec_exps_ok mode es rest : mode < 256 -> Forall fl_elem_ok es ->
  let em := fl_exp_mode mode es in
  fl_dec_exps (u8 em) (map fl_flag es) (fl_exps em es ++ rest)
  = Some (map fl_exp' es, length (fl_exps em es)).
Proof.
  intros Hm Hok em. unfold em, fl_exp_mode, fl_dec_exps, fl_exps.
  destruct (mode =? 1) eqn:M1.
  - destruct ((0 <? N.of_nat (length (fl_normals es))) && (255 <? fl_max_exp es - fl_min_exp es)%Z) eqn:F.
    + change (u8 0 =? 0) with true. cbv iota. change (0 =? 0) with true. cbv iota.
      apply fl_dec_indep_ok. exact Hok.
    + change (u8 1 =? 0) with false. change (u8 1 =? 1) with true.
      change (1 =? 0) with false. change (1 =? 1) with true. cbv iota.
      apply fl_dec_common_ok; assumption.
  - assert (U : u8 mode = mode) by (unfold u8; lia). rewrite U.
    destruct (mode =? 0) eqn:M0.
    + apply fl_dec_indep_ok. exact Hok.
    + rewrite M1. apply fl_dec_delta_ok. exact Hok.
Qed.

(* ---------- specials, assembly ---------- *)

Lemma fl_length_special_bytes sp :
  length (flat_map (fun e => le_bytes 8 (e_raw e)) sp) = (8 * length sp)%nat.
Proof.
  induction sp as [|e sp IH]; [reflexivity|].
  cbn [flat_map]. rewrite app_length, length_le_bytes, IH. cbn [length]. lia.
Qed.

Lemma fl_read_specials_ok sp rest : Forall (fun e => e_raw e < 18446744073709551616) sp ->
  fl_read_specials (length sp) (flat_map (fun e => le_bytes 8 (e_raw e)) sp ++ rest) = map e_raw sp.
Proof.
  induction 1 as [|e sp He _ IH]; [reflexivity|].
  cbn [length fl_read_specials flat_map map]. rewrite <- app_assoc.
  rewrite <- (length_le_bytes 8 (e_raw e)) at 1 3.
  rewrite fl_take_pad_app, fl_skipn_app, IH, fl_of_le_8 by exact He. reflexivity.
Qed.

Lemma fl_assemble_ok mb es :
  fl_assemble mb (map fl_flag es) (map e_sign es) (map fl_exp' es)
              (map (fun e => e_mant e mod 2 ^ mb) (fl_normals es)) (map e_raw (fl_specials es))
  = map (fl_rt_elem mb) es.
Proof.
  unfold fl_normals, fl_specials. induction es as [|e es IH]; [reflexivity|].
  cbn [map fl_assemble filter]. unfold fl_flag at 1, fl_exp' at 1, fl_rt_elem at 1.
  destruct (e_special e) eqn:S; cbn [N.eqb negb map hd tl]; rewrite IH; reflexivity.
Qed.

(* ---------- the whole stream ---------- *)

Lemma fl_mant_bits_cases prec :
  fl_mant_bits prec = 52 \/ fl_mant_bits prec = 23 \/ fl_mant_bits prec = 10 \/ fl_mant_bits prec = 4.
Proof.
  unfold fl_mant_bits. destruct prec as [|p]; [tauto|].
  destruct p as [[|[]|]|[|[]|]|]; tauto.
Qed.

Lemma fl_encode_cons ds prec mode : ds <> [] ->
  fl_encode ds prec mode =
    [u8 prec; fl_exp_bits prec; fl_mant_bits prec;
     u8 (fl_exp_mode mode (map (fl_prepare (fl_mant_bits prec)) ds))]
      ++ fl_pack 1 (map fl_flag (map (fl_prepare (fl_mant_bits prec)) ds))
      ++ fl_pack 1 (map e_sign (map (fl_prepare (fl_mant_bits prec)) ds))
      ++ fl_exps (fl_exp_mode mode (map (fl_prepare (fl_mant_bits prec)) ds))
                 (map (fl_prepare (fl_mant_bits prec)) ds)
      ++ fl_mants (fl_mant_bits prec) (map (fl_prepare (fl_mant_bits prec)) ds)
      ++ fl_special_bytes (map (fl_prepare (fl_mant_bits prec)) ds).
Proof. destruct ds; [contradiction|reflexivity]. Qed.

Lemma fl_decode_pos z count : count <> O ->
  fl_decode z count =
    match fl_dec_exps (byte_at z 3) (fl_unpack 1 count (skipn 4 z))
                      (skipn ((count + 7) / 8) (skipn ((count + 7) / 8) (skipn 4 z))) with
    | None => None
    | Some (exps, k3) =>
        let z3 := skipn ((count + 7) / 8) (skipn ((count + 7) / 8) (skipn 4 z)) in
        let flags := fl_unpack 1 count (skipn 4 z) in
        let ncount := fl_count_normal flags in
        if (0 <? ncount)%nat && (64 <? byte_at z 2) then None
        else
          let k4 := if (0 <? ncount)%nat then ((ncount * N.to_nat (byte_at z 2) + 7) / 8)%nat else O in
          Some (N.of_nat (4 + (count + 7) / 8 + (count + 7) / 8 + k3 + k4 + 8 * (count - ncount)),
                fl_assemble (byte_at z 2) flags
                  (fl_unpack 1 count (skipn ((count + 7) / 8) (skipn 4 z))) exps
                  (if (0 <? ncount)%nat then fl_unpack (N.to_nat (byte_at z 2)) ncount (skipn k3 z3) else [])
                  (fl_read_specials (count - ncount) (skipn k4 (skipn k3 z3))))
    end.
Proof. destruct count; [contradiction|reflexivity]. Qed.

Lemma fl_flags_lt2 es : Forall (fun v => v < 2 ^ N.of_nat 1) (map fl_flag es).
Proof.
  apply Forall_forall. intros v Hv. apply in_map_iff in Hv. destruct Hv as (e & <- & _).
  unfold fl_flag. change (2 ^ N.of_nat 1) with 2. destruct (e_special e); lia.
Qed.

Lemma fl_signs_lt2 es : Forall fl_elem_ok es -> Forall (fun v => v < 2 ^ N.of_nat 1) (map e_sign es).
Proof.
  intro H. apply Forall_forall. intros v Hv. apply in_map_iff in Hv. destruct Hv as (e & <- & He).
  rewrite Forall_forall in H. destruct (H e He) as (Hs & _). change (2 ^ N.of_nat 1) with 2. exact Hs.
Qed.

Theorem fl_decode_encode ds prec mode rest :
  Forall (fun d => d < 18446744073709551616) ds -> mode < 256 ->
  fl_decode (fl_encode ds prec mode ++ rest) (length ds)
  = Some (N.of_nat (length (fl_encode ds prec mode)), map (fl_rt (fl_mant_bits prec)) ds).
Proof.
  intros Hds Hmode. destruct (list_eq_dec N.eq_dec ds []) as [->|Hne]; [reflexivity|].
  assert (Hn : length ds <> O) by (destruct ds; [contradiction|discriminate]).
  rewrite fl_encode_cons by exact Hne. rewrite fl_decode_pos by exact Hn.
  set (mb := fl_mant_bits prec). set (es := map (fl_prepare mb) ds).
  set (em := fl_exp_mode mode es).
  assert (Hlen : length es = length ds) by apply map_length.
  assert (Hok : Forall fl_elem_ok es).
  { unfold es. apply Forall_forall. intros e He. apply in_map_iff in He. destruct He as (d & <- & Hd).
    apply fl_prepare_ok. rewrite Forall_forall in Hds. exact (Hds d Hd). }
  assert (Hmb : mb <= 64) by (destruct (fl_mant_bits_cases prec) as [E|[E|[E|E]]]; unfold mb; rewrite E; lia).
  set (nb := ((length ds + 7) / 8)%nat).
  set (B1 := fl_pack 1 (map fl_flag es)). set (B2 := fl_pack 1 (map e_sign es)).
  set (X := fl_exps em es). set (Mn := fl_mants mb es). set (Sp := fl_special_bytes es).
  assert (LB1 : length B1 = nb) by (unfold B1, nb; rewrite fl_length_pack, map_length, Hlen, Nat.mul_1_r; reflexivity).
  assert (LB2 : length B2 = nb) by (unfold B2, nb; rewrite fl_length_pack, map_length, Hlen, Nat.mul_1_r; reflexivity).
  (* the stream after the header *)
  replace (([u8 prec; fl_exp_bits prec; mb; u8 em] ++ B1 ++ B2 ++ X ++ Mn ++ Sp) ++ rest)
    with (u8 prec :: fl_exp_bits prec :: mb :: u8 em :: B1 ++ B2 ++ X ++ Mn ++ Sp ++ rest)
    by (cbn [app]; rewrite <- !app_assoc; reflexivity).
  cbn [byte_at nth skipn].
  (* flags *)
  assert (F1 : fl_unpack 1 (length ds) (B1 ++ B2 ++ X ++ Mn ++ Sp ++ rest) = map fl_flag es).
  { replace (length ds) with (length (map fl_flag es)) by (rewrite map_length; exact Hlen).
    unfold B1. rewrite fl_unpack_pack. apply fl_map_mod_id. apply fl_flags_lt2. }
  rewrite F1.
  rewrite (fl_skipn_app_n nb B1) by exact LB1.
  assert (F2 : fl_unpack 1 (length ds) (B2 ++ X ++ Mn ++ Sp ++ rest) = map e_sign es).
  { replace (length ds) with (length (map e_sign es)) by (rewrite map_length; exact Hlen).
    unfold B2. rewrite fl_unpack_pack. apply fl_map_mod_id. apply fl_signs_lt2. exact Hok. }
  rewrite F2.
  rewrite (fl_skipn_app_n nb B2) by exact LB2.
  (* exponents *)
  pose proof (fl_dec_exps_ok mode es (Mn ++ Sp ++ rest) Hmode Hok) as DX. cbv zeta in DX.
  change (fl_exp_mode mode es) with em in DX. change (fl_exps em es) with X in DX.
  rewrite DX. clear DX. cbv zeta.
  rewrite fl_skipn_app, fl_count_normal_flags.
  pose proof (fl_normals_specials es) as Hcnt.
  set (nc := length (fl_normals es)) in *.
  replace (length ds - nc)%nat with (length (fl_specials es)) by lia.
  replace ((0 <? nc)%nat && (64 <? mb)) with false by lia.
  (* mantissas *)
  assert (LM : length Mn = if (0 <? nc)%nat then ((nc * N.to_nat mb + 7) / 8)%nat else O).
  { unfold Mn, fl_mants. fold nc. destruct (0 <? nc)%nat eqn:C.
    - replace (0 <? N.of_nat nc) with true by lia. rewrite fl_length_pack, map_length. reflexivity.
    - replace (0 <? N.of_nat nc) with false by lia. reflexivity. }
  rewrite <- LM. rewrite fl_skipn_app.
  assert (PM : (if (0 <? nc)%nat then fl_unpack (N.to_nat mb) nc (Mn ++ Sp ++ rest) else [])
               = map (fun e => e_mant e mod 2 ^ mb) (fl_normals es)).
  { unfold Mn, fl_mants. fold nc. destruct (0 <? nc)%nat eqn:C.
    - replace (0 <? N.of_nat nc) with true by lia.
      unfold nc at 1. rewrite <- (map_length e_mant (fl_normals es)).
      rewrite fl_unpack_pack, N2Nat.id, map_map. reflexivity.
    - assert (fl_normals es = []) as -> by (destruct (fl_normals es); [reflexivity|cbn [length] in nc; lia]).
      reflexivity. }
  rewrite PM.
  (* specials *)
  unfold Sp at 1, fl_special_bytes. rewrite fl_read_specials_ok.
  2:{ apply Forall_forall. intros e He. unfold fl_specials in He. apply filter_In in He.
      rewrite Forall_forall in Hok. destruct (Hok e (proj1 He)) as (_ & Hr & _). exact Hr. }
  rewrite fl_assemble_ok.
  f_equal. f_equal.
  - cbn [app length]. rewrite !app_length, LB1, LB2.
    unfold Sp, fl_special_bytes. rewrite fl_length_special_bytes. f_equal. lia.
  - unfold es. rewrite map_map. reflexivity.
Qed.
