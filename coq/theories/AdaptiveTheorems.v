(* AdaptiveTheorems.v — the statements used by Properties_C06/C03/C13/C16_adaptive.v. *)
Require Import VV.Base VV.BaseProofs VV.Tagged VV.TaggedProofs VV.TaggedSpecProofs.
Require Import VV.Delta VV.DfgLemmas VV.DeltaProofs VV.FOR VV.FORProofs.
Require Import VV.PFOR VV.PFORSpec VV.PFORLemmas VV.PFORProofs VV.PFORProofsDec VV.PFORTheorems.
Require Import VV.RLELemmas VV.Dict VV.DictProofs VV.DictSafety.
Require Import VV.Bitmap VV.BitmapLemmas VV.BitmapProofs.
Require Import VV.Adaptive VV.AdaptiveLemmas VV.AdaptiveDictProofs VV.AdaptiveSelectProofs
  VV.AdaptiveSizeProofs VV.AdaptiveBitmapProofs VV.AdaptiveMetaProofs VV.AdaptiveCapProofs.
From Coq Require Import Lia ZifyBool ZifyN ZifyNat Sorted.
Local Open Scope N_scope.
Ltac Zify.zify_post_hook ::= Z.div_mod_to_equations.

(* What "EncodeWith / Encode produced a faithful encoding of xs under code e" means:
   the bytes start with e, the meta says e / count / number of bytes written, the bytes
   fit in varintAdaptiveMaxSize(count), and Decode(count) of the bytes followed by ANYTHING
   returns xs (so nothing behind the encoding is needed). *)
Definition adp_faithful (xs : list N) (e : N) (r : adp_eres) : Prop :=
  exists bytes m, r = AEOk bytes m /\ hd 0 bytes = e /\
    am_type m = e /\ am_count m = N.of_nat (length xs) /\ am_size m = N.of_nat (length bytes) /\
    N.of_nat (length bytes) <= adp_max_size (N.of_nat (length xs)) /\
    forall tl, exists pm,
      adp_decode (bytes ++ tl) (N.of_nat (length xs)) = ADOk (N.of_nat (length xs)) xs pm.

Lemma adp_max_size_eq n : n < 576460752303423488 -> adp_max_size n = 21 + 22 * n.
Proof. exact (adp_max_size_small n). Qed.

Ltac size_goal := rewrite adp_max_size_eq by lia; cbn [length]; lia.

(* ---------- forced encodings ---------- *)
Theorem adp_with_delta xs : adp_u64s xs -> N.of_nat (length xs) < 576460752303423488 ->
  adp_faithful xs 0 (adp_encode_with xs 0).
Proof.
  intros HF Hn. rewrite adp_encode_with_delta.
  pose proof (adp_delta_len xs HF Hn) as L.
  eexists. eexists. split; [reflexivity|]. cbn [hd am_type am_count am_size length].
  repeat split; try reflexivity.
  - rewrite u64_small by lia. lia.
  - size_goal.
  - intro tl. eexists. apply adp_decode_delta. exact HF.
Qed.

Theorem adp_with_for xs : xs <> [] -> adp_u64s xs -> N.of_nat (length xs) < 576460752303423488 ->
  adp_faithful xs 1 (adp_encode_with xs 1).
Proof.
  intros Hne HF Hn. destruct (adp_encode_with_for xs Hne HF) as (m & Ha & E). rewrite E.
  pose proof (adp_for_len xs m HF Ha) as L.
  eexists. eexists. split; [reflexivity|]. cbn [hd am_type am_count am_size length].
  repeat split; try reflexivity.
  - rewrite u64_small by lia. lia.
  - size_goal.
  - intro tl. eexists. unfold adp_decode. cbn [app].
    pose proof (for_analyze_fits xs m HF Ha) as F.
    rewrite for_decode_bytes by (try assumption; lia). reflexivity.
Qed.

Theorem adp_with_pfor xs : (1 <= length xs)%nat -> N.of_nat (length xs) < 4294967296 -> adp_u64s xs ->
  adp_faithful xs 2 (adp_encode_with xs 2).
Proof.
  intros H1 H32 HF. rewrite adp_encode_with_pfor by assumption.
  pose proof (adp_pfor_len xs H1 H32 HF) as L.
  eexists. eexists. split; [reflexivity|]. cbn [hd am_type am_count am_size length].
  repeat split; try reflexivity.
  - rewrite u64_small by lia. lia.
  - size_goal.
  - intro tl. destruct (adp_decode_pfor xs tl H32 H1 HF) as (pm & E). eexists. exact E.
Qed.

Lemma dict_build_small xs : xs <> [] -> N.of_nat (length (dict_values_of xs)) <= 1048576 ->
  exists d, dict_build xs = DictBuildOk d.
Proof.
  intros Hne H. unfold dict_build. destruct xs as [|x t]; [congruence|].
  fold (dict_values_of (x :: t)). set (u := dict_values_of (x :: t)) in *.
  replace (4294967296 <=? N.of_nat (length u)) with false by lia.
  rewrite u32_small by lia. unfold dict_max_size.
  replace (1048576 <? N.of_nat (length u)) with false by lia. eexists. reflexivity.
Qed.

Theorem adp_with_dict xs : xs <> [] -> N.of_nat (length (dict_values_of xs)) <= 1048576 ->
  adp_u64s xs -> N.of_nat (length xs) < 576460752303423488 ->
  adp_faithful xs 3 (adp_encode_with xs 3).
Proof.
  intros Hne Hd HF Hn. destruct (dict_build_small xs Hne Hd) as (d & Hb).
  assert (Hc : u64_ok (N.of_nat (length xs))) by (unfold u64_ok; lia).
  rewrite (adp_encode_with_dict_ok xs d Hb HF Hc).
  pose proof (adp_dict_bytes_bound xs d Hb HF Hc) as L.
  eexists. eexists. split; [reflexivity|]. cbn [hd am_type am_count am_size length].
  repeat split; try reflexivity.
  - rewrite u64_small by lia. lia.
  - size_goal.
  - intro tl. eexists. apply (adp_decode_dict xs d tl _ Hb HF Hn); lia.
Qed.

Theorem adp_with_bitmap xs : StronglySorted N.lt xs -> Forall (fun v => v < 65536) xs ->
  adp_faithful xs 4 (adp_encode_with xs 4).
Proof.
  intros S HF. rewrite adp_encode_with_bitmap.
  destruct (adp_bitmap_len xs) as (L & L2).
  assert (Hn : N.of_nat (length xs) <= 65536).
  { pose proof (sorted_length_le xs S) as Q. unfold bm_lenN in Q. apply Q.
    intros x Hx. rewrite Forall_forall in HF. apply HF. exact Hx. }
  eexists. eexists. split; [reflexivity|]. cbn [hd am_type am_count am_size length].
  repeat split; try reflexivity.
  - rewrite u64_small by lia. lia.
  - size_goal.
  - intro tl. eexists. rewrite (adp_decode_bitmap xs tl _ S HF).
    rewrite N.min_id, Nat2N.id, firstn_all. reflexivity.
Qed.

Theorem adp_with_tagged xs e : 5 <= e < 256 -> adp_u64s xs -> N.of_nat (length xs) < 576460752303423488 ->
  adp_faithful xs e (adp_encode_with xs e).
Proof.
  intros He HF Hn. rewrite adp_encode_with_tagged by lia.
  pose proof (adp_tagged_len xs) as L.
  eexists. eexists. split; [reflexivity|]. cbn [hd am_type am_count am_size length].
  rewrite u8_small by lia.
  repeat split; try reflexivity.
  - rewrite u64_small by lia. lia.
  - size_goal.
  - intro tl. eexists. apply adp_decode_tagged; try assumption; lia.
Qed.

(* ---------- the automatic encoder ---------- *)
Theorem adp_encode_faithful xs : adp_u64s xs -> (1 <= length xs)%nat -> N.of_nat (length xs) < 4294967296 ->
  exists e, adp_faithful xs e (adp_encode xs) /\
    (e = adp_select (adp_analyze xs) \/
     (adp_select (adp_analyze xs) = 3 /\ 1048576 < N.of_nat (length (dict_values_of xs)) /\ e = 5)).
Proof.
  intros HF H1 H32.
  assert (Hne : xs <> []) by (destruct xs; [cbn [length] in H1; lia|discriminate]).
  unfold adp_encode. cbv zeta.
  pose proof (adp_select_range (adp_analyze xs)) as R.
  set (e := adp_select (adp_analyze xs)) in *.
  assert (C : e = 0 \/ e = 1 \/ e = 2 \/ e = 3 \/ e = 4 \/ e = 5) by lia.
  destruct C as [E|[E|[E|[E|[E|E]]]]].
  - exists 0. rewrite E. destruct (adp_with_delta xs HF ltac:(lia)) as (b & m & Q & Rest).
    rewrite Q. split; [|left; reflexivity]. exists b, m. split; [reflexivity|exact Rest].
  - exists 1. rewrite E. destruct (adp_with_for xs Hne HF ltac:(lia)) as (b & m & Q & Rest).
    rewrite Q. split; [|left; reflexivity]. exists b, m. split; [reflexivity|exact Rest].
  - exists 2. rewrite E. destruct (adp_with_pfor xs H1 H32 HF) as (b & m & Q & Rest).
    rewrite Q. split; [|left; reflexivity]. exists b, m. split; [reflexivity|exact Rest].
  - rewrite E. destruct (N.le_gt_cases (N.of_nat (length (dict_values_of xs))) 1048576) as [Hd|Hd].
    + exists 3. destruct (adp_with_dict xs Hne Hd HF ltac:(lia)) as (b & m & Q & Rest).
      rewrite Q. split; [|left; reflexivity]. exists b, m. split; [reflexivity|exact Rest].
    + exists 5. rewrite (adp_encode_with_dict_refused xs Hne Hd).
      change (3 =? ADP_TAGGED) with false. cbv iota.
      split; [|right; split; [reflexivity|split; [exact Hd|reflexivity]]].
      apply (adp_with_tagged xs 5); try assumption; lia.
  - exists 4. rewrite E.
    assert (Sel : adp_select (adp_analyze xs) = 4) by exact E.
    destruct (adp_select_bitmap_sound xs Sel) as (S & B & _).
    destruct (adp_with_bitmap xs S B) as (b & m & Q & Rest).
    rewrite Q. split; [|left; reflexivity]. exists b, m. split; [reflexivity|exact Rest].
  - exists 5. rewrite E. destruct (adp_with_tagged xs 5 ltac:(lia) HF ltac:(lia)) as (b & m & Q & Rest).
    rewrite Q. split; [|left; reflexivity]. exists b, m. split; [reflexivity|exact Rest].
Qed.

Theorem adp_encode_meta_truth xs : adp_u64s xs -> (1 <= length xs)%nat -> N.of_nat (length xs) < 4294967296 ->
  exists bytes m e, adp_encode xs = AEOk bytes m /\ hd 0 bytes = e /\
    am_type m = e /\ am_count m = N.of_nat (length xs) /\ am_size m = N.of_nat (length bytes) /\
    forall tl, exists pm,
      adp_decode (bytes ++ tl) (N.of_nat (length xs)) = ADOk (N.of_nat (length xs)) xs pm.
Proof.
  intros H1 H2 H3. destruct (adp_encode_faithful xs H1 H2 H3) as (e & (b & m & A & B & C & D & E & _ & F) & _).
  exists b, m, e. repeat split; assumption.
Qed.

(* ---------- C03 for every array, in or out of an encoding's domain ---------- *)
Definition adp_written (r : adp_eres) : list N :=
  match r with AEOk b _ => b | AEFail b => b | AEUB => [] end.

Theorem adp_encode_with_bound xs e : adp_u64s xs -> N.of_nat (length xs) < 4294967296 ->
  N.of_nat (length (adp_written (adp_encode_with xs e))) <= adp_max_size (N.of_nat (length xs)).
Proof.
  intros HF H32. rewrite adp_max_size_eq by lia.
  destruct (N.lt_ge_cases e 5) as [He|He].
  2:{ rewrite adp_encode_with_tagged by lia. cbn [adp_written length]. pose proof (adp_tagged_len xs). lia. }
  assert (C : e = 0 \/ e = 1 \/ e = 2 \/ e = 3 \/ e = 4) by lia.
  destruct C as [->|[->|[->|[->| ->]]]].
  - rewrite adp_encode_with_delta. cbn [adp_written length].
    pose proof (adp_delta_len xs HF ltac:(unfold adp_count_ok; lia)). lia.
  - destruct xs as [|x t].
    + cbn. lia.
    + destruct (adp_encode_with_for (x :: t) ltac:(discriminate) HF) as (m & Ha & E). rewrite E.
      cbn [adp_written]. pose proof (adp_for_len (x :: t) m HF Ha). cbn [length] in *. lia.
  - destruct xs as [|x t].
    + apply N.leb_le. vm_compute. reflexivity.
    + rewrite adp_encode_with_pfor by (try assumption; cbn [length]; lia). cbn [adp_written].
      pose proof (adp_pfor_len (x :: t) ltac:(cbn [length]; lia) H32 HF). cbn [length] in *. lia.
  - destruct xs as [|x t]; [apply N.leb_le; vm_compute; reflexivity|].
    destruct (N.le_gt_cases (N.of_nat (length (dict_values_of (x :: t)))) 1048576) as [Hd|Hd].
    + destruct (dict_build_small (x :: t) ltac:(discriminate) Hd) as (d & Hb).
      assert (Hc : u64_ok (N.of_nat (length (x :: t)))) by (unfold u64_ok; lia).
      rewrite (adp_encode_with_dict_ok _ d Hb HF Hc). cbn [adp_written].
      pose proof (adp_dict_bytes_bound _ d Hb HF Hc). cbn [length] in *. lia.
    + rewrite (adp_encode_with_dict_refused (x :: t) ltac:(discriminate) Hd). cbn [adp_written length]. lia.
  - rewrite adp_encode_with_bitmap. cbn [adp_written length].
    destruct (adp_bitmap_len xs) as (L & _). lia.
Qed.

Theorem adp_encode_bound xs : adp_u64s xs -> N.of_nat (length xs) < 4294967296 ->
  N.of_nat (length (adp_written (adp_encode xs))) <= adp_max_size (N.of_nat (length xs)).
Proof.
  intros HF H32. unfold adp_encode. cbv zeta.
  pose proof (adp_encode_with_bound xs (adp_select (adp_analyze xs)) HF H32) as B1.
  pose proof (adp_encode_with_bound xs ADP_TAGGED HF H32) as B2.
  destruct (adp_encode_with xs (adp_select (adp_analyze xs))); try exact B1.
  destruct (adp_select (adp_analyze xs) =? ADP_TAGGED); [exact B1|exact B2].
Qed.

(* ---------- C13 on valid encodings: capacity below (or equal to) the count ---------- *)
(* result of Decode with maxCount = cap <= count: either failure with nothing stored, or
   the first r values *)
Definition adp_cap_result (xs : list N) (cap : N) (d : adp_dres) : Prop :=
  exists r stores pm, d = ADOk r stores pm /\ N.of_nat (length stores) <= cap /\
    ((r = 0 /\ stores = []) \/ (r = N.of_nat (length stores) /\ stores = firstn (N.to_nat r) xs)).

Theorem adp_cap_delta xs tl cap : adp_u64s xs -> cap <= N.of_nat (length xs) ->
  adp_cap_result xs cap (adp_decode ((0 :: delta_encode_u xs) ++ tl) cap).
Proof.
  intros HF Hc. unfold adp_decode. cbn [app].
  destruct (delta_u_prefix xs tl (N.to_nat cap) HF ltac:(lia)) as (u & E). rewrite E.
  exists cap, (firstn (N.to_nat cap) xs), None. split; [reflexivity|].
  rewrite firstn_length_le by lia. split; [lia|]. right. split; [lia|reflexivity].
Qed.

Theorem adp_cap_for xs m tl cap : adp_u64s xs -> for_analyze xs = Some m ->
  N.of_nat (length xs) < 576460752303423488 -> cap <= N.of_nat (length xs) ->
  adp_cap_result xs cap (adp_decode ((1 :: for_bytes m xs) ++ tl) cap).
Proof.
  intros HF Ha Hn Hc. unfold adp_decode. cbn [app].
  pose proof (for_analyze_fits xs m HF Ha) as F.
  destruct (N.eq_dec cap (N.of_nat (length xs))) as [->|Hlt].
  - rewrite for_decode_bytes by (try assumption; lia).
    exists (N.of_nat (length xs)), xs, None. split; [reflexivity|]. split; [lia|]. right.
    rewrite Nat2N.id, firstn_all. split; reflexivity.
  - rewrite for_decode_bytes_short by (try assumption; lia).
    exists 0, [], None. split; [reflexivity|]. cbn [length]. split; [lia|]. left. split; reflexivity.
Qed.

Theorem adp_cap_pfor xs tl cap : (1 <= length xs)%nat -> N.of_nat (length xs) < 4294967296 ->
  adp_u64s xs -> cap <= N.of_nat (length xs) ->
  adp_cap_result xs cap (adp_decode ((2 :: pfor_encode_bytes xs 95) ++ tl) cap).
Proof.
  intros H1 H32 HF Hc.
  destruct (N.eq_dec cap (N.of_nat (length xs))) as [->|Hlt].
  - destruct (adp_decode_pfor xs tl H32 H1 HF) as (pm & E). rewrite E.
    exists (N.of_nat (length xs)), xs, (Some pm). split; [reflexivity|]. split; [lia|]. right.
    rewrite Nat2N.id, firstn_all. split; reflexivity.
  - rewrite adp_decode_pfor_short by (try assumption; lia).
    exists 0, [], None. split; [reflexivity|]. cbn [length]. split; [lia|]. left. split; reflexivity.
Qed.

Theorem adp_cap_dict xs d tl cap : dict_build xs = DictBuildOk d -> adp_u64s xs ->
  N.of_nat (length xs) < 576460752303423488 -> cap <= N.of_nat (length xs) ->
  adp_cap_result xs cap (adp_decode ((3 :: dict_bytes xs) ++ tl) cap).
Proof.
  intros Hb HF Hn Hc.
  destruct (N.eq_dec cap (N.of_nat (length xs))) as [->|Hlt].
  - rewrite (adp_decode_dict xs d tl _ Hb HF Hn) by lia.
    exists (N.of_nat (length xs)), xs, None. split; [reflexivity|]. split; [lia|]. right.
    rewrite Nat2N.id, firstn_all. split; reflexivity.
  - rewrite (adp_decode_dict_short xs d tl cap Hb HF) by (unfold u64_ok; lia).
    exists 0, [], None. split; [reflexivity|]. cbn [length]. split; [lia|]. left. split; reflexivity.
Qed.

Theorem adp_cap_bitmap xs tl cap : StronglySorted N.lt xs -> Forall (fun v => v < 65536) xs ->
  cap <= N.of_nat (length xs) ->
  adp_cap_result xs cap (adp_decode ((4 :: bm_encode (adp_bitmap_of xs)) ++ tl) cap).
Proof.
  intros S HF Hc. rewrite (adp_decode_bitmap xs tl cap S HF). rewrite N.min_r by lia.
  exists cap, (firstn (N.to_nat cap) xs), None. split; [reflexivity|].
  rewrite firstn_length_le by lia. split; [lia|]. right. split; [lia|reflexivity].
Qed.

Theorem adp_cap_tagged xs tl cap e : 5 <= e -> adp_u64s xs ->
  N.of_nat (length xs) < 576460752303423488 -> cap <= N.of_nat (length xs) ->
  adp_cap_result xs cap (adp_decode ((e :: flat_map tagged_put64 xs) ++ tl) cap).
Proof.
  intros He HF Hn Hc. cbn [app]. rewrite adp_decode_tagged_code by exact He.
  rewrite (adp_tagged_loop_prefix xs (N.to_nat cap) tl 0 0 cap) by (try assumption; lia).
  rewrite N.sub_0_r, adp_len_spec.
  exists cap, (firstn (N.to_nat cap) xs), None. rewrite firstn_length_le by lia.
  split; [f_equal; lia|]. split; [lia|]. right. split; [lia|reflexivity].
Qed.

(* ---------- C16: ReadMeta / GetEncodingType on what Encode(With) produced ---------- *)
Theorem adp_read_meta_truth xs e bytes m tl : adp_u64s xs -> N.of_nat (length xs) < 4294967296 ->
  e <= 5 -> adp_encode_with xs e = AEOk bytes m ->
  adp_get_encoding_type (bytes ++ tl) = e /\
  exists rm, adp_read_meta (bytes ++ tl) = POk rm /\ am_type rm = e /\
    ((e = 1 \/ e = 2) -> am_count rm = N.of_nat (length xs) /\ am_size rm = N.of_nat (length bytes)) /\
    (e <> 1 -> e <> 2 -> am_count rm = 0 /\ am_size rm = 1).
Proof.
  intros HF H32 He E.
  assert (C : e = 0 \/ e = 1 \/ e = 2 \/ e = 3 \/ e = 4 \/ e = 5) by lia.
  destruct C as [->|[->|[->|[->|[->| ->]]]]].
  - rewrite adp_encode_with_delta in E. inversion E; subst. cbn [app]. split; [reflexivity|].
    rewrite adp_read_meta_other by lia. eexists. split; [reflexivity|]. cbn [am_type am_count am_size].
    repeat split; try reflexivity; intros; lia.
  - destruct xs as [|x t]; [cbn in E; discriminate|].
    destruct (adp_encode_with_for (x :: t) ltac:(discriminate) HF) as (fm & Ha & E2).
    rewrite E2 in E. inversion E; subst. split; [reflexivity|].
    destruct (adp_read_meta_for (x :: t) fm tl HF Ha ltac:(lia)) as (rfm & R). rewrite R.
    eexists. split; [reflexivity|]. cbn [am_type am_count am_size].
    repeat split; try reflexivity; intros; lia.
  - destruct xs as [|x t].
    { vm_compute in E. inversion E; subst. cbn [app]. split; [reflexivity|]. vm_compute. eexists.
      split; [reflexivity|]. cbn [am_type am_count am_size length]. repeat split; intros; try reflexivity; lia. }
    rewrite adp_encode_with_pfor in E by (try assumption; cbn [length]; lia). inversion E; subst.
    split; [reflexivity|].
    destruct (adp_read_meta_pfor (x :: t) tl ltac:(cbn [length]; lia) H32 HF) as (pm & R). rewrite R.
    eexists. split; [reflexivity|]. cbn [am_type am_count am_size].
    repeat split; try reflexivity; intros; lia.
  - assert (H3 : hd 0 bytes = 3 /\ exists t, bytes = 3 :: t).
    { unfold adp_encode_with in E. cbv zeta in E.
      destruct ((dict_ret (dict_encode xs) =? 0) && (0 <? adp_len xs)); [discriminate|].
      inversion E; subst. split; [reflexivity|]. eexists. reflexivity. }
    destruct H3 as (_ & t & ->). cbn [app]. split; [reflexivity|].
    rewrite adp_read_meta_other by lia. eexists. split; [reflexivity|]. cbn [am_type am_count am_size].
    repeat split; try reflexivity; intros; lia.
  - rewrite adp_encode_with_bitmap in E. inversion E; subst. cbn [app]. split; [reflexivity|].
    rewrite adp_read_meta_other by lia. eexists. split; [reflexivity|]. cbn [am_type am_count am_size].
    repeat split; try reflexivity; intros; lia.
  - rewrite adp_encode_with_tagged in E by lia. inversion E; subst. cbn [app]. split; [reflexivity|].
    change (u8 5) with 5. rewrite adp_read_meta_other by lia. eexists. split; [reflexivity|].
    cbn [am_type am_count am_size]. repeat split; try reflexivity; intros; lia.
Qed.

(* Decode's own report: the value returned is the number of values stored (and the
   originalCount written to *meta), the encodingType is the first byte *)
Theorem adp_decode_reports src cap r stores pm : adp_decode src cap = ADOk r stores pm ->
  N.of_nat (length stores) <= cap /\ r <= cap.
Proof. exact (adp_decode_cap_any src cap r stores pm). Qed.
