(* PackedIncrProofs.v — SetIncr and SetHalf are a Get followed by a Set of the
   new value at the same position; hence they change only the addressed
   element. *)
Require Import VV.Base VV.BaseProofs VV.Packed VV.PackedLemmas VV.PackedProofs.
From Coq Require Import Lia ZifyBool ZifyN ZifyNat.
Local Open Scope N_scope.
Ltac Zify.zify_post_hook ::= Z.div_mod_to_equations.

(* (mask >> q) << q is the same in uint32_t and in uint64_t for a mask below 2^32 *)
Lemma shl_mask_32_64 w q : w <= 32 -> shl64 (shr (N.ones w) q) q = shl32 (shr (N.ones w) q) q.
Proof.
  intro H. unfold shl64, shl32, shr.
  assert (P : 2 ^ q <> 0) by (apply N.pow_nonzero; lia).
  pose proof (N.mul_div_le (N.ones w) (2 ^ q) P) as L.
  pose proof (ones_lt w) as O.
  assert (2 ^ w <= 2 ^ 32) by (apply N.pow_le_mono_r; lia).
  change (2 ^ 32) with 4294967296 in *.
  rewrite !N.mod_small; lia.
Qed.

Lemma packed_set_incr_eq c a i d : admitted c ->
  packed_set_incr c a i d = packed_set c a i (incr_value c (getv c a i) d).
Proof.
  intros A. pose proof A as (W1 & W32 & S0 & S64 & SP & HV & HP).
  unfold packed_set_incr, packed_set, getv, packed_get. cbv zeta.
  destruct (slot_can_hold_entire_value c && _); cbn [fst].
  - reflexivity.
  - rewrite (value_mask_ok c A). rewrite (shl_mask_32_64 _ _ W32). reflexivity.
Qed.

Lemma packed_set_half_eq c a i : admitted c ->
  packed_set_half c a i =
  if getv c a i =? 0 then (a, snd (packed_get c a i))
  else packed_set c a i (val_cast c (getv c a i / 2)).
Proof.
  intros A. pose proof A as (W1 & W32 & S0 & S64 & SP & HV & HP).
  unfold packed_set_half, packed_set, getv, packed_get. cbv zeta.
  destruct (slot_can_hold_entire_value c && _); cbn [fst snd].
  - reflexivity.
  - rewrite (value_mask_ok c A). rewrite (shl_mask_32_64 _ _ W32). reflexivity.
Qed.

(* a non-negative increment whose result is in range adds *)
Lemma incr_value_ok c cur d : admitted c -> (0 <= d)%Z -> (Z.of_N cur + d < Z.of_N (2 ^ p_w c))%Z ->
  incr_value c cur d = Z.to_N (Z.of_N cur + d).
Proof.
  intros A Hd Hr. pose proof A as (W1 & W32 & S0 & S64 & SP & HV & HP).
  unfold incr_value, val_cast_z.
  assert (E : (2 ^ Z.of_N (p_V c))%Z = Z.of_N (2 ^ p_V c)) by (rewrite N2Z.inj_pow; reflexivity).
  assert (M : 2 ^ p_w c <= 2 ^ p_V c) by (apply N.pow_le_mono_r; lia).
  rewrite E. rewrite Z.mod_small by lia.
  destruct (N.ltb_spec (Z.to_N (Z.of_N cur + d)) cur); [lia|reflexivity].
Qed.

Definition incrv (c : pcfg) (a : list N) (i : N) (d : Z) : list N := fst (packed_set_incr c a i d).
Definition halfv (c : pcfg) (a : list N) (i : N) : list N := fst (packed_set_half c a i).

Lemma incrv_setv c a i d : admitted c -> wf c a -> i < 4294967296 -> (0 <= d)%Z ->
  (Z.of_N (getv c a i) + d < Z.of_N (2 ^ p_w c))%Z ->
  incrv c a i d = setv c a i (Z.to_N (Z.of_N (getv c a i) + d)).
Proof.
  intros A Hwf Hi Hd Hr. unfold incrv, setv. rewrite (packed_set_incr_eq c a i d A).
  rewrite (incr_value_ok c _ d A Hd Hr). reflexivity.
Qed.

Lemma halfv_setv c a i : admitted c -> wf c a -> inb c a i -> i < 4294967296 ->
  (forall n, abit c (halfv c a i) n = abit c (setv c a i (getv c a i / 2)) n) /\
  length (halfv c a i) = length a /\ wf c (halfv c a i).
Proof.
  intros A Hwf Hin Hi. unfold halfv. rewrite (packed_set_half_eq c a i A).
  pose proof (getv_lt c a i A Hwf Hi) as L.
  assert (L2 : getv c a i / 2 < 2 ^ p_w c).
  { apply N.le_lt_trans with (getv c a i); [|exact L]. apply N.div_le_upper_bound; lia. }
  destruct (N.eqb_spec (getv c a i) 0) as [E|E]; cbn [fst].
  - split; [|split; [reflexivity|exact Hwf]].
    intro n. rewrite E. change (0 / 2) with 0.
    destruct (N.lt_ge_cases n (i * p_w c)) as [Lo|Ge].
    + symmetry. apply set_bits_outside; try assumption; lia.
    + destruct (N.lt_ge_cases n (i * p_w c + p_w c)) as [In'|Out].
      * replace n with (i * p_w c + (n - i * p_w c)) by lia.
        rewrite set_bits_inside by (assumption || lia).
        rewrite N.bits_0.
        pose proof (get_bits c a i (n - i * p_w c) A Hwf Hi) as G. rewrite E, N.bits_0 in G.
        replace (n - i * p_w c <? p_w c) with true in G by (symmetry; apply N.ltb_lt; lia).
        cbn [andb] in G. symmetry. exact G.
      * symmetry. apply set_bits_outside; try assumption; lia.
  - rewrite (val_cast_val c _ A L2). fold (setv c a i (getv c a i / 2)).
    split; [reflexivity|]. split; [apply setv_length | apply setv_wf; assumption].
Qed.

(* ---- SetIncr: only element i changes, to the sum ---- *)
Theorem incr_get_same c a i d : admitted c -> wf c a -> inb c a i -> i < 4294967296 -> (0 <= d)%Z ->
  (Z.of_N (getv c a i) + d < Z.of_N (2 ^ p_w c))%Z ->
  getv c (incrv c a i d) i = Z.to_N (Z.of_N (getv c a i) + d).
Proof.
  intros A Hwf Hin Hi Hd Hr. rewrite (incrv_setv c a i d A Hwf Hi Hd Hr).
  apply get_set_same; try assumption. lia.
Qed.

Theorem incr_get_other c a i j d : admitted c -> wf c a -> inb c a i -> i < 4294967296 -> j < 4294967296 ->
  (0 <= d)%Z -> (Z.of_N (getv c a i) + d < Z.of_N (2 ^ p_w c))%Z -> j <> i ->
  getv c (incrv c a i d) j = getv c a j.
Proof.
  intros A Hwf Hin Hi Hj Hd Hr Hne. rewrite (incrv_setv c a i d A Hwf Hi Hd Hr).
  apply get_set_other; try assumption. lia.
Qed.

Theorem incr_bits_outside c a i d n : admitted c -> wf c a -> inb c a i -> i < 4294967296 ->
  (0 <= d)%Z -> (Z.of_N (getv c a i) + d < Z.of_N (2 ^ p_w c))%Z ->
  ~ (i * p_w c <= n < i * p_w c + p_w c) ->
  abit c (incrv c a i d) n = abit c a n.
Proof.
  intros A Hwf Hin Hi Hd Hr Hn. rewrite (incrv_setv c a i d A Hwf Hi Hd Hr).
  apply set_bits_outside; try assumption. lia.
Qed.

Theorem incr_touched c a i d k : admitted c -> i < 4294967296 ->
  In k (snd (packed_set_incr c a i d)) ->
  (i * p_w c) / p_S c <= k <= (i * p_w c + p_w c - 1) / p_S c.
Proof.
  intros A Hi. rewrite (packed_set_incr_eq c a i d A). apply set_touched; assumption.
Qed.

(* ---- SetHalf: only element i changes, to half its value ---- *)
Theorem half_get_same c a i : admitted c -> wf c a -> inb c a i -> i < 4294967296 ->
  getv c (halfv c a i) i = getv c a i / 2.
Proof.
  intros A Hwf Hin Hi. destruct (halfv_setv c a i A Hwf Hin Hi) as (B & Len & W).
  pose proof (getv_lt c a i A Hwf Hi) as L.
  assert (L2 : getv c a i / 2 < 2 ^ p_w c).
  { apply N.le_lt_trans with (getv c a i); [|exact L]. apply N.div_le_upper_bound; lia. }
  transitivity (getv c (setv c a i (getv c a i / 2)) i); [|apply get_set_same; assumption].
  apply getv_ext; try assumption; [apply setv_wf; assumption|]. intros j _. apply B.
Qed.

Theorem half_get_other c a i j : admitted c -> wf c a -> inb c a i -> i < 4294967296 -> j < 4294967296 ->
  j <> i -> getv c (halfv c a i) j = getv c a j.
Proof.
  intros A Hwf Hin Hi Hj Hne. destruct (halfv_setv c a i A Hwf Hin Hi) as (B & Len & W).
  pose proof (getv_lt c a i A Hwf Hi) as L.
  assert (L2 : getv c a i / 2 < 2 ^ p_w c).
  { apply N.le_lt_trans with (getv c a i); [|exact L]. apply N.div_le_upper_bound; lia. }
  transitivity (getv c (setv c a i (getv c a i / 2)) j); [|apply get_set_other; assumption].
  apply getv_ext; try assumption; [apply setv_wf; assumption|]. intros b _. apply B.
Qed.

Theorem half_bits_outside c a i n : admitted c -> wf c a -> inb c a i -> i < 4294967296 ->
  ~ (i * p_w c <= n < i * p_w c + p_w c) ->
  abit c (halfv c a i) n = abit c a n.
Proof.
  intros A Hwf Hin Hi Hn. destruct (halfv_setv c a i A Hwf Hin Hi) as (B & Len & W).
  pose proof (getv_lt c a i A Hwf Hi) as L.
  assert (L2 : getv c a i / 2 < 2 ^ p_w c).
  { apply N.le_lt_trans with (getv c a i); [|exact L]. apply N.div_le_upper_bound; lia. }
  rewrite B. apply set_bits_outside; assumption.
Qed.

Theorem half_touched c a i k : admitted c -> i < 4294967296 ->
  In k (snd (packed_set_half c a i)) ->
  (i * p_w c) / p_S c <= k <= (i * p_w c + p_w c - 1) / p_S c.
Proof.
  intros A Hi. rewrite (packed_set_half_eq c a i A).
  destruct (getv c a i =? 0); cbn [snd]; [apply get_touched | apply set_touched]; assumption.
Qed.
