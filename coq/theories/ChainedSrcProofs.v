(* ChainedSrcProofs.v — the regenerated renderings of the functions of
   src/varintChained.c and of the two macros of varintChained.h
   (coq/gen/Src_chained.v, produced by gen/c2coq.py) compute what the
   hand-written model of Chained.v computes, for every input and every
   sufficient fuel. *)
Require Import VV.Base VV.BaseProofs VV.Tagged VV.TaggedProofs VV.Chained VV.ChainedPutProofs VV.CSem VV.CSemProofs VV.CsimpleSrcProofs.
Require Import VVgen.Src_chained.
From Coq Require Import Lia ZifyBool ZifyN ZifyNat.
Local Open Scope Z_scope.
Ltac Zify.zify_post_hook ::= Z.div_mod_to_equations.

Lemma chained_classes v : (v < 18446744073709551616)%N ->
  ((v < 128 /\ chained_len v = 1) \/ (128 <= v < 16384 /\ chained_len v = 2) \/
   (16384 <= v < 2097152 /\ chained_len v = 3) \/ (2097152 <= v < 268435456 /\ chained_len v = 4) \/
   (268435456 <= v < 34359738368 /\ chained_len v = 5) \/
   (34359738368 <= v < 4398046511104 /\ chained_len v = 6) \/
   (4398046511104 <= v < 562949953421312 /\ chained_len v = 7) \/
   (562949953421312 <= v < 72057594037927936 /\ chained_len v = 8) \/
   (72057594037927936 <= v /\ chained_len v = 9))%N.
Proof. intro H. rewrite chained_len_table by exact H. kill_ifs; lia. Qed.

Ltac split_ch x :=
  let H := fresh "H" in
  pose proof (chained_classes (Z.to_N x)) as H;
  let T := type of H in
  match T with ?P -> _ => let P' := fresh in assert (P' : P) by lia; specialize (H P'); clear P' end;
  repeat match goal with H : _ \/ _ |- _ => destruct H as [H|H] end;
  match goal with
  | H : _ /\ chained_len _ = _ |- _ => let R := fresh "R" in let L := fresh "L" in destruct H as [R L]
  end.

Lemma src_varintChainedVarintLen_is_model : forall fuel v, (10 <= fuel)%nat -> 0 <= v < 18446744073709551616 ->
  src_varintChainedVarintLen fuel v = COk (Z.of_N (chained_len (Z.to_N v))).
Proof.
  intros fuel v Hf Hv. peel_fuel fuel 10%nat. split_ch v. all: rewrite L; clear L.
  all: unfold src_varintChainedVarintLen; c_unfold; c_loop; f_equal; lia.
Qed.

Lemma nland_hi8 v : (v < 18446744073709551616 -> N.land v 18374686479671623680 = v / 2 ^ 56 * 2 ^ 56)%N.
Proof.
  intro H. apply N2Z.inj. rewrite N2Z_land, N2Z.inj_mul, N2Z.inj_div, N2Z.inj_pow. cbn [Z.of_N].
  apply zland_hi8. lia.
Qed.

Ltac bits8 :=
  cbn [length]; closed_eval;
  repeat match goal with
  | |- context [Z.land ?b 18374686479671623680] => rewrite (zland_hi8 b) by lia
  | |- context [N.land ?b 18374686479671623680] => rewrite (nland_hi8 b) by lia
  end.
Ltac c_step8 := c_simp; bits8; c_step.
Ltac c_loop8 := repeat c_step8; c_simp; bits8; repeat (rewrite c_while_S; unfold bind; repeat c_step8; c_simp; bits8).

(* stores made in any order: bring the chain of single-byte updates into ascending order of index *)
Lemma upd_comm m i j a b : i <> j -> upd (upd m i a) j b = upd (upd m j b) i a.
Proof.
  revert i j. induction m as [|h t IH]; intros [|i] [|j] H; cbn [upd]; try reflexivity; try congruence.
  f_equal. apply IH. congruence.
Qed.
Ltac upd_sort :=
  repeat match goal with
  | |- context [upd (upd ?m ?i ?a) ?j ?b] =>
      let c := eval vm_compute in (Nat.ltb j i) in
      lazymatch c with true => rewrite (upd_comm m i j a b) by (cbv; congruence) end
  end.

Lemma src_varintChainedPutVarint_is_model : forall fuel buf v, (9 <= fuel)%nat ->
  0 <= v < 18446744073709551616 -> (N.to_nat (chained_len (Z.to_N v)) <= length buf)%nat ->
  src_varintChainedPutVarint fuel buf v =
  COk (Z.of_N (chained_len (Z.to_N v)), store buf 0 (chained_put (Z.to_N v))).
Proof.
  intros fuel buf v Hf Hv Hl. peel_fuel fuel 9%nat. split_ch v. all: rewrite L in *; clear L.
  all: unfold src_varintChainedPutVarint, chained_put, ch_put64; cbn [ch_fill ch_digits]; unfold ch_cont, u8, shr; c_unfold.
  all: c_loop8.
  all: cbn [rev ch_clear0 app]; upd_sort.
  all: finish_enc.
Qed.

(* ---------- readers ---------- *)

Lemma zland_lor_shl32_128 x y k : 8 <= k -> Z.land (Z.lor ((x * 2 ^ k) mod 4294967296) y) 128 = Z.land y 128.
Proof.
  intro Hk. change 4294967296 with (2 ^ 32). rewrite Z.land_lor_distr_l.
  replace (Z.land ((x * 2 ^ k) mod 2 ^ 32) 128) with 0; [reflexivity|]. symmetry.
  apply Z.bits_inj'; intros n Hn. rewrite Z.land_spec, Z.bits_0.
  destruct (Z.eq_dec n 7) as [->|N7].
  - rewrite Z.mod_pow2_bits_low by lia. rewrite Z.mul_pow2_bits_low by lia. reflexivity.
  - replace (Z.testbit 128 n) with false; [apply andb_false_r|]. symmetry.
    change 128 with (2 ^ 7). apply Z.pow2_bits_false. lia.
Qed.
Lemma nland_lor_shl32_128 x y k : (8 <= k -> N.land (N.lor ((x * 2 ^ k) mod 4294967296) y) 128 = N.land y 128)%N.
Proof.
  intro Hk. apply N2Z.inj. rewrite !N2Z_land, N2Z_lor, N2Z.inj_mod, N2Z.inj_mul, N2Z.inj_pow. cbn [Z.of_N].
  apply zland_lor_shl32_128. lia.
Qed.

Ltac mod_small :=
  repeat match goal with
  | |- context [?a mod ?m] => rewrite (Z.mod_small a m) by lia
  end.

Ltac bitsG :=
  closed_eval;
  repeat match goal with
  | |- context [Z.land (Z.lor ((?x * 2 ^ ?k) mod 4294967296) ?y) 128] => rewrite (zland_lor_shl32_128 x y k) by lia
  | |- context [N.land (N.lor ((?x * 2 ^ ?k) mod 4294967296) ?y) 128] => rewrite (nland_lor_shl32_128 x y k) by lia
  end;
  repeat match goal with
  | |- context [Z.land ?b 128] => rewrite (zland_128 b) by lia
  | |- context [N.land ?b 128] => rewrite (nland_128 b) by lia
  end.
Ltac c_stepG := c_simp; bitsG; c_step.

Lemma src_varintChainedGetVarint_is_model : forall z r, bytes_ok z ->
  Z.of_N (fst (chained_get z)) <= Z.of_nat (length z) ->
  src_varintChainedGetVarint z r = COk (Z.of_N (fst (chained_get z)), Some (Z.of_N (snd (chained_get z)))).
Proof.
  intros z r Hz Hl.
  pose proof (bytes_ok_nth z 0 Hz). pose proof (bytes_ok_nth z 1 Hz). pose proof (bytes_ok_nth z 2 Hz).
  pose proof (bytes_ok_nth z 3 Hz). pose proof (bytes_ok_nth z 4 Hz). pose proof (bytes_ok_nth z 5 Hz).
  pose proof (bytes_ok_nth z 6 Hz). pose proof (bytes_ok_nth z 7 Hz). pose proof (bytes_ok_nth z 8 Hz).
  unfold chained_get, shl32, shl64, shr, SLOT_2_0, SLOT_4_2_0 in *. cbv zeta in *.
  repeat match type of Hl with
  | context [N.land (N.lor ((?x * 2 ^ ?k) mod 4294967296) ?y) 128] => rewrite (nland_lor_shl32_128 x y k) in Hl by lia
  end.
  rewrite ?nland_128 in Hl by assumption.
  split_cont z 0%nat 8%nat.
  all: c_decide_in Hl; cbn [fst] in Hl.
  all: unfold src_varintChainedGetVarint; c_unfold.
  all: repeat c_stepG; c_simp; bitsG.
  all: apply cok_pair_eq; [lia|]; f_equal; n2z_push.
  all: first [reflexivity | land_to_mod; mod_small; reflexivity].
Qed.

Lemma chained_get_fst_le9 z : (1 <= fst (chained_get z) <= 9)%N.
Proof. unfold chained_get. cbv zeta. kill_ifs; cbn [fst]; lia. Qed.

Lemma nland_u32 a : N.land a 4294967295 = (a mod 4294967296)%N.
Proof. change 4294967295%N with (N.ones 32). rewrite N.land_ones. reflexivity. Qed.

Ltac nbits :=
  repeat match goal with
  | |- context [N.land (N.lor ((?x * 2 ^ ?k) mod 4294967296) ?y) 128] => rewrite (nland_lor_shl32_128 x y k) by lia
  end;
  repeat match goal with
  | H : (?b < 256)%N |- context [N.land ?b 128] => rewrite (nland_128 b H)
  end.

(* the width chained_get returns, from the continuation bits of the first three bytes *)
Lemma chained_get_fst3 z : bytes_ok z -> (128 <= byte_at z 0)%N ->
  ((byte_at z 1 < 128)%N -> fst (chained_get z) = 2%N) /\
  ((128 <= byte_at z 1)%N -> (byte_at z 2 < 128)%N -> fst (chained_get z) = 3%N) /\
  ((128 <= byte_at z 1)%N -> (128 <= byte_at z 2)%N -> (4 <= fst (chained_get z))%N).
Proof.
  intros Hz H0.
  pose proof (bytes_ok_nth z 0 Hz). pose proof (bytes_ok_nth z 1 Hz). pose proof (bytes_ok_nth z 2 Hz).
  pose proof (bytes_ok_nth z 3 Hz). pose proof (bytes_ok_nth z 4 Hz). pose proof (bytes_ok_nth z 5 Hz).
  pose proof (bytes_ok_nth z 6 Hz). pose proof (bytes_ok_nth z 7 Hz). pose proof (bytes_ok_nth z 8 Hz).
  unfold chained_get, shl32. cbv zeta. nbits.
  repeat split; intros; kill_ifs; cbn [fst]; lia.
Qed.

Lemma src_varintChainedGetVarint32_is_model : forall z r, bytes_ok z -> (128 <= byte_at z 0)%N ->
  Z.of_N (fst (chained_get z)) <= Z.of_nat (length z) ->
  src_varintChainedGetVarint32 z r =
  COk (Z.of_N (fst (chained_get32_fn z)), Some (Z.of_N (snd (chained_get32_fn z)))).
Proof.
  intros z r Hz H0 Hl.
  pose proof (bytes_ok_nth z 0 Hz). pose proof (bytes_ok_nth z 1 Hz). pose proof (bytes_ok_nth z 2 Hz).
  pose proof (chained_get_fst_le9 z) as G9. destruct (chained_get_fst3 z Hz H0) as (F2 & F3 & F4).
  unfold chained_get32_fn, shl32, u8, u32, SLOT_2_0. cbv zeta. nbits. rewrite ?nland_u32.
  assert (C : (byte_at z 1 < 128 \/ (128 <= byte_at z 1 /\ byte_at z 2 < 128) \/ (128 <= byte_at z 1 /\ 128 <= byte_at z 2))%N) by lia.
  destruct C as [C|[C|C]]; [specialize (F2 C)|specialize (F3 (proj1 C) (proj2 C))|specialize (F4 (proj1 C) (proj2 C))].
  all: unfold src_varintChainedGetVarint32; c_unfold.
  all: repeat c_stepG; c_simp; bitsG; cbn [skipn].
  all: try (rewrite src_varintChainedGetVarint_is_model by (try assumption; lia)).
  all: repeat (c_simp; bitsG; land_to_mod; c_step); c_simp.
  all: apply cok_pair_eq; [lia|]; f_equal; try lia; n2z_push.
  all: first [reflexivity | land_to_mod; mod_small; reflexivity].
Qed.

(* ---------- the macros of varintChained.h ---------- *)

Lemma src_q_varintChained_getVarint32_is_model : forall z r, bytes_ok z ->
  Z.of_N (fst (chained_get z)) <= Z.of_nat (length z) ->
  src_q_varintChained_getVarint32 z r =
  COk (Z.of_N (fst (chained_get32 z)), Some (Z.of_N (snd (chained_get32 z)))).
Proof.
  intros z r Hz Hl. pose proof (bytes_ok_nth z 0 Hz) as Hb. pose proof (chained_get_fst_le9 z) as G9.
  unfold src_q_varintChained_getVarint32, chained_get32. c_unfold.
  destruct (N.lt_ge_cases (byte_at z 0) 128) as [L|G].
  - repeat c_stepG; c_simp. apply cok_pair_eq; [lia|]. f_equal; lia.
  - repeat c_stepG; c_simp.
    rewrite src_varintChainedGetVarint32_is_model by assumption. repeat c_stepG; c_simp.
    cbv zeta. cbn [fst snd]. apply cok_pair_eq; [|reflexivity]. unfold u8. lia.
Qed.

Lemma src_q_varintChained_putVarint32_is_model : forall fuel buf v, (9 <= fuel)%nat -> 0 <= v <= 4294967295 ->
  (length (chained_put32 (Z.to_N v)) <= length buf)%nat ->
  src_q_varintChained_putVarint32 fuel buf v =
  COk (Z.of_nat (length (chained_put32 (Z.to_N v))), store buf 0 (chained_put32 (Z.to_N v))).
Proof.
  intros fuel buf v Hf Hv Hl.
  assert (X : (Z.to_N v < 18446744073709551616)%N) by lia.
  pose proof (chained_put_length _ X) as PL. pose proof (chained_len_range _ X) as LR.
  unfold src_q_varintChained_putVarint32, chained_put32, u32, u8 in *. c_unfold.
  destruct (Z.lt_ge_cases v 128) as [L|G].
  - c_decide_in Hl. cbn [length] in Hl. repeat c_step; c_simp. finish_enc.
  - c_decide_in Hl. repeat c_step; c_simp.
    rewrite src_varintChainedPutVarint_is_model by lia. repeat c_step; c_simp.
    apply cok_pair_eq; [lia|reflexivity].
Qed.
