(* CsimpleSrcProps.v — C01 for varintChainedSimple restated about the
   REGENERATED functions (coq/gen/Src_csimple.v), by rewriting with the
   src_*_is_model lemmas in the theorems about the model. *)
Require Import VV.Base VV.BaseProofs VV.Tagged VV.TaggedProofs VV.Chained VV.ChainedPutProofs VV.ChainedRtProofs
  VV.CSem VV.CSemProofs VV.CsimpleSrcProofs.
Require Import VVgen.Src_csimple.
From Coq Require Import Lia ZifyBool ZifyN ZifyNat.
Local Open Scope Z_scope.

Lemma bytes_ok_cs_enc room v : bytes_ok (cs_enc room v).
Proof.
  revert v. induction room as [|r IH]; intro v; cbn [cs_enc].
  - constructor; [apply u8_lt|constructor].
  - destruct (128 <=? v)%N; constructor; try apply u8_lt; [apply IH|constructor].
Qed.

Lemma firstn_store0 buf bs : (length bs <= length buf)%nat -> firstn (length bs) (store buf 0 bs) = bs.
Proof.
  intro H. unfold store. cbn [firstn app]. rewrite firstn_app, Nat.sub_diag, firstn_all. cbn [firstn].
  apply app_nil_r.
Qed.

Lemma src_csimple_roundtrip fuel x buf tl r :
  (10 <= fuel)%nat -> 0 <= x < 18446744073709551616 -> (9 <= length buf)%nat -> bytes_ok tl ->
  exists w out,
    src_varintChainedSimpleEncode64 fuel buf x = COk (w, out) /\ 1 <= w <= 9 /\
    src_varintChainedSimpleLength fuel x = COk w /\
    src_varintChainedSimpleDecode64 fuel (firstn (Z.to_nat w) out ++ tl) r = COk (w, Some x).
Proof.
  intros Hf Hx Hb Htl.
  assert (X : (Z.to_N x < 18446744073709551616)%N) by lia.
  pose proof (csimple_length_range _ X) as Hr. pose proof (csimple_put_length _ X) as Hp.
  exists (Z.of_N (csimple_length (Z.to_N x))), (store buf 0 (csimple_encode64 (Z.to_N x))).
  split; [apply src_varintChainedSimpleEncode64_is_model; lia|]. split; [lia|].
  split; [apply src_varintChainedSimpleLength_is_model; lia|].
  replace (Z.to_nat (Z.of_N (csimple_length (Z.to_N x)))) with (length (csimple_encode64 (Z.to_N x))) by lia.
  rewrite firstn_store0 by lia.
  rewrite src_varintChainedSimpleDecode64_is_model.
  - rewrite csimple_roundtrip by exact X. cbn [fst snd]. rewrite Z2N.id by lia. reflexivity.
  - lia.
  - apply bytes_ok_app; [apply bytes_ok_cs_enc|exact Htl].
  - rewrite csimple_roundtrip by exact X. cbn [fst]. rewrite app_length. lia.
Qed.

Lemma src_csimple32_roundtrip fuel x buf tl r :
  (10 <= fuel)%nat -> 0 <= x <= 4294967295 -> (9 <= length buf)%nat -> bytes_ok tl ->
  exists w out,
    src_varintChainedSimpleEncode32 buf x = COk (w, out) /\
    src_varintChainedSimpleEncode64 fuel buf x = COk (w, out) /\
    src_varintChainedSimpleDecode32 fuel (firstn (Z.to_nat w) out ++ tl) r = COk (w, Some x) /\
    src_varintChainedSimpleDecode32Fallback fuel (firstn (Z.to_nat w) out ++ tl) r = COk (w, Some x).
Proof.
  intros Hf Hx Hb Htl.
  assert (X : (Z.to_N x < 4294967296)%N) by lia.
  assert (X' : (Z.to_N x < 18446744073709551616)%N) by lia.
  pose proof (csimple_length_range _ X') as Hr. pose proof (csimple_put_length _ X') as Hp.
  exists (Z.of_N (csimple_length (Z.to_N x))), (store buf 0 (csimple_encode64 (Z.to_N x))).
  split.
  { rewrite src_varintChainedSimpleEncode32_is_model by (rewrite ?csimple_encode32_eq by exact X; lia).
    rewrite csimple_encode32_eq by exact X. apply cok_pair_eq; [lia|reflexivity]. }
  split; [apply src_varintChainedSimpleEncode64_is_model; lia|].
  replace (Z.to_nat (Z.of_N (csimple_length (Z.to_N x)))) with (length (csimple_encode64 (Z.to_N x))) by lia.
  rewrite firstn_store0 by lia.
  assert (OK : bytes_ok (csimple_encode64 (Z.to_N x) ++ tl)) by (apply bytes_ok_app; [apply bytes_ok_cs_enc|exact Htl]).
  assert (L : Z.of_N (fst (csimple_decode64 (csimple_encode64 (Z.to_N x) ++ tl))) <=
              Z.of_nat (length (csimple_encode64 (Z.to_N x) ++ tl))).
  { rewrite csimple_roundtrip by exact X'. cbn [fst]. rewrite app_length. lia. }
  rewrite <- (csimple_encode32_eq _ X) at 1 2.
  split.
  - rewrite src_varintChainedSimpleDecode32_is_model; [|lia|rewrite csimple_encode32_eq by exact X; exact OK
                                                        |rewrite csimple_encode32_eq by exact X; exact L
                                                        |rewrite csimple_encode32_eq by exact X; rewrite app_length; lia].
    rewrite csimple32_roundtrip by exact X. cbn [fst snd]. rewrite Z2N.id by lia. reflexivity.
  - rewrite (csimple_encode32_eq _ X).
    rewrite src_varintChainedSimpleDecode32Fallback_is_model; [|lia|exact OK|exact L].
    rewrite <- (csimple_encode32_eq _ X). rewrite csimple32_fallback_roundtrip by exact X.
    cbn [fst snd]. rewrite Z2N.id by lia. reflexivity.
Qed.
