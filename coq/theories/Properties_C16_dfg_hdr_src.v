(* Properties_C16_dfg_hdr_src.v — property C16 (header accessors tell the truth), FOR:
   stated about the Gallina renderings that gen/c2coq.py regenerates from the CURRENT
   src/varintFOR.c on every run (coq/gen/Src_hdr_for.v through gen/c2coq_hdr.py; they call
   src_varintTaggedGet64 of coq/gen/Src_tagged.v; meaning of the c_* operations: CSem.v) of

     varintFORGetMinValue  varintFORGetCount  varintFORGetOffsetWidth  varintFORReadMetadata.

   C integer values are Z; a `const uint8_t *` argument is the byte list of the object it
   points to; `COk v` = the C abstract machine yields v without undefined behaviour and
   without an access outside that object; the `varintFORMeta *` argument is `Some` of the
   tuple of its six fields (minValue, maxValue, range, count, encodedSize, offsetWidth;
   each `Some value` or `None` = not assigned), `None` = the null pointer.
   [for_encode] is the hand model of varintFOREncode (FOR.v), tied to the C by differential
   execution.  Length preconditions are exactly the bytes the C reads: the tagged varint at
   the head is complete ([tagged_getlen z] bytes, 1..9, decoded from the first byte), then
   the width byte, then the second tagged varint.
   Nothing but statements closed by `exact`. *)
Require Import VV.Base VV.CSem VV.Tagged VV.Delta VV.FOR VV.HdrSrcFOR.
Require Import VVgen.Src_hdr_for.
Local Open Scope Z_scope.

(* ---- the regenerated accessors compute the hand model on every buffer that holds what they read ---- *)

Theorem C16_src_varintFORGetMinValue_is_model : forall z, bytes_ok z ->
  Z.of_N (tagged_getlen z) <= Z.of_nat (length z) ->
  src_varintFORGetMinValue z = COk (Z.of_N (for_get_min_value z)).
Proof. exact src_varintFORGetMinValue_is_model. Qed.
Print Assumptions C16_src_varintFORGetMinValue_is_model.

Theorem C16_src_varintFORGetOffsetWidth_is_model : forall z, bytes_ok z ->
  Z.of_N (tagged_getlen z) + 1 <= Z.of_nat (length z) ->
  src_varintFORGetOffsetWidth z = COk (Z.of_N (for_get_offset_width z)).
Proof. exact src_varintFORGetOffsetWidth_is_model. Qed.
Print Assumptions C16_src_varintFORGetOffsetWidth_is_model.

(* the count is found by DECODING the length of the minimum: a source that skips the minimum by any other
   rule does not satisfy this statement *)
Theorem C16_src_varintFORGetCount_is_model : forall z, bytes_ok z ->
  Z.of_N (tagged_getlen z) + 1 + Z.of_N (tagged_getlen (skipn (N.to_nat (tagged_getlen z + 1)) z))
    <= Z.of_nat (length z) ->
  src_varintFORGetCount z = COk (Z.of_N (for_get_count z)).
Proof. exact src_varintFORGetCount_is_model. Qed.
Print Assumptions C16_src_varintFORGetCount_is_model.

Theorem C16_src_varintFORReadMetadata_is_model : forall z old, bytes_ok z ->
  Z.of_N (tagged_getlen z) + 1 + Z.of_N (tagged_getlen (skipn (N.to_nat (tagged_getlen z + 1)) z))
    <= Z.of_nat (length z) ->
  let m := for_read_metadata z in
  src_varintFORReadMetadata z (Some old) =
  COk (Some (Some (Z.of_N (fm_min m)), Some (Z.of_N (fm_max m)), Some (Z.of_N (fm_range m)),
             Some (Z.of_N (fm_count m)), Some (Z.of_N (fm_size m)), Some (Z.of_N (fm_width m)))).
Proof. exact src_varintFORReadMetadata_is_model. Qed.
Print Assumptions C16_src_varintFORReadMetadata_is_model.

(* any 9 / 10 / 19 bytes are enough *)
Theorem C16_src_for_accessors_19_bytes : forall z, bytes_ok z -> (19 <= length z)%nat ->
  src_varintFORGetMinValue z = COk (Z.of_N (fm_min (for_read_metadata z))) /\
  src_varintFORGetCount z = COk (Z.of_N (fm_count (for_read_metadata z))) /\
  src_varintFORGetOffsetWidth z = COk (Z.of_N (fm_width (for_read_metadata z))).
Proof. exact (fun z Hz L => src_for_accessors_are_decoders z Hz (for_hdr_count_in_19 z Hz L)). Qed.
Print Assumptions C16_src_for_accessors_19_bytes.

(* ---- C16 for_header_truth: on the bytes varintFOREncode produced, followed by any bytes ---- *)
Theorem C16_src_for_header_truth : forall xs meta post old,
  xs <> [] -> Forall (fun x => (x < 18446744073709551616)%N) xs ->
  (N.of_nat (length xs) < 1152921504606846976)%N ->
  (meta = None \/ exists m0, meta = Some m0 /\
     (fm_count m0 <> N.of_nat (length xs) \/ for_analyze xs = Some m0)) ->
  bytes_ok post ->
  exists enc meta' m, for_encode xs meta = Some (enc, meta') /\ for_analyze xs = Some m /\
    src_varintFORGetMinValue (enc ++ post) = COk (Z.of_N (fm_min m)) /\
    src_varintFORGetCount (enc ++ post) = COk (Z.of_nat (length xs)) /\
    src_varintFORGetOffsetWidth (enc ++ post) = COk (Z.of_N (fm_width m)) /\
    src_varintFORReadMetadata (enc ++ post) (Some old) =
      COk (Some (Some (Z.of_N (fm_min m)), Some (Z.of_N (fm_min m)), Some 0, Some (Z.of_nat (length xs)),
                 Some (Z.of_nat (length enc)), Some (Z.of_N (fm_width m)))).
Proof. exact src_for_header_truth. Qed.
Print Assumptions C16_src_for_header_truth.

(* ---- the accessors report what the decoder works with (varintFORDecode reads the header with
   varintFORReadMetadata), on any buffer holding a whole header ---- *)
Theorem C16_src_for_accessors_are_decoders : forall z, bytes_ok z ->
  Z.of_N (tagged_getlen z) + 1 + Z.of_N (tagged_getlen (skipn (N.to_nat (tagged_getlen z + 1)) z))
    <= Z.of_nat (length z) ->
  src_varintFORGetMinValue z = COk (Z.of_N (fm_min (for_read_metadata z))) /\
  src_varintFORGetCount z = COk (Z.of_N (fm_count (for_read_metadata z))) /\
  src_varintFORGetOffsetWidth z = COk (Z.of_N (fm_width (for_read_metadata z))).
Proof. exact src_for_accessors_are_decoders. Qed.
Print Assumptions C16_src_for_accessors_are_decoders.

(* ---- C16 for_count_is_decoded: the reported count is the number of elements decoding yields ---- *)
Theorem C16_src_for_count_is_decoded : forall z cap r out, bytes_ok z ->
  Z.of_N (tagged_getlen z) + 1 + Z.of_N (tagged_getlen (skipn (N.to_nat (tagged_getlen z + 1)) z))
    <= Z.of_nat (length z) ->
  for_decode z cap = Some (r, out) -> (fm_count (for_read_metadata z) <= cap)%N ->
  src_varintFORGetCount z = COk (Z.of_nat (length out)) /\ r = N.of_nat (length out).
Proof. exact src_for_count_is_decoded. Qed.
Print Assumptions C16_src_for_count_is_decoded.

(* meta == NULL is undefined behaviour (the debug build asserts it away) *)
Theorem C16_src_varintFORReadMetadata_null : forall z, bytes_ok z ->
  Z.of_N (tagged_getlen z) + 1 + Z.of_N (tagged_getlen (skipn (N.to_nat (tagged_getlen z + 1)) z))
    <= Z.of_nat (length z) ->
  src_varintFORReadMetadata z None = CUB UB_null_deref.
Proof. exact src_varintFORReadMetadata_null. Qed.
Print Assumptions C16_src_varintFORReadMetadata_null.

(* non-vacuity: [300; 5; 70000] encodes as min 5 | width 3 | count 3 | offsets; minima on both sides of
   the tagged length boundaries 240/241 and 2287/2288 move the count; a buffer that ends inside the header is
   an access outside the object, never a value *)
Example C16_src_for_hdr_example :
  let enc := [5; 3; 3; 39; 1; 0; 0; 0; 0; 107; 17; 1]%N in
  for_encode [300; 5; 70000]%N None = Some (enc, None) /\
  src_varintFORGetMinValue enc = COk 5 /\ src_varintFORGetCount enc = COk 3 /\
  src_varintFORGetOffsetWidth enc = COk 3 /\
  src_varintFORReadMetadata enc (Some (None, None, None, None, None, None)) =
    COk (Some (Some 5, Some 5, Some 0, Some 3, Some 12, Some 3)) /\
  src_varintFORGetCount [240; 1; 7; 9]%N = COk 7 /\ src_varintFORGetCount [241; 0; 1; 7; 9]%N = COk 7 /\
  src_varintFORGetMinValue [241; 0; 1; 7; 9]%N = COk 240 /\
  src_varintFORGetCount [248; 255; 1; 7; 9]%N = COk 7 /\ src_varintFORGetCount [249; 0; 0; 1; 7; 9]%N = COk 7 /\
  src_varintFORGetMinValue [249; 0; 0; 1; 7; 9]%N = COk 2288 /\
  src_varintFORGetOffsetWidth [249; 0; 0; 1; 7; 9]%N = COk 1 /\
  src_varintFORGetCount [249; 0; 0; 1]%N = COob /\ src_varintFORGetOffsetWidth [249; 0; 0]%N = COob.
Proof. vm_compute. repeat split; reflexivity. Qed.
