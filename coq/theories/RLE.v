(* RLE.v — Gallina model of src/varintRLE.c and varintRLE.h (run-length codec,
   with and without the total-count header).  One definition per C function,
   same case structure.  No proofs here.

   Conventions (harness/GUIDE.md):
   * an input array `values[count]` is a `list N`; `count` is its length;
   * encoders return the bytes they write (C return value = length);
   * decoders read the byte list with Tagged.tagged_get (byte_at, default 0)
     at the current pointer = the remaining list (`ptr += w` is `skipn w`);
     they return the sequence of values stored at indices 0,1,2,... of the
     output array (every C store is `values[k] = v` with k the number of
     stores made so far), so "no store at index >= cap" is
     `length stores <= cap`;
   * size_t counters that only count elements of the input array or bytes
     written to the destination (`runs++`, `currentRunLen++`,
     `encodedSize += ...`, `ptr - dst`) cannot wrap — they are bounded by an
     object that exists in memory — and are written with plain `+`.  Sums of
     a counter and a run length READ FROM THE STREAM can wrap and are written
     with `add64`. *)
Require Import VV.Base VV.Tagged.
Local Open Scope N_scope.

(* varintRLEMeta *)
Record rle_meta := mk_rle_meta {
  rm_count : N; rm_run_count : N; rm_encoded_size : N; rm_unique_values : N }.

(* ---------------------------------------------------------------- analysis *)

(* the `for (i = 1; i < count; i++)` loop of varintRLEAnalyze; state =
   (runs, encodedSize, currentRunLen, currentVal, uniqueCount) *)
Fixpoint rle_analyze_loop (vs : list N) (runs size curLen curVal uniq : N)
  : N * N * N * N * N :=
  match vs with
  | [] => (runs, size, curLen, curVal, uniq)
  | v :: t =>
      if v =? curVal then rle_analyze_loop t runs size (curLen + 1) curVal uniq
      else rle_analyze_loop t (runs + 1)
             (size + tagged_len curLen + tagged_len curVal) 1 v (uniq + 1)
  end.

(* varintRLEAnalyze: (meta, return value) *)
Definition rle_analyze (values : list N) : rle_meta * bool :=
  match values with
  | [] => (mk_rle_meta 0 0 0 0, false)
  | v0 :: t =>
      let '(runs, size, curLen, curVal, uniq) := rle_analyze_loop t 1 0 1 v0 1 in
      let size := size + tagged_len curLen + tagged_len curVal in
      let count := N.of_nat (length values) in
      (mk_rle_meta count runs size uniq, size <? mul64 count 8)
  end.

(* varintRLESize / varintRLEIsBeneficial *)
Definition rle_size (values : list N) : N := rm_encoded_size (fst (rle_analyze values)).
Definition rle_is_beneficial (values : list N) : bool := snd (rle_analyze values).

(* varintRLEMaxSize (after fix F07: + 9 for the tagged count header) *)
Definition rle_max_size (count : N) : N := add64 (mul64 count 10) 9.

(* ---------------------------------------------------------------- encoding *)

(* the `for (i = 1; i <= count; i++)` loop of varintRLEEncode over the
   remaining values; returns (bytes written, runs) *)
Fixpoint rle_encode_loop (vs : list N) (curLen curVal runs : N) : list N * N :=
  match vs with
  | [] => (* i == count: flush the last run *)
      (tagged_put64 curLen ++ tagged_put64 curVal, runs + 1)
  | v :: t =>
      if v =? curVal then rle_encode_loop t (curLen + 1) curVal runs
      else
        let r := rle_encode_loop t 1 v (runs + 1) in
        (tagged_put64 curLen ++ tagged_put64 curVal ++ fst r, snd r)
  end.

(* varintRLEEncode: (bytes, meta as written when meta != NULL) *)
Definition rle_encode (values : list N) : list N * rle_meta :=
  match values with
  | [] => ([], mk_rle_meta 0 0 0 0)
  | v0 :: t =>
      let r := rle_encode_loop t 1 v0 0 in
      (fst r, mk_rle_meta (N.of_nat (length values)) (snd r)
                (N.of_nat (length (fst r))) 0)
  end.

(* varintRLEEncodeWithHeader: the header is written even for count 0 *)
Definition rle_encode_with_header (values : list N) : list N * rle_meta :=
  let hdr := tagged_put64 (N.of_nat (length values)) in
  let r := rle_encode values in
  let bytes := hdr ++ fst r in
  let m := snd r in
  (bytes, mk_rle_meta (rm_count m) (rm_run_count m) (N.of_nat (length bytes))
            (rm_unique_values m)).

(* ---------------------------------------------------------------- decoding *)

(* varintRLEDecodeRun: (bytes consumed, runLength, value) — two unbounded
   varintTaggedGet64 reads *)
Definition rle_decode_run (z : list N) : N * N * N :=
  let r1 := tagged_get64 z in
  let r2 := tagged_get64 (skipn (N.to_nat (fst r1)) z) in
  (fst r1 + fst r2, snd r1, snd r2).

(* outcome of a decoder: the stores made (in index order 0,1,2,...), or the
   loop ran off the end of the bytes it was given (possible only on hostile
   input; theorems exclude it) *)
Inductive rle_res :=
| RleOk (stores : list N)
| RleFuel (stores : list N).

Definition rle_rres_app (pre : list N) (r : rle_res) : rle_res :=
  match r with
  | RleOk l => RleOk (pre ++ l)
  | RleFuel l => RleFuel (pre ++ l)
  end.

Definition rle_stores (r : rle_res) : list N :=
  match r with RleOk l => l | RleFuel l => l end.

(* varintRLEDecode main loop (after the fix of the hostile-stream overflow:
   the run is clipped by comparing it with the room left, no sum that could
   wrap).  total = totalDecoded. *)
Fixpoint rle_decode_loop (fuel : nat) (z : list N) (maxCount total : N) : rle_res :=
  match fuel with
  | O => RleFuel []
  | S f =>
      if total <? maxCount then
        let '(consumed, runLen, value) := rle_decode_run z in
        if runLen =? 0 then RleOk []
        else
          let room := maxCount - total in
          let toWrite := if room <? runLen then room else runLen in
          let w := repeat value (N.to_nat toWrite) in
          if toWrite <? runLen then RleOk w
          else rle_rres_app w (rle_decode_loop f (skipn (N.to_nat consumed) z) maxCount (total + toWrite))
      else RleOk []
  end.

(* varintRLEDecode(src, values, maxCount): return value = number of stores *)
Definition rle_decode (z : list N) (maxCount : N) : rle_res :=
  rle_decode_loop (S (length z)) z maxCount 0.

(* varintRLEDecodeWithHeader main loop; the inner `for` stores
   min(runLen, maxCount - decoded) values *)
Fixpoint rle_decode_hdr_loop (fuel : nat) (z : list N) (totalCount maxCount decoded : N) : rle_res :=
  match fuel with
  | O => RleFuel []
  | S f =>
      if (decoded <? totalCount) && (decoded <? maxCount) then
        let '(consumed, runLen, value) := rle_decode_run z in
        let room := maxCount - decoded in
        let n := if runLen <? room then runLen else room in
        rle_rres_app (repeat value (N.to_nat n))
          (rle_decode_hdr_loop f (skipn (N.to_nat consumed) z) totalCount maxCount (decoded + n))
      else RleOk []
  end.

(* varintRLEDecodeWithHeader: (return value, stores).  Header count larger
   than the capacity: return 0 without a store. *)
Definition rle_decode_with_header (z : list N) (maxCount : N) : rle_res :=
  let r := tagged_get64 z in
  if maxCount <? snd r then RleOk []
  else rle_decode_hdr_loop (S (length z)) (skipn (N.to_nat (fst r)) z) (snd r) maxCount 0.

(* varintRLEGetAt: `position + runLen` is a size_t sum with a stream term.
   None = the loop ran off the end of the given bytes. *)
Fixpoint rle_get_at_loop (fuel : nat) (z : list N) (index position : N) : option N :=
  match fuel with
  | O => None
  | S f =>
      let '(consumed, runLen, value) := rle_decode_run z in
      if runLen =? 0 then Some 0
      else if index <? add64 position runLen then Some value
      else rle_get_at_loop f (skipn (N.to_nat consumed) z) index (add64 position runLen)
  end.
Definition rle_get_at (z : list N) (index : N) : option N :=
  rle_get_at_loop (S (length z)) z index 0.

(* varintRLEGetCount *)
Definition rle_get_count (z : list N) : N := snd (tagged_get64 z).

(* varintRLEGetRunCount (after fix F15): bounded reads.  z = bytes at src,
   n = encodedSize; state: remaining list at ptr, avail = end - ptr.
   `avail > 9 ? 9 : (int32_t)avail` *)
Definition rle_tagged_avail (avail : N) : Z := if 9 <? avail then 9%Z else Z.of_N avail.

Fixpoint rle_run_count_loop (fuel : nat) (z : list N) (avail runs : N) : option N :=
  match fuel with
  | O => None
  | S f =>
      if 0 <? avail then
        let r1 := tagged_get z (rle_tagged_avail avail) in
        if (fst r1 =? 0) || (snd r1 =? 0) then Some runs
        else
          let avail1 := avail - fst r1 in
          let z1 := skipn (N.to_nat (fst r1)) z in
          let r2 := tagged_get z1 (rle_tagged_avail avail1) in
          if fst r2 =? 0 then Some runs
          else rle_run_count_loop f (skipn (N.to_nat (fst r2)) z1) (avail1 - fst r2) (runs + 1)
      else Some runs
  end.
(* fuel = declared size: every iteration consumes at least 2 of the n bytes *)
Definition rle_get_run_count (z : list N) (n : N) : option N :=
  rle_run_count_loop (S (N.to_nat n)) z n 0.

(* EXTRACT: rle_analyze rle_size rle_is_beneficial rle_max_size rle_encode
   rle_encode_with_header rle_decode_run rle_decode rle_decode_with_header
   rle_get_at rle_get_count rle_get_run_count rle_stores *)
