(* Properties_C16_elias.v — property C16 (reported metadata tells the truth),
   varintEliasMeta as filled by the two array encoders. *)
Require Import VV.Base VV.EliasBits VV.Elias VV.EliasSpec VV.EliasProofs.
Local Open Scope N_scope.

(* count = number of values; totalBits = sum of the code lengths;
   encodedBytes = ceil(totalBits / 8) = bytes written = return value; and
   decoding totalBits bits yields `count` elements *)
Theorem C16_gamma_meta : forall xs,
  Forall (fun x => 1 <= x < 18446744073709551616) xs ->
  N.of_nat (length xs) < 144115188075855872 ->
  let e := elias_gamma_encode_array xs in
  ee_count e = N.of_nat (length xs) /\
  ee_totalBits e = sum_map (fun x => N.of_nat (length (gamma_code x))) xs /\
  ee_encodedBytes e = (ee_totalBits e + 7) / 8 /\
  ee_encodedBytes e = N.of_nat (length (ee_bytes e)) /\
  ee_encodedBytes e = ee_ret e /\
  length (elias_gamma_decode_array (ee_bytes e) (ee_totalBits e) (length xs)) = N.to_nat (ee_count e).
Proof. exact gamma_meta_truth. Qed.
Print Assumptions C16_gamma_meta.

Theorem C16_delta_meta : forall xs,
  Forall (fun x => 1 <= x < 18446744073709551616) xs ->
  N.of_nat (length xs) < 144115188075855872 ->
  let e := elias_delta_encode_array xs in
  ee_count e = N.of_nat (length xs) /\
  ee_totalBits e = sum_map (fun x => N.of_nat (length (delta_code x))) xs /\
  ee_encodedBytes e = (ee_totalBits e + 7) / 8 /\
  ee_encodedBytes e = N.of_nat (length (ee_bytes e)) /\
  ee_encodedBytes e = ee_ret e /\
  length (elias_delta_decode_array (ee_bytes e) (ee_totalBits e) (length xs)) = N.to_nat (ee_count e).
Proof. exact delta_meta_truth. Qed.
Print Assumptions C16_delta_meta.

(* the IsBeneficial predicates compare the true encoded size with the raw size *)
Theorem C16_gamma_is_beneficial : forall xs,
  Forall (fun x => 1 <= x < 18446744073709551616) xs ->
  N.of_nat (length xs) < 144115188075855872 ->
  elias_gamma_is_beneficial xs =
  (ee_ret (elias_gamma_encode_array xs) <? 8 * N.of_nat (length xs)).
Proof. exact gamma_beneficial_spec. Qed.
Print Assumptions C16_gamma_is_beneficial.

Theorem C16_delta_is_beneficial : forall xs,
  Forall (fun x => 1 <= x < 18446744073709551616) xs ->
  N.of_nat (length xs) < 144115188075855872 ->
  elias_delta_is_beneficial xs =
  (ee_ret (elias_delta_encode_array xs) <? 8 * N.of_nat (length xs)).
Proof. exact delta_beneficial_spec. Qed.
Print Assumptions C16_delta_is_beneficial.

Example C16_elias_example :
  let e := elias_gamma_encode_array [1; 2; 3; 4; 5] in
  ee_count e = 5 /\ ee_totalBits e = 17 /\ ee_encodedBytes e = 3 /\ ee_ret e = 3.
Proof. vm_compute. repeat split; reflexivity. Qed.
