(* DeltaProofs.v — proofs about the Delta.v model (varintDelta.{c,h}). *)
Require Import VV.Base VV.BaseProofs VV.Delta VV.DfgLemmas.
From Coq Require Import Lia ZifyBool ZifyN ZifyNat.
Local Open Scope N_scope.
Ltac Zify.zify_post_hook ::= Z.div_mod_to_equations.

(* ---------- zigzag ---------- *)

Lemma lxor_ones64 x : x < 18446744073709551616 ->
  N.lxor x 18446744073709551615 = 18446744073709551615 - x.
Proof.
  intro H. change 18446744073709551615 with (N.ones 64).
  change (N.lxor x (N.ones 64)) with (N.lnot x 64).
  apply N.lnot_sub_low.
  destruct (N.eq_dec x 0) as [->|Hx]; [reflexivity|].
  apply N.log2_lt_pow2; [lia|]. exact H.
Qed.

Lemma of_s64_m1 : of_s64 (-1) = 18446744073709551615.
Proof. reflexivity. Qed.

Lemma in_s64_iff n : in_s64 n = true <->
  (-9223372036854775808 <= n <= 9223372036854775807)%Z.
Proof. unfold in_s64. lia. Qed.

Theorem delta_zigzag_is_spec n : in_s64 n = true -> delta_zigzag n = delta_zigzag_spec n.
Proof.
  intro H. apply in_s64_iff in H.
  unfold delta_zigzag, delta_zigzag_spec. cbv zeta.
  destruct (n <? 0)%Z eqn:E.
  - rewrite of_s64_m1.
    assert (S : shl64 (of_s64 n) 1 = Z.to_N (18446744073709551616 + 2 * n)).
    { unfold shl64, of_s64. change (2 ^ 1) with 2. lia. }
    rewrite S, lxor_ones64 by lia.
    destruct (0 <=? n)%Z eqn:F; lia.
  - rewrite N.lxor_0_r.
    destruct (0 <=? n)%Z eqn:F; [|lia].
    unfold shl64, of_s64. change (2 ^ 1) with 2. lia.
Qed.

Theorem delta_zigzag_lt n : in_s64 n = true -> delta_zigzag n < 18446744073709551616.
Proof.
  intro H. rewrite delta_zigzag_is_spec by exact H. apply in_s64_iff in H.
  unfold delta_zigzag_spec. destruct (0 <=? n)%Z eqn:F; lia.
Qed.

Lemma delta_unzigzag_eq z : z < 18446744073709551616 ->
  delta_unzigzag z = if z mod 2 =? 0 then Z.of_N (z / 2) else (-1 - Z.of_N (z / 2))%Z.
Proof.
  intro H. unfold delta_unzigzag.
  change 1 with (N.ones 1) at 2. rewrite N.land_ones. change (2 ^ 1) with 2.
  unfold shr. change (2 ^ 1) with 2.
  assert (C : z mod 2 = 0 \/ z mod 2 = 1) by lia.
  destruct C as [C|C]; rewrite C.
  - change (of_s64 (- Z.of_N 0)) with 0. rewrite N.lxor_0_r.
    change (0 =? 0) with true. cbv iota.
    unfold to_s64. destruct (z / 2 <? 9223372036854775808) eqn:E; lia.
  - change (of_s64 (- Z.of_N 1)) with 18446744073709551615.
    rewrite lxor_ones64 by lia.
    change (1 =? 0) with false. cbv iota.
    unfold to_s64. destruct (18446744073709551615 - z / 2 <? 9223372036854775808) eqn:E; lia.
Qed.

Theorem delta_unzigzag_zigzag n : in_s64 n = true -> delta_unzigzag (delta_zigzag n) = n.
Proof.
  intro H. pose proof (delta_zigzag_lt n H) as L.
  rewrite delta_unzigzag_eq by exact L.
  rewrite delta_zigzag_is_spec in * by exact H. apply in_s64_iff in H.
  unfold delta_zigzag_spec in *.
  destruct (0 <=? n)%Z eqn:F.
  - set (z := Z.to_N (2 * n)) in *.
    assert (z = 2 * Z.to_N n) by lia.
    destruct (z mod 2 =? 0) eqn:G; lia.
  - set (z := Z.to_N (-2 * n - 1)) in *.
    assert (z = 2 * Z.to_N (- n - 1) + 1) by lia.
    destruct (z mod 2 =? 0) eqn:G; lia.
Qed.

Theorem delta_unzigzag_range z : z < 18446744073709551616 -> in_s64 (delta_unzigzag z) = true.
Proof.
  intro H. rewrite delta_unzigzag_eq by exact H. apply in_s64_iff.
  destruct (z mod 2 =? 0) eqn:G; lia.
Qed.

Theorem delta_zigzag_unzigzag z : z < 18446744073709551616 -> delta_zigzag (delta_unzigzag z) = z.
Proof.
  intro H. pose proof (delta_unzigzag_range z H) as R.
  rewrite delta_zigzag_is_spec by exact R.
  rewrite delta_unzigzag_eq by exact H.
  unfold delta_zigzag_spec.
  destruct (z mod 2 =? 0) eqn:G.
  - destruct (0 <=? Z.of_N (z / 2))%Z eqn:F; lia.
  - destruct (0 <=? -1 - Z.of_N (z / 2))%Z eqn:F; lia.
Qed.

(* ---------- single delta ---------- *)

Lemma u8_width v : v < 18446744073709551616 -> u8 (N.of_nat (ext_width v)) = N.of_nat (ext_width v).
Proof.
  intro H. pose proof (ext_width_range v H) as R. unfold u8. apply N.mod_small. lia.
Qed.

(* the [width byte; little-endian value] frame both the base and the deltas use *)
Lemma frame_get v post : v < 18446744073709551616 ->
  dfg_ext_get (le_bytes (ext_width v) v ++ post) (N.of_nat (ext_width v)) = Some v.
Proof.
  intro H.
  pose proof (dfg_ext_get_put v (N.of_nat (ext_width v)) post (ext_width_ok v H) (ext_width_lt v H)) as G.
  rewrite Nat2N.id in G. exact G.
Qed.

Theorem delta_put_length d : in_s64 d = true -> (2 <= length (delta_put d) <= 9)%nat.
Proof.
  intro H. pose proof (ext_width_range _ (delta_zigzag_lt d H)) as R.
  unfold delta_put. cbv zeta. cbn [length]. rewrite length_le_bytes. lia.
Qed.

Theorem delta_get_put d tl : in_s64 d = true ->
  delta_get (delta_put d ++ tl) = Some (N.of_nat (length (delta_put d)), d).
Proof.
  intro H. pose proof (delta_zigzag_lt d H) as L.
  unfold delta_get, delta_put. cbv zeta.
  rewrite <- app_comm_cons. cbn [List.tl length]. rewrite byte_at_cons_0.
  rewrite u8_width by exact L. rewrite frame_get by exact L.
  rewrite delta_unzigzag_zigzag by exact H. rewrite length_le_bytes.
  do 2 f_equal. lia.
Qed.

(* ---------- arrays, signed ---------- *)

Fixpoint chain_ok (prev : Z) (vs : list Z) : Prop :=
  match vs with
  | [] => True
  | v :: t => in_s64 v = true /\ in_s64 (v - prev)%Z = true /\ chain_ok v t
  end.

Lemma chain_ok_of_nth rest : forall base,
  Forall (fun x => in_s64 x = true) rest ->
  (forall i, (S i < length (base :: rest))%nat ->
     in_s64 (nth (S i) (base :: rest) 0 - nth i (base :: rest) 0)%Z = true) ->
  chain_ok base rest.
Proof.
  induction rest as [|v t IH]; intros base HF HD; [exact I|].
  cbn [chain_ok]. split; [inversion HF; assumption|]. split.
  - apply (HD O). cbn [length]. lia.
  - apply IH; [inversion HF; assumption|].
    intros i Hi. apply (HD (S i)). cbn [length] in *. lia.
Qed.

Lemma delta_loop_roundtrip vs : forall prev post, chain_ok prev vs ->
  exists r, delta_encode_loop prev vs = Some r /\
    delta_decode_loop (r ++ post) (length vs) prev = Some (N.of_nat (length r), vs).
Proof.
  induction vs as [|v t IH]; intros prev post HC.
  - exists []. split; reflexivity.
  - destruct HC as (Hv & Hd & Hc).
    destruct (IH v post Hc) as (r & E & D).
    exists (delta_put (v - prev) ++ r).
    cbn [delta_encode_loop]. cbv zeta. rewrite Hd, E. split; [reflexivity|].
    cbn [length delta_decode_loop]. rewrite <- app_assoc.
    rewrite delta_get_put by exact Hd. cbv zeta.
    replace (prev + (v - prev))%Z with v by lia. rewrite Hv.
    rewrite Nat2N.id, skipn_app_exact by reflexivity. rewrite D.
    rewrite app_length. do 2 f_equal. lia.
Qed.

Theorem delta_roundtrip xs post :
  Forall (fun x => in_s64 x = true) xs ->
  (forall i, (S i < length xs)%nat -> in_s64 (nth (S i) xs 0 - nth i xs 0)%Z = true) ->
  exists enc, delta_encode xs = Some enc /\
    delta_decode (enc ++ post) (length xs) = Some (N.of_nat (length enc), xs).
Proof.
  intros HF HD. destruct xs as [|base rest].
  - exists []. split; reflexivity.
  - assert (Hb : in_s64 base = true) by (inversion HF; assumption).
    assert (HC : chain_ok base rest) by (apply chain_ok_of_nth; [inversion HF; assumption|exact HD]).
    destruct (delta_loop_roundtrip rest base post HC) as (r & E & D).
    pose proof (delta_zigzag_lt base Hb) as L.
    unfold delta_encode. cbv zeta. rewrite E.
    eexists. split; [reflexivity|].
    cbn [length]. unfold delta_decode.
    rewrite <- app_comm_cons. cbn [List.tl]. rewrite byte_at_cons_0.
    rewrite u8_width by exact L. rewrite <- app_assoc.
    rewrite frame_get by exact L. cbv zeta.
    rewrite delta_unzigzag_zigzag by exact Hb.
    replace (N.to_nat (1 + N.of_nat (ext_width (delta_zigzag base))))
      with (S (ext_width (delta_zigzag base))) by lia.
    cbn [skipn]. rewrite skipn_app_exact by apply length_le_bytes.
    rewrite D. rewrite app_length, length_le_bytes. do 2 f_equal. lia.
Qed.

(* ---------- arrays, unsigned ---------- *)

Lemma sub64_lt x y : sub64 x y < 18446744073709551616.
Proof. unfold sub64. apply N.mod_lt. lia. Qed.

Lemma to_s64_range x : x < 18446744073709551616 -> in_s64 (to_s64 x) = true.
Proof.
  intro H. apply in_s64_iff. unfold to_s64.
  destruct (x <? 9223372036854775808) eqn:E; lia.
Qed.

Lemma of_s64_to_s64 x : x < 18446744073709551616 -> of_s64 (to_s64 x) = x.
Proof.
  intro H. unfold of_s64, to_s64.
  destruct (x <? 9223372036854775808) eqn:E; lia.
Qed.

Lemma add64_sub64 v prev : v < 18446744073709551616 -> prev < 18446744073709551616 ->
  add64 prev (of_s64 (to_s64 (sub64 v prev))) = v.
Proof.
  intros Hv Hp. rewrite of_s64_to_s64 by apply sub64_lt.
  unfold add64, sub64. rewrite (N.mod_small prev) by exact Hp. lia.
Qed.

Lemma delta_u_loop_roundtrip vs : forall prev post,
  prev < 18446744073709551616 -> Forall (fun x => x < 18446744073709551616) vs ->
  delta_decode_u_loop (delta_encode_u_loop prev vs ++ post) (length vs) prev
  = Some (N.of_nat (length (delta_encode_u_loop prev vs)), vs).
Proof.
  induction vs as [|v t IH]; intros prev post Hp HF; [reflexivity|].
  assert (Hv : v < 18446744073709551616) by (inversion HF; assumption).
  assert (Ht : Forall (fun x => x < 18446744073709551616) t) by (inversion HF; assumption).
  cbn [delta_encode_u_loop length delta_decode_u_loop]. rewrite <- app_assoc.
  rewrite delta_get_put by (apply to_s64_range, sub64_lt). cbv zeta.
  rewrite add64_sub64 by assumption.
  rewrite Nat2N.id, skipn_app_exact by reflexivity.
  rewrite IH by assumption. rewrite app_length. do 2 f_equal. lia.
Qed.

Theorem delta_u_roundtrip xs post :
  Forall (fun x => x < 18446744073709551616) xs ->
  delta_decode_u (delta_encode_u xs ++ post) (length xs)
  = Some (N.of_nat (length (delta_encode_u xs)), xs).
Proof.
  intro HF. destruct xs as [|base rest]; [reflexivity|].
  assert (L : base < 18446744073709551616) by (inversion HF; assumption).
  assert (Ht : Forall (fun x => x < 18446744073709551616) rest) by (inversion HF; assumption).
  unfold delta_encode_u. cbv zeta. cbn [length]. unfold delta_decode_u.
  rewrite <- app_comm_cons. cbn [List.tl]. rewrite byte_at_cons_0.
  rewrite u8_width by exact L. rewrite <- app_assoc.
  rewrite frame_get by exact L.
  replace (N.to_nat (1 + N.of_nat (ext_width base))) with (S (ext_width base)) by lia.
  cbn [skipn]. rewrite skipn_app_exact by apply length_le_bytes.
  rewrite delta_u_loop_roundtrip by assumption.
  rewrite app_length, length_le_bytes. do 2 f_equal. lia.
Qed.

(* ---------- C03: size bound ---------- *)

Lemma delta_encode_loop_length vs : forall prev r,
  delta_encode_loop prev vs = Some r -> (length r <= 9 * length vs)%nat.
Proof.
  induction vs as [|v t IH]; intros prev r H.
  - cbn [delta_encode_loop] in H. inversion H. cbn [length]. lia.
  - cbn [delta_encode_loop] in H. cbv zeta in H.
    destruct (in_s64 (v - prev)) eqn:Hd; [|discriminate].
    destruct (delta_encode_loop v t) as [r'|] eqn:E; [|discriminate].
    assert (R : r = delta_put (v - prev) ++ r') by congruence. subst r. rewrite app_length. cbn [length].
    pose proof (IH v r' E). pose proof (delta_put_length _ Hd). lia.
Qed.

Lemma delta_encode_u_loop_length vs : forall prev,
  (length (delta_encode_u_loop prev vs) <= 9 * length vs)%nat.
Proof.
  induction vs as [|v t IH]; intro prev.
  - cbn [delta_encode_u_loop length]. lia.
  - cbn [delta_encode_u_loop]. rewrite app_length. cbn [length].
    pose proof (IH v).
    pose proof (delta_put_length _ (to_s64_range _ (sub64_lt v prev))). lia.
Qed.

Lemma delta_max_encoded_size_eq n : N.of_nat (S n) < 1152921504606846976 ->
  delta_max_encoded_size (N.of_nat (S n)) = 9 + 9 * N.of_nat n.
Proof.
  intro H. unfold delta_max_encoded_size.
  destruct (N.of_nat (S n) =? 0) eqn:E; [lia|].
  unfold u64, mul64.
  replace (N.of_nat (S n) - 1) with (N.of_nat n) by lia.
  rewrite (N.mod_small (N.of_nat n * 9)) by lia.
  rewrite N.mod_small by lia. lia.
Qed.

Theorem delta_bound xs enc :
  Forall (fun x => in_s64 x = true) xs -> N.of_nat (length xs) < 1152921504606846976 ->
  delta_encode xs = Some enc ->
  N.of_nat (length enc) <= delta_max_encoded_size (N.of_nat (length xs)).
Proof.
  intros HF HN HE. destruct xs as [|base rest].
  - cbn [delta_encode] in HE. inversion HE. cbn [length]. lia.
  - assert (Hb : in_s64 base = true) by (inversion HF; assumption).
    unfold delta_encode in HE. cbv zeta in HE.
    destruct (delta_encode_loop base rest) as [r|] eqn:E; [|discriminate].
    inversion HE. cbn [length] in *.
    rewrite delta_max_encoded_size_eq by exact HN.
    rewrite app_length, length_le_bytes.
    pose proof (delta_encode_loop_length _ _ _ E).
    pose proof (ext_width_range _ (delta_zigzag_lt base Hb)). lia.
Qed.

Theorem delta_u_bound xs :
  Forall (fun x => x < 18446744073709551616) xs -> N.of_nat (length xs) < 1152921504606846976 ->
  N.of_nat (length (delta_encode_u xs)) <= delta_max_encoded_size (N.of_nat (length xs)).
Proof.
  intros HF HN. destruct xs as [|base rest].
  - cbn [delta_encode_u length]. lia.
  - assert (L : base < 18446744073709551616) by (inversion HF; assumption).
    unfold delta_encode_u. cbv zeta. cbn [length] in *.
    rewrite delta_max_encoded_size_eq by exact HN.
    rewrite app_length, length_le_bytes.
    pose proof (delta_encode_u_loop_length rest base).
    pose proof (ext_width_range _ L). lia.
Qed.
