(* PFORTheorems.v — the statements used by Properties_C02/C03/C16_pfor.v, about
   pfor_encode / pfor_decode / pfor_get_at / pfor_read_meta / pfor_size as
   defined in PFOR.v. *)
Require Import VV.Base VV.BaseProofs VV.Tagged VV.TaggedProofs VV.TaggedSpecProofs
  VV.PFOR VV.PFORSpec VV.PFORLemmas VV.PFORProofs VV.PFORProofsDec VV.PFORProofsSize.
From Coq Require Import Lia ZifyBool ZifyN ZifyNat.
Local Open Scope N_scope.
Ltac Zify.zify_post_hook ::= Z.div_mod_to_equations.

Lemma nonempty_of_len (xs : list N) : (1 <= length xs)%nat -> xs <> [].
Proof. destruct xs; cbn [length]; [lia|discriminate]. Qed.

Ltac setup xs thr Hlen Hok w MO L :=
  pose proof (nonempty_of_len xs Hlen) as Hne;
  destruct (compute_threshold_ok xs thr Hne Hok) as (w & MO);
  destruct (pfor_encode_layout xs thr Hne Hok) as (L & _).

(* ---------- C02 ---------- *)

Theorem pfor_roundtrip_fresh xs thr tl m0 :
  (1 <= length xs)%nat -> N.of_nat (length xs) < 4294967296 ->
  Forall (fun x => x < 18446744073709551616) xs -> pm_width m0 = 0 ->
  exists m', pfor_decode (pfor_encode_bytes xs thr ++ tl) m0 = POk (xs, m').
Proof.
  intros Hlen H32 Hok W0. setup xs thr Hlen Hok w MO L. rewrite L.
  eexists. apply (decode_layout_fresh _ xs w MO Hok H32 tl m0 W0).
Qed.

Theorem pfor_roundtrip_meta xs thr tl :
  (1 <= length xs)%nat -> N.of_nat (length xs) < 4294967296 ->
  Forall (fun x => x < 18446744073709551616) xs ->
  pfor_decode (pfor_encode_bytes xs thr ++ tl) (pfor_encode_meta xs thr)
  = POk (xs, pfor_encode_meta xs thr).
Proof.
  intros Hlen H32 Hok. setup xs thr Hlen Hok w MO L. rewrite L.
  change (pfor_encode_meta xs thr) with (pfor_compute_threshold xs thr).
  set (m := pfor_compute_threshold xs thr) in *.
  rewrite (decode_layout_meta m xs w MO Hok H32 tl m eq_refl eq_refl eq_refl (mo_count _ _ _ MO)).
  pose proof (ec_is_exc m xs w MO) as Q. cbv zeta in Q. rewrite Q.
  destruct m; reflexivity.
Qed.

Theorem pfor_get_at_ok xs thr tl i :
  (1 <= length xs)%nat -> N.of_nat (length xs) < 4294967296 ->
  Forall (fun x => x < 18446744073709551616) xs -> (i < length xs)%nat ->
  pfor_get_at (pfor_encode_bytes xs thr ++ tl) (N.of_nat i) (pfor_encode_meta xs thr)
  = POk (nth i xs 0).
Proof.
  intros Hlen H32 Hok Hi. setup xs thr Hlen Hok w MO L. rewrite L.
  change (pfor_encode_meta xs thr) with (pfor_compute_threshold xs thr).
  apply (get_at_layout _ xs w MO Hok H32 tl _ i eq_refl eq_refl eq_refl (mo_count _ _ _ MO) Hi).
Qed.

Theorem pfor_get_at_read_meta xs thr tl i m0 h rm :
  (1 <= length xs)%nat -> N.of_nat (length xs) < 4294967296 ->
  Forall (fun x => x < 18446744073709551616) xs -> (i < length xs)%nat ->
  pfor_read_meta (pfor_encode_bytes xs thr ++ tl) m0 = POk (h, rm) ->
  pfor_get_at (pfor_encode_bytes xs thr ++ tl) (N.of_nat i) rm = POk (nth i xs 0).
Proof.
  intros Hlen H32 Hok Hi. setup xs thr Hlen Hok w MO L. rewrite L.
  rewrite (read_meta_layout _ xs w MO Hok H32 tl m0). intro R. injection R as _ <-.
  apply (get_at_layout (pfor_compute_threshold xs thr) xs w MO Hok H32 tl); try reflexivity; exact Hi.
Qed.

(* ---------- C03 ---------- *)

Theorem pfor_size_bound xs thr :
  (1 <= length xs)%nat -> N.of_nat (length xs) < 4294967296 ->
  Forall (fun x => x < 18446744073709551616) xs ->
  N.of_nat (length (pfor_encode_bytes xs thr)) <= pfor_size (pfor_compute_threshold xs thr).
Proof.
  intros Hlen H32 Hok. setup xs thr Hlen Hok w MO L. rewrite L.
  apply (layout_size_bound _ xs w MO H32).
Qed.

Theorem pfor_size_exact xs thr :
  (1 <= length xs)%nat -> N.of_nat (length xs) < 4294967296 ->
  Forall (fun x => x < 18446744073709551616) xs ->
  pm_exc (pfor_compute_threshold xs thr) = 0 ->
  N.of_nat (length (pfor_encode_bytes xs thr)) = pfor_size (pfor_compute_threshold xs thr).
Proof.
  intros Hlen H32 Hok E. setup xs thr Hlen Hok w MO L. rewrite L.
  apply (layout_size_exact _ xs w MO H32 E).
Qed.

(* ---------- C16 ---------- *)

Theorem pfor_meta_truth xs thr :
  (1 <= length xs)%nat -> Forall (fun x => x < 18446744073709551616) xs ->
  let m := pfor_encode_meta xs thr in
  pfor_compute_threshold xs thr = m /\
  pm_count m = N.of_nat (length xs) /\
  In (pm_min m) xs /\ (forall v, In v xs -> pm_min m <= v) /\
  In (pm_tv m) xs /\
  (exists w, (1 <= w <= 8)%nat /\ pm_width m = N.of_nat w /\
             pm_marker m = 256 ^ N.of_nat w - 1 /\
             pm_tv m - pm_min m < 256 ^ N.of_nat w /\
             (w = 1%nat \/ 256 ^ N.of_nat (w - 1) <= pm_tv m - pm_min m)) /\
  pm_exc m = N.of_nat (length (pfor_excs m 0 xs)) /\
  pm_thr m = thr /\
  pfor_encode_bytes xs thr = pfor_layout m xs.
Proof.
  intros Hlen Hok. cbv zeta. setup xs thr Hlen Hok w MO L.
  change (pfor_encode_meta xs thr) with (pfor_compute_threshold xs thr).
  set (m := pfor_compute_threshold xs thr) in *.
  split; [reflexivity|]. split; [apply (mo_count _ _ _ MO)|].
  split; [apply (mo_min_in _ _ _ MO)|]. split; [apply (mo_min_le _ _ _ MO)|].
  split; [apply (mo_tv_in _ _ _ MO)|].
  split.
  { exists w. split; [apply (mo_w _ _ _ MO)|]. split; [apply (mo_width _ _ _ MO)|].
    split; [apply (mo_marker _ _ _ MO)|]. split; [apply (mo_range _ _ _ MO)|apply (mo_width_min _ _ _ MO)]. }
  split.
  { rewrite (mo_exc _ _ _ MO). apply count_exc_length. }
  split; [|exact L].
  subst m. unfold pfor_compute_threshold. cbv zeta.
  destruct (N.of_nat (length xs) =? 0) eqn:E0; [lia|reflexivity].
Qed.

(* a slot holds the marker exactly for the listed outliers *)
Theorem pfor_marker_slot_iff xs thr v :
  (1 <= length xs)%nat -> Forall (fun x => x < 18446744073709551616) xs -> In v xs ->
  let m := pfor_encode_meta xs thr in
  pfor_slot m v = le_bytes (N.to_nat (pm_width m)) (pm_marker m)
  <-> pfor_is_exc (pm_min m) (pm_tv m) (pm_marker m) v = true.
Proof.
  intros Hlen Hok Hv. cbv zeta. setup xs thr Hlen Hok w MO L.
  change (pfor_encode_meta xs thr) with (pfor_compute_threshold xs thr).
  set (m := pfor_compute_threshold xs thr) in *.
  unfold pfor_slot. destruct (pfor_is_exc (pm_min m) (pm_tv m) (pm_marker m) v) eqn:E.
  - split; reflexivity.
  - split; [|discriminate]. intro Heq. exfalso.
    destruct (regular_offset m xs w MO Hok v Hv E) as (A & B & C & D).
    apply (f_equal of_le) in Heq. rewrite !of_le_le_bytes in Heq.
    rewrite (mo_width _ _ _ MO), Nat2N.id in Heq.
    rewrite A in Heq. rewrite !N.mod_small in Heq; try assumption; [congruence|].
    apply (marker_lt m xs w MO).
Qed.

Theorem pfor_read_meta_truth xs thr tl m0 :
  (1 <= length xs)%nat -> N.of_nat (length xs) < 4294967296 ->
  Forall (fun x => x < 18446744073709551616) xs ->
  let m := pfor_encode_meta xs thr in
  pfor_read_meta (pfor_encode_bytes xs thr ++ tl) m0
  = POk (tagged_len (pm_min m) + 1 + tagged_len (pm_count m),
         mk_pfor_meta (pm_min m) (pm_marker m) (pm_tv m0) (pm_width m) (pm_count m) (pm_exc m) 95).
Proof.
  intros Hlen H32 Hok. cbv zeta. setup xs thr Hlen Hok w MO L. rewrite L.
  change (pfor_encode_meta xs thr) with (pfor_compute_threshold xs thr).
  set (m := pfor_compute_threshold xs thr) in *.
  rewrite (read_meta_layout m xs w MO Hok H32 tl m0).
  pose proof (ec_is_exc m xs w MO) as Q. cbv zeta in Q. rewrite Q.
  unfold pfor_hdr_len. rewrite (mo_count _ _ _ MO). reflexivity.
Qed.

Theorem pfor_decode_reports xs thr tl m0 :
  (1 <= length xs)%nat -> N.of_nat (length xs) < 4294967296 ->
  Forall (fun x => x < 18446744073709551616) xs -> pm_width m0 = 0 ->
  let m := pfor_encode_meta xs thr in
  pfor_decode (pfor_encode_bytes xs thr ++ tl) m0
  = POk (xs, mk_pfor_meta (pm_min m) (pm_marker m) (pm_tv m0) (pm_width m)
                          (N.of_nat (length xs)) (pm_exc m) 95).
Proof.
  intros Hlen H32 Hok W0. cbv zeta. setup xs thr Hlen Hok w MO L. rewrite L.
  change (pfor_encode_meta xs thr) with (pfor_compute_threshold xs thr).
  set (m := pfor_compute_threshold xs thr) in *.
  rewrite (decode_layout_fresh m xs w MO Hok H32 tl m0 W0).
  pose proof (ec_is_exc m xs w MO) as Q. cbv zeta in Q. rewrite Q. reflexivity.
Qed.

(* the decoder is handed exactly the bytes the encoder wrote: a read at or
   past their end would be POob *)
Theorem pfor_roundtrip_exact xs thr m0 :
  (1 <= length xs)%nat -> N.of_nat (length xs) < 4294967296 ->
  Forall (fun x => x < 18446744073709551616) xs -> pm_width m0 = 0 ->
  exists m', pfor_decode (pfor_encode_bytes xs thr) m0 = POk (xs, m').
Proof.
  intros. rewrite <- (app_nil_r (pfor_encode_bytes xs thr)). apply pfor_roundtrip_fresh; assumption.
Qed.

Theorem pfor_get_at_exact xs thr i :
  (1 <= length xs)%nat -> N.of_nat (length xs) < 4294967296 ->
  Forall (fun x => x < 18446744073709551616) xs -> (i < length xs)%nat ->
  pfor_get_at (pfor_encode_bytes xs thr) (N.of_nat i) (pfor_encode_meta xs thr) = POk (nth i xs 0).
Proof.
  intros. rewrite <- (app_nil_r (pfor_encode_bytes xs thr)). apply pfor_get_at_ok; assumption.
Qed.

(* the outlier test in plain arithmetic (no wrap-around happens: min <= v) *)
Theorem pfor_is_exc_math xs thr v :
  (1 <= length xs)%nat -> Forall (fun x => x < 18446744073709551616) xs -> In v xs ->
  let m := pfor_encode_meta xs thr in
  pfor_is_exc (pm_min m) (pm_tv m) (pm_marker m) v
  = ((pm_tv m <? v) || (v - pm_min m =? pm_marker m)).
Proof.
  intros Hlen Hok Hv. cbv zeta. setup xs thr Hlen Hok w MO L.
  change (pfor_encode_meta xs thr) with (pfor_compute_threshold xs thr).
  unfold pfor_is_exc. rewrite sub64_small; [reflexivity| |].
  - apply (mo_min_le _ _ _ MO). exact Hv.
  - apply (in64 xs Hok). exact Hv.
Qed.
