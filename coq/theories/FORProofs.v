(* FORProofs.v — lemmas about the frame-of-reference model FOR.v *)
Require Import VV.Base VV.BaseProofs VV.Tagged VV.TaggedProofs VV.TaggedSpecProofs.
Require Import VV.Delta VV.DfgLemmas VV.FOR.
From Coq Require Import Lia ZifyBool ZifyN ZifyNat.
Local Open Scope N_scope.
Ltac Zify.zify_post_hook ::= Z.div_mod_to_equations.

Notation two64 := 18446744073709551616 (only parsing).
Notation two60 := 1152921504606846976 (only parsing).
Definition u64ok (x : N) : Prop := x < 18446744073709551616.

(* ---------- min / max loop ---------- *)
Lemma for_minmax_spec vs : forall mn mx a b, for_minmax mn mx vs = (a, b) ->
  a <= mn /\ mx <= b /\ (forall v, In v vs -> a <= v <= b) /\
  In a (mn :: vs) /\ In b (mx :: vs).
Proof.
  induction vs as [|v t IH]; intros mn mx a b H.
  - cbn [for_minmax] in H. inversion H; subst.
    split; [lia|]. split; [lia|]. split; [intros x []|]. split; left; reflexivity.
  - cbn [for_minmax] in H. apply IH in H. destruct H as (A & B & C & D & E).
    assert (Hmn : a <= mn /\ a <= v) by (destruct (v <? mn) eqn:F; lia).
    assert (Hmx : mx <= b /\ v <= b) by (destruct (mx <? v) eqn:F; lia).
    split; [lia|]. split; [lia|]. split; [|split].
    + intros x [<-|Hx]; [lia|]. apply C. exact Hx.
    + destruct D as [D|D].
      * destruct (v <? mn); [right; left; congruence | left; congruence].
      * right; right; exact D.
    + destruct E as [E|E].
      * destruct (mx <? v); [right; left; congruence | left; congruence].
      * right; right; exact E.
Qed.

(* what varintFORAnalyze reports, for a non-empty array of 64-bit values *)
Lemma for_analyze_spec xs : xs <> [] -> Forall u64ok xs ->
  exists m, for_analyze xs = Some m /\
    In (fm_min m) xs /\ In (fm_max m) xs /\
    (forall v, In v xs -> fm_min m <= v <= fm_max m) /\
    fm_range m = fm_max m - fm_min m /\
    fm_count m = N.of_nat (length xs) /\
    fm_width m = N.of_nat (ext_width (fm_range m)) /\
    fm_size m = for_size m /\
    fm_max m < 18446744073709551616.
Proof.
  intros Hne Hall. destruct xs as [|v0 rest]; [congruence|].
  unfold for_analyze. destruct (for_minmax v0 v0 rest) as [a b] eqn:E.
  apply for_minmax_spec in E. destruct E as (A & B & C & D & F).
  eexists. split; [reflexivity|]. cbn [fm_min fm_max fm_range fm_count fm_width fm_size].
  assert (Hb : b < 18446744073709551616).
  { rewrite Forall_forall in Hall. apply Hall. exact F. }
  split; [exact D|]. split; [exact F|]. split.
  { intros x [<-|Hx]; [lia|]. apply C. exact Hx. }
  split; [unfold sub64; lia|]. split; [reflexivity|]. split; [reflexivity|].
  split; [reflexivity|exact Hb].
Qed.

(* ---------- offsets ---------- *)
Definition for_flat (minv w : N) (vs : list N) : list N :=
  flat_map (fun v => le_bytes (N.to_nat w) (sub64 v minv)) vs.

Lemma for_flat_length minv w vs : length (for_flat minv w vs) = (length vs * N.to_nat w)%nat.
Proof.
  unfold for_flat. induction vs as [|v t IH]; [reflexivity|].
  cbn [flat_map length]. rewrite app_length, length_le_bytes, IH. lia.
Qed.

Lemma for_put_offsets_eq minv w vs : dfg_width_ok w = true ->
  for_put_offsets minv w vs = Some (for_flat minv w vs).
Proof.
  intro H. induction vs as [|v t IH]; [reflexivity|].
  cbn [for_put_offsets]. rewrite dfg_ext_put_quick_eq by exact H. rewrite IH. reflexivity.
Qed.

Lemma dfg_ext_put_quick_some v w b : dfg_ext_put_quick v w = Some b -> dfg_width_ok w = true.
Proof.
  destruct (dfg_width_ok w) eqn:E; [reflexivity|].
  intro H. exfalso. unfold dfg_ext_put_quick in H.
  assert (G : dfg_ext_put v w = None) by (unfold dfg_ext_put; rewrite E; reflexivity).
  assert (W : w <> 1 /\ w <> 2 /\ w <> 3) by (unfold dfg_width_ok in E; lia).
  destruct w as [|q]; [congruence|].
  destruct q as [[[|q|]|[|q|]|]|[[|q|]|[|q|]|]|]; try lia; congruence.
Qed.

Lemma for_put_offsets_some minv w vs bs : for_put_offsets minv w vs = Some bs ->
  bs = for_flat minv w vs /\ (vs <> [] -> dfg_width_ok w = true).
Proof.
  destruct vs as [|v t].
  - cbn. intro H. inversion H. split; [reflexivity|congruence].
  - intro H. assert (W : dfg_width_ok w = true).
    { cbn [for_put_offsets] in H. destruct (dfg_ext_put_quick (sub64 v minv) w) eqn:E; [|discriminate].
      eapply dfg_ext_put_quick_some. exact E. }
    rewrite for_put_offsets_eq in H by exact W. inversion H. split; [reflexivity|intros _; exact W].
Qed.

(* reading n offsets back from the flat data, whatever follows *)
Lemma for_get_offsets_flat minv w : dfg_width_ok w = true -> forall n vs post,
  (n <= length vs)%nat ->
  Forall (fun v => minv <= v < 18446744073709551616 /\ v - minv < 256 ^ w) vs ->
  for_get_offsets minv w (for_flat minv w vs ++ post) n = Some (firstn n vs).
Proof.
  intros W. induction n as [|n IH]; intros vs post Hn Hall; [reflexivity|].
  destruct vs as [|v t]; [cbn in Hn; lia|].
  inversion Hall as [|? ? Hv Ht]; subst.
  unfold for_flat. cbn [flat_map for_get_offsets]. rewrite <- app_assoc.
  assert (S : sub64 v minv = v - minv) by (unfold sub64; lia).
  rewrite dfg_ext_get_quick_put by (try exact W; rewrite S; lia).
  rewrite skipn_app_exact by apply length_le_bytes.
  fold (for_flat minv w t). rewrite IH by (try assumption; cbn in Hn; lia).
  cbn [firstn]. do 2 f_equal. rewrite S. unfold add64. lia.
Qed.

Lemma skipn_add {A} a b (l : list A) : skipn (a + b) l = skipn b (skipn a l).
Proof.
  revert l. induction a as [|a IH]; intro l; [reflexivity|].
  destruct l as [|x l]; [cbn [Nat.add skipn]; destruct b; reflexivity|]. cbn [Nat.add skipn]. apply IH.
Qed.

Lemma for_flat_skipn minv w vs post k : (k <= length vs)%nat ->
  skipn (k * N.to_nat w) (for_flat minv w vs ++ post) = for_flat minv w (skipn k vs) ++ post.
Proof.
  revert vs. induction k as [|k IH]; intros vs Hk; [reflexivity|].
  destruct vs as [|v t]; [cbn in Hk; lia|].
  unfold for_flat. cbn [flat_map skipn]. rewrite <- app_assoc.
  replace (S k * N.to_nat w)%nat with (N.to_nat w + k * N.to_nat w)%nat by lia.
  rewrite skipn_add. rewrite skipn_app_exact by apply length_le_bytes.
  fold (for_flat minv w t). apply IH. cbn in Hk. lia.
Qed.

Lemma skipn_nth_cons {A} (d : A) l i : (i < length l)%nat -> skipn i l = nth i l d :: skipn (S i) l.
Proof.
  revert i. induction l as [|x l IH]; intros i H; [cbn in H; lia|].
  destruct i as [|i]; [reflexivity|]. cbn [skipn nth]. rewrite IH by (cbn in H; lia). reflexivity.
Qed.

(* ---------- header ---------- *)
Lemma tagged_get64_put x tl : x < 18446744073709551616 ->
  tagged_get64 (tagged_put64 x ++ tl) = (tagged_len x, x).
Proof.
  intro H. unfold tagged_get64. apply tagged_roundtrip; [exact H|].
  pose proof (tagged_len_range x). lia.
Qed.

Lemma tagged_put_len_nat x : length (tagged_put64 x) = N.to_nat (tagged_len x).
Proof. rewrite <- tagged_put_length, Nat2N.id. reflexivity. Qed.

Lemma for_read_metadata_bytes mn w cnt rest :
  mn < 18446744073709551616 -> cnt < 18446744073709551616 ->
  for_read_metadata (tagged_put64 mn ++ [w] ++ tagged_put64 cnt ++ rest)
  = mk_for_meta mn mn 0 cnt (u64 (tagged_len mn + 1 + tagged_len cnt + mul64 cnt w)) w.
Proof.
  intros Hm Hc. unfold for_read_metadata. cbv zeta.
  rewrite tagged_get64_put by exact Hm. cbn [fst snd].
  rewrite skipn_app_exact by apply tagged_put_len_nat.
  cbn [app byte_at nth tl]. rewrite tagged_get64_put by exact Hc. reflexivity.
Qed.

Lemma for_skip_header mn w cnt rest :
  skipn (N.to_nat (tagged_len mn + 1 + tagged_len cnt)) (tagged_put64 mn ++ [w] ++ tagged_put64 cnt ++ rest)
  = rest.
Proof.
  rewrite !app_assoc. apply skipn_app_exact.
  rewrite !app_length, !tagged_put_len_nat. cbn [length]. lia.
Qed.

(* ---------- the bytes of an encoding ---------- *)
Definition for_bytes (m : for_meta) (xs : list N) : list N :=
  tagged_put64 (fm_min m) ++ [u8 (fm_width m)] ++ tagged_put64 (fm_count m)
  ++ for_flat (fm_min m) (fm_width m) xs.

Lemma for_bytes_app m xs post :
  for_bytes m xs ++ post
  = tagged_put64 (fm_min m) ++ [u8 (fm_width m)] ++ tagged_put64 (fm_count m)
    ++ (for_flat (fm_min m) (fm_width m) xs ++ post).
Proof. unfold for_bytes. rewrite <- !app_assoc. reflexivity. Qed.

Lemma for_bytes_length m xs :
  N.of_nat (length (for_bytes m xs))
  = tagged_len (fm_min m) + 1 + tagged_len (fm_count m) + N.of_nat (length xs) * N.of_nat (N.to_nat (fm_width m)).
Proof.
  unfold for_bytes. rewrite !app_length, for_flat_length, !tagged_put_len_nat. cbn [length].
  pose proof (tagged_len_range (fm_min m)). pose proof (tagged_len_range (fm_count m)). lia.
Qed.

Lemma for_emit_eq m xs : dfg_width_ok (fm_width m) = true -> for_emit m xs = Some (for_bytes m xs).
Proof. intro H. unfold for_emit. rewrite for_put_offsets_eq by exact H. reflexivity. Qed.

(* a meta describes xs well enough for the round trip *)
Definition for_meta_fits (m : for_meta) (xs : list N) : Prop :=
  fm_min m < 18446744073709551616 /\ fm_count m = N.of_nat (length xs) /\
  dfg_width_ok (fm_width m) = true /\
  Forall (fun v => fm_min m <= v < 18446744073709551616 /\ v - fm_min m < 256 ^ fm_width m) xs.

Lemma for_analyze_fits xs m : Forall u64ok xs -> for_analyze xs = Some m -> for_meta_fits m xs.
Proof.
  intros Hall Ha.
  assert (Hne : xs <> []) by (intro E; subst; discriminate).
  destruct (for_analyze_spec xs Hne Hall) as (m' & Ha' & Imn & Imx & Hb & Hr & Hc & Hw & _ & Hmx).
  rewrite Ha in Ha'. inversion Ha'; subst m'. clear Ha'.
  assert (Hmn : fm_min m <= fm_max m) by (apply Hb; exact Imn).
  assert (Hrng : fm_range m < 18446744073709551616) by lia.
  unfold for_meta_fits. split; [lia|]. split; [exact Hc|]. split.
  - rewrite Hw. apply ext_width_ok. exact Hrng.
  - rewrite Forall_forall. intros v Hv. specialize (Hb v Hv).
    rewrite Forall_forall in Hall. specialize (Hall v Hv). unfold u64ok in Hall.
    split; [lia|]. rewrite Hw. pose proof (ext_width_lt _ Hrng). lia.
Qed.

Lemma fits_width_small m xs : for_meta_fits m xs -> 1 <= fm_width m <= 8.
Proof. intros (_ & _ & W & _). apply dfg_width_ok_iff. exact W. Qed.

Lemma for_read_metadata_enc m xs post : for_meta_fits m xs -> N.of_nat (length xs) < 18446744073709551616 ->
  for_read_metadata (for_bytes m xs ++ post)
  = mk_for_meta (fm_min m) (fm_min m) 0 (fm_count m)
      (u64 (tagged_len (fm_min m) + 1 + tagged_len (fm_count m) + mul64 (fm_count m) (fm_width m)))
      (fm_width m).
Proof.
  intros F Hn. pose proof (fits_width_small m xs F) as W. destruct F as (Hm & Hc & _ & _).
  rewrite for_bytes_app. rewrite for_read_metadata_bytes by (try exact Hm; rewrite Hc; exact Hn).
  replace (u8 (fm_width m)) with (fm_width m) by (unfold u8; lia). reflexivity.
Qed.

Lemma for_skip_header_enc m xs post :
  skipn (N.to_nat (tagged_len (fm_min m) + 1 + tagged_len (fm_count m))) (for_bytes m xs ++ post)
  = for_flat (fm_min m) (fm_width m) xs ++ post.
Proof. rewrite for_bytes_app. apply for_skip_header. Qed.

(* ---------- decoders on an encoding ---------- *)
Lemma for_decode_bytes m xs post cap : for_meta_fits m xs ->
  N.of_nat (length xs) < 18446744073709551616 -> N.of_nat (length xs) <= cap ->
  for_decode (for_bytes m xs ++ post) cap = Some (N.of_nat (length xs), xs).
Proof.
  intros F Hn Hcap. unfold for_decode. rewrite for_read_metadata_enc by assumption.
  cbv zeta. unfold for_data_offset. cbn [fm_count fm_min fm_width].
  destruct F as (Hm & Hc & W & Hall).
  destruct (cap <? fm_count m) eqn:E; [lia|].
  rewrite for_skip_header_enc.
  rewrite Hc, Nat2N.id.
  rewrite for_get_offsets_flat by (try assumption; lia).
  rewrite firstn_all. reflexivity.
Qed.

Lemma for_decode_bytes_short m xs post cap : for_meta_fits m xs ->
  N.of_nat (length xs) < 18446744073709551616 -> cap < N.of_nat (length xs) ->
  for_decode (for_bytes m xs ++ post) cap = Some (0, []).
Proof.
  intros F Hn Hcap. unfold for_decode. rewrite for_read_metadata_enc by assumption.
  cbv zeta. cbn [fm_count]. destruct F as (Hm & Hc & W & Hall).
  destruct (cap <? fm_count m) eqn:E; [reflexivity|lia].
Qed.

Lemma for_get_at_bytes m xs post i : for_meta_fits m xs ->
  N.of_nat (length xs) < 1152921504606846976 -> (i < length xs)%nat ->
  for_get_at (for_bytes m xs ++ post) (N.of_nat i) = Some (nth i xs 0).
Proof.
  intros F Hn Hi. unfold for_get_at. rewrite for_read_metadata_enc by (try assumption; lia).
  cbv zeta. unfold for_data_offset. cbn [fm_count fm_min fm_width].
  pose proof (fits_width_small m xs F) as Ws. destruct F as (Hm & Hc & W & Hall).
  pose proof (tagged_len_range (fm_min m)). pose proof (tagged_len_range (fm_count m)).
  assert (Hmul : mul64 (N.of_nat i) (fm_width m) = N.of_nat i * fm_width m).
  { unfold mul64. apply N.mod_small. nia. }
  rewrite Hmul. unfold u64. rewrite N.mod_small by nia.
  replace (N.to_nat (tagged_len (fm_min m) + 1 + tagged_len (fm_count m) + N.of_nat i * fm_width m))
    with (N.to_nat (tagged_len (fm_min m) + 1 + tagged_len (fm_count m)) + i * N.to_nat (fm_width m))%nat by lia.
  rewrite skipn_add, for_skip_header_enc, for_flat_skipn by lia.
  rewrite (skipn_nth_cons 0) by exact Hi.
  unfold for_flat. cbn [flat_map]. rewrite <- app_assoc.
  rewrite Forall_forall in Hall. specialize (Hall (nth i xs 0) (nth_In _ _ Hi)).
  assert (S : sub64 (nth i xs 0) (fm_min m) = nth i xs 0 - fm_min m) by (unfold sub64; lia).
  rewrite dfg_ext_get_quick_put by (try exact W; rewrite S; lia).
  f_equal. rewrite S. unfold add64. lia.
Qed.

Lemma for_decode_block_bytes m xs post start block : for_meta_fits m xs ->
  N.of_nat (length xs) < 1152921504606846976 -> start + block < 18446744073709551616 ->
  for_decode_block (for_bytes m xs ++ post) start block
  = Some (N.of_nat (length (firstn (N.to_nat block) (skipn (N.to_nat start) xs))),
          firstn (N.to_nat block) (skipn (N.to_nat start) xs)).
Proof.
  intros F Hn Hsb. unfold for_decode_block. rewrite for_read_metadata_enc by (try assumption; lia).
  cbv zeta. unfold for_data_offset. cbn [fm_count fm_min fm_width].
  pose proof (fits_width_small m xs F) as Ws. destruct F as (Hm & Hc & W & Hall).
  pose proof (tagged_len_range (fm_min m)). pose proof (tagged_len_range (fm_count m)).
  destruct (fm_count m <=? start) eqn:E.
  - rewrite skipn_all2 by lia. rewrite firstn_nil. reflexivity.
  - assert (Hmul : mul64 start (fm_width m) = start * fm_width m).
    { unfold mul64. apply N.mod_small. nia. }
    rewrite Hmul. unfold u64. rewrite N.mod_small by nia.
    replace (N.to_nat (tagged_len (fm_min m) + 1 + tagged_len (fm_count m) + start * fm_width m))
      with (N.to_nat (tagged_len (fm_min m) + 1 + tagged_len (fm_count m)) + N.to_nat start * N.to_nat (fm_width m))%nat by lia.
    rewrite skipn_add, for_skip_header_enc, for_flat_skipn by lia.
    unfold add64. rewrite (N.mod_small (start + block)) by exact Hsb.
    set (tl := skipn (N.to_nat start) xs).
    assert (Ltl : length tl = (length xs - N.to_nat start)%nat) by (subst tl; apply skipn_length).
    assert (Ftl : Forall (fun v => fm_min m <= v < 18446744073709551616 /\ v - fm_min m < 256 ^ fm_width m) tl).
    { subst tl. rewrite Forall_forall in *. intros v Hv. apply Hall.
      rewrite <- (firstn_skipn (N.to_nat start) xs). apply in_or_app. right. exact Hv. }
    destruct (fm_count m <? start + block) eqn:E2.
    + rewrite for_get_offsets_flat by (try assumption; lia).
      replace (N.to_nat (fm_count m - start)) with (length tl) by lia.
      rewrite firstn_all. rewrite (firstn_all2 (n := N.to_nat block)) by lia.
      f_equal. f_equal. lia.
    + rewrite for_get_offsets_flat by (try assumption; lia).
      rewrite firstn_length. f_equal. f_equal. lia.
Qed.

(* ---------- the encoder ---------- *)
(* on the lossless domain (meta NULL, stale count, or the analysis of this
   very array) the encoder emits the bytes of the analysis and hands the
   analysis back through a non-NULL meta *)
Lemma for_encode_accepted xs meta : xs <> [] -> Forall u64ok xs ->
  (meta = None \/ exists m0, meta = Some m0 /\
     (fm_count m0 <> N.of_nat (length xs) \/ for_analyze xs = Some m0)) ->
  exists m, for_analyze xs = Some m /\
    for_encode xs meta = Some (for_bytes m xs, match meta with None => None | Some _ => Some m end).
Proof.
  intros Hne Hall Hacc.
  destruct (for_analyze_spec xs Hne Hall) as (m & Ha & _ & _ & _ & _ & Hc & _).
  pose proof (for_analyze_fits xs m Hall Ha) as F. destruct F as (_ & _ & W & _).
  exists m. split; [exact Ha|].
  unfold for_encode, for_encode_with. destruct xs as [|x0 xr]; [congruence|].
  destruct Hacc as [->|(m0 & -> & [Hst|Hsame])].
  - rewrite Ha. rewrite for_emit_eq by exact W. reflexivity.
  - destruct (fm_count m0 =? N.of_nat (length (x0 :: xr))) eqn:E; [lia|].
    cbn [negb]. rewrite Ha. rewrite for_emit_eq by exact W. reflexivity.
  - assert (m0 = m) by congruence. subst m0.
    rewrite Hc. rewrite N.eqb_refl. cbn [negb]. rewrite for_emit_eq by exact W. reflexivity.
Qed.

(* whatever meta the encoder ends up trusting, varintFORSize of it is the
   number of bytes written (C03 "exact"), for every supported width *)
Lemma for_emit_size m xs bs : for_emit m xs = Some bs ->
  fm_count m = N.of_nat (length xs) -> N.of_nat (length xs) < 1152921504606846976 ->
  for_size m = N.of_nat (length bs).
Proof.
  intros He Hc Hn. unfold for_emit in He.
  destruct (for_put_offsets (fm_min m) (fm_width m) xs) as [offs|] eqn:E; [|discriminate].
  apply for_put_offsets_some in E. destruct E as (-> & W).
  assert (Hbs : bs = for_bytes m xs) by (unfold for_bytes; congruence).
  subst bs. clear He. rewrite for_bytes_length.
  unfold for_size, for_size_of. rewrite Hc.
  pose proof (tagged_len_range (fm_min m)). pose proof (tagged_len_range (N.of_nat (length xs))).
  destruct xs as [|x0 xr].
  - change (N.of_nat (length (@nil N))) with 0 in *.
    unfold mul64, u64. rewrite N.mul_0_l. rewrite N.mod_0_l by lia. rewrite N.mod_small by lia. lia.
  - assert (Ws : 1 <= fm_width m <= 8) by (apply dfg_width_ok_iff; apply W; congruence).
    rewrite N2Nat.id.
    unfold mul64, u64. rewrite (N.mod_small (_ * _)) by nia. rewrite N.mod_small by nia. reflexivity.
Qed.

Lemma for_encode_trusted xs m0 : xs <> [] -> fm_count m0 = N.of_nat (length xs) ->
  for_encode xs (Some m0) = match for_emit m0 xs with Some bs => Some (bs, Some m0) | None => None end.
Proof.
  intros Hne Hc. unfold for_encode, for_encode_with. destruct xs as [|x0 xr]; [congruence|].
  rewrite Hc, N.eqb_refl. reflexivity.
Qed.

(* ---------- statements for the Properties files ---------- *)

(* C02 *)
Theorem for_roundtrip xs meta post cap :
  xs <> [] -> Forall (fun x => x < 18446744073709551616) xs ->
  N.of_nat (length xs) < 1152921504606846976 ->
  (meta = None \/ exists m0, meta = Some m0 /\
     (fm_count m0 <> N.of_nat (length xs) \/ for_analyze xs = Some m0)) ->
  N.of_nat (length xs) <= cap ->
  exists enc meta', for_encode xs meta = Some (enc, meta') /\
    for_decode (enc ++ post) cap = Some (N.of_nat (length xs), xs) /\
    for_batch_decode (enc ++ post) cap = Some (N.of_nat (length xs), xs).
Proof.
  intros Hne Hall Hn Hacc Hcap.
  destruct (for_encode_accepted xs meta Hne Hall Hacc) as (m & Ha & He).
  pose proof (for_analyze_fits xs m Hall Ha) as F.
  eexists. eexists. split; [exact He|].
  assert (D : for_decode (for_bytes m xs ++ post) cap = Some (N.of_nat (length xs), xs))
    by (apply for_decode_bytes; try assumption; lia).
  split; [exact D|].
  unfold for_batch_decode. rewrite for_read_metadata_enc by (try assumption; lia).
  cbv zeta. cbn [fm_count]. destruct F as (_ & Hc & _ & _).
  destruct (cap <? fm_count m) eqn:E; [lia|exact D].
Qed.

Theorem for_batch_encode_same xs meta : for_batch_encode xs meta = for_encode xs meta.
Proof. reflexivity. Qed.

Theorem for_get_at_ok xs meta post i :
  xs <> [] -> Forall (fun x => x < 18446744073709551616) xs ->
  N.of_nat (length xs) < 1152921504606846976 ->
  (meta = None \/ exists m0, meta = Some m0 /\
     (fm_count m0 <> N.of_nat (length xs) \/ for_analyze xs = Some m0)) ->
  (i < length xs)%nat ->
  exists enc meta', for_encode xs meta = Some (enc, meta') /\
    for_get_at (enc ++ post) (N.of_nat i) = Some (nth i xs 0).
Proof.
  intros Hne Hall Hn Hacc Hi.
  destruct (for_encode_accepted xs meta Hne Hall Hacc) as (m & Ha & He).
  pose proof (for_analyze_fits xs m Hall Ha) as F.
  eexists. eexists. split; [exact He|]. apply for_get_at_bytes; assumption.
Qed.

Theorem for_decode_block_ok xs meta post start block :
  xs <> [] -> Forall (fun x => x < 18446744073709551616) xs ->
  N.of_nat (length xs) < 1152921504606846976 ->
  (meta = None \/ exists m0, meta = Some m0 /\
     (fm_count m0 <> N.of_nat (length xs) \/ for_analyze xs = Some m0)) ->
  start + block < 18446744073709551616 ->
  exists enc meta', for_encode xs meta = Some (enc, meta') /\
    for_decode_block (enc ++ post) start block
    = Some (N.of_nat (length (firstn (N.to_nat block) (skipn (N.to_nat start) xs))),
            firstn (N.to_nat block) (skipn (N.to_nat start) xs)).
Proof.
  intros Hne Hall Hn Hacc Hsb.
  destruct (for_encode_accepted xs meta Hne Hall Hacc) as (m & Ha & He).
  pose proof (for_analyze_fits xs m Hall Ha) as F.
  eexists. eexists. split; [exact He|]. apply for_decode_block_bytes; assumption.
Qed.

(* C03 *)
Theorem for_size_exact xs meta enc meta' :
  xs <> [] -> Forall (fun x => x < 18446744073709551616) xs ->
  N.of_nat (length xs) < 1152921504606846976 ->
  (meta = None \/ exists m0, meta = Some m0 /\
     (fm_count m0 <> N.of_nat (length xs) \/ for_analyze xs = Some m0)) ->
  for_encode xs meta = Some (enc, meta') ->
  exists m, for_analyze xs = Some m /\ for_size m = N.of_nat (length enc) /\
            fm_size m = N.of_nat (length enc).
Proof.
  intros Hne Hall Hn Hacc He.
  destruct (for_encode_accepted xs meta Hne Hall Hacc) as (m & Ha & He').
  rewrite He in He'. inversion He'; subst enc meta'. clear He'.
  exists m. split; [exact Ha|].
  destruct (for_analyze_spec xs Hne Hall) as (m' & Ha' & _ & _ & _ & _ & Hc & _ & Hs & _).
  rewrite Ha in Ha'. inversion Ha'; subst m'.
  pose proof (for_analyze_fits xs m Hall Ha) as (_ & _ & W & _).
  assert (S : for_size m = N.of_nat (length (for_bytes m xs))).
  { apply (for_emit_size m xs); try assumption. apply for_emit_eq. exact W. }
  split; [exact S|]. rewrite Hs. exact S.
Qed.

(* a caller-provided meta with the right count is taken on trust: still, the
   encoder writes exactly varintFORSize(meta) bytes, whatever min and
   (supported) width it holds *)
Theorem for_size_exact_trusted xs m0 enc meta' :
  xs <> [] -> N.of_nat (length xs) < 1152921504606846976 ->
  fm_count m0 = N.of_nat (length xs) ->
  for_encode xs (Some m0) = Some (enc, meta') ->
  for_size m0 = N.of_nat (length enc) /\ meta' = Some m0.
Proof.
  intros Hne Hn Hc He. rewrite for_encode_trusted in He by assumption.
  destruct (for_emit m0 xs) as [bs|] eqn:E; [|discriminate].
  inversion He; subst. split; [|reflexivity].
  eapply for_emit_size; eassumption.
Qed.

(* C13: all byte strings z, all capacities *)
Lemma for_get_offsets_length minv w : forall n data out,
  for_get_offsets minv w data n = Some out -> length out = n.
Proof.
  induction n as [|n IH]; intros data out H.
  - cbn in H. inversion H. reflexivity.
  - cbn [for_get_offsets] in H.
    destruct (dfg_ext_get_quick data w); [|discriminate].
    destruct (for_get_offsets minv w (skipn (N.to_nat w) data) n) eqn:E; [|discriminate].
    inversion H. cbn [length]. f_equal. eapply IH. exact E.
Qed.

Theorem for_decode_cap z cap r out : for_decode z cap = Some (r, out) ->
  N.of_nat (length out) <= cap /\ r = N.of_nat (length out).
Proof.
  unfold for_decode. cbv zeta. remember (for_read_metadata z) as rm eqn:Erm. clear Erm.
  destruct (cap <? fm_count rm) eqn:E.
  - intro H. inversion H. cbn [length]. lia.
  - destruct (for_get_offsets _ _ _ _) as [vs|] eqn:G; [|discriminate].
    intro H. inversion H; subst. apply for_get_offsets_length in G. rewrite G, N2Nat.id. lia.
Qed.

Theorem for_decode_short z cap : cap < fm_count (for_read_metadata z) ->
  for_decode z cap = Some (0, []) /\ for_batch_decode z cap = Some (0, []).
Proof.
  intro H. unfold for_batch_decode, for_decode. cbv zeta.
  destruct (cap <? fm_count (for_read_metadata z)) eqn:E; [split; reflexivity|lia].
Qed.

Theorem for_batch_decode_cap z cap r out : for_batch_decode z cap = Some (r, out) ->
  N.of_nat (length out) <= cap /\ r = N.of_nat (length out).
Proof.
  unfold for_batch_decode. cbv zeta. destruct (cap <? fm_count (for_read_metadata z)) eqn:E.
  - intro H. inversion H. cbn [length]. lia.
  - apply for_decode_cap.
Qed.

Theorem for_decode_block_cap z start block r out :
  start < 18446744073709551616 -> block < 18446744073709551616 ->
  for_decode_block z start block = Some (r, out) ->
  N.of_nat (length out) <= block /\ r = N.of_nat (length out).
Proof.
  intros Hs Hb. unfold for_decode_block. cbv zeta.
  remember (for_read_metadata z) as rm eqn:Erm. clear Erm.
  destruct (fm_count rm <=? start) eqn:E.
  - intro H. inversion H. cbn [length]. lia.
  - destruct (for_get_offsets _ _ _ _) as [vs|] eqn:G; [|discriminate].
    intro H. inversion H; subst. apply for_get_offsets_length in G. rewrite G, N2Nat.id.
    split; [|reflexivity].
    destruct (fm_count rm <? add64 start block) eqn:E2; [|lia].
    unfold add64 in E2. lia.
Qed.

(* capacity below the element count of a valid encoding: all-or-nothing *)
Theorem for_decode_cap_valid xs meta post cap :
  xs <> [] -> Forall (fun x => x < 18446744073709551616) xs ->
  N.of_nat (length xs) < 1152921504606846976 ->
  (meta = None \/ exists m0, meta = Some m0 /\
     (fm_count m0 <> N.of_nat (length xs) \/ for_analyze xs = Some m0)) ->
  cap < N.of_nat (length xs) ->
  exists enc meta', for_encode xs meta = Some (enc, meta') /\
    for_decode (enc ++ post) cap = Some (0, []) /\ for_batch_decode (enc ++ post) cap = Some (0, []).
Proof.
  intros Hne Hall Hn Hacc Hcap.
  destruct (for_encode_accepted xs meta Hne Hall Hacc) as (m & Ha & He).
  pose proof (for_analyze_fits xs m Hall Ha) as F.
  eexists. eexists. split; [exact He|]. apply for_decode_short.
  rewrite for_read_metadata_enc by (try assumption; lia). cbn [fm_count].
  destruct F as (_ & -> & _ & _). exact Hcap.
Qed.

(* C16 *)
Theorem for_analyze_truth xs : xs <> [] -> Forall (fun x => x < 18446744073709551616) xs ->
  exists m, for_analyze xs = Some m /\ for_batch_analyze xs = Some m /\
    In (fm_min m) xs /\ In (fm_max m) xs /\
    (forall v, In v xs -> fm_min m <= v <= fm_max m) /\
    fm_range m = fm_max m - fm_min m /\
    fm_count m = N.of_nat (length xs) /\
    fm_width m = N.of_nat (ext_width (fm_range m)) /\
    fm_range m < 256 ^ fm_width m /\
    (fm_width m = 1 \/ 256 ^ (fm_width m - 1) <= fm_range m).
Proof.
  intros Hne Hall.
  destruct (for_analyze_spec xs Hne Hall) as (m & Ha & Imn & Imx & Hb & Hr & Hc & Hw & _ & Hmx).
  exists m. split; [exact Ha|]. split; [exact Ha|].
  split; [exact Imn|]. split; [exact Imx|]. split; [exact Hb|]. split; [exact Hr|].
  split; [exact Hc|]. split; [exact Hw|].
  assert (Hrng : fm_range m < 18446744073709551616) by lia.
  destruct (ext_width_bounds _ Hrng) as (A & B & C). rewrite Hw. split; [exact B|].
  destruct C as [C|C]; [left; lia|right].
  replace (N.of_nat (ext_width (fm_range m)) - 1) with (N.of_nat (ext_width (fm_range m) - 1)) by lia.
  exact C.
Qed.

Theorem for_meta_out_truth xs m0 enc meta' :
  xs <> [] -> Forall (fun x => x < 18446744073709551616) xs ->
  fm_count m0 <> N.of_nat (length xs) ->
  for_encode xs (Some m0) = Some (enc, meta') -> meta' = for_analyze xs.
Proof.
  intros Hne Hall Hst He.
  destruct (for_encode_accepted xs (Some m0) Hne Hall) as (m & Ha & He').
  { right. exists m0. split; [reflexivity|left; exact Hst]. }
  rewrite He in He'. inversion He'. rewrite Ha. reflexivity.
Qed.

Theorem for_header_truth xs meta post :
  xs <> [] -> Forall (fun x => x < 18446744073709551616) xs ->
  N.of_nat (length xs) < 1152921504606846976 ->
  (meta = None \/ exists m0, meta = Some m0 /\
     (fm_count m0 <> N.of_nat (length xs) \/ for_analyze xs = Some m0)) ->
  exists enc meta' m, for_encode xs meta = Some (enc, meta') /\ for_analyze xs = Some m /\
    let rm := for_read_metadata (enc ++ post) in
    fm_min rm = fm_min m /\ fm_count rm = N.of_nat (length xs) /\ fm_width rm = fm_width m /\
    fm_size rm = N.of_nat (length enc) /\
    for_get_min_value (enc ++ post) = fm_min m /\
    for_get_count (enc ++ post) = N.of_nat (length xs) /\
    for_get_offset_width (enc ++ post) = fm_width m.
Proof.
  intros Hne Hall Hn Hacc.
  destruct (for_encode_accepted xs meta Hne Hall Hacc) as (m & Ha & He).
  pose proof (for_analyze_fits xs m Hall Ha) as F.
  eexists. eexists. exists m. split; [exact He|]. split; [exact Ha|].
  cbv zeta. rewrite for_read_metadata_enc by (try assumption; lia).
  cbn [fm_min fm_count fm_width fm_size].
  pose proof (fits_width_small m xs F) as Ws.
  destruct F as (Hm & Hc & W & _).
  split; [reflexivity|]. split; [exact Hc|]. split; [reflexivity|]. split.
  { change (for_size m = N.of_nat (length (for_bytes m xs))).
    apply (for_emit_size m xs); try assumption. apply for_emit_eq. exact W. }
  rewrite for_bytes_app.
  assert (Hcn : fm_count m < 18446744073709551616) by lia.
  unfold for_get_min_value, for_get_count, for_get_offset_width.
  rewrite !tagged_get64_put by exact Hm. cbn [fst snd].
  split; [reflexivity|]. split.
  - replace (N.to_nat (tagged_len (fm_min m) + 1)) with (N.to_nat (tagged_len (fm_min m)) + 1)%nat by lia.
    rewrite skipn_add, skipn_app_exact by apply tagged_put_len_nat.
    cbn [app skipn]. rewrite tagged_get64_put by exact Hcn. cbn [snd]. exact Hc.
  - unfold byte_at. rewrite app_nth2 by (rewrite tagged_put_len_nat; lia).
    rewrite tagged_put_len_nat, Nat.sub_diag. cbn [app nth]. unfold u8. lia.
Qed.
