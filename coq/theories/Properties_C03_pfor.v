(* Properties_C03_pfor.v — placeholder, theorems follow *)
Require Import VV.Base VV.Tagged VV.PFOR.
