(* Properties_C03_pfor.v — property C03 for varintPFOR: the bytes written by
   varintPFOREncode never exceed varintPFORSize of the metadata computed by
   varintPFORComputeThreshold on the same input, with equality when there are
   no exceptions.  Every threshold, every array with 1 <= length < 2^32. *)
Require Import VV.Base VV.Tagged VV.PFOR VV.PFORTheorems VVgen.Consts.
Local Open Scope N_scope.

Theorem C03_pfor_size_bound : forall xs thr,
  (1 <= length xs)%nat -> N.of_nat (length xs) < 4294967296 ->
  Forall (fun x => x < 18446744073709551616) xs ->
  N.of_nat (length (pfor_encode_bytes xs thr)) <= pfor_size (pfor_compute_threshold xs thr).
Proof. exact pfor_size_bound. Qed.
Print Assumptions C03_pfor_size_bound.

Theorem C03_pfor_size_exact : forall xs thr,
  (1 <= length xs)%nat -> N.of_nat (length xs) < 4294967296 ->
  Forall (fun x => x < 18446744073709551616) xs ->
  pm_exc (pfor_compute_threshold xs thr) = 0 ->
  N.of_nat (length (pfor_encode_bytes xs thr)) = pfor_size (pfor_compute_threshold xs thr).
Proof. exact pfor_size_exact. Qed.
Print Assumptions C03_pfor_size_exact.

(* non-vacuity: an array with one late outlier (strictly below the bound) and
   an exception-free one (exact) *)
Example C03_pfor_example :
  N.of_nat (length (pfor_encode_bytes [1; 2; 3; 4; 5; 6; 7; 8; 9; 10; 11; 12; 13; 14; 15; 16; 17; 18; 19; 20; 1000000] VARINT_PFOR_THRESHOLD_95)) = 30 /\
  pfor_size (pfor_compute_threshold [1; 2; 3; 4; 5; 6; 7; 8; 9; 10; 11; 12; 13; 14; 15; 16; 17; 18; 19; 20; 1000000] VARINT_PFOR_THRESHOLD_95) = 35 /\
  N.of_nat (length (pfor_encode_bytes [7; 7; 7] VARINT_PFOR_THRESHOLD_90)) = 7 /\
  pfor_size (pfor_compute_threshold [7; 7; 7] VARINT_PFOR_THRESHOLD_90) = 7.
Proof. vm_compute. repeat split; reflexivity. Qed.
