(* RleSrc2Header.v — C13 about the regenerated varintRLEDecodeWithHeader
   (coq/gen/Src_rle.v).  Its loop `while (decoded < totalCount && decoded < maxCount)`
   does not advance `decoded` on a run of length 0, so on hostile bytes the number
   of iterations is not bounded by the capacity: the statement is per fuel (= number
   of iterations looked at), with 18 readable bytes per iteration. *)
Require Import VV.Base VV.BaseProofs VV.Tagged VV.TaggedProofs VV.TaggedFixed VV.CSem VV.CSemProofs
  VV.TaggedSrcGet VV.TaggedSrcAdd VV.RLE VV.RleSrcProofs VV.RleSrc2Lemmas.
Require Import VVgen.Src_tagged VVgen.Src_rle.
From Coq Require Import Lia ZifyBool ZifyN ZifyNat.
Local Open Scope Z_scope.
Ltac Zify.zify_post_hook ::= Z.div_mod_to_equations.

(* an invariant that may mention the fuel that is left; an iteration may itself
   run out of fuel (a nested loop): the loop ends in Q or runs out of fuel *)
Lemma c_while_inv_fuel {S R} (I : nat -> S -> Prop) (Q : lstep S R -> Prop) (step : S -> cres (lstep S R)) :
  (forall k s, I (Datatypes.S k) s -> step s = CFuel \/ exists r, step s = COk r /\
     match r with LNext s' => I k s' | _ => Q r end) ->
  forall fuel s, I fuel s ->
    c_while fuel step s = CFuel \/ exists r, c_while fuel step s = COk r /\ Q r.
Proof.
  intros H fuel. induction fuel as [|f IH]; intros s Hs; [left; reflexivity|].
  cbn [c_while]. destruct (H f s Hs) as [E|(r & E & P)]; rewrite E; cbn [bind]; [left; reflexivity|].
  destruct r as [s'|s'|r'].
  - apply IH. exact P.
  - right. eexists. split; [reflexivity|exact P].
  - right. eexists. split; [reflexivity|exact P].
Qed.

Definition hdr_inner_step : Z * option Z * Z * Z * option Z * list Z -> cres (lstep (Z * option Z * Z * Z * option Z * list Z) (Z * list Z)) :=
  ltac:(let t := eval cbv beta delta [src_varintRLEDecodeWithHeader] in src_varintRLEDecodeWithHeader in
        match t with context [@c_while _ _ _ ?st] =>
          let T := type of st in
          lazymatch T with (Z * option Z * Z * Z * option Z * list Z)%type -> _ => exact st end end).

Definition hdr_outer_step (fuel : nat) (z : list N) : Z * option Z * Z * Z * list Z -> cres (lstep (Z * option Z * Z * Z * list Z) (Z * list Z)) :=
  ltac:(let t := eval cbv beta delta [src_varintRLEDecodeWithHeader] in (src_varintRLEDecodeWithHeader fuel z) in
        match t with context [@c_while _ _ _ ?st] =>
          let T := type of st in
          lazymatch T with (Z * option Z * Z * Z * list Z)%type -> _ => exact st end end).

(* ---------- the inner `for (i = 0; i < runLen && decoded < maxCount; i++) values[decoded++] = value` ---------- *)

Lemma hdr_inner_step_ok i rl d (cap : nat) x m :
  0 <= d <= Z.of_nat cap -> Z.of_nat cap < 18446744073709551616 -> length m = cap ->
  exists r, hdr_inner_step (i, Some rl, d, Z.of_nat cap, Some x, m) = COk r /\
    match r with
    | LNext (i', rl', d', c', x', m') => rl' = Some rl /\ d' = d + 1 /\ d' <= Z.of_nat cap /\ c' = Z.of_nat cap /\ x' = Some x /\ length m' = cap
    | LBreak s' => s' = (i, Some rl, d, Z.of_nat cap, Some x, m)
    | LRet _ => False
    end.
Proof.
  intros Hd Hcap Hm. unfold hdr_inner_step. cbv beta iota. unfold c_zstore. c_unfold. repeat c_step. all: c_simp.
  all: eexists; (split; [reflexivity|]); cbv beta iota; rewrite ?zupd_length, ?Z.mod_small by lia;
    repeat split; try lia; try assumption.
Qed.

(* the whole inner loop, for every fuel: out of fuel, or it leaves with
   d <= decoded' <= cap and a list of the same length *)
Lemma hdr_inner_loop fuel i rl d (cap : nat) x m :
  0 <= d <= Z.of_nat cap -> Z.of_nat cap < 18446744073709551616 -> length m = cap ->
  c_while fuel hdr_inner_step (i, Some rl, d, Z.of_nat cap, Some x, m) = CFuel \/
  exists i' d' m', c_while fuel hdr_inner_step (i, Some rl, d, Z.of_nat cap, Some x, m)
      = COk (LBreak (i', Some rl, d', Z.of_nat cap, Some x, m')) /\
    d <= d' <= Z.of_nat cap /\ length m' = cap.
Proof.
  intros Hd Hcap Hm.
  pose (Inv := fun s : Z * option Z * Z * Z * option Z * list Z =>
     let '(i', rl', d', c', x', m') := s in
     rl' = Some rl /\ d <= d' <= Z.of_nat cap /\ c' = Z.of_nat cap /\ x' = Some x /\ length m' = cap).
  pose (Q := fun r : lstep (Z * option Z * Z * Z * option Z * list Z) (Z * list Z) =>
     exists i' d' m', r = LBreak (i', Some rl, d', Z.of_nat cap, Some x, m') /\ d <= d' <= Z.of_nat cap /\ length m' = cap).
  pose (ms := fun s : Z * option Z * Z * Z * option Z * list Z =>
     let '(_, _, d', _, _, _) := s in Z.to_nat (Z.of_nat cap - d')).
  assert (Hstep : forall s, Inv s -> exists r, hdr_inner_step s = COk r /\
            match r with LNext s' => Inv s' /\ (ms s' < ms s)%nat | _ => Q r end).
  { intros [[[[[i1 rl1] d1] c1] x1] m1] (-> & Hd1 & -> & -> & Hm1).
    destruct (hdr_inner_step_ok i1 rl d1 cap x m1 ltac:(lia) Hcap Hm1) as (r & E & P).
    exists r. split; [exact E|].
    destruct r as [[[[[[i2 rl2] d2] c2] x2] m2]|s2|r]; [| |contradiction].
    - destruct P as (-> & -> & P3 & -> & -> & P6). unfold Inv, ms. repeat split; try lia; assumption.
    - subst s2. exists i1, d1, m1. repeat split; try lia; assumption. }
  destruct (c_while_inv Inv Q ms hdr_inner_step Hstep fuel (i, Some rl, d, Z.of_nat cap, Some x, m)) as [A _].
  { unfold Inv. repeat split; try lia; assumption. }
  destruct A as [A|(r & A & (i' & d' & m' & -> & P))]; [left; exact A|right].
  exists i', d', m'. split; [exact A|exact P].
Qed.

(* ---------- one iteration of the outer loop ---------- *)

Ltac run_hdr_inner cap :=
  match goal with
  | |- context [c_while ?fuel hdr_inner_step (?i0, Some ?rl, ?d, _, Some ?x, ?m)] =>
      let i' := fresh "i'" in let d' := fresh "d'" in let m' := fresh "m'" in
      let E := fresh "E" in let L := fresh "L" in
      destruct (hdr_inner_loop fuel i0 rl d cap x m) as [E|(i' & d' & m' & E & L)]; [lia|lia|assumption| |];
      rewrite E; clear E
  end.

(* stated for an arbitrary predicate P on the outcome, so that the generated term appears once *)
Lemma hdr_outer_step_ok fuel z d t (cap : nat) p m : bytes_ok z ->
  0 <= d <= Z.of_nat cap -> Z.of_nat cap < 18446744073709551616 -> length m = cap ->
  0 <= p -> p + 18 <= Z.of_nat (length z) ->
  forall P : cres (lstep (Z * option Z * Z * Z * list Z) (Z * list Z)) -> Prop,
  P CFuel ->
  (forall r,
    match r with
    | LNext (d', t', c', p', m') => d <= d' <= Z.of_nat cap /\ t' = Some t /\ c' = Z.of_nat cap /\ p + 2 <= p' <= p + 18 /\ length m' = cap
    | LBreak s' => s' = (d, Some t, Z.of_nat cap, p, m)
    | LRet _ => False
    end -> P (COk r)) ->
  P (hdr_outer_step fuel z (d, Some t, Z.of_nat cap, p, m)).
Proof.
  intros Hz Hd Hcap Hm Hp Hr P PF PK.
  unfold hdr_outer_step. fold hdr_inner_step. cbv beta iota.
  assert (Hv : bytes_ok (skipn (Z.to_nat p) z)) by (apply bytes_ok_skipn; exact Hz).
  destruct (src_varintRLEDecodeRun_total (skipn (Z.to_nat p) z) None None Hv) as (c & r & x & E & Hc & Hr' & Hx & _).
  { rewrite skipn_length. lia. }
  c_unfold.
  repeat (first [rewrite E; c_simp | run_hdr_inner cap | c_step]). all: c_simp.
  all: first [exact PF | apply PK; cbv beta iota; repeat split; try lia; try assumption; try reflexivity].
Qed.

(* ---------- the loop ---------- *)

Lemma hdr_outer_loop fuel0 z t (cap : nat) : bytes_ok z -> Z.of_nat cap < 18446744073709551616 ->
  forall fuel d p m, 0 <= d <= Z.of_nat cap -> length m = cap -> 0 <= p ->
  p + 18 * Z.of_nat fuel <= Z.of_nat (length z) ->
  c_while fuel (hdr_outer_step fuel0 z) (d, Some t, Z.of_nat cap, p, m) = CFuel \/
  exists d' t' c' p' m', c_while fuel (hdr_outer_step fuel0 z) (d, Some t, Z.of_nat cap, p, m)
      = COk (LBreak (d', t', c', p', m')) /\ 0 <= d' <= Z.of_nat cap /\ length m' = cap.
Proof.
  intros Hz Hcap fuel d p m Hd Hm Hp Hr.
  pose (Inv := fun (k : nat) (s : Z * option Z * Z * Z * list Z) => let '(d1, t1, c1, p1, m1) := s in
     0 <= d1 <= Z.of_nat cap /\ t1 = Some t /\ c1 = Z.of_nat cap /\ 0 <= p1 /\
     p1 + 18 * Z.of_nat k <= Z.of_nat (length z) /\ length m1 = cap).
  pose (Q := fun r : lstep (Z * option Z * Z * Z * list Z) (Z * list Z) =>
     exists d' t' c' p' m', r = LBreak (d', t', c', p', m') /\ 0 <= d' <= Z.of_nat cap /\ length m' = cap).
  destruct (c_while_inv_fuel Inv Q (hdr_outer_step fuel0 z)) with (fuel := fuel) (s := (d, Some t, Z.of_nat cap, p, m))
    as [A|(r & A & (d' & t' & c' & p' & m' & -> & P))].
  - intros k [[[[d1 t1] c1] p1] m1] (Hd1 & -> & -> & Hp1 & Hr1 & Hm1).
    apply (hdr_outer_step_ok fuel0 z d1 t cap p1 m1 Hz Hd1 Hcap Hm1 Hp1 ltac:(lia)); [left; reflexivity|].
    intros r P. right. exists r. split; [reflexivity|].
    destruct r as [[[[[d2 t2] c2] p2] m2]|s2|r]; [| |contradiction].
    + destruct P as (P1 & -> & -> & P4 & P5). unfold Inv. repeat split; try lia; assumption.
    + subst s2. exists d1, (Some t), (Z.of_nat cap), p1, m1. repeat split; try lia; assumption.
  - unfold Inv. repeat split; try lia; assumption.
  - left. exact A.
  - right. exists d', t', c', p', m'. split; [exact A|exact P].
Qed.

(* ---------- C13 for the regenerated varintRLEDecodeWithHeader ---------- *)

(* header count above the capacity: returns 0 and the output list is untouched *)
Lemma src_varintRLEDecodeWithHeader_nothing : forall fuel z vals cap,
  bytes_ok z -> 9 <= Z.of_nat (length z) -> 0 <= cap < Z.of_N (snd (tagged_get64 z)) ->
  src_varintRLEDecodeWithHeader fuel z vals cap = COk (0, vals).
Proof.
  intros fuel z vals cap Hz Hl Hc.
  pose proof (tagged_getlen_range z Hz) as G.
  destruct (get64_complete z Hz ltac:(lia)) as (E1 & F1 & _).
  unfold src_varintRLEDecodeWithHeader. fold (hdr_outer_step fuel z).
  c_unfold. repeat (first [rewrite E1; c_simp | c_step; cbn [skipn]]). c_simp. reflexivity.
Qed.

(* ANY bytes z, ANY output list of exactly cap elements, ANY fuel, 9 + 18 * fuel
   readable bytes (header + two tagged varints per iteration looked at): the
   outcome is a count n <= cap with a list of the same length, or "out of fuel" —
   never COob: none of the first `fuel` iterations stores at or beyond cap *)
Lemma src_varintRLEDecodeWithHeader_cap : forall fuel z vals (cap : nat),
  bytes_ok z -> length vals = cap -> Z.of_nat cap < 18446744073709551616 ->
  9 + 18 * Z.of_nat fuel <= Z.of_nat (length z) ->
  src_varintRLEDecodeWithHeader fuel z vals (Z.of_nat cap) = CFuel \/
  exists n vals', src_varintRLEDecodeWithHeader fuel z vals (Z.of_nat cap) = COk (n, vals') /\
    0 <= n <= Z.of_nat cap /\ length vals' = cap.
Proof.
  intros fuel z vals cap Hz Hl Hcap Hlen.
  pose proof (tagged_getlen_range z Hz) as G.
  destruct (get64_complete z Hz ltac:(lia)) as (E1 & F1 & _).
  pose proof (tagged_get_val_lt z 9 Hz) as V1. fold (tagged_get64 z) in V1.
  set (res := src_varintRLEDecodeWithHeader fuel z vals (Z.of_nat cap)).
  assert (K : forall P : cres (Z * list Z) -> Prop, P CFuel ->
            (forall n vals', 0 <= n <= Z.of_nat cap -> length vals' = cap -> P (COk (n, vals'))) -> P res).
  { intros P PF PK. subst res.
    unfold src_varintRLEDecodeWithHeader. fold (hdr_outer_step fuel z).
    c_unfold. repeat (first [rewrite E1; c_simp | c_step; cbn [skipn]]). all: c_simp.
    all: try (apply PK; [lia|exact Hl]).
    change (0 mod 18446744073709551616) with 0.
    destruct (hdr_outer_loop fuel z (Z.of_N (snd (tagged_get64 z))) cap Hz Hcap fuel 0
               (0 + Z.of_N (fst (tagged_get64 z))) vals ltac:(lia) Hl ltac:(lia) ltac:(lia))
      as [A|(d' & t' & c' & p' & m' & A & P1 & P2)]; rewrite A; [exact PF|].
    apply PK; assumption. }
  apply K; [left; reflexivity|].
  intros n vals' Hn Hv. right. exists n, vals'. split; [reflexivity|]. split; assumption.
Qed.
