(* Properties_C03_elias_src.v — property C03 (encoders never write more than their
   advertised size), Elias part, with the advertised size taken from
   src_varintEliasGammaMaxBytes / src_varintEliasDeltaMaxBytes: the Gallina renderings
   that gen/c2coq.py regenerates from the CURRENT src/varintElias.h on every run
   (coq/gen/Src_leaf_elias.v; meaning of the c_* operations: CSem.v).  C integer
   values are Z; `COk v` = the C abstract machine yields v.  The array encoders are
   the hand models of Elias.v.  Nothing but statements closed by `exact`. *)
Require Import VV.Base VV.EliasBits VV.Elias VV.EliasSpec VV.CSem VV.LeafSrcElias VV.LeafSrcEliasProps.
Require Import VVgen.Src_leaf_elias.
Local Open Scope N_scope.

(* the regenerated functions compute the hand model, all 2^64 counts (size_t wrap included) *)
Theorem C03_src_varintEliasGammaMaxBytes_is_model : forall c, (0 <= c < 18446744073709551616)%Z ->
  src_varintEliasGammaMaxBytes c = COk (Z.of_N (elias_gamma_max_bytes (Z.to_N c))).
Proof. exact src_varintEliasGammaMaxBytes_is_model. Qed.
Print Assumptions C03_src_varintEliasGammaMaxBytes_is_model.

Theorem C03_src_varintEliasDeltaMaxBytes_is_model : forall c, (0 <= c < 18446744073709551616)%Z ->
  src_varintEliasDeltaMaxBytes c = COk (Z.of_N (elias_delta_max_bytes (Z.to_N c))).
Proof. exact src_varintEliasDeltaMaxBytes_is_model. Qed.
Print Assumptions C03_src_varintEliasDeltaMaxBytes_is_model.

(* the encoder touches exactly the mb = MaxBytes(count) bytes it zeroes, places no bit beyond
   them, and returns a length <= mb equal to the number of bytes holding code bits *)
Theorem C03_src_gamma_encode_bound : forall xs,
  Forall (fun x => 1 <= x < 18446744073709551616) xs ->
  N.of_nat (length xs) < 144115188075855872 ->
  let e := elias_gamma_encode_array xs in
  exists mb, src_varintEliasGammaMaxBytes (Z.of_nat (length xs)) = COk (Z.of_N mb) /\
    ee_extent e = mb /\ ee_ovf e = false /\ ee_ret e <= mb /\ N.of_nat (length (ee_bytes e)) = ee_ret e.
Proof. exact src_gamma_encode_bound. Qed.
Print Assumptions C03_src_gamma_encode_bound.

Theorem C03_src_delta_encode_bound : forall xs,
  Forall (fun x => 1 <= x < 18446744073709551616) xs ->
  N.of_nat (length xs) < 144115188075855872 ->
  let e := elias_delta_encode_array xs in
  exists mb, src_varintEliasDeltaMaxBytes (Z.of_nat (length xs)) = COk (Z.of_N mb) /\
    ee_extent e = mb /\ ee_ovf e = false /\ ee_ret e <= mb /\ N.of_nat (length (ee_bytes e)) = ee_ret e.
Proof. exact src_delta_encode_bound. Qed.
Print Assumptions C03_src_delta_encode_bound.

(* the per-value constants behind the bound: a gamma code has at most 127 bits, a delta code at
   most 76, so c codes as long as that of any x fit in the mb = MaxBytes(c) bytes advertised *)
Theorem C03_src_gamma_code_le_127 : forall x c, 1 <= x < 18446744073709551616 -> c < 144115188075855872 ->
  exists mb, src_varintEliasGammaMaxBytes (Z.of_N c) = COk (Z.of_N mb) /\
    N.of_nat (length (gamma_code x)) <= 127 /\
    (c * N.of_nat (length (gamma_code x)) + 7) / 8 <= mb.
Proof. exact src_gamma_code_fits. Qed.
Print Assumptions C03_src_gamma_code_le_127.

Theorem C03_src_delta_code_le_76 : forall x c, 1 <= x < 18446744073709551616 -> c < 144115188075855872 ->
  exists mb, src_varintEliasDeltaMaxBytes (Z.of_N c) = COk (Z.of_N mb) /\
    N.of_nat (length (delta_code x)) <= 76 /\
    (c * N.of_nat (length (delta_code x)) + 7) / 8 <= mb.
Proof. exact src_delta_code_fits. Qed.
Print Assumptions C03_src_delta_code_le_76.

(* non-vacuity: the regenerated functions on concrete counts; a single maximal value fills
   the advertised 16 / 10 bytes exactly *)
Example C03_src_elias_example :
  src_varintEliasGammaMaxBytes 1 = COk 16%Z /\ src_varintEliasDeltaMaxBytes 1 = COk 10%Z /\
  src_varintEliasGammaMaxBytes 1000 = COk 15875%Z /\
  ee_ret (elias_gamma_encode_array [18446744073709551615]) = 16 /\
  ee_ret (elias_delta_encode_array [18446744073709551615]) = 10.
Proof. vm_compute. repeat split; reflexivity. Qed.
