(* Properties_C17_codecs2.v — C17 (stateless codecs are safe to call
   concurrently), second set of codec instances of the interleaving theorem
   (Properties_C17.v; generic call form in Properties_C17_codecs.v): the group
   codec, PFOR, BP128 (32/64-bit, plain and delta), the float codec, the
   adaptive container, and the in-place accessors of packed arrays and
   bitstreams on disjoint storage.

   As in Properties_C17_codecs.v a call is a program (Conc.v: threads of atomic
   reads and writes over one shared memory, every schedule) that reads every
   cell of its input region, computes with the pure model function of the
   codec, writes its whole output cell by cell and returns.  For every family,
   ANY number of threads, EVERY schedule: no two threads ever race, and a call
   that has finished returned what the model function returns on the INITIAL
   contents of its inputs (shareable with any other call) and left exactly its
   output at its destination — provided only that the destination WINDOWS
   [dst, dst + bound) are pairwise disjoint and meet nobody's inputs, `bound`
   being the proven footprint of the codec (C03 encoder bounds, C13 decoder
   capacities).

   Packed arrays and bitstreams are written in place: a call READS AND WRITES
   exactly the slots / words its model names as touched (C09
   packed_set_touched, C11_access_exact), and the hypothesis is that no two
   calls share a slot.  Calls on different elements of the SAME slot are NOT
   covered and do race (C17_packed_same_slot_races, C17_bitstream_same_word_races).

   Nothing but statements closed by `exact`, each followed by Print
   Assumptions, and vm_compute examples. *)
Require Import VV.Conc VV.ConcProofs VV.ConcCodec VV.ConcCodec2 VV.ConcArray.
Require Import VV.ConcArray2Group VV.ConcArray2Pfor VV.ConcArray2Bp128 VV.ConcArray2Float VV.ConcArray2Adaptive.
Require Import VV.ConcPacked VV.ConcPackedBits VV.ConcArray2Examples.
Require Import VV.Base VV.Group VV.PFOR VV.BP128 VV.Float VV.Adaptive VV.Packed VV.PackedProofs VV.Bitstream.
From Coq Require Import List NArith ZArith.
Import ListNotations.
Local Open Scope N_scope.

(* ---------------------------------------------------------------- vocabulary
   the definitions the statements use, spelled out (each closed by
   reflexivity); prog1 / peek / in_range / mem_list / rr are spelled out in
   Properties_C17_codecs.v (C17_vocabulary_programs) *)
Example C17_vocabulary_functions2 :
  (forall n, group_max_size n = 1 + group_bitmap_size n + 8 * n) /\
  (forall vs, group_enc_fn vs =
     match group_encode (map u64 vs) (N.of_nat (length vs)) with
     | Some bs => (bs, [1; N.of_nat (length bs)]) | None => ([], [0]) end) /\
  (forall cap bs, group_dec_fn cap bs =
     match group_decode bs cap with
     | Some (r, fc, out) => (out, [1; r] ++ ret_opt fc) | None => ([], [0]) end) /\
  (forall idx bs, group_get_field_fn idx bs =
     ([], match group_get_field bs idx with Some (r, v) => [1; r] ++ ret_opt v | None => [0] end)) /\
  (forall count, pfor_max_size count = 20 + 22 * count) /\
  (forall thr vs, pfor_enc_fn thr vs =
     (fst (pfor_encode (map u64 vs) thr),
      [N.of_nat (length (fst (pfor_encode (map u64 vs) thr)));
       pm_width (snd (pfor_encode (map u64 vs) thr)); pm_exc (snd (pfor_encode (map u64 vs) thr))])) /\
  (forall m bs, pfor_dec_fn m bs =
     match pfor_decode (map u8 bs) m with
     | POk (vals, m') => (vals, [1; N.of_nat (length vals); pm_exc m'])
     | POob => ([], [2]) | PUB => ([], [0]) | PFuel => ([], [3]) end) /\
  (forall im bs, pfor_get_at_fn im bs =
     ([], match pfor_get_at (map u8 bs) (fst im) (snd im) with
          | POk v => [1; v] | POob => [2] | PUB => [0] | PFuel => [3] end)) /\
  (forall vs, bp128_enc32_fn vs = (encode32 (map u32 vs), [N.of_nat (length (encode32 (map u32 vs)))])) /\
  (forall vs, bp128_denc32_fn vs =
     (delta_encode32 (map u32 vs), [N.of_nat (length (delta_encode32 (map u32 vs)))])) /\
  (forall vs, bp128_enc64_fn vs = (encode64 (map u64 vs), [N.of_nat (length (encode64 (map u64 vs)))])) /\
  (forall vs, bp128_denc64_fn vs =
     (delta_encode64 (map u64 vs), [N.of_nat (length (delta_encode64 (map u64 vs)))])) /\
  (forall cap bs, bp128_dec32_fn cap bs =
     match decode32 (map u8 bs) cap with Some out => (out, [1; N.of_nat (length out)]) | None => ([], [0]) end) /\
  (forall cap bs, bp128_ddec32_fn cap bs =
     match delta_decode32 (map u8 bs) cap with Some out => (out, [1; N.of_nat (length out)]) | None => ([], [0]) end) /\
  (forall cap bs, bp128_dec64_fn cap bs =
     match decode64 (map u8 bs) cap with Some out => (out, [1; N.of_nat (length out)]) | None => ([], [0]) end) /\
  (forall cap bs, bp128_ddec64_fn cap bs =
     match delta_decode64 (map u8 bs) cap with Some out => (out, [1; N.of_nat (length out)]) | None => ([], [0]) end) /\
  (forall pm vs, float_enc_fn pm vs =
     (fl_encode (map u64 vs) (fst pm) (snd pm), [N.of_nat (length (fl_encode (map u64 vs) (fst pm) (snd pm)))])) /\
  (forall count bs, float_dec_fn count bs =
     match fl_decode (map u8 bs) count with Some (used, out) => (out, [1; used]) | None => ([], [0]) end) /\
  (forall r, adp_eres_out r =
     match r with AEOk b m => (b, [1; am_size m; am_type m]) | AEFail b => (b, [0]) | AEUB => ([], [2]) end) /\
  (forall vs, adaptive_enc_fn vs = adp_eres_out (adp_encode (map u64 vs))) /\
  (forall e vs, adaptive_enc_with_fn e vs = adp_eres_out (adp_encode_with (map u64 vs) e)) /\
  (forall cap bs, adaptive_dec_fn cap bs =
     match adp_decode (map u8 bs) cap with
     | ADOk r stores _ => (stores, [1; r]) | ADOob => ([], [2]) | ADUB => ([], [0]) | ADFuel => ([], [3]) end).
Proof. repeat split; intros; reflexivity. Qed.

(* in-place calls: the program reads the cells base + k (k in ks: one slot or
   two consecutive ones) and writes them back; its function places the slots
   read where the array has them (a slot cell holds x mod 2^S), applies the
   model operation, and returns the touched slots of the result *)
Example C17_vocabulary_slots :
  (forall base ks f, slots_prog base ks f = prog1 (base + hd 0 ks) (length ks) (base + hd 0 ks) f) /\
  (forall S ks bs, slots_view S ks bs = repeat 0 (N.to_nat (hd 0 ks)) ++ map (fun x => x mod 2 ^ S) bs) /\
  (forall ks a, slots_of ks a = map (fun k => nth (N.to_nat k) a 0) ks) /\
  (forall S ks op bs, slots_fn S ks op bs = (slots_of ks (op (slots_view S ks bs)), [])) /\
  (forall p, pc_slots p = snd (packed_set (pc_cfg p) [] (pc_i p) 0)) /\
  (forall c i o, pop_fn c i o =
     slots_fn (p_S c) (snd (packed_set c [] i 0))
       (fun a => match o with
                 | PSet v => fst (packed_set c a i v)
                 | PIncr d => fst (packed_set_incr c a i d)
                 | PHalf => fst (packed_set_half c a i)
                 end)) /\
  (forall p, bc_words p = map N.of_nat (bs_touched (bc_W p) (bc_off p) (bc_n p))) /\
  (forall W V off n v bs, bitstream_set_fn W V off n v bs =
     if bs_ok W V n
     then (slots_of (map N.of_nat (bs_touched W off n))
             (match bs_set W V (slots_view W (map N.of_nat (bs_touched W off n)) bs) off n v with
              | Some s' => s' | None => slots_view W (map N.of_nat (bs_touched W off n)) bs end), [1])
     else ([], [0])).
Proof. repeat split; intros; try reflexivity. destruct o; reflexivity. Qed.

(* ---------------------------------------------------------------- instances *)
(* varintGroupEncode on shared value arrays (fieldCount = the n values read): the window is
   the worst case 1 + varintGroupBitmapSize_(n) + 8 * n of varintGroupSize, which is exactly
   what the call writes (C03_group_size_exact; every normalised width is at most 8) *)
Theorem C17_group_encode_threads_safe :
  forall (ps : list io) (m0 : mem),
  (forall i j pi pj, i <> j -> nth_error ps i = Some pi -> nth_error ps j = Some pj ->
     forall l, in_range (io_dst pj) (N.to_nat (group_max_size (N.of_nat (io_n pj)))) l ->
       ~ in_range (io_dst pi) (N.to_nat (group_max_size (N.of_nat (io_n pi)))) l /\
       ~ in_range (io_src pi) (io_n pi) l) ->
  forall sched,
  let ths := map (fun p => prog1 (io_src p) (io_n p) (io_dst p) group_enc_fn) ps in
  ~ races (snd (crun sched (m0, ths))) /\
  forall i p r, nth_error ps i = Some p ->
    nth_error (snd (crun sched (m0, ths))) i = Some (Ret r) ->
    let res := group_enc_fn (peek m0 (io_src p) (io_n p)) in
    r = snd res /\
    forall j, (j < length (fst res))%nat ->
      fst (crun sched (m0, ths)) (io_dst p + N.of_nat j) = nth j (fst res) 0.
Proof. exact group_encode_threads_safe. Qed.
Print Assumptions C17_group_encode_threads_safe.

(* varintGroupDecode on shared encodings: the window is maxFields elements (C13_group_decode_cap) *)
Theorem C17_group_decode_threads_safe :
  forall (ps : list (io * N)) (m0 : mem),
  (forall i j pi pj, i <> j -> nth_error ps i = Some pi -> nth_error ps j = Some pj ->
     forall l, in_range (io_dst (fst pj)) (N.to_nat (snd pj)) l ->
       ~ in_range (io_dst (fst pi)) (N.to_nat (snd pi)) l /\
       ~ in_range (io_src (fst pi)) (io_n (fst pi)) l) ->
  forall sched,
  let ths := map (fun p => prog1 (io_src (fst p)) (io_n (fst p)) (io_dst (fst p)) (group_dec_fn (snd p))) ps in
  ~ races (snd (crun sched (m0, ths))) /\
  forall i p r, nth_error ps i = Some p ->
    nth_error (snd (crun sched (m0, ths))) i = Some (Ret r) ->
    let res := group_dec_fn (snd p) (peek m0 (io_src (fst p)) (io_n (fst p))) in
    r = snd res /\
    forall j, (j < length (fst res))%nat ->
      fst (crun sched (m0, ths)) (io_dst (fst p) + N.of_nat j) = nth j (fst res) 0.
Proof. exact group_decode_threads_safe. Qed.
Print Assumptions C17_group_decode_threads_safe.

(* varintGroupGetField readers on SHARED encodings: nothing is written, so no hypothesis on
   the placement at all *)
Theorem C17_group_get_field_threads_safe :
  forall (ps : list (io * N)) (m0 : mem),
  forall sched,
  let ths := map (fun p => prog1 (io_src (fst p)) (io_n (fst p)) (io_dst (fst p)) (group_get_field_fn (snd p))) ps in
  ~ races (snd (crun sched (m0, ths))) /\
  forall i p r, nth_error ps i = Some p ->
    nth_error (snd (crun sched (m0, ths))) i = Some (Ret r) ->
    r = snd (group_get_field_fn (snd p) (peek m0 (io_src (fst p)) (io_n (fst p)))).
Proof. exact group_get_field_threads_safe. Qed.
Print Assumptions C17_group_get_field_threads_safe.

(* varintPFOREncode (threshold = snd p) on shared value arrays: the window is the worst case
   20 + 22 * count of varintPFORSize over count < 2^32 values, above what the call writes
   (C03_pfor_size_bound) *)
Theorem C17_pfor_encode_threads_safe :
  forall (ps : list (io * N)) (m0 : mem),
  (forall p, In p ps -> io_n (fst p) <> 0%nat /\ N.of_nat (io_n (fst p)) < 4294967296) ->
  (forall i j pi pj, i <> j -> nth_error ps i = Some pi -> nth_error ps j = Some pj ->
     forall l, in_range (io_dst (fst pj)) (N.to_nat (pfor_max_size (N.of_nat (io_n (fst pj))))) l ->
       ~ in_range (io_dst (fst pi)) (N.to_nat (pfor_max_size (N.of_nat (io_n (fst pi))))) l /\
       ~ in_range (io_src (fst pi)) (io_n (fst pi)) l) ->
  forall sched,
  let ths := map (fun p => prog1 (io_src (fst p)) (io_n (fst p)) (io_dst (fst p)) (pfor_enc_fn (snd p))) ps in
  ~ races (snd (crun sched (m0, ths))) /\
  forall i p r, nth_error ps i = Some p ->
    nth_error (snd (crun sched (m0, ths))) i = Some (Ret r) ->
    let res := pfor_enc_fn (snd p) (peek m0 (io_src (fst p)) (io_n (fst p))) in
    r = snd res /\
    forall j, (j < length (fst res))%nat ->
      fst (crun sched (m0, ths)) (io_dst (fst p) + N.of_nat j) = nth j (fst res) 0.
Proof. exact pfor_encode_threads_safe. Qed.
Print Assumptions C17_pfor_encode_threads_safe.

(* varintPFORDecode with the caller's metadata (meta->width != 0) on shared encodings: the
   window is meta->count elements *)
Theorem C17_pfor_decode_threads_safe :
  forall (ps : list (io * pfor_meta)) (m0 : mem),
  (forall p, In p ps -> pm_width (snd p) <> 0) ->
  (forall i j pi pj, i <> j -> nth_error ps i = Some pi -> nth_error ps j = Some pj ->
     forall l, in_range (io_dst (fst pj)) (N.to_nat (pm_count (snd pj))) l ->
       ~ in_range (io_dst (fst pi)) (N.to_nat (pm_count (snd pi))) l /\
       ~ in_range (io_src (fst pi)) (io_n (fst pi)) l) ->
  forall sched,
  let ths := map (fun p => prog1 (io_src (fst p)) (io_n (fst p)) (io_dst (fst p)) (pfor_dec_fn (snd p))) ps in
  ~ races (snd (crun sched (m0, ths))) /\
  forall i p r, nth_error ps i = Some p ->
    nth_error (snd (crun sched (m0, ths))) i = Some (Ret r) ->
    let res := pfor_dec_fn (snd p) (peek m0 (io_src (fst p)) (io_n (fst p))) in
    r = snd res /\
    forall j, (j < length (fst res))%nat ->
      fst (crun sched (m0, ths)) (io_dst (fst p) + N.of_nat j) = nth j (fst res) 0.
Proof. exact pfor_decode_threads_safe. Qed.
Print Assumptions C17_pfor_decode_threads_safe.

(* varintPFORGetAt readers (index, metadata) on SHARED encodings: nothing is written *)
Theorem C17_pfor_get_at_threads_safe :
  forall (ps : list (io * (N * pfor_meta))) (m0 : mem),
  forall sched,
  let ths := map (fun p => prog1 (io_src (fst p)) (io_n (fst p)) (io_dst (fst p)) (pfor_get_at_fn (snd p))) ps in
  ~ races (snd (crun sched (m0, ths))) /\
  forall i p r, nth_error ps i = Some p ->
    nth_error (snd (crun sched (m0, ths))) i = Some (Ret r) ->
    r = snd (pfor_get_at_fn (snd p) (peek m0 (io_src (fst p)) (io_n (fst p)))).
Proof. exact pfor_get_at_threads_safe. Qed.
Print Assumptions C17_pfor_get_at_threads_safe.

(* varintBP128Encode32 (C03_bp128_encode32_bound) on shared value arrays: the window is
   varintBP128MaxBytes(count) bytes *)
Theorem C17_bp128_encode32_threads_safe :
  forall (ps : list io) (m0 : mem),
  (forall i j pi pj, i <> j -> nth_error ps i = Some pi -> nth_error ps j = Some pj ->
     forall l, in_range (io_dst pj) (N.to_nat (max_bytes (N.of_nat (io_n pj)))) l ->
       ~ in_range (io_dst pi) (N.to_nat (max_bytes (N.of_nat (io_n pi)))) l /\
       ~ in_range (io_src pi) (io_n pi) l) ->
  forall sched,
  let ths := map (fun p => prog1 (io_src p) (io_n p) (io_dst p) bp128_enc32_fn) ps in
  ~ races (snd (crun sched (m0, ths))) /\
  forall i p r, nth_error ps i = Some p ->
    nth_error (snd (crun sched (m0, ths))) i = Some (Ret r) ->
    let res := bp128_enc32_fn (peek m0 (io_src p) (io_n p)) in
    r = snd res /\
    forall j, (j < length (fst res))%nat ->
      fst (crun sched (m0, ths)) (io_dst p + N.of_nat j) = nth j (fst res) 0.
Proof. exact bp128_encode32_threads_safe. Qed.
Print Assumptions C17_bp128_encode32_threads_safe.

(* varintBP128DeltaEncode32 (C03_bp128_delta_encode32_bound) on shared value arrays: the window is
   varintBP128MaxBytes(count) bytes *)
Theorem C17_bp128_delta_encode32_threads_safe :
  forall (ps : list io) (m0 : mem),
  (forall i j pi pj, i <> j -> nth_error ps i = Some pi -> nth_error ps j = Some pj ->
     forall l, in_range (io_dst pj) (N.to_nat (max_bytes (N.of_nat (io_n pj)))) l ->
       ~ in_range (io_dst pi) (N.to_nat (max_bytes (N.of_nat (io_n pi)))) l /\
       ~ in_range (io_src pi) (io_n pi) l) ->
  forall sched,
  let ths := map (fun p => prog1 (io_src p) (io_n p) (io_dst p) bp128_denc32_fn) ps in
  ~ races (snd (crun sched (m0, ths))) /\
  forall i p r, nth_error ps i = Some p ->
    nth_error (snd (crun sched (m0, ths))) i = Some (Ret r) ->
    let res := bp128_denc32_fn (peek m0 (io_src p) (io_n p)) in
    r = snd res /\
    forall j, (j < length (fst res))%nat ->
      fst (crun sched (m0, ths)) (io_dst p + N.of_nat j) = nth j (fst res) 0.
Proof. exact bp128_delta_encode32_threads_safe. Qed.
Print Assumptions C17_bp128_delta_encode32_threads_safe.

(* varintBP128Encode64 (C03_bp128_encode64_bound) on shared value arrays: the window is
   varintBP128MaxBytes(count) bytes *)
Theorem C17_bp128_encode64_threads_safe :
  forall (ps : list io) (m0 : mem),
  (forall i j pi pj, i <> j -> nth_error ps i = Some pi -> nth_error ps j = Some pj ->
     forall l, in_range (io_dst pj) (N.to_nat (max_bytes (N.of_nat (io_n pj)))) l ->
       ~ in_range (io_dst pi) (N.to_nat (max_bytes (N.of_nat (io_n pi)))) l /\
       ~ in_range (io_src pi) (io_n pi) l) ->
  forall sched,
  let ths := map (fun p => prog1 (io_src p) (io_n p) (io_dst p) bp128_enc64_fn) ps in
  ~ races (snd (crun sched (m0, ths))) /\
  forall i p r, nth_error ps i = Some p ->
    nth_error (snd (crun sched (m0, ths))) i = Some (Ret r) ->
    let res := bp128_enc64_fn (peek m0 (io_src p) (io_n p)) in
    r = snd res /\
    forall j, (j < length (fst res))%nat ->
      fst (crun sched (m0, ths)) (io_dst p + N.of_nat j) = nth j (fst res) 0.
Proof. exact bp128_encode64_threads_safe. Qed.
Print Assumptions C17_bp128_encode64_threads_safe.

(* varintBP128DeltaEncode64 (C03_bp128_delta_encode64_bound) on shared value arrays: the window is
   varintBP128MaxBytes(count) bytes *)
Theorem C17_bp128_delta_encode64_threads_safe :
  forall (ps : list io) (m0 : mem),
  (forall i j pi pj, i <> j -> nth_error ps i = Some pi -> nth_error ps j = Some pj ->
     forall l, in_range (io_dst pj) (N.to_nat (max_bytes (N.of_nat (io_n pj)))) l ->
       ~ in_range (io_dst pi) (N.to_nat (max_bytes (N.of_nat (io_n pi)))) l /\
       ~ in_range (io_src pi) (io_n pi) l) ->
  forall sched,
  let ths := map (fun p => prog1 (io_src p) (io_n p) (io_dst p) bp128_denc64_fn) ps in
  ~ races (snd (crun sched (m0, ths))) /\
  forall i p r, nth_error ps i = Some p ->
    nth_error (snd (crun sched (m0, ths))) i = Some (Ret r) ->
    let res := bp128_denc64_fn (peek m0 (io_src p) (io_n p)) in
    r = snd res /\
    forall j, (j < length (fst res))%nat ->
      fst (crun sched (m0, ths)) (io_dst p + N.of_nat j) = nth j (fst res) 0.
Proof. exact bp128_delta_encode64_threads_safe. Qed.
Print Assumptions C17_bp128_delta_encode64_threads_safe.

(* varintBP128Decode32 (C13_bp128_decode32_within_cap) on shared encodings: the window is maxCount
   elements *)
Theorem C17_bp128_decode32_threads_safe :
  forall (ps : list (io * N)) (m0 : mem),
  (forall i j pi pj, i <> j -> nth_error ps i = Some pi -> nth_error ps j = Some pj ->
     forall l, in_range (io_dst (fst pj)) (N.to_nat (snd pj)) l ->
       ~ in_range (io_dst (fst pi)) (N.to_nat (snd pi)) l /\
       ~ in_range (io_src (fst pi)) (io_n (fst pi)) l) ->
  forall sched,
  let ths := map (fun p => prog1 (io_src (fst p)) (io_n (fst p)) (io_dst (fst p)) (bp128_dec32_fn (snd p))) ps in
  ~ races (snd (crun sched (m0, ths))) /\
  forall i p r, nth_error ps i = Some p ->
    nth_error (snd (crun sched (m0, ths))) i = Some (Ret r) ->
    let res := bp128_dec32_fn (snd p) (peek m0 (io_src (fst p)) (io_n (fst p))) in
    r = snd res /\
    forall j, (j < length (fst res))%nat ->
      fst (crun sched (m0, ths)) (io_dst (fst p) + N.of_nat j) = nth j (fst res) 0.
Proof. exact bp128_decode32_threads_safe. Qed.
Print Assumptions C17_bp128_decode32_threads_safe.

(* varintBP128DeltaDecode32 (C13_bp128_delta_decode32_within_cap) on shared encodings: the window is maxCount
   elements *)
Theorem C17_bp128_delta_decode32_threads_safe :
  forall (ps : list (io * N)) (m0 : mem),
  (forall i j pi pj, i <> j -> nth_error ps i = Some pi -> nth_error ps j = Some pj ->
     forall l, in_range (io_dst (fst pj)) (N.to_nat (snd pj)) l ->
       ~ in_range (io_dst (fst pi)) (N.to_nat (snd pi)) l /\
       ~ in_range (io_src (fst pi)) (io_n (fst pi)) l) ->
  forall sched,
  let ths := map (fun p => prog1 (io_src (fst p)) (io_n (fst p)) (io_dst (fst p)) (bp128_ddec32_fn (snd p))) ps in
  ~ races (snd (crun sched (m0, ths))) /\
  forall i p r, nth_error ps i = Some p ->
    nth_error (snd (crun sched (m0, ths))) i = Some (Ret r) ->
    let res := bp128_ddec32_fn (snd p) (peek m0 (io_src (fst p)) (io_n (fst p))) in
    r = snd res /\
    forall j, (j < length (fst res))%nat ->
      fst (crun sched (m0, ths)) (io_dst (fst p) + N.of_nat j) = nth j (fst res) 0.
Proof. exact bp128_delta_decode32_threads_safe. Qed.
Print Assumptions C17_bp128_delta_decode32_threads_safe.

(* varintBP128Decode64 (C13_bp128_decode64_within_cap) on shared encodings: the window is maxCount
   elements *)
Theorem C17_bp128_decode64_threads_safe :
  forall (ps : list (io * N)) (m0 : mem),
  (forall i j pi pj, i <> j -> nth_error ps i = Some pi -> nth_error ps j = Some pj ->
     forall l, in_range (io_dst (fst pj)) (N.to_nat (snd pj)) l ->
       ~ in_range (io_dst (fst pi)) (N.to_nat (snd pi)) l /\
       ~ in_range (io_src (fst pi)) (io_n (fst pi)) l) ->
  forall sched,
  let ths := map (fun p => prog1 (io_src (fst p)) (io_n (fst p)) (io_dst (fst p)) (bp128_dec64_fn (snd p))) ps in
  ~ races (snd (crun sched (m0, ths))) /\
  forall i p r, nth_error ps i = Some p ->
    nth_error (snd (crun sched (m0, ths))) i = Some (Ret r) ->
    let res := bp128_dec64_fn (snd p) (peek m0 (io_src (fst p)) (io_n (fst p))) in
    r = snd res /\
    forall j, (j < length (fst res))%nat ->
      fst (crun sched (m0, ths)) (io_dst (fst p) + N.of_nat j) = nth j (fst res) 0.
Proof. exact bp128_decode64_threads_safe. Qed.
Print Assumptions C17_bp128_decode64_threads_safe.

(* varintBP128DeltaDecode64 (C13_bp128_delta_decode64_within_cap) on shared encodings: the window is maxCount
   elements *)
Theorem C17_bp128_delta_decode64_threads_safe :
  forall (ps : list (io * N)) (m0 : mem),
  (forall i j pi pj, i <> j -> nth_error ps i = Some pi -> nth_error ps j = Some pj ->
     forall l, in_range (io_dst (fst pj)) (N.to_nat (snd pj)) l ->
       ~ in_range (io_dst (fst pi)) (N.to_nat (snd pi)) l /\
       ~ in_range (io_src (fst pi)) (io_n (fst pi)) l) ->
  forall sched,
  let ths := map (fun p => prog1 (io_src (fst p)) (io_n (fst p)) (io_dst (fst p)) (bp128_ddec64_fn (snd p))) ps in
  ~ races (snd (crun sched (m0, ths))) /\
  forall i p r, nth_error ps i = Some p ->
    nth_error (snd (crun sched (m0, ths))) i = Some (Ret r) ->
    let res := bp128_ddec64_fn (snd p) (peek m0 (io_src (fst p)) (io_n (fst p))) in
    r = snd res /\
    forall j, (j < length (fst res))%nat ->
      fst (crun sched (m0, ths)) (io_dst (fst p) + N.of_nat j) = nth j (fst res) 0.
Proof. exact bp128_delta_decode64_threads_safe. Qed.
Print Assumptions C17_bp128_delta_decode64_threads_safe.

(* varintFloatEncode (snd p = (precision, mode)) on shared arrays of doubles: the window is
   varintFloatMaxEncodedSize(count, precision) bytes (C03_float_bound) *)
Theorem C17_float_encode_threads_safe :
  forall (ps : list (io * (N * N))) (m0 : mem),
  (forall p, In p ps -> N.of_nat (io_n (fst p)) < 288230376151711744) ->
  (forall i j pi pj, i <> j -> nth_error ps i = Some pi -> nth_error ps j = Some pj ->
     forall l, in_range (io_dst (fst pj)) (N.to_nat (fl_max_encoded_size (N.of_nat (io_n (fst pj))) (fst (snd pj)))) l ->
       ~ in_range (io_dst (fst pi)) (N.to_nat (fl_max_encoded_size (N.of_nat (io_n (fst pi))) (fst (snd pi)))) l /\
       ~ in_range (io_src (fst pi)) (io_n (fst pi)) l) ->
  forall sched,
  let ths := map (fun p => prog1 (io_src (fst p)) (io_n (fst p)) (io_dst (fst p)) (float_enc_fn (snd p))) ps in
  ~ races (snd (crun sched (m0, ths))) /\
  forall i p r, nth_error ps i = Some p ->
    nth_error (snd (crun sched (m0, ths))) i = Some (Ret r) ->
    let res := float_enc_fn (snd p) (peek m0 (io_src (fst p)) (io_n (fst p))) in
    r = snd res /\
    forall j, (j < length (fst res))%nat ->
      fst (crun sched (m0, ths)) (io_dst (fst p) + N.of_nat j) = nth j (fst res) 0.
Proof. exact float_encode_threads_safe. Qed.
Print Assumptions C17_float_encode_threads_safe.

(* varintFloatDecode on shared encodings: the window is count doubles *)
Theorem C17_float_decode_threads_safe :
  forall (ps : list (io * nat)) (m0 : mem),
  (forall i j pi pj, i <> j -> nth_error ps i = Some pi -> nth_error ps j = Some pj ->
     forall l, in_range (io_dst (fst pj)) (snd pj) l ->
       ~ in_range (io_dst (fst pi)) (snd pi) l /\
       ~ in_range (io_src (fst pi)) (io_n (fst pi)) l) ->
  forall sched,
  let ths := map (fun p => prog1 (io_src (fst p)) (io_n (fst p)) (io_dst (fst p)) (float_dec_fn (snd p))) ps in
  ~ races (snd (crun sched (m0, ths))) /\
  forall i p r, nth_error ps i = Some p ->
    nth_error (snd (crun sched (m0, ths))) i = Some (Ret r) ->
    let res := float_dec_fn (snd p) (peek m0 (io_src (fst p)) (io_n (fst p))) in
    r = snd res /\
    forall j, (j < length (fst res))%nat ->
      fst (crun sched (m0, ths)) (io_dst (fst p) + N.of_nat j) = nth j (fst res) 0.
Proof. exact float_decode_threads_safe. Qed.
Print Assumptions C17_float_decode_threads_safe.

(* varintAdaptiveEncode on shared value arrays: the window is varintAdaptiveMaxSize(count)
   bytes (C03_adaptive_encode_bound), whatever encoding the analysis of the values read selects *)
Theorem C17_adaptive_encode_threads_safe :
  forall (ps : list io) (m0 : mem),
  (forall p, In p ps -> N.of_nat (io_n p) < 4294967296) ->
  (forall i j pi pj, i <> j -> nth_error ps i = Some pi -> nth_error ps j = Some pj ->
     forall l, in_range (io_dst pj) (N.to_nat (adp_max_size (N.of_nat (io_n pj)))) l ->
       ~ in_range (io_dst pi) (N.to_nat (adp_max_size (N.of_nat (io_n pi)))) l /\
       ~ in_range (io_src pi) (io_n pi) l) ->
  forall sched,
  let ths := map (fun p => prog1 (io_src p) (io_n p) (io_dst p) adaptive_enc_fn) ps in
  ~ races (snd (crun sched (m0, ths))) /\
  forall i p r, nth_error ps i = Some p ->
    nth_error (snd (crun sched (m0, ths))) i = Some (Ret r) ->
    let res := adaptive_enc_fn (peek m0 (io_src p) (io_n p)) in
    r = snd res /\
    forall j, (j < length (fst res))%nat ->
      fst (crun sched (m0, ths)) (io_dst p + N.of_nat j) = nth j (fst res) 0.
Proof. exact adaptive_encode_threads_safe. Qed.
Print Assumptions C17_adaptive_encode_threads_safe.

(* varintAdaptiveEncodeWith (snd p = the forced encoding type): the same window
   (C03_adaptive_encode_with_bound) *)
Theorem C17_adaptive_encode_with_threads_safe :
  forall (ps : list (io * N)) (m0 : mem),
  (forall p, In p ps -> N.of_nat (io_n (fst p)) < 4294967296) ->
  (forall i j pi pj, i <> j -> nth_error ps i = Some pi -> nth_error ps j = Some pj ->
     forall l, in_range (io_dst (fst pj)) (N.to_nat (adp_max_size (N.of_nat (io_n (fst pj))))) l ->
       ~ in_range (io_dst (fst pi)) (N.to_nat (adp_max_size (N.of_nat (io_n (fst pi))))) l /\
       ~ in_range (io_src (fst pi)) (io_n (fst pi)) l) ->
  forall sched,
  let ths := map (fun p => prog1 (io_src (fst p)) (io_n (fst p)) (io_dst (fst p)) (adaptive_enc_with_fn (snd p))) ps in
  ~ races (snd (crun sched (m0, ths))) /\
  forall i p r, nth_error ps i = Some p ->
    nth_error (snd (crun sched (m0, ths))) i = Some (Ret r) ->
    let res := adaptive_enc_with_fn (snd p) (peek m0 (io_src (fst p)) (io_n (fst p))) in
    r = snd res /\
    forall j, (j < length (fst res))%nat ->
      fst (crun sched (m0, ths)) (io_dst (fst p) + N.of_nat j) = nth j (fst res) 0.
Proof. exact adaptive_encode_with_threads_safe. Qed.
Print Assumptions C17_adaptive_encode_with_threads_safe.

(* varintAdaptiveDecode on shared encodings: the window is maxCount elements
   (C13_adaptive_decode_cap_any_input) *)
Theorem C17_adaptive_decode_threads_safe :
  forall (ps : list (io * N)) (m0 : mem),
  (forall i j pi pj, i <> j -> nth_error ps i = Some pi -> nth_error ps j = Some pj ->
     forall l, in_range (io_dst (fst pj)) (N.to_nat (snd pj)) l ->
       ~ in_range (io_dst (fst pi)) (N.to_nat (snd pi)) l /\
       ~ in_range (io_src (fst pi)) (io_n (fst pi)) l) ->
  forall sched,
  let ths := map (fun p => prog1 (io_src (fst p)) (io_n (fst p)) (io_dst (fst p)) (adaptive_dec_fn (snd p))) ps in
  ~ races (snd (crun sched (m0, ths))) /\
  forall i p r, nth_error ps i = Some p ->
    nth_error (snd (crun sched (m0, ths))) i = Some (Ret r) ->
    let res := adaptive_dec_fn (snd p) (peek m0 (io_src (fst p)) (io_n (fst p))) in
    r = snd res /\
    forall j, (j < length (fst res))%nat ->
      fst (crun sched (m0, ths)) (io_dst (fst p) + N.of_nat j) = nth j (fst res) 0.
Proof. exact adaptive_decode_threads_safe. Qed.
Print Assumptions C17_adaptive_decode_threads_safe.

(* ---------------------------------------------------------------- in place

   generic form: calls reading and writing the cells base + k for k in ks (one
   slot or two consecutive ones); calls that share no cell never race and each
   leaves in its cells what it computes alone from their initial contents *)
Theorem C17_slots_threads_safe :
  forall (P : Type) (base : P -> loc) (ks : P -> list N) (f : P -> list N -> list N * list N)
         (ps : list P) (m0 : mem),
  (forall p, In p ps -> forall j, (j < length (ks p))%nat -> nth j (ks p) 0 = hd 0 (ks p) + N.of_nat j) ->
  (forall p, In p ps -> forall bs, length bs = length (ks p) ->
     (length (fst (f p bs)) <= length (ks p))%nat) ->
  (forall i j pi pj, i <> j -> nth_error ps i = Some pi -> nth_error ps j = Some pj ->
     forall ki kj, In ki (ks pi) -> In kj (ks pj) -> base pi + ki <> base pj + kj) ->
  forall sched,
  let ths := map (fun p => prog1 (base p + hd 0 (ks p)) (length (ks p)) (base p + hd 0 (ks p)) (f p)) ps in
  ~ races (snd (crun sched (m0, ths))) /\
  forall i p r, nth_error ps i = Some p ->
    nth_error (snd (crun sched (m0, ths))) i = Some (Ret r) ->
    let res := f p (peek m0 (base p + hd 0 (ks p)) (length (ks p))) in
    r = snd res /\
    forall j, (j < length (fst res))%nat ->
      fst (crun sched (m0, ths)) (base p + hd 0 (ks p) + N.of_nat j) = nth j (fst res) 0.
Proof. exact slots_threads_safe. Qed.
Print Assumptions C17_slots_threads_safe.

(* PACKED_ARRAY_SET / _SET_INCR / _SET_HALF (snd p says which, with its
   argument) of element pc_i of the packed array of instantiation pc_cfg whose
   slot k is the cell pc_base + k: ANY instantiation, any mixture of the three.
   A call reads and writes exactly pc_slots = snd (packed_set c [] i 0), the
   slots every one of the three models reports as touched
   (C17_packed_touched_slots below).  Assumed: no two calls share a slot.
   Two calls on different elements of the SAME slot are NOT covered. *)
Theorem C17_packed_threads_safe :
  forall (ps : list (pcall * pop)) (m0 : mem),
  (forall i j pi pj, i <> j -> nth_error ps i = Some pi -> nth_error ps j = Some pj ->
     forall ki kj, In ki (pc_slots (fst pi)) -> In kj (pc_slots (fst pj)) ->
       pc_base (fst pi) + ki <> pc_base (fst pj) + kj) ->
  forall sched,
  let ths := map (fun p => slots_prog (pc_base (fst p)) (pc_slots (fst p))
                             (pop_fn (pc_cfg (fst p)) (pc_i (fst p)) (snd p))) ps in
  ~ races (snd (crun sched (m0, ths))) /\
  forall i p r, nth_error ps i = Some p ->
    nth_error (snd (crun sched (m0, ths))) i = Some (Ret r) ->
    let lo := pc_base (fst p) + hd 0 (pc_slots (fst p)) in
    let res := pop_fn (pc_cfg (fst p)) (pc_i (fst p)) (snd p) (peek m0 lo (length (pc_slots (fst p)))) in
    r = snd res /\
    forall j, (j < length (fst res))%nat ->
      fst (crun sched (m0, ths)) (lo + N.of_nat j) = nth j (fst res) 0.
Proof. exact packed_threads_safe. Qed.
Print Assumptions C17_packed_threads_safe.

(* the touched-slot lists of the three accessors do not depend on the array or
   on the value: they are pc_slots, one slot or two consecutive ones *)
Theorem C17_packed_touched_slots :
  forall c a i v d,
  snd (packed_set c a i v) = snd (packed_set c [] i 0) /\
  snd (packed_set_incr c a i d) = snd (packed_set c [] i 0) /\
  snd (packed_set_half c a i) = snd (packed_set c [] i 0) /\
  (snd (packed_set c [] i 0) = [start_offset c i / p_S c] \/
   snd (packed_set c [] i 0) = [start_offset c i / p_S c; start_offset c i / p_S c + 1]).
Proof.
  exact (fun c a i v d => conj (packed_set_slots c a i v) (conj (packed_incr_slots c a i d)
           (conj (packed_half_slots c a i) (packed_slots_shape c i)))).
Qed.
Print Assumptions C17_packed_touched_slots.

(* the same with the slots named by C09 (packed_set_touched): for the admitted
   instantiations (1 <= w <= 32, S in 8..64, w <= S + gcd(w, S), w <= V, the
   promotion type wide enough) elements whose slot ranges
   (i*w)/S .. (i*w+w-1)/S, shifted by the array bases, do not meet can be
   written concurrently *)
Theorem C17_packed_threads_safe_by_range :
  forall (ps : list (pcall * pop)) (m0 : mem),
  (forall p, In p ps ->
     (1 <= p_w (pc_cfg (fst p)) /\ p_w (pc_cfg (fst p)) <= 32 /\
      0 < p_S (pc_cfg (fst p)) /\ p_S (pc_cfg (fst p)) <= 64 /\
      p_w (pc_cfg (fst p)) <= p_S (pc_cfg (fst p)) + N.gcd (p_w (pc_cfg (fst p))) (p_S (pc_cfg (fst p))) /\
      p_w (pc_cfg (fst p)) <= p_V (pc_cfg (fst p)) /\
      match p_P (pc_cfg (fst p)) with
      | Some q => p_S (pc_cfg (fst p)) <= q /\ p_w (pc_cfg (fst p)) <= q
      | None => True
      end) /\
     pc_i (fst p) < 4294967296) ->
  (forall i j pi pj, i <> j -> nth_error ps i = Some pi -> nth_error ps j = Some pj ->
     forall ki kj,
       (pc_i (fst pi) * p_w (pc_cfg (fst pi))) / p_S (pc_cfg (fst pi)) <= ki
         <= (pc_i (fst pi) * p_w (pc_cfg (fst pi)) + p_w (pc_cfg (fst pi)) - 1) / p_S (pc_cfg (fst pi)) ->
       (pc_i (fst pj) * p_w (pc_cfg (fst pj))) / p_S (pc_cfg (fst pj)) <= kj
         <= (pc_i (fst pj) * p_w (pc_cfg (fst pj)) + p_w (pc_cfg (fst pj)) - 1) / p_S (pc_cfg (fst pj)) ->
       pc_base (fst pi) + ki <> pc_base (fst pj) + kj) ->
  forall sched,
  let ths := map (fun p => slots_prog (pc_base (fst p)) (pc_slots (fst p))
                             (pop_fn (pc_cfg (fst p)) (pc_i (fst p)) (snd p))) ps in
  ~ races (snd (crun sched (m0, ths))) /\
  forall i p r, nth_error ps i = Some p ->
    nth_error (snd (crun sched (m0, ths))) i = Some (Ret r) ->
    let lo := pc_base (fst p) + hd 0 (pc_slots (fst p)) in
    let res := pop_fn (pc_cfg (fst p)) (pc_i (fst p)) (snd p) (peek m0 lo (length (pc_slots (fst p)))) in
    r = snd res /\
    forall j, (j < length (fst res))%nat ->
      fst (crun sched (m0, ths)) (lo + N.of_nat j) = nth j (fst res) 0.
Proof. exact packed_threads_safe_by_range. Qed.
Print Assumptions C17_packed_threads_safe_by_range.

(* what the call's function is: PACKED_ARRAY_SET applied to the WHOLE array A
   (slots of the slot type, every touched slot inside A) keeps the length,
   changes the touched slots only, and leaves there what the call computes
   from their old contents; likewise SET_INCR and SET_HALF *)
Theorem C17_packed_set_exact :
  forall c A i v,
  let ks := snd (packed_set c A i v) in
  Forall (fun s => s < 2 ^ p_S c) A -> (forall k, In k ks -> k < N.of_nat (length A)) ->
  let A' := fst (packed_set c A i v) in
  length A' = length A /\
  (forall j, ~ In j ks -> slot_at A' j = slot_at A j) /\
  (forall t, (t < length ks)%nat ->
     slot_at A' (nth t ks 0) = nth t (fst (pop_fn c i (PSet v) (slots_of ks A))) 0).
Proof. exact packed_set_exact. Qed.
Print Assumptions C17_packed_set_exact.

Theorem C17_packed_incr_exact :
  forall c A i d,
  let ks := snd (packed_set_incr c A i d) in
  Forall (fun s => s < 2 ^ p_S c) A -> (forall k, In k ks -> k < N.of_nat (length A)) ->
  let A' := fst (packed_set_incr c A i d) in
  length A' = length A /\
  (forall j, ~ In j ks -> slot_at A' j = slot_at A j) /\
  (forall t, (t < length ks)%nat ->
     slot_at A' (nth t ks 0) = nth t (fst (pop_fn c i (PIncr d) (slots_of ks A))) 0).
Proof. exact packed_incr_exact. Qed.
Print Assumptions C17_packed_incr_exact.

Theorem C17_packed_half_exact :
  forall c A i,
  let ks := snd (packed_set_half c A i) in
  Forall (fun s => s < 2 ^ p_S c) A -> (forall k, In k ks -> k < N.of_nat (length A)) ->
  let A' := fst (packed_set_half c A i) in
  length A' = length A /\
  (forall j, ~ In j ks -> slot_at A' j = slot_at A j) /\
  (forall t, (t < length ks)%nat ->
     slot_at A' (nth t ks 0) = nth t (fst (pop_fn c i PHalf (slots_of ks A))) 0).
Proof. exact packed_half_exact. Qed.
Print Assumptions C17_packed_half_exact.

(* NOT covered, and not safe: elements 0 and 1 of a compact 4-bit array share
   byte 0.  After thread 0 has read the byte, its pending write and thread 1's
   pending read of the same byte are a race; and the interleaving in which
   both calls read before either writes loses element 0's update (176 = 0xB0
   instead of 186 = 0xBA, which both sequential orders leave). *)
Theorem C17_packed_same_slot_races :
  let ths := map (fun p => slots_prog (pc_base (fst p)) (pc_slots (fst p))
                             (pop_fn (pc_cfg (fst p)) (pc_i (fst p)) (snd p)))
                 [(mk_pcall 0 (mk_pcfg 4 8 None 8 32 true) 0, PSet 10);
                  (mk_pcall 0 (mk_pcfg 4 8 None 8 32 true) 1, PSet 11)] in
  races (snd (crun [0%nat] (mem_list [0], ths))) /\
  fst (crun [0; 0; 1; 1]%nat (mem_list [0], ths)) 0 = 186 /\
  fst (crun [1; 1; 0; 0]%nat (mem_list [0], ths)) 0 = 186 /\
  fst (crun [0; 1; 0; 1]%nat (mem_list [0], ths)) 0 = 176 /\
  snd (crun [0; 1; 0; 1]%nat (mem_list [0], ths)) = [Ret []; Ret []].
Proof. exact (conj packed_same_slot_races packed_same_slot_lost_update). Qed.
Print Assumptions C17_packed_same_slot_races.

(* varintBitstreamSet of the width-bc_n value bc_v at bit offset bc_off of the
   stream of bc_W-bit words (value type of bc_V bits) whose word k is the cell
   bc_base + k: ANY parameters.  A call reads and writes exactly
   bc_words = bs_touched W off n.  Assumed: no two calls share a word.  Two
   Sets inside the SAME word are NOT covered. *)
Theorem C17_bitstream_set_threads_safe :
  forall (ps : list bcall) (m0 : mem),
  (forall i j pi pj, i <> j -> nth_error ps i = Some pi -> nth_error ps j = Some pj ->
     forall ki kj, In ki (bc_words pi) -> In kj (bc_words pj) -> bc_base pi + ki <> bc_base pj + kj) ->
  forall sched,
  let ths := map (fun p => slots_prog (bc_base p) (bc_words p)
                             (bitstream_set_fn (bc_W p) (bc_V p) (bc_off p) (bc_n p) (bc_v p))) ps in
  ~ races (snd (crun sched (m0, ths))) /\
  forall i p r, nth_error ps i = Some p ->
    nth_error (snd (crun sched (m0, ths))) i = Some (Ret r) ->
    let lo := bc_base p + hd 0 (bc_words p) in
    let res := bitstream_set_fn (bc_W p) (bc_V p) (bc_off p) (bc_n p) (bc_v p)
                 (peek m0 lo (length (bc_words p))) in
    r = snd res /\
    forall j, (j < length (fst res))%nat ->
      fst (crun sched (m0, ths)) (lo + N.of_nat j) = nth j (fst res) 0.
Proof. exact bitstream_set_threads_safe. Qed.
Print Assumptions C17_bitstream_set_threads_safe.

(* the same with the words named by C11_access_exact: for admissible
   parameters (1 <= n <= W <= V <= 64) the touched words are those holding a
   bit of [off, off + n): Sets no word of which holds bits of two of them can
   run concurrently *)
Theorem C17_bitstream_set_threads_safe_by_bits :
  forall (ps : list bcall) (m0 : mem),
  (forall p, In p ps -> 1 <= bc_n p /\ bc_n p <= bc_W p /\ bc_W p <= bc_V p /\ bc_V p <= 64) ->
  (forall i j pi pj, i <> j -> nth_error ps i = Some pi -> nth_error ps j = Some pj ->
     forall bi bj, bc_off pi <= bi < bc_off pi + bc_n pi -> bc_off pj <= bj < bc_off pj + bc_n pj ->
       bc_base pi + bi / bc_W pi <> bc_base pj + bj / bc_W pj) ->
  forall sched,
  let ths := map (fun p => slots_prog (bc_base p) (bc_words p)
                             (bitstream_set_fn (bc_W p) (bc_V p) (bc_off p) (bc_n p) (bc_v p))) ps in
  ~ races (snd (crun sched (m0, ths))) /\
  forall i p r, nth_error ps i = Some p ->
    nth_error (snd (crun sched (m0, ths))) i = Some (Ret r) ->
    let lo := bc_base p + hd 0 (bc_words p) in
    let res := bitstream_set_fn (bc_W p) (bc_V p) (bc_off p) (bc_n p) (bc_v p)
                 (peek m0 lo (length (bc_words p))) in
    r = snd res /\
    forall j, (j < length (fst res))%nat ->
      fst (crun sched (m0, ths)) (lo + N.of_nat j) = nth j (fst res) 0.
Proof. exact bitstream_set_threads_safe_by_bits. Qed.
Print Assumptions C17_bitstream_set_threads_safe_by_bits.

(* varintBitstreamSet on the WHOLE stream s (words of the word type): it keeps
   the length, changes the touched words only, and leaves there what the call
   computes from their old contents *)
Theorem C17_bitstream_set_exact :
  forall W V s off n v s',
  Forall (fun w => w < 2 ^ W) s -> bs_set W V s off n v = Some s' ->
  let ks := map N.of_nat (bs_touched W off n) in
  length s' = length s /\
  (forall j, ~ In j ks -> slot_at s' j = slot_at s j) /\
  (forall t, (t < length ks)%nat ->
     slot_at s' (nth t ks 0) = nth t (fst (bitstream_set_fn W V off n v (slots_of ks s))) 0).
Proof. exact bitstream_set_exact. Qed.
Print Assumptions C17_bitstream_set_exact.

(* NOT covered, and not safe: bits 0..3 and 4..7 of word 0 of a stream of 8-bit
   words (171 = 0xAB sequentially; 11 = 0x0B when thread 0's update is lost) *)
Theorem C17_bitstream_same_word_races :
  let ths := map (fun p => slots_prog (bc_base p) (bc_words p)
                             (bitstream_set_fn (bc_W p) (bc_V p) (bc_off p) (bc_n p) (bc_v p)))
                 [mk_bcall 0 8 8 0 4 10; mk_bcall 0 8 8 4 4 11] in
  races (snd (crun [0%nat] (mem_list [0], ths))) /\
  fst (crun [0; 0; 1; 1]%nat (mem_list [0], ths)) 0 = 171 /\
  fst (crun [1; 1; 0; 0]%nat (mem_list [0], ths)) 0 = 171 /\
  fst (crun [0; 1; 0; 1]%nat (mem_list [0], ths)) 0 = 11 /\
  snd (crun [0; 1; 0; 1]%nat (mem_list [0], ths)) = [Ret [1]; Ret [1]].
Proof. exact (conj bitstream_same_word_races bitstream_same_word_lost_update). Qed.
Print Assumptions C17_bitstream_same_word_races.

(* ---------------------------------------------------------------- non-vacuity
   one concrete configuration per instance, run under an irregular prefix
   followed by a round-robin schedule (rr k n = k rounds over n threads);
   mem_list bs = the memory holding bs from address 0 on, 0 elsewhere *)

(* group encoders on overlapping shared inputs [7;300;70000] and [300;70000]; windows 26 and 18 *)
Example C17_group_encode_example :
  let ths := map (fun p => prog1 (io_src p) (io_n p) (io_dst p) group_enc_fn) [mk_io 0 3 100; mk_io 1 2 200] in
  let c := crun ([1; 0; 1; 1; 0]%nat ++ rr 20 2) (mem_list [7; 300; 70000], ths) in
  snd c = [Ret [1; 9]; Ret [1; 8]] /\
  peek (fst c) 100 10 = [3; 36; 7; 44; 1; 112; 17; 1; 0; 0] /\ peek (fst c) 200 9 = [2; 9; 44; 1; 112; 17; 1; 0; 0] /\
  group_max_size 3 = 26 /\ group_max_size 2 = 18.
Proof. vm_compute. repeat split; reflexivity. Qed.

(* two group decoders on the SAME encoding, capacities 3 (all) and 2 (refused) *)
Example C17_group_decode_example :
  let ths := map (fun p => prog1 (io_src (fst p)) (io_n (fst p)) (io_dst (fst p)) (group_dec_fn (snd p)))
               [(mk_io 0 9 100, 3); (mk_io 0 9 200, 2)] in
  let c := crun ([1; 0; 1; 1; 0]%nat ++ rr 20 2) (mem_list [3; 36; 7; 44; 1; 112; 17; 1; 0], ths) in
  snd c = [Ret [1; 9; 1; 3]; Ret [1; 0; 0]] /\
  peek (fst c) 100 4 = [7; 300; 70000; 0] /\ peek (fst c) 200 4 = [0; 0; 0; 0].
Proof. vm_compute. repeat split; reflexivity. Qed.

(* three GetField readers on the SAME encoding: fields 0, 2 and 5 (no such field) *)
Example C17_group_get_field_example :
  let ths := map (fun p => prog1 (io_src (fst p)) (io_n (fst p)) (io_dst (fst p)) (group_get_field_fn (snd p)))
               [(mk_io 0 9 0, 0); (mk_io 0 9 0, 2); (mk_io 0 9 0, 5)] in
  let c := crun ([2; 0; 2; 1; 0]%nat ++ rr 12 3) (mem_list [3; 36; 7; 44; 1; 112; 17; 1; 0], ths) in
  snd c = [Ret [1; 3; 1; 7]; Ret [1; 9; 1; 70000]; Ret [1; 0; 0]].
Proof. vm_compute. reflexivity. Qed.

(* PFOR encoders on overlapping shared inputs: all 11 values at threshold 90 (one
   exception, 20 bytes) and the last three at threshold 100 (none, 13 bytes) *)
Example C17_pfor_encode_example :
  let ths := map (fun p => prog1 (io_src (fst p)) (io_n (fst p)) (io_dst (fst p)) (pfor_enc_fn (snd p)))
               [(mk_io 0 11 100, 90); (mk_io 8 3 200, 100)] in
  let c := crun ([1; 0; 1; 1; 0]%nat ++ rr 40 2)
             (mem_list [10; 11; 12; 13; 14; 15; 16; 17; 18; 19; 100000], ths) in
  snd c = [Ret [20; 1; 1]; Ret [13; 3; 0]] /\
  peek (fst c) 100 22 = [10; 1; 11; 0; 1; 2; 3; 4; 5; 6; 7; 8; 9; 255; 1; 10; 250; 1; 134; 160; 0; 0] /\
  peek (fst c) 200 14 = [18; 3; 3; 0; 0; 0; 1; 0; 0; 142; 134; 1; 0; 0] /\
  pfor_max_size 11 = 262 /\ pfor_max_size 3 = 86.
Proof. vm_compute. repeat split; reflexivity. Qed.

(* two PFOR decoders with the encoder's metadata on the SAME encoding; the second is
   given only 15 of its 20 bytes: a read past the end, nothing stored *)
Example C17_pfor_decode_example :
  let m := mk_pfor_meta 10 255 19 1 11 1 90 in
  let ths := map (fun p => prog1 (io_src (fst p)) (io_n (fst p)) (io_dst (fst p)) (pfor_dec_fn (snd p)))
               [(mk_io 0 20 100, m); (mk_io 0 15 200, m)] in
  let c := crun ([1; 0; 1; 1; 0]%nat ++ rr 40 2)
             (mem_list [10; 1; 11; 0; 1; 2; 3; 4; 5; 6; 7; 8; 9; 255; 1; 10; 250; 1; 134; 160], ths) in
  snd c = [Ret [1; 11; 1]; Ret [2]] /\
  peek (fst c) 100 12 = [10; 11; 12; 13; 14; 15; 16; 17; 18; 19; 100000; 0] /\
  peek (fst c) 200 12 = [0; 0; 0; 0; 0; 0; 0; 0; 0; 0; 0; 0].
Proof. vm_compute. repeat split; reflexivity. Qed.

(* four GetAt readers on the SAME encoding: index 3, 10 (the exception), 11 (out of
   range: 0), and 10 with the exception list cut off *)
Example C17_pfor_get_at_example :
  let m := mk_pfor_meta 10 255 19 1 11 1 90 in
  let ths := map (fun p => prog1 (io_src (fst p)) (io_n (fst p)) (io_dst (fst p)) (pfor_get_at_fn (snd p)))
               [(mk_io 0 20 0, (3, m)); (mk_io 0 20 0, (10, m)); (mk_io 0 20 0, (11, m)); (mk_io 0 14 0, (10, m))] in
  let c := crun ([2; 0; 3; 1; 0]%nat ++ rr 24 4)
             (mem_list [10; 1; 11; 0; 1; 2; 3; 4; 5; 6; 7; 8; 9; 255; 1; 10; 250; 1; 134; 160], ths) in
  snd c = [Ret [1; 13]; Ret [1; 100000]; Ret [1; 0]; Ret [2]].
Proof. vm_compute. reflexivity. Qed.

(* BP128 encoders on overlapping shared inputs; the fourth cell holds 2^32 + 1: the
   32-bit encoder reads it as 1, the 64-bit encoder needs 33 bits; windows 43 and 27 *)
Example C17_bp128_encode32_example :
  let ths := map (fun p => prog1 (io_src p) (io_n p) (io_dst p) bp128_enc32_fn) [mk_io 0 4 100; mk_io 1 2 200] in
  let c := crun ([1; 0; 1; 1; 0]%nat ++ rr 40 2) (mem_list [5; 1; 9; 4294967297], ths) in
  snd c = [Ret [4]; Ret [3]] /\
  peek (fst c) 100 6 = [132; 4; 21; 25; 0; 0] /\ peek (fst c) 200 5 = [132; 2; 145; 0; 0] /\
  max_bytes 4 = 43 /\ max_bytes 2 = 27.
Proof. vm_compute. repeat split; reflexivity. Qed.

Example C17_bp128_encode64_example :
  let ths := map (fun p => prog1 (io_src p) (io_n p) (io_dst p) bp128_enc64_fn) [mk_io 0 4 100; mk_io 1 2 200] in
  let c := crun ([1; 0; 1; 1; 0]%nat ++ rr 40 2) (mem_list [5; 1; 9; 4294967297], ths) in
  snd c = [Ret [20]; Ret [4]] /\
  peek (fst c) 100 22 = [4; 161; 4; 5; 0; 0; 0; 2; 0; 0; 0; 36; 0; 0; 0; 8; 0; 0; 0; 8; 0; 0] /\
  peek (fst c) 200 6 = [2; 132; 2; 145; 0; 0].
Proof. vm_compute. repeat split; reflexivity. Qed.

(* the delta encoders on overlapping shared sorted inputs [1;5;9] and [5;9] *)
Example C17_bp128_delta_encode32_example :
  let ths := map (fun p => prog1 (io_src p) (io_n p) (io_dst p) bp128_denc32_fn) [mk_io 0 3 100; mk_io 1 2 200] in
  let c := crun ([1; 0; 1; 1; 0]%nat ++ rr 40 2) (mem_list [1; 5; 9], ths) in
  snd c = [Ret [4]; Ret [4]] /\
  peek (fst c) 100 6 = [1; 131; 2; 36; 0; 0] /\ peek (fst c) 200 5 = [5; 131; 1; 4; 0].
Proof. vm_compute. repeat split; reflexivity. Qed.

Example C17_bp128_delta_encode64_example :
  let ths := map (fun p => prog1 (io_src p) (io_n p) (io_dst p) bp128_denc64_fn) [mk_io 0 3 100; mk_io 1 2 200] in
  let c := crun ([1; 0; 1; 1; 0]%nat ++ rr 40 2) (mem_list [1; 5; 9], ths) in
  snd c = [Ret [4]; Ret [4]] /\
  peek (fst c) 100 6 = [1; 131; 2; 36; 0; 0] /\ peek (fst c) 200 5 = [5; 131; 1; 4; 0].
Proof. vm_compute. repeat split; reflexivity. Qed.

(* two decoders on the SAME encoding, capacities 3 and 2 (a prefix) *)
Example C17_bp128_decode32_example :
  let ths := map (fun p => prog1 (io_src (fst p)) (io_n (fst p)) (io_dst (fst p)) (bp128_dec32_fn (snd p)))
               [(mk_io 0 4 100, 3); (mk_io 0 4 200, 2)] in
  let c := crun ([1; 0; 1; 1; 0]%nat ++ rr 40 2) (mem_list [132; 3; 21; 9], ths) in
  snd c = [Ret [1; 3]; Ret [1; 2]] /\ peek (fst c) 100 4 = [5; 1; 9; 0] /\ peek (fst c) 200 4 = [5; 1; 0; 0].
Proof. vm_compute. repeat split; reflexivity. Qed.

(* a block header announcing 33 bits per value: undefined for the 32-bit decoder *)
Example C17_bp128_decode32_example_undefined :
  let ths := map (fun p => prog1 (io_src (fst p)) (io_n (fst p)) (io_dst (fst p)) (bp128_dec32_fn (snd p)))
               [(mk_io 0 4 100, 3); (mk_io 0 4 200, 2)] in
  let c := crun ([1; 0; 1; 1; 0]%nat ++ rr 40 2) (mem_list [161; 3; 0; 0], ths) in
  snd c = [Ret [0]; Ret [0]] /\ peek (fst c) 100 4 = [0; 0; 0; 0].
Proof. vm_compute. repeat split; reflexivity. Qed.

Example C17_bp128_delta_decode32_example :
  let ths := map (fun p => prog1 (io_src (fst p)) (io_n (fst p)) (io_dst (fst p)) (bp128_ddec32_fn (snd p)))
               [(mk_io 0 4 100, 3); (mk_io 0 4 200, 2)] in
  let c := crun ([1; 0; 1; 1; 0]%nat ++ rr 40 2) (mem_list [1; 131; 2; 36], ths) in
  snd c = [Ret [1; 3]; Ret [1; 2]] /\ peek (fst c) 100 4 = [1; 5; 9; 0] /\ peek (fst c) 200 4 = [1; 5; 0; 0].
Proof. vm_compute. repeat split; reflexivity. Qed.

Example C17_bp128_decode64_example :
  let ths := map (fun p => prog1 (io_src (fst p)) (io_n (fst p)) (io_dst (fst p)) (bp128_dec64_fn (snd p)))
               [(mk_io 0 5 100, 3); (mk_io 0 5 200, 2)] in
  let c := crun ([1; 0; 1; 1; 0]%nat ++ rr 40 2) (mem_list [3; 132; 3; 21; 9], ths) in
  snd c = [Ret [1; 3]; Ret [1; 2]] /\ peek (fst c) 100 4 = [5; 1; 9; 0] /\ peek (fst c) 200 4 = [5; 1; 0; 0].
Proof. vm_compute. repeat split; reflexivity. Qed.

Example C17_bp128_delta_decode64_example :
  let ths := map (fun p => prog1 (io_src (fst p)) (io_n (fst p)) (io_dst (fst p)) (bp128_ddec64_fn (snd p)))
               [(mk_io 0 4 100, 3); (mk_io 0 4 200, 2)] in
  let c := crun ([1; 0; 1; 1; 0]%nat ++ rr 40 2) (mem_list [1; 131; 2; 36], ths) in
  snd c = [Ret [1; 3]; Ret [1; 2]] /\ peek (fst c) 100 4 = [1; 5; 9; 0] /\ peek (fst c) 200 4 = [1; 5; 0; 0].
Proof. vm_compute. repeat split; reflexivity. Qed.

(* float encoders on overlapping shared inputs (1.0, 2.5, a NaN): all three at precision
   FULL / mode 0 (31 bytes, window 77), the first two at precision 2 / mode 2 (13 bytes, window 43) *)
Example C17_float_encode_example :
  let ths := map (fun p => prog1 (io_src (fst p)) (io_n (fst p)) (io_dst (fst p)) (float_enc_fn (snd p)))
               [(mk_io 0 3 100, (0, 0)); (mk_io 0 2 200, (2, 2))] in
  let c := crun ([1; 0; 1; 1; 0]%nat ++ rr 60 2)
             (mem_list [4607182418800017408; 4612811918334230528; 9221120237041090560], ths) in
  snd c = [Ret [31]; Ret [13]] /\
  peek (fst c) 100 32 = [0; 11; 52; 0; 4; 0; 1; 0; 1; 2; 0; 0; 0; 0; 0; 0; 0; 0; 0; 0; 0; 0;
                         64; 0; 0; 0; 0; 0; 0; 248; 127; 0] /\
  peek (fst c) 200 14 = [2; 8; 10; 2; 0; 0; 1; 0; 1; 2; 0; 2; 10; 0] /\
  fl_max_encoded_size 3 0 = 77 /\ fl_max_encoded_size 2 2 = 43.
Proof. vm_compute. repeat split; reflexivity. Qed.

(* two float decoders on the SAME encoding, counts 2 (1.0, 2.5) and 1 *)
Example C17_float_decode_example :
  let ths := map (fun p => prog1 (io_src (fst p)) (io_n (fst p)) (io_dst (fst p)) (float_dec_fn (snd p)))
               [(mk_io 0 13 100, 2%nat); (mk_io 0 13 200, 1%nat)] in
  let c := crun ([1; 0; 1; 1; 0]%nat ++ rr 40 2) (mem_list [2; 8; 10; 2; 0; 0; 1; 0; 1; 2; 0; 2; 10], ths) in
  snd c = [Ret [1; 13]; Ret [1; 10]] /\
  peek (fst c) 100 3 = [4607182418800017408; 4612811918334230528; 0] /\
  peek (fst c) 200 2 = [4607191214893039616; 0].
Proof. vm_compute. repeat split; reflexivity. Qed.

(* adaptive encoders on overlapping shared inputs: TAGGED (5) is selected for the five
   values, BITMAP (4) for the three small ones; windows 131 and 87 *)
Example C17_adaptive_encode_example :
  let ths := map (fun p => prog1 (io_src p) (io_n p) (io_dst p) adaptive_enc_fn) [mk_io 0 5 100; mk_io 1 3 300] in
  let c := crun ([1; 0; 1; 1; 0]%nat ++ rr 40 2) (mem_list [1000; 1001; 1003; 1004; 70000], ths) in
  snd c = [Ret [1; 13; 5]; Ret [1; 12; 4]] /\
  peek (fst c) 100 14 = [5; 243; 248; 243; 249; 243; 251; 243; 252; 250; 1; 17; 112; 0] /\
  peek (fst c) 300 13 = [4; 0; 3; 0; 0; 0; 233; 3; 235; 3; 236; 3; 0] /\
  adp_max_size 5 = 131 /\ adp_max_size 3 = 87.
Proof. vm_compute. repeat split; reflexivity. Qed.

(* the SAME five values forced to DELTA and to PFOR, and the middle three to TAGGED *)
Example C17_adaptive_encode_with_example :
  let ths := map (fun p => prog1 (io_src (fst p)) (io_n (fst p)) (io_dst (fst p)) (adaptive_enc_with_fn (snd p)))
               [(mk_io 0 5 100, 0); (mk_io 0 5 300, 2); (mk_io 1 3 500, 5)] in
  let c := crun ([2; 0; 2; 1; 0]%nat ++ rr 40 3) (mem_list [1000; 1001; 1003; 1004; 70000], ths) in
  snd c = [Ret [1; 14; 0]; Ret [1; 21; 2]; Ret [1; 7; 5]] /\
  peek (fst c) 100 15 = [0; 2; 232; 3; 1; 2; 1; 4; 1; 2; 3; 8; 27; 2; 0] /\
  peek (fst c) 300 22 = [2; 243; 248; 3; 5; 0; 0; 0; 1; 0; 0; 3; 0; 0; 4; 0; 0; 136; 13; 1; 0; 0] /\
  peek (fst c) 500 8 = [5; 243; 249; 243; 251; 243; 252; 0].
Proof. vm_compute. repeat split; reflexivity. Qed.

(* three adaptive decoders on the SAME (DELTA) encoding: capacities 5 and 3 (a prefix),
   and one given only 6 of the 14 bytes (an undefined width byte in the inner decoder) *)
Example C17_adaptive_decode_example :
  let ths := map (fun p => prog1 (io_src (fst p)) (io_n (fst p)) (io_dst (fst p)) (adaptive_dec_fn (snd p)))
               [(mk_io 0 14 100, 5); (mk_io 0 14 200, 3); (mk_io 0 6 300, 5)] in
  let c := crun ([2; 0; 2; 1; 0]%nat ++ rr 40 3) (mem_list [0; 2; 232; 3; 1; 2; 1; 4; 1; 2; 3; 8; 27; 2], ths) in
  snd c = [Ret [1; 5]; Ret [1; 3]; Ret [0]] /\
  peek (fst c) 100 6 = [1000; 1001; 1003; 1004; 70000; 0] /\
  peek (fst c) 200 4 = [1000; 1001; 1003; 0] /\ peek (fst c) 300 2 = [0; 0].
Proof. vm_compute. repeat split; reflexivity. Qed.

(* a compact 12-bit array (8-bit slots) at 10..17: Set of element 0 (slots 0,1), SetIncr of
   element 2 (slots 3,4), SetHalf of element 4 (slots 6,7) — the result is what the three
   calls leave when run one after the other *)
Example C17_packed_example :
  let c12 := mk_pcfg 12 8 None 16 32 true in
  let arr := [17; 34; 51; 68; 85; 102; 119; 136] in
  let ps := [(mk_pcall 10 c12 0, PSet 2748); (mk_pcall 10 c12 2, PIncr 5%Z); (mk_pcall 10 c12 4, PHalf)] in
  let ths := map (fun p => slots_prog (pc_base (fst p)) (pc_slots (fst p))
                             (pop_fn (pc_cfg (fst p)) (pc_i (fst p)) (snd p))) ps in
  let c := crun ([2; 0; 2; 1; 0]%nat ++ rr 6 3) (mem_list (repeat 0 10%nat ++ arr), ths) in
  map (fun p => pc_slots (fst p)) ps = [[0; 1]; [3; 4]; [6; 7]] /\
  snd c = [Ret []; Ret []; Ret []] /\
  peek (fst c) 10 8 = [188; 42; 51; 73; 85; 102; 59; 132] /\
  fst (packed_set_half c12 (fst (packed_set_incr c12 (fst (packed_set c12 arr 0 2748)) 2 5)) 4)
  = [188; 42; 51; 73; 85; 102; 59; 132].
Proof. vm_compute. repeat split; reflexivity. Qed.

(* a stream of 8-bit words at 10..14: Set (offset 4, 8 bits: words 0,1), Set (offset 20,
   3 bits: word 2), and a Set of 9 bits into 8-bit words (undefined: nothing written) *)
Example C17_bitstream_set_example :
  let ps := [mk_bcall 10 8 64 4 8 171; mk_bcall 10 8 64 20 3 5; mk_bcall 10 8 64 24 9 1] in
  let ths := map (fun p => slots_prog (bc_base p) (bc_words p)
                             (bitstream_set_fn (bc_W p) (bc_V p) (bc_off p) (bc_n p) (bc_v p))) ps in
  let c := crun ([2; 0; 2; 1; 0]%nat ++ rr 6 3) (mem_list (repeat 0 10%nat ++ [255; 255; 255; 255; 255]), ths) in
  map bc_words ps = [[0; 1]; [2]; [3; 4]] /\
  snd c = [Ret [1]; Ret [1]; Ret [0]] /\
  peek (fst c) 10 5 = [250; 191; 251; 255; 255] /\
  match bs_set 8 64 [255; 255; 255; 255; 255] 4 8 171 with
  | Some s => bs_set 8 64 s 20 3 5 | None => None end = Some [250; 191; 251; 255; 255].
Proof. vm_compute. repeat split; reflexivity. Qed.

(* the hypotheses are satisfiable: for four of the configurations above the
   placement hypotheses are proved and the theorems applied, so the results
   hold under EVERY schedule (an encoder with its worst-case window, a decoder
   with its capacity window, the packed accessors with the slot ranges of C09,
   bitstream Sets with the bit ranges of C11) *)
Example C17_group_encode_example_all_schedules : forall sched,
  let ps := [mk_io 0 3 100; mk_io 1 2 200] in
  let ths := map (fun p => prog1 (io_src p) (io_n p) (io_dst p) group_enc_fn) ps in
  let c := crun sched (mem_list [7; 300; 70000], ths) in
  ~ races (snd c) /\
  (forall r, nth_error (snd c) 0 = Some (Ret r) -> r = [1; 9] /\ fst c 100 = 3 /\ fst c 108 = 0) /\
  (forall r, nth_error (snd c) 1 = Some (Ret r) -> r = [1; 8] /\ fst c 200 = 2 /\ fst c 206 = 1).
Proof. exact group_encode_example_all_schedules. Qed.

Example C17_adaptive_decode_example_all_schedules : forall sched,
  let ps := [(mk_io 0 14 100, 5); (mk_io 0 14 200, 3)] in
  let ths := map (fun p => prog1 (io_src (fst p)) (io_n (fst p)) (io_dst (fst p)) (adaptive_dec_fn (snd p))) ps in
  let c := crun sched (mem_list [0; 2; 232; 3; 1; 2; 1; 4; 1; 2; 3; 8; 27; 2], ths) in
  ~ races (snd c) /\
  (forall r, nth_error (snd c) 0 = Some (Ret r) -> r = [1; 5] /\ fst c 100 = 1000 /\ fst c 104 = 70000) /\
  (forall r, nth_error (snd c) 1 = Some (Ret r) -> r = [1; 3] /\ fst c 202 = 1003).
Proof. exact adaptive_decode_example_all_schedules. Qed.

Example C17_packed_example_all_schedules : forall sched,
  let c12 := mk_pcfg 12 8 None 16 32 true in
  let ps := [(mk_pcall 10 c12 0, PSet 2748); (mk_pcall 10 c12 2, PIncr 5%Z); (mk_pcall 10 c12 4, PHalf)] in
  let ths := map (fun p => slots_prog (pc_base (fst p)) (pc_slots (fst p))
                             (pop_fn (pc_cfg (fst p)) (pc_i (fst p)) (snd p))) ps in
  let c := crun sched (mem_list (repeat 0 10%nat ++ [17; 34; 51; 68; 85; 102; 119; 136]), ths) in
  ~ races (snd c) /\
  (forall r, nth_error (snd c) 0 = Some (Ret r) -> r = [] /\ fst c 10 = 188 /\ fst c 11 = 42) /\
  (forall r, nth_error (snd c) 1 = Some (Ret r) -> r = [] /\ fst c 13 = 73 /\ fst c 14 = 85) /\
  (forall r, nth_error (snd c) 2 = Some (Ret r) -> r = [] /\ fst c 16 = 59 /\ fst c 17 = 132).
Proof. exact packed_example_all_schedules. Qed.

Example C17_bitstream_example_all_schedules : forall sched,
  let ps := [mk_bcall 10 8 64 4 8 171; mk_bcall 10 8 64 20 3 5] in
  let ths := map (fun p => slots_prog (bc_base p) (bc_words p)
                             (bitstream_set_fn (bc_W p) (bc_V p) (bc_off p) (bc_n p) (bc_v p))) ps in
  let c := crun sched (mem_list (repeat 0 10%nat ++ [255; 255; 255; 255; 255]), ths) in
  ~ races (snd c) /\
  (forall r, nth_error (snd c) 0 = Some (Ret r) -> r = [1] /\ fst c 10 = 250 /\ fst c 11 = 191) /\
  (forall r, nth_error (snd c) 1 = Some (Ret r) -> r = [1] /\ fst c 12 = 251).
Proof. exact bitstream_example_all_schedules. Qed.
