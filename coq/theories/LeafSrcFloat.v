(* LeafSrcFloat.v — the regenerated renderings (coq/gen/Src_leaf_float.v, produced
   by gen/c2coq.py from the current src/varintFloat.c) of truncateMantissa and
   expandMantissa compute what the hand model (Float.v: fl_truncate, fl_expand)
   computes on the domain where the C is defined (a shift of 64 or more bits is
   undefined: from_bits - to_bits <= 63); and the mantissa round-off lemma behind
   C07 float_rel_error stated about them.

   Both functions shift by a VARIABLE count: the proofs first put the model into
   the same integer form (fl_truncate_Z / fl_expand_Z), run the generated term with
   c_run (every `if`, i.e. every shift-count check, decided by lia wherever it
   stands) and identify the exponents of the powers of two by lia (pow_to). *)
Require Import VV.Base VV.BaseProofs VV.Float VV.CSem VV.CSemProofs VV.LeafSrcLemmas.
Require Import VVgen.Src_leaf_float.
From Coq Require Import Lia ZifyBool ZifyN ZifyNat.
Local Open Scope Z_scope.
Ltac Zify.zify_post_hook ::= Z.div_mod_to_equations.

Lemma fl_truncate_Z m f t : (t < f)%N ->
  Z.of_N (fl_truncate m f t) =
  ((Z.of_N m + 2 ^ (Z.of_N f - Z.of_N t - 1) mod 18446744073709551616) mod 18446744073709551616)
  / 2 ^ (Z.of_N f - Z.of_N t).
Proof.
  intro H. unfold fl_truncate. destruct (f <=? t)%N eqn:E; [lia|].
  cbv zeta. unfold shr, add64, shl64. rewrite N.mul_1_l.
  rewrite N2Z.inj_div, N2Z.inj_mod, N2Z.inj_add, N2Z.inj_mod, !N2Z.inj_pow.
  rewrite !N2Z.inj_sub by lia. reflexivity.
Qed.

Ltac pow_to e0 :=
  repeat match goal with
  | |- context [2 ^ ?e] =>
      lazymatch e with e0 => fail | _ => idtac end;
      replace e with e0 by lia
  end.

Lemma src_truncateMantissa_is_model : forall m f t,
  0 <= m < 18446744073709551616 -> 0 <= f < 256 -> 0 <= t < 256 -> (f <= t \/ f - t <= 63) ->
  src_truncateMantissa m f t = COk (Z.of_N (fl_truncate (Z.to_N m) (Z.to_N f) (Z.to_N t))).
Proof.
  intros m f t Hm Hf Ht D.
  destruct (Z_le_gt_dec f t) as [C|C].
  - unfold fl_truncate. destruct (Z.to_N f <=? Z.to_N t)%N eqn:E; [|lia].
    unfold src_truncateMantissa. c_run. f_equal. lia.
  - rewrite fl_truncate_Z by lia. rewrite !Z2N.id by lia.
    unfold src_truncateMantissa. c_run.
    rewrite ?Z.mul_1_l, ?Z.mul_1_r. pow_to (f - t - 1). pow_to (f - t). reflexivity.
Qed.

Lemma fl_expand_Z m f t : (f < t)%N ->
  Z.of_N (fl_expand m f t) = (Z.of_N m * 2 ^ (Z.of_N t - Z.of_N f)) mod 18446744073709551616.
Proof.
  intro H. unfold fl_expand. destruct (t <=? f)%N eqn:E; [lia|].
  unfold shl64. rewrite N2Z.inj_mod, N2Z.inj_mul, N2Z.inj_pow, N2Z.inj_sub by lia. reflexivity.
Qed.

Lemma src_expandMantissa_is_model : forall m f t,
  0 <= m < 18446744073709551616 -> 0 <= f < 256 -> 0 <= t < 256 -> (t <= f \/ t - f <= 63) ->
  src_expandMantissa m f t = COk (Z.of_N (fl_expand (Z.to_N m) (Z.to_N f) (Z.to_N t))).
Proof.
  intros m f t Hm Hf Ht D.
  destruct (Z_le_gt_dec t f) as [C|C].
  - unfold fl_expand. destruct (Z.to_N t <=? Z.to_N f)%N eqn:E; [|lia].
    unfold src_expandMantissa. c_run. f_equal. lia.
  - rewrite fl_expand_Z by lia. rewrite !Z2N.id by lia.
    unfold src_expandMantissa. c_run.
    pow_to (t - f). reflexivity.
Qed.


(* ---------- the round-off lemma behind C07 float_rel_error ---------- *)

Lemma pow2_le a b : 0 <= a <= b -> 2 ^ a <= 2 ^ b.
Proof. intro H. apply Z.pow_le_mono_r; lia. Qed.

(* reduction of a 53-bit significand (implicit bit included) to mb bits, as the encoder calls it *)
Lemma src_truncate_53 M mb : 4503599627370496 <= M < 9007199254740992 -> 1 <= mb <= 52 ->
  src_truncateMantissa M 53 mb = COk ((M + 2 ^ (52 - mb)) / 2 ^ (53 - mb)).
Proof.
  intros HM Hmb. rewrite src_truncateMantissa_is_model by lia.
  rewrite fl_truncate_Z by lia. rewrite !Z2N.id by lia.
  replace (53 - mb - 1) with (52 - mb) by lia.
  pose proof (pow2_le (52 - mb) 51 ltac:(lia)) as P1. change (2 ^ 51) with 2251799813685248 in P1.
  assert (P0 : 0 < 2 ^ (52 - mb)) by (apply Z.pow_pos_nonneg; lia).
  rewrite (Z.mod_small (2 ^ (52 - mb))) by lia. rewrite Z.mod_small by lia. reflexivity.
Qed.

(* expansion of an mb-bit field (or of the carry value 2^mb) back to 53 bits, as the decoder calls it *)
Lemma src_expand_53 t mb : 0 <= t <= 2 ^ mb -> 1 <= mb <= 52 ->
  src_expandMantissa t mb 53 = COk (t * 2 ^ (53 - mb)).
Proof.
  intros Ht Hmb.
  pose proof (pow2_le mb 52 ltac:(lia)) as P1. change (2 ^ 52) with 4503599627370496 in P1.
  rewrite src_expandMantissa_is_model by lia.
  rewrite fl_expand_Z by lia. rewrite !Z2N.id by lia.
  assert (Q0 : 0 < 2 ^ (53 - mb)) by (apply Z.pow_pos_nonneg; lia).
  assert (B : t * 2 ^ (53 - mb) <= 2 ^ mb * 2 ^ (53 - mb)) by (apply Z.mul_le_mono_nonneg_r; lia).
  rewrite <- Z.pow_add_r in B by lia. replace (mb + (53 - mb)) with 53 in B by lia.
  change (2 ^ 53) with 9007199254740992 in B.
  rewrite Z.mod_small by nia. reflexivity.
Qed.

(* M: a normal value's 53-bit significand; mb: the mantissa bits kept.  Truncating and expanding
   moves M by at most half a unit of the kept precision, 2^(52-mb), upwards inclusive (round half
   up), so the relative error is at most 2^-mb *)
Theorem src_float_mantissa_roundoff : forall M mb,
  4503599627370496 <= M < 9007199254740992 -> 1 <= mb <= 52 ->
  exists t e,
    src_truncateMantissa M 53 mb = COk t /\ 2 ^ (mb - 1) <= t <= 2 ^ mb /\
    src_expandMantissa t mb 53 = COk e /\ e = t * 2 ^ (53 - mb) /\
    - 2 ^ (52 - mb) < e - M <= 2 ^ (52 - mb) /\
    (e - M) * 2 ^ mb <= M /\ (M - e) * 2 ^ mb <= M.
Proof.
  intros M mb HM Hmb.
  set (P := 2 ^ (52 - mb)).
  assert (P0 : 0 < P) by (apply Z.pow_pos_nonneg; lia).
  assert (E2 : 2 ^ (53 - mb) = 2 * P).
  { unfold P. replace (53 - mb) with (Z.succ (52 - mb)) by lia. rewrite Z.pow_succ_r by lia. reflexivity. }
  assert (EQ : P * 2 ^ mb = 4503599627370496).
  { unfold P. rewrite <- Z.pow_add_r by lia. replace (52 - mb + mb) with 52 by lia. reflexivity. }
  assert (EH : 2 ^ mb = 2 * 2 ^ (mb - 1)).
  { replace mb with (Z.succ (mb - 1)) at 1 by lia. rewrite Z.pow_succ_r by lia. reflexivity. }
  set (t := (M + P) / 2 ^ (53 - mb)).
  pose proof (Z.div_mod (M + P) (2 * P) ltac:(lia)) as DM.
  pose proof (Z.mod_pos_bound (M + P) (2 * P) ltac:(lia)) as RB.
  rewrite <- E2 in DM, RB. fold t in DM. set (r := (M + P) mod 2 ^ (53 - mb)) in *.
  assert (Q0 : 0 < 2 ^ mb) by (apply Z.pow_pos_nonneg; lia).
  assert (T1 : 2 ^ (mb - 1) <= t <= 2 ^ mb).
  { rewrite E2 in DM, RB. split.
    - assert (2 ^ (mb - 1) * (2 * P) <= t * (2 * P) + r); [nia|].
      apply Z.lt_succ_r. apply Z.mul_lt_mono_pos_r with (2 * P); nia.
    - apply Z.lt_succ_r. apply Z.mul_lt_mono_pos_r with (2 * P); nia. }
  exists t, (t * 2 ^ (53 - mb)).
  split; [unfold t, P; apply src_truncate_53; assumption|].
  split; [exact T1|].
  split; [apply src_expand_53; lia|]. split; [reflexivity|].
  assert (D : - P < t * 2 ^ (53 - mb) - M <= P) by (rewrite E2 in *; lia).
  split; [exact D|].
  split.
  - apply Z.le_trans with (P * 2 ^ mb); [apply Z.mul_le_mono_nonneg_r; lia|lia].
  - apply Z.le_trans with (P * 2 ^ mb); [apply Z.mul_le_mono_nonneg_r; lia|lia].
Qed.

(* when rounding carries out of the top bit (t = 2^mb) the encoder stores t >> 1 with the
   exponent incremented: the decoder's expansion of that field is the significand 1.0 *)
Theorem src_float_mantissa_carry : forall mb, 1 <= mb <= 52 ->
  src_expandMantissa (2 ^ mb / 2) mb 53 = COk 4503599627370496.
Proof.
  intros mb Hmb.
  assert (EH : 2 ^ mb = 2 ^ (mb - 1) * 2).
  { replace mb with (Z.succ (mb - 1)) at 1 by lia. rewrite Z.pow_succ_r by lia. lia. }
  assert (H0 : 0 < 2 ^ (mb - 1)) by (apply Z.pow_pos_nonneg; lia).
  rewrite EH at 1. rewrite Z.div_mul by lia.
  rewrite src_expand_53 by lia. f_equal.
  rewrite <- Z.pow_add_r by lia. replace (mb - 1 + (53 - mb)) with 52 by lia. reflexivity.
Qed.

(* no reduction requested (to_bits >= from_bits, resp. from_bits >= to_bits): the identity —
   nothing is lost when the kept width is the full width *)
Theorem src_float_mantissa_exact : forall m f t,
  0 <= m < 18446744073709551616 -> 0 <= f < 256 -> 0 <= t < 256 -> f <= t ->
  src_truncateMantissa m f t = COk m /\ src_expandMantissa m t f = COk m.
Proof.
  intros m f t Hm Hf Ht C. split.
  - unfold src_truncateMantissa. c_run. reflexivity.
  - unfold src_expandMantissa. c_run. reflexivity.
Qed.
