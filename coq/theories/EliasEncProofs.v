(* EliasEncProofs.v — the encoders emit exactly the specified codes:
   floorLog2 = log2, single-value encoders append gamma_code / delta_code to
   the writer, array encoders produce pack_msb of the concatenated codes,
   with the meta fields, the bound MaxBytes and no store outside it. *)
Require Import VV.Base VV.BaseProofs VV.EliasBits VV.Elias VV.EliasSpec VV.EliasBitsProofs.
From Coq Require Import Lia ZifyBool ZifyN ZifyNat Arith.
Local Open Scope N_scope.
Ltac Zify.zify_post_hook ::= Z.div_mod_to_equations.

(* ------------------------------------------------------------------ floorLog2 *)

Lemma log2_half v : 1 < v -> N.log2 v = N.log2 (v / 2) + 1.
Proof.
  intros H. change (v / 2) with (v / 2 ^ 1). rewrite <- N.shiftr_div_pow2, N.log2_shiftr.
  assert (1 <= N.log2 v); [|lia].
  change 1 with (N.log2 2) at 1. apply N.log2_le_mono. lia.
Qed.

Lemma floor_log2_loop_spec fuel : forall v log, v < 2 ^ N.of_nat fuel ->
  floor_log2_loop fuel v log = log + N.log2 v.
Proof.
  induction fuel; intros v log Hv; cbn [floor_log2_loop].
  - change (2 ^ N.of_nat 0) with 1 in Hv. assert (v = 0) as -> by lia. cbn. lia.
  - destruct (1 <? v) eqn:E.
    + rewrite N.div2_div. rewrite IHfuel.
      * rewrite (log2_half v) by lia. lia.
      * rewrite Nat2N.inj_succ, N.pow_succ_r' in Hv. lia.
    + assert (v = 0 \/ v = 1) as [-> | ->] by lia; cbn; lia.
Qed.

Lemma floor_log2_spec v : v < 18446744073709551616 -> floor_log2 v = N.log2 v.
Proof. intros H. unfold floor_log2. rewrite floor_log2_loop_spec; [lia|exact H]. Qed.

Lemma log2_lt64 x : x < 18446744073709551616 -> N.log2 x <= 63.
Proof.
  intros H. destruct (N.eq_dec x 0) as [-> | Hz]; [cbn; lia|].
  assert (N.log2 x < 64); [|lia]. apply N.log2_lt_pow2; [lia|exact H].
Qed.

(* ------------------------------------------------------------------ bits_msb *)

Lemma bits_msb_n_S k x : bits_msb_n (S k) x = bits_msb_n k (x / 2) ++ [N.testbit x 0].
Proof.
  induction k.
  - reflexivity.
  - change (bits_msb_n (S (S k)) x) with (N.testbit x (N.of_nat (S k)) :: bits_msb_n (S k) x).
    rewrite IHk. cbn [bits_msb_n app]. f_equal.
    rewrite <- N.div2_div, N.div2_spec, N.shiftr_spec', N.add_1_r, Nat2N.inj_succ. reflexivity.
Qed.

Lemma pos_bits_msb p :
  rev (pos_bits_lsb p) = bits_msb_n (S (N.to_nat (N.log2 (Npos p)))) (Npos p).
Proof.
  induction p as [p IH | p IH |].
  - (* p~1 *)
    cbn [pos_bits_lsb rev]. rewrite IH.
    assert (E : N.log2 (N.pos p~1) = N.succ (N.log2 (N.pos p))).
    { change (N.pos p~1) with (2 * N.pos p + 1). apply N.log2_succ_double. lia. }
    rewrite E, N2Nat.inj_succ.
    rewrite (bits_msb_n_S (S (N.to_nat (N.log2 (N.pos p)))) (N.pos p~1)).
    rewrite <- N.div2_div. reflexivity.
  - (* p~0 *)
    cbn [pos_bits_lsb rev]. rewrite IH.
    assert (E : N.log2 (N.pos p~0) = N.succ (N.log2 (N.pos p))).
    { change (N.pos p~0) with (2 * N.pos p). apply N.log2_double. lia. }
    rewrite E, N2Nat.inj_succ.
    rewrite (bits_msb_n_S (S (N.to_nat (N.log2 (N.pos p)))) (N.pos p~0)).
    rewrite <- N.div2_div. reflexivity.
  - reflexivity.
Qed.

Lemma bits_msb_spec x : 1 <= x -> bits_msb x = bits_msb_n (S (N.to_nat (N.log2 x))) x.
Proof. intros H. destruct x as [|p]; [lia|]. apply pos_bits_msb. Qed.

Lemma bits_msb_head x : 1 <= x ->
  bits_msb x = true :: bits_msb_n (N.to_nat (N.log2 x)) x.
Proof.
  intros H. rewrite bits_msb_spec by assumption. cbn [bits_msb_n]. f_equal.
  rewrite N2Nat.id. apply N.bit_log2. lia.
Qed.

Lemma length_bits_msb x : 1 <= x -> length (bits_msb x) = S (N.to_nat (N.log2 x)).
Proof. intros. rewrite bits_msb_spec by assumption. apply length_bits_msb_n. Qed.

Lemma length_gamma_code x : 1 <= x -> N.of_nat (length (gamma_code x)) = 2 * N.log2 x + 1.
Proof.
  intros. unfold gamma_code. rewrite app_length, repeat_length, length_bits_msb by assumption. lia.
Qed.

Lemma length_delta_code x : 1 <= x ->
  N.of_nat (length (delta_code x)) = 2 * N.log2 (N.log2 x + 1) + 1 + N.log2 x.
Proof.
  intros. unfold delta_code. rewrite app_length. rewrite Nat2N.inj_add, length_gamma_code by lia.
  rewrite bits_msb_head by assumption. cbn [tl]. rewrite length_bits_msb_n. lia.
Qed.

(* worst cases of the two bounds *)
Lemma gamma_code_le_127 x : elias_ok x -> N.of_nat (length (gamma_code x)) <= 127.
Proof.
  intros [H1 H2]. rewrite length_gamma_code by assumption.
  pose proof (log2_lt64 x H2). lia.
Qed.

Lemma delta_code_le_76 x : elias_ok x -> N.of_nat (length (delta_code x)) <= 76.
Proof.
  intros [H1 H2]. rewrite length_delta_code by assumption.
  pose proof (log2_lt64 x H2).
  assert (N.log2 (N.log2 x + 1) <= 6); [|lia].
  change 6 with (N.log2 64). apply N.log2_le_mono. lia.
Qed.

(* ------------------------------------------------------------------ single-value encoders *)

Lemma bw_zeros_rep w bs n : bw_rep w bs -> bw_rep (bw_zeros w n) (bs ++ repeat false n).
Proof.
  revert w bs. induction n; intros w bs H; cbn [bw_zeros repeat].
  - rewrite app_nil_r. assumption.
  - replace (bs ++ false :: repeat false n) with ((bs ++ [false]) ++ repeat false n)
      by (rewrite <- app_assoc; reflexivity).
    apply IHn. apply (bw_rep_write w bs 0 1 H).
Qed.

Lemma bw_zeros_pos w n : bw_pos (bw_zeros w n) = bw_pos w + N.of_nat n.
Proof.
  revert w. induction n; intros w; cbn [bw_zeros]; [lia|].
  rewrite IHn, bw_write_pos. lia.
Qed.

Lemma bw_zeros_cap w n : bw_cap (bw_zeros w n) = bw_cap w.
Proof. revert w. induction n; intros w; cbn [bw_zeros]; [reflexivity|]. rewrite IHn. apply bw_write_cap. Qed.

Lemma bw_zeros_ovf w n : bw_ovf w = false -> bw_pos w + N.of_nat n <= 8 * bw_cap w ->
  bw_ovf (bw_zeros w n) = false.
Proof.
  revert w. induction n; intros w Ho Hb; cbn [bw_zeros]; [assumption|].
  apply IHn.
  - apply bw_write_ovf; [assumption|lia].
  - rewrite bw_write_pos, bw_write_cap. lia.
Qed.

(* an encoder appends `code x` to the writer, reports its length, keeps the
   capacity and places no bit outside it if the code fits *)
Ltac split4 := split; [|split; [|split]].

Definition enc_correct (enc : bitw -> N -> bitw * N) (code : N -> list bool) : Prop :=
  forall w bs x, elias_ok x -> bw_rep w bs ->
    bw_rep (fst (enc w x)) (bs ++ code x) /\
    snd (enc w x) = N.of_nat (length (code x)) /\
    bw_cap (fst (enc w x)) = bw_cap w /\
    (bw_ovf w = false -> bw_pos w + N.of_nat (length (code x)) <= 8 * bw_cap w ->
     bw_ovf (fst (enc w x)) = false).

Lemma gamma_encode_correct : enc_correct elias_gamma_encode gamma_code.
Proof.
  intros w bs x [H1 H2] Hr. unfold elias_gamma_encode. cbn [fst snd].
  rewrite floor_log2_spec by assumption.
  pose proof (log2_lt64 x H2) as Hn.
  assert (Hcode : gamma_code x = repeat false (N.to_nat (N.log2 x)) ++ bits_msb_n (N.to_nat (N.log2 x + 1)) x).
  { unfold gamma_code. rewrite bits_msb_spec by assumption. do 2 f_equal. lia. }
  rewrite Hcode. split4.
  - rewrite app_assoc. apply bw_rep_write. apply bw_zeros_rep. assumption.
  - rewrite app_length, repeat_length, length_bits_msb_n. lia.
  - rewrite bw_write_cap, bw_zeros_cap. reflexivity.
  - rewrite app_length, repeat_length, length_bits_msb_n. intros Ho Hb.
    apply bw_write_ovf.
    + apply bw_zeros_ovf; [assumption|lia].
    + rewrite bw_zeros_pos, bw_zeros_cap. lia.
Qed.

Lemma bits_msb_n_land k x m : (k <= m)%nat ->
  bits_msb_n k (N.land x (2 ^ N.of_nat m - 1)) = bits_msb_n k x.
Proof.
  intros H. induction k; cbn [bits_msb_n]; [reflexivity|].
  rewrite IHk by lia. f_equal.
  rewrite <- N.pred_sub, <- N.ones_equiv, N.land_spec, N.ones_spec_low by lia.
  apply andb_true_r.
Qed.

Lemma delta_encode_correct : enc_correct elias_delta_encode delta_code.
Proof.
  intros w bs x [H1 H2] Hr. unfold elias_delta_encode.
  rewrite floor_log2_spec by assumption.
  pose proof (log2_lt64 x H2) as Hn.
  set (n := N.log2 x) in *.
  assert (Hok : elias_ok (n + 1)) by (unfold elias_ok; lia).
  destruct (gamma_encode_correct w bs (n + 1) Hok Hr) as (Hg1 & Hg2 & Hg3 & Hg4).
  destruct (elias_gamma_encode w (n + 1)) as [w1 gb] eqn:E. cbn [fst snd] in *.
  assert (Hcode : delta_code x = gamma_code (n + 1) ++ bits_msb_n (N.to_nat n) x).
  { unfold delta_code. fold n. rewrite bits_msb_head by assumption. reflexivity. }
  rewrite Hcode, app_length, length_bits_msb_n. rewrite app_assoc.
  destruct (0 <? n) eqn:E0.
  - rewrite shl64_1 by lia.
    replace (2 ^ n) with (2 ^ N.of_nat (N.to_nat n)) by (rewrite N2Nat.id; reflexivity).
    split4.
    + rewrite <- (bits_msb_n_land (N.to_nat n) x (N.to_nat n)) by lia.
      apply bw_rep_write. assumption.
    + lia.
    + rewrite bw_write_cap. assumption.
    + intros Ho Hb. apply bw_write_ovf.
      * apply Hg4; [assumption|lia].
      * destruct Hg1 as (Hp1 & _). destruct Hr as (Hp0 & _).
        rewrite Hp1, Hg3, app_length. lia.
  - assert (n = 0) as Hz by lia. rewrite Hz. cbn [N.to_nat bits_msb_n]. rewrite app_nil_r.
    rewrite Hz in *. split4.
    + assumption.
    + lia.
    + assumption.
    + intros Ho Hb. apply Hg4; [assumption|lia].
Qed.

(* bit-count helpers *)
Lemma gamma_bits_spec x : elias_ok x -> elias_gamma_bits x = N.of_nat (length (gamma_code x)).
Proof.
  intros [H1 H2]. unfold elias_gamma_bits. rewrite floor_log2_spec, length_gamma_code by assumption.
  reflexivity.
Qed.

Lemma delta_bits_spec x : elias_ok x -> elias_delta_bits x = N.of_nat (length (delta_code x)).
Proof.
  intros [H1 H2]. unfold elias_delta_bits, elias_gamma_bits.
  pose proof (log2_lt64 x H2).
  rewrite !floor_log2_spec by (try assumption; rewrite ?floor_log2_spec by assumption; lia).
  rewrite length_delta_code by assumption. lia.
Qed.

(* ------------------------------------------------------------------ array encoders *)

Definition codes (code : N -> list bool) (xs : list N) : list bool := concat (map code xs).

Lemma enc_fold enc code : enc_correct enc code ->
  forall xs w bs t, Forall elias_ok xs -> bw_rep w bs ->
    let st := fold_left (fun (st : bitw * N) v => let (w', b) := enc (fst st) v in (w', snd st + b))
                        xs (w, t) in
    bw_rep (fst st) (bs ++ codes code xs) /\
    snd st = t + N.of_nat (length (codes code xs)) /\
    bw_cap (fst st) = bw_cap w /\
    (bw_ovf w = false -> bw_pos w + N.of_nat (length (codes code xs)) <= 8 * bw_cap w ->
     bw_ovf (fst st) = false).
Proof.
  intros Henc xs. induction xs as [|x xs IH]; intros w bs t Hok Hr; cbn [fold_left codes map concat].
  - cbn [fst snd length]. rewrite app_nil_r. split4; try assumption; try lia. intros; assumption.
  - inversion Hok as [|? ? Hx Hxs]; subst.
    destruct (Henc w bs x Hx Hr) as (H1 & H2 & H3 & H4).
    cbn [fst snd]. destruct (enc w x) as [w' b] eqn:E. cbn [fst snd] in *.
    specialize (IH w' (bs ++ code x) (t + b) Hxs H1). cbv zeta in IH.
    destruct IH as (I1 & I2 & I3 & I4). fold (codes code xs).
    rewrite app_length. split4.
    + rewrite app_assoc. exact I1.
    + rewrite I2, H2. lia.
    + rewrite I3. exact H3.
    + intros Ho Hb. destruct H1 as (Hp1 & _). destruct Hr as (Hp0 & _). apply I4.
      * apply H4; [assumption|lia].
      * rewrite Hp1, H3, app_length. lia.
Qed.

Lemma length_codes_le code bound xs :
  (forall x, elias_ok x -> N.of_nat (length (code x)) <= bound) ->
  Forall elias_ok xs -> N.of_nat (length (codes code xs)) <= N.of_nat (length xs) * bound.
Proof.
  intros Hb Hok. induction Hok as [|x xs Hx Hxs IH]; cbn [codes map concat length].
  - lia.
  - fold (codes code xs). rewrite app_length. specialize (Hb x Hx). lia.
Qed.

(* everything the array encoder returns, in one statement *)
Lemma encode_array_spec enc code maxb bound xs :
  enc_correct enc code ->
  (forall x, elias_ok x -> N.of_nat (length (code x)) <= bound) ->
  (forall c, c * bound + 7 < 18446744073709551616 -> maxb c = (c * bound + 7) / 8) ->
  Forall elias_ok xs ->
  N.of_nat (length xs) * bound + 7 < 18446744073709551616 ->
  let e := elias_encode_array enc maxb xs in
  let bits := codes code xs in
  ee_bytes e = pack_msb bits /\
  ee_ret e = N.of_nat (length (pack_msb bits)) /\
  ee_count e = N.of_nat (length xs) /\
  ee_totalBits e = N.of_nat (length bits) /\
  ee_encodedBytes e = (N.of_nat (length bits) + 7) / 8 /\
  ee_encodedBytes e = ee_ret e /\
  ee_extent e = maxb (N.of_nat (length xs)) /\
  ee_ret e <= ee_extent e /\
  ee_ovf e = false.
Proof.
  intros Henc Hbound Hmax Hok Hadm. cbv zeta. unfold elias_encode_array.
  pose proof (enc_fold enc code Henc xs (bw_init (maxb (N.of_nat (length xs)))) [] 0 Hok
                (bw_rep_init _)) as H.
  cbv zeta in H.
  destruct (fold_left _ xs _) as [w total] eqn:E. cbn [fst snd] in H.
  destruct H as (H1 & H2 & H3 & H4). cbn [app] in H1.
  cbn [ee_bytes ee_ret ee_count ee_totalBits ee_encodedBytes ee_extent ee_ovf].
  pose proof (length_codes_le code bound xs Hbound Hok) as Hlen.
  rewrite (bw_rep_buffer _ _ H1), (bw_rep_bytes _ _ H1), length_pack_msb.
  rewrite (Hmax _ Hadm) in *. cbn [bw_init bw_cap bw_pos bw_ovf] in *.
  repeat split; try lia.
  apply H4; [reflexivity|lia].
Qed.

Lemma gamma_max_bytes_spec c : c * 127 + 7 < 18446744073709551616 ->
  elias_gamma_max_bytes c = (c * 127 + 7) / 8.
Proof. intros. unfold elias_gamma_max_bytes, add64, mul64. rewrite !N.mod_small by (try rewrite N.mod_small; lia). reflexivity. Qed.

Lemma delta_max_bytes_spec c : c * 76 + 7 < 18446744073709551616 ->
  elias_delta_max_bytes c = (c * 76 + 7) / 8.
Proof. intros. unfold elias_delta_max_bytes, add64, mul64. rewrite !N.mod_small by (try rewrite N.mod_small; lia). reflexivity. Qed.

Lemma gamma_encode_array_spec xs : Forall elias_ok xs ->
  N.of_nat (length xs) * 127 + 7 < 18446744073709551616 ->
  let e := elias_gamma_encode_array xs in
  let bits := codes gamma_code xs in
  ee_bytes e = pack_msb bits /\
  ee_ret e = N.of_nat (length (pack_msb bits)) /\
  ee_count e = N.of_nat (length xs) /\
  ee_totalBits e = N.of_nat (length bits) /\
  ee_encodedBytes e = (N.of_nat (length bits) + 7) / 8 /\
  ee_encodedBytes e = ee_ret e /\
  ee_extent e = elias_gamma_max_bytes (N.of_nat (length xs)) /\
  ee_ret e <= ee_extent e /\
  ee_ovf e = false.
Proof.
  intros. apply (encode_array_spec elias_gamma_encode gamma_code elias_gamma_max_bytes 127);
    auto using gamma_encode_correct, gamma_code_le_127, gamma_max_bytes_spec.
Qed.

Lemma delta_encode_array_spec xs : Forall elias_ok xs ->
  N.of_nat (length xs) * 76 + 7 < 18446744073709551616 ->
  let e := elias_delta_encode_array xs in
  let bits := codes delta_code xs in
  ee_bytes e = pack_msb bits /\
  ee_ret e = N.of_nat (length (pack_msb bits)) /\
  ee_count e = N.of_nat (length xs) /\
  ee_totalBits e = N.of_nat (length bits) /\
  ee_encodedBytes e = (N.of_nat (length bits) + 7) / 8 /\
  ee_encodedBytes e = ee_ret e /\
  ee_extent e = elias_delta_max_bytes (N.of_nat (length xs)) /\
  ee_ret e <= ee_extent e /\
  ee_ovf e = false.
Proof.
  intros. apply (encode_array_spec elias_delta_encode delta_code elias_delta_max_bytes 76);
    auto using delta_encode_correct, delta_code_le_76, delta_max_bytes_spec.
Qed.
