(* Base.v — machine integers as N, byte lists, byte-order helpers.
   Models only; proofs are in BaseProofs.v. *)
From Coq Require Export NArith ZArith List Bool.
Export ListNotations.
Local Open Scope N_scope.

Definition two8  : N := 256.
Definition two16 : N := 65536.
Definition two24 : N := 16777216.
Definition two32 : N := 4294967296.
Definition two40 : N := 1099511627776.
Definition two48 : N := 281474976710656.
Definition two56 : N := 72057594037927936.
Definition two64 : N := 18446744073709551616.

(* C truncating casts *)
Definition u8  (x : N) : N := x mod 256.
Definition u16 (x : N) : N := x mod 65536.
Definition u32 (x : N) : N := x mod 4294967296.
Definition u64 (x : N) : N := x mod 18446744073709551616.

(* x - y computed in uint64_t (wraps) *)
Definition sub64 (x y : N) : N := (x + 18446744073709551616 - y mod 18446744073709551616) mod 18446744073709551616.
Definition add64 (x y : N) : N := (x + y) mod 18446744073709551616.
Definition mul64 (x y : N) : N := (x * y) mod 18446744073709551616.
Definition shl64 (x k : N) : N := (x * 2 ^ k) mod 18446744073709551616.
Definition shl32 (x k : N) : N := (x * 2 ^ k) mod 4294967296.
Definition shr (x k : N) : N := x / 2 ^ k.

(* int64_t <-> uint64_t reinterpretation *)
Definition to_s64 (x : N) : Z :=
  if x <? 9223372036854775808 then Z.of_N x else (Z.of_N x - 18446744073709551616)%Z.
Definition of_s64 (z : Z) : N := Z.to_N (z mod 18446744073709551616)%Z.
Definition in_s64 (z : Z) : bool :=
  ((-9223372036854775808 <=? z) && (z <=? 9223372036854775807))%Z.

(* byte access with C-like default (callers prove indices are in range, or
   state non-interference in the unread suffix) *)
Definition byte_at (z : list N) (i : nat) : N := nth i z 0.

(* little-endian / big-endian fixed-width byte strings *)
Fixpoint le_bytes (k : nat) (x : N) : list N :=
  match k with
  | O => []
  | S k' => (x mod 256) :: le_bytes k' (x / 256)
  end.
Definition be_bytes (k : nat) (x : N) : list N := rev (le_bytes k x).

Fixpoint of_le (l : list N) : N :=
  match l with
  | [] => 0
  | b :: t => b + 256 * of_le t
  end.
Definition of_be (l : list N) : N := of_le (rev l).

(* memcmp on equal-length prefixes followed by length (as memcmp over
   min length then shorter-first); for prefix-free codes only the first
   differing byte matters. *)
Fixpoint lex (a b : list N) : comparison :=
  match a, b with
  | [], [] => Eq
  | [], _ => Lt
  | _, [] => Gt
  | x :: a', y :: b' =>
      match x ?= y with
      | Eq => lex a' b'
      | c => c
      end
  end.

(* store bytes into a buffer at an offset (memory frame reasoning) *)
Definition store (buf : list N) (off : nat) (bs : list N) : list N :=
  firstn off buf ++ bs ++ skipn (off + length bs) buf.

Definition bytes_ok (l : list N) : Prop := Forall (fun b => b < 256) l.
Definition bytes_okb (l : list N) : bool := forallb (fun b => b <? 256) l.

(* number of bytes needed: the `while ((v >>= 8) != 0) w++` loop, fuel 8 *)
Fixpoint ext_width_fuel (fuel : nat) (v : N) : nat :=
  match fuel with
  | O => 1
  | S f => if (v / 256) =? 0 then 1 else S (ext_width_fuel f (v / 256))
  end.
Definition ext_width (v : N) : nat := ext_width_fuel 8 v.

(* EXTRACT: lex le_bytes be_bytes of_le of_be ext_width store to_s64 of_s64 in_s64 *)
