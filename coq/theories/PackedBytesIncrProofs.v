(* PackedBytesIncrProofs.v — SetIncr for EVERY increment (also negative ones and
   results that do not fit in w bits), i.e. outside the precondition of
   PackedIncrProofs.incr_get_same.

   What the code does: val = incr_value(current, incrBy) is computed in the
   value type (modulo 2^V, with the "wraparound" test that replaces the sum by
   the difference when the truncated sum is below the operand); then val is
   written like Set writes it, but Set does not mask the value: the field of
   element i is cleared and (PROMOTION)val << startBit is OR-ed in.  So the w
   low bits of val become element i, and the bits of val from w upwards are
   OR-ed into the storage bits that follow element i, up to the end of the last
   slot the element occupies.  Nothing else changes; the touched slots are those
   of element i. *)
Require Import VV.Base VV.BaseProofs VV.Packed VV.PackedLemmas VV.PackedProofs VV.PackedIncrProofs.
From Coq Require Import Lia ZifyBool ZifyN ZifyNat.
Local Open Scope N_scope.
Ltac Zify.zify_post_hook ::= Z.div_mod_to_equations.

(* ---- field writes of a value that need not fit ---- *)
Lemma tb_write_lo_gen sb w s p v j : sb <= 64 ->
  N.testbit (write_lo sb w s p v) j =
  (j <? sb) && (if p <=? j
                then (if j <? p + w then N.testbit v (j - p) else N.testbit s j || N.testbit v (j - p))
                else N.testbit s j).
Proof.
  intros Hsb. unfold write_lo.
  rewrite tb_trunc_gen, N.lor_spec, N.land_spec, tb_lnot64, !tb_shl64, tb_ones.
  destruct (N.ltb_spec j sb) as [Hj|Hj]; [|reflexivity]. cbn [andb].
  assert (J64 : (j <? 64) = true) by (apply N.ltb_lt; lia). rewrite J64. cbn [andb].
  destruct (N.leb_spec p j) as [Hp|Hp]; cbn [andb].
  - destruct (N.ltb_spec j (p + w)) as [Hq|Hq].
    + assert (E : (j - p <? w) = true) by (apply N.ltb_lt; lia). rewrite E. cbn [negb].
      rewrite andb_false_r. reflexivity.
    + assert (E : (j - p <? w) = false) by (apply N.ltb_ge; lia). rewrite E. cbn [negb].
      rewrite andb_true_r. reflexivity.
  - cbn [negb]. rewrite andb_true_r. apply orb_false_r.
Qed.

Lemma tb_write_hi_gen sb w s q v j : sb <= 64 ->
  N.testbit (write_hi sb w s q v) j =
  (j <? sb) && (if j + q <? w then N.testbit v (j + q) else N.testbit s j || N.testbit v (j + q)).
Proof.
  intros Hsb. unfold write_hi.
  rewrite tb_trunc_gen, N.lor_spec, N.land_spec, tb_lnot64, !tb_shr, tb_ones.
  destruct (N.ltb_spec j sb) as [Hj|Hj]; [|reflexivity]. cbn [andb].
  assert (J64 : (j <? 64) = true) by (apply N.ltb_lt; lia). rewrite J64.
  destruct (N.ltb_spec (j + q) w) as [Hq|Hq]; cbn [negb].
  - rewrite andb_false_r. reflexivity.
  - rewrite andb_true_r. reflexivity.
Qed.

Lemma div_eq_range sb n k : 0 < sb -> (n / sb = k <-> sb * k <= n < sb * k + sb).
Proof.
  intro H. pose proof (N.div_mod' n sb) as D. pose proof (N.mod_lt n sb ltac:(lia)) as R. split.
  - intros <-. lia.
  - intros [A B]. symmetry. apply (N.div_unique n sb k (n - sb * k)); lia.
Qed.

(* ---- Set of an arbitrary value ---- *)
Lemma packed_set_eq_gen c a i v : admitted c -> i < 4294967296 ->
  packed_set c a i v =
  let sbo := i * p_w c in
  let k := sbo / p_S c in
  let sB := sbo mod p_S c in
  if p_w c <=? p_S c - sB then
    (slot_upd a k (write_lo (p_S c) (p_w c) (slot_at a k) sB (mp_cast c v)), [k])
  else
    (slot_upd (slot_upd a k (write_lo (p_S c) (p_w c) (slot_at a k) sB (mp_cast c v))) (k + 1)
       (write_hi (p_S c) (p_w c) (slot_at a (k + 1)) (p_S c - sB) (mp_cast c v)), [k; k + 1]).
Proof.
  intros A Hi. unfold packed_set. cbv zeta.
  rewrite (start_offset_ok c i A Hi), (value_mask_ok c A).
  unfold slot_can_hold_entire_value, not64, trunc, write_lo, write_hi. cbn [andb]. reflexivity.
Qed.

(* the end of the last slot element i occupies, as a storage bit number *)
Definition spill_end (c : pcfg) (i : N) : N := ((i * p_w c + p_w c - 1) / p_S c + 1) * p_S c.

Ltac cmp_all :=
  repeat match goal with
  | |- context [?x <=? ?y] => destruct (N.leb_spec x y)
  | |- context [?x <? ?y] => destruct (N.ltb_spec x y)
  end.

(* make the leaf goals linear: name the remainders, drop every hypothesis that still mentions a quotient *)
Ltac leaf n sb sbo :=
  set (nm := n mod sb) in *; set (sB := sbo mod sb) in *; clearbody nm sB;
  repeat match goal with
         | H : context [N.div] |- _ => clear H
         | H : context [N.gcd] |- _ => clear H
         | H : match _ with Some _ => _ | None => _ end |- _ => clear H
         end.

(* every storage bit after Set(i, v), v arbitrary *)
Lemma set_bits_gen c a i v n : admitted c -> wf c a -> inb c a i -> i < 4294967296 ->
  abit c (setv c a i v) n =
  if (i * p_w c <=? n) && (n <? i * p_w c + p_w c) then N.testbit (mp_cast c v) (n - i * p_w c)
  else if (i * p_w c + p_w c <=? n) && (n <? spill_end c i)
       then abit c a n || N.testbit (mp_cast c v) (n - i * p_w c)
       else abit c a n.
Proof.
  intros A Hwf Hin Hi. unfold setv, spill_end. rewrite (packed_set_eq_gen c a i v A Hi). cbv zeta.
  pose proof (startbit_facts c i A) as [F1 F2].
  pose proof A as (W1 & W32 & S0 & S64 & SP & HV & HP).
  pose proof (last_slot_one c i A) as LS1. pose proof (last_slot_two c i A) as LS2.
  unfold abit, inb in *.
  set (v' := mp_cast c v). clearbody v'.
  set (sbo := i * p_w c) in *. set (sb := p_S c) in *. set (w := p_w c) in *.
  pose proof (N.div_mod' n sb) as Dn. pose proof (N.div_mod' sbo sb) as Ds.
  pose proof (N.mod_lt n sb ltac:(lia)) as Rn.
  pose proof (div_eq_range sb n (sbo / sb) S0) as Q0.
  pose proof (div_eq_range sb n (sbo / sb + 1) S0) as Q1.
  destruct (N.leb_spec w (sb - sbo mod sb)) as [One|Two]; cbn [fst].
  - rewrite (LS1 One) in Hin |- *.
    replace ((sbo / sb + 1) * sb) with (sb * (sbo / sb) + sb) by lia.
    destruct (N.eq_dec (n / sb) (sbo / sb)) as [E|E].
    + rewrite E. rewrite slot_at_upd_same by exact Hin. rewrite tb_write_lo_gen by lia.
      rewrite E in Dn. set (X := sb * (sbo / sb)) in *. clearbody X.
      set (s := N.testbit (slot_at a (sbo / sb)) (n mod sb)). clearbody s.
      leaf n sb sbo. cmp_all; cbn [andb orb]; try reflexivity; try (exfalso; lia); repeat (f_equal; try lia).
    + rewrite slot_at_upd_other by congruence.
      assert (NE : ~ (sb * (sbo / sb) <= n < sb * (sbo / sb) + sb)) by (intro; apply E; apply Q0; assumption).
      set (X := sb * (sbo / sb)) in *. clearbody X.
      leaf n sb sbo. cmp_all; cbn [andb orb]; try reflexivity; exfalso; lia.
  - rewrite (LS2 ltac:(lia)) in Hin |- *.
    replace ((sbo / sb + 1 + 1) * sb) with (sb * (sbo / sb) + sb + sb) by lia.
    replace (sb * (sbo / sb + 1)) with (sb * (sbo / sb) + sb) in Q1 by lia.
    destruct (N.eq_dec (n / sb) (sbo / sb + 1)) as [E1|E1].
    + rewrite E1. rewrite slot_at_upd_same by (rewrite length_slot_upd; exact Hin).
      rewrite tb_write_hi_gen by lia.
      rewrite E1 in Dn. rewrite N.mul_add_distr_l, N.mul_1_r in Dn. set (X := sb * (sbo / sb)) in *. clearbody X.
      set (s := N.testbit (slot_at a (sbo / sb + 1)) (n mod sb)). clearbody s.
      leaf n sb sbo. cmp_all; cbn [andb orb]; try reflexivity; try (exfalso; lia); repeat (f_equal; try lia).
    + rewrite slot_at_upd_other by congruence.
      assert (NE1 : ~ (sb * (sbo / sb) + sb <= n < sb * (sbo / sb) + sb + sb)) by (intro; apply E1; apply Q1; assumption).
      destruct (N.eq_dec (n / sb) (sbo / sb)) as [E|E].
      * rewrite E. rewrite slot_at_upd_same by lia. rewrite tb_write_lo_gen by lia.
        rewrite E in Dn. set (X := sb * (sbo / sb)) in *. clearbody X.
        set (s := N.testbit (slot_at a (sbo / sb)) (n mod sb)). clearbody s.
        leaf n sb sbo. cmp_all; cbn [andb orb]; try reflexivity; try (exfalso; lia); repeat (f_equal; try lia).
      * rewrite slot_at_upd_other by congruence.
        assert (NE : ~ (sb * (sbo / sb) <= n < sb * (sbo / sb) + sb)) by (intro; apply E; apply Q0; assumption).
        set (X := sb * (sbo / sb)) in *. clearbody X.
        leaf n sb sbo. cmp_all; cbn [andb orb]; try reflexivity; exfalso; lia.
Qed.

(* the spill region lies after element i and ends within one slot of its end *)
Lemma spill_end_bounds c i : admitted c ->
  i * p_w c + p_w c <= spill_end c i /\ spill_end c i < i * p_w c + p_w c + p_S c.
Proof.
  intros (W1 & W32 & S0 & S64 & SP & HV & HP). unfold spill_end.
  set (x := i * p_w c + p_w c - 1). replace (i * p_w c + p_w c) with (x + 1) by lia.
  set (sb := p_S c) in *. clearbody x sb.
  pose proof (N.div_mod' x sb) as D. pose proof (N.mod_lt x sb ltac:(lia)) as R.
  set (q := x / sb) in *. set (r := x mod sb) in *. clearbody q r.
  replace ((q + 1) * sb) with (sb * q + sb) by lia. lia.
Qed.

(* ---- SetIncr, any increment ---- *)

(* the value SetIncr writes, in closed form: case by case *)
Lemma incr_value_cases c cur d : cur < 2 ^ p_V c ->
  let M := Z.of_N (2 ^ p_V c) in
  let x := Z.of_N cur in
  ((0 <= d)%Z -> (x + d < M)%Z -> incr_value c cur d = Z.to_N (x + d)) /\
  ((0 <= d < M)%Z -> (M <= x + d)%Z -> incr_value c cur d = Z.to_N ((x - d) mod M)) /\
  ((d < 0)%Z -> (0 <= x + d)%Z -> incr_value c cur d = Z.to_N ((x - d) mod M)) /\
  ((- M <= d)%Z -> (x + d < 0)%Z -> incr_value c cur d = Z.to_N (x + d + M)).
Proof.
  intros Hc M x. unfold incr_value, val_cast_z.
  assert (E : (2 ^ Z.of_N (p_V c))%Z = M) by (unfold M; rewrite N2Z.inj_pow; reflexivity).
  rewrite E. assert (Mp : (0 < M)%Z) by (unfold M; lia).
  assert (Hx : (0 <= x < M)%Z) by (unfold x, M; lia).
  fold x. assert (Ex : x = Z.of_N cur) by reflexivity. clearbody M x. clear E.
  repeat split; intros.
  - rewrite Z.mod_small by lia. destruct (N.ltb_spec (Z.to_N (x + d)) cur); [lia|reflexivity].
  - assert (Q : ((x + d) mod M = x + d - M)%Z).
    { symmetry. apply (Z.mod_unique_pos (x + d) M 1); lia. }
    rewrite Q. destruct (N.ltb_spec (Z.to_N (x + d - M)) cur); [reflexivity|lia].
  - rewrite (Z.mod_small (x + d)) by lia.
    destruct (N.ltb_spec (Z.to_N (x + d)) cur); [reflexivity|lia].
  - assert (Q : ((x + d) mod M = x + d + M)%Z).
    { symmetry. apply (Z.mod_unique_pos (x + d) M (-1)); lia. }
    rewrite Q. destruct (N.ltb_spec (Z.to_N (x + d + M)) cur); [lia|reflexivity].
Qed.

Lemma incr_value_lt c cur d : incr_value c cur d < 2 ^ p_V c.
Proof.
  unfold incr_value, val_cast_z.
  assert (E : (2 ^ Z.of_N (p_V c))%Z = Z.of_N (2 ^ p_V c)) by (rewrite N2Z.inj_pow; reflexivity).
  rewrite E. assert (Mp : (0 < Z.of_N (2 ^ p_V c))%Z) by lia.
  pose proof (Z.mod_pos_bound (Z.of_N cur + d) _ Mp). pose proof (Z.mod_pos_bound (Z.of_N cur - d) _ Mp).
  destruct (_ <? _); lia.
Qed.

(* SetIncr is Set of that value (PackedIncrProofs.packed_set_incr_eq); hence: *)
Theorem incr_gen_bits c a i d n : admitted c -> wf c a -> inb c a i -> i < 4294967296 ->
  let val := mp_cast c (incr_value c (getv c a i) d) in
  abit c (incrv c a i d) n =
  if (i * p_w c <=? n) && (n <? i * p_w c + p_w c) then N.testbit val (n - i * p_w c)
  else if (i * p_w c + p_w c <=? n) && (n <? spill_end c i) then abit c a n || N.testbit val (n - i * p_w c)
       else abit c a n.
Proof.
  intros A Hwf Hin Hi. cbv zeta. unfold incrv. rewrite (packed_set_incr_eq c a i d A).
  exact (set_bits_gen c a i _ n A Hwf Hin Hi).
Qed.

Lemma incrv_wf c a i d : admitted c -> wf c a -> wf c (incrv c a i d).
Proof. intros A H. unfold incrv. rewrite (packed_set_incr_eq c a i d A). apply setv_wf; assumption. Qed.

Lemma incrv_length c a i d : admitted c -> length (incrv c a i d) = length a.
Proof. intros A. unfold incrv. rewrite (packed_set_incr_eq c a i d A). apply setv_length. Qed.

(* element i afterwards: the w low bits of the value *)
Theorem incr_gen_same c a i d : admitted c -> wf c a -> inb c a i -> i < 4294967296 ->
  getv c (incrv c a i d) i = mp_cast c (incr_value c (getv c a i) d) mod 2 ^ p_w c.
Proof.
  intros A Hwf Hin Hi. apply N.bits_inj. intro j.
  rewrite (get_bits c _ i j A (incrv_wf c a i d A Hwf) Hi), tb_trunc_gen.
  destruct (N.ltb_spec j (p_w c)) as [Hj|Hj]; cbn [andb]; [|reflexivity].
  rewrite (incr_gen_bits c a i d _ A Hwf Hin Hi). cbv zeta.
  replace (i * p_w c <=? i * p_w c + j) with true by (symmetry; apply N.leb_le; lia).
  replace (i * p_w c + j <? i * p_w c + p_w c) with true by (symmetry; apply N.ltb_lt; lia).
  cbn [andb]. f_equal. lia.
Qed.

(* the elements after i: the value's bits from w upwards are OR-ed in, as far as
   the last slot of element i reaches *)
Theorem incr_gen_after c a i j d b : admitted c -> wf c a -> inb c a i -> i < j -> j < 4294967296 ->
  N.testbit (getv c (incrv c a i d) j) b =
  N.testbit (getv c a j) b ||
  ((b <? p_w c) && (j * p_w c + b <? spill_end c i) &&
   N.testbit (mp_cast c (incr_value c (getv c a i) d)) ((j - i) * p_w c + b)).
Proof.
  intros A Hwf Hin Hij Hj. assert (Hi : i < 4294967296) by lia.
  rewrite (get_bits c _ j b A (incrv_wf c a i d A Hwf) Hj), (get_bits c a j b A Hwf Hj).
  destruct (N.ltb_spec b (p_w c)) as [Hb|Hb]; cbn [andb]; [|reflexivity].
  rewrite (incr_gen_bits c a i d _ A Hwf Hin Hi). cbv zeta.
  pose proof (elem_ranges_disjoint (p_w c) i j Hij) as D.
  replace (j * p_w c + b <? i * p_w c + p_w c) with false by (symmetry; apply N.ltb_ge; lia).
  rewrite andb_false_r.
  replace (i * p_w c + p_w c <=? j * p_w c + b) with true by (symmetry; apply N.leb_le; lia).
  cbn [andb].
  replace (j * p_w c + b - i * p_w c) with ((j - i) * p_w c + b) by nia.
  destruct (j * p_w c + b <? spill_end c i); cbn [andb]; [reflexivity|]. rewrite orb_false_r. reflexivity.
Qed.

(* the elements before i, and those that start at or after the end of i's last slot, keep their value *)
Theorem incr_gen_other c a i j d : admitted c -> wf c a -> inb c a i -> i < 4294967296 -> j < 4294967296 ->
  j < i \/ spill_end c i <= j * p_w c ->
  getv c (incrv c a i d) j = getv c a j.
Proof.
  intros A Hwf Hin Hi Hj Hc. apply getv_ext; try assumption; [apply incrv_wf; assumption|].
  intros b Hb. rewrite (incr_gen_bits c a i d _ A Hwf Hin Hi). cbv zeta.
  pose proof (spill_end_bounds c i A) as [B1 B2].
  destruct Hc as [Hc|Hc].
  - pose proof (elem_ranges_disjoint (p_w c) j i Hc) as D.
    replace (i * p_w c <=? j * p_w c + b) with false by (symmetry; apply N.leb_gt; lia).
    replace (i * p_w c + p_w c <=? j * p_w c + b) with false by (symmetry; apply N.leb_gt; lia).
    reflexivity.
  - replace (j * p_w c + b <? i * p_w c + p_w c) with false by (symmetry; apply N.ltb_ge; lia).
    replace (j * p_w c + b <? spill_end c i) with false by (symmetry; apply N.ltb_ge; lia).
    rewrite !andb_false_r. reflexivity.
Qed.

(* when the value fits in w bits (e.g. a decrement that is turned into an
   increment, or a sum that wrapped modulo 2^V to something small) SetIncr is a
   clean Set: element i holds it and no other storage bit changes *)
Theorem incr_gen_clean c a i d : admitted c -> wf c a -> inb c a i -> i < 4294967296 ->
  incr_value c (getv c a i) d < 2 ^ p_w c ->
  getv c (incrv c a i d) i = incr_value c (getv c a i) d /\
  (forall n, ~ (i * p_w c <= n < i * p_w c + p_w c) -> abit c (incrv c a i d) n = abit c a n).
Proof.
  intros A Hwf Hin Hi Hv. unfold incrv. rewrite (packed_set_incr_eq c a i d A). split.
  - apply get_set_same; assumption.
  - intros n Hn. apply set_bits_outside; assumption.
Qed.
