(* EliasSpec.v — specification of the Elias gamma / delta codes and of the
   MSB-first byte image, written from their mathematical definitions
   (varintElias.h's comment block, DESIGN.md C04), independently of the
   model's loops:
     bits_msb x   = the binary digits of x, most significant first
     gamma(x)     = floor(log2 x) zeros, then bits_msb x
     delta(x)     = gamma(floor(log2 x) + 1), then bits_msb x without its leading 1
     pack_msb bs  = bytes whose bit 7-j of byte i is bs[8i+j], zero padded *)
Require Import VV.Base.
Local Open Scope N_scope.

(* binary digits of a positive, least significant first (the constructors of
   `positive` are the digits) *)
Fixpoint pos_bits_lsb (p : positive) : list bool :=
  match p with
  | xH => [true]
  | xO q => false :: pos_bits_lsb q
  | xI q => true :: pos_bits_lsb q
  end.

Definition bits_msb (x : N) : list bool :=
  match x with
  | 0 => []
  | Npos p => rev (pos_bits_lsb p)
  end.

Definition gamma_code (x : N) : list bool :=
  repeat false (N.to_nat (N.log2 x)) ++ bits_msb x.

Definition delta_code (x : N) : list bool :=
  gamma_code (N.log2 x + 1) ++ tl (bits_msb x).

(* byte image *)
Definition bit_at (bs : list bool) (i : nat) : bool := nth i bs false.

Definition byte8 (b0 b1 b2 b3 b4 b5 b6 b7 : bool) : N :=
  128 * N.b2n b0 + 64 * N.b2n b1 + 32 * N.b2n b2 + 16 * N.b2n b3 +
  8 * N.b2n b4 + 4 * N.b2n b5 + 2 * N.b2n b6 + N.b2n b7.

Definition byte_msb (bs : list bool) (i : nat) : N :=
  byte8 (bit_at bs (8 * i)) (bit_at bs (8 * i + 1)) (bit_at bs (8 * i + 2))
        (bit_at bs (8 * i + 3)) (bit_at bs (8 * i + 4)) (bit_at bs (8 * i + 5))
        (bit_at bs (8 * i + 6)) (bit_at bs (8 * i + 7)).

Definition pack_msb (bs : list bool) : list N :=
  map (byte_msb bs) (seq 0 ((length bs + 7) / 8)).

(* the values the codes are defined on, as 64-bit integers *)
Definition elias_ok (x : N) : Prop := 1 <= x < 18446744073709551616.
